import Bmc.Spec.Sdr
import Bmc.Lemmas.SdrStrings
/-! Each of the four ID string encodings (§43.15), for every character count: decoding the specification's bytes
    returns the characters and consumes exactly those bytes. -/
namespace Bmc.Lemmas.Sdr
open Bmc Bmc.Wire Bmc.Prim

-- BCD plus --------------------------------------------------------------------------------------------------
theorem bcdTable_idx : ∀ c ∈ Spec.bcdPlusTable,
    Spec.bcdPlusTable.idxOf c < 16 ∧ Spec.bcdPlusTable.getD (Spec.bcdPlusTable.idxOf c) 0 = c := by decide +kernel
theorem bcdTable_zero : Spec.bcdPlusTable.idxOf (0x30 : UInt8) = 0 := by decide +kernel
theorem nibbles : ∀ x : Nat, x < 16 → ∀ y : Nat, y < 16 →
    ((UInt8.ofNat x <<< 4) ||| UInt8.ofNat y).toNat / 16 = x ∧ ((UInt8.ofNat x <<< 4) ||| UInt8.ofNat y).toNat % 16 = y := by
  decide +kernel

theorem bcdPack_len (cs : Bytes) : (Spec.bcdPack cs).length = (cs.length + 1) / 2 := by simp [Spec.bcdPack]
theorem bcdPack_getD (cs : Bytes) (k : Nat) (h : k < (cs.length + 1) / 2) :
    (Spec.bcdPack cs).getD k 0 = (Spec.bcdNibble (cs.getD (2 * k) 0x30) <<< 4) ||| Spec.bcdNibble (cs.getD (2 * k + 1) 0x30) := by
  simp [Spec.bcdPack, List.getD_eq_getElem?_getD, h]

/-- a character of the string, or the pad character `0`, is in the alphabet -/
theorem bcd_getD_mem (cs : Bytes) (h : ∀ c ∈ cs, c ∈ Spec.bcdPlusTable) (i : Nat) : cs.getD i 0x30 ∈ Spec.bcdPlusTable := by
  by_cases hi : i < cs.length
  · have : cs.getD i 0x30 = cs[i] := by simp [List.getD_eq_getElem?_getD, hi]
    rw [this]; exact h _ (List.getElem_mem hi)
  · have : cs[i]? = none := List.getElem?_eq_none (by omega)
    simp only [List.getD_eq_getElem?_getD, this, Option.getD_none]
    decide +kernel

theorem bcdPlus_roundtrip (cs : Bytes) (h : ∀ c ∈ cs, c ∈ Spec.bcdPlusTable) :
    Spec.bcdPlus (Spec.bcdPack cs) cs.length = some (cs, (cs.length + 1) / 2) := by
  unfold Spec.bcdPlus
  rw [bcdPack_len]
  simp only [Nat.lt_irrefl, if_false, Option.some.injEq, Prod.mk.injEq, and_true]
  apply List.ext_getElem
  · simp
  · intro i h1 h2
    simp only [List.length_map, List.length_range] at h1
    simp only [List.getElem_map, List.getElem_range]
    rw [bcdPack_getD cs (i / 2) (by omega)]
    have ma := bcdTable_idx _ (bcd_getD_mem cs h (2 * (i / 2)))
    have mb := bcdTable_idx _ (bcd_getD_mem cs h (2 * (i / 2) + 1))
    have nb := nibbles _ ma.1 _ mb.1
    unfold Spec.bcdNibble
    by_cases hp : i % 2 = 0
    · simp only [hp, if_true, nb.1, ma.2]
      have : 2 * (i / 2) = i := by omega
      simp [this, List.getD_eq_getElem?_getD, h1]
    · simp only [hp, if_false, nb.2, mb.2]
      have : 2 * (i / 2) + 1 = i := by omega
      simp [this, List.getD_eq_getElem?_getD, h1]

-- packed 6-bit ASCII ---------------------------------------------------------------------------------------
theorem code6 : ∀ n : Nat, n < 256 → 0x20 ≤ n → n ≤ 0x5f →
    (UInt8.ofNat n - 0x20).toNat < 64 ∧ (UInt8.ofNat n - 0x20) + 0x20 = UInt8.ofNat n := by decide +kernel

theorem codes_of_chars (cs : Bytes) (h : ∀ c ∈ cs, 0x20 ≤ c.toNat ∧ c.toNat ≤ 0x5f) :
    Codes (cs.map (· - 0x20)) ∧ (cs.map (· - 0x20)).map (· + 0x20) = cs := by
  constructor
  · intro x hx
    obtain ⟨c, hc, rfl⟩ := List.mem_map.1 hx
    have := (code6 c.toNat c.toNat_lt (h c hc).1 (h c hc).2).1
    simp at this; exact this
  · rw [List.map_map]
    conv => rhs; rw [← List.map_id cs]
    apply List.map_congr_left
    intro c hc
    simp

/-- via the existing round-trip theorem `decode6_spec` -/
theorem packed6_roundtrip (cs : Bytes) (h : ∀ c ∈ cs, 0x20 ≤ c.toNat ∧ c.toNat ≤ 0x5f) :
    dec6P (pack6 (cs.map (· - 0x20))) cs.length = some (cs, cs.length - cs.length / 4) := by
  obtain ⟨hc, hm⟩ := codes_of_chars cs h
  have hold : Holds (GoSlice.ofBytes (pack6 (cs.map (· - 0x20)))) (cs.map (· - 0x20)) := by
    constructor
    · simp [pack6_len]
    · intro k hk
      rw [GoSlice.vis_ofBytes]
      exact pack6_getD _ k hk
  have h1 := decode6_spec _ _ hc hold
  rw [decode6Go_pure, GoSlice.vis_ofBytes, hm, List.length_map] at h1
  cases hd : dec6P (pack6 (cs.map (· - 0x20))) cs.length with
  | none => rw [hd] at h1; cases h1
  | some r => rw [hd] at h1; simp only [R.ofOption_some, R.ok.injEq] at h1; rw [h1]

-- 8-bit ASCII + Latin-1 and "unicode" ------------------------------------------------------------------------
theorem latin1_roundtrip (cs : Bytes) (h : cs.length ≠ 1) : Spec.latin1 cs cs.length = some (cs, cs.length) := by
  unfold Spec.latin1
  by_cases h0 : cs.length = 0
  · have : cs = [] := List.eq_nil_of_length_eq_zero h0
    simp [this]
  · have h2 : ¬ cs.length < 2 := by omega
    simp [h0, h2]

-- all four ---------------------------------------------------------------------------------------------------
theorem idPure0 (b : Bytes) (c : Nat) : idPure 0 b c = Spec.latin1 b c := rfl
theorem idPure1 (b : Bytes) (c : Nat) : idPure 1 b c = Spec.bcdPlus b c := rfl
theorem idPure2 (b : Bytes) (c : Nat) : idPure 2 b c = dec6P b c := rfl
theorem idPure3 (b : Bytes) (c : Nat) : idPure 3 b c = Spec.latin1 b c := rfl

theorem idString_roundtrip (s : Spec.IdString) (h : s.wf) :
    idPure (UInt8.ofNat s.enc.code) s.bytes s.chars.length = some (s.chars, s.bytes.length) := by
  obtain ⟨enc, cs⟩ := s
  obtain ⟨_, h⟩ := h
  cases enc
  · -- "unicode": decoded like Latin-1
    show idPure 0 cs cs.length = some (cs, cs.length)
    rw [idPure0]; exact latin1_roundtrip cs h
  · show idPure 1 (Spec.bcdPack cs) cs.length = some (cs, (Spec.bcdPack cs).length)
    rw [idPure1, bcdPack_len]; exact bcdPlus_roundtrip cs h
  · show idPure 2 (pack6 (cs.map (· - 0x20))) cs.length = some (cs, (pack6 (cs.map (· - 0x20))).length)
    rw [idPure2, pack6_len, List.length_map]; exact packed6_roundtrip cs h
  · show idPure 3 cs cs.length = some (cs, cs.length)
    rw [idPure3]; exact latin1_roundtrip cs h

/-- fewer bytes than the character count calls for: every decoder reports an error -/
theorem idString_truncated (s : Spec.IdString) (h : s.wf) (b : Bytes) (hb : b.length < s.bytes.length) :
    idPure (UInt8.ofNat s.enc.code) b s.chars.length = none := by
  obtain ⟨enc, cs⟩ := s
  obtain ⟨_, h⟩ := h
  cases enc
  · have hb' : b.length < cs.length := hb
    have h' : cs.length ≠ 1 := h
    show idPure 0 b cs.length = none
    rw [idPure0]; unfold Spec.latin1
    rw [if_neg (by omega)]
    by_cases h2 : b.length < 2
    · rw [if_pos h2]
    · rw [if_neg h2, if_pos hb']
  · have hb' : b.length < (Spec.bcdPack cs).length := hb
    rw [bcdPack_len] at hb'
    show idPure 1 b cs.length = none
    rw [idPure1]; unfold Spec.bcdPlus
    rw [if_pos hb']
  · have hb' : b.length < (pack6 (cs.map (· - 0x20))).length := hb
    rw [pack6_len, List.length_map] at hb'
    show idPure 2 b cs.length = none
    rw [idPure2]; unfold dec6P
    rw [if_pos hb']
  · have hb' : b.length < cs.length := hb
    have h' : cs.length ≠ 1 := h
    show idPure 3 b cs.length = none
    rw [idPure3]; unfold Spec.latin1
    rw [if_neg (by omega)]
    by_cases h2 : b.length < 2
    · rw [if_pos h2]
    · rw [if_neg h2, if_pos hb']

end Bmc.Lemmas.Sdr
