import Bmc.Spec.Dcmi
import Bmc.Wire.Dcmi
/-! Byte-level facts used by `Proofs/C07/Dcmi.lean` (finite checks over whole field ranges) and the list facts about
    the two variable-length layers. -/
namespace Bmc.Lemmas.Dcmi
open Bmc Bmc.Wire

-- parameter 1 ------------------------------------------------------------------------------------------------------
theorem cap1_b0 : ∀ a b c d : Bool,
    ((Spec.bit a 3 ||| Spec.bit b 2 ||| Spec.bit c 1 ||| Spec.bit d 0) &&& 8 != 0) = a ∧
    ((Spec.bit a 3 ||| Spec.bit b 2 ||| Spec.bit c 1 ||| Spec.bit d 0) &&& 4 != 0) = b ∧
    ((Spec.bit a 3 ||| Spec.bit b 2 ||| Spec.bit c 1 ||| Spec.bit d 0) &&& 2 != 0) = c ∧
    ((Spec.bit a 3 ||| Spec.bit b 2 ||| Spec.bit c 1 ||| Spec.bit d 0) &&& 1 != 0) = d := by decide
theorem cap1_b1 : ∀ a : Bool, (Spec.bit a 0 &&& 1 != 0) = a := by decide
theorem cap1_b2_v10 : ∀ a b c d e f : Bool,
    ((Spec.bit a 5 ||| Spec.bit b 4 ||| Spec.bit c 3 ||| Spec.bit d 2 ||| Spec.bit e 1 ||| Spec.bit f 0) &&& 32 != 0) = a ∧
    ((Spec.bit a 5 ||| Spec.bit b 4 ||| Spec.bit c 3 ||| Spec.bit d 2 ||| Spec.bit e 1 ||| Spec.bit f 0) &&& 16 != 0) = b ∧
    ((Spec.bit a 5 ||| Spec.bit b 4 ||| Spec.bit c 3 ||| Spec.bit d 2 ||| Spec.bit e 1 ||| Spec.bit f 0) &&& 8 != 0) = c ∧
    ((Spec.bit a 5 ||| Spec.bit b 4 ||| Spec.bit c 3 ||| Spec.bit d 2 ||| Spec.bit e 1 ||| Spec.bit f 0) &&& 4 != 0) = d ∧
    ((Spec.bit a 5 ||| Spec.bit b 4 ||| Spec.bit c 3 ||| Spec.bit d 2 ||| Spec.bit e 1 ||| Spec.bit f 0) &&& 2 != 0) = e ∧
    ((Spec.bit a 5 ||| Spec.bit b 4 ||| Spec.bit c 3 ||| Spec.bit d 2 ||| Spec.bit e 1 ||| Spec.bit f 0) &&& 1 != 0) = f := by
  decide
/-- three flags in bits 2:0 (parameter 1 byte 3 from v1.1; parameter 2 bytes 3, 4 in v1.0) -/
theorem flags3 : ∀ d e f : Bool,
    ((Spec.bit d 2 ||| Spec.bit e 1 ||| Spec.bit f 0) &&& 4 != 0) = d ∧
    ((Spec.bit d 2 ||| Spec.bit e 1 ||| Spec.bit f 0) &&& 2 != 0) = e ∧
    ((Spec.bit d 2 ||| Spec.bit e 1 ||| Spec.bit f 0) &&& 1 != 0) = f := by decide

-- parameter 2 ------------------------------------------------------------------------------------------------------
theorem cap2_b0_v10 : ∀ r : Bool, ∀ k : Nat, k < 16 →
    ((Spec.bit r 7 ||| UInt8.ofNat k) &&& 0x80 != 0) = r ∧ ((Spec.bit r 7 ||| UInt8.ofNat k) &&& 0xf).toNat = k := by
  decide +kernel
theorem cap2_b0 : ∀ r f l : Bool, ∀ k : Nat, k < 16 →
    ((Spec.bit r 7 ||| Spec.bit f 6 ||| Spec.bit l 5 ||| UInt8.ofNat k) &&& 0x80 != 0) = r ∧
    ((Spec.bit r 7 ||| Spec.bit f 6 ||| Spec.bit l 5 ||| UInt8.ofNat k) &&& 0x40 != 0) = f ∧
    ((Spec.bit r 7 ||| Spec.bit f 6 ||| Spec.bit l 5 ||| UInt8.ofNat k) &&& 0x20 != 0) = l ∧
    ((Spec.bit r 7 ||| Spec.bit f 6 ||| Spec.bit l 5 ||| UInt8.ofNat k) &&& 0xf).toNat = k := by
  decide +kernel

/-- PINNED READING, not the table's: 512 SEL entries with automatic rollover, sent as the 16-bit word 0x8200 least
    significant byte first (`00 82`), come out of the library's decoder as "no rollover, 33280 entries" -/
example :
    (R.ofExcept (DcmiCap2.decode ([1, 5, 2] ++ Spec.selAttrsLSFirst true false false 512 ++ [0, 0, 10]))).map
      (fun g => (g.selAutoRollover, g.selMaxEntries)) = R.ok (false, 33280) := by decide

-- parameter 3 ------------------------------------------------------------------------------------------------------
theorem cap3_b0 : ∀ a : Nat, a < 128 → (UInt8.ofNat a <<< 1) >>> 1 = UInt8.ofNat a := by decide +kernel
theorem cap3_b1 : ∀ c : Nat, c < 16 → ∀ r : Nat, r < 16 →
    ((UInt8.ofNat c <<< 4) ||| UInt8.ofNat r) >>> 4 = UInt8.ofNat c ∧ ((UInt8.ofNat c <<< 4) ||| UInt8.ofNat r) &&& 0xf = UInt8.ofNat r := by
  decide +kernel

-- parameter 5 ------------------------------------------------------------------------------------------------------
/-- the code's conversion of one rolling-average byte is the specification's (C20) -/
theorem rollingNs_spec (b : UInt8) : rollingNs b = Spec.rollingDurationNs b.toNat := rfl

theorem rollingNs_period (p : Spec.RollingPeriod) (h : p.wf) : rollingNs p.byte = p.ns := by
  obtain ⟨hu, hv⟩ := h
  rw [rollingNs_spec]
  unfold Spec.RollingPeriod.byte Spec.RollingPeriod.ns Spec.rollingDurationNs
  have e : (UInt8.ofNat (64 * p.unit + p.value)).toNat = 64 * p.unit + p.value := by
    simp; omega
  rw [e]
  have e1 : (64 * p.unit + p.value) % 64 = p.value := by omega
  have e2 : (64 * p.unit + p.value) / 64 = p.unit := by omega
  rw [e1, e2]

theorem rollingNs_periods (ps : List Spec.RollingPeriod) (h : ∀ p ∈ ps, p.wf) :
    (ps.map Spec.RollingPeriod.byte).map rollingNs = ps.map Spec.RollingPeriod.ns := by
  rw [List.map_map]
  apply List.map_congr_left
  intro p hp
  exact rollingNs_period p (h p hp)

/-- the period bytes may be any byte: each of the 256 values is the byte of a well-formed period -/
theorem period_surjective : ∀ n : Nat, n < 256 →
    (⟨n / 64, n % 64⟩ : Spec.RollingPeriod).byte = UInt8.ofNat n ∧ (n / 64 < 4 ∧ n % 64 < 64) := by decide +kernel

-- Get Power Reading ------------------------------------------------------------------------------------------------
theorem power_state : ∀ a : Bool, (Spec.bit a 6 &&& 0x40 != 0) = a := by decide

-- Get DCMI Sensor Info ---------------------------------------------------------------------------------------------
theorem flat_length (ids : List Nat) : (ids.flatMap Spec.le16).length = 2 * ids.length := by
  induction ids with
  | nil => rfl
  | cons a t ih => simp [List.flatMap_cons, Spec.le16, ih]; omega

theorem le16_flat (ids : List Nat) (h : ∀ r ∈ ids, r < 65536) (i : Nat) (hi : i < ids.length) :
    Wire.le16 ((ids.flatMap Spec.le16).drop (i * 2)) = ids[i] := by
  induction ids generalizing i with
  | nil => simp at hi
  | cons a t ih =>
    cases i with
    | zero =>
      have := h a (by simp)
      simp [List.flatMap_cons, Spec.le16, Wire.le16]
      omega
    | succ j =>
      have e : (j + 1) * 2 = j * 2 + 1 + 1 := by omega
      simp only [List.flatMap_cons, Spec.le16, List.cons_append, List.nil_append, e, List.drop_succ_cons, List.getElem_cons_succ]
      exact ih (fun r hr => h r (by simp [hr])) j (by simpa using hi)

theorem recordIDs_roundtrip (ids : List Nat) (h : ∀ r ∈ ids, r < 65536) :
    (List.range ids.length).map (fun i => Wire.le16 ((ids.flatMap Spec.le16).drop (i * 2))) = ids := by
  apply List.ext_getElem
  · simp
  · intro i h1 h2
    simp only [List.getElem_map, List.getElem_range]
    exact le16_flat ids h i h2

theorem drop_two_add {α : Type} (a b : α) (l : List α) (k : Nat) : (a :: b :: l).drop (2 + k) = l.drop k := by
  rw [Nat.add_comm]; rfl

end Bmc.Lemmas.Dcmi
