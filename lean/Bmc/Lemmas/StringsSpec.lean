import Bmc.Prim.Strings
namespace Bmc.Prim
open Bmc

theorem nibble_hi : ∀ n : Nat, n < 256 → ((UInt8.ofNat n >>> 4) &&& 0xf).toNat = n / 16 := by decide +kernel
theorem nibble_lo : ∀ n : Nat, n < 256 → (UInt8.ofNat n &&& 0xf).toNat = n % 16 := by decide +kernel

theorem bcdChar_spec (d : GoSlice) (i : Nat) (h : i / 2 < d.len) :
    bcdChar d i = R.ok (Spec.bcdPlusTable.getD
      (if i % 2 = 0 then (d.vis.getD (i / 2) 0).toNat / 16 else (d.vis.getD (i / 2) 0).toNat % 16) 0) := by
  unfold bcdChar
  rw [GoSlice.idx_ok _ _ h]
  simp only [R.bind_ok, R.pure_eq]
  generalize d.vis.getD (i / 2) 0 = b
  have h1 := nibble_hi b.toNat b.toNat_lt
  have h2 := nibble_lo b.toNat b.toNat_lt
  simp only [UInt8.ofNat_toNat] at h1 h2
  split <;> simp [h1, h2]

theorem loopBcd_spec (d : GoSlice) (c : Nat) (hc : (c + 1) / 2 ≤ d.len) (i n : Nat) (hin : i + n ≤ c) :
    loopBcd d i n = R.ok ((List.range' i n).map (fun i =>
      Spec.bcdPlusTable.getD
        (if i % 2 = 0 then (d.vis.getD (i / 2) 0).toNat / 16 else (d.vis.getD (i / 2) 0).toNat % 16) 0)) := by
  induction n generalizing i with
  | zero => rfl
  | succ n ih =>
    simp only [loopBcd]
    rw [bcdChar_spec d i (by omega), ih (i + 1) (by omega)]
    simp [List.range'_succ]

theorem bcdPlusGo_spec (d : GoSlice) (c : Nat) : bcdPlusGo d c = R.ofOption (Spec.bcdPlus d.vis c) := by
  unfold bcdPlusGo Spec.bcdPlus
  simp only [GoSlice.vis_length]
  split
  · rfl
  · rw [loopBcd_spec d c (by omega) 0 c (by omega)]
    simp [List.range_eq_range']

theorem latin1Go_spec (d : GoSlice) (c : Nat) : latin1Go d c = R.ofOption (Spec.latin1 d.vis c) := by
  unfold latin1Go Spec.latin1
  simp only [GoSlice.vis_length]
  split
  · rfl
  · split
    · rfl
    · split
      · rfl
      · rw [GoSlice.slice_ok _ _ _ (by omega) (by omega)]
        simp

theorem or40 : ∀ x : Nat, x < 64 → x % 256 ||| 0x40 = x + 0x40 ∧ x % 256 ||| 0x80 = x + 0x80 ∧ x % 256 ||| 0xc0 = x + 0xc0 := by
  decide +kernel

theorem rollingByteGo_spec (s : Nat) : rollingByteGo s = Spec.rollingByte s := by
  unfold rollingByteGo Spec.rollingByte
  split
  · omega
  · split
    · exact (or40 (s / 60) (by omega)).1
    · split
      · exact (or40 (s / 3600) (by omega)).2.1
      · exact (or40 (min (s / 86400) 63) (by omega)).2.2

end Bmc.Prim
