import Bmc.Spec.DeviceID
import Bmc.Wire.DeviceID
/-! Byte-level facts used by `Proofs/C07/Basic.lean` (finite checks over whole field ranges). -/
namespace Bmc.Lemmas.DeviceID
open Bmc Bmc.Wire

theorem b1 : ∀ s : Bool, ∀ r : Nat, r < 16 →
    ((Spec.bit s 7 ||| UInt8.ofNat r) &&& 0x80 != 0) = s ∧ (Spec.bit s 7 ||| UInt8.ofNat r) &&& 0x0f = UInt8.ofNat r := by
  decide +kernel
theorem b2 : ∀ a : Bool, ∀ r : Nat, r < 128 →
    ((Spec.bit (!a) 7 ||| UInt8.ofNat r) &&& 0x80 == 0) = a ∧ (Spec.bit (!a) 7 ||| UInt8.ofNat r) &&& 0x7f = UInt8.ofNat r := by
  decide +kernel
theorem b3 : ∀ n : Nat, n < 100 → bcdDecode (Spec.bcdByte n) = UInt8.ofNat n := by decide +kernel
theorem b4 : ∀ a : Nat, a < 16 → ∀ b : Nat, b < 16 →
    ((UInt8.ofNat b <<< 4) ||| UInt8.ofNat a) &&& 0xf = UInt8.ofNat a ∧ ((UInt8.ofNat b <<< 4) ||| UInt8.ofNat a) >>> 4 = UInt8.ofNat b := by
  decide +kernel
end Bmc.Lemmas.DeviceID
