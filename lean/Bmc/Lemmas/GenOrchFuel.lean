import Bmc.Basic.GoOrch
/-! "Never out of fuel", compositionally: `NoFuelOut x` = the computation `x` does not end with `RF.outOfFuel` from any
    state. Closed under the constructs the translator emits; the fuelled loops themselves need their own argument (a
    measure that decreases every round). Used for the `F_fuel_any` theorems of `Proofs/GenOrch/*`: the fuel suffices for
    EVERY answer function, over ANY state. -/
namespace Bmc.Lemmas.GenOrch
open Bmc Bmc.GoOrch

def NoFuelOut {σ α : Type} (x : M σ α) : Prop := ∀ s, (x s).1 ≠ .outOfFuel

section
variable {σ α β ρ C Q P : Type}

theorem NoFuelOut.pure (a : α) : NoFuelOut (Pure.pure a : M σ α) := fun s h => by cases h
theorem NoFuelOut.fail : NoFuelOut (GoOrch.fail : M σ α) := fun s h => by cases h
theorem NoFuelOut.panic : NoFuelOut (GoOrch.panic : M σ α) := fun s h => by cases h
theorem NoFuelOut.getCell : NoFuelOut (GoOrch.getCell : M (σ × C) C) := fun s h => by cases h
theorem NoFuelOut.modifyCell (f : C → C) : NoFuelOut (GoOrch.modifyCell f : M (σ × C) Unit) := fun s h => by cases h
theorem NoFuelOut.derefOpt (o : Option α) : NoFuelOut (GoOrch.derefOpt o : M σ α) := fun s h => by
  cases o <;> cases h
theorem NoFuelOut.listIdx (l : List α) (i : Nat) : NoFuelOut (GoOrch.listIdx l i : M σ α) := fun s h => by
  unfold GoOrch.listIdx at h
  cases hl : l[i]? <;> rw [hl] at h <;> cases h
theorem NoFuelOut.send (ans : σ → Q → σ × P × Bool) (req : C → Q) (setRsp : C → P → C) :
    NoFuelOut (GoOrch.send ans req setRsp) := fun s h => by
  rw [send_apply] at h
  cases hb : (ans s.1 (req s.2)).2.2 <;> rw [hb] at h <;> cases h
theorem NoFuelOut.call (ans : σ → σ × Option P) : NoFuelOut (GoOrch.call ans) := fun s h => by
  rw [call_apply] at h
  cases hb : (ans s).2 <;> rw [hb] at h <;> cases h
theorem NoFuelOut.liftRF (r : RF α) (hr : r ≠ .outOfFuel) : NoFuelOut (GoOrch.liftRF r : M σ α) := fun s h => hr h

theorem NoFuelOut.bind (x : M σ α) (f : α → M σ β) (hx : NoFuelOut x) (hf : ∀ a, NoFuelOut (f a)) : NoFuelOut (x >>= f) := by
  intro s h
  rw [bind_apply] at h
  have := hx s
  cases hr : x s with
  | mk r s' =>
    rw [hr] at h this
    cases r with
    | ok a => exact hf a s' h
    | err => cases h
    | panic => cases h
    | overread => cases h
    | outOfFuel => exact this rfl

theorem NoFuelOut.ite (c : Prop) [Decidable c] (x y : M σ α) (hx : NoFuelOut x) (hy : NoFuelOut y) :
    NoFuelOut (if c then x else y) := by
  split <;> assumption

theorem NoFuelOut.try_ (x : M σ α) (hx : NoFuelOut x) : NoFuelOut (GoOrch.try_ x) := by
  intro s h
  unfold GoOrch.try_ at h
  have := hx s
  cases hr : x s with
  | mk r s' =>
    rw [hr] at h this
    cases r <;> first | exact this rfl | cases h

theorem NoFuelOut.withCell (c : C) (x : M (σ × C) α) (hx : NoFuelOut x) : NoFuelOut (GoOrch.withCell c x) :=
  fun s h => hx (s, c) h

theorem NoFuelOut.liftCell (x : M σ α) (hx : NoFuelOut x) : NoFuelOut (GoOrch.liftCell x : M (σ × C) α) :=
  fun s h => hx s.1 h

theorem NoFuelOut.forEach (l : List α) (step : β → α → M σ (Step β)) (hs : ∀ b x, NoFuelOut (step b x)) :
    ∀ b, NoFuelOut (GoOrch.forEach l step b) := by
  induction l with
  | nil => intro b s h; cases h
  | cons x xs ih =>
    intro b s h
    rw [forEach_cons] at h
    have := hs b x s
    cases hr : step b x s with
    | mk r s' =>
      rw [hr] at h this
      cases r with
      | ok c => cases c with
        | next b' => exact ih b' s' h
        | brk b' => cases h
      | err => cases h
      | panic => cases h
      | overread => cases h
      | outOfFuel => exact this rfl

theorem NoFuelOut.forEachR (l : List α) (step : β → α → M σ (Ctl β ρ)) (hs : ∀ b x, NoFuelOut (step b x)) :
    ∀ b, NoFuelOut (GoOrch.forEachR l step b) := by
  induction l with
  | nil => intro b s h; cases h
  | cons x xs ih =>
    intro b s h
    rw [forEachR_cons] at h
    have := hs b x s
    cases hr : step b x s with
    | mk r s' =>
      rw [hr] at h this
      cases r with
      | ok c => cases c with
        | next b' => exact ih b' s' h
        | brk b' => cases h
        | ret v => cases h
      | err => cases h
      | panic => cases h
      | overread => cases h
      | outOfFuel => exact this rfl

theorem NoFuelOut.retry (n : Nat) (op : M σ α) (h : NoFuelOut op) : NoFuelOut (GoOrch.retry n op) := by
  induction n with
  | zero => intro s hh; cases hh
  | succ k ih =>
    intro s hh
    rw [retry_succ] at hh
    have := h s
    cases hr : op s with
    | mk r s' =>
      rw [hr] at hh this
      cases r with
      | err => exact ih s' hh
      | ok a => cases hh
      | panic => cases hh
      | overread => cases hh
      | outOfFuel => exact this rfl

theorem NoFuelOut.congr (x y : M σ α) (h : ∀ s, x s = y s) (hy : NoFuelOut y) : NoFuelOut x := fun s => by rw [h]; exact hy s

end
end Bmc.Lemmas.GenOrch

namespace Bmc
/-- discharge `NoFuelOut` goals structurally; goals about fuelled loops (and other opaque terms) are left -/
syntax "nofuel_step" : tactic
macro_rules
  | `(tactic| nofuel_step) => `(tactic| with_reducible first
      | assumption
      | exact Lemmas.GenOrch.NoFuelOut.pure _
      | exact Lemmas.GenOrch.NoFuelOut.fail
      | exact Lemmas.GenOrch.NoFuelOut.panic
      | exact Lemmas.GenOrch.NoFuelOut.getCell
      | exact Lemmas.GenOrch.NoFuelOut.modifyCell _
      | exact Lemmas.GenOrch.NoFuelOut.derefOpt _
      | exact Lemmas.GenOrch.NoFuelOut.listIdx _ _
      | exact Lemmas.GenOrch.NoFuelOut.send _ _ _
      | exact Lemmas.GenOrch.NoFuelOut.call _
      | refine Lemmas.GenOrch.NoFuelOut.bind _ _ ?_ (fun _ => ?_)
      | refine Lemmas.GenOrch.NoFuelOut.ite _ _ _ ?_ ?_
      | refine Lemmas.GenOrch.NoFuelOut.try_ _ ?_
      | refine Lemmas.GenOrch.NoFuelOut.withCell _ _ ?_
      | refine Lemmas.GenOrch.NoFuelOut.liftCell _ ?_
      | refine Lemmas.GenOrch.NoFuelOut.forEach _ _ (fun _ _ => ?_) _
      | refine Lemmas.GenOrch.NoFuelOut.forEachR _ _ (fun _ _ => ?_) _
      | refine Lemmas.GenOrch.NoFuelOut.retry _ _ ?_)
end Bmc
