import Bmc.Proto.Handshake
/-! The handshake model `Proto.newSession` (`Proto/Handshake.lean`) RE-FACTORED at the level where an exchange has ended
    with a decoded payload — the level at which the session establishment code regenerated from the Go source
    (`Gen/Hs.lean`) takes its parameters (`Proofs/GenHs/*`). Nothing of `Proto/Handshake.lean` is changed:

    * `openChecks` / `rakp2Checks` / `rakp4Checks` — what `stepOpen` / `stepRakp2` / `stepRakp4` do once the reply script
      has been consumed and the payload decoded (`stepOpen_eq` …: each step IS exchange, decode, then these checks);
    * `Answers σ` / `hsRun` — the composition of the three steps over ABSTRACT answers: for each of the three requests
      (given by the arguments of the hand model's encoders) what the exchange ended with — a decoded value, an error or a
      crash — threaded through a state; and the random draw;
    * `scriptAnswers` / `newSession_eq_hsRun` — `Proto.newSession` on a reply script IS `hsRun` over the answers the script
      induces (exchange, decode; state = the rest of the script and the datagrams transmitted so far). -/
namespace Bmc.Lemmas.GenHs
open Bmc Bmc.Wire Bmc.Crypto Bmc.Proto

/-! ## the three steps after the decoding -/

/-- `openSession`'s tag / status checks and `newV2Session`'s comparison of the confirmed algorithms with the PROPOSAL -/
def openChecks (o : Opts) (osr : OpenSessionRsp) : Except HsRes OpenSessionRsp :=
  if osr.tag != 0 then .error .error else
  if osr.status != 0 then .error .error else
  if osr.auth != o.auth || osr.integ != o.integ || osr.conf != o.conf then .error .error else
  .ok osr

/-- `rakpMessage1`'s tag / status checks, the hash table, and the RAKP 2 AuthCode check -/
def rakp2Checks (C : Ops) (o : Opts) (rm : Bytes) (osr : OpenSessionRsp) (rk2 : RAKP2) : Except HsRes (RAKP2 × HashAlg) :=
  if rk2.tag != 0 then .error .error else
  if rk2.status != 0 then .error .error else
  match authHash osr.auth with
  | none => .error .error
  | some h =>
    if rk2.authCode != rakp2Code C h o rm osr rk2 then .error .incorrectPassword else .ok (rk2, h)

/-- `rakpMessage3`'s tag / status checks, the RAKP 4 ICV check and the algorithm constructors -/
def rakp4Checks (C : Ops) (o : Opts) (rm : Bytes) (osr : OpenSessionRsp) (rk2 : RAKP2) (h : HashAlg) (rk4 : RAKP4) : Except HsRes HsRes :=
  if rk4.tag != 0 then .error .error else
  if rk4.status != 0 then .error .error else
  let sik := sikOf C h o rm rk2
  if rk4.icv != icvOf C h osr.auth sik rm osr rk2 then .error .error else
  if !(osr.integ == 1 || osr.integ == 2 || osr.integ == 4) then .error .error else
  if osr.conf != 1 then .error .error else
  .ok (.ok osr.consoleSessionID osr.bmcSessionID osr.auth osr.integ osr.conf sik
        (C.hmac h sik (List.replicate 20 1)) (C.hmac h sik (List.replicate 20 2)))

/-- an exchange followed by the layer's decoder: a decoded value, an error, or a crash -/
def decoded {α : Type} (dec : GoSlice → R α) (script : List Outcome) : Except HsRes α :=
  match exchangePayload script with
  | .error e => .error e
  | .ok p =>
    match dec p with
    | .panic | .overread => .error .crashed
    | .err => .error .error
    | .ok v => .ok v

theorem stepOpen_eq (o : Opts) (script : List Outcome) :
    stepOpen o script = (decoded (OpenSessionRsp.decodeGo {}) script >>= openChecks o) := by
  unfold stepOpen decoded openChecks
  cases exchangePayload script with
  | error e => rfl
  | ok p => simp only []; cases OpenSessionRsp.decodeGo {} p <;> rfl

theorem stepRakp2_eq (C : Ops) (o : Opts) (rm : Bytes) (osr : OpenSessionRsp) (script : List Outcome) :
    stepRakp2 C o rm osr script = (decoded (RAKP2.decodeGo true {}) script >>= rakp2Checks C o rm osr) := by
  unfold stepRakp2 decoded rakp2Checks
  cases exchangePayload script with
  | error e => rfl
  | ok p => simp only []; cases RAKP2.decodeGo true {} p <;> rfl

theorem stepRakp4_eq (C : Ops) (o : Opts) (rm : Bytes) (osr : OpenSessionRsp) (rk2 : RAKP2) (h : HashAlg) (script : List Outcome) :
    stepRakp4 C o rm osr rk2 h script = (decoded (RAKP4.decodeGo {}) script >>= rakp4Checks C o rm osr rk2 h) := by
  unfold stepRakp4 decoded rakp4Checks
  cases exchangePayload script with
  | error e => rfl
  | ok p => simp only []; cases RAKP4.decodeGo {} p <;> rfl

/-! ## the composition over abstract answers -/

/-- the request of the Open Session exchange: the arguments of `OpenSessionReq.encode` -/
structure OpenReq where
  tag : UInt8
  priv : UInt8
  sid : Nat
  auth : UInt8
  integ : UInt8
  conf : UInt8
  deriving Repr, DecidableEq

/-- the request of the RAKP 1 / 2 exchange: the arguments of `RAKP1.encode` -/
structure Rakp1Req where
  tag : UInt8
  bmcSID : Nat
  rm : Bytes
  lookup : Bool
  priv : UInt8
  user : Bytes
  deriving Repr, DecidableEq

/-- the request of the RAKP 3 / 4 exchange: the arguments of `RAKP3.encode` (status OK) -/
structure Rakp3Req where
  tag : UInt8
  bmcSID : Nat
  authCode : Bytes
  deriving Repr, DecidableEq

/-- what each exchange ends with (a decoded value; `.error .error`: no usable reply, or it does not decode; `.error
    .crashed`: the decoder panics), as a function of a state and the request; and the random draw (`none`: an error) -/
structure Answers (σ : Type) where
  openSession : σ → OpenReq → σ × Except HsRes OpenSessionRsp
  rand : σ → σ × Option Bytes
  rakp1 : σ → Rakp1Req → σ × Except HsRes RAKP2
  rakp3 : σ → Rakp3Req → σ × Except HsRes RAKP4

/-- THE ORDER OF SESSION ESTABLISHMENT in the hand model: Open Session (tag 0, the caller's privilege level, console session
    ID 1, the PROPOSED algorithms) — checks — the random draw — RAKP 1 (tag 0, the BMC's session ID, the draw, the
    caller's lookup mode, privilege level and user name) — checks (RAKP 2 AuthCode) — RAKP 3 (tag 0, the BMC's session ID,
    the RAKP 3 AuthCode) — checks (RAKP 4 ICV, the algorithm constructors). A failed check ends it in the state reached:
    nothing more is asked. -/
def hsRun {σ : Type} (C : Ops) (A : Answers σ) (o : Opts) (s : σ) : HsRes × σ :=
  let x1 := A.openSession s ⟨0, o.priv, 1, o.auth, o.integ, o.conf⟩
  match x1.2 >>= openChecks o with
  | .error e => (e, x1.1)
  | .ok osr =>
  let x0 := A.rand x1.1
  match x0.2 with
  | none => (.error, x0.1)
  | some rm =>
  let x2 := A.rakp1 x0.1 ⟨0, osr.bmcSessionID, rm, o.lookup, o.priv, o.user⟩
  match x2.2 >>= rakp2Checks C o rm osr with
  | .error e => (e, x2.1)
  | .ok (rk2, h) =>
  let x3 := A.rakp3 x2.1 ⟨0, osr.bmcSessionID, rakp3Code C h o rk2⟩
  match x3.2 >>= rakp4Checks C o rm osr rk2 h with
  | .error e => (e, x3.1)
  | .ok r => (r, x3.1)

/-- the checks never crash: a crash comes from a decoder only -/
theorem openChecks_not_crashed (o : Opts) (osr : OpenSessionRsp) : openChecks o osr ≠ .error .crashed := by
  unfold openChecks; repeat' split
  all_goals (intro h; cases h)
theorem rakp2Checks_not_crashed (C : Ops) (o : Opts) (rm : Bytes) (osr : OpenSessionRsp) (rk2 : RAKP2) :
    rakp2Checks C o rm osr rk2 ≠ .error .crashed := by
  unfold rakp2Checks; repeat' split
  all_goals (intro h; cases h)
theorem rakp4Checks_not_crashed (C : Ops) (o : Opts) (rm : Bytes) (osr : OpenSessionRsp) (rk2 : RAKP2) (h : HashAlg) (rk4 : RAKP4) :
    rakp4Checks C o rm osr rk2 h rk4 ≠ .error .crashed ∧ rakp4Checks C o rm osr rk2 h rk4 ≠ .ok .crashed := by
  unfold rakp4Checks
  simp only []
  repeat' split
  all_goals (constructor <;> (intro h; cases h))

/-- … so `hsRun` over answers that never crash never ends with `crashed` -/
theorem hsRun_not_crashed {σ : Type} (C : Ops) (A : Answers σ) (o : Opts) (s : σ)
    (h1 : ∀ s r, (A.openSession s r).2 ≠ .error .crashed) (h2 : ∀ s r, (A.rakp1 s r).2 ≠ .error .crashed)
    (h3 : ∀ s r, (A.rakp3 s r).2 ≠ .error .crashed) : (hsRun C A o s).1 ≠ .crashed := by
  have bindNC : ∀ {α β : Type} (x : Except HsRes α) (f : α → Except HsRes β), x ≠ .error .crashed →
      (∀ a, f a ≠ .error .crashed) → (x >>= f) ≠ .error .crashed := by
    intro α β x f hx hf
    cases x with
    | error e => intro hc; cases hc; exact hx rfl
    | ok a => exact hf a
  unfold hsRun
  simp only []
  split
  · rename_i e he
    intro hc; simp only at hc; subst hc
    exact bindNC _ _ (h1 _ _) (openChecks_not_crashed o) he
  · split
    · intro hc; cases hc
    · split
      · rename_i e he
        intro hc; simp only at hc; subst hc
        exact bindNC _ _ (h2 _ _) (fun a => rakp2Checks_not_crashed C o _ _ a) he
      · split
        · rename_i e he
          intro hc; simp only at hc; subst hc
          exact bindNC _ _ (h3 _ _) (fun a => (rakp4Checks_not_crashed C o _ _ _ _ a).1) he
        · rename_i r hr
          intro hc; simp only at hc; subst hc
          revert hr
          generalize (A.rakp3 _ _).2 = x3
          cases x3 with
          | error e => intro hr; cases hr
          | ok v => exact (rakp4Checks_not_crashed C o _ _ _ _ v).2

/-! ## the answers a reply script induces -/

/-- the state of the script-driven answers: what is left of the script, and every datagram transmitted so far -/
abbrev ScriptState := List Outcome × List Bytes

/-- one exchange of `buildAndSendPayload` on the rest of the script: `n` transmissions of the datagram, then the decoder -/
def scriptExchange {α : Type} (ptype : UInt8) (payload : Bytes) (dec : GoSlice → R α) (s : ScriptState) :
    ScriptState × Except HsRes α :=
  ((s.1.drop (exchange s.1).1, s.2 ++ List.replicate (exchange s.1).1 (setupDatagram ptype payload)), decoded dec s.1)

/-- the hand model's exchanges: the request serialised by the hand model's encoder (a user name of more than 16 bytes is
    refused by `RAKPMessage1.SerializeTo`: nothing is transmitted), `exchange` on the script, the layer's decoder -/
def scriptAnswers (rm : Bytes) : Answers ScriptState where
  openSession s r := scriptExchange 0x10 (OpenSessionReq.encode r.tag r.priv r.sid r.auth r.integ r.conf) (OpenSessionRsp.decodeGo {}) s
  rand s := (s, some rm)
  rakp1 s r :=
    match RAKP1.encode r.tag r.bmcSID r.rm r.lookup r.priv r.user with
    | .error _ => (s, .error .error)
    | .ok rk1 => scriptExchange 0x12 rk1 (RAKP2.decodeGo true {}) s
  rakp3 s r := scriptExchange 0x14 (RAKP3.encode r.tag r.bmcSID r.authCode) (RAKP4.decodeGo {}) s

/-- `Proto.newSession` IS the composition `hsRun` over the answers its reply script induces: the result, and the datagrams
    transmitted — for every option value, every draw and every script -/
theorem newSession_eq_hsRun (C : Ops) (o : Opts) (rm : Bytes) (script : List Outcome) :
    newSession C o rm script =
      ((hsRun C (scriptAnswers rm) o (script, [])).2.2, (hsRun C (scriptAnswers rm) o (script, [])).1) := by
  unfold newSession hsRun
  simp only [scriptAnswers, scriptExchange, stepOpen_eq, stepRakp2_eq, stepRakp4_eq, List.nil_append]
  cases h1 : (decoded (OpenSessionRsp.decodeGo {}) script >>= openChecks o) with
  | error e => rfl
  | ok osr =>
    simp only []
    cases RAKP1.encode 0 osr.bmcSessionID rm o.lookup o.priv o.user with
    | error _ => rfl
    | ok rk1 =>
      simp only []
      cases h2 : (decoded (RAKP2.decodeGo true {}) (List.drop (exchange script).1 script) >>= rakp2Checks C o rm osr) with
      | error e => rfl
      | ok p =>
        obtain ⟨rk2, h⟩ := p
        simp only []
        cases h3 : (decoded (RAKP4.decodeGo {}) (List.drop (exchange (List.drop (exchange script).1 script)).1
            (List.drop (exchange script).1 script)) >>= rakp4Checks C o rm osr rk2 h) <;> rfl

end Bmc.Lemmas.GenHs
