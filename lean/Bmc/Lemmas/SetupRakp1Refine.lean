import Bmc.Wire.Rakp1
/-! Refinement of `RAKP1.decodeGo` to the pure decoder. -/
namespace Bmc.Wire.Setup
open Bmc Bmc.Wire

theorem u8_gt16 (n : UInt8) : (n > 16) ↔ n.toNat > 16 := by
  show (16 : UInt8) < n ↔ _
  rw [UInt8.lt_iff_toNat_lt]; rfl

theorem u8_add28 (n : UInt8) (h : ¬ n.toNat > 16) : (28 + n).toNat = 28 + n.toNat := by
  rw [UInt8.toNat_add]
  have : (28 : UInt8).toNat = 28 := rfl
  omega

theorem RAKP1.decodeGo_refines (prev : RAKP1) (d : GoSlice) :
    RAKP1.decodeGo prev d = R.ofExcept (RAKP1.decode d.vis) := by
  unfold RAKP1.decodeGo RAKP1.decode
  simp -zeta only [GoSlice.vis_length]
  by_cases h : d.len < 28
  · simp [h]
  · simp -zeta only [h, if_false]
    simp -zeta (disch := omega) only [GoSlice.idx_ok, GoSlice.slice_ok, R.bind_ok]
    simp only [u8_gt16]
    generalize List.getD d.vis 27 0 = n
    by_cases hn : n.toNat > 16
    · simp [hn]
    · simp -zeta only [hn, if_false, u8_add28 _ hn]
      by_cases hl : d.len < 28 + n.toNat
      · simp [hl]
      · simp -zeta only [hl, if_false]
        simp -zeta (disch := omega) only [GoSlice.slice_ok, R.bind_ok]
        simp [le32_take]

end Bmc.Wire.Setup
