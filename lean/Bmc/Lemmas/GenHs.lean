import Bmc.Gen.Hs
import Bmc.Lemmas.GenHsModel
import Bmc.Lemmas.GenKeys
/-! Helper definitions for `Proofs/GenHs/*.lean`: SESSION ESTABLISHMENT as REGENERATED from the Go source (`Bmc/Gen/Hs.lean`:
    `newV2Session`, `openSession`, `rakpMessage1`, `rakpMessage3`) against the hand-written handshake model
    (`Proto/Handshake.lean`, re-factored in `Lemmas/GenHsModel.lean`). THE IDENTIFICATION, stated explicitly:

    * `osrView` / `rk2View` / `rk4View` — what the response struct of a payload holds after `buildAndSendPayload`, read as the
      model's decoded `OpenSessionRsp` / `RAKP2` / `RAKP4` (field renaming, `toNat` of the session IDs; the same renaming as
      `Lemmas/GenDec.lean: …toModel` followed by `Lemmas/SetupBridge.lean: forgetOpen`);
    * `goOpenReq` / `goRakp1` / `goRakp3` — the request struct handed to a wrapper, for the arguments of the hand model's
      encoders (`OpenSessionReq.encode`, `RAKP1.encode`, `RAKP3.encode`: tag, IDs, algorithms, …; no wildcard; RAKP 3 status OK);
    * `viewAnswers` — the answer functions of `buildAndSendPayload` (the PARAMETERS `send_<Payload>` of `Gen/Hs.lean`) and of
      `rand.Read`, read as the model's `Answers`: error is nil ↦ the decoded value, otherwise `.error .error`;
    * `optsOf` — the options and the cipher suite `determineCipherSuite` proposed, as the model's `Opts`;
    * `goOutcome` / `sessionOf` — the model's result as the value `newV2Session` returns: the `V2Session` with its IDs, SIK,
      algorithms, the key-material generator's hash (HMAC under the SIK), the integrity hasher (keyed with K1) and the
      AES key (first 16 bytes of K2); `ErrIncorrectPassword`; any other error; a panic. -/
namespace Bmc.Lemmas.GenHs
open Bmc Bmc.Wire Bmc.Crypto Bmc.Proto Bmc.GoOrch

def osrView (g : Gen.Hs.OpenSessionRsp) : OpenSessionRsp :=
  { tag := g.tag, status := g.status, maxPriv := g.maxPrivilegeLevel, consoleSessionID := g.remoteConsoleSessionID.toNat
    bmcSessionID := g.managedSystemSessionID.toNat
    authWild := g.authenticationPayload.wildcard, auth := g.authenticationPayload.algorithm
    integWild := g.integrityPayload.wildcard, integ := g.integrityPayload.algorithm
    confWild := g.confidentialityPayload.wildcard, conf := g.confidentialityPayload.algorithm }

/-- (`BaseLayer.Contents` is not part of the regenerated structure: the model's `contents` reads as empty; no step looks at it) -/
def rk2View (g : Gen.Hs.RAKPMessage2) : RAKP2 :=
  { tag := g.tag, status := g.status, consoleSessionID := g.remoteConsoleSessionID.toNat, bmcRandom := g.managedSystemRandom
    bmcGUID := g.managedSystemGUID, authCode := g.authCode, contents := [] }

def rk4View (g : Gen.Hs.RAKPMessage4) : RAKP4 :=
  { tag := g.tag, status := g.status, consoleSessionID := g.remoteConsoleSessionID.toNat, icv := g.icv }

def goOpenReq (r : OpenReq) : Gen.Hs.OpenSessionReq :=
  { tag := r.tag, maxPrivilegeLevel := r.priv, sessionID := UInt32.ofNat r.sid
    authenticationPayload := { wildcard := false, algorithm := r.auth }
    integrityPayload := { wildcard := false, algorithm := r.integ }
    confidentialityPayload := { wildcard := false, algorithm := r.conf } }

def goRakp1 (r : Rakp1Req) : Gen.Hs.RAKPMessage1 :=
  { tag := r.tag, managedSystemSessionID := UInt32.ofNat r.bmcSID, remoteConsoleRandom := r.rm, privilegeLevelLookup := r.lookup
    maxPrivilegeLevel := r.priv, username := r.user }

def goRakp3 (r : Rakp3Req) : Gen.Hs.RAKPMessage3 :=
  { tag := r.tag, status := 0, managedSystemSessionID := UInt32.ofNat r.bmcSID, authCode := r.authCode }

/-- the parameters of the regenerated code, read as the model's answers. The random draw: the 16-byte array after
    `rand.Read(remoteConsoleRandom[:])` (the bytes drawn; a draw shorter than asked for leaves zeros) -/
def viewAnswers {σ : Type}
    (sendO : σ → Gen.Hs.OpenSessionReq → σ × Gen.Hs.OpenSessionRsp × Bool)
    (sendR1 : σ → Gen.Hs.RAKPMessage1 → σ × Gen.Hs.RAKPMessage2 × Bool)
    (sendR3 : σ → Gen.Hs.RAKPMessage3 → σ × Gen.Hs.RAKPMessage4 × Bool)
    (rr : σ → Nat → σ × Option Bytes) : Answers σ where
  openSession s r := ((sendO s (goOpenReq r)).1, if (sendO s (goOpenReq r)).2.2 then .ok (osrView (sendO s (goOpenReq r)).2.1) else .error .error)
  rand s := ((rr s 16).1, (rr s 16).2.map (GoKeys.copyArr 16 (List.replicate 16 0)))
  rakp1 s r := ((sendR1 s (goRakp1 r)).1, if (sendR1 s (goRakp1 r)).2.2 then .ok (rk2View (sendR1 s (goRakp1 r)).2.1) else .error .error)
  rakp3 s r := ((sendR3 s (goRakp3 r)).1, if (sendR3 s (goRakp3 r)).2.2 then .ok (rk4View (sendR3 s (goRakp3 r)).2.1) else .error .error)

/-- the caller's options with the suite `determineCipherSuite` proposed -/
def optsOf (opts : Gen.Hs.V2SessionOpts) (cs : Gen.Dec.CipherSuite) : Opts :=
  { user := opts.sessionOpts.username, pass := opts.sessionOpts.password, kg := opts.kg, priv := opts.sessionOpts.maxPrivilegeLevel
    lookup := opts.privilegeLevelLookup, auth := cs.authenticationAlgorithm, integ := cs.integrityAlgorithm
    conf := cs.confidentialityAlgorithm }

def hashFnOf : UInt8 → Gen.Keys.HashFn
  | 1 => .sha1_New
  | 2 => .md5_New
  | _ => .sha256_New

/-- the `hash.Hash` of every in-session packet's AuthCode: HMAC-SHA1-96, HMAC-MD5-128, HMAC-SHA256-128 keyed with K1 -/
def hasherOf (i : UInt8) (k1 : Bytes) : Gen.Keys.HashVal :=
  if i == 1 then .truncated (.hmac .sha1_New k1) 12
  else if i == 2 then .hmac .md5_New k1
  else .truncated (.hmac .sha256_New k1) 16

/-- the session `newV2Session` returns for the model's result values -/
def sessionOf (l r : Nat) (a i c : UInt8) (sik k1 k2 : Bytes) : Gen.Hs.V2Session :=
  { localID := UInt32.ofNat l, remoteID := UInt32.ofNat r, sik := sik, authenticationAlgorithm := a, integrityAlgorithm := i
    confidentialityAlgorithm := c
    additionalKeyMaterialGenerator := { hash := .hmac (hashFnOf a) sik }
    integrityAlgorithm_ := hasherOf i k1
    confidentialityLayer := k2.take 16 }

/-- the model's result as the outcome of the regenerated `newV2Session` -/
def goOutcome : HsRes → RF (Except String Gen.Hs.V2Session)
  | .ok l r a i c sik k1 k2 => .ok (.ok (sessionOf l r a i c sik k1 k2))
  | .incorrectPassword => .ok (.error "ErrIncorrectPassword")
  | .error => .err
  | .crashed => .panic

/-! ## the `Keys.` views of the messages handed to the key formulas -/

/-- `{ m with }`: the fields of the regenerated `ipmi.RAKPMessage1` that keygen's structure has, by name -/
def keys1 (m : Gen.Hs.RAKPMessage1) : Gen.Keys.RAKPMessage1 := { m with }
def keys2 (m : Gen.Hs.RAKPMessage2) : Gen.Keys.RAKPMessage2 := { m with }

open Bmc.Lemmas.GenKeys Bmc.Gen.Keys in
theorem keys1_is (o : Opts) (rm : Bytes) (g : Gen.Hs.OpenSessionRsp) (t : UInt8) :
    Rakp1Is (keys1 (goRakp1 ⟨t, (osrView g).bmcSessionID, rm, o.lookup, o.priv, o.user⟩)) o rm (osrView g) :=
  ⟨by simp [keys1, goRakp1, osrView], rfl, rfl, rfl, rfl⟩

open Bmc.Lemmas.GenKeys Bmc.Gen.Keys in
theorem keys2_is (g : Gen.Hs.RAKPMessage2) : Rakp2Is (keys2 g) (rk2View g) := ⟨rfl, rfl, rfl⟩

/-! ## projections of the views (so that the views themselves can stay folded in the proofs) -/
section proj
variable (opts : Gen.Hs.V2SessionOpts) (cs : Gen.Dec.CipherSuite)
theorem optsOf_user : (optsOf opts cs).user = opts.sessionOpts.username := rfl
theorem optsOf_pass : (optsOf opts cs).pass = opts.sessionOpts.password := rfl
theorem optsOf_kg : (optsOf opts cs).kg = opts.kg := rfl
theorem optsOf_priv : (optsOf opts cs).priv = opts.sessionOpts.maxPrivilegeLevel := rfl
theorem optsOf_lookup : (optsOf opts cs).lookup = opts.privilegeLevelLookup := rfl
theorem optsOf_auth : (optsOf opts cs).auth = cs.authenticationAlgorithm := rfl
theorem optsOf_integ : (optsOf opts cs).integ = cs.integrityAlgorithm := rfl
theorem optsOf_conf : (optsOf opts cs).conf = cs.confidentialityAlgorithm := rfl
variable (g : Gen.Hs.OpenSessionRsp)
theorem osrView_tag : (osrView g).tag = g.tag := rfl
theorem osrView_status : (osrView g).status = g.status := rfl
theorem osrView_auth : (osrView g).auth = g.authenticationPayload.algorithm := rfl
theorem osrView_integ : (osrView g).integ = g.integrityPayload.algorithm := rfl
theorem osrView_conf : (osrView g).conf = g.confidentialityPayload.algorithm := rfl
theorem osrView_bmc : (osrView g).bmcSessionID = g.managedSystemSessionID.toNat := rfl
theorem osrView_console : (osrView g).consoleSessionID = g.remoteConsoleSessionID.toNat := rfl
variable (g2 : Gen.Hs.RAKPMessage2) (g4 : Gen.Hs.RAKPMessage4)
theorem rk2View_tag : (rk2View g2).tag = g2.tag := rfl
theorem rk2View_status : (rk2View g2).status = g2.status := rfl
theorem rk2View_authCode : (rk2View g2).authCode = g2.authCode := rfl
theorem rk4View_tag : (rk4View g4).tag = g4.tag := rfl
theorem rk4View_status : (rk4View g4).status = g4.status := rfl
theorem rk4View_icv : (rk4View g4).icv = g4.icv := rfl
end proj

/-! ## the hashes `newV2Session` builds, under the contract `mac` -/
section macs
open Bmc.Lemmas.GenKeys Bmc.Gen.Keys
variable (C : Ops)

theorem mac_AuthCode (p : AuthenticationAlgorithmParams) (key m : Bytes) :
    mac C (authenticationAlgorithmParams_AuthCode p key) m = some (C.hmac (hashAlg p.hashGen) key m) := rfl
theorem mac_SIK (p : AuthenticationAlgorithmParams) (key m : Bytes) :
    mac C (authenticationAlgorithmParams_SIK p key) m = some (C.hmac (hashAlg p.hashGen) key m) := rfl
theorem mac_K (p : AuthenticationAlgorithmParams) (key m : Bytes) :
    mac C (authenticationAlgorithmParams_K p key) m = some (C.hmac (hashAlg p.hashGen) key m) := rfl

/-- `g.K(n)` for the generator `newV2Session` builds (`hash: hashGenerator.K(sik)`): its `Sum` never panics -/
theorem kOf_mac (p : AuthenticationAlgorithmParams) (sik : Bytes) :
    GoHs.kOf (mac C) (authenticationAlgorithmParams_K p sik) K_input = fun n => C.hmac (hashAlg p.hashGen) sik (K_input n) := rfl

/-- `algorithmHasher` over ALL 256 values of the integrity algorithm: the hasher of `hasherOf` keyed with `g.K(1)`, an error outside {1, 2, 4} -/
theorem hasher_table (i : UInt8) (K : Int → Bytes) :
    algorithmHasher i K = if (i == 1 || i == 2 || i == 4) = true then some (hasherOf i (K 1)) else none := by
  unfold algorithmHasher hasherOf
  by_cases h0 : i = 0
  · subst h0; rfl
  by_cases h1 : i = 1
  · subst h1; rfl
  by_cases h2 : i = 2
  · subst h2; rfl
  by_cases h4 : i = 4
  · subst h4; rfl
  simp [h0, h1, h2, h4]

/-- `algorithmCipher` over ALL 256 values of the confidentiality algorithm: the key `copy(key[:], g.K(2))` leaves, an error but for 1 -/
theorem cipher_table (a : UInt8) (K : Int → Bytes) :
    algorithmCipher_k2 a K = if (a != 1) = true then none else some (GoKeys.copyArr 16 (List.replicate 16 0) (K 2)) := by
  unfold algorithmCipher_k2
  by_cases h0 : a = 0
  · subst h0; rfl
  by_cases h1 : a = 1
  · subst h1; rfl
  simp [h0, h1]

/-- the table on an algorithm the model knows -/
theorem table_some (a : UInt8) (h : HashAlg) (ha : authHash a = some h) :
    ∃ p, algorithmAuthenticationHashGenerator a = some p ∧ hashAlg p.hashGen = h ∧ p.icvLength = (icvLen a : Int) ∧
      p.hashGen = hashFnOf a := by
  unfold authHash at ha
  split at ha
  · injection ha with ha; subst ha; exact ⟨_, rfl, rfl, rfl, rfl⟩
  · injection ha with ha; subst ha; exact ⟨_, rfl, rfl, rfl, rfl⟩
  · injection ha with ha; subst ha; exact ⟨_, rfl, rfl, rfl, rfl⟩
  · cases ha

/-- … and on every other one -/
theorem table_none (a : UInt8) (ha : authHash a = none) : algorithmAuthenticationHashGenerator a = none := by
  unfold authHash at ha
  unfold algorithmAuthenticationHashGenerator
  split at ha <;> first | (cases ha; done) | skip
  rename_i h1 h2 h3
  have e1 : (a == 1) = false := by simpa using h1
  have e2 : (a == 2) = false := by simpa using h2
  have e3 : (a == 3) = false := by simpa using h3
  simp [e1, e2, e3]

end macs

/-! ## small facts used by `Proofs/GenHs/NewV2Session.lean` -/
theorem len0_isEmpty (l : Bytes) : (l.length == 0) = l.isEmpty := by cases l <;> rfl
theorem ite_pure {σ α : Type} (c : Bool) (a b : α) :
    (if c = true then (pure a : M σ α) else pure b) = pure (if c = true then a else b) := by
  cases c <;> rfl
theorem mbind_apply {σ α β : Type} (x : M σ α) (f : α → M σ β) (s : σ) : M.bind x f s = M.cont f (x s) := rfl

/-- what a regenerated answer function reports is never a crash (a panic below `buildAndSendPayload` ends the program: outside the parameters) -/
theorem viewAnswers_not_crashed {σ : Type}
    (sendO : σ → Gen.Hs.OpenSessionReq → σ × Gen.Hs.OpenSessionRsp × Bool) (sendR1 : σ → Gen.Hs.RAKPMessage1 → σ × Gen.Hs.RAKPMessage2 × Bool)
    (sendR3 : σ → Gen.Hs.RAKPMessage3 → σ × Gen.Hs.RAKPMessage4 × Bool) (rr : σ → Nat → σ × Option Bytes) :
    (∀ s r, ((viewAnswers sendO sendR1 sendR3 rr).openSession s r).2 ≠ .error .crashed) ∧
    (∀ s r, ((viewAnswers sendO sendR1 sendR3 rr).rakp1 s r).2 ≠ .error .crashed) ∧
    (∀ s r, ((viewAnswers sendO sendR1 sendR3 rr).rakp3 s r).2 ≠ .error .crashed) := by
  refine ⟨fun s r => ?_, fun s r => ?_, fun s r => ?_⟩ <;> simp only [viewAnswers] <;> split <;> (intro h; cases h)


end Bmc.Lemmas.GenHs
