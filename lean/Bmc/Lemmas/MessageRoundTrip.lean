import Bmc.Wire.Encode
/-! Round trip of the IPMI message layer (C08). -/
namespace Bmc.Wire
open Bmc Bmc.Prim

theorem fnlun : ∀ f : Nat, f < 64 → ∀ l : Nat, l < 4 →
    ((UInt8.ofNat f <<< 2) ||| UInt8.ofNat l) >>> 2 = UInt8.ofNat f ∧ ((UInt8.ofNat f <<< 2) ||| UInt8.ofNat l) &&& 3 = UInt8.ofNat l := by
  decide +kernel

theorem group_oem_disjoint (f : UInt8) : isGroup f = true → isOEM f = true → False := by
  revert f; apply forall_uint8; decide +kernel

structure Message.WF (m : Message) : Prop where
  fn : m.function.toNat < 64
  rl : m.remoteLUN.toNat < 4
  ll : m.localLUN.toNat < 4
  seq : m.sequence.toNat < 64
  ent : m.enterprise < 16777216
  body0 : isGroup m.function = false → m.body = 0
  ent0 : isOEM m.function = false → m.enterprise = 0
  cc0 : isRequest m.function = true → m.completionCode = 0

theorem Message.decode_encode (m : Message) (data : Bytes) (h : m.WF) :
    Message.decode 8 (Message.encode m data).2 =
      .ok { (Message.encode m data).1 with
            contents := (Message.encode m data).2.take ((Message.encode m data).2.length - 1 - data.length)
            payload := data } := by
  have e1 := fnlun _ h.fn _ h.rl
  have e2 := fnlun _ h.seq _ h.ll
  simp only [UInt8.ofNat_toNat] at e1 e2
  unfold Message.encode Message.decode
  cases hr : isRequest m.function <;> cases hg : isGroup m.function <;> cases ho : isOEM m.function
  all_goals simp [hr, hg, ho, e1, e2, checksum]
  all_goals first | exact absurd ho (fun ho => group_oem_disjoint _ hg ho) | (
    have hb := h.body0; have he := h.ent0; have hc := h.cc0; have hent := h.ent
    simp only [hr, hg, ho, forall_const, Bool.false_eq_true, false_implies] at hb he hc
    repeat' split
    all_goals (try omega)
    all_goals (try simp [*])
    all_goals (try omega))
end Bmc.Wire
