import Bmc.Lemmas.GenLoops
import Bmc.Lemmas.SessionlessSpec
import Bmc.Lemmas.GenLoopsBounds
/-! The regenerated `V2Sessionless.buildAndSendCommand` (`Gen/Loops.lean`) instantiated with the pieces of the hand model of the
    session-less send loop (`Proto/Sessionless.lean`): `gopacket.SerializeLayers` := the model's encoders (what `slSerialize`
    composes: message, null session wrapper without integrity algorithm, RMCP) on the field values the layer structs hold;
    the connection's decoder := the view of `slOnReply`; the transport := the outcome script. -/
namespace Bmc.Lemmas.GenLoops
open Bmc Bmc.Wire Bmc.Crypto Bmc.Proto Bmc.GoOrch Bmc.GoLoops Bmc.Gen.Loops

def slSerLayers (c : Cmd) (L : Layers) : Layers :=
  let mm := Message.encode (msgTo L.message) c.req
  let vv := V2Session.encode (fun _ => []) (v2To L.v2Session) mm.2
  { L with message := msgOf mm.1, v2Session := v2Of vv.1 L.v2Session.integrityAlgorithm L.v2Session.confidentialityLayerType }
def slSerBytes (c : Cmd) (L : Layers) : Bytes :=
  let mm := Message.encode (msgTo L.message) c.req
  let vv := V2Session.encode (fun _ => []) (v2To L.v2Session) mm.2
  RMCP.encode (rmcpTo L.rmcp) ++ vv.2

/-- `gopacket.SerializeLayers(buffer, serializeOptions, &rmcp, &v2session, &message, request)`: an error unless these are the
    layers, in this order, the wrapper has no integrity algorithm, the options are the library's and the request serialises -/
def slSerialize' (c : Cmd) (w : SW) (o : SerializeOptions) (L : Layers) (args : List LayerArg) : SW × Layers × Bytes × Bool :=
  if o = { fixLengths := true, computeChecksums := true } ∧ args = [.rmcp, .v2Session, .message, .iface 4] ∧
     L.v2Session.integrityAlgorithm = 0 ∧ c.reqFails = false then
    (w, slSerLayers c L, slSerBytes c L, true)
  else (w, L, [], false)

def slDecode (L : Layers) (_t : Decoded) (d : Bytes) : Layers × Decoded × DecodeOutcome :=
  match slView (slOnReply {} (GoSlice.ofBytes d)) with
  | (.crash, _) => (L, .crash, .panic)
  | (.fail, _) => (L, .fail, .err)
  | (.message, some msg) => ({ L with message := msgOf msg }, .message, .ok)
  | _ => (L, .notMessage, .ok)

def slWorld (c : Cmd) (bodyDecodes : Bytes → Bool) : World SW Decoded :=
  { serializeLayers := slSerialize' c
    transportSend := SW.send
    decode := slDecode
    innermostEquals := fun t ty => t == .message && ty == .ipmi_LayerTypeMessage
    backoffWait := SW.wait
    decodeFromBytes := fun _ p => bodyDecodes p }

theorem slSerialize'_ok (c : Cmd) (hf : c.reqFails = false) (w : SW) (L : Layers) (hI : L.v2Session.integrityAlgorithm = 0) :
    slSerialize' c w { fixLengths := true, computeChecksums := true } L [.rmcp, .v2Session, .message, .iface 4]
      = (w, slSerLayers c L, slSerBytes c L, true) := by
  simp [slSerialize', hf, hI]

theorem slSerialize'_fail (c : Cmd) (hf : c.reqFails = true) (w : SW) (o : SerializeOptions) (L : Layers) (args : List LayerArg) :
    slSerialize' c w o L args = (w, L, [], false) := by
  simp [slSerialize', hf]

/-- the layer structs as `buildAndSendCommand` builds them -/
def slLit (c : Cmd) (name : String) (rsp : Opaque) : Layers :=
  { rmcp := { version := 6, sequence := 255, class_ := 7 },
    v2Session := { payloadDescriptor := ipmi_PayloadDescriptorIPMI },
    message := { operation := (cmdOf c name rsp).operation,
                 remoteAddress := { toBitVec := Gen.slaveAddress (UInt8.toBitVec 16) },
                 remoteLUN := (cmdOf c name rsp).remoteLUN,
                 localAddress := { toBitVec := Gen.swidAddress (UInt8.toBitVec 64) }, sequence := 1 } }

theorem slLit_bytes (c : Cmd) (name : String) (rsp : Opaque) (hc : c.ent < 4294967296) :
    slSerBytes c (slLit c name rsp) = (slSerialize c).2 := by
  have hm : msgTo (slLit c name rsp).message = (slInit c).msg := by
    simp only [slLit, msgTo, cmdOf, slInit, ofNat32_toNat _ hc]
    have h1 : ({ toBitVec := Gen.slaveAddress (UInt8.toBitVec 16) } : UInt8) = 0x20 := by decide
    have h2 : ({ toBitVec := Gen.swidAddress (UInt8.toBitVec 64) } : UInt8) = 0x81 := by decide
    rw [h1, h2]
  have hv : v2To (slLit c name rsp).v2Session = (slInit c).v2 := rfl
  have hr : rmcpTo (slLit c name rsp).rmcp = (slInit c).rmcp := rfl
  unfold slSerBytes slSerialize
  rw [hm, hv, hr]

theorem slDecode_crash (L : Layers) (t : Decoded) (d : Bytes) (hv : (slView (slOnReply {} (GoSlice.ofBytes d))).1 = .crash) :
    slDecode L t d = (L, .crash, .panic) := by
  unfold slDecode
  generalize slView (slOnReply {} (GoSlice.ofBytes d)) = vw at hv
  obtain ⟨how, o⟩ := vw
  simp only at hv; subst hv; rfl
theorem slDecode_fail (L : Layers) (t : Decoded) (d : Bytes) (hv : (slView (slOnReply {} (GoSlice.ofBytes d))).1 = .fail) :
    slDecode L t d = (L, .fail, .err) := by
  unfold slDecode
  generalize slView (slOnReply {} (GoSlice.ofBytes d)) = vw at hv
  obtain ⟨how, o⟩ := vw
  simp only at hv; subst hv; rfl
theorem slDecode_notMessage (L : Layers) (t : Decoded) (d : Bytes) (hv : (slView (slOnReply {} (GoSlice.ofBytes d))).1 = .notMessage) :
    slDecode L t d = (L, .notMessage, .ok) := by
  unfold slDecode
  generalize slView (slOnReply {} (GoSlice.ofBytes d)) = vw at hv
  obtain ⟨how, o⟩ := vw
  simp only at hv; subst hv; rfl
theorem slDecode_message (L : Layers) (t : Decoded) (d : Bytes) (msg : Message)
    (hv : slView (slOnReply {} (GoSlice.ofBytes d)) = (.message, some msg)) :
    slDecode L t d = ({ L with message := msgOf msg }, .message, .ok) := by
  unfold slDecode
  rw [hv]

theorem slInnermost_notMessage (c : Cmd) (bd : Bytes → Bool) :
    innermostEquals (slWorld c bd) Decoded.notMessage LayerTy.ipmi_LayerTypeMessage = some GoErr.innermost := rfl
theorem slInnermost_message (c : Cmd) (bd : Bytes → Bool) :
    innermostEquals (slWorld c bd) Decoded.message LayerTy.ipmi_LayerTypeMessage = none := rfl

section steps
variable (c : Cmd) (bd : Bytes → Bool) (name : String) (rsp : Opaque)

theorem slStep_nil (first : Bool) (ivs : List Bytes) (sent : List Bytes) (i e : Bool) (K : Conn Decoded) :
    obsB (V2Sessionless_buildAndSendCommand_func1 (slWorld c bd) (cmdOf c name rsp) first
          (({ ivs := ivs, script := [], sent := sent, inSend := i, expired := e } : SW), K))
      = (.ok (false, some .transport), { ivs := ivs, script := [], sent := sent, inSend := i, expired := true },
         K.inbound, K.events ++ pre first, K.buffer) := by
  simp only [V2Sessionless_buildAndSendCommand_func1]
  cases first
  all_goals
    loop_simp
    rw [transportSend_eq (r := none) (w1 := { ivs := ivs, script := [], sent := sent, inSend := i, expired := true }) (h := rfl)]
    loop_simp
    simp only [obsB, pre, ↓reduceIte, Bool.false_eq_true, List.append_nil]
    try rfl

theorem slStep_lost (first : Bool) (ivs : List Bytes) (rest : List Outcome) (sent : List Bytes) (i e : Bool) (K : Conn Decoded) :
    obsB (V2Sessionless_buildAndSendCommand_func1 (slWorld c bd) (cmdOf c name rsp) first
          (({ ivs := ivs, script := .lost :: rest, sent := sent, inSend := i, expired := e } : SW), K))
      = (.ok (false, some .transport), { ivs := ivs, script := rest, sent := sent ++ [K.buffer], inSend := i, expired := e },
         K.inbound, K.events ++ pre first, K.buffer) := by
  simp only [V2Sessionless_buildAndSendCommand_func1]
  cases first
  all_goals
    loop_simp
    rw [transportSend_eq (h := send_lost ..)]
    loop_simp
    simp only [obsB, pre, ↓reduceIte, Bool.false_eq_true, List.append_nil]
    try rfl

theorem slStep_crash (first : Bool) (ivs : List Bytes) (d : Bytes) (rest : List Outcome) (sent : List Bytes) (i e : Bool) (K : Conn Decoded)
    (hv : (slView (slOnReply {} (GoSlice.ofBytes d))).1 = .crash) :
    obsB (V2Sessionless_buildAndSendCommand_func1 (slWorld c bd) (cmdOf c name rsp) first
          (({ ivs := ivs, script := .reply d :: rest, sent := sent, inSend := i, expired := e } : SW), K))
      = (.panic, { ivs := ivs, script := rest, sent := sent ++ [K.buffer], inSend := i, expired := e }, K.inbound, K.events ++ pre first, K.buffer) := by
  simp only [V2Sessionless_buildAndSendCommand_func1]
  cases first
  all_goals
    loop_simp
    rw [transportSend_eq (h := send_reply ..)]
    loop_simp
    rw [decodeLayers_eq (h := slDecode_crash _ K.decoded d hv)]
    loop_simp
    simp only [obsB, pre, ↓reduceIte, Bool.false_eq_true, List.append_nil]
    try rfl

theorem slStep_fail (first : Bool) (ivs : List Bytes) (d : Bytes) (rest : List Outcome) (sent : List Bytes) (i e : Bool) (K : Conn Decoded)
    (hv : (slView (slOnReply {} (GoSlice.ofBytes d))).1 = .fail) :
    obsB (V2Sessionless_buildAndSendCommand_func1 (slWorld c bd) (cmdOf c name rsp) first
          (({ ivs := ivs, script := .reply d :: rest, sent := sent, inSend := i, expired := e } : SW), K))
      = (.ok (false, some .decode), { ivs := ivs, script := rest, sent := sent ++ [K.buffer], inSend := i, expired := e }, K.inbound, K.events ++ pre first, K.buffer) := by
  simp only [V2Sessionless_buildAndSendCommand_func1]
  cases first
  all_goals
    loop_simp
    rw [transportSend_eq (h := send_reply ..)]
    loop_simp
    rw [decodeLayers_eq (h := slDecode_fail _ K.decoded d hv)]
    loop_simp
    simp only [obsB, pre, ↓reduceIte, Bool.false_eq_true, List.append_nil]
    try rfl

theorem slStep_notMessage (first : Bool) (ivs : List Bytes) (d : Bytes) (rest : List Outcome) (sent : List Bytes) (i e : Bool) (K : Conn Decoded)
    (hv : (slView (slOnReply {} (GoSlice.ofBytes d))).1 = .notMessage) :
    obsB (V2Sessionless_buildAndSendCommand_func1 (slWorld c bd) (cmdOf c name rsp) first
          (({ ivs := ivs, script := .reply d :: rest, sent := sent, inSend := i, expired := e } : SW), K))
      = (.ok (false, some .innermost), { ivs := ivs, script := rest, sent := sent ++ [K.buffer], inSend := i, expired := e }, K.inbound, K.events ++ pre first, K.buffer) := by
  simp only [V2Sessionless_buildAndSendCommand_func1]
  cases first
  all_goals
    loop_simp
    rw [transportSend_eq (h := send_reply ..)]
    loop_simp
    rw [decodeLayers_eq (h := slDecode_notMessage _ K.decoded d hv)]
    loop_simp [slInnermost_notMessage]
    simp only [obsB, pre, ↓reduceIte, Bool.false_eq_true, List.append_nil]
    try rfl

/-- the closure's check on the decoded message -/
def slAccGen (msg : Message) : Bool :=
  Bmc.Gen.isResponseTo (msgOf msg).operation.function.toBitVec (msgOf msg).operation.body.toBitVec
        (msgOf msg).operation.enterprise.toBitVec (msgOf msg).operation.command.toBitVec
        (cmdOf c name rsp).operation.function.toBitVec (cmdOf c name rsp).operation.body.toBitVec
        (cmdOf c name rsp).operation.enterprise.toBitVec (cmdOf c name rsp).operation.command.toBitVec

theorem slStep_message (first : Bool) (ivs : List Bytes) (d : Bytes) (rest : List Outcome) (sent : List Bytes) (i e : Bool) (K : Conn Decoded)
    (msg : Message) (hv : slView (slOnReply {} (GoSlice.ofBytes d)) = (.message, some msg)) :
    obsBM (V2Sessionless_buildAndSendCommand_func1 (slWorld c bd) (cmdOf c name rsp) first
          (({ ivs := ivs, script := .reply d :: rest, sent := sent, inSend := i, expired := e } : SW), K))
      = (if slAccGen c name rsp msg then
           (if Bmc.Gen.ccIsTemporary msg.completionCode.toBitVec then .ok (false, some .sentinel) else .ok (false, none))
         else .ok (false, some .errorf),
         { ivs := ivs, script := rest, sent := sent ++ [K.buffer], inSend := i, expired := e }, K.inbound,
         K.events ++ pre first ++ (if slAccGen c name rsp msg then [Ev.inc "commandResponses" [Label.code msg.completionCode]] else []),
         K.buffer, msgOf msg) := by
  simp only [V2Sessionless_buildAndSendCommand_func1]
  cases first
  all_goals
    loop_simp
    rw [transportSend_eq (h := send_reply ..)]
    loop_simp
    rw [decodeLayers_eq (h := slDecode_message _ K.decoded d msg hv)]
    loop_simp [slInnermost_message]
    unfold slAccGen
    cases h3 : Bmc.Gen.isResponseTo (msgOf msg).operation.function.toBitVec (msgOf msg).operation.body.toBitVec
        (msgOf msg).operation.enterprise.toBitVec (msgOf msg).operation.command.toBitVec
        (cmdOf c name rsp).operation.function.toBitVec (cmdOf c name rsp).operation.body.toBitVec
        (cmdOf c name rsp).operation.enterprise.toBitVec (cmdOf c name rsp).operation.command.toBitVec <;>
    cases h4 : Bmc.Gen.ccIsTemporary msg.completionCode.toBitVec <;>
    (loop_simp [msgOf_cc, h3, h4, eq_self, Bool.not_true, Bool.not_false, obsBM, pre, ↓reduceIte, List.append_nil]
     try rfl)

end steps
end Bmc.Lemmas.GenLoops
