import Bmc.Proto.Enum
import Bmc.Spec.Enum
/-! Helper lemmas for C16, record parser: tag-bit facts (finite, by `decide +kernel`), the scan loop over a run of
    tagged bytes (induction on the run), one record, the outer loop (fuel, totality, prefix of well-formed records). -/
namespace Bmc.Lemmas.Enum
open Bmc Bmc.Proto.Enum Bmc.Spec.Enum

-- tag-bit facts ------------------------------------------------------------------------------------------------------
theorem auth_tag : ∀ a, a < 64 → (authByte a >>> 6 != 0) = false ∧ (authByte a).toNat = a := by decide +kernel
theorem integ_tag : ∀ a, a < 64 → (integByte a >>> 6 == 1) = true ∧ (integByte a >>> 6 == 2) = false ∧
    (integByte a &&& 0x3f).toNat = a := by decide +kernel
theorem conf_tag : ∀ a, a < 64 → (confByte a >>> 6 == 2) = true ∧ (confByte a >>> 6 == 1) = false ∧
    (confByte a &&& 0x3f).toNat = a := by decide +kernel
theorem id_byte : ∀ a, a < 256 → (UInt8.ofNat a).toNat = a := by decide +kernel
/-- a byte that begins a record carries tag 11b: neither scan continues over it -/
theorem start_tag : ∀ b : UInt8, (b >>> 1 != 0x60) = false → (b >>> 6 == 1) = false ∧ (b >>> 6 == 2) = false := by
  apply forall_uint8; decide +kernel
theorem tag1_not_start : ∀ b : UInt8, (b >>> 6 == 1) = true → (b >>> 1 != 0x60) = true := by
  apply forall_uint8; decide +kernel
theorem tag0_not_start : ∀ b : UInt8, (b >>> 6 != 0) = false → (b >>> 1 != 0x60) = true := by
  apply forall_uint8; decide +kernel

theorem iana_read (n : Nat) (h : n < 16777216) :
    (UInt8.ofNat (n % 256)).toNat + (UInt8.ofNat (n / 256 % 256)).toNat * 256
      + (UInt8.ofNat (n / 65536 % 256)).toNat * 65536 = n := by
  simp; omega

-- indexing -----------------------------------------------------------------------------------------------------------
theorem bidx_eq (j : Bytes) (i : Nat) : bidx j i = if i < j.length then .ok (j.getD i 0) else .panic := by
  simp [bidx, GoSlice.idx, GoSlice.ofBytes]

@[simp] theorem bidx_zero (a : UInt8) (t : Bytes) : bidx (a :: t) 0 = .ok a := by simp [bidx_eq]
@[simp] theorem bidx_succ (a : UInt8) (t : Bytes) (i : Nat) : bidx (a :: t) (i + 1) = bidx t i := by
  simp [bidx_eq]
theorem bidx_append (pre : Bytes) (b : UInt8) (rest : Bytes) : bidx (pre ++ b :: rest) pre.length = .ok b := by
  simp [bidx_eq]

-- the scan loop ------------------------------------------------------------------------------------------------------
/-- the loop never panics, moves forward only and stays within the slice -/
theorem scan_ok (j : Bytes) (tag : UInt8) : ∀ (f off : Nat) (acc : List Nat), off ≤ j.length →
    ∃ off' acc', scan j tag f off acc = .ok (off', acc') ∧ off ≤ off' ∧ off' ≤ j.length := by
  intro f
  induction f with
  | zero => intro off acc h; exact ⟨off, acc, rfl, Nat.le_refl _, h⟩
  | succ f ih =>
    intro off acc h
    unfold scan
    by_cases hlt : j.length > off
    · simp only [hlt, if_true, bidx_eq, R.bind_ok]
      by_cases ht : (j.getD off 0 >>> 6 == tag) = true
      · simp only [ht, if_true]
        obtain ⟨o, a, h1, h2, h3⟩ := ih (off + 1) (acc ++ [(j.getD off 0 &&& 0x3f).toNat]) (by omega)
        exact ⟨o, a, h1, by omega, h3⟩
      · simp only [ht, if_false, Bool.false_eq_true]
        exact ⟨off, acc, rfl, Nat.le_refl _, h⟩
    · simp only [hlt, if_false]
      exact ⟨off, acc, rfl, Nat.le_refl _, h⟩

/-- over a run of bytes that all carry the scanned tag, followed by a byte that does not (or by nothing), the loop
    collects exactly the run -/
theorem scan_run (tag : UInt8) (mk : Nat → UInt8)
    (hmk : ∀ a, a < 64 → (mk a >>> 6 == tag) = true ∧ (mk a &&& 0x3f).toNat = a) :
    ∀ (run : List Nat), (∀ a ∈ run, a < 64) → ∀ (pre rest : Bytes), (∀ b t, rest = b :: t → (b >>> 6 == tag) = false) →
    ∀ (f : Nat), run.length ≤ f → ∀ (acc : List Nat),
    scan (pre ++ (run.map mk ++ rest)) tag f pre.length acc = .ok (pre.length + run.length, acc ++ run) := by
  intro run
  induction run with
  | nil =>
    intro _ pre rest hrest f _ acc
    cases f with
    | zero => simp [scan]
    | succ f =>
      unfold scan
      cases rest with
      | nil => simp
      | cons b t =>
        have hne : ¬ (b >>> 6 = tag) := by simpa using hrest b t rfl
        simp [bidx_append, hne]
  | cons a run ih =>
    intro hrun pre rest hrest f hf acc
    cases f with
    | zero => simp at hf
    | succ f =>
      have ha := hmk a (hrun a (by simp))
      unfold scan
      have hlen : (pre ++ (List.map mk (a :: run) ++ rest)).length > pre.length := by simp
      simp only [hlen, if_true]
      have hb : bidx (pre ++ (List.map mk (a :: run) ++ rest)) pre.length = .ok (mk a) := by
        simpa using bidx_append pre (mk a) (run.map mk ++ rest)
      simp only [hb, R.bind_ok, ha.1, ha.2, if_true]
      have e : pre ++ (List.map mk (a :: run) ++ rest) = (pre ++ [mk a]) ++ (run.map mk ++ rest) := by simp
      have := ih (fun x hx => hrun x (by simp [hx])) (pre ++ [mk a]) rest hrest f (by simpa using hf) (acc ++ [a])
      rw [e]
      simp only [List.length_append, List.length_cons, List.length_nil, Nat.zero_add] at this
      rw [this]
      simp
      omega

theorem orNone_eq (l : List Nat) : Proto.Enum.orNone l = Spec.Enum.orNone l := by
  cases l <;> simp [Proto.Enum.orNone, Spec.Enum.orNone]

/-- the model's record type seen from the specification's -/
def view (e : CipherSuiteEntry) : Entry := { id := e.id, iana := e.iana, auth := e.auth, integ := e.integ, conf := e.conf }

theorem cross_expand (r : Record) :
    cross r.id (r.iana.getD 0) r.auth (Proto.Enum.orNone r.integ) (Proto.Enum.orNone r.conf) = (expand r).map view := by
  simp [cross, expand, orNone_eq, List.map_flatMap, view, Function.comp_def]

/-- what may follow a record for it to be read back in full: the next byte (if any) does not carry the confidentiality
    tag, nor the integrity tag when the record lists no confidentiality algorithm -/
def okAfter (r : Record) (rest : Bytes) : Prop :=
  ∀ b t, rest = b :: t → (b >>> 6 == 2) = false ∧ (r.conf = [] → (b >>> 6 == 1) = false)

/-- the algorithm part of a record, read from its first byte at `pre.length` -/
theorem parseAlgs_encode (r : Record) (hw : r.wf) (pre rest : Bytes) (hrest : okAfter r rest) (id iana : Nat) :
    parseAlgs (pre ++ authByte r.auth :: (r.integ.map integByte ++ r.conf.map confByte) ++ rest) id iana pre.length =
      .ok (cross id iana r.auth (Proto.Enum.orNone r.integ) (Proto.Enum.orNone r.conf), rest) := by
  obtain ⟨_, _, hauth, hinteg, hconf⟩ := hw
  have hA := auth_tag r.auth hauth
  unfold parseAlgs
  have e0 : pre ++ authByte r.auth :: (r.integ.map integByte ++ r.conf.map confByte) ++ rest
      = pre ++ authByte r.auth :: (r.integ.map integByte ++ r.conf.map confByte ++ rest) := by simp
  rw [e0, bidx_append]
  simp only [R.bind_ok, hA.1, hA.2, if_false, Bool.false_eq_true]
  -- the integrity scan
  have e1 : pre ++ authByte r.auth :: (r.integ.map integByte ++ r.conf.map confByte ++ rest)
      = (pre ++ [authByte r.auth]) ++ (r.integ.map integByte ++ (r.conf.map confByte ++ rest)) := by simp
  have s1 := scan_run 1 integByte (fun a h => ⟨(integ_tag a h).1, (integ_tag a h).2.2⟩) r.integ hinteg
    (pre ++ [authByte r.auth]) (r.conf.map confByte ++ rest)
    (by
      intro b t hbt
      cases hc : r.conf with
      | nil => rw [hc] at hbt; exact (hrest b t (by simpa using hbt)).2 hc
      | cons c cs =>
        rw [hc] at hbt
        simp at hbt
        rw [← hbt.1]
        exact (conf_tag c (hconf c (by simp [hc]))).2.1)
  -- the confidentiality scan
  have e2 : pre ++ authByte r.auth :: (r.integ.map integByte ++ r.conf.map confByte ++ rest)
      = (pre ++ authByte r.auth :: r.integ.map integByte) ++ (r.conf.map confByte ++ rest) := by simp
  have s2 := scan_run 2 confByte (fun a h => ⟨(conf_tag a h).1, (conf_tag a h).2.2⟩) r.conf hconf
    (pre ++ authByte r.auth :: r.integ.map integByte) rest (fun b t hbt => (hrest b t hbt).1)
  generalize hj : pre ++ authByte r.auth :: (r.integ.map integByte ++ r.conf.map confByte ++ rest) = j at *
  have hlen : j.length = pre.length + 1 + r.integ.length + r.conf.length + rest.length := by
    rw [← hj]; simp; omega
  rw [← e1] at s1
  rw [← e2] at s2
  have s1' := s1 j.length (by omega) []
  have s2' := s2 j.length (by omega) []
  simp only [List.length_append, List.length_cons, List.length_nil, List.length_map, Nat.zero_add, List.nil_append] at s1' s2'
  rw [s1']
  simp only [R.bind_ok]
  rw [show pre.length + (r.integ.length + 1) = pre.length + 1 + r.integ.length by omega] at s2'
  rw [s2']
  simp only [R.bind_ok]
  have hgt : ¬ (pre.length + 1 + r.integ.length + r.conf.length > j.length) := by omega
  simp only [hgt, if_false, R.pure_eq]
  congr 2
  rw [e2]
  have : pre.length + 1 + r.integ.length + r.conf.length
      = (pre ++ authByte r.auth :: r.integ.map integByte ++ r.conf.map confByte).length := by simp; omega
  rw [this, ← List.append_assoc, List.drop_left]

-- one record --------------------------------------------------------------------------------------------------------
theorem parseOne_std (id : UInt8) (t : Bytes) (ht : 1 ≤ t.length) :
    parseOne (0xC0 :: id :: t) = parseAlgs (0xC0 :: id :: t) id.toNat 0 2 := by
  have h3 : ¬ (t.length + 1 + 1 < 3) := by omega
  have c1 : ((0xC0 : UInt8) >>> 1 != 0x60) = false := by decide
  have c2 : ((0xC0 : UInt8) &&& 1 == 0) = true := by decide
  simp only [parseOne, bidx_zero, bidx_succ, R.bind_ok, c1, c2, List.length_cons, h3, if_true, if_false, Bool.false_eq_true]

theorem parseOne_oem (id b2 b3 b4 : UInt8) (t : Bytes) (ht : 1 ≤ t.length) :
    parseOne (0xC1 :: id :: b2 :: b3 :: b4 :: t) =
      parseAlgs (0xC1 :: id :: b2 :: b3 :: b4 :: t) id.toNat (b2.toNat + b3.toNat * 256 + b4.toNat * 65536) 5 := by
  have h6 : ¬ (t.length + 1 + 1 + 1 + 1 + 1 < 6) := by omega
  have c1 : ((0xC1 : UInt8) >>> 1 != 0x60) = false := by decide
  have c2 : ((0xC1 : UInt8) &&& 1 == 0) = false := by decide
  simp only [parseOne, bidx_zero, bidx_succ, R.bind_ok, c1, c2, List.length_cons, h6, if_true, if_false, Bool.false_eq_true]

/-- a well-formed record followed by anything that cannot be taken for more of its algorithms is read back as the
    specification's expansion, and the rest is left -/
theorem parseOne_encode (r : Record) (hw : r.wf) (rest : Bytes) (hrest : okAfter r rest) :
    parseOne (r.encode ++ rest) = .ok ((expand r).map view, rest) := by
  have hid := id_byte r.id hw.1
  rw [← cross_expand]
  cases hi : r.iana with
  | none =>
    have e : r.encode ++ rest
        = 0xC0 :: UInt8.ofNat r.id :: (authByte r.auth :: (r.integ.map integByte ++ r.conf.map confByte) ++ rest) := by
      simp [Record.encode, Record.header, hi]
    rw [e, parseOne_std _ _ (by simp)]
    have := parseAlgs_encode r hw [0xC0, UInt8.ofNat r.id] rest hrest r.id 0
    simpa [hid] using this
  | some n =>
    have hn := hw.2.1 n hi
    have e : r.encode ++ rest
        = 0xC1 :: UInt8.ofNat r.id :: UInt8.ofNat (n % 256) :: UInt8.ofNat (n / 256 % 256) :: UInt8.ofNat (n / 65536 % 256) ::
            (authByte r.auth :: (r.integ.map integByte ++ r.conf.map confByte) ++ rest) := by
      simp [Record.encode, Record.header, hi]
    rw [e, parseOne_oem _ _ _ _ _ (by simp), iana_read n hn]
    have := parseAlgs_encode r hw [0xC1, UInt8.ofNat r.id, UInt8.ofNat (n % 256), UInt8.ofNat (n / 256 % 256),
      UInt8.ofNat (n / 65536 % 256)] rest hrest r.id n
    simpa [hid] using this

/-- whatever the bytes, the algorithm part of an iteration ends in an error or in a result; it never panics, and the
    new `joined` is a proper suffix -/
theorem parseAlgs_total (j : Bytes) (id iana off : Nat) (h : off < j.length) :
    parseAlgs j id iana off = .err ∨
      ∃ es o, parseAlgs j id iana off = .ok (es, j.drop o) ∧ off < o ∧ o ≤ j.length := by
  unfold parseAlgs
  simp only [bidx_eq, h, if_true, R.bind_ok]
  by_cases ha : (j.getD off 0 >>> 6 != 0) = true
  · simp only [ha, if_true]; exact Or.inl trivial
  · simp only [ha, if_false, Bool.false_eq_true]
    obtain ⟨o1, i1, h1, h1a, h1b⟩ := scan_ok j 1 j.length (off + 1) [] (by omega)
    obtain ⟨o2, i2, h2, h2a, h2b⟩ := scan_ok j 2 j.length o1 [] h1b
    rw [h1]; simp only [R.bind_ok]
    rw [h2]; simp only [R.bind_ok]
    have : ¬ (o2 > j.length) := by omega
    simp only [this, if_false, R.pure_eq]
    exact Or.inr ⟨_, o2, rfl, by omega, h2b⟩

theorem parseOne_total (j : Bytes) (h : 0 < j.length) :
    parseOne j = .err ∨ ∃ es j', parseOne j = .ok (es, j') ∧ j'.length + 3 ≤ j.length := by
  unfold parseOne
  simp only [bidx_eq, h, if_true, R.bind_ok]
  by_cases hs : (j.getD 0 0 >>> 1 != 0x60) = true
  · simp only [hs, if_true]; exact Or.inl trivial
  · simp only [hs, if_false, Bool.false_eq_true]
    by_cases hk : (j.getD 0 0 &&& 1 == 0) = true
    · simp only [hk, if_true]
      by_cases h3 : j.length < 3
      · simp only [h3, if_true]; exact Or.inl trivial
      · simp only [h3, if_false]
        have h1 : 1 < j.length := by omega
        simp only [h1, if_true, R.bind_ok]
        rcases parseAlgs_total j (j.getD 1 0).toNat 0 2 (by omega) with he | ⟨es, o, he, ho, ho2⟩
        · exact Or.inl he
        · exact Or.inr ⟨es, _, he, by simp; omega⟩
    · simp only [hk, if_false, Bool.false_eq_true]
      by_cases h6 : j.length < 6
      · simp only [h6, if_true]; exact Or.inl trivial
      · simp only [h6, if_false]
        have h1 : 1 < j.length := by omega
        have h2 : 2 < j.length := by omega
        have h3 : 3 < j.length := by omega
        have h4 : 4 < j.length := by omega
        simp only [h1, h2, h3, h4, if_true, R.bind_ok]
        rcases parseAlgs_total j (j.getD 1 0).toNat
          ((j.getD 2 0).toNat + (j.getD 3 0).toNat * 256 + (j.getD 4 0).toNat * 65536) 5 (by omega) with he | ⟨es, o, he, ho, ho2⟩
        · exact Or.inl he
        · exact Or.inr ⟨es, _, he, by simp; omega⟩

theorem parseOne_bad_start (b : UInt8) (rest : Bytes) (hb : (b >>> 1 != 0x60) = true) : parseOne (b :: rest) = .err := by
  simp only [parseOne, bidx_zero, R.bind_ok, hb, if_true]

theorem parseOne_short_std (t : Bytes) (h : t.length + 1 < 3) : parseOne (0xC0 :: t) = .err := by
  have c1 : ((0xC0 : UInt8) >>> 1 != 0x60) = false := by decide
  have c2 : ((0xC0 : UInt8) &&& 1 == 0) = true := by decide
  simp only [parseOne, bidx_zero, R.bind_ok, c1, c2, List.length_cons, h, if_true, if_false, Bool.false_eq_true]

theorem parseOne_short_oem (t : Bytes) (h : t.length + 1 < 6) : parseOne (0xC1 :: t) = .err := by
  have c1 : ((0xC1 : UInt8) >>> 1 != 0x60) = false := by decide
  have c2 : ((0xC1 : UInt8) &&& 1 == 0) = false := by decide
  simp only [parseOne, bidx_zero, R.bind_ok, c1, c2, List.length_cons, h, if_true, if_false, Bool.false_eq_true]

-- the outer loop -----------------------------------------------------------------------------------------------------
theorem parseLoop_err (f : Nat) (j : Bytes) (acc : List Entry) (hj : 0 < j.length) (h : parseOne j = .err) :
    parseLoop (f + 1) j acc = .err := by
  simp only [parseLoop, gt_iff_lt, hj, if_true, h, R.bind_err]

theorem parseLoop_step (f : Nat) (j : Bytes) (acc es : List Entry) (j' : Bytes) (hj : 0 < j.length)
    (h : parseOne j = .ok (es, j')) : parseLoop (f + 1) j acc = parseLoop f j' (acc ++ es) := by
  simp only [parseLoop, gt_iff_lt, hj, if_true, h, R.bind_ok]

/-- any fuel above the length of the data gives the same result -/
theorem parseLoop_fuel : ∀ (f1 f2 : Nat) (j : Bytes) (acc : List Entry), j.length < f1 → j.length < f2 →
    parseLoop f1 j acc = parseLoop f2 j acc := by
  intro f1
  induction f1 with
  | zero => intro f2 j acc h; omega
  | succ n ih =>
    intro f2 j acc h1 h2
    cases f2 with
    | zero => omega
    | succ m =>
      unfold parseLoop
      by_cases hj : j.length > 0
      · simp only [hj, if_true]
        rcases parseOne_total j hj with he | ⟨es, j', he, hl⟩
        · simp [he]
        · simp only [he, R.bind_ok]
          exact ih m j' (acc ++ es) (by omega) (by omega)
      · simp [hj]

/-- for every byte string the parser returns a list or an error: no panic, no read beyond the data -/
theorem parseLoop_total : ∀ (f : Nat) (j : Bytes) (acc : List Entry), j.length < f →
    parseLoop f j acc = .err ∨ ∃ es, parseLoop f j acc = .ok es := by
  intro f
  induction f with
  | zero => intro j acc h; omega
  | succ n ih =>
    intro j acc h
    unfold parseLoop
    by_cases hj : j.length > 0
    · simp only [hj, if_true]
      rcases parseOne_total j hj with he | ⟨es, j', he, hl⟩
      · simp [he]
      · simp only [he, R.bind_ok]
        exact ih j' (acc ++ es) (by omega)
    · simp [hj]

theorem encode_length (r : Record) : 3 ≤ r.encode.length := by
  unfold Record.encode Record.header
  cases r.iana <;> simp <;> omega

/-- the encoding of a record begins with a start-of-record byte -/
theorem encode_head (r : Record) : ∃ b t, r.encode = b :: t ∧ (b >>> 1 != 0x60) = false := by
  unfold Record.encode Record.header
  cases r.iana
  · exact ⟨0xC0, _, rfl, by decide⟩
  · exact ⟨0xC1, _, rfl, by decide⟩

theorem encodeRecords_cons (r : Record) (rs : List Record) : encodeRecords (r :: rs) = r.encode ++ encodeRecords rs := by
  simp [encodeRecords]

/-- nothing that follows a record inside a record list, nor a tail that begins like `tl`, can be taken for more of its
    algorithms -/
theorem okAfter_next (r : Record) (rs : List Record) (tl : Bytes)
    (htl : ∀ b t, tl = b :: t → (b >>> 6 == 1) = false ∧ (b >>> 6 == 2) = false) :
    okAfter r (encodeRecords rs ++ tl) := by
  intro b t hbt
  cases rs with
  | nil =>
    have := htl b t (by simpa [encodeRecords] using hbt)
    exact ⟨this.2, fun _ => this.1⟩
  | cons r' rs' =>
    obtain ⟨b', t', e, hs⟩ := encode_head r'
    rw [encodeRecords_cons, e] at hbt
    simp at hbt
    have := start_tag b' hs
    rw [← hbt.1]
    exact ⟨this.2, fun _ => this.1⟩

/-- a prefix of well-formed records is consumed record by record -/
theorem parseLoop_prefix : ∀ (rs : List Record), (∀ r ∈ rs, r.wf) → ∀ (tl : Bytes),
    (∀ b t, tl = b :: t → (b >>> 6 == 1) = false ∧ (b >>> 6 == 2) = false) → ∀ (f : Nat) (acc : List Entry),
    parseLoop (f + rs.length) (encodeRecords rs ++ tl) acc = parseLoop f tl (acc ++ (rs.flatMap expand).map view) := by
  intro rs
  induction rs with
  | nil => intro _ tl _ f acc; simp [encodeRecords]
  | cons r rs ih =>
    intro hw tl htl f acc
    have hlen := encode_length r
    rw [encodeRecords_cons, List.length_cons, ← Nat.add_assoc]
    conv => lhs; unfold parseLoop
    have hpos : (r.encode ++ encodeRecords rs ++ tl).length > 0 := by simp; omega
    simp only [hpos, if_true]
    rw [List.append_assoc, parseOne_encode r (hw r (by simp)) _ (okAfter_next r rs tl htl)]
    simp only [R.bind_ok]
    rw [ih (fun x hx => hw x (by simp [hx])) tl htl f]
    simp [List.append_assoc]

end Bmc.Lemmas.Enum
