import Bmc.Wire.Dcmi
/-! Refinement theorems for the pkg/dcmi response layers: each faithful model equals the pure decoder on the
    visible bytes — for every receiver state and every Go slice (any capacity, any bytes beyond `len`). -/
namespace Bmc.Wire
open Bmc

/-- an outcome that comes from a pure decoder is a value or an error -/
theorem ofExcept_safe {α : Type} (e : Except Unit α) : (R.ofExcept e).bad = false := by cases e <;> rfl

/-- `s[k:]` denotes the visible bytes from `k` on -/
theorem sub_tail_vis (s : GoSlice) (k : Nat) (h : k ≤ s.len) :
    (s.sub k s.len h (Nat.le_refl _)).vis = s.vis.drop k := by simp

/-- `s[:n]` denotes the first `n` visible bytes -/
theorem sub_head_vis (s : GoSlice) (n : Nat) (h : n ≤ s.len) :
    (s.sub 0 n (Nat.zero_le _) h).vis = s.vis.take n := by simp

theorem DcmiHeader.decodeGo_err (d : GoSlice) (h : d.len < 3) : DcmiHeader.decodeGo d = .err := by
  simp [DcmiHeader.decodeGo, h]

theorem DcmiHeader.decodeGo_ok (d : GoSlice) (h : 3 ≤ d.len) :
    DcmiHeader.decodeGo d = .ok (DcmiHeader.ofBytes d.vis, d.sub 3 d.len h (Nat.le_refl _)) := by
  unfold DcmiHeader.decodeGo DcmiHeader.ofBytes
  have : ¬ d.len < 3 := by omega
  simp only [this, if_false]
  simp (disch := omega) only [GoSlice.idx_ok, GoSlice.sliceFrom_ok, R.bind_ok, R.pure_eq]

/-- `body[i]` where `body = data[3:]` -/
theorem body_idx (d : GoSlice) (h : 3 ≤ d.len) (i : Nat) (hi : 3 + i < d.len) :
    (d.sub 3 d.len h (Nat.le_refl _)).idx i = .ok (d.vis.getD (3 + i) 0) := by
  rw [GoSlice.idx_ok _ _ (by simp; omega), sub_tail_vis, getD_drop]

/-- `body[k:]` where `body = data[3:]` -/
theorem body_from (d : GoSlice) (h : 3 ≤ d.len) (k : Nat) (hk : 3 + k ≤ d.len) :
    ∃ t, (d.sub 3 d.len h (Nat.le_refl _)).sliceFrom k = .ok t ∧ t.vis = d.vis.drop (3 + k) := by
  refine ⟨_, GoSlice.sliceFrom_ok _ _ (by simp; omega), ?_⟩
  rw [sub_tail_vis, sub_tail_vis, List.drop_drop]

/-- `data[:n]` -/
theorem head_to (d : GoSlice) (n : Nat) (hn : n ≤ d.len) :
    ∃ t, d.slice 0 n = .ok t ∧ t.vis = d.vis.take n :=
  ⟨_, GoSlice.slice_ok _ _ _ (Nat.zero_le _) hn, sub_head_vis _ _ hn⟩

theorem DcmiCap1.decodeGo_refines (prev : DcmiCap1) (d : GoSlice) :
    DcmiCap1.decodeGo prev d = R.ofExcept (DcmiCap1.decode d.vis) := by
  unfold DcmiCap1.decodeGo DcmiCap1.decode
  simp only [GoSlice.vis_length]
  by_cases h3 : d.len < 3
  · simp [DcmiHeader.decodeGo_err d h3, h3]
  · have h3' : 3 ≤ d.len := by omega
    rw [DcmiHeader.decodeGo_ok d h3']
    simp only [R.bind_ok, GoSlice.sub_len, h3, if_false]
    by_cases hb : d.len - 3 < 3
    · simp [hb]
    · simp only [hb, if_false]
      obtain ⟨p, hp, hpv⟩ := body_from d h3' 3 (by omega)
      obtain ⟨c, hc, hcv⟩ := head_to d (d.len - (d.len - 3) + 3) (by omega)
      have e : d.len - (d.len - 3) + 3 = 6 := by omega
      rw [body_idx d h3' 1 (by omega), body_idx d h3' 2 (by omega), hp, hc]
      by_cases hv : (DcmiHeader.ofBytes d.vis).isV10 = true
      · simp [hv, body_idx d h3' 0 (by omega), hpv, hcv, e]
      · simp [hv, hpv, hcv, e]

theorem DcmiCap2.decodeGo_refines (prev : DcmiCap2) (d : GoSlice) :
    DcmiCap2.decodeGo prev d = R.ofExcept (DcmiCap2.decode d.vis) := by
  unfold DcmiCap2.decodeGo DcmiCap2.decode
  simp only [GoSlice.vis_length]
  by_cases h3 : d.len < 3
  · simp [DcmiHeader.decodeGo_err d h3, h3]
  · have h3' : 3 ≤ d.len := by omega
    rw [DcmiHeader.decodeGo_ok d h3']
    simp only [R.bind_ok, GoSlice.sub_len, h3, if_false]
    by_cases hb : d.len - 3 < 4
    · simp [hb]
    · simp only [hb, if_false]
      rw [body_idx d h3' 0 (by omega), body_idx d h3' 1 (by omega)]
      by_cases hv : (d.len - 3 == 4 || (DcmiHeader.ofBytes d.vis).isV10) = true
      · obtain ⟨p, hp, hpv⟩ := body_from d h3' 4 (by omega)
        obtain ⟨c, hc, hcv⟩ := head_to d (d.len - (d.len - 3) + 4) (by omega)
        have e : d.len - (d.len - 3) + 4 = 7 := by omega
        simp only [hv, if_true, R.bind_ok, R.pure_eq]
        rw [body_idx d h3' 2 (by omega), body_idx d h3' 3 (by omega), hp, hc]
        simp [hpv, hcv, e]
      · have h5 : 3 + 5 ≤ d.len := by
          have : ¬ (d.len - 3 = 4) := by
            intro h; apply hv; simp [h]
          omega
        obtain ⟨p, hp, hpv⟩ := body_from d h3' 5 h5
        obtain ⟨c, hc, hcv⟩ := head_to d (d.len - (d.len - 3) + 5) (by omega)
        have e : d.len - (d.len - 3) + 5 = 8 := by omega
        simp only [hv, if_false, Bool.false_eq_true, R.bind_ok, R.pure_eq]
        rw [body_idx d h3' 4 (by omega), hp, hc]
        simp [hpv, hcv, e]

theorem DcmiCap3.decodeGo_refines (prev : DcmiCap3) (d : GoSlice) :
    DcmiCap3.decodeGo prev d = R.ofExcept (DcmiCap3.decode d.vis) := by
  unfold DcmiCap3.decodeGo DcmiCap3.decode
  simp only [GoSlice.vis_length]
  by_cases h3 : d.len < 3
  · simp [DcmiHeader.decodeGo_err d h3, h3]
  · have h3' : 3 ≤ d.len := by omega
    rw [DcmiHeader.decodeGo_ok d h3']
    simp only [R.bind_ok, GoSlice.sub_len, h3, if_false]
    by_cases hb : d.len - 3 < 2
    · simp [hb]
    · simp only [hb, if_false]
      obtain ⟨p, hp, hpv⟩ := body_from d h3' 2 (by omega)
      obtain ⟨c, hc, hcv⟩ := head_to d (d.len - (d.len - 3) + 2) (by omega)
      have e : d.len - (d.len - 3) + 2 = 5 := by omega
      rw [body_idx d h3' 0 (by omega), body_idx d h3' 1 (by omega), hp, hc]
      simp [hpv, hcv, e]

theorem DcmiCap4.decodeGo_refines (prev : DcmiCap4) (d : GoSlice) :
    DcmiCap4.decodeGo prev d = R.ofExcept (DcmiCap4.decode d.vis) := by
  unfold DcmiCap4.decodeGo DcmiCap4.decode
  simp only [GoSlice.vis_length]
  by_cases h3 : d.len < 3
  · simp [DcmiHeader.decodeGo_err d h3, h3]
  · have h3' : 3 ≤ d.len := by omega
    rw [DcmiHeader.decodeGo_ok d h3']
    simp only [R.bind_ok, GoSlice.sub_len, h3, if_false]
    by_cases hb : d.len - 3 < 3
    · simp [hb]
    · simp only [hb, if_false]
      obtain ⟨p, hp, hpv⟩ := body_from d h3' 3 (by omega)
      obtain ⟨c, hc, hcv⟩ := head_to d (d.len - (d.len - 3) + 3) (by omega)
      have e : d.len - (d.len - 3) + 3 = 6 := by omega
      rw [body_idx d h3' 0 (by omega), body_idx d h3' 1 (by omega), body_idx d h3' 2 (by omega), hp, hc]
      simp [hpv, hcv, e]

/-- the loop of index expressions succeeds when every index is below `len` -/
theorem idxs_ok (s : GoSlice) (l : List Nat) (h : ∀ i ∈ l, i < s.len) :
    s.idxs l = .ok (l.map (fun i => s.vis.getD i 0)) := by
  induction l with
  | nil => rfl
  | cons i is ih =>
    simp only [GoSlice.idxs]
    rw [GoSlice.idx_ok s i (h i (by simp)), ih (fun j hj => h j (by simp [hj]))]
    rfl

theorem range_getD (l : Bytes) (k n : Nat) (h : k + n ≤ l.length) :
    ((List.range n).map (k + ·)).map (fun i => l.getD i 0) = (l.drop k).take n := by
  apply List.ext_getElem?
  intro i
  by_cases hi : i < n
  · simp [List.getElem?_take, hi, List.getD_eq_getElem?_getD]
    have : k + i < l.length := by omega
    simp [this]
  · simp [List.getElem?_take, hi]

theorem DcmiCap5.decodeGo_refines (prev : DcmiCap5) (d : GoSlice) :
    DcmiCap5.decodeGo prev d = R.ofExcept (DcmiCap5.decode d.vis) := by
  unfold DcmiCap5.decodeGo DcmiCap5.decode
  simp only [GoSlice.vis_length]
  by_cases h3 : d.len < 3
  · simp [DcmiHeader.decodeGo_err d h3, h3]
  · have h3' : 3 ≤ d.len := by omega
    rw [DcmiHeader.decodeGo_ok d h3']
    simp only [R.bind_ok, GoSlice.sub_len, h3, if_false]
    by_cases hb : d.len - 3 < 1
    · simp [hb]
    · simp only [hb, if_false]
      rw [body_idx d h3' 0 (by omega)]
      simp only [R.bind_ok, Nat.add_zero]
      generalize hn : (d.vis.getD 3 0).toNat = n
      by_cases hg : d.len - 3 < 1 + n
      · simp [hg]
      · simp only [hg, if_false]
        obtain ⟨p, hp, hpv⟩ := body_from d h3' (1 + n) (by omega)
        obtain ⟨c, hc, hcv⟩ := head_to d (d.len - (d.len - 3) + 1 + n) (by omega)
        have e : d.len - (d.len - 3) + 1 + n = 4 + n := by omega
        have e2 : 3 + (1 + n) = 4 + n := by omega
        rw [idxs_ok _ _ (by simp; omega), hp, hc, sub_tail_vis, range_getD _ _ _ (by simp; omega)]
        simp [hpv, hcv, e, e2]

theorem PowerReading.decodeGo_refines (prev : PowerReading) (d : GoSlice) :
    PowerReading.decodeGo prev d = R.ofExcept (PowerReading.decode d.vis) := by
  unfold PowerReading.decodeGo PowerReading.decode
  simp -zeta only [GoSlice.vis_length]
  by_cases h : d.len < 17
  · simp [h]
  · simp -zeta only [h, if_false]
    go_round [le32_take, le16_take]
    go_round [le32_take, le16_take]

-- Get DCMI Sensor Info: the reused `RecordIDs` slice ---------------------------------------------------------------

/-- `append` extends what the slice denotes by one element, whatever the capacity -/
theorem U16Slice.append_vis (s : U16Slice) (x : Nat) (h : s.Inv) :
    (s.append x).vis = s.vis ++ [x] ∧ (s.append x).Inv := by
  unfold U16Slice.Inv at h
  unfold U16Slice.append
  by_cases hc : s.len < s.buf.length
  · rw [if_pos hc]
    simp only [U16Slice.vis, U16Slice.Inv, List.length_set]
    refine ⟨?_, by omega⟩
    apply List.ext_getElem?
    intro i
    have hm : min s.len s.buf.length = s.len := by omega
    simp only [List.getElem?_take, List.getElem?_set, List.getElem?_append, List.length_take, hm]
    by_cases h1 : i < s.len
    · have : ¬ s.len = i := by omega
      simp [h1, this, show i < s.len + 1 by omega]
    · by_cases h2 : i = s.len
      · subst h2; simp [hc]
      · have : ¬ i < s.len + 1 := by omega
        have h3 : ¬ s.len = i := by omega
        simp [h1, this, h3]
        omega
  · rw [if_neg hc]
    have e : s.buf.take s.len = s.buf := List.take_of_length_le (by omega)
    simp only [U16Slice.vis, U16Slice.Inv, e, List.length_append, List.length_cons, List.length_nil]
    refine ⟨?_, by omega⟩
    apply List.take_of_length_le
    simp; omega

theorem U16Slice.reset_vis (s : U16Slice) : s.reset.vis = [] ∧ s.reset.Inv := by
  simp [U16Slice.reset, U16Slice.vis, U16Slice.Inv]

theorem SensorInfo.readIDs_ok (d : GoSlice) (l : List Nat) (acc : U16Slice) (hacc : acc.Inv)
    (h : ∀ i ∈ l, 2 + i * 2 + 2 ≤ d.len) :
    ∃ r, SensorInfo.readIDs d l acc = .ok r ∧ r.Inv ∧
      r.vis = acc.vis ++ l.map (fun i => le16 (d.vis.drop (2 + i * 2))) := by
  induction l generalizing acc with
  | nil => exact ⟨acc, rfl, hacc, by simp⟩
  | cons i is ih =>
    have hi := h i (by simp)
    simp only [SensorInfo.readIDs]
    rw [GoSlice.sliceFrom_ok d _ (by omega)]
    simp only [R.bind_ok, GoSlice.sub_len, sub_tail_vis]
    have : ¬ d.len - (2 + i * 2) < 2 := by omega
    simp only [this, if_false]
    obtain ⟨hv, hI⟩ := U16Slice.append_vis acc (le16 (d.vis.drop (2 + i * 2))) hacc
    obtain ⟨r, hr, hrI, hrv⟩ := ih _ hI (fun j hj => h j (by simp [hj]))
    exact ⟨r, hr, hrI, by rw [hrv, hv]; simp⟩

theorem SensorInfo.decodeGo_refines (prev : SensorInfo) (d : GoSlice) :
    (SensorInfo.decodeGo prev d).map SensorInfo.view = R.ofExcept (SensorInfoView.decode d.vis) := by
  unfold SensorInfo.decodeGo SensorInfoView.decode
  simp only [GoSlice.vis_length]
  by_cases h2 : d.len < 2
  · simp [h2, R.map]
  · simp only [h2, if_false]
    rw [GoSlice.idx_ok d 0 (by omega), GoSlice.idx_ok d 1 (by omega)]
    simp only [R.bind_ok]
    generalize hn : (d.vis.getD 1 0).toNat = n
    by_cases hg : d.len < 2 + n * 2
    · simp [hg, R.map]
    · simp only [hg, if_false]
      obtain ⟨c, hc, hcv⟩ := head_to d (2 + n * 2) (by omega)
      obtain ⟨r, hr, _, hrv⟩ := SensorInfo.readIDs_ok d (List.range n) prev.recordIDs.reset
        (U16Slice.reset_vis _).2 (by intro i hi; have := List.mem_range.mp hi; omega)
      rw [hc, GoSlice.sliceFrom_ok d _ (by omega), hr]
      simp [R.map, SensorInfo.view, hrv, hcv, (U16Slice.reset_vis _).1]

end Bmc.Wire
