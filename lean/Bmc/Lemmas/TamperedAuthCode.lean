import Bmc.Lemmas.ResponseAccepted
import Bmc.Lemmas.V2BadSig
/-! A conforming response whose AuthCode bytes are replaced by ANYTHING else (a flipped bit, a truncated or extended code,
    another key's code) does not decode: it is a retry, never the command's result. -/
namespace Bmc.Proto
open Bmc Bmc.Wire Bmc.Crypto

/-- the conforming response datagram with `code` in place of the integrity value -/
def responseWithCode (C : Ops) (k : Keys) (c : Cmd) (cc : UInt8) (data : Bytes) (seq : Nat) (iv : Bytes) (code : Bytes) : Bytes :=
  let inner := responseAes C k c cc data iv
  let w := responseWrapper k seq
  [6, 0, 0xFF, 7] ++ (v2Header w inner.length ++ (inner ++ (v2Trailer (v2Pad w inner.length) ++ code)))

/-- what the AuthCode of that datagram has to be -/
def responseCode (C : Ops) (k : Keys) (c : Cmd) (cc : UInt8) (data : Bytes) (seq : Nat) (iv : Bytes) : Bytes :=
  let inner := responseAes C k c cc data iv
  let w := responseWrapper k seq
  integMac C k.integ k.k1 (v2Header w inner.length ++ (inner ++ v2Trailer (v2Pad w inner.length)))

theorem responseDatagram_eq (C : Ops) (k : Keys) (c : Cmd) (cc : UInt8) (data : Bytes) (seq : Nat) (iv : Bytes)
    (hlen : (responseAes C k c cc data iv).length < 65536) :
    responseDatagram C k c cc data seq iv = responseWithCode C k c cc data seq iv (responseCode C k c cc data seq iv) := by
  unfold responseDatagram responseWithCode responseCode
  rw [V2Session.encode_auth _ _ _ rfl]
  have : (responseAes C k c cc data iv).length % 65536 = (responseAes C k c cc data iv).length := by omega
  simp only [this]

theorem classify_tampered_code (C : Ops) (k : Keys) (c : Cmd) (cc : UInt8) (data : Bytes) (seq : Nat) (iv : Bytes) (code : Bytes)
    (hid : k.localID < 4294967296) (hseq : seq < 4294967296) (hlen : (responseAes C k c cc data iv).length < 65536)
    (hne : code ≠ responseCode C k c cc data seq iv) :
    classify C k c (responseWithCode C k c cc data seq iv code) = .retry := by
  unfold classify onReply responseWithCode
  rw [rmcp_decode]
  simp only []
  generalize hrest : v2Header (responseWrapper k seq) (responseAes C k c cc data iv).length ++
      (responseAes C k c cc data iv ++ (v2Trailer (v2Pad (responseWrapper k seq) (responseAes C k c cc data iv).length) ++ code)) = rest
  have hvis : ((GoSlice.ofBytes ([6, 0, 0xFF, 7] ++ rest)).sub 4 (rest.length + 4) (by omega) (by simp)).vis = rest := by simp
  have hl : ((GoSlice.ofBytes ([6, 0, 0xFF, 7] ++ rest)).sub 4 (rest.length + 4) (by omega) (by simp)).len = rest.length := by simp
  have hbad : V2Session.decode (integMac C k.integ k.k1) rest = .error () := by
    rw [← hrest]
    have hw : ((responseWrapper k seq).payloadType == 2) = false := rfl
    refine V2Session.decode_layout_badsig _ _ _ _ _ false ?_ ?_ ?_ ?_ ?_ ?_ hne
    · rw [v2Header_length]; simp [hw]
    · simp [v2Header]
    · simp [v2Header, responseWrapper]; decide
    · simp [v2Header, responseWrapper]; decide
    · have := v2Header_len16 (responseWrapper k seq) _ hlen
      simpa [hw] using this
    · have := v2Pad_le (responseWrapper k seq) (responseAes C k c cc data iv).length; omega
  have hk1 : k.sess.integ = k.integ := rfl
  have hk2 : k.sess.k1 = k.k1 := rfl
  rw [V2Session.decodeGo_refines, hvis, hl, hk1, hk2, hbad]
  have h0 : (rest.length == 0) = false := by
    rw [← hrest]; simp [v2Header, putLE32, putLE16]
  have h6 : (rest.getD 0 0 != 6) = false := by
    rw [← hrest]; simp [v2Header]
  have h7 : ((7 : UInt8) != 7) = false := rfl
  simp only [h0, h6, h7, Bool.false_eq_true, if_false, R.ofExcept_error]
  simp [view]

end Bmc.Proto
