import Bmc.Proto.Enum
import Bmc.Spec.Enum
import Bmc.Spec.Dcmi
import Bmc.Proofs.C07.Sess
import Bmc.Proofs.C07.Dcmi
/-! Helper lemmas for C16, the paging loops: fuel (for EVERY BMC), the chunk loop against the paging BMC, the
    instance-start loop against the specification's DCMI BMC, request logs of the sensor-map loop. -/
namespace Bmc.Lemmas.Enum
open Bmc Bmc.Proto.Enum Bmc.Spec.Enum

-- chunk loop ---------------------------------------------------------------------------------------------------------
/-- any fuel above the number of list indices left gives the same result, whatever the BMC answers -/
theorem retrieveLoop_fuel (limit : Nat) (hl : limit < 256) (page : Nat → Option Bytes) :
    ∀ (f1 f2 i : Nat) (buf : Bytes), i ≤ limit → limit - i < f1 → limit - i < f2 →
    retrieveLoop limit page f1 i buf = retrieveLoop limit page f2 i buf := by
  intro f1
  induction f1 with
  | zero => intro f2 i buf _ h; omega
  | succ n ih =>
    intro f2 i buf hi h1 h2
    cases f2 with
    | zero => omega
    | succ m =>
      unfold retrieveLoop
      cases hp : page (i % 64) with
      | none => rfl
      | some chunk =>
        simp only []
        by_cases hb : (i == limit || decide (chunk.length < 16)) = true
        · simp only [hb, if_true]
        · simp only [hb, if_false, Bool.false_eq_true]
          have hne : i ≠ limit := by intro e; simp [e] at hb
          have hmod : (i + 1) % 256 = i + 1 := Nat.mod_eq_of_lt (by omega)
          rw [hmod, ih m (i + 1) (buf ++ chunk) (by omega) (by omega) (by omega)]

/-- against the paging BMC the loop reassembles the record data, asking for the list indices in order up to the one
    that holds the end of the data (or `limit`, if that comes first and is a valid index) -/
theorem retrieveLoop_page (limit : Nat) (data : Bytes)
    (hd : data.length < 16 * limit ∧ limit ≤ 64 ∨ limit ≤ 63 ∧ data.length ≤ 16 * limit + 16) :
    ∀ (f i : Nat), i ≤ limit → 16 * i ≤ data.length → limit - i < f →
    retrieveLoop limit (fun w => some (page data w)) f i (data.take (16 * i)) =
      (List.range' i (min (data.length / 16) limit - i + 1), .ok data) := by
  intro f
  induction f with
  | zero => intro i _ _ h; omega
  | succ n ih =>
    intro i hi h16 hf
    have hi64 : i < 64 := by omega
    unfold retrieveLoop
    simp only [Nat.mod_eq_of_lt hi64]
    have hplen : (page data i).length = min 16 (data.length - 16 * i) := by simp [page]
    by_cases hb : (i == limit || decide ((page data i).length < 16)) = true
    · simp only [hb, if_true]
      have hrest : data.length - 16 * i ≤ 16 := by
        simp only [Bool.or_eq_true, beq_iff_eq, decide_eq_true_eq] at hb
        omega
      have hpg : page data i = data.drop (16 * i) := by
        simp only [page]; exact List.take_of_length_le (by simp; omega)
      have hlast : min (data.length / 16) limit - i + 1 = 1 := by
        simp only [Bool.or_eq_true, beq_iff_eq, decide_eq_true_eq] at hb
        omega
      rw [hpg, List.take_append_drop, hlast]
      rfl
    · simp only [hb, if_false, Bool.false_eq_true]
      simp only [Bool.or_eq_true, beq_iff_eq, decide_eq_true_eq, not_or] at hb
      have hmod : (i + 1) % 256 = i + 1 := Nat.mod_eq_of_lt (by omega)
      have hbuf : data.take (16 * i) ++ page data i = data.take (16 * (i + 1)) := by
        simp only [page]; rw [Nat.mul_add, Nat.mul_one, List.take_add]
      rw [hmod, hbuf, ih (i + 1) (by omega) (by omega) (by omega)]
      have : min (data.length / 16) limit - i + 1 = (min (data.length / 16) limit - (i + 1) + 1) + 1 := by omega
      rw [this]
      simp [List.range'_succ]

/-- the response layer hands back the page the BMC sent -/
theorem pageOfBody_spec (ch : UInt8) (hch : ch.toNat < 16) (data : Bytes) :
    pageOfBody (fun i => some (pageBody ch data i)) = fun w => some (page data w) := by
  funext w
  have hwf : (⟨ch, page data w⟩ : Spec.CipherSuites).wf := ⟨hch, by simp [page]; omega⟩
  simp [pageOfBody, pageBody, Proofs.C07.cipherSuites_decode_spec _ hwf, Proofs.C07.cipherSuitesView]

-- instance-start loop ------------------------------------------------------------------------------------------------
/-- 256 rounds are enough for every BMC: a round that does not end the loop adds at least one record ID, and the loop
    goes on only while there are fewer than `Instances` ≤ 255 of them -/
theorem instLoop_fuel (bmc : Proto.Enum.Bmc) (e : Nat) :
    ∀ (f1 f2 : Nat) (ids : List Nat) (total : Nat), total ≤ 255 → 255 - ids.length < f1 → 255 - ids.length < f2 →
    instLoop bmc e f1 ids total = instLoop bmc e f2 ids total := by
  intro f1
  induction f1 with
  | zero => intro f2 ids total _ h; omega
  | succ n ih =>
    intro f2 ids total ht h1 h2
    cases f2 with
    | zero => omega
    | succ m =>
      unfold instLoop
      by_cases hlt : ids.length < total
      · simp only [hlt, if_true]
        cases hq : bmc e ((ids.length + 1) % 256) with
        | none => rfl
        | some r =>
          obtain ⟨tot, pg⟩ := r
          simp only []
          by_cases hb : (pg.length == 0 || (ids ++ pg).length == 255) = true
          · simp only [hb, if_true]
          · simp only [hb, if_false, Bool.false_eq_true]
            simp only [Bool.or_eq_true, beq_iff_eq, not_or] at hb
            have hlen : (ids ++ pg).length = ids.length + pg.length := by simp
            rw [ih m (ids ++ pg) (tot % 256) (by omega) (by omega) (by omega)]
      · simp only [hlt, if_false]

/-- every request of the loop names the entity asked for -/
theorem instLoop_log (bmc : Proto.Enum.Bmc) (e : Nat) : ∀ (f : Nat) (ids : List Nat) (total : Nat),
    ∀ q ∈ (instLoop bmc e f ids total).1, q.entity = e := by
  intro f
  induction f with
  | zero => intro ids total q hq; simp [instLoop] at hq
  | succ n ih =>
    intro ids total q hq
    unfold instLoop at hq
    by_cases hlt : ids.length < total
    · simp only [hlt, if_true] at hq
      cases hb : bmc e ((ids.length + 1) % 256) with
      | none => rw [hb] at hq; simp at hq; rw [hq]
      | some r =>
        obtain ⟨tot, pg⟩ := r
        rw [hb] at hq
        simp only [] at hq
        by_cases hbr : (pg.length == 0 || (ids ++ pg).length == 255) = true
        · simp only [hbr, if_true] at hq; simp at hq; rw [hq]
        · simp only [hbr, if_false, Bool.false_eq_true] at hq
          simp only [List.mem_cons] at hq
          rcases hq with rfl | hq
          · rfl
          · exact ih _ _ q hq
    · simp only [hlt, if_false] at hq; simp at hq

/-- the first request of an enumeration asks for instance 1 -/
theorem entityInstances_first (bmc : Proto.Enum.Bmc) (e : Nat) :
    ∃ l, (entityInstances bmc e).1 = ⟨e, 1⟩ :: l := by
  unfold entityInstances instLoop
  simp only [List.length_nil, Nat.lt_one_iff, if_true, Nat.zero_add]
  cases bmc e (1 % 256) with
  | none => exact ⟨[], rfl⟩
  | some r =>
    obtain ⟨tot, pg⟩ := r
    simp only []
    split
    · exact ⟨[], rfl⟩
    · exact ⟨_, rfl⟩

theorem entityInstances_res (bmc : Proto.Enum.Bmc) (e : Nat) :
    (entityInstances bmc e).2 = .err ∨ ∃ ids, (entityInstances bmc e).2 = .ok ids := by
  unfold entityInstances
  generalize 256 = f
  generalize ([] : List Nat) = ids
  generalize 1 = total
  induction f generalizing ids total with
  | zero => exact Or.inl rfl
  | succ n ih =>
    unfold instLoop
    split
    · cases bmc e ((ids.length + 1) % 256) with
      | none => exact Or.inl rfl
      | some r =>
        obtain ⟨tot, pg⟩ := r
        simp only []
        split
        · exact Or.inr ⟨_, rfl⟩
        · exact ih _ _
    · exact Or.inr ⟨_, rfl⟩

/-- against the specification's BMC holding `ids` for the entity: every round extends the prefix already collected by
    the next page, until all of `ids` is there -/
theorem instLoop_spec (b : DcmiBmc) (e : Nat) (ids : List Nat) (hb : b.ids e = some ids) (hn : ids.length ≤ 255)
    (hp : 1 ≤ b.pageSize) :
    ∀ (f k total : Nat), k ≤ ids.length → ids.length - k < f → (total = ids.length ∨ k = 0 ∧ total = 1) →
    ∃ l, instLoop b.respond e f (ids.take k) total = (l, .ok ids) := by
  intro f
  induction f with
  | zero => intro k total _ h; omega
  | succ n ih =>
    intro k total hk hf ht
    unfold instLoop
    have hlen : (ids.take k).length = k := by simp; omega
    simp only [hlen]
    by_cases hlt : k < total
    · simp only [hlt, if_true]
      have hk254 : k ≤ 254 := by omega
      have hmod : (k + 1) % 256 = k + 1 := Nat.mod_eq_of_lt (by omega)
      have hr : b.respond e (k + 1) = some (ids.length, (ids.drop k).take b.pageSize) := by
        simp [DcmiBmc.respond, hb]
      simp only [hmod, hr]
      have hcat : ids.take k ++ (ids.drop k).take b.pageSize = ids.take (k + b.pageSize) := by
        rw [List.take_add]
      rw [hcat]
      by_cases hbr : (((ids.drop k).take b.pageSize).length == 0 || (ids.take (k + b.pageSize)).length == 255) = true
      · simp only [hbr, if_true]
        have hall : ids.length ≤ k + b.pageSize := by
          simp only [Bool.or_eq_true, beq_iff_eq, List.length_take, List.length_drop] at hbr
          omega
        rw [List.take_of_length_le hall]
        exact ⟨_, rfl⟩
      · simp only [hbr, if_false, Bool.false_eq_true]
        have hmodn : ids.length % 256 = ids.length := Nat.mod_eq_of_lt (by omega)
        rw [hmodn]
        by_cases hmore : k + b.pageSize < ids.length
        · obtain ⟨l, hl⟩ := ih (k + b.pageSize) ids.length (by omega) (by omega) (Or.inl rfl)
          rw [hl]
          exact ⟨_, rfl⟩
        · have : ids.take (k + b.pageSize) = ids.take ids.length := by
            rw [List.take_of_length_le (by omega), List.take_of_length_le (Nat.le_refl _)]
          rw [this]
          have hkn : k < ids.length := by
            simp only [Bool.or_eq_true, beq_iff_eq, List.length_take, List.length_drop, not_or] at hbr
            omega
          obtain ⟨l, hl⟩ := ih ids.length ids.length (Nat.le_refl _) (by omega) (Or.inl rfl)
          rw [hl]
          exact ⟨_, rfl⟩
    · simp only [hlt, if_false]
      have : k = ids.length := by omega
      rw [this, List.take_of_length_le (Nat.le_refl _)]
      exact ⟨_, rfl⟩

/-- … and the requests made are exactly the instance starts 1, 1 + p, 1 + 2p, … while instances remain -/
theorem instLoop_spec_log (b : DcmiBmc) (e : Nat) (ids : List Nat) (hb : b.ids e = some ids) (hn : ids.length ≤ 255)
    (hp : 1 ≤ b.pageSize) :
    ∀ (f k total : Nat), ids.length - k ≤ f → (k < ids.length ∧ total = ids.length ∨ k = 0 ∧ total = 1) →
    instLoop b.respond e (f + 1) (ids.take k) total =
      ((expectedStarts b.pageSize ids.length (f + 1) k).map (fun s => ⟨e, s⟩), .ok ids) := by
  -- one round from a state `ids.take k`
  have round : ∀ (f k total : Nat), (k < ids.length ∧ total = ids.length ∨ k = 0 ∧ total = 1) →
      instLoop b.respond e (f + 1) (ids.take k) total =
        if (((ids.drop k).take b.pageSize).length == 0 || (ids.take (k + b.pageSize)).length == 255) = true
        then ([⟨e, k + 1⟩], .ok (ids.take (k + b.pageSize)))
        else (⟨e, k + 1⟩ :: (instLoop b.respond e f (ids.take (k + b.pageSize)) ids.length).1,
              (instLoop b.respond e f (ids.take (k + b.pageSize)) ids.length).2) := by
    intro f k total ht
    have hk : k ≤ ids.length := by omega
    have hlen : (ids.take k).length = k := by simp; omega
    have hlt : k < total := by omega
    have hmod : (k + 1) % 256 = k + 1 := Nat.mod_eq_of_lt (by omega)
    have hr : b.respond e (k + 1) = some (ids.length, (ids.drop k).take b.pageSize) := by
      simp [DcmiBmc.respond, hb]
    have hcat : ids.take k ++ (ids.drop k).take b.pageSize = ids.take (k + b.pageSize) := by
      rw [List.take_add]
    have hmodn : ids.length % 256 = ids.length := Nat.mod_eq_of_lt (by omega)
    conv => lhs; unfold instLoop
    simp only [hlen, hlt, if_true, hmod, hr, hcat, hmodn]
  intro f
  induction f with
  | zero =>
    intro k total hf ht
    rw [round 0 k total ht]
    have hall : ids.length ≤ k + b.pageSize := by omega
    have hbr : (((ids.drop k).take b.pageSize).length == 0 || (ids.take (k + b.pageSize)).length == 255) = true := by
      simp only [Bool.or_eq_true, beq_iff_eq, List.length_take, List.length_drop]; omega
    rw [if_pos hbr, List.take_of_length_le hall]
    simp [expectedStarts]
  | succ n ih =>
    intro k total hf ht
    rw [round (n + 1) k total ht]
    unfold expectedStarts
    by_cases hbr : (((ids.drop k).take b.pageSize).length == 0 || (ids.take (k + b.pageSize)).length == 255) = true
    · simp only [hbr, if_true]
      have hall : ids.length ≤ k + b.pageSize := by
        simp only [Bool.or_eq_true, beq_iff_eq, List.length_take, List.length_drop] at hbr
        omega
      have hno : ¬ (k + b.pageSize < ids.length) := by omega
      rw [List.take_of_length_le hall]
      simp [hno]
    · simp only [hbr, if_false, Bool.false_eq_true]
      by_cases hmore : k + b.pageSize < ids.length
      · rw [ih (k + b.pageSize) ids.length (by omega) (Or.inl ⟨hmore, rfl⟩)]
        simp [hmore]
      · have : ids.take (k + b.pageSize) = ids := List.take_of_length_le (by omega)
        rw [this]
        unfold instLoop
        simp [hmore]

/-- an entity ID the BMC rejects ends the enumeration with an error at the first request -/
theorem entityInstances_reject (b : DcmiBmc) (e : Nat) (hb : b.ids e = none) :
    (entityInstances b.respond e).2 = .err := by
  simp [entityInstances, instLoop, DcmiBmc.respond, hb]

/-- the response layer hands back the total and the record IDs the BMC sent -/
theorem bmcOfBody_spec (b : DcmiBmc) (hb : ∀ e ids, b.ids e = some ids → ids.length ≤ 255 ∧ ∀ r ∈ ids, r < 65536) :
    bmcOfBody b.respondBody = b.respond := by
  funext e s
  unfold bmcOfBody DcmiBmc.respondBody DcmiBmc.respond
  cases hi : b.ids e with
  | none => rfl
  | some ids =>
    obtain ⟨hlen, hr⟩ := hb e ids hi
    have hwf : (⟨UInt8.ofNat ids.length, (ids.drop (s - 1)).take b.pageSize⟩ : Spec.SensorInfo).wf := by
      refine ⟨by simp; omega, ?_⟩
      intro r hmem
      exact hr r (List.mem_of_mem_drop (List.mem_of_mem_take hmem))
    have hn : ids.length % 256 = ids.length := Nat.mod_eq_of_lt (by omega)
    simp [Proofs.C07.sensorInfo_decode_spec _ hwf, Proofs.C07.sensorInfoView, hn]

-- sensor map ---------------------------------------------------------------------------------------------------------
/-- the loop over entities asks only about those entities -/
theorem sensorMapLoop_log (bmc : Proto.Enum.Bmc) : ∀ (es : List Nat) (m : SMap),
    ∀ q ∈ (sensorMapLoop bmc es m).1, q.entity ∈ es := by
  intro es
  induction es with
  | nil => intro m q hq; simp [sensorMapLoop] at hq
  | cons e es ih =>
    intro m q hq
    unfold sensorMapLoop at hq
    have hlog := instLoop_log bmc e 256 [] 1
    generalize hx : entityInstances bmc e = x at hq
    have hlog' : ∀ q ∈ x.1, q.entity = e := by rw [← hx]; exact hlog
    obtain ⟨l1, r1⟩ := x
    cases r1 with
    | ok ids =>
      simp only [List.mem_append] at hq
      rcases hq with h | h
      · simp [hlog' q h]
      · exact List.mem_cons_of_mem _ (ih _ q h)
    | err => simp only [] at hq; simp [hlog' q hq]
    | panic => simp only [] at hq; simp [hlog' q hq]
    | overread => simp only [] at hq; simp [hlog' q hq]

/-- … and begins by asking about the first one -/
theorem sensorMapLoop_first (bmc : Proto.Enum.Bmc) (e : Nat) (es : List Nat) (m : SMap) :
    ∃ l, (sensorMapLoop bmc (e :: es) m).1 = ⟨e, 1⟩ :: l := by
  obtain ⟨l, hl⟩ := entityInstances_first bmc e
  unfold sensorMapLoop
  generalize hx : entityInstances bmc e = x at hl
  obtain ⟨l1, r1⟩ := x
  simp only [] at hl
  cases r1 <;> simp only [hl] <;> exact ⟨_, rfl⟩

/-- it ends with a map or an error -/
theorem sensorMapLoop_res (bmc : Proto.Enum.Bmc) : ∀ (es : List Nat) (m : SMap),
    (sensorMapLoop bmc es m).2 = .err ∨ ∃ m', (sensorMapLoop bmc es m).2 = .ok m' := by
  intro es
  induction es with
  | nil => intro m; exact Or.inr ⟨m, rfl⟩
  | cons e es ih =>
    intro m
    unfold sensorMapLoop
    generalize entityInstances bmc e = x
    obtain ⟨l1, r1⟩ := x
    cases r1 with
    | ok ids => exact ih _
    | err => exact Or.inl rfl
    | panic => exact Or.inl rfl
    | overread => exact Or.inl rfl

-- against the specification's BMC -----------------------------------------------------------------------------------
theorem entityInstances_spec (b : DcmiBmc) (e : Nat) (ids : List Nat) (hb : b.ids e = some ids) (hn : ids.length ≤ 255)
    (hp : 1 ≤ b.pageSize) : ∃ l, entityInstances b.respond e = (l, .ok ids) := by
  have := instLoop_spec b e ids hb hn hp 256 0 1 (by omega) (by omega) (Or.inr ⟨rfl, rfl⟩)
  simpa [entityInstances] using this

/-- three distinct entities, each held by the BMC: the map has their record IDs -/
theorem sensorMap_spec3 (b : DcmiBmc) (hp : 1 ≤ b.pageSize) (e0 e1 e2 : Nat) (h01 : e0 ≠ e1) (h02 : e0 ≠ e2) (h12 : e1 ≠ e2)
    (i0 i1 i2 : List Nat) (h0 : b.ids e0 = some i0) (h1 : b.ids e1 = some i1) (h2 : b.ids e2 = some i2)
    (l0 : i0.length ≤ 255) (l1 : i1.length ≤ 255) (l2 : i2.length ≤ 255) :
    ∃ l, sensorMap b.respond [e0, e1, e2] = (l, .ok [(e2, i2), (e1, i1), (e0, i0)]) := by
  obtain ⟨a0, ha0⟩ := entityInstances_spec b e0 i0 h0 l0 hp
  obtain ⟨a1, ha1⟩ := entityInstances_spec b e1 i1 h1 l1 hp
  obtain ⟨a2, ha2⟩ := entityInstances_spec b e2 i2 h2 l2 hp
  refine ⟨a0 ++ (a1 ++ (a2 ++ [])), ?_⟩
  have n10 : (e0 != e1) = true := by simpa using h01
  have n20 : (e0 != e2) = true := by simpa using h02
  have n21 : (e1 != e2) = true := by simpa using h12
  simp [sensorMap, sensorMapLoop, ha0, ha1, ha2, SMap.set, n10, n20, n21]

/-- an entity the BMC rejects makes the whole map an error (nothing of the entities before it is kept) -/
theorem sensorMapLoop_reject (b : DcmiBmc) (hp : 1 ≤ b.pageSize) (hlen : ∀ e ids, b.ids e = some ids → ids.length ≤ 255) :
    ∀ (es : List Nat) (m : SMap), (∃ e ∈ es, b.ids e = none) → (sensorMapLoop b.respond es m).2 = .err := by
  intro es
  induction es with
  | nil => intro m h; simp at h
  | cons e es ih =>
    intro m h
    unfold sensorMapLoop
    cases hi : b.ids e with
    | none =>
      have := entityInstances_reject b e hi
      generalize entityInstances b.respond e = x at this
      obtain ⟨l1, r1⟩ := x
      simp only [] at this
      rw [this]
    | some ids =>
      obtain ⟨l, hl⟩ := entityInstances_spec b e ids hi (hlen e ids hi) hp
      rw [hl]
      simp only []
      apply ih
      obtain ⟨e', hm, hn⟩ := h
      simp only [List.mem_cons] at hm
      rcases hm with rfl | hm
      · rw [hi] at hn; cases hn
      · exact ⟨e', hm, hn⟩

theorem get3 (e0 e1 e2 : Nat) (h01 : e0 ≠ e1) (h02 : e0 ≠ e2) (h12 : e1 ≠ e2) (i0 i1 i2 : List Nat) :
    SMap.get [(e2, i2), (e1, i1), (e0, i0)] e0 = i0 ∧ SMap.get [(e2, i2), (e1, i1), (e0, i0)] e1 = i1 ∧
    SMap.get [(e2, i2), (e1, i1), (e0, i0)] e2 = i2 ∧
    SMap.count [(e2, i2), (e1, i1), (e0, i0)] = i2.length + (i1.length + i0.length) := by
  have a : (e0 == e2) = false := by simpa using h02
  have b : (e0 == e1) = false := by simpa using h01
  have c : (e1 == e2) = false := by simpa using h12
  simp [SMap.get, SMap.count, List.lookup, a, b, c]

/-- the entity IDs in the source (regenerated constants) are the specification's -/
theorem entities_eq : Proto.Enum.stdEntities = [0x37, 0x03, 0x07] ∧ Proto.Enum.dcmiEntities = [0x40, 0x41, 0x42] ∧
    Proto.Enum.stdEntities = Spec.Enum.stdEntities ∧ Proto.Enum.dcmiEntities = Spec.Enum.dcmiEntities := by decide

end Bmc.Lemmas.Enum
