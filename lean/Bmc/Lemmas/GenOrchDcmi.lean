import Bmc.Gen.Orch
import Bmc.Lemmas.GenOrch
import Bmc.Lemmas.GenOrchFuel
import Bmc.Proto.Enum
import Bmc.Lemmas.EnumPaging
/-! Helper definitions and lemmas for `Proofs/GenOrch/*` (DCMI sensor info) that do not depend on the BODIES of the
    regenerated functions: how a typed BMC is turned into the answer function the regenerated definitions take and into
    the hand model's BMC (`Proto/Enum.lean`), one round of the instance-start loop written out and the loop against the
    hand model's `instLoop`, the Go `sensorMap` (association list, insertion order) against the hand model's `SMap`. -/
namespace Bmc.Lemmas.GenOrchDcmi
open Bmc Bmc.GoOrch Bmc.Gen.Orch Bmc.Proto.Enum

/-- a BMC as the TYPES of the code see it: request struct ↦ response struct, `none` = `ValidateResponse` gave an error -/
abbrev TBmc := GetDCMISensorInfoReq → Option GetDCMISensorInfoRsp

/-- the answer function of such a BMC, keeping the log of the request structs; `junk` = what the response struct holds
    after a FAILED command (anything) -/
def ansOf (b : TBmc) (junk : List GetDCMISensorInfoReq → GetDCMISensorInfoReq → GetDCMISensorInfoRsp) :
    List GetDCMISensorInfoReq → GetDCMISensorInfoReq → List GetDCMISensorInfoReq × GetDCMISensorInfoRsp × Bool :=
  fun log q => (log ++ [q], (b q).getD (junk log q), (b q).isSome)

/-- the hand model's BMC (entity, instance start ↦ instances, record IDs) for sensor type `typ`, instance 0 -/
def handOf (b : TBmc) (typ : UInt8) : Proto.Enum.Bmc := fun e s =>
  (b ⟨typ, UInt8.ofNat e, 0, UInt8.ofNat s⟩).map fun r => (r.instances.toNat, r.recordIDs.map (·.toNat))

def viewReq (q : GetDCMISensorInfoReq) : Proto.Enum.Req := ⟨q.entity.toNat, q.instanceStart.toNat⟩
def ids (l : List UInt16) : List Nat := l.map (·.toNat)

abbrev St := List GetDCMISensorInfoReq × GetDCMISensorInfoCmd

/-- one round of the `for len(recordIDs) < totalInstances` loop, written out -/
def stepSpec (b : TBmc) (junk : List GetDCMISensorInfoReq → GetDCMISensorInfoReq → GetDCMISensorInfoRsp)
    (st : List UInt16 × Nat) : M St (Step (List UInt16 × Nat)) := fun s =>
  if st.1.length < st.2 then
    let q : GetDCMISensorInfoReq := { s.2.req with instanceStart := UInt8.ofNat (st.1.length + 1) }
    let r := (b q).getD (junk s.1 q)
    bif (b q).isSome then
      if (r.recordIDs.length == 0 || (st.1 ++ r.recordIDs).length == 255) then
        (.ok (.brk (st.1 ++ r.recordIDs, r.instances.toNat)), (s.1 ++ [q], { req := q, rsp := r }))
      else (.ok (.next (st.1 ++ r.recordIDs, r.instances.toNat)), (s.1 ++ [q], { req := q, rsp := r }))
    else (.err, (s.1 ++ [q], { req := q, rsp := r }))
  else (.ok (.brk st), s)

theorem toNat_ofNat_succ (n : Nat) : (UInt8.ofNat (n + 1)).toNat = (n + 1) % 256 := by
  simp [UInt8.toNat_ofNat']

/-- the loop against the hand model's loop (with fuel that suffices: the hand model reports exhausted fuel as an error,
    the regenerated loop as `outOfFuel`) -/
theorem loop_instLoop (b : TBmc) (junk) (typ E : UInt8) : ∀ (f : Nat) (acc : List UInt16) (total : Nat) (log : List GetDCMISensorInfoReq)
    (cmd : GetDCMISensorInfoCmd), cmd.req.type_ = typ → cmd.req.entity = E → cmd.req.instance_ = 0 →
    total ≤ 255 → 255 - acc.length < f →
    ((loop f (stepSpec b junk) (acc, total) (log, cmd)).1.map (fun st => ids st.1)
        = RF.lift (instLoop (handOf b typ) E.toNat f (ids acc) total).2) ∧
    (loop f (stepSpec b junk) (acc, total) (log, cmd)).2.1.map viewReq
        = log.map viewReq ++ (instLoop (handOf b typ) E.toNat f (ids acc) total).1 ∧
    (loop f (stepSpec b junk) (acc, total) (log, cmd)).2.2.req.type_ = typ ∧
    (loop f (stepSpec b junk) (acc, total) (log, cmd)).2.2.req.entity = E ∧
    (loop f (stepSpec b junk) (acc, total) (log, cmd)).2.2.req.instance_ = 0 := by
  intro f
  induction f with
  | zero => intro acc total log cmd _ _ _ _ h; omega
  | succ n ih =>
    intro acc total log cmd ht he hi htot hf
    have hlen : (ids acc).length = acc.length := by simp [ids]
    rw [loop_succ]
    unfold instLoop
    simp only [stepSpec, hlen]
    by_cases hlt : acc.length < total
    · simp only [hlt, if_true]
      have hq : handOf b typ E.toNat ((acc.length + 1) % 256)
          = (b { cmd.req with instanceStart := UInt8.ofNat (acc.length + 1) }).map
              fun r => (r.instances.toNat, r.recordIDs.map (·.toNat)) := by
        unfold handOf
        congr 2
        cases hc : cmd.req with
        | mk t e i st =>
          rw [hc] at ht he hi
          simp only at ht he hi
          subst ht he hi
          simp only [UInt8.ofNat_toNat, GetDCMISensorInfoReq.mk.injEq, true_and]
          apply UInt8.toNat_inj.mp
          simp [UInt8.toNat_ofNat']
      rw [hq]
      cases hb : b { cmd.req with instanceStart := UInt8.ofNat (acc.length + 1) } with
      | none =>
        simp [RF.map, viewReq, he, ht, hi, toNat_ofNat_succ]
      | some r =>
        simp only [Option.map_some, Option.isSome_some, Option.getD_some, cond_true]
        have hl2 : (ids acc ++ r.recordIDs.map (·.toNat)).length = (acc ++ r.recordIDs).length := by simp [ids]
        have hl3 : (r.recordIDs.map (·.toNat)).length = r.recordIDs.length := by simp
        rw [hl2, hl3]
        by_cases hbr : (r.recordIDs.length == 0 || (acc ++ r.recordIDs).length == 255) = true
        · simp only [hbr, if_true]
          simp [RF.map, viewReq, he, ht, hi, toNat_ofNat_succ, ids]
        · simp only [hbr, Bool.false_eq_true, if_false]
          simp only [Bool.or_eq_true, beq_iff_eq, not_or] at hbr
          have hlen' : (acc ++ r.recordIDs).length = acc.length + r.recordIDs.length := by simp
          have hm : r.instances.toNat % 256 = r.instances.toNat := Nat.mod_eq_of_lt r.instances.toNat_lt
          have := ih (acc ++ r.recordIDs) r.instances.toNat (log ++ [{ cmd.req with instanceStart := UInt8.ofNat (acc.length + 1) }])
            { req := { cmd.req with instanceStart := UInt8.ofNat (acc.length + 1) }, rsp := r } ht he hi
            (by have := r.instances.toNat_lt; omega) (by omega)
          have hids : ids (acc ++ r.recordIDs) = ids acc ++ r.recordIDs.map (·.toNat) := by simp [ids]
          rw [hids] at this
          rw [hm]
          obtain ⟨h1, h2, h3, h4, h5⟩ := this
          refine ⟨h1, ?_, h3, h4, h5⟩
          rw [h2]
          simp [viewReq, he, toNat_ofNat_succ]
    · simp [hlt, RF.map, ht, he, hi]

/-! ## the instance-start loop over ANY answer function (any state): 256 rounds suffice -/

/-- one round of the `for len(recordIDs) < totalInstances` loop over an arbitrary answer function -/
def stepAny {σ : Type} (send : σ → GetDCMISensorInfoReq → σ × GetDCMISensorInfoRsp × Bool) (st : List UInt16 × Nat) :
    M (σ × GetDCMISensorInfoCmd) (Step (List UInt16 × Nat)) := fun s =>
  if st.1.length < st.2 then
    bif (send s.1 { s.2.req with instanceStart := UInt8.ofNat (st.1.length + 1) }).2.2 then
      if ((send s.1 { s.2.req with instanceStart := UInt8.ofNat (st.1.length + 1) }).2.1.recordIDs.length == 0 ||
          (st.1 ++ (send s.1 { s.2.req with instanceStart := UInt8.ofNat (st.1.length + 1) }).2.1.recordIDs).length == 255) then
        (.ok (.brk (st.1 ++ (send s.1 { s.2.req with instanceStart := UInt8.ofNat (st.1.length + 1) }).2.1.recordIDs,
            (send s.1 { s.2.req with instanceStart := UInt8.ofNat (st.1.length + 1) }).2.1.instances.toNat)),
          ((send s.1 { s.2.req with instanceStart := UInt8.ofNat (st.1.length + 1) }).1,
           { req := { s.2.req with instanceStart := UInt8.ofNat (st.1.length + 1) },
             rsp := (send s.1 { s.2.req with instanceStart := UInt8.ofNat (st.1.length + 1) }).2.1 }))
      else
        (.ok (.next (st.1 ++ (send s.1 { s.2.req with instanceStart := UInt8.ofNat (st.1.length + 1) }).2.1.recordIDs,
            (send s.1 { s.2.req with instanceStart := UInt8.ofNat (st.1.length + 1) }).2.1.instances.toNat)),
          ((send s.1 { s.2.req with instanceStart := UInt8.ofNat (st.1.length + 1) }).1,
           { req := { s.2.req with instanceStart := UInt8.ofNat (st.1.length + 1) },
             rsp := (send s.1 { s.2.req with instanceStart := UInt8.ofNat (st.1.length + 1) }).2.1 }))
    else
      (.err, ((send s.1 { s.2.req with instanceStart := UInt8.ofNat (st.1.length + 1) }).1,
           { req := { s.2.req with instanceStart := UInt8.ofNat (st.1.length + 1) },
             rsp := (send s.1 { s.2.req with instanceStart := UInt8.ofNat (st.1.length + 1) }).2.1 }))
  else (.ok (.brk st), s)

/-- a round that does not end the loop adds at least one record ID, and the loop goes on only while there are fewer than
    `Instances` ≤ 255 of them: 256 rounds are enough whatever the answer function says, from any state -/
theorem loop_fuel_any {σ : Type} (send : σ → GetDCMISensorInfoReq → σ × GetDCMISensorInfoRsp × Bool) :
    ∀ (f : Nat) (acc : List UInt16) (total : Nat) (s : σ × GetDCMISensorInfoCmd), total ≤ 255 → 255 - acc.length < f →
    (loop f (stepAny send) (acc, total) s).1 ≠ .outOfFuel := by
  intro f
  induction f with
  | zero => intro acc total s _ h; omega
  | succ n ih =>
    intro acc total s ht hf
    rw [loop_succ]
    simp only [stepAny]
    by_cases hlt : acc.length < total
    · simp only [hlt, if_true]
      generalize send s.1 { s.2.req with instanceStart := UInt8.ofNat (acc.length + 1) } = r
      obtain ⟨s', rsp, ok⟩ := r
      cases ok
      · intro h; cases h
      · simp only [cond_true]
        by_cases hbr : (rsp.recordIDs.length == 0 || (acc ++ rsp.recordIDs).length == 255) = true
        · simp only [hbr, if_true]; intro h; cases h
        · simp only [hbr, Bool.false_eq_true, if_false]
          simp only [Bool.or_eq_true, beq_iff_eq, not_or] at hbr
          have hlen : (acc ++ rsp.recordIDs).length = acc.length + rsp.recordIDs.length := by simp
          exact ih _ _ _ (by have := rsp.instances.toNat_lt; omega) (by omega)
    · simp only [hlt, if_false]; intro h; cases h

/-! ## the Go map `sensorMap` -/

abbrev GMap := List (UInt8 × List UInt16)

/-- a Go `sensorMap` as the translation keeps it (insertion order, appended) seen as the hand model keeps it (prepended) -/
def viewMap (g : GMap) : SMap := (g.map fun p => (p.1.toNat, ids p.2)).reverse

theorem viewMap_mapSet (g : GMap) (k : UInt8) (v : List UInt16) :
    viewMap (mapSet g k v) = SMap.set (viewMap g) k.toNat (ids v) := by
  unfold viewMap mapSet SMap.set
  simp only [List.map_append, List.map_cons, List.map_nil, List.reverse_append, List.reverse_cons, List.reverse_nil,
    List.nil_append, List.singleton_append, List.cons.injEq, true_and]
  rw [List.filter_reverse, List.filter_map]
  congr 3
  funext p
  by_cases h : p.1 = k
  · simp [Function.comp, h]
  · have : p.1.toNat ≠ k.toNat := fun hh => h (UInt8.toNat_inj.mp hh)
    simp [Function.comp, h, this]

theorem keys_mapSet (g : GMap) (k : UInt8) (v : List UInt16) (h : (g.map (·.1)).Nodup) :
    ((mapSet g k v).map (·.1)).Nodup := by
  unfold mapSet
  rw [List.map_append, List.nodup_append]
  refine ⟨h.sublist (List.filter_sublist.map _), by simp, ?_⟩
  intro a ha b hb
  simp only [List.map_cons, List.map_nil, List.mem_singleton] at hb
  subst hb
  simp only [List.mem_map, List.mem_filter, decide_eq_true_eq] at ha
  obtain ⟨x, ⟨_, hx⟩, rfl⟩ := ha
  exact hx

theorem foldl_count (g : GMap) (n : Nat) :
    List.foldl (fun entries (e1 : UInt8 × List UInt16) => entries + e1.2.length) n g = n + (g.map (·.2.length)).sum := by
  induction g generalizing n with
  | nil => simp
  | cons x xs ih => simp only [List.foldl_cons, ih, List.map_cons, List.sum_cons]; omega

theorem sum_reverse (l : List Nat) : l.reverse.sum = l.sum := by
  induction l with
  | nil => rfl
  | cons x xs ih => simp [ih]; omega

theorem lookup_append_single (A : List (Nat × List Nat)) (y : Nat × List Nat) (k : Nat) :
    (A ++ [y]).lookup k = match A.lookup k with | some v => some v | none => if k == y.1 then some y.2 else none := by
  induction A with
  | nil => simp only [List.nil_append, List.lookup]; cases k == y.1 <;> rfl
  | cons a as ih =>
    obtain ⟨a1, a2⟩ := a
    simp only [List.cons_append, List.lookup_cons]
    cases k == a1 <;> simp [ih]

theorem lookup_viewMap (g : GMap) (k : UInt8) (h : (g.map (·.1)).Nodup) :
    (viewMap g).lookup k.toNat = (g.find? (fun e => e.1 = k)).map (fun e => ids e.2) := by
  induction g with
  | nil => rfl
  | cons x xs ih =>
    have hv : viewMap (x :: xs) = viewMap xs ++ [(x.1.toNat, ids x.2)] := by simp [viewMap]
    rw [hv, lookup_append_single]
    simp only [List.map_cons, List.nodup_cons] at h
    rw [ih h.2]
    by_cases hx : x.1 = k
    · have hnone : xs.find? (fun e => decide (e.1 = k)) = none := by
        apply List.find?_eq_none.mpr
        intro e he hek
        simp only [decide_eq_true_eq] at hek
        exact h.1 (List.mem_map.mpr ⟨e, he, by rw [hek, hx]⟩)
      simp [hnone, hx, List.find?_cons]
    · have hne : (k.toNat == x.1.toNat) = false := by
        simp only [beq_eq_false_iff_ne, ne_eq]
        intro hh; exact hx (UInt8.toNat_inj.mp hh.symm)
      simp only [List.find?_cons, hx, decide_false, hne]
      cases List.find? (fun e => decide (e.fst = k)) xs <;> simp

theorem get_eq (g : GMap) (k : UInt8) (h : (g.map (·.1)).Nodup) :
    ids (mapGet g k ([] : List UInt16)) = SMap.get (viewMap g) k.toNat := by
  unfold SMap.get mapGet
  rw [lookup_viewMap g k h]
  cases List.find? (fun e => decide (e.fst = k)) g <;> simp [ids]

def viewInfo (i : Gen.Orch.SensorInfo) : Proto.Enum.SensorInfo := ⟨ids i.inlet, ids i.cpu, ids i.baseboard⟩

theorem sensorMap_res (bmc : Proto.Enum.Bmc) (es : List Nat) :
    (sensorMap bmc es).2 = .err ∨ ∃ m', (sensorMap bmc es).2 = .ok m' := Lemmas.Enum.sensorMapLoop_res bmc es []

theorem pick_std (g : GMap) (h : (g.map (·.1)).Nodup) :
    viewInfo { inlet := mapGet g 55 [], cpu := mapGet g 3 [], baseboard := mapGet g 7 [] } = pick (viewMap g) stdEntities := by
  have e : stdEntities = [55, 3, 7] := by decide
  simp only [viewInfo, pick, e, List.getD_cons_zero, List.getD_cons_succ, get_eq g _ h]
  rfl

theorem pick_dcmi (g : GMap) (h : (g.map (·.1)).Nodup) :
    viewInfo { inlet := mapGet g 64 [], cpu := mapGet g 65 [], baseboard := mapGet g 66 [] } = pick (viewMap g) dcmiEntities := by
  have e : dcmiEntities = [64, 65, 66] := by decide
  simp only [viewInfo, pick, e, List.getD_cons_zero, List.getD_cons_succ, get_eq g _ h]
  rfl

end Bmc.Lemmas.GenOrchDcmi
