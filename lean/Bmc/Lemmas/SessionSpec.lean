import Bmc.Lemmas.SessionLaws
/-! The in-session send loop refines the documented contract: a fold over the per-attempt outcomes whose
    classification of each reply depends on the keys, the command and that reply alone. -/
namespace Bmc.Proto
open Bmc Bmc.Wire Bmc.Crypto

inductive Class where
  | final (cc : UInt8) (payload : Bytes)     -- an acceptable response with a non-temporary completion code
  | retry                                     -- anything else that arrived
  | crash
  deriving DecidableEq, Repr

/-- the acceptance test on the decoded wrapper and message -/
def accept (k : Keys) (c : Cmd) (v2 : V2Session) (msg : Message) : Bool :=
  (k.integ == 0 || v2.authenticated) && v2.id == k.localID &&
  msg.function == c.fn + 1 && msg.command == c.cmd && msg.body == c.body && msg.enterprise == c.ent

/-- classification of one reply datagram -/
def classify (C : Ops) (k : Keys) (c : Cmd) (d : Bytes) : Class :=
  match view (onReply C k.sess (GoSlice.ofBytes d)) with
  | (.crash, _) => .crash
  | (.message, some (v2, msg)) =>
    if accept k c v2 msg && !isTemp msg.completionCode then .final msg.completionCode msg.payload else .retry
  | _ => .retry

/-- the documented behaviour of `SendCommand` inside a session, as a fold over the outcomes: number of datagrams
    transmitted and the result -/
def expected (cls : Bytes → Class) : List Outcome → Nat × Res
  | [] => (0, .ctxExpired)
  | .lost :: _ => (1, .transportErr)
  | .reply d :: rest =>
    match cls d with
    | .final cc p => (1, .ok cc p)
    | .crash => (1, .crashed)
    | .retry => ((expected cls rest).1 + 1, (expected cls rest).2)

theorem expected_le (cls : Bytes → Class) (script : List Outcome) : (expected cls script).1 ≤ script.length := by
  induction script with
  | nil => simp [expected]
  | cons o rest ih =>
    cases o with
    | lost => simp [expected]
    | reply d => simp only [expected]; split <;> simp <;> omega

/-- the i-th datagram of a command started with the counter at `inb` -/
def nthDatagram (C : Ops) (k : Keys) (c : Cmd) (inb : Nat) (ivs : List Bytes) (i : Nat) : Bytes :=
  datagramOf C k c ((inb + i) % 4294967296) (ivs.getD i [])

theorem datagramOf_mod (C : Ops) (k : Keys) (c : Cmd) (n : Nat) (iv : Bytes) :
    datagramOf C k c (n % 4294967296) iv = datagramOf C k c n iv := by
  unfold datagramOf attempt initLayers
  simp only [Nat.add_mod, Nat.mod_mod]

theorem acceptable_eq (s0 : Sess) (c : Cmd) (s : Sess) : acceptable s0 c s = accept s0.keys c s.v2 s.msg := rfl

theorem nth_shift (C : Ops) (k : Keys) (c : Cmd) (inb : Nat) (iv : Bytes) (ivs : List Bytes) (i : Nat) :
    nthDatagram C k c ((inb + 1) % 4294967296) ivs i = nthDatagram C k c inb (iv :: ivs) (i + 1) := by
  unfold nthDatagram
  have : ((inb + 1) % 4294967296 + i) % 4294967296 = (inb + (i + 1)) % 4294967296 := by omega
  rw [this]; rfl

theorem range_succ_map {α : Type} (f : Nat → α) (n : Nat) :
    (List.range (n + 1)).map f = f 0 :: (List.range n).map (fun i => f (i + 1)) := by
  rw [List.range_succ_eq_map]; simp [List.map_map, Function.comp_def]

/-- the state handed to the next attempt, whatever the reply was: same keys, counter advanced by one -/
theorem after_reply (C : Ops) (s : Sess) (c : Cmd) (iv : Bytes) (d : GoSlice) :
    (onReply C (attempt C (initLayers s c) c iv).1 d).1.keys = s.keys ∧
    (onReply C (attempt C (initLayers s c) c iv).1 d).1.inbound = (s.inbound + 1) % 4294967296 := by
  have h := onReply_keys C (attempt C (initLayers s c) c iv).1 d
  exact ⟨h.1, h.2⟩

/-- the classification, read off the decode into ANY state that holds these keys -/
theorem classify_eq (C : Ops) (s1 : Sess) (c : Cmd) (d : Bytes) :
    classify C s1.keys c d =
      (match onReply C s1 (GoSlice.ofBytes d) with
       | (_, .crash) => Class.crash
       | (s2, .message) =>
         if accept s1.keys c s2.v2 s2.msg && !isTemp s2.msg.completionCode
         then Class.final s2.msg.completionCode s2.msg.payload else Class.retry
       | _ => Class.retry) := by
  unfold classify
  rw [← onReply_view C s1]
  generalize onReply C s1 (GoSlice.ofBytes d) = p
  obtain ⟨s2, how⟩ := p
  cases how <;> simp [view]

/-- one step of the loop on a reply, in terms of the classification -/
theorem sendLoop_reply (C : Ops) (c : Cmd) (hf : c.reqFails = false) (s : Sess) (iv : Bytes) (ivs : List Bytes)
    (d : Bytes) (rest : List Outcome) :
    sendLoop C c s (iv :: ivs) (.reply d :: rest) =
      (match classify C s.keys c d with
       | .crash => ((onReply C (attempt C (initLayers s c) c iv).1 (GoSlice.ofBytes d)).1,
                    [(attempt C (initLayers s c) c iv).2], Res.crashed)
       | .final cc pl => ((onReply C (attempt C (initLayers s c) c iv).1 (GoSlice.ofBytes d)).1,
                    [(attempt C (initLayers s c) c iv).2], Res.ok cc pl)
       | .retry =>
         ((sendLoop C c (onReply C (attempt C (initLayers s c) c iv).1 (GoSlice.ofBytes d)).1 ivs rest).1,
          (attempt C (initLayers s c) c iv).2 ::
            (sendLoop C c (onReply C (attempt C (initLayers s c) c iv).1 (GoSlice.ofBytes d)).1 ivs rest).2.1,
          (sendLoop C c (onReply C (attempt C (initLayers s c) c iv).1 (GoSlice.ofBytes d)).1 ivs rest).2.2)) := by
  have hk : s.keys = (attempt C (initLayers s c) c iv).1.keys := rfl
  rw [hk, classify_eq C (attempt C (initLayers s c) c iv).1 c d]
  conv => lhs; unfold sendLoop
  simp only [hf, Bool.false_eq_true, if_false]
  generalize onReply C (attempt C (initLayers s c) c iv).1 (GoSlice.ofBytes d) = p
  obtain ⟨s2, how⟩ := p
  cases how
  · simp
  · simp
  · simp
  · simp only [acceptable_eq]
    have : s.keys = (attempt C (initLayers s c) c iv).1.keys := rfl
    rw [← this]
    split <;> simp_all

/-- REFINEMENT: the loop's result, the number and the very bytes of the datagrams it transmits, the keys and the
    final counter are those of the contract -/
theorem sendLoop_spec (C : Ops) (c : Cmd) (hf : c.reqFails = false) (s : Sess) (hs : s.inbound < 4294967296)
    (ivs : List Bytes) (script : List Outcome) (hl : script.length ≤ ivs.length) :
    (sendLoop C c s ivs script).2.2 = (expected (classify C s.keys c) script).2 ∧
    (sendLoop C c s ivs script).2.1
      = (List.range (expected (classify C s.keys c) script).1).map (nthDatagram C s.keys c s.inbound ivs) ∧
    (sendLoop C c s ivs script).1.keys = s.keys ∧
    (sendLoop C c s ivs script).1.inbound = (s.inbound + (expected (classify C s.keys c) script).1) % 4294967296 := by
  induction script generalizing s ivs with
  | nil => simp [sendLoop, expected]; omega
  | cons o rest ih =>
    cases ivs with
    | nil => simp at hl
    | cons iv ivs =>
      have hl' : rest.length ≤ ivs.length := by simpa using hl
      have hpkt : (attempt C (initLayers s c) c iv).2 = nthDatagram C s.keys c s.inbound (iv :: ivs) 0 := by
        rw [attempt_init_eq]; unfold nthDatagram; simp [datagramOf_mod]
      cases o with
      | lost =>
        unfold sendLoop
        simp only [hf, Bool.false_eq_true, if_false, expected, List.range_one, List.map_cons, List.map_nil, hpkt]
        exact ⟨trivial, trivial, rfl, rfl⟩
      | reply d =>
        obtain ⟨hk2, hi2⟩ := after_reply C s c iv (GoSlice.ofBytes d)
        rw [sendLoop_reply C c hf]
        generalize onReply C (attempt C (initLayers s c) c iv).1 (GoSlice.ofBytes d) = p at hk2 hi2
        have hrec := ih p.1 (by rw [hi2]; omega) ivs hl'
        rw [hk2, hi2] at hrec
        obtain ⟨r1, r2, r3, r4⟩ := hrec
        simp only [expected]
        cases hc : classify C s.keys c d with
        | crash => simp only [List.range_one, List.map_cons, List.map_nil, hpkt]; first | exact ⟨trivial, trivial, hk2, hi2⟩ | exact ⟨rfl, rfl, hk2, hi2⟩
        | final cc pl => simp only [List.range_one, List.map_cons, List.map_nil, hpkt]; first | exact ⟨trivial, trivial, hk2, hi2⟩ | exact ⟨rfl, rfl, hk2, hi2⟩
        | retry =>
          simp only [range_succ_map]
          refine ⟨r1, ?_, r3, ?_⟩
          · rw [hpkt, r2]; congr 1; exact List.map_congr_left (fun i _ => nth_shift C s.keys c s.inbound iv ivs i)
          · rw [r4]; omega

end Bmc.Proto
