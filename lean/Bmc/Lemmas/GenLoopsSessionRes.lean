import Bmc.Lemmas.GenLoopsSessionLoop
/-! Helper lemmas for `Proofs/GenLoops/BuildAndSend.lean`: the translated `buildAndSend` in terms of the retry driver, and what its
    outcome means as a result of the hand model. -/
namespace Bmc.Lemmas.GenLoops
open Bmc Bmc.Wire Bmc.Crypto Bmc.Proto Bmc.GoOrch Bmc.GoLoops Bmc.Gen.Loops

theorem buildAndSend_apply {σ τ : Type} (W : World σ τ) (fuel : Nat) (s : V2SessionConsts) (c : ipmi_Command) (st : σ × Conn τ) :
    V2Session_buildAndSend W fuel s c st =
      (match (backoffRetry W.backoffWait fuel (V2Session_buildAndSend_func1 W s c) (true, none) st).1 with
       | .ok x => .ok (if x.2 != none then x.2 else x.1.2)
       | r => castBad r,
       (backoffRetry W.backoffWait fuel (V2Session_buildAndSend_func1 W s c) (true, none) st).2) := by
  simp only [V2Session_buildAndSend]
  loop_simp
  generalize backoffRetry W.backoffWait fuel (V2Session_buildAndSend_func1 W s c) (true, none) st = x
  obtain ⟨r, st'⟩ := x
  cases r with
  | ok v =>
    obtain ⟨⟨a, b⟩, e⟩ := v
    cases e <;> simp [M.cont]
  | _ => rfl

theorem sendLoop_inbound_lt (C : Ops) (c : Cmd) (s : Sess) (hs : s.inbound < 4294967296) (ivs : List Bytes) (script : List Outcome)
    (hl : script.length ≤ ivs.length) : (sendLoop C c s ivs script).1.inbound < 4294967296 := by
  cases hf : c.reqFails with
  | false =>
    rw [(sendLoop_spec C c hf s hs ivs script hl).2.2.2]
    exact Nat.mod_lt _ (by decide)
  | true =>
    cases script with
    | nil => simpa [sendLoop] using hs
    | cons o rest =>
      cases ivs with
      | nil => simp at hl
      | cons iv ivs => rw [sendLoop_serfail C c hf]; exact hs


end Bmc.Lemmas.GenLoops
