import Bmc.Wire.V1Session
import Bmc.Lemmas.V2Refine
namespace Bmc.Wire
open Bmc
theorem V1Session.decodeGo_refines (prev : V1Session) (d : GoSlice) :
    V1Session.decodeGo true prev d = R.ofExcept (V1Session.decode d.vis) := by
  unfold V1Session.decodeGo V1Session.decode
  simp -zeta only [GoSlice.vis_length]
  by_cases h : d.len < 10
  · simp [h]
  · simp -zeta only [h, if_false]
    simp -zeta (disch := omega) only [GoSlice.idx_ok, R.bind_ok]
    cases hat : (List.getD d.vis 0 0 == 0) <;>
      simp only [hat, if_true, if_false, Bool.false_eq_true, reduceIte]
    all_goals
      go_round [le32_take]
      go_round [le32_take]
      go_round [le32_take]
#print axioms V1Session.decodeGo_refines
end Bmc.Wire
