import Bmc.Wire.Sess
/-! Canonical-form theorem of the Get Session Info decoder. -/
namespace Bmc.Wire
open Bmc

theorem SessionInfoRsp.decodeGo_canon (prev : SessionInfoRsp) (d : GoSlice) :
    SessionInfoRsp.decodeGo prev d = SessionInfoRsp.decode d.vis ∧ (SessionInfoRsp.decodeGo prev d).bad = false := by
  unfold SessionInfoRsp.decode SessionInfoRsp.decodeGo
  simp -zeta only [GoSlice.len_ofBytes, GoSlice.vis_length]
  by_cases h : d.len < 3
  · simp [h, R.bad]
  · simp -zeta only [h, if_false]
    simp -zeta (disch := (first | omega | (simp only [GoSlice.len_ofBytes, GoSlice.vis_length]; omega))) only
      [GoSlice.idx_ok, R.bind_ok, GoSlice.vis_ofBytes]
    simp only []
    generalize d.vis.getD 0 0 = b0
    by_cases h3 : d.len = 3
    · by_cases h0 : b0 = 0
      · simp only [h0, h3]
        constructor <;> (go_round; go_round; go_round)
      · have h0' : (b0 == 0) = false := by simpa using h0
        simp only [h0', h3, Bool.false_and, Bool.false_eq_true, if_false]
        simp [R.bad]
    · have h3' : (d.len == 3) = false := by simpa using h3
      simp -zeta only [h3', Bool.and_false, Bool.false_eq_true, if_false]
      by_cases h6 : d.len < 6
      · simp [h6, R.bad]
      · simp -zeta only [h6, if_false]
        by_cases h18 : d.len < 18
        · simp only [h18, if_true]
          constructor <;> (go_round; go_round; go_round)
        · simp only [h18, if_false]
          constructor <;> (go_round [le16_take]; go_round [le16_take]; go_round [le16_take])
#print axioms SessionInfoRsp.decodeGo_canon
end Bmc.Wire
