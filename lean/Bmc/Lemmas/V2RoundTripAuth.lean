import Bmc.Lemmas.V2RoundTrip
/-! Round trip of the v2.0 session wrapper WITH the authenticated trailer (C08):
    integrity pad (0xFF bytes), pad length, next header, AuthCode.

    The encoded bytes are viewed as `hdr ++ (inner ++ (trailer ++ sig))` with an abstract header of known length; the
    decoder is shown to read only `getD 0`, `getD 1` and LE words out of `hdr`, then the concrete header of the
    serialiser is plugged in. -/
namespace Bmc.Wire
open Bmc Bmc.Prim

theorem getD_append_lt (l r : Bytes) (i : Nat) (h : i < l.length) : (l ++ r).getD i 0 = l.getD i 0 := by
  simp [List.getD_eq_getElem?_getD, List.getElem?_append_left h]

theorem le16_append (l r : Bytes) (h : 2 ≤ l.length) : le16 (l ++ r) = le16 l := by
  unfold le16
  rw [getD_append_lt l r 0 (by omega), getD_append_lt l r 1 (by omega)]

theorem le32_append (l r : Bytes) (h : 4 ≤ l.length) : le32 (l ++ r) = le32 l := by
  unfold le32
  rw [getD_append_lt l r 0 (by omega), getD_append_lt l r 1 (by omega), getD_append_lt l r 2 (by omega),
    getD_append_lt l r 3 (by omega)]

theorem le16_drop_append (l r : Bytes) (k : Nat) (h : k + 2 ≤ l.length) : le16 ((l ++ r).drop k) = le16 (l.drop k) := by
  rw [List.drop_append_of_le_length (by omega)]
  exact le16_append _ _ (by simp; omega)

theorem le32_drop_append (l r : Bytes) (k : Nat) (h : k + 4 ≤ l.length) : le32 ((l ++ r).drop k) = le32 (l.drop k) := by
  rw [List.drop_append_of_le_length (by omega)]
  exact le32_append _ _ (by simp; omega)

/-- the pad-length byte of at most 254 pad bytes is never mistaken for a pad byte -/
theorem padByte_ne_ff (p : Nat) (hp : p < 255) : UInt8.ofNat p ≠ 0xff := by
  intro h
  have := congrArg UInt8.toNat h
  simp at this
  omega

/-- the integrity trailer the serialiser writes -/
def v2Trailer (p : Nat) : Bytes := List.replicate p 0xff ++ [UInt8.ofNat p, 7]

theorem v2Trailer_length (p : Nat) : (v2Trailer p).length = p + 2 := by simp [v2Trailer]

theorem scanFF_trailer (p : Nat) (hp : p < 255) (sig : Bytes) : scanFF (v2Trailer p ++ sig) = p + 1 := by
  have := scanFF_replicate p (UInt8.ofNat p) (7 :: sig) (padByte_ne_ff p hp)
  simpa [v2Trailer] using this

/-- what `V2Session.decode` makes of `hdr ++ inner ++ trailer ++ sig`, for ANY header of the right shape -/
theorem V2Session.decode_layout (mac : Bytes → Bytes) (hdr inner sig : Bytes) (p : Nat) (oem : Bool)
    (hH : hdr.length = (if oem then 8 else 2) + 10)
    (h0 : hdr.getD 0 0 = 6)
    (hauth : (hdr.getD 1 0 &&& 0x40 != 0) = true)
    (hoem : (hdr.getD 1 0 &&& 0x3f == 2) = oem)
    (hlen : le16 (hdr.drop ((if oem then 8 else 2) + 8)) = inner.length)
    (hp : p < 255)
    (hsig : sig = mac (hdr ++ (inner ++ v2Trailer p))) :
    V2Session.decode mac (hdr ++ (inner ++ (v2Trailer p ++ sig))) =
      .ok { encrypted := hdr.getD 1 0 &&& 0x80 != 0, authenticated := true, payloadType := hdr.getD 1 0 &&& 0x3f
            enterprise := if oem then le32 (hdr.drop 2) else 0
            payloadID := if oem then le16 (hdr.drop 6) else 0
            id := le32 (hdr.drop (if oem then 8 else 2))
            sequence := le32 (hdr.drop ((if oem then 8 else 2) + 4))
            length := inner.length, pad := UInt8.ofNat p, signature := sig
            contents := hdr, payload := inner } := by
  generalize hb : hdr ++ (inner ++ (v2Trailer p ++ sig)) = b
  have blen : b.length = hdr.length + inner.length + (p + 2) + sig.length := by
    subst hb; simp [v2Trailer_length]; omega
  have g0 : b.getD 0 0 = hdr.getD 0 0 := by subst hb; exact getD_append_lt _ _ _ (by cases oem <;> simp at hH <;> omega)
  have g1 : b.getD 1 0 = hdr.getD 1 0 := by subst hb; exact getD_append_lt _ _ _ (by cases oem <;> simp at hH <;> omega)
  have tk : b.take hdr.length = hdr := by subst hb; simp
  have dr : b.drop hdr.length = inner ++ (v2Trailer p ++ sig) := by subst hb; simp
  have dr2 : b.drop (hdr.length + inner.length) = v2Trailer p ++ sig := by
    rw [← List.drop_drop, dr]; simp
  have dr3 : b.drop (hdr.length + inner.length + (p + 1) + 1) = sig := by
    rw [show hdr.length + inner.length + (p + 1) + 1 = (hdr.length + inner.length) + (v2Trailer p).length by
      simp [v2Trailer_length]; omega, ← List.drop_drop, dr2]; simp
  have tk3 : b.take (hdr.length + inner.length + (p + 1) + 1) = hdr ++ (inner ++ v2Trailer p) := by
    subst hb
    rw [show hdr.length + inner.length + (p + 1) + 1 = (hdr ++ (inner ++ v2Trailer p)).length by
      simp [v2Trailer_length]; omega]
    rw [show hdr ++ (inner ++ (v2Trailer p ++ sig)) = (hdr ++ (inner ++ v2Trailer p)) ++ sig by simp]
    exact List.take_left' rfl
  have w16 : ∀ k, k + 2 ≤ hdr.length → le16 (b.drop k) = le16 (hdr.drop k) := by
    intro k hk; subst hb; exact le16_drop_append _ _ _ hk
  have w32 : ∀ k, k + 4 ≤ hdr.length → le32 (b.drop k) = le32 (hdr.drop k) := by
    intro k hk; subst hb; exact le32_drop_append _ _ _ hk
  have sc := scanFF_trailer p hp sig
  unfold V2Session.decode
  cases oem
  · simp only [Bool.false_eq_true, if_false] at hH hlen ⊢
    have hH' : hdr.length = 12 := by omega
    rw [hH'] at tk dr dr2 dr3 tk3 blen
    have e16 := w16 10 (by omega)
    have e32a := w32 2 (by omega)
    have e32b := w32 6 (by omega)
    have hlen' : le16 (hdr.drop 10) = inner.length := hlen
    simp only [g0, g1, h0, hoem, hauth, blen]
    simp only [Bool.false_eq_true, if_false, Nat.reduceAdd, e16, e32a, e32b, hlen', tk, dr, dr2, sc, dr3, tk3, ← hsig]
    simp
    rw [if_neg (by omega), if_neg (by omega), if_neg (by omega)]
  · simp only [if_true] at hH hlen ⊢
    have hH' : hdr.length = 18 := by omega
    rw [hH'] at tk dr dr2 dr3 tk3 blen
    have e16 := w16 16 (by omega)
    have e16b := w16 6 (by omega)
    have e32a := w32 8 (by omega)
    have e32b := w32 12 (by omega)
    have e32c := w32 2 (by omega)
    have hlen' : le16 (hdr.drop 16) = inner.length := hlen
    simp only [g0, g1, h0, hoem, hauth, blen]
    simp only [if_true, Nat.reduceAdd, e16, e16b, e32a, e32b, e32c, hlen', tk, dr, dr2, sc, dr3, tk3, ← hsig]
    simp
    rw [if_neg (by omega), if_neg (by omega), if_neg (by omega), if_neg (by omega)]

/-- the header the serialiser writes -/
def v2Header (s : V2Session) (len : Nat) : Bytes :=
  [6, s.payloadType ||| (if s.encrypted then 0x80 else 0) ||| (if s.authenticated then 0x40 else 0)]
    ++ (if s.payloadType == 2 then putLE32 s.enterprise ++ putLE16 s.payloadID else [])
    ++ putLE32 s.id ++ putLE32 s.sequence ++ putLE16 len

/-- the integrity pad the serialiser computes -/
def v2Pad (s : V2Session) (len : Nat) : Nat := (4 - ((if s.payloadType == 2 then 18 else 12) + len + 2) % 4) % 4

theorem v2Pad_le (s : V2Session) (len : Nat) : v2Pad s len ≤ 3 := by unfold v2Pad; omega

theorem V2Session.encode_auth (mac : Bytes → Bytes) (s : V2Session) (inner : Bytes) (ha : s.authenticated = true) :
    V2Session.encode mac s inner =
      let len := inner.length % 65536
      let body := v2Header s len ++ (inner ++ v2Trailer (v2Pad s len))
      ({ s with length := len, pad := UInt8.ofNat (v2Pad s len), signature := mac body },
       v2Header s len ++ (inner ++ (v2Trailer (v2Pad s len) ++ mac body))) := by
  simp [V2Session.encode, ha, v2Header, v2Trailer, v2Pad]

theorem v2Header_length (s : V2Session) (len : Nat) :
    (v2Header s len).length = (if s.payloadType == 2 then 8 else 2) + 10 := by
  cases h : (s.payloadType == 2) <;> simp [v2Header, h, putLE32, putLE16]

theorem v2Header_len16 (s : V2Session) (n : Nat) (hn : n < 65536) :
    le16 ((v2Header s n).drop ((if s.payloadType == 2 then 8 else 2) + 8)) = n := by
  cases h : (s.payloadType == 2) <;> simp [v2Header, h, putLE32, putLE16, le16] <;> omega

theorem v2Header_id (s : V2Session) (n : Nat) (hn : s.id < 4294967296) :
    le32 ((v2Header s n).drop (if s.payloadType == 2 then 8 else 2)) = s.id := by
  cases h : (s.payloadType == 2) <;> simp [v2Header, h, putLE32, putLE16, le32] <;> omega

theorem v2Header_seq (s : V2Session) (n : Nat) (hn : s.sequence < 4294967296) :
    le32 ((v2Header s n).drop ((if s.payloadType == 2 then 8 else 2) + 4)) = s.sequence := by
  cases h : (s.payloadType == 2) <;> simp [v2Header, h, putLE32, putLE16, le32] <;> omega

theorem v2Header_ent (s : V2Session) (n : Nat) (hn : s.enterprise < 4294967296) (h : (s.payloadType == 2) = true) :
    le32 ((v2Header s n).drop 2) = s.enterprise := by
  simp [v2Header, h, putLE32, putLE16, le32]; omega

theorem v2Header_pid (s : V2Session) (n : Nat) (hn : s.payloadID < 65536) (h : (s.payloadType == 2) = true) :
    le16 ((v2Header s n).drop 6) = s.payloadID := by
  simp [v2Header, h, putLE32, putLE16, le16]; omega

theorem V2Session.decode_encode_auth (mac : Bytes → Bytes) (s : V2Session) (inner : Bytes) (h : s.WF inner)
    (ha : s.authenticated = true) :
    V2Session.decode mac (V2Session.encode mac s inner).2 =
      .ok { (V2Session.encode mac s inner).1 with
            contents := (V2Session.encode mac s inner).2.take (if s.payloadType == 2 then 18 else 12)
            payload := inner } := by
  rw [V2Session.encode_auth mac s inner ha]
  obtain ⟨hpt, hid, hseq, hlen, hent, hpid, hoem0, hun⟩ := h
  have hl2 : inner.length % 65536 = inner.length := by omega
  simp only [hl2]
  have tk : (v2Header s inner.length ++ (inner ++ (v2Trailer (v2Pad s inner.length) ++
      mac (v2Header s inner.length ++ (inner ++ v2Trailer (v2Pad s inner.length)))))).take
      (if s.payloadType == 2 then 18 else 12) = v2Header s inner.length := by
    apply List.take_left'
    rw [v2Header_length]; split <;> rfl
  rw [tk]
  have f := flags_rt _ hpt s.encrypted true
  simp only [UInt8.ofNat_toNat, if_true] at f
  obtain ⟨fe, fa, fp⟩ := f
  have g1 : (v2Header s inner.length).getD 1 0 = s.payloadType ||| (if s.encrypted then 0x80 else 0) ||| 0x40 := by
    simp [v2Header, ha]
  rw [V2Session.decode_layout mac (v2Header s inner.length) inner _ (v2Pad s inner.length) (s.payloadType == 2)
    (v2Header_length _ _) (by simp [v2Header]) (by rw [g1]; exact fa) (by rw [g1, fp])
    (v2Header_len16 s _ hlen) (by have := v2Pad_le s inner.length; omega) rfl]
  rw [g1, fe, fp, v2Header_id s _ hid, v2Header_seq s _ hseq]
  cases hoem : (s.payloadType == 2)
  · obtain ⟨e0, p0⟩ := hoem0 (by simpa using hoem)
    simp [ha, e0, p0]
  · rw [v2Header_ent s _ hent hoem, v2Header_pid s _ hpid hoem]
    simp [ha]

/-- both forms of the wrapper -/
theorem V2Session.decode_encode (mac : Bytes → Bytes) (s : V2Session) (inner : Bytes) (h : s.WF inner) :
    V2Session.decode mac (V2Session.encode mac s inner).2 =
      .ok { (V2Session.encode mac s inner).1 with
            contents := (V2Session.encode mac s inner).2.take (if s.payloadType == 2 then 18 else 12)
            payload := inner } := by
  cases ha : s.authenticated
  · exact V2Session.decode_encode_unauth mac s inner h ha
  · exact V2Session.decode_encode_auth mac s inner h ha

/-- serialising the decoded value (whatever `Contents`/`Payload` hold) over the same inner payload gives the same bytes:
    the serialiser reads neither `Length`, `Pad` nor `Signature` of an authenticated value, and keeps `Pad` of an
    unauthenticated one -/
theorem V2Session.reencode (mac : Bytes → Bytes) (s : V2Session) (inner c p : Bytes) :
    (V2Session.encode mac { (V2Session.encode mac s inner).1 with contents := c, payload := p } inner).2 =
      (V2Session.encode mac s inner).2 := by
  cases ha : s.authenticated <;> simp [V2Session.encode, ha]

end Bmc.Wire
