import Bmc.Wire.Setup
import Bmc.Wire.OpenSessionRsp
import Bmc.Wire.Rakp4
/-! The handshake model (`Proto/Handshake.lean`) uses compact models of the Open Session Response and RAKP Message 4
    decoders (`Wire/Setup.lean`, without `BaseLayer.Contents`); the per-layer theorems of C05 / C07 / C17 are about the
    complete ones (`Wire/OpenSessionRsp.lean`, `Wire/Rakp4.lean`, namespace `Setup`). They are the same decoder: the
    compact model is the complete one with the contents forgotten — for every receiver and every Go slice, including
    the panic / over-read outcomes. So the handshake inherits the complete models' refinement and specification
    theorems, and the two correspondence streams (`hs` and `dec`) check one and the same function. -/
namespace Bmc.Lemmas.SetupBridge
open Bmc Bmc.Wire

def forgetOpen (o : Setup.OpenSessionRsp) : Wire.OpenSessionRsp :=
  { tag := o.tag, status := o.status, maxPriv := o.maxPriv, consoleSessionID := o.consoleSID, bmcSessionID := o.bmcSID
    authWild := o.auth.wildcard, auth := o.auth.algorithm, integWild := o.integ.wildcard, integ := o.integ.algorithm
    confWild := o.conf.wildcard, conf := o.conf.algorithm }

def forgetAlg (a : Setup.AlgPayload) : Bool × UInt8 := (a.wildcard, a.algorithm)

theorem deserialiseAlg_bridge (typ : UInt8) (d : GoSlice) :
    Wire.deserialiseAlg typ d = (Setup.deserialiseAlg typ d).map forgetAlg := by
  unfold Wire.deserialiseAlg Setup.deserialiseAlg
  by_cases h : d.len < 8
  · simp [h, R.map]
  · simp (disch := omega) only [h, if_false, GoSlice.idx_ok, GoSlice.sliceFrom_ok, R.bind_ok, R.pure_eq]
    repeat' split
    all_goals simp_all [R.map, forgetAlg]

theorem rakp4_bridge (p : Wire.RAKP4) (q : Setup.RAKP4) (d : GoSlice) :
    Wire.RAKP4.decodeGo p d = (Setup.RAKP4.decodeGo q d).map
      (fun r => { tag := r.tag, status := r.status, consoleSessionID := r.consoleSID, icv := r.icv }) := by
  unfold Wire.RAKP4.decodeGo Setup.RAKP4.decodeGo
  by_cases h : d.len < 8
  · simp [h, R.map]
  · simp (disch := omega) only [h, if_false, GoSlice.idx_ok, GoSlice.slice_ok, GoSlice.sliceFrom_ok, R.bind_ok, R.pure_eq]
    repeat' split
    all_goals simp_all [R.map]

theorem bind_map_bridge {α β γ δ : Type} (x : R α) (f : α → β) (g : β → R γ) (h : α → R δ) (k : δ → γ)
    (hk : ∀ a, g (f a) = (h a).map k) : (x.map f >>= g) = (x >>= h).map k := by
  cases x <;> first | exact hk _ | rfl

/-- the Open Session Response decoder of the handshake model is the complete one with `Contents` forgotten, started
    from corresponding receivers -/
theorem openSessionRsp_bridge (q : Setup.OpenSessionRsp) (d : GoSlice) :
    Wire.OpenSessionRsp.decodeGo (forgetOpen q) d = (Setup.OpenSessionRsp.decodeGo q d).map forgetOpen := by
  unfold Wire.OpenSessionRsp.decodeGo Setup.OpenSessionRsp.decodeGo Setup.OpenSessionRsp.tailGo
  by_cases h1 : d.len = 1
  · have h1' : (d.len == 1) = true := by simp [h1]
    have hne : (d.len != 36) = true := by simp [h1]
    simp (disch := omega) only [h1', hne, if_true, GoSlice.idx_ok, GoSlice.slice_ok, R.bind_ok, R.pure_eq]
    split <;> rfl
  · have h1' : (d.len == 1) = false := by simp [h1]
    simp only [h1', Bool.false_eq_true, if_false]
    by_cases h7 : d.len < 7
    · simp only [h7, if_true]; rfl
    · simp (disch := omega) only [h7, if_false, GoSlice.idx_ok, GoSlice.slice_ok, R.bind_ok, R.pure_eq]
      by_cases h0 : (List.getD d.vis 1 0 == 0) = true
      · simp only [h0, if_true]
        by_cases h36 : d.len = 36
        · have hne : (d.len != 36) = false := by simp [h36]
          simp (disch := omega) only [hne, Bool.false_eq_true, if_false, GoSlice.idx_ok, GoSlice.slice_ok, R.bind_ok]
          simp only [deserialiseAlg_bridge]
          generalize Setup.deserialiseAlg 0 _ = ra
          generalize Setup.deserialiseAlg 1 _ = ri
          generalize Setup.deserialiseAlg 2 _ = rc
          cases ra <;> first | rfl | skip
          cases ri <;> first | rfl | skip
          cases rc <;> rfl
        · have hne : (d.len != 36) = true := by simp [h36]
          simp only [hne, if_true]; rfl
      · simp only [h0, Bool.false_eq_true, if_false]; rfl

end Bmc.Lemmas.SetupBridge
