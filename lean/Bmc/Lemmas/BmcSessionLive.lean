import Bmc.Spec.BmcSession
import Bmc.Proofs.C03
/-! The conforming in-session BMC (`Spec/BmcSession.lean`) OPENS every datagram the console model transmits and reads out
    of it exactly the caller's command; hence its answer is accepted by the console and handed to the caller. -/
namespace Bmc.Spec
open Bmc Bmc.Wire Bmc.Crypto Bmc.Proto Bmc.Proofs.C03

theorem datagram_head (C : Ops) (k : Keys) (c : Cmd) (inb : Nat) (iv : Bytes) :
    (datagramOf C k c inb iv).take 4 = [6, 0, 0xFF, 7] := by
  rw [datagram_shape]; simp

/-- the BMC accepts the console's datagram and recovers the command: sequence number counter + 1, the command's NetFn,
    number, group / OEM prefix, LUN and the request body -/
theorem bmc_opens_request (C : Ops) (hC : C.Lawful) (k : Keys) (hr : k.remoteID < 4294967296) (c : Cmd) (inb : Nat)
    (iv : Bytes) (hiv : iv.length = 16) (hm : (requestMessage c).WF) (hreq : isRequest c.fn = true)
    (hlen : (aesPayload C k c iv).length < 65536) :
    bmcOpen C k (datagramOf C k c inb iv) =
      some ⟨(inb + 1) % 4294967296, c.fn, c.cmd, c.body, c.ent, c.lun, c.req⟩ := by
  obtain ⟨v, hv, ha, he, hp, hid, hs, hpl⟩ := wrapper_opens C k hr c inb iv hlen
  have hd := payload_decrypts C hC k c iv hiv
  have hmsg := Message.decode_encode (requestMessage c) c.req hm
  unfold bmcOpen
  rw [datagram_head, hv]
  simp only [bne_self_eq_false, Bool.false_eq_true, if_false, ha, he, hp, hid, beq_self_eq_true, Bool.and_self, Bool.not_true, hpl, hd]
  show (match Message.decode 8 (messageBytes c) with | .error _ => none | .ok m => _) = _
  unfold messageBytes
  rw [hmsg]
  have h20 : ((0x20 : UInt8) == 0x20) = true := rfl
  have h81 : ((0x81 : UInt8) == 0x81) = true := rfl
  simp [requestMessage, Message.encode, hreq, hs]

end Bmc.Spec
