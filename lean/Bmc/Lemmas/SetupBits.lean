import Bmc.Spec.Setup
import Bmc.Wire.V2Session
/-! Byte-level facts used by `Proofs/C07/Setup.lean`. -/
namespace Bmc.Lemmas.Setup
open Bmc Bmc.Wire

/-- little-endian 32-bit: reading what the specification writes gives the number back -/
theorem le32_spec (n : Nat) (h : n < 4294967296) (r : Bytes) : le32 (Spec.le32 n ++ r) = n := by
  simp [le32, Spec.le32]; omega

/-- RAKP 1 role byte: bit 4 and the low nibble are independent -/
theorem role : ∀ s : Bool, ∀ p : Nat, p < 16 →
    ((Spec.bit s 4 ||| UInt8.ofNat p) &&& 0x10 == 0) = !s ∧ (Spec.bit s 4 ||| UInt8.ofNat p) &&& 0xF = UInt8.ofNat p := by
  decide +kernel

/-- an algorithm number below 64 passes the 6-bit mask unchanged -/
theorem alg6 : ∀ a : Nat, a < 64 → UInt8.ofNat a &&& 0x3f = UInt8.ofNat a := by decide +kernel

theorem alg6o (x : Option UInt8) (h : Spec.algWf x) : ∀ y, x = some y → y &&& 0x3f = y := by
  intro y e
  subst e
  have := alg6 y.toNat h
  simpa using this

/-- a user-name length of at most 16 fits the length byte -/
theorem ulen : ∀ n : Nat, n ≤ 16 → (UInt8.ofNat n).toNat = n := by decide +kernel

/-- skipping a prefix of known length -/
theorem drop_pre (a r : Bytes) (n k : Nat) (h : a.length = n) : List.drop (n + k) (a ++ r) = List.drop k r := by
  subst h; rw [← List.drop_drop, List.drop_left]
theorem take_pre (a r : Bytes) (n : Nat) (h : a.length = n) : List.take n (a ++ r) = a := List.take_left' h
theorem take_pre_add (a r : Bytes) (n k : Nat) (h : a.length = n) : List.take (n + k) (a ++ r) = a ++ List.take k r := by
  subst h; simp [List.take_append, List.take_of_length_le]
theorem getD_pre (a r : Bytes) (n k : Nat) (h : a.length = n) : List.getD (a ++ r) (n + k) 0 = List.getD r k 0 := by
  rw [← getD_drop, ← Nat.add_zero n, drop_pre a r n 0 h]; simp

/-- a result that comes from a pure decoder is never a panic or an over-read -/
theorem ofExcept_safe {α ε : Type} (e : Except ε α) : (R.ofExcept e).bad = false := by cases e <;> rfl

end Bmc.Lemmas.Setup
