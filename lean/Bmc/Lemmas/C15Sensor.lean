import Bmc.Proto.Sensor
import Bmc.Spec.Sensor
/-! Helper lemmas for `Proofs/C15.lean`: exact decimals and the rationals they denote, canonical decimals, the
    finite tables and flag bits over their whole domains. -/
namespace Bmc.Lemmas.Sensor
open Bmc Bmc.Wire Bmc.Proto.Sensor

theorem ten_ne : (10 : Rat) ≠ 0 := by decide

theorem pow_toNat (k : Int) (h : 0 ≤ k) : (10 : Rat) ^ k = (((10 : Int) ^ k.toNat : Int) : Rat) := by
  have : k = (k.toNat : Int) := by omega
  rw [Rat.intCast_pow]
  conv => lhs; rw [this]
  rw [Rat.zpow_natCast]
  rfl

-- the exact decimal ------------------------------------------------------------------------------------------
theorem convertExact_value (M B K1 K2 x : Int) :
    decToRat (convertExact M B K1 K2 x) = Spec.Sensor.linearValue M B K1 K2 x := by
  unfold convertExact decToRat Spec.Sensor.linearValue
  split
  · rename_i h
    simp only [Rat.intCast_add, Rat.intCast_mul, pow_toNat K1 h]
  · rename_i h
    have hk : 0 ≤ -K1 := by omega
    have e1 : (10 : Rat) ^ (K1 + K2) = (10 : Rat) ^ K1 * (10 : Rat) ^ K2 := Rat.zpow_add ten_ne _ _
    have e2 : (10 : Rat) ^ (-K1) * (10 : Rat) ^ K1 = 1 := by
      rw [← Rat.zpow_add ten_ne, Int.add_left_neg, Rat.zpow_zero]
    simp only [Rat.intCast_add, Rat.intCast_mul, ← pow_toNat (-K1) hk, e1]
    grind

theorem stripZeros_value (fuel : Nat) (m e : Int) : decToRat (stripZeros fuel m e) = decToRat (m, e) := by
  induction fuel generalizing m e with
  | zero => rfl
  | succ n ih =>
    unfold stripZeros
    split
    · rename_i h
      rw [ih]
      unfold decToRat
      have hm : m = m / 10 * 10 := by omega
      have e1 : (10 : Rat) ^ (e + 1) = (10 : Rat) ^ e * 10 := Rat.zpow_add_one ten_ne e
      simp only [e1]
      conv => rhs; rw [hm]
      rw [Rat.intCast_mul]
      show _ = ((m / 10 : Int) : Rat) * (10 : Rat) * _
      grind
    · rfl

theorem normalize_value (d : Int × Int) : decToRat (normalize d) = decToRat d := by
  unfold normalize
  split
  · rename_i h
    unfold decToRat; simp [h]
  · exact stripZeros_value _ _ _

/-- a canonical decimal: zero is `0e0`, otherwise the mantissa has no trailing zero -/
def Canonical (d : Int × Int) : Prop := d = (0, 0) ∨ (d.1 ≠ 0 ∧ d.1 % 10 ≠ 0)

theorem stripZeros_canonical (fuel : Nat) (m e : Int) (hm : m ≠ 0) (hf : m.natAbs ≤ fuel) :
    (stripZeros fuel m e).1 ≠ 0 ∧ (stripZeros fuel m e).1 % 10 ≠ 0 := by
  induction fuel generalizing m e with
  | zero => omega
  | succ n ih =>
    unfold stripZeros
    split
    · rename_i h
      apply ih
      · omega
      · omega
    · rename_i h
      constructor
      · exact hm
      · simp only []; omega

theorem normalize_canonical (d : Int × Int) : Canonical (normalize d) := by
  unfold normalize Canonical
  split
  · left; rfl
  · right; exact stripZeros_canonical _ _ _ (by assumption) (Nat.le_refl _)

theorem dec_scale (m1 e1 m2 e2 : Int) (h : decToRat (m1, e1) = decToRat (m2, e2)) (hle : e1 ≤ e2) :
    m1 = m2 * 10 ^ (e2 - e1).toNat := by
  unfold decToRat at h
  simp only at h
  have hk : 0 ≤ e2 - e1 := by omega
  have e3 : (10 : Rat) ^ e2 = (10 : Rat) ^ (e2 - e1) * (10 : Rat) ^ e1 := by
    rw [← Rat.zpow_add ten_ne]; congr 1; omega
  rw [e3, pow_toNat _ hk] at h
  have hne : (10 : Rat) ^ e1 ≠ 0 := Rat.ne_of_gt (Rat.zpow_pos (by decide))
  have h2 : (m1 : Rat) = (m2 : Rat) * (((10 : Int) ^ (e2 - e1).toNat : Int) : Rat) := by
    have := congrArg (· * ((10 : Rat) ^ e1)⁻¹) h
    simp only [Rat.mul_assoc, Rat.mul_inv_cancel _ hne, Rat.mul_one] at this
    exact this
  rw [← Rat.intCast_mul] at h2
  exact Rat.intCast_inj.mp h2

theorem canonical_unique_le (m1 e1 m2 e2 : Int) (c1 : Canonical (m1, e1)) (c2 : Canonical (m2, e2))
    (h : decToRat (m1, e1) = decToRat (m2, e2)) (hle : e1 ≤ e2) : (m1, e1) = (m2, e2) := by
  have hs := dec_scale m1 e1 m2 e2 h hle
  by_cases he : e1 = e2
  · subst he; simp at hs; rw [hs]
  · have : (e2 - e1).toNat = ((e2 - e1).toNat - 1) + 1 := by omega
    rw [this, Int.pow_succ] at hs
    have hdiv : m1 % 10 = 0 := by rw [hs, ← Int.mul_assoc]; exact Int.mul_emod_left _ _
    rcases c1 with c1 | ⟨c1, c1'⟩
    · simp only [Prod.mk.injEq] at c1
      obtain ⟨rfl, rfl⟩ := c1
      have hz : m2 = 0 := by
        have h10 : (10 : Int) ^ ((e2 - 0).toNat - 1) * 10 ≠ 0 := by
          apply Int.mul_ne_zero (Int.pow_ne_zero (by decide)) (by decide)
        rcases Int.mul_eq_zero.mp hs.symm with h | h
        · exact h
        · exact absurd h h10
      rcases c2 with c2 | ⟨c2, _⟩
      · exact c2.symm
      · exact absurd hz c2
    · exact absurd hdiv c1'

/-- two canonical decimals that denote the same rational are the same pair of integers -/
theorem canonical_unique (d1 d2 : Int × Int) (c1 : Canonical d1) (c2 : Canonical d2)
    (h : decToRat d1 = decToRat d2) : d1 = d2 := by
  obtain ⟨m1, e1⟩ := d1
  obtain ⟨m2, e2⟩ := d2
  by_cases hle : e1 ≤ e2
  · exact canonical_unique_le m1 e1 m2 e2 c1 c2 h hle
  · exact (canonical_unique_le m2 e2 m1 e1 c2 c1 h.symm (by omega)).symm

-- tables ----------------------------------------------------------------------------------------------------------
/-- the function of the specification each entry of `linearisationLinearisers` computes, read off the Go
    expression (math.Log = ln, math.Pow(10, f) = 10^f, math.Pow(f, -1) = 1/f, math.Pow(f, 1./3) = ∛f, …). That the
    Go functions compute these to within rounding is what the harness measures; it is not provable here. -/
def denotes : Lineariser → Spec.Sensor.LinFn
  | .mathLog => .ln | .mathLog10 => .log10 | .mathLog2 => .log2 | .mathExp => .exp | .powTenF => .exp10
  | .mathExp2 => .exp2 | .powFNeg1 => .inv | .powF2 => .sqr | .powF3 => .cube | .mathSqrt => .sqrt
  | .powFThird => .cubeRt

/-- every key 0…255: the map has an entry exactly for the specification's codes 1…11, and it is the named function -/
theorem lineariser_lookup : ∀ n : Nat, n < 256 →
    (lineariserOf (UInt8.ofNat n)).map denotes = Spec.Sensor.linFnOfCode n := by decide +kernel

theorem parser_lookup : ∀ n : Nat, n < 256 →
    parserOf (UInt8.ofNat n) = (match n with | 0 => some .unsigned | 1 => some .ones | 2 => some .twos | _ => none) := by
  decide +kernel

/-- the three-way switch of `NewSensorReader` against the specification's classification, every code 0…255 -/
theorem kind_lookup : ∀ n : Nat, n < 256 →
    (Gen.linIsLinear (UInt8.ofNat n).toBitVec = decide (Spec.Sensor.kindOf n = .linear)) ∧
    (Gen.linIsLinearised (UInt8.ofNat n).toBitVec = (Spec.Sensor.linFnOfCode n).isSome) ∧
    (Spec.Sensor.kindOf n = .nonLinear ↔ 12 ≤ n) := by decide +kernel

theorem dec_neg (m e : Int) (h : m < 0) : decToRat (m, e) < 0 := by
  unfold decToRat
  exact (Rat.mul_neg_iff_of_pos_right (Rat.zpow_pos (by decide))).mpr (Rat.intCast_neg_iff.mpr h)

/-- with the cube root repaired, every Go lineariser returns a number wherever the function it stands for is defined -/
theorem defined_number (l : Lineariser) (d : Int × Int)
    (h : (denotes l).definedAt (decToRat d) = true) : l.returnsNumber true (signOf d.1) = true := by
  obtain ⟨m, e⟩ := d
  by_cases hm : m < 0
  · have hn := dec_neg m e hm
    have h1 : ¬ (0 < decToRat (m, e)) := fun c => Rat.not_le.mpr hn (Rat.le_of_lt c)
    have h2 : ¬ (0 ≤ decToRat (m, e)) := Rat.not_le.mpr hn
    cases l <;> simp_all [denotes, Spec.Sensor.LinFn.definedAt, Lineariser.returnsNumber, signOf]
  · cases l <;> simp [Lineariser.returnsNumber, signOf, hm] <;> split <;> simp

-- Get Sensor Reading flag bits --------------------------------------------------------------------------------
theorem flag_bits : ∀ n : Nat, n < 256 →
    ((UInt8.ofNat n &&& (0x20 : UInt8)) != 0) = Spec.Sensor.unavailableBit n ∧
    ((UInt8.ofNat n &&& (0x40 : UInt8)) != 0) = Spec.Sensor.scanningBit n := by decide +kernel

/-- the fields `Read` looks at, for a response of three or more bytes decoded from any window -/
theorem reading_fields (prev : SensorReadingRsp) (raw fl c : UInt8) (rest tail : Bytes) :
    ∃ p, SensorReadingRsp.decodeGo prev (GoSlice.window (raw :: fl :: c :: rest) tail) = .ok p ∧
      p.reading = raw ∧ p.readingUnavailable = ((fl &&& 0x20) != 0) ∧ p.scanningEnabled = ((fl &&& 0x40) != 0) := by
  rw [(SensorReadingRsp.decodeGo_canon prev _).1, GoSlice.vis_window]
  unfold SensorReadingRsp.decode SensorReadingRsp.decodeGo
  cases rest with
  | nil => simp [GoSlice.slice, GoSlice.sliceFrom, GoSlice.idx, GoSlice.ofBytes, GoSlice.vis]
  | cons d rest =>
    simp [GoSlice.slice, GoSlice.sliceFrom, GoSlice.idx, GoSlice.ofBytes, GoSlice.vis]
    rw [if_neg (by omega)]
    exact ⟨_, rfl, rfl, rfl, rfl⟩

theorem reading_short (prev : SensorReadingRsp) (d : GoSlice) (h : d.len < 3) :
    SensorReadingRsp.decodeGo prev d = .err := by
  simp [SensorReadingRsp.decodeGo, h]

end Bmc.Lemmas.Sensor
