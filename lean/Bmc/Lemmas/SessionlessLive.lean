import Bmc.Lemmas.ApiSessionless
/-! Session-less liveness: lost replies, conforming responses carrying a temporary completion code and conforming
    responses to OTHER operations are each answered by a retransmission of the same datagram; the first conforming
    response to the pending command with another code ends the call with that code and body. -/
namespace Bmc.Proto
open Bmc Bmc.Wire Bmc.Crypto

/-- a conforming session-less response to another operation is a retry -/
theorem slClassify_stray (sid seq : Nat) (c c' : Cmd) (hne : sameOperation c c' = false) (cc : UInt8) (data : Bytes)
    (hm : (responseMsg c' cc).WF) (hsid : sid < 4294967296) (hseq : seq < 4294967296)
    (hlen : (responseBytes c' cc data).length < 65536) :
    slClassify c (slResponseDatagramWith sid seq c' cc data) = .retry := by
  obtain ⟨r, v2, msg, h, hf, hcmd, hb, he, hcc, hp⟩ := slOnReply_response {} sid seq c' cc data hm hsid hseq hlen
  unfold slClassify
  rw [h]
  simp only [slView, if_true]
  have hacc : slAcceptable c msg = false := by
    simp only [slAcceptable, hf, hcmd, hb, he]
    simp only [sameOperation] at hne
    by_cases h1 : c'.fn + 1 = c.fn + 1
    · have h1' : c'.fn = c.fn := by
        have := congrArg (· - 1) h1
        simpa using this
      simp only [h1', beq_self_eq_true, Bool.true_and] at hne
      simp only [h1', beq_self_eq_true, Bool.and_true]
      cases hx : (c'.cmd == c.cmd) <;> cases hy : (c'.body == c.body) <;> cases hz : (c'.ent == c.ent) <;> simp_all
    · have : (c'.fn + 1 == c.fn + 1) = false := by simpa using h1
      simp [this]
  rw [hacc]
  simp

/-- what may precede the final answer outside a session -/
inductive SlNoise (c : Cmd) : Outcome → Prop where
  | lost : SlNoise c .lost
  | busy (sid seq : Nat) (cc : UInt8) (data : Bytes) (ht : isTemp cc = true) (hm : (responseMsg c cc).WF)
      (hsid : sid < 4294967296) (hseq : seq < 4294967296) (hlen : (responseBytes c cc data).length < 65536) :
      SlNoise c (.reply (slResponseDatagramWith sid seq c cc data))
  | stray (sid seq : Nat) (c' : Cmd) (hne : sameOperation c c' = false) (cc : UInt8) (data : Bytes) (hm : (responseMsg c' cc).WF)
      (hsid : sid < 4294967296) (hseq : seq < 4294967296) (hlen : (responseBytes c' cc data).length < 65536) :
      SlNoise c (.reply (slResponseDatagramWith sid seq c' cc data))

theorem slExpected_noise (c : Cmd) (noise : List Outcome) (hn : ∀ o ∈ noise, SlNoise c o) (rest : List Outcome) :
    slExpected (slClassify c) (noise ++ rest) =
      ((slExpected (slClassify c) rest).1 + noise.length, (slExpected (slClassify c) rest).2) := by
  induction noise with
  | nil => simp
  | cons o noise ih =>
    have ih' := ih (fun x hx => hn x (by simp [hx]))
    cases hn o (by simp) with
    | lost => simp only [List.cons_append, slExpected, ih', List.length_cons, Prod.mk.injEq, and_true]; omega
    | busy sid seq cc data ht hm hsid hseq hlen =>
      simp only [List.cons_append, slExpected, slClassify_response_with sid seq c cc data hm hsid hseq hlen, ht, if_true, ih',
        List.length_cons, Prod.mk.injEq, and_true]; omega
    | stray sid seq c' hne cc data hm hsid hseq hlen =>
      simp only [List.cons_append, slExpected, slClassify_stray sid seq c c' hne cc data hm hsid hseq hlen, ih',
        List.length_cons, Prod.mk.injEq, and_true]; omega

end Bmc.Proto
