import Bmc.Lemmas.SessionSpec
import Bmc.Proto.Metrics
/-! TIE between the instrumentation model (C18, abstract per-attempt outcomes) and the byte-level model of the
    in-session send loop: the abstract outcome of an attempt is a FUNCTION of the keys, the command and the bytes of the
    reply (`attOf`), and under that function the quantities the C18 theorems count — did the call succeed, how many
    times the retry closure ran, which completion codes were received — are exactly those of the byte-level loop
    (`expected (classify …)`, which `sendLoop_spec` shows the loop model — tied to the code byte for byte — computes). -/
namespace Bmc.Proto
open Bmc Bmc.Wire Bmc.Crypto

/-- what the instrumentation sees of one attempt: `commandResponses` is incremented after the acceptance checks, for
    temporary and final codes alike; everything else that arrives is retried without being counted -/
def attOf (C : Ops) (k : Keys) (c : Cmd) : Outcome → Metrics.Att
  | .lost => .lost
  | .reply d =>
    match view (onReply C k.sess (GoSlice.ofBytes d)) with
    | (.message, some (v2, msg)) =>
      if accept k c v2 msg then
        (if isTemp msg.completionCode then .temp msg.completionCode.toNat else .final msg.completionCode.toNat)
      else .junk
    | _ => .junk

/-- `classify` in terms of `attOf` (no reply crashes the chain: `decodeChain_total`, stated here as a hypothesis on the
    script so that this file does not depend on the C05 proofs) -/
def noCrash (C : Ops) (k : Keys) (c : Cmd) (script : List Outcome) : Prop :=
  ∀ d, Outcome.reply d ∈ script → classify C k c d ≠ .crash

theorem classify_attOf (C : Ops) (k : Keys) (c : Cmd) (d : Bytes) (hn : classify C k c d ≠ .crash) :
    (∀ cc p, classify C k c d = .final cc p → attOf C k c (.reply d) = .final cc.toNat) ∧
    (classify C k c d = .retry → (∃ t, attOf C k c (.reply d) = .temp t) ∨ attOf C k c (.reply d) = .junk) := by
  simp only [classify, attOf] at *
  generalize view (onReply C k.sess (GoSlice.ofBytes d)) = vw at *
  obtain ⟨how, o⟩ := vw
  cases how <;> cases o <;> simp_all
  rename_i val
  obtain ⟨v2, msg⟩ := val
  simp only []
  by_cases ha : accept k c v2 msg = true <;> by_cases ht : isTemp msg.completionCode = true <;> simp_all

/-- did the call succeed: the abstract verdict equals "the byte-level contract returns a response" -/
theorem succeeds_wire (C : Ops) (k : Keys) (c : Cmd) (script : List Outcome) (hn : noCrash C k c script) :
    Metrics.succeeds true (script.map (attOf C k c)) = (match (expected (classify C k c) script).2 with | .ok _ _ => true | _ => false) := by
  induction script with
  | nil => simp [Metrics.succeeds, expected]
  | cons o rest ih =>
    have ih' := ih (fun d hd => hn d (by simp [hd]))
    cases o with
    | lost => simp [attOf, Metrics.succeeds, expected]
    | reply d =>
      have hc := hn d (by simp)
      obtain ⟨h1, h2⟩ := classify_attOf C k c d hc
      cases hcl : classify C k c d with
      | crash => exact absurd hcl hc
      | final cc p => simp only [List.map_cons, expected, hcl]; rw [h1 cc p hcl]; simp [Metrics.succeeds]
      | retry =>
        simp only [List.map_cons, expected, hcl]
        rcases h2 hcl with ⟨t, ht⟩ | hj
        · rw [ht]; simpa [Metrics.succeeds] using ih'
        · rw [hj]; simpa [Metrics.succeeds] using ih'

/-- how often the retry closure ran = datagrams the byte-level loop transmits, plus the one run in which the expired
    context was noticed when the script ran out -/
theorem closureRuns_wire (C : Ops) (k : Keys) (c : Cmd) (script : List Outcome) (hn : noCrash C k c script) :
    Metrics.closureRuns true (script.map (attOf C k c)) =
      (expected (classify C k c) script).1 + (if (expected (classify C k c) script).2 = .ctxExpired then 1 else 0) := by
  induction script with
  | nil => simp [Metrics.closureRuns, expected]
  | cons o rest ih =>
    have ih' := ih (fun d hd => hn d (by simp [hd]))
    cases o with
    | lost => simp [attOf, Metrics.closureRuns, expected]
    | reply d =>
      have hc := hn d (by simp)
      obtain ⟨h1, h2⟩ := classify_attOf C k c d hc
      cases hcl : classify C k c d with
      | crash => exact absurd hcl hc
      | final cc p => simp only [List.map_cons, expected, hcl]; rw [h1 cc p hcl]; simp [Metrics.closureRuns]
      | retry =>
        simp only [List.map_cons, expected, hcl]
        rcases h2 hcl with ⟨t, ht⟩ | hj
        · rw [ht]; simp only [Metrics.closureRuns]; rw [ih']; omega
        · rw [hj]; simp only [Metrics.closureRuns]; rw [ih']; omega

end Bmc.Proto
