import Bmc.Proofs.GenOrch.WalkSDRs
/-! Helper definitions for `Proofs/GenOrch/RetrieveSDRRepository.lean`: the typed answer function of
    `s.GetSDRRepositoryInfo(ctx)` for a raw answer function, and the closure given to `backoff.Retry` written out with
    the regenerated `walkSDRs` as a black box (its equality theorem) against the hand model's `attempt`. -/
namespace Bmc.Lemmas.GenOrchSdr
open Bmc Bmc.GoOrch Bmc.Gen.Orch Bmc.Proto Bmc.Proto.SdrWalk Bmc.Lemmas.GenOrch Bmc.Proofs.GenOrch

/-- the response struct of Get SDR Repository Info for the hand model's decoded response (times as their seconds) -/
def infoRspOf (w : Wire.SDRRepoInfoRsp) : GetSDRRepositoryInfoRsp :=
  { version := w.version, records := UInt16.ofNat w.records, freeSpace := UInt16.ofNat w.freeSpace,
    lastAddition := (w.lastAddition : Int), lastErase := (w.lastErase : Int),
    overflow := w.flags &&& 0x80 != 0, supportsModalUpdate := w.flags &&& 0x40 != 0, supportsNonModalUpdate := w.flags &&& 0x20 != 0,
    supportsDelete := w.flags &&& 8 != 0, supportsPartialAdd := w.flags &&& 4 != 0, supportsReserve := w.flags &&& 2 != 0,
    supportsGetAllocationInformation := w.flags &&& 1 != 0 }

/-- `s.GetSDRRepositoryInfo(ctx)` -/
def infoOf {σ : Type} (a : Answer σ) : σ → σ × Option GetSDRRepositoryInfoRsp := fun s =>
  ((SdrWalk.call a Wire.SDRRepoInfoRsp.decode s .repoInfo).1, (SdrWalk.call a Wire.SDRRepoInfoRsp.decode s .repoInfo).2.map infoRspOf)

/-- the closure given to `backoff.Retry`, written out over the regenerated `walkSDRs` -/
def attemptSpec {σ : Type} (a : Answer σ) (junk : σ → GetSDRReq → GetSDRRsp) (fuel : Nat) : M σ (Option GRepo) := do
  let initialInfo ← GoOrch.call (infoOf a)
  let candidateRepo ← bmc_walkSDRs fuel (sendOf a junk) (reserveOf a)
  let finalInfo ← GoOrch.call (infoOf a)
  if (decide (initialInfo.lastAddition < finalInfo.lastAddition) || decide (initialInfo.lastErase < finalInfo.lastErase)) then fail else
  pure (some candidateRepo)

theorem attemptSpec_attempt {σ : Type} (a : Answer σ) (junk : σ → GetSDRReq → GetSDRRsp) (fuel : Nat) (s : σ) :
    ((attemptSpec a junk fuel s).1.map (Option.map viewRepo) = ofRes (match (attempt true a fuel s).2 with
        | .ok m => .ok (some m) | .err => .err | .outOfFuel => .outOfFuel)) ∧
    (attemptSpec a junk fuel s).2 = (attempt true a fuel s).1 := by
  unfold attemptSpec attempt
  orch_simp [call_apply, infoOf]
  cases hc : SdrWalk.call a Wire.SDRRepoInfoRsp.decode s .repoInfo with
  | mk s1 o =>
    cases o with
    | none => simp [RF.map, ofRes]
    | some i1 =>
      simp only [Option.map_some, cont_ok]
      orch_simp
      have key := walkSDRs_gen_eq a junk fuel s1
      generalize bmc_walkSDRs fuel (sendOf a junk) (reserveOf a) s1 = r at key ⊢
      generalize walk true a fuel s1 = h at key ⊢
      obtain ⟨r1, s2⟩ := r
      obtain ⟨hs, hr⟩ := h
      obtain ⟨k1, k2⟩ := key
      simp only at k1 k2
      subst k2
      cases r1 with
      | ok g =>
        cases hr <;> simp [RF.map, ofRes] at k1
        subst k1
        simp only [cont_ok]
        orch_simp [call_apply, infoOf]
        cases hc2 : SdrWalk.call a Wire.SDRRepoInfoRsp.decode s2 .repoInfo with
        | mk s3 o3 =>
          cases o3 with
          | none => simp [RF.map, ofRes]
          | some i2 =>
            simp only [Option.map_some, cont_ok]
            orch_simp
            have hA : ((infoRspOf i1).lastAddition < (infoRspOf i2).lastAddition) ↔ i1.lastAddition < i2.lastAddition := Int.ofNat_lt
            have hE : ((infoRspOf i1).lastErase < (infoRspOf i2).lastErase) ↔ i1.lastErase < i2.lastErase := Int.ofNat_lt
            simp only [hA, hE]
            by_cases hmod : i1.lastAddition < i2.lastAddition ∨ i1.lastErase < i2.lastErase
            · have : (decide (i1.lastAddition < i2.lastAddition) || decide (i1.lastErase < i2.lastErase)) = true := by
                simpa using hmod
              simp [this, hmod, RF.map, ofRes]
            · have : (decide (i1.lastAddition < i2.lastAddition) || decide (i1.lastErase < i2.lastErase)) = false := by
                simpa using hmod
              simp [this, hmod, RF.map, ofRes]
      | err => cases hr <;> simp [RF.map, ofRes] at k1 <;> simp [RF.map, ofRes]
      | panic => cases hr <;> simp [RF.map, ofRes] at k1
      | overread => cases hr <;> simp [RF.map, ofRes] at k1
      | outOfFuel => cases hr <;> simp [RF.map, ofRes] at k1 <;> simp [RF.map, ofRes]

/-- the retry loop: unless an attempt runs out of fuel (the hand model tries again, the translation stops with
    `outOfFuel`), the same result and the same final state -/
theorem retry_retrieve {σ : Type} (a : Answer σ) (junk : σ → GetSDRReq → GetSDRRsp) (fuel : Nat) :
    ∀ (n : Nat) (s : σ),
    (retry n (attemptSpec a junk fuel) s).1 = .outOfFuel ∨
    ((retry n (attemptSpec a junk fuel) s).1.map (Option.map viewRepo)
        = (match (retrieve true a fuel n s).2 with | some m => .ok (some m) | none => .err) ∧
     (retry n (attemptSpec a junk fuel) s).2 = (retrieve true a fuel n s).1) := by
  intro n
  induction n with
  | zero => intro s; right; exact ⟨rfl, rfl⟩
  | succ k ih =>
    intro s
    rw [retry_succ]
    unfold retrieve
    have key := attemptSpec_attempt a junk fuel s
    generalize attemptSpec a junk fuel s = r at key ⊢
    generalize attempt true a fuel s = h at key ⊢
    obtain ⟨r1, s1⟩ := r
    obtain ⟨hs, hr⟩ := h
    obtain ⟨k1, k2⟩ := key
    simp only at k1 k2
    subst k2
    cases r1 with
    | ok g =>
      cases hr <;> simp [RF.map, ofRes] at k1
      right
      cases g with
      | none => simp at k1
      | some g => obtain ⟨w, hw, rfl⟩ := k1; cases hw; simp [RF.map]
    | err =>
      cases hr <;> simp [RF.map, ofRes] at k1
      exact ih s1
    | panic => cases hr <;> simp [RF.map, ofRes] at k1
    | overread => cases hr <;> simp [RF.map, ofRes] at k1
    | outOfFuel => left; rfl

end Bmc.Lemmas.GenOrchSdr
