import Bmc.Lemmas.HandshakeInv
import Bmc.Lemmas.V2Refine
import Bmc.Lemmas.V2RoundTrip
import Bmc.Lemmas.Rakp2Refine
import Bmc.Lemmas.SetupBits
import Bmc.Spec.Bmc
/-! Liveness of the handshake model against the specification's BMC (`Spec/Bmc.lean`): one lemma per layer
    (datagram → payload window → decoded reply → step), assembled in `Proofs/C01.lean`. -/
namespace Bmc.Proto
open Bmc Bmc.Wire Bmc.Crypto

/-- the receive-buffer remainder behind `LayerPayload()` -/
abbrev recvTail : Bytes := List.replicate 64 0xEE

-- the wrapper --------------------------------------------------------------------------------------------------

/-- the specification's session-less datagram is what `buildAndSendPayload` builds (and what the BMC sends back) -/
theorem sessionless_eq_setupDatagram (pt : UInt8) (payload : Bytes) (h2 : pt ≠ 2) :
    Spec.sessionless pt payload = setupDatagram pt payload := by
  have e : (pt == 2) = false := by simpa using h2
  have l1 : payload.length % 65536 % 256 = payload.length % 256 := by omega
  have l2 : payload.length % 65536 / 256 % 256 = payload.length / 256 % 256 := by omega
  simp [Spec.sessionless, setupDatagram, RMCP.encode, V2Session.encode, e, putLE32, putLE16, Spec.le32, Spec.le16, l1, l2]

theorem rmcp_decode_setup (rest : Bytes) :
    ∃ p : GoSlice, RMCP.decodeGo {} (GoSlice.ofBytes ([6, 0, 0xFF, 7] ++ rest)) =
      .ok ({ version := 6, sequence := 0xFF, ack := false, cls := 7 }, p) ∧ p.vis = rest ∧ p.len = rest.length := by
  refine ⟨(GoSlice.ofBytes ([6, 0, 0xFF, 7] ++ rest)).sub 4 _ (by simp) (Nat.le_refl _), ?_, ?_, ?_⟩
  · unfold RMCP.decodeGo
    have h4 : ¬ (GoSlice.ofBytes ([6, 0, 0xFF, 7] ++ rest)).len < 4 := by simp
    simp only [h4, if_false]
    rw [GoSlice.idx_ok _ 0 (by simp), GoSlice.idx_ok _ 2 (by simp), GoSlice.idx_ok _ 3 (by simp),
      GoSlice.sliceFrom_ok _ 4 (by simp)]
    simp
    decide
  · simp
  · simp

/-- one attempt on a conforming reply: the payload handed to the setup-layer decoder is a window into the receive
    buffer holding exactly the payload bytes -/
theorem payloadReply_setup (pt : UInt8) (payload : Bytes) (hpt : pt.toNat < 64) (h0 : pt ≠ 0) (h2 : pt ≠ 2)
    (hne : payload ≠ []) (hlen : payload.length < 65536) :
    payloadReply (GoSlice.ofBytes (Spec.sessionless pt payload)) = .got (GoSlice.window payload recvTail) := by
  rw [sessionless_eq_setupDatagram pt payload h2]
  unfold setupDatagram
  simp only []
  have wf : V2Session.WF { payloadType := pt } payload :=
    ⟨hpt, by simp, by simp, hlen, by simp, by simp, fun _ => ⟨rfl, rfl⟩, fun _ => ⟨rfl, rfl⟩⟩
  have hdec := V2Session.decode_encode_unauth (fun _ => []) { payloadType := pt } payload wf rfl
  generalize hw : (V2Session.encode (fun _ => []) { payloadType := pt } payload) = enc at hdec
  have hwl : enc.2 ≠ [] := by
    subst hw
    simp [V2Session.encode]
  have hw0 : enc.2.getD 0 0 = 6 := by
    subst hw
    simp [V2Session.encode]
  have hpt1 : enc.1.payloadType = pt := by subst hw; rfl
  have hen1 : enc.1.encrypted = false := by subst hw; rfl
  obtain ⟨p, hp, hvis, hplen⟩ := rmcp_decode_setup enc.2
  unfold payloadReply
  have : RMCP.encode { version := 6, sequence := 0xFF, cls := 7 } = [6, 0, 0xFF, 7] := by decide
  rw [this, hp]
  simp only []
  have hl0 : (p.len == 0) = false := by
    rw [hplen]; cases h : enc.2 with
    | nil => exact absurd h hwl
    | cons a t => simp
  rw [hl0]
  simp only [Bool.false_eq_true, if_false]
  rw [if_neg (by decide), hvis, hw0, if_neg (by decide), V2Session.decodeGo_refines, hvis, hdec]
  simp only [R.ofExcept_ok]
  have he : payload.isEmpty = false := by cases payload with | nil => exact absurd rfl hne | cons a t => rfl
  have hz : (pt == 0) = false := by simpa using h0
  simp only [he, hpt1, hen1, hz, Bool.false_eq_true, if_false, Bool.false_and, Bool.not_false, Bool.and_true]

-- the exchange -------------------------------------------------------------------------------------------------

/-- a conforming reply to the first transmission ends the exchange: one datagram sent, the payload obtained -/
theorem exchange_got (d : Bytes) (rest : List Outcome) (w : GoSlice) (h : payloadReply (GoSlice.ofBytes d) = .got w) :
    exchange (.reply d :: rest) = (1, some (.got w)) := by
  simp only [exchange, h]

theorem exchangePayload_got (d : Bytes) (rest : List Outcome) (w : GoSlice) (h : payloadReply (GoSlice.ofBytes d) = .got w) :
    exchangePayload (.reply d :: rest) = .ok w := by
  simp only [exchangePayload, exchange_got d rest w h]

-- the three decoders on the specification's layouts -----------------------------------------------------------------

theorem le32_spec' (n : Nat) (h : n < 4294967296) (r : Bytes) :
    le32 (UInt8.ofNat (n % 256) :: UInt8.ofNat (n / 256 % 256) :: UInt8.ofNat (n / 65536 % 256) ::
      UInt8.ofNat (n / 16777216 % 256) :: r) = n := by
  have := Bmc.Lemmas.Setup.le32_spec n h r
  simpa [Spec.le32] using this

theorem deserialiseAlg_spec (typ alg : UInt8) (ha : alg &&& 0x3f = alg) (s : GoSlice) (hl : s.len = 8)
    (hv : s.vis = [typ, 0, 0, 8, alg, 0, 0, 0]) : deserialiseAlg typ s = .ok (false, alg) := by
  unfold deserialiseAlg
  have h8 : ¬ s.len < 8 := by omega
  simp only [h8, if_false]
  rw [GoSlice.idx_ok _ 0 (by omega), GoSlice.idx_ok _ 3 (by omega), GoSlice.idx_ok _ 4 (by omega), hv]
  simp [ha]

theorem openSessionRsp_decode_core (tag mp : UInt8) (csid bsid : Nat) (a i c : UInt8) (hc : csid < 4294967296)
    (hb : bsid < 4294967296) (ha : a &&& 0x3f = a) (hi : i &&& 0x3f = i) (hcf : c &&& 0x3f = c) (d : GoSlice)
    (hlen : d.len = 36)
    (hvis : d.vis = tag :: 0 :: mp :: 0 :: UInt8.ofNat (csid % 256) :: UInt8.ofNat (csid / 256 % 256) ::
      UInt8.ofNat (csid / 65536 % 256) :: UInt8.ofNat (csid / 16777216 % 256) :: UInt8.ofNat (bsid % 256) ::
      UInt8.ofNat (bsid / 256 % 256) :: UInt8.ofNat (bsid / 65536 % 256) :: UInt8.ofNat (bsid / 16777216 % 256) ::
      [0, 0, 0, 8, a, 0, 0, 0, 1, 0, 0, 8, i, 0, 0, 0, 2, 0, 0, 8, c, 0, 0, 0]) :
    OpenSessionRsp.decodeGo {} d =
      .ok { tag := tag, status := 0, maxPriv := mp, consoleSessionID := csid, bmcSessionID := bsid,
            authWild := false, auth := a, integWild := false, integ := i, confWild := false, conf := c } := by
  unfold OpenSessionRsp.decodeGo
  have n1 : (d.len == 1) = false := by rw [hlen]; rfl
  have n7 : ¬ d.len < 7 := by omega
  have n36 : (d.len != 36) = false := by rw [hlen]; rfl
  simp only [n1, n7, Bool.false_eq_true, if_false]
  rw [GoSlice.idx_ok _ 0 (by omega), GoSlice.idx_ok _ 1 (by omega), GoSlice.slice_ok _ 3 7 (by omega) (by omega)]
  simp only [R.bind_ok, R.pure_eq]
  have s1 : d.vis.getD 1 0 = 0 := by rw [hvis]; rfl
  simp only [s1, beq_self_eq_true, if_true, n36, Bool.false_eq_true, if_false]
  rw [GoSlice.idx_ok _ 2 (by omega), GoSlice.slice_ok _ 4 8 (by omega) (by omega),
    GoSlice.slice_ok _ 8 12 (by omega) (by omega), GoSlice.slice_ok _ 12 20 (by omega) (by omega),
    GoSlice.slice_ok _ 20 28 (by omega) (by omega), GoSlice.slice_ok _ 28 36 (by omega) (by omega)]
  simp only [R.bind_ok]
  rw [deserialiseAlg_spec 0 a ha _ rfl (by rw [GoSlice.sub_vis, hvis]; rfl),
    deserialiseAlg_spec 1 i hi _ rfl (by rw [GoSlice.sub_vis, hvis]; rfl),
    deserialiseAlg_spec 2 c hcf _ rfl (by rw [GoSlice.sub_vis, hvis]; rfl)]
  simp only [R.bind_ok, R.pure_eq, GoSlice.sub_vis, hvis]
  have e1 := le32_spec' csid hc []
  have e2 := le32_spec' bsid hb []
  simp [e1, e2]

/-- the specification's Open Session Response (status 00, concrete algorithm payloads), as the library decodes it -/
theorem openSessionRsp_decode_spec (tag mp : UInt8) (csid bsid : Nat) (a i c : UInt8) (hc : csid < 4294967296)
    (hb : bsid < 4294967296) (ha : a &&& 0x3f = a) (hi : i &&& 0x3f = i) (hcf : c &&& 0x3f = c) (tail : Bytes) :
    OpenSessionRsp.decodeGo {} (GoSlice.window (Spec.OpenSessionRsp.ok tag mp csid bsid (some a) (some i) (some c)).encode tail) =
      .ok { tag := tag, status := 0, maxPriv := mp, consoleSessionID := csid, bmcSessionID := bsid,
            authWild := false, auth := a, integWild := false, integ := i, confWild := false, conf := c } := by
  have enc : (Spec.OpenSessionRsp.ok tag mp csid bsid (some a) (some i) (some c)).encode =
      tag :: 0 :: mp :: 0 :: UInt8.ofNat (csid % 256) :: UInt8.ofNat (csid / 256 % 256) :: UInt8.ofNat (csid / 65536 % 256) ::
      UInt8.ofNat (csid / 16777216 % 256) :: UInt8.ofNat (bsid % 256) :: UInt8.ofNat (bsid / 256 % 256) ::
      UInt8.ofNat (bsid / 65536 % 256) :: UInt8.ofNat (bsid / 16777216 % 256) ::
      [0, 0, 0, 8, a, 0, 0, 0, 1, 0, 0, 8, i, 0, 0, 0, 2, 0, 0, 8, c, 0, 0, 0] := by
    simp [Spec.OpenSessionRsp.encode, Spec.le32, Spec.algPayload]
  apply openSessionRsp_decode_core tag mp csid bsid a i c hc hb ha hi hcf
  · rw [enc]; rfl
  · rw [GoSlice.vis_window, enc]

open Bmc.Lemmas.Setup in
/-- the specification's RAKP Message 2 (status 00), as the library decodes it -/
theorem rakp2_decode_spec (tag : UInt8) (sid : Nat) (rc guid ac : Bytes) (h1 : sid < 4294967296) (h2 : rc.length = 16)
    (h3 : guid.length = 16) (tail : Bytes) :
    RAKP2.decodeGo true {} (GoSlice.window (Spec.RAKP2.ok tag sid rc guid ac).encode tail) =
      .ok { tag := tag, status := 0, consoleSessionID := sid, bmcRandom := rc, bmcGUID := guid, authCode := ac
            contents := (Spec.RAKP2.ok tag sid rc guid ac).encode } := by
  rw [RAKP2.decodeGo_refines, GoSlice.vis_window]
  have e := fun r => le32_spec' sid h1 r
  have enc : (Spec.RAKP2.ok tag sid rc guid ac).encode = tag :: 0 :: 0 :: 0 :: UInt8.ofNat (sid % 256) ::
      UInt8.ofNat (sid / 256 % 256) :: UInt8.ofNat (sid / 65536 % 256) :: UInt8.ofNat (sid / 16777216 % 256) ::
      (rc ++ (guid ++ ac)) := by
    simp [Spec.RAKP2.encode, Spec.le32]
  unfold RAKP2.decode
  rw [enc]
  simp only [List.length_cons, List.length_append, h2, h3, List.getD_cons_succ, List.getD_cons_zero,
    List.drop_succ_cons, List.drop_zero, e, take_pre _ _ _ h2]
  rw [show (32 : Nat) = 16 + 16 from rfl, drop_pre _ _ _ _ h2, drop_pre _ _ _ 0 h3, List.drop_zero]
  rw [show List.drop 16 (rc ++ (guid ++ ac)) = guid ++ ac from by
    rw [show (16 : Nat) = 16 + 0 from rfl, drop_pre _ _ _ _ h2, List.drop_zero]]
  simp only [take_pre _ _ _ h3]
  rw [if_neg (by omega)]
  simp only [beq_self_eq_true, if_true]
  rw [if_neg (by omega)]
  rfl

/-- the specification's RAKP Message 4 (status 00), as the library decodes it -/
theorem rakp4_decode_spec (tag : UInt8) (sid : Nat) (icv : Bytes) (h1 : sid < 4294967296) (tail : Bytes) :
    RAKP4.decodeGo {} (GoSlice.window (Spec.RAKP4.ok tag sid icv).encode tail) =
      .ok { tag := tag, status := 0, consoleSessionID := sid, icv := icv } := by
  have enc : (Spec.RAKP4.ok tag sid icv).encode = tag :: 0 :: 0 :: 0 :: UInt8.ofNat (sid % 256) ::
      UInt8.ofNat (sid / 256 % 256) :: UInt8.ofNat (sid / 65536 % 256) :: UInt8.ofNat (sid / 16777216 % 256) :: icv := by
    simp [Spec.RAKP4.encode, Spec.le32]
  rw [enc]
  generalize hd : GoSlice.window _ tail = d
  have hlen : d.len = 8 + icv.length := by subst hd; simp [GoSlice.window]; omega
  have hvis : d.vis = tag :: 0 :: 0 :: 0 :: UInt8.ofNat (sid % 256) ::
      UInt8.ofNat (sid / 256 % 256) :: UInt8.ofNat (sid / 65536 % 256) :: UInt8.ofNat (sid / 16777216 % 256) :: icv := by
    subst hd; exact GoSlice.vis_window _ _
  unfold RAKP4.decodeGo
  have n8 : ¬ d.len < 8 := by omega
  simp only [n8, if_false]
  rw [GoSlice.idx_ok _ 0 (by omega), GoSlice.idx_ok _ 1 (by omega), GoSlice.slice_ok _ 4 8 (by omega) (by omega)]
  simp only [R.bind_ok, GoSlice.sub_vis, hvis]
  have e := le32_spec' sid h1 []
  cases icv with
  | nil =>
    have : ¬ d.len > 8 := by simp at hlen; omega
    simp [this, e]
  | cons x xs =>
    have : d.len > 8 := by simp at hlen; omega
    simp only [List.getD_cons_succ, List.getD_cons_zero, beq_self_eq_true, this, decide_true, Bool.and_self, if_true]
    rw [GoSlice.sliceFrom_ok _ 8 (by omega)]
    simp only [R.bind_ok, R.pure_eq, GoSlice.sub_vis, hvis, hlen]
    simp [e]

-- the console's three datagrams are the specification's ------------------------------------------------------------

theorem nibble_id : ∀ p : Nat, p < 16 → UInt8.ofNat p &&& 0xF = UInt8.ofNat p := by decide +kernel

theorem priv_nibble (p : UInt8) (h : p.toNat < 16) : p &&& 0xF = p := by
  have := nibble_id p.toNat h
  simpa using this

theorem openSessionReq_spec (priv : UInt8) (hp : priv.toNat < 16) (sid : Nat) (a i c : UInt8) :
    OpenSessionReq.encode 0 priv sid a i c = Spec.openSessionRequest 0 priv sid a i c := by
  simp [OpenSessionReq.encode, Spec.openSessionRequest, priv_nibble priv hp, algPayload, Spec.algPayload, putLE32, Spec.le32]

theorem rakp1_spec (o : Opts) (hp : o.priv.toNat < 16) (hu : o.user.length ≤ 16) (sidc : Nat) (rm : Bytes) :
    RAKP1.encode 0 sidc rm o.lookup o.priv o.user = .ok (Spec.rakp1 0 sidc rm (roleByte o) o.user) := by
  have : ¬ o.user.length > 16 := by omega
  simp [RAKP1.encode, this, Spec.rakp1, roleByte, priv_nibble o.priv hp, putLE32, Spec.le32]

theorem rakp3_spec (sidc : Nat) (code : Bytes) : RAKP3.encode 0 sidc code = Spec.rakp3 0 0 sidc code := by
  simp [RAKP3.encode, Spec.rakp3, putLE32, Spec.le32]

-- the three steps against the specification's BMC ------------------------------------------------------------------

/-- what the BMC has received from this console: tag 0 and console session ID 1 (the library's constants), the
    proposed suite, the console's random number, the role byte and the user name of RAKP 1 -/
def received (o : Opts) (rm : Bytes) : Spec.Received :=
  { tag := 0, sidm := 1, auth := o.auth, integ := o.integ, conf := o.conf, rm := rm, role := roleByte o, uname := o.user }

/-- the Open Session Response the console holds after the first exchange -/
def liveOsr (o : Opts) (b : Spec.BmcSide) : OpenSessionRsp :=
  { tag := 0, status := 0, maxPriv := b.maxPriv, consoleSessionID := 1, bmcSessionID := b.sidc
    auth := o.auth, integ := o.integ, conf := o.conf }

/-- the RAKP Message 2 the console holds after the second exchange -/
def liveRk2 (C : Ops) (h : HashAlg) (o : Opts) (rm : Bytes) (b : Spec.BmcSide) : RAKP2 :=
  { tag := 0, status := 0, consoleSessionID := 1, bmcRandom := b.rc, bmcGUID := b.guid
    authCode := Spec.rakp2Code C h b.kuid (b.exchange (received o rm))
    contents := (Spec.RAKP2.ok 0 1 b.rc b.guid (Spec.rakp2Code C h b.kuid (b.exchange (received o rm)))).encode }

theorem authHash_mask (a : UInt8) (h : HashAlg) (ha : authHash a = some h) : a &&& 0x3f = a := by
  unfold authHash at ha
  split at ha <;> first | rfl | cases ha

theorem osr_length (tag mp : UInt8) (c s : Nat) (a i cf : Option UInt8) :
    (Spec.OpenSessionRsp.ok tag mp c s a i cf).encode.length = 36 := by
  cases a <;> cases i <;> cases cf <;> simp [Spec.OpenSessionRsp.encode, Spec.le32, Spec.algPayload]

theorem stepOpen_live (o : Opts) (rm : Bytes) (b : Spec.BmcSide) (hb : b.wf) (h : HashAlg) (ha : authHash o.auth = some h)
    (hi : o.integ = 1 ∨ o.integ = 2 ∨ o.integ = 4) (hc : o.conf = 1) (rest : List Outcome) :
    stepOpen o (.reply (b.openSessionReply (received o rm)) :: rest) = .ok (liveOsr o b) := by
  have hlen := osr_length 0 b.maxPriv 1 b.sidc (some o.auth) (some o.integ) (some o.conf)
  have hgot := payloadReply_setup 0x11 (Spec.OpenSessionRsp.ok 0 b.maxPriv 1 b.sidc (some o.auth) (some o.integ) (some o.conf)).encode
    (by decide) (by decide) (by decide) (by intro e; rw [e] at hlen; cases hlen) (by omega)
  have hi' : o.integ &&& 0x3f = o.integ := by rcases hi with e | e | e <;> (rw [e]; rfl)
  have hc' : o.conf &&& 0x3f = o.conf := by rw [hc]; rfl
  unfold stepOpen Spec.BmcSide.openSessionReply
  simp only [received]
  rw [exchangePayload_got _ _ _ hgot]
  simp only []
  rw [openSessionRsp_decode_spec 0 b.maxPriv 1 b.sidc o.auth o.integ o.conf (by omega) hb.1 (authHash_mask _ _ ha) hi' hc']
  simp [liveOsr]

theorem stepRakp2_live (C : Ops) (o : Opts) (rm : Bytes) (b : Spec.BmcSide) (hb : b.wf) (h : HashAlg)
    (ha : authHash o.auth = some h) (hk : b.kuid = o.pass)
    (hfit : (Spec.rakp2Code C h b.kuid (b.exchange (received o rm))).length + 40 < 65536) (rest : List Outcome) :
    stepRakp2 C o rm (liveOsr o b) (.reply (b.rakp2Reply C h (received o rm)) :: rest) = .ok (liveRk2 C h o rm b, h) := by
  obtain ⟨hs, hrc, hguid⟩ := hb
  generalize hcd : Spec.rakp2Code C h b.kuid (b.exchange (received o rm)) = code at hfit
  have hlen : (Spec.RAKP2.ok 0 1 b.rc b.guid code).encode.length = 40 + code.length := by
    simp [Spec.RAKP2.encode, Spec.le32, hrc, hguid]; omega
  have hgot : payloadReply (GoSlice.ofBytes (b.rakp2Reply C h (received o rm))) =
      .got (GoSlice.window (Spec.RAKP2.ok 0 1 b.rc b.guid code).encode recvTail) := by
    subst hcd
    exact payloadReply_setup 0x13 (Spec.RAKP2.ok 0 1 b.rc b.guid _).encode (by decide) (by decide) (by decide) (by intro e; rw [e] at hlen; simp at hlen; omega) (by omega)
  have hdec : RAKP2.decodeGo true {} (GoSlice.window (Spec.RAKP2.ok 0 1 b.rc b.guid code).encode recvTail) =
      R.ok (liveRk2 C h o rm b) := by
    subst hcd
    exact rakp2_decode_spec 0 1 b.rc b.guid _ (by omega) hrc hguid recvTail
  have hcode : (liveRk2 C h o rm b).authCode = rakp2Code C h o rm (liveOsr o b) (liveRk2 C h o rm b) := by
    simp [Spec.rakp2Code, rakp2Code, Spec.BmcSide.exchange, received, liveOsr, liveRk2, hk, Spec.Exchange.ulen, putLE32, Spec.le32]
  have hne : ((liveRk2 C h o rm b).authCode != rakp2Code C h o rm (liveOsr o b) (liveRk2 C h o rm b)) = false := by
    rw [← hcode]; simp
  have hauth : authHash (liveOsr o b).auth = some h := ha
  have ht : ((liveRk2 C h o rm b).tag != 0) = false := rfl
  have hst : ((liveRk2 C h o rm b).status != 0) = false := rfl
  unfold stepRakp2
  rw [exchangePayload_got _ _ _ hgot]
  simp only []
  rw [hdec]
  simp only [ht, hst, hauth, hne, Bool.false_eq_true, if_false]

theorem sikOf_live (C : Ops) (o : Opts) (rm : Bytes) (b : Spec.BmcSide) (h : HashAlg) (hk : b.kuid = o.pass) (hkg : b.kg = o.kg) :
    sikOf C h o rm (liveRk2 C h o rm b) = b.sik C h (received o rm) := by
  simp [sikOf, Spec.BmcSide.sik, Spec.sik, Spec.BmcSide.exchange, received, liveRk2, hk, hkg, Spec.Exchange.ulen]

theorem icvOf_live (C : Ops) (o : Opts) (rm : Bytes) (b : Spec.BmcSide) (h : HashAlg) (ha : authHash o.auth = some h) (sik : Bytes) :
    icvOf C h (liveOsr o b).auth sik rm (liveOsr o b) (liveRk2 C h o rm b) = Spec.icv C h sik (b.exchange (received o rm)) := by
  have ha' : authHash (liveOsr o b).auth = some h := ha
  generalize (liveOsr o b).auth = a at ha'
  unfold authHash at ha'
  split at ha'
  · injection ha' with e; subst e; simp [icvOf, Spec.icv, Spec.BmcSide.exchange, received, liveOsr, liveRk2, icvLen, putLE32, Spec.le32]
  · injection ha' with e; subst e; simp [icvOf, Spec.icv, Spec.BmcSide.exchange, received, liveOsr, liveRk2, icvLen, putLE32, Spec.le32]
  · injection ha' with e; subst e; simp [icvOf, Spec.icv, Spec.BmcSide.exchange, received, liveOsr, liveRk2, icvLen, putLE32, Spec.le32]
  · cases ha'

theorem stepRakp4_live (C : Ops) (o : Opts) (rm : Bytes) (b : Spec.BmcSide) (hb : b.wf) (h : HashAlg)
    (ha : authHash o.auth = some h) (hi : o.integ = 1 ∨ o.integ = 2 ∨ o.integ = 4) (hc : o.conf = 1)
    (hk : b.kuid = o.pass) (hkg : b.kg = o.kg)
    (hfit : (Spec.icv C h (b.sik C h (received o rm)) (b.exchange (received o rm))).length + 8 < 65536) (rest : List Outcome) :
    stepRakp4 C o rm (liveOsr o b) (liveRk2 C h o rm b) h (.reply (b.rakp4Reply C h (received o rm)) :: rest) =
      .ok (.ok 1 b.sidc o.auth o.integ o.conf (b.sik C h (received o rm)) (b.k1 C h (received o rm)) (b.k2 C h (received o rm))) := by
  have hsik := sikOf_live C o rm b h hk hkg
  have hicv := icvOf_live C o rm b h ha (b.sik C h (received o rm))
  generalize hcd : Spec.icv C h (b.sik C h (received o rm)) (b.exchange (received o rm)) = icv at hfit hicv
  have hlen : (Spec.RAKP4.ok 0 1 icv).encode.length = 8 + icv.length := by
    simp [Spec.RAKP4.encode, Spec.le32]; omega
  have hgot : payloadReply (GoSlice.ofBytes (b.rakp4Reply C h (received o rm))) =
      .got (GoSlice.window (Spec.RAKP4.ok 0 1 icv).encode recvTail) := by
    subst hcd
    exact payloadReply_setup 0x15 (Spec.RAKP4.ok 0 1 _).encode (by decide) (by decide) (by decide)
      (by intro e; rw [e] at hlen; simp at hlen; omega) (by omega)
  have hdec := rakp4_decode_spec 0 1 icv (by omega) recvTail
  have hint : (!((liveOsr o b).integ == 1 || (liveOsr o b).integ == 2 || (liveOsr o b).integ == 4)) = false := by
    show (!(o.integ == 1 || o.integ == 2 || o.integ == 4)) = false
    rcases hi with e | e | e <;> (rw [e]; rfl)
  have hconf : ((liveOsr o b).conf != 1) = false := by
    show (o.conf != 1) = false
    rw [hc]; rfl
  unfold stepRakp4
  rw [exchangePayload_got _ _ _ hgot]
  simp only []
  rw [hdec]
  simp only [hsik, hicv, hint, hconf, bne_self_eq_false, Bool.false_eq_true, if_false]
  rfl

-- one transmission per exchange ----------------------------------------------------------------------------------

theorem open_not_retry (o : Opts) (rm : Bytes) (b : Spec.BmcSide) :
    payloadReply (GoSlice.ofBytes (b.openSessionReply (received o rm))) ≠ .retry := by
  have hlen := osr_length 0 b.maxPriv 1 b.sidc (some o.auth) (some o.integ) (some o.conf)
  have hgot := payloadReply_setup 0x11 (Spec.OpenSessionRsp.ok 0 b.maxPriv 1 b.sidc (some o.auth) (some o.integ) (some o.conf)).encode
    (by decide) (by decide) (by decide) (by intro e; rw [e] at hlen; cases hlen) (by omega)
  intro e
  have : payloadReply (GoSlice.ofBytes (b.openSessionReply (received o rm))) = _ := hgot
  rw [this] at e
  cases e

theorem rakp2_not_retry (C : Ops) (o : Opts) (rm : Bytes) (b : Spec.BmcSide) (hb : b.wf) (h : HashAlg)
    (hfit : (Spec.rakp2Code C h b.kuid (b.exchange (received o rm))).length + 40 < 65536) :
    payloadReply (GoSlice.ofBytes (b.rakp2Reply C h (received o rm))) ≠ .retry := by
  obtain ⟨hs, hrc, hguid⟩ := hb
  have hlen : (Spec.RAKP2.ok 0 1 b.rc b.guid (Spec.rakp2Code C h b.kuid (b.exchange (received o rm)))).encode.length =
      40 + (Spec.rakp2Code C h b.kuid (b.exchange (received o rm))).length := by
    simp [Spec.RAKP2.encode, Spec.le32, hrc, hguid]; omega
  have hgot := payloadReply_setup 0x13 (Spec.RAKP2.ok 0 1 b.rc b.guid (Spec.rakp2Code C h b.kuid (b.exchange (received o rm)))).encode
    (by decide) (by decide) (by decide) (by intro e; rw [e] at hlen; simp at hlen; omega) (by omega)
  intro e
  have : payloadReply (GoSlice.ofBytes (b.rakp2Reply C h (received o rm))) = _ := hgot
  rw [this] at e
  cases e

theorem rakp4_not_retry (C : Ops) (o : Opts) (rm : Bytes) (b : Spec.BmcSide) (h : HashAlg)
    (hfit : (Spec.icv C h (b.sik C h (received o rm)) (b.exchange (received o rm))).length + 8 < 65536) :
    payloadReply (GoSlice.ofBytes (b.rakp4Reply C h (received o rm))) ≠ .retry := by
  have hlen : (Spec.RAKP4.ok 0 1 (Spec.icv C h (b.sik C h (received o rm)) (b.exchange (received o rm)))).encode.length =
      8 + (Spec.icv C h (b.sik C h (received o rm)) (b.exchange (received o rm))).length := by
    simp [Spec.RAKP4.encode, Spec.le32]; omega
  have hgot := payloadReply_setup 0x15 (Spec.RAKP4.ok 0 1 (Spec.icv C h (b.sik C h (received o rm)) (b.exchange (received o rm)))).encode
    (by decide) (by decide) (by decide) (by intro e; rw [e] at hlen; simp at hlen; omega) (by omega)
  intro e
  have : payloadReply (GoSlice.ofBytes (b.rakp4Reply C h (received o rm))) = _ := hgot
  rw [this] at e
  cases e

theorem exchange_one (d : Bytes) (rest : List Outcome) (hr : payloadReply (GoSlice.ofBytes d) ≠ .retry) :
    (exchange (.reply d :: rest)).1 = 1 := by
  unfold exchange
  split
  · rename_i e; exact absurd e hr
  · rfl

-- the whole handshake ----------------------------------------------------------------------------------------------

theorem rakp3Code_live (C : Ops) (o : Opts) (rm : Bytes) (b : Spec.BmcSide) (h : HashAlg) (hk : b.kuid = o.pass) :
    rakp3Code C h o (liveRk2 C h o rm b) = b.expectedRakp3 C h (received o rm) := by
  simp [rakp3Code, Spec.BmcSide.expectedRakp3, Spec.rakp3Code, Spec.BmcSide.exchange, received, liveRk2, hk,
    Spec.Exchange.ulen, putLE32, Spec.le32]

/-- against the specification's BMC holding the same password and key, with one reply per exchange: exactly the three
    datagrams the specification prescribes are transmitted and the session is returned with the BMC's own keys -/
theorem newSession_live (C : Ops) (o : Opts) (rm : Bytes) (b : Spec.BmcSide) (hb : b.wf) (h : HashAlg)
    (ha : authHash o.auth = some h) (hi : o.integ = 1 ∨ o.integ = 2 ∨ o.integ = 4) (hc : o.conf = 1)
    (hu : o.user.length ≤ 16) (hp : o.priv.toNat < 16) (hk : b.kuid = o.pass) (hkg : b.kg = o.kg)
    (hfit2 : (Spec.rakp2Code C h b.kuid (b.exchange (received o rm))).length + 40 < 65536)
    (hfit4 : (Spec.icv C h (b.sik C h (received o rm)) (b.exchange (received o rm))).length + 8 < 65536) :
    newSession C o rm [.reply (b.openSessionReply (received o rm)), .reply (b.rakp2Reply C h (received o rm)),
        .reply (b.rakp4Reply C h (received o rm))] =
      ([Spec.sessionless 0x10 (Spec.openSessionRequest 0 o.priv 1 o.auth o.integ o.conf),
        Spec.sessionless 0x12 (Spec.rakp1 0 b.sidc rm (roleByte o) o.user),
        Spec.sessionless 0x14 (Spec.rakp3 0 0 b.sidc (b.expectedRakp3 C h (received o rm)))],
       .ok 1 b.sidc o.auth o.integ o.conf (b.sik C h (received o rm)) (b.k1 C h (received o rm)) (b.k2 C h (received o rm))) := by
  have n1 := exchange_one _ [.reply (b.rakp2Reply C h (received o rm)), .reply (b.rakp4Reply C h (received o rm))]
    (open_not_retry o rm b)
  have n2 := exchange_one _ [.reply (b.rakp4Reply C h (received o rm))] (rakp2_not_retry C o rm b hb h hfit2)
  have n3 := exchange_one _ [] (rakp4_not_retry C o rm b h hfit4)
  have s1 := stepOpen_live o rm b hb h ha hi hc [.reply (b.rakp2Reply C h (received o rm)), .reply (b.rakp4Reply C h (received o rm))]
  have s2 := stepRakp2_live C o rm b hb h ha hk hfit2 [.reply (b.rakp4Reply C h (received o rm))]
  have s3 := stepRakp4_live C o rm b hb h ha hi hc hk hkg hfit4 []
  have e1 := rakp1_spec o hp hu b.sidc rm
  unfold newSession
  simp only [n1, s1]
  have e1' : RAKP1.encode 0 (liveOsr o b).bmcSessionID rm o.lookup o.priv o.user = _ := e1
  simp only [e1', List.drop_succ_cons, List.drop_zero, n2, s2, n3, s3]
  rw [rakp3Code_live C o rm b h hk, openSessionReq_spec o.priv hp, show (liveOsr o b).bmcSessionID = b.sidc from rfl,
    rakp3_spec, ← sessionless_eq_setupDatagram _ _ (by decide), ← sessionless_eq_setupDatagram _ _ (by decide),
    ← sessionless_eq_setupDatagram _ _ (by decide)]
  rfl

/-- with a hash whose output has its nominal length the two codes fit any datagram -/
theorem fits_of_lawful (C : Ops) (hC : C.Lawful) (h : HashAlg) (kuid : Bytes) (sik : Bytes) (x : Spec.Exchange) :
    (Spec.rakp2Code C h kuid x).length + 40 < 65536 ∧ (Spec.icv C h sik x).length + 8 < 65536 := by
  constructor
  · simp only [Spec.rakp2Code, hC.hmac_len]; cases h <;> decide
  · cases h <;> simp [Spec.icv, hC.hmac_len, HashAlg.size] <;> omega

/-- … and so does any (lawful or not) hash whose outputs fit the wrapper's 16-bit payload length -/
theorem fits_of_bound (C : Ops) (h : HashAlg) (hfit : ∀ k m, (C.hmac h k m).length + 40 < 65536) (kuid : Bytes)
    (sik : Bytes) (x : Spec.Exchange) :
    (Spec.rakp2Code C h kuid x).length + 40 < 65536 ∧ (Spec.icv C h sik x).length + 8 < 65536 := by
  constructor
  · exact hfit _ _
  · have := hfit sik (x.rm ++ x.sidc ++ x.guid)
    cases h <;> simp only [Spec.icv, List.length_take] <;> omega

end Bmc.Proto
