import Bmc.Wire.Sdr
import Bmc.Lemmas.StringsSpec
import Bmc.Lemmas.Packed6Spec
/-! The ID string decoders as functions of the visible bytes: no panic, no over-read, nothing beyond `len`;
    the number of bytes consumed never exceeds the bytes present. -/
namespace Bmc.Lemmas.Sdr
open Bmc Bmc.Wire Bmc.Prim

/-- every index the packed 6-bit loop uses for character `i < c` lies within the `c - c/4` bytes checked -/
theorem char6_pure (d : GoSlice) (c i : Nat) (hi : i < c) (hl : c - c / 4 ≤ d.len) :
    char6 d i = R.ok (char6P d.vis i) := by
  unfold char6 char6P off6
  by_cases h0 : i % 4 = 0
  · simp only [h0, if_true]
    rw [GoSlice.idx_ok _ _ (by split <;> omega)]
    rfl
  · by_cases h1 : i % 4 = 1
    · simp only [h1, if_true, if_false, show (1 : Nat) = 0 ↔ False by decide]
      rw [GoSlice.idx_ok _ _ (by split <;> omega), GoSlice.idx_ok _ _ (by split <;> omega)]
      rfl
    · by_cases h2 : i % 4 = 2
      · simp only [h2, if_true, if_false, show (2 : Nat) = 0 ↔ False by decide, show (2 : Nat) = 1 ↔ False by decide]
        rw [GoSlice.idx_ok _ _ (by split <;> omega), GoSlice.idx_ok _ _ (by split <;> omega)]
        rfl
      · simp only [h0, h1, h2, if_false]
        rw [GoSlice.idx_ok _ _ (by split <;> omega)]
        rfl

theorem loop6_pure (d : GoSlice) (c : Nat) (hl : c - c / 4 ≤ d.len) (n i : Nat) (h : i + n ≤ c) :
    loop6 d i n = R.ok ((List.range' i n).map (char6P d.vis)) := by
  induction n generalizing i with
  | zero => rfl
  | succ n ih =>
    simp only [loop6]
    rw [char6_pure d c i (by omega) hl, ih (i + 1) (by omega)]
    simp [List.range'_succ]

/-- `decodePacked6BitAscii` on ANY data and count: an error or a value, determined by the visible bytes -/
theorem decode6Go_pure (d : GoSlice) (c : Nat) : decode6Go d c = R.ofOption (dec6P d.vis c) := by
  unfold decode6Go dec6P
  simp only [GoSlice.vis_length]
  split
  · rfl
  · rw [loop6_pure d c (by omega) c 0 (by omega)]
    rfl

theorem idDecoder_pure (enc : UInt8) (d : GoSlice) (c : Nat) :
    idDecoder enc d c = R.ofOption (idPure enc d.vis c) := by
  unfold idDecoder idPure
  split
  · exact bcdPlusGo_spec d c
  · split
    · exact decode6Go_pure d c
    · split
      · exact latin1Go_spec d c
      · rfl

/-- no decoder reports more bytes consumed than it was given -/
theorem idPure_le (enc : UInt8) (b : Bytes) (c : Nat) (r : Bytes × Nat) (h : idPure enc b c = some r) : r.2 ≤ b.length := by
  unfold idPure at h
  split at h
  · unfold Spec.bcdPlus at h
    split at h
    · cases h
    · cases h; simp only; omega
  · split at h
    · unfold dec6P at h
      split at h
      · cases h
      · cases h; simp only; omega
    · split at h
      · unfold Spec.latin1 at h
        split at h
        · cases h; simp
        · split at h
          · cases h
          · split at h
            · cases h
            · cases h; simp only; omega
      · cases h

end Bmc.Lemmas.Sdr
