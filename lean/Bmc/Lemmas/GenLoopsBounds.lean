import Bmc.Lemmas.GenLoops
import Bmc.Lemmas.MessageRefine
/-! What the message decoder produces fits the fixed-width fields of the regenerated structures; projections of the field
    correspondences. (Shared by the in-session and the session-less instantiations; nothing here mentions a translated function.) -/
namespace Bmc.Lemmas.GenLoops
open Bmc Bmc.Wire Bmc.Crypto Bmc.Proto Bmc.GoOrch Bmc.GoLoops Bmc.Gen.Loops

theorem three_lt (a b c : UInt8) : a.toNat + 256 * b.toNat + 65536 * c.toNat < 4294967296 := by
  have := a.toNat_lt; have := b.toNat_lt; have := c.toNat_lt; omega

theorem msg_decode_ent_lt (b : Bytes) (m : Message) (h : Message.decode 8 b = .ok m) : m.enterprise < 4294967296 := by
  unfold Message.decode at h
  simp only [] at h
  repeat' split at h
  all_goals first
    | (cases h; done)
    | (injection h with h; subst h; first | exact three_lt _ _ _ | (simp only []; omega))

theorem msg_decodeGo_ent_lt (prev : Message) (d : GoSlice) (m : Message) (h : Message.decodeGo 8 prev d = .ok m) : m.enterprise < 4294967296 := by
  rw [Message.decodeGo_refines] at h
  cases hd : Message.decode 8 d.vis with
  | error e => rw [hd] at h; simp [R.ofExcept] at h
  | ok v => rw [hd] at h; simp [R.ofExcept] at h; subst h; exact msg_decode_ent_lt _ _ hd

theorem v2Of_auth (v : V2Session) (a b : Opaque) : (v2Of v a b).authenticated = v.authenticated := rfl
theorem v2Of_id (v : V2Session) (a b : Opaque) : (v2Of v a b).id = UInt32.ofNat v.id := rfl
theorem msgOf_cc (m : Message) : (msgOf m).completionCode = m.completionCode := rfl

end Bmc.Lemmas.GenLoops
