import Bmc.Gen.Enc
import Bmc.Wire.Requests
import Bmc.Wire.C08Encode
/-! Helper lemmas for `Proofs/GenEnc.lean`: the serialisers REGENERATED from the Go source (`Bmc/Gen/Enc.lean`, byte arrays of
    indeterminate content written index by index, fixed-width Go arithmetic) against the hand-written encoder models
    (`Bmc/Wire/*.lean`, list concatenation, arithmetic in ℕ); and `toModel`: the structure the translator emits for a Go
    layer (one field per Go field) read as the hand model's arguments (field renaming, `toNat` of the wider integers). -/
namespace Bmc.Lemmas.GenEnc
open Bmc Bmc.Wire Bmc.GoEnc

/-! ## little-endian bytes -/

theorem u16_b0 (v : UInt16) : v.toUInt8 = UInt8.ofNat (v.toNat % 256) := by
  apply UInt8.toNat_inj.mp; simp
theorem u16_b1 (v : UInt16) : (v >>> 8).toUInt8 = UInt8.ofNat (v.toNat / 256 % 256) := by
  apply UInt8.toNat_inj.mp; simp [Nat.shiftRight_eq_div_pow]
theorem u32_b0 (v : UInt32) : v.toUInt8 = UInt8.ofNat (v.toNat % 256) := by
  apply UInt8.toNat_inj.mp; simp
theorem u32_b1 (v : UInt32) : (v >>> 8).toUInt8 = UInt8.ofNat (v.toNat / 256 % 256) := by
  apply UInt8.toNat_inj.mp; simp [Nat.shiftRight_eq_div_pow]
theorem u32_b2 (v : UInt32) : (v >>> 16).toUInt8 = UInt8.ofNat (v.toNat / 65536 % 256) := by
  apply UInt8.toNat_inj.mp; simp [Nat.shiftRight_eq_div_pow]
theorem u32_b3 (v : UInt32) : (v >>> 24).toUInt8 = UInt8.ofNat (v.toNat / 16777216 % 256) := by
  apply UInt8.toNat_inj.mp; simp [Nat.shiftRight_eq_div_pow]

/-- `binary.LittleEndian.PutUint16` writes the model's `putLE16` -/
theorem le16_eq (v : UInt16) : leBytes16 v = putLE16 v.toNat := by
  unfold leBytes16; rw [u16_b1, u16_b0]; rfl
/-- `binary.LittleEndian.PutUint32` writes the model's `putLE32` -/
theorem le32_eq (v : UInt32) : leBytes32 v = putLE32 v.toNat := by
  unfold leBytes32; rw [u32_b1, u32_b2, u32_b3, u32_b0]; rfl

/-! ## windows of indeterminate content, as cons-lists -/

theorem fresh_zero (s : Bytes) : fresh s 0 = [] := rfl
theorem fresh_succ (s : Bytes) (n : Nat) : fresh s (n + 1) = s.headD 0 :: fresh s.tail n := rfl
theorem length_fresh (s : Bytes) (n : Nat) : (fresh s n).length = n := by
  induction n generalizing s with
  | zero => rfl
  | succ n ih => simp [fresh, ih]

theorem setB_zero (a : UInt8) (l : Bytes) (v : UInt8) : setB (a :: l) 0 v = .ok (v :: l) := by simp [setB]
theorem setB_succ (a : UInt8) (l : Bytes) (i : Nat) (v : UInt8) :
    setB (a :: l) (i + 1) v = (do let l' ← setB l i v; pure (a :: l')) := by
  unfold setB
  by_cases h : i < l.length <;> simp [h]
theorem getB_zero (a : UInt8) (l : Bytes) : getB (a :: l) 0 = .ok a := by simp [getB]
theorem getB_succ (a : UInt8) (l : Bytes) (i : Nat) : getB (a :: l) (i + 1) = getB l i := by
  unfold getB
  by_cases h : i < l.length <;> simp [h]

theorem splice_zero (w bs : Bytes) : splice w 0 bs = bs ++ w.drop bs.length := by simp [splice]
theorem splice_succ (a : UInt8) (w bs : Bytes) (lo : Nat) : splice (a :: w) (lo + 1) bs = a :: splice w lo bs := by
  simp [splice, Nat.add_right_comm]

/-- evaluate a regenerated serialiser whose window has a known number of leading bytes: the window becomes an explicit
    cons-list, every index / slice / little-endian write is computed, the model's `putLE16/32` are unfolded alike -/
macro "enc_simp" : tactic => `(tactic|
  simp [fresh_zero, fresh_succ, setB_zero, setB_succ, getB_zero, getB_succ, put16, put32, copyInto, GoEnc.slice, bounds,
    splice_zero, splice_succ, le16_eq, le32_eq, putLE16, putLE32, GoEnc.nat])

theorem fresh_add (s : Bytes) (a b : Nat) : fresh s (a + b) = fresh s a ++ fresh (s.drop a) b := by
  induction a generalizing s with
  | zero => simp [fresh_zero]
  | succ a ih =>
    rw [Nat.add_right_comm, fresh_succ, fresh_succ, ih]
    simp

/-! ## windows with a symbolic tail: the bounds-checked operations under side conditions discharged by `omega` -/

theorem bounds_ok (w : Bytes) (lo hi : Nat) (h1 : lo ≤ hi) (h2 : hi ≤ w.length) : bounds w lo hi = .ok () := by
  unfold bounds
  have a : ¬ hi < lo := by omega
  have b : ¬ w.length < hi := by omega
  simp [a, b]
theorem put16_ok (w : Bytes) (lo hi : Nat) (v : UInt16) (h1 : lo + 2 ≤ hi) (h2 : hi ≤ w.length) :
    put16 w lo hi v = .ok (splice w lo (putLE16 v.toNat)) := by
  unfold put16
  have c : ¬ hi - lo < 2 := by omega
  simp [bounds_ok w lo hi (by omega) h2, c, le16_eq]
theorem put32_ok (w : Bytes) (lo hi : Nat) (v : UInt32) (h1 : lo + 4 ≤ hi) (h2 : hi ≤ w.length) :
    put32 w lo hi v = .ok (splice w lo (putLE32 v.toNat)) := by
  unfold put32
  have c : ¬ hi - lo < 4 := by omega
  simp [bounds_ok w lo hi (by omega) h2, c, le32_eq]
theorem copyInto_ok (w : Bytes) (lo hi : Nat) (src : Bytes) (h1 : lo ≤ hi) (h2 : hi ≤ w.length) :
    copyInto w lo hi src = .ok (splice w lo (src.take (hi - lo))) := by
  unfold copyInto
  simp [bounds_ok w lo hi h1 h2]
theorem slice_ok (w : Bytes) (lo hi : Nat) (h1 : lo ≤ hi) (h2 : hi ≤ w.length) :
    GoEnc.slice w lo hi = .ok ((w.drop lo).take (hi - lo)) := by
  unfold GoEnc.slice
  simp [bounds_ok w lo hi h1 h2]

/-- side conditions about the length of a window given as a cons-list with a symbolic tail -/
macro "len_omega" : tactic => `(tactic|
  ((try simp only [List.length_cons, List.length_append, List.length_nil, length_fresh, List.length_take, List.length_drop]); omega))

/-- `enc_simp` with a fixed lemma set (fast on long windows): the window becomes an explicit cons-list in front of its
    symbolic tail, every write is computed, bounds are discharged by `omega` -/
syntax "enc_only" ("[" Lean.Parser.Tactic.simpLemma,* "]")? : tactic
macro_rules
  | `(tactic| enc_only) => `(tactic| enc_only [])
  | `(tactic| enc_only [$extra,*]) => `(tactic|
  simp (disch := len_omega) only [fresh_zero, fresh_succ, List.cons_append, List.nil_append, List.append_nil, List.append_assoc,
    setB_zero, setB_succ, getB_zero, getB_succ, R.bind_ok, R.pure_eq, put16_ok, put32_ok, copyInto_ok, slice_ok,
    splice_zero, splice_succ, putLE16, putLE32, List.drop_succ_cons, List.drop_zero, List.take_succ_cons, List.take_zero,
    List.length_cons, List.length_nil, Nat.reduceAdd, Nat.reduceSub, ↓reduceIte, Bool.not_false, Bool.not_true,
    Bool.false_eq_true, if_true, if_false, R.ofExcept_ok, R.ofExcept_error, Except.map, List.take_length, List.drop_length,
    $extra,*])

theorem cons_of_length_succ (l : Bytes) (n : Nat) (h : l.length = n + 1) : ∃ a t, l = a :: t ∧ t.length = n := by
  cases l with
  | nil => simp at h
  | cons a t => exact ⟨a, t, rfl, by simpa using h⟩

/-- a Go `[16]byte` read as the list of its sixteen elements -/
theorem list16 (l : Bytes) (h : l.length = 16) : ∃ a0 a1 a2 a3 a4 a5 a6 a7 a8 a9 a10 a11 a12 a13 a14 a15 : UInt8, l = [a0, a1, a2, a3, a4, a5, a6, a7, a8, a9, a10, a11, a12, a13, a14, a15] := by
  obtain ⟨a0, t0, rfl, h0⟩ := cons_of_length_succ _ 15 h
  obtain ⟨a1, t1, rfl, h1⟩ := cons_of_length_succ _ 14 h0
  obtain ⟨a2, t2, rfl, h2⟩ := cons_of_length_succ _ 13 h1
  obtain ⟨a3, t3, rfl, h3⟩ := cons_of_length_succ _ 12 h2
  obtain ⟨a4, t4, rfl, h4⟩ := cons_of_length_succ _ 11 h3
  obtain ⟨a5, t5, rfl, h5⟩ := cons_of_length_succ _ 10 h4
  obtain ⟨a6, t6, rfl, h6⟩ := cons_of_length_succ _ 9 h5
  obtain ⟨a7, t7, rfl, h7⟩ := cons_of_length_succ _ 8 h6
  obtain ⟨a8, t8, rfl, h8⟩ := cons_of_length_succ _ 7 h7
  obtain ⟨a9, t9, rfl, h9⟩ := cons_of_length_succ _ 6 h8
  obtain ⟨a10, t10, rfl, h10⟩ := cons_of_length_succ _ 5 h9
  obtain ⟨a11, t11, rfl, h11⟩ := cons_of_length_succ _ 4 h10
  obtain ⟨a12, t12, rfl, h12⟩ := cons_of_length_succ _ 3 h11
  obtain ⟨a13, t13, rfl, h13⟩ := cons_of_length_succ _ 2 h12
  obtain ⟨a14, t14, rfl, h14⟩ := cons_of_length_succ _ 1 h13
  obtain ⟨a15, t15, rfl, h15⟩ := cons_of_length_succ _ 0 h14
  have := List.eq_nil_of_length_eq_zero h15; subst this
  exact ⟨a0, a1, a2, a3, a4, a5, a6, a7, a8, a9, a10, a11, a12, a13, a14, a15, rfl⟩

end Bmc.Lemmas.GenEnc

namespace Bmc.Gen.Enc
open Bmc Bmc.Wire Bmc.Wire.Req

def GetChannelAuthenticationCapabilitiesReq.toModel (g : GetChannelAuthenticationCapabilitiesReq) : AuthCaps :=
  { extendedData := g.extendedData, channel := g.channel, maxPrivilegeLevel := g.maxPrivilegeLevel }

def GetChannelCipherSuitesReq.toModel (g : GetChannelCipherSuitesReq) : CipherSuites :=
  { channel := g.channel, payloadType := g.payloadType, listIndex := g.listIndex }

def GetSessionInfoReq.toModel (g : GetSessionInfoReq) : SessionInfo :=
  { index := g.index, handle := g.handle, id := g.id.toNat }

def GetDCMISensorInfoReq.toModel (g : GetDCMISensorInfoReq) : DcmiSensorInfo :=
  { type := g.type_, entity := g.entity, instance_ := g.instance_, instanceStart := g.instanceStart }

def RAKPMessage3.toModel (g : RAKPMessage3) : Rakp3 :=
  { tag := g.tag, status := g.status, bmcSessionID := g.managedSystemSessionID.toNat, authCode := g.authCode }

def RAKPMessage1.toModel (g : RAKPMessage1) : Rakp1 :=
  { tag := g.tag, bmcSessionID := g.managedSystemSessionID.toNat, random := g.remoteConsoleRandom
    privilegeLevelLookup := g.privilegeLevelLookup, maxPrivilegeLevel := g.maxPrivilegeLevel, username := g.username }

/-- the same Go value as the decoding side's model of the layer (C08; `BaseLayer` is not touched by the serialiser) -/
def RAKPMessage1.toSetup (g : RAKPMessage1) (contents : Bytes) : Wire.Setup.RAKP1 :=
  { tag := g.tag, bmcSID := g.managedSystemSessionID.toNat, consoleRandom := g.remoteConsoleRandom
    lookup := g.privilegeLevelLookup, maxPriv := g.maxPrivilegeLevel, username := g.username, contents := contents }

/-- `BaseLayer` (`contents`, `payload`) is not touched by the serialiser -/
def V1Session.toModel (g : Gen.Enc.V1Session) (contents payload : Bytes) : Wire.V1Session :=
  { authType := g.authType, sequence := g.sequence.toNat, id := g.id.toNat, authCode := g.authCode, length := g.length
    contents := contents, payload := payload }

/-- `BaseLayer` (`contents`, `payload`) is not touched by the serialiser -/
def Message.toModel (g : Gen.Enc.Message) (contents payload : Bytes) : Wire.Message :=
  { function := g.operation.function, body := g.operation.body, enterprise := g.operation.enterprise.toNat
    command := g.operation.command, remoteAddress := g.remoteAddress, remoteLUN := g.remoteLUN, checksum1 := g.checksum1
    localAddress := g.localAddress, localLUN := g.localLUN, sequence := g.sequence, completionCode := g.completionCode
    checksum2 := g.checksum2, contents := contents, payload := payload }

/-- `BaseLayer` (`contents`, `payload`) is not touched by the serialiser; `IntegrityAlgorithm` is the theorem's `mac` -/
def V2Session.toModel (g : Gen.Enc.V2Session) (contents payload : Bytes) : Wire.V2Session :=
  { encrypted := g.encrypted, authenticated := g.authenticated, payloadType := g.payloadDescriptor.payloadType
    enterprise := g.payloadDescriptor.enterprise.toNat, payloadID := g.payloadDescriptor.payloadID.toNat
    id := g.id.toNat, sequence := g.sequence.toNat, length := g.length.toNat, pad := g.pad, signature := g.signature
    contents := contents, payload := payload }

/-- `Period` is a `time.Duration`: nanoseconds -/
def GetPowerReadingReq.toModel (g : GetPowerReadingReq) : PowerReading := { mode := g.mode, periodNs := g.period }

def OpenSessionReq.toModel (g : OpenSessionReq) : OpenSession :=
  { tag := g.tag, maxPrivilegeLevel := g.maxPrivilegeLevel, sessionID := g.sessionID.toNat
    authWildcard := g.authenticationPayload.wildcard, auth := g.authenticationPayload.algorithm
    integWildcard := g.integrityPayload.wildcard, integ := g.integrityPayload.algorithm
    confWildcard := g.confidentialityPayload.wildcard, conf := g.confidentialityPayload.algorithm }

end Bmc.Gen.Enc

namespace Bmc.Lemmas.GenEnc
open Bmc Bmc.Wire Bmc.GoEnc Bmc.Gen.Enc

/-! ## the v2.0 session trailer: integrity pad arithmetic and the 0xFF loop -/

theorem pad_eq (x : Nat) :
    UInt8.ofInt (Int.tmod (((4 : Nat) : Int) - (((x % 4) : Nat) : Int)) ((4 : Nat) : Int)) = UInt8.ofNat ((4 - x % 4) % 4) := by
  have h : x % 4 < 4 := Nat.mod_lt _ (by decide)
  generalize x % 4 = k at h
  match k, h with
  | 0, _ => decide
  | 1, _ => decide
  | 2, _ => decide
  | 3, _ => decide

theorem toNat_ofNat_lt (p : Nat) (h : p < 256) : (UInt8.ofNat p).toNat = p := by
  simp [UInt8.toNat_ofNat']; omega

theorem drop_fresh_add (s : Bytes) (n k : Nat) : (fresh s (n + k)).drop n = fresh (s.drop n) k := by
  rw [fresh_add, List.drop_append_of_le_length (by rw [length_fresh]; exact Nat.le_refl _)]
  simp [length_fresh]

/-- the integrity-pad loop `for i := 0; i < n; i++ { w[i] = 0xff }` -/
theorem fill_ff (w : Bytes) (n : Nat) (h : n ≤ w.length) :
    List.foldlM (fun w i => (do let w ← setB w i (255 : UInt8); pure w)) w (List.range n)
      = R.ok (List.replicate n 255 ++ w.drop n) := by
  induction n with
  | zero => simp
  | succ n ih =>
    rw [List.range_succ, List.foldlM_append, ih (by omega)]
    have hl : n < (List.replicate n (255 : UInt8) ++ w.drop n).length := by simp; omega
    simp only [R.bind_ok, List.foldlM_cons, List.foldlM_nil, setB, hl, if_true, R.pure_eq]
    congr 1
    apply List.ext_getElem?
    intro i
    simp [List.getElem?_set, List.getElem?_append, List.getElem?_replicate]
    by_cases h1 : i < n
    · simp [h1, show i < n + 1 by omega]
    · by_cases h2 : i = n
      · subst h2; simp; omega
      · have e1 : ¬ 0 = i - n := by omega
        have e2 : ¬ i < n + 1 := by omega
        simp only [h1, e1, e2, if_false]
        congr 1; omega

theorem setB_replicate_0 (n : Nat) (c x v : UInt8) (q : Bytes) :
    setB (List.replicate n c ++ x :: q) n v = .ok (List.replicate n c ++ v :: q) := by
  unfold setB
  simp
theorem setB_replicate_1 (n : Nat) (c x y v : UInt8) (q : Bytes) :
    setB (List.replicate n c ++ x :: y :: q) (n + 1) v = .ok (List.replicate n c ++ x :: v :: q) := by
  unfold setB
  simp

theorem fill_ff' (w : Bytes) (n : Nat) (h : n ≤ w.length) :
    List.foldlM (fun w i => setB w i (255 : UInt8)) w (List.range n) = R.ok (List.replicate n 255 ++ w.drop n) := by
  have := fill_ff w n h
  simpa using this
theorem drop_fresh_append (s t : Bytes) (n : Nat) : List.drop n (fresh s n ++ t) = t := by
  rw [List.drop_append_of_le_length (by rw [length_fresh]; exact Nat.le_refl _)]
  simp [length_fresh]

theorem nat_natCast (n : Nat) : GoEnc.nat ((n : Nat) : Int) = .ok n := by
  unfold GoEnc.nat; simp
/-- the regenerated `checksum` / `NetworkFunction.IsRequest` are the model's -/
theorem checksum_eq (b : Bytes) : ipmi_checksum b = Prim.checksum b := rfl
theorem isRequest_eq (f : UInt8) : NetworkFunction_IsRequest f = isRequest f := rfl

/-- the three `…Payload.Serialise` callees append the model's `algPayload`, whatever the 8 bytes held before -/
theorem auth_serialise (p : AuthenticationPayload) (stale buf : Bytes) :
    AuthenticationPayload.Serialise p stale buf = .ok (buf ++ algPayload 0 p.wildcard p.algorithm, stale.drop 8) := by
  unfold AuthenticationPayload.Serialise algPayload
  cases h : p.wildcard <;> enc_simp
theorem integ_serialise (p : IntegrityPayload) (stale buf : Bytes) :
    IntegrityPayload.Serialise p stale buf = .ok (buf ++ algPayload 1 p.wildcard p.algorithm, stale.drop 8) := by
  unfold IntegrityPayload.Serialise algPayload
  cases h : p.wildcard <;> enc_simp
theorem conf_serialise (p : ConfidentialityPayload) (stale buf : Bytes) :
    ConfidentialityPayload.Serialise p stale buf = .ok (buf ++ algPayload 2 p.wildcard p.algorithm, stale.drop 8) := by
  unfold ConfidentialityPayload.Serialise algPayload
  cases h : p.wildcard <;> enc_simp

end Bmc.Lemmas.GenEnc
