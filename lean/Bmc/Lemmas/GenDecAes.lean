import Bmc.Gen.Dec
import Bmc.Lemmas.GenDecLoop
import Bmc.Lemmas.AesRefine
import Bmc.Lemmas.GenDec
/-! Lemmas identifying the REGENERATED `ipmi.AES128CBC.DecodeFromBytes` (`Bmc.Gen.Dec.AES128CBC.decodeGo`, CBC decryption a
    parameter) with the hand model `Wire.AESLayer.decodeGo`. -/
namespace Bmc.Gen.Dec
def AES128CBC.toModel (g : AES128CBC) : Bmc.Wire.AESLayer := { contents := g.contents, payload := g.payload }
end Bmc.Gen.Dec
namespace Bmc.Lemmas.GenDec
open Bmc Bmc.Gen.Dec Bmc.Crypto

/-- `CryptBlocks(data[16:], data[16:])` on whole blocks: the slice keeps its length; it denotes the IV followed by the plaintext -/
theorem crypt_ok (dec : Bytes → Bytes → Bytes) (iv : Bytes) (s : GoSlice) (hiv : iv.length = 16) (h16 : 16 ≤ s.len)
    (hmod : (s.len - 16) % 16 = 0) (hdec : (dec iv (s.vis.drop 16)).length = s.len - 16) :
    ∃ D : GoSlice, GoDec.cryptBlocksInPlace dec 16 iv s 16 = .ok D ∧ D.len = s.len ∧
      D.vis = s.vis.take 16 ++ dec iv (s.vis.drop 16) := by
  unfold GoDec.cryptBlocksInPlace
  have h1 : ¬ iv.length ≠ 16 := by omega
  have h2 : ¬ (s.len - 16) % 16 ≠ 0 := by omega
  simp only [h1, if_false, h16, dite_true, h2]
  refine ⟨_, rfl, rfl, ?_⟩
  have hv : List.drop 16 (List.take s.len s.buf) = s.vis.drop 16 := rfl
  simp only [GoSlice.vis, hv]
  have hb := s.h
  have hn : ((dec iv (s.vis.drop 16)) ++ List.replicate (s.len - 16) 0).take (s.len - 16) = dec iv (s.vis.drop 16) := by
    rw [List.take_append_of_le_length (by omega), List.take_of_length_le (by omega)]
  rw [hn]
  have e1 : (List.take 16 s.buf).length = 16 := by simp; omega
  rw [List.take_append_of_le_length (by simp; omega)]
  rw [List.take_of_length_le (by simp [hdec]; omega)]
  congr 1
  rw [List.take_take]; congr 1; omega

/-- 01, 02, … from `v` on (8-bit wrap-around) -/
def padSeq (v : UInt8) : Nat → Bytes
  | 0 => []
  | n + 1 => v :: padSeq (v + 1) n

theorem padSeq_eq (n : Nat) : ∀ k : Nat, padSeq (UInt8.ofNat k) n = (List.range' k n).map (fun i => UInt8.ofNat i) := by
  induction n with
  | zero => intro k; rfl
  | succ n ih =>
    intro k
    simp only [padSeq, List.range'_succ, List.map_cons]
    have : UInt8.ofNat k + 1 = UInt8.ofNat (k + 1) := by simp [UInt8.ofNat_add]
    rw [this, ih (k + 1)]

theorem padOk_iff (pad : Bytes) : Wire.padOk pad = decide (pad = padSeq 1 pad.length) := by
  unfold Wire.padOk
  have := padSeq_eq pad.length 1
  rw [show (UInt8.ofNat 1) = (1 : UInt8) from rfl] at this
  rw [this]
  have e : (List.range pad.length).map (fun i => UInt8.ofNat (i + 1)) = (List.range' 1 pad.length).map (fun i => UInt8.ofNat i) := by
    rw [List.range'_eq_map_range, List.map_map]
    apply List.map_congr_left
    intro i _
    simp only [Function.comp_def, Nat.add_comm]
  rw [e]
  by_cases h : pad = List.map (fun i => UInt8.ofNat i) (List.range' 1 pad.length)
  · rw [decide_eq_true h, beq_iff_eq]; exact h
  · rw [decide_eq_false h]; exact beq_eq_false_iff_ne.mpr h

theorem intRange_cast (A n : Nat) : GoDec.intRange ((A : Nat) : Int) (((A : Nat) : Int) + ((n : Nat) : Int)) = (List.range' A n).map (fun k => ((k : Nat) : Int)) := by
  unfold GoDec.intRange
  have : (((A : Nat) : Int) + ((n : Nat) : Int) - ((A : Nat) : Int)).toNat = n := by omega
  rw [this, List.range'_eq_map_range, List.map_map]
  apply List.map_congr_left
  intro k _
  simp

/-- the pad-verification loop as emitted (after the `let`s of the loop state are unfolded) -/
theorem pad_loop {ρ : Type} (D : GoSlice) (n : Nat) : ∀ (A : Nat) (v : UInt8) (r : ρ), A + n ≤ D.len →
    (List.foldlM (fun (s4 : ρ × UInt8) (i : Int) => (do
      let t5 ← GoDec.nat i
      let t6 ← D.idx t5
      if (t6 != s4.snd) = true then R.err else pure (s4.fst, s4.snd + 1))) (r, v) ((List.range' A n).map (fun k => ((k : Nat) : Int)))).map Prod.fst
      = if (D.vis.drop A).take n = padSeq v n then .ok r else .err := by
  induction n with
  | zero => intro A v r _; simp [padSeq, R.map]
  | succ n ih =>
    intro A v r hA
    simp only [List.range'_succ, List.map_cons, List.foldlM_cons]
    have hnat : GoDec.nat ((A : Nat) : Int) = .ok A := by rw [GoDec.nat_ok _ (by omega)]; simp
    simp only [hnat, R.bind_ok, GoSlice.idx_ok _ _ (by omega : A < D.len)]
    have hl : A < D.vis.length := by simp; omega
    have hd : (D.vis.drop A).take (n + 1) = D.vis.getD A 0 :: (D.vis.drop (A + 1)).take n := by
      rw [← List.getElem_cons_drop hl, List.take_succ_cons]
      simp only [List.getD_eq_getElem?_getD, List.getElem?_eq_getElem hl, Option.getD_some]
    rw [hd]
    simp only [padSeq, List.cons.injEq]
    by_cases hb : D.vis.getD A 0 = v
    · subst hb
      simp only [bne_self_eq_false, if_false, Bool.false_eq_true, true_and]
      exact ih (A + 1) _ r (by omega)
    · have hb' : (D.vis.getD A 0 != v) = true := bne_iff_ne.mpr hb
      simp only [hb', if_true, R.bind_err, hb, false_and, if_false, R.map]

/-- the regenerated decoder, with CBC decryption instantiated by the model's `cbcDec`, is the pure reference decoder -/
theorem AES128CBC_pure (C : Ops) (hC : C.Lawful) (key : Bytes) (prev : AES128CBC) (d : GoSlice) :
    (AES128CBC.decodeGo (fun iv ct => cbcDec C key (ct.length / 16) iv ct) prev d).map AES128CBC.toModel
      = R.ofExcept (Wire.AESLayer.decode C key d.vis) := by
  unfold AES128CBC.decodeGo Wire.AESLayer.decode
  simp only [GoSlice.vis_length]
  by_cases h : (d.len < 17 || d.len % 16 != 0) = true
  · have h' : ((decide (d.len < 16 + 1)) || ((d.len % 16) != 0)) = true := h
    simp only [h, if_true, R.map, R.ofExcept_error]
  · have h' : ¬ ((decide (d.len < 16 + 1)) || ((d.len % 16) != 0)) = true := h
    simp only [h, if_false, Bool.false_eq_true]
    have h17 : ¬ d.len < 17 := by simp at h; omega
    have hmod : d.len % 16 = 0 := by simp at h; omega
    simp (disch := omega) only [GoSlice.slice_ok, R.bind_ok, GoSlice.sub_vis, Nat.sub_zero, List.drop_zero]
    have hiv : (List.take 16 d.vis).length = 16 := by simp; omega
    have hpt : (cbcDec C key ((d.len - 16) / 16) (List.take 16 d.vis) (List.drop 16 d.vis)).length = d.len - 16 := by
      rw [Wire.cbcDec_len C hC _ _ _ _ hiv (by simp; omega)]; omega
    obtain ⟨D, hD, hDl, hDv⟩ := crypt_ok (fun iv ct => cbcDec C key (ct.length / 16) iv ct) (List.take 16 d.vis) d hiv (by omega) (by omega)
      (by simp only [List.length_drop, GoSlice.vis_length]; exact hpt)
    simp only [List.length_drop, GoSlice.vis_length] at hDv
    rw [hD]
    simp only [R.bind_ok, hDl]
    generalize cbcDec C key ((d.len - 16) / 16) (List.take 16 d.vis) (List.drop 16 d.vis) = pt at hpt hDv ⊢
    have hbl : (List.take 16 d.vis ++ pt).length = d.len := by simp [hpt]; omega
    generalize hbuf : List.take 16 d.vis ++ pt = buf at hbl hDv ⊢
    rw [nat_sub d.len 1 (by omega)]
    simp only [R.bind_ok]
    rw [GoSlice.idx_ok _ _ (by omega), hDv]
    simp only [R.bind_ok]
    generalize hpb : buf.getD (d.len - 1) 0 = pb
    have e16 : UInt8.ofNat 16 = (16 : UInt8) := rfl
    rw [e16]
    by_cases hgt : pb > 16
    · simp only [hgt, if_true, R.map, R.ofExcept_error]
    · simp only [hgt, if_false]
      have hle : pb.toNat ≤ 16 := by
        have : ¬ (16 : UInt8).toNat < pb.toNat := by rwa [← UInt8.lt_iff_toNat_lt]
        simpa using this
      have hA : (((d.len : Nat) : Int) - ((pb.toNat : Nat) : Int) - ((1 : Nat) : Int)) = (((d.len - pb.toNat - 1 : Nat)) : Int) := by omega
      rw [hA, intRange_cast]
      have key := pad_loop D pb.toNat (d.len - pb.toNat - 1) 1 ({ contents := List.take 16 d.vis, payload := prev.payload } : AES128CBC) (by omega)
      rw [hDv] at key
      rw [padOk_iff]
      have hpl : (List.take pb.toNat (List.drop (d.len - pb.toNat - 1) buf)).length = pb.toNat := by
        simp only [List.length_take, List.length_drop]; omega
      rw [hpl]
      generalize List.foldlM (m := R) _ (({ contents := List.take 16 d.vis, payload := prev.payload } : AES128CBC), (1 : UInt8)) _ = F at key ⊢
      by_cases hpad : List.take pb.toNat (List.drop (d.len - pb.toNat - 1) buf) = padSeq 1 pb.toNat
      · rw [if_pos hpad] at key
        cases F with
        | ok p =>
          simp only [R.map, R.ok.injEq] at key
          simp only [hpad, R.bind_ok, decide_true, Bool.not_true, Bool.false_eq_true, if_false, key]
          by_cases hst : d.len - pb.toNat - 1 < 16
          · have : (((d.len - pb.toNat - 1 : Nat)) : Int) < ((16 : Nat) : Int) := by omega
            simp only [hst, this, if_true, R.map, R.ofExcept_error]
          · have : ¬ (((d.len - pb.toNat - 1 : Nat)) : Int) < ((16 : Nat) : Int) := by omega
            simp only [hst, this, if_false, nat_cast, R.bind_ok]
            rw [GoSlice.slice_ok _ _ _ (by omega) (by omega)]
            simp only [R.bind_ok, R.pure_eq, R.map, GoSlice.sub_vis, hDv, R.ofExcept_ok, AES128CBC.toModel]
        | err => simp [R.map] at key
        | panic => simp [R.map] at key
        | overread => simp [R.map] at key
      · rw [if_neg hpad] at key
        cases F with
        | err => simp only [hpad, R.bind_err, decide_false, Bool.not_false, if_true, R.map, R.ofExcept_error]
        | ok p => simp [R.map] at key
        | panic => simp [R.map] at key
        | overread => simp [R.map] at key

end Bmc.Lemmas.GenDec
