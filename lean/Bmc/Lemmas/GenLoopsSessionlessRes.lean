import Bmc.Lemmas.GenLoopsSessionlessLoop
/-! Helper lemmas for `Proofs/GenLoops/BuildAndSendCommand.lean`: the translated `buildAndSendCommand` / `SendCommand` of the
    session-less connection in terms of the retry driver. -/
namespace Bmc.Lemmas.GenLoops
open Bmc Bmc.Wire Bmc.Crypto Bmc.Proto Bmc.GoOrch Bmc.GoLoops Bmc.Gen.Loops

/-- the connection once `buildAndSendCommand` has built the layer structs and serialised them -/
def slReady (c : Cmd) (name : String) (rsp : Opaque) (K : Conn Decoded) : Conn Decoded :=
  { K with layers := slSerLayers c (slLit c name rsp), buffer := slSerBytes c (slLit c name rsp) }

theorem slBuild_serfail (c : Cmd) (bd : Bytes → Bool) (name : String) (rsp : Opaque) (hf : c.reqFails = true) (fuel : Nat) (w : SW) (K : Conn Decoded) :
    obs (V2Sessionless_buildAndSendCommand (slWorld c bd) fuel (cmdOf c name rsp) (w, K))
      = (.ok (some .serialize), w, K.inbound, K.events) := by
  simp only [V2Sessionless_buildAndSendCommand]
  loop_simp
  rw [serializeLayers_eq (h := slSerialize'_fail c hf _ _ _ _)]
  loop_simp
  simp only [obs]

theorem slBuild_ok (c : Cmd) (bd : Bytes → Bool) (name : String) (rsp : Opaque) (hf : c.reqFails = false) (fuel : Nat) (w : SW) (K : Conn Decoded) :
    V2Sessionless_buildAndSendCommand (slWorld c bd) fuel (cmdOf c name rsp) (w, K)
      = (match (backoffRetry SW.wait fuel (V2Sessionless_buildAndSendCommand_func1 (slWorld c bd) (cmdOf c name rsp)) true (w, slReady c name rsp K)).1 with
         | .ok x => .ok x.2
         | r => castBad r,
         (backoffRetry SW.wait fuel (V2Sessionless_buildAndSendCommand_func1 (slWorld c bd) (cmdOf c name rsp)) true (w, slReady c name rsp K)).2) := by
  simp only [V2Sessionless_buildAndSendCommand]
  loop_simp
  rw [serializeLayers_eq (h := slSerialize'_ok c hf _ _ rfl)]
  loop_simp
  show M.cont _ (backoffRetry SW.wait fuel _ true (w, slReady c name rsp K)) = _
  generalize backoffRetry SW.wait fuel (V2Sessionless_buildAndSendCommand_func1 (slWorld c bd) (cmdOf c name rsp)) true (w, slReady c name rsp K) = x
  obtain ⟨r, st'⟩ := x
  cases r <;> rfl

/-- `SendCommand` in terms of what `buildAndSendCommand` does from the state with the timer started and the attempt counted -/
theorem V2Sessionless_SendCommand_apply {σ τ : Type} (W : World σ τ) (fuel : Nat) (c : ipmi_Command) (w : σ) (K : Conn τ) :
    V2Sessionless_SendCommand W fuel c (w, K) =
      (let b := V2Sessionless_buildAndSendCommand W fuel c
                  (w, { K with events := K.events ++ [Ev.timerStart "commandDuration"] ++ [Ev.inc "commandAttempts" [Label.str c.name]] })
       match b.1 with
       | .ok none =>
         if c.response != 0 ∧ W.decodeFromBytes c.response b.2.2.layers.message.payload = false then
           (.ok (b.2.2.layers.message.completionCode, some .response),
            (b.2.1, { b.2.2 with events := b.2.2.events ++ [Ev.inc "commandFailures" [Label.str c.name]] ++ [Ev.timerObserve "commandDuration"] }))
         else
           (.ok (b.2.2.layers.message.completionCode, none),
            (b.2.1, { b.2.2 with events := b.2.2.events ++ [Ev.timerObserve "commandDuration"] }))
       | .ok (some e) =>
         (.ok (0, some e),
          (b.2.1, { b.2.2 with events := b.2.2.events ++ [Ev.inc "commandFailures" [Label.str c.name]] ++ [Ev.timerObserve "commandDuration"] }))
       | r => (castBad r, (b.2.1, { b.2.2 with events := b.2.2.events ++ [Ev.timerObserve "commandDuration"] }))) := by
  simp only [V2Sessionless_SendCommand]
  loop_simp [deferred_apply]
  generalize V2Sessionless_buildAndSendCommand W fuel c
      (w, { K with events := K.events ++ [Ev.timerStart "commandDuration"] ++ [Ev.inc "commandAttempts" [Label.str c.name]] }) = b
  obtain ⟨r, w', K'⟩ := b
  cases r with
  | ok v =>
    cases v with
    | some e => loop_simp
    | none =>
      loop_simp
      by_cases h0 : c.response = 0
      · simp only [h0, not_true_eq_false, if_false, false_and]; loop_simp
      · by_cases hd : W.decodeFromBytes c.response K'.layers.message.payload = true
        · have hdf : decodeFromBytes W c.response K'.layers.message.payload = none := by simp [decodeFromBytes, hd]
          simp only [h0, hd, hdf, not_false_eq_true, if_true, Bool.true_eq_false, and_false, if_false]; loop_simp
        · have hd' : W.decodeFromBytes c.response K'.layers.message.payload = false := by simpa using hd
          have hdf : decodeFromBytes W c.response K'.layers.message.payload = some .response := by simp [decodeFromBytes, hd']
          simp only [h0, hd', hdf, not_false_eq_true, if_true, true_and]; loop_simp
  | _ => rfl


end Bmc.Lemmas.GenLoops
