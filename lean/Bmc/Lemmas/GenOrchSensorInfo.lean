import Bmc.Proofs.GenOrch.GetSensorMap
/-! Helper lemma for `Proofs/GenOrch/GetSensorInfo.lean`: the second half of `GetSensorInfo` (the DCMI-specific entity IDs),
    with the regenerated `getSensorMap` as a black box (its equality theorem). -/
namespace Bmc.Lemmas.GenOrchDcmi
open Bmc Bmc.GoOrch Bmc.Gen.Orch Bmc.Proto.Enum Bmc.Lemmas.GenOrch
open Bmc.Proofs.GenOrch

/-- the table `dcmiSensorEntityIDs` as regenerated is the hand model's -/
theorem dcmi_map : dcmi_dcmiSensorEntityIDs.map (·.toNat) = dcmiEntities := by decide

/-- the second half of `GetSensorInfo` -/
theorem fallback_run (b : TBmc) (junk) (fuel : Nat) (hf : 256 ≤ fuel) (log : List GetDCMISensorInfoReq)
    (cmd : GetDCMISensorInfoCmd) (ht : cmd.req.type_ = 1) :
    ((M.cont (fun (t3 : GMap) => (pure ({ inlet := mapGet t3 (64 : UInt8) [], cpu := mapGet t3 (65 : UInt8) [], baseboard := mapGet t3 (66 : UInt8) [] } : Gen.Orch.SensorInfo) : M St _))
        (dcmi_getSensorMap fuel (ansOf b junk) dcmi_dcmiSensorEntityIDs (log, cmd))).1.map viewInfo
      = RF.lift (fallback (handOf b 1)).2) ∧
    (M.cont (fun (t3 : GMap) => (pure ({ inlet := mapGet t3 (64 : UInt8) [], cpu := mapGet t3 (65 : UInt8) [], baseboard := mapGet t3 (66 : UInt8) [] } : Gen.Orch.SensorInfo) : M St _))
        (dcmi_getSensorMap fuel (ansOf b junk) dcmi_dcmiSensorEntityIDs (log, cmd))).2.1.map viewReq
      = log.map viewReq ++ (fallback (handOf b 1)).1 := by
  have key := getSensorMap_gen_eq b junk 1 fuel hf dcmi_dcmiSensorEntityIDs log cmd ht
  rw [dcmi_map] at key
  have hres := sensorMap_res (handOf b 1) dcmiEntities
  unfold fallback
  generalize dcmi_getSensorMap fuel (ansOf b junk) dcmi_dcmiSensorEntityIDs (log, cmd) = r at key ⊢
  generalize sensorMap (handOf b 1) dcmiEntities = h at key hres ⊢
  obtain ⟨r1, log', cmd'⟩ := r
  obtain ⟨l, hr⟩ := h
  obtain ⟨k1, k2, _, k4⟩ := key
  simp only at k1 k2 k4 hres
  cases r1 with
  | ok g =>
    cases hr <;> simp [RF.map] at k1
    subst k1
    simp [RF.map, k2, pick_dcmi g (k4 g rfl)]
  | err => cases hr <;> simp [RF.map] at k1 <;> simp [RF.map, k2]
  | panic => rcases hres with h | ⟨_, h⟩ <;> subst h <;> simp [RF.map] at k1
  | overread => rcases hres with h | ⟨_, h⟩ <;> subst h <;> simp [RF.map] at k1
  | outOfFuel => cases hr <;> simp [RF.map] at k1

end Bmc.Lemmas.GenOrchDcmi
