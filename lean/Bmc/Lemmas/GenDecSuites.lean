import Bmc.Gen.Dec
import Bmc.Lemmas.GenDecLoop
import Bmc.Proto.Enum
import Bmc.Lemmas.GenDecBits
/-! Lemmas identifying the REGENERATED `parseCipherSuiteRecordData` (cipher_suites.go; `Bmc.Gen.Dec.bmc_parseCipherSuiteRecordData`,
    in the monad `RF`: its three `for` loops run with fuel) with the hand model `Proto.Enum.parseRecords` the C16 / C12 theorems
    are about. -/
set_option linter.unusedVariables false
namespace Bmc.Gen.Dec
/-- a regenerated `ipmi.CipherSuiteRecord` read as the model's entry -/
def CipherSuiteRecord.toEntry (g : CipherSuiteRecord) : Bmc.Proto.Enum.Entry :=
  { id := g.cipherSuiteID.toNat, iana := g.enterprise.toNat, auth := g.cipherSuite.authenticationAlgorithm.toNat,
    integ := g.cipherSuite.integrityAlgorithm.toNat, conf := g.cipherSuite.confidentialityAlgorithm.toNat }
end Bmc.Gen.Dec
namespace Bmc.Lemmas.GenDec
open Bmc Bmc.Gen.Dec Bmc.Proto.Enum

/-- the scanning loops of `parseCipherSuiteRecordData` over the bytes from `offset` on: final offset and algorithms -/
def scanL (tag : UInt8) : Bytes → Nat → List UInt8 → Nat × List UInt8
  | [], off, acc => (off, acc)
  | b :: bs, off, acc => if b >>> 6 == tag then scanL tag bs (off + 1) (acc ++ [b &&& 63]) else (off, acc)

theorem drop_cons_facts (j : Bytes) (off : Nat) (b : UInt8) (bs : Bytes) (h : j.drop off = b :: bs) :
    off < j.length ∧ j.getD off 0 = b ∧ j.drop (off + 1) = bs := by
  have hl : off < j.length := by
    by_cases hh : off < j.length
    · exact hh
    · rw [List.drop_eq_nil_of_le (by omega)] at h; cases h
  refine ⟨hl, ?_, ?_⟩
  · have := List.getElem_cons_drop hl
    rw [h] at this
    simp only [List.cons.injEq] at this
    simp [List.getD_eq_getElem?_getD, hl, this.1]
  · have := List.getElem_cons_drop hl
    rw [h] at this
    simp only [List.cons.injEq] at this
    exact this.2

theorem drop_nil_facts (j : Bytes) (off : Nat) (h : j.drop off = []) : ¬ j.length > off := by
  intro hh
  have : (j.drop off).length = j.length - off := List.length_drop
  rw [h] at this; simp at this; omega

/-- the generated scanning loop (as emitted, `tag` = 1 for integrity, 2 for confidentiality) -/
theorem scan_loop (J : GoSlice) (tag : UInt8) : ∀ (l : Bytes) (n off : Nat) (acc : List UInt8),
    J.vis.drop off = l → l.length < n →
    GoDec.loopM n (fun (s12 : Nat × List UInt8) => (do
            let offset : Nat := s12.1
            let integrityAlgorithms : List UInt8 := s12.2
            let t14 ← (if J.len > offset then (do
              let t13 ← RF.lift (J.idx offset)
              pure ((t13 >>> (6 : UInt8)) == tag)) else pure false)
            if t14 then (do
              let t15 ← RF.lift (J.idx offset)
              let integrityAlgorithms : List UInt8 := (integrityAlgorithms ++ [(t15 &&& (63 : UInt8))])
              let offset : Nat := (offset + 1)
              pure (some (offset, integrityAlgorithms))) else pure none)) (off, acc)
      = RF.ok (scanL tag l off acc) := by
  intro l
  induction l with
  | nil =>
    intro n off acc hl hn
    obtain ⟨n, rfl⟩ : ∃ m, n = m + 1 := ⟨n - 1, by simp at hn; omega⟩
    have := drop_nil_facts _ _ hl
    simp only [GoSlice.vis_length] at this
    rw [loopM_succ]
    simp only [this, if_false, RF.pure_eq, RF.bind_ok, Bool.false_eq_true, scanL]
  | cons b bs ih =>
    intro n off acc hl hn
    obtain ⟨n, rfl⟩ : ∃ m, n = m + 1 := ⟨n - 1, by simp at hn; omega⟩
    obtain ⟨h1, h2, h3⟩ := drop_cons_facts _ _ _ _ hl
    simp only [GoSlice.vis_length] at h1
    rw [loopM_succ]
    have hgt : J.len > off := h1
    simp only [hgt, if_true, GoSlice.idx_ok _ _ h1, h2, RF.lift_ok, RF.bind_ok, RF.pure_eq, scanL]
    by_cases ht : (b >>> 6 == tag) = true
    · simp only [ht, if_true, RF.bind_ok]
      exact ih n (off + 1) _ h3 (by simp at hn; omega)
    · simp only [ht, if_false, Bool.false_eq_true, RF.bind_ok]

/-- the model's scanning loop with enough fuel -/
theorem scan_hand (j : Bytes) (tag : UInt8) : ∀ (l : Bytes) (f off : Nat) (acc : List UInt8),
    j.drop off = l → l.length ≤ f →
    scan j tag f off (acc.map UInt8.toNat) = .ok ((scanL tag l off acc).1, (scanL tag l off acc).2.map UInt8.toNat) := by
  intro l
  induction l with
  | nil =>
    intro f off acc hl _
    have := drop_nil_facts _ _ hl
    cases f with
    | zero => simp [scan, scanL]
    | succ f => simp [scan, scanL, this]
  | cons b bs ih =>
    intro f off acc hl hf
    obtain ⟨f, rfl⟩ : ∃ m, f = m + 1 := ⟨f - 1, by simp at hf; omega⟩
    obtain ⟨h1, h2, h3⟩ := drop_cons_facts _ _ _ _ hl
    have hb : bidx j off = .ok b := by
      unfold bidx; rw [GoSlice.idx_ok _ _ (by simpa using h1)]; simp only [GoSlice.vis_ofBytes, h2]
    simp only [scan, h1, if_true, hb, R.bind_ok, scanL]
    by_cases ht : (b >>> 6 == tag) = true
    · simp only [ht, if_true]
      have := ih f (off + 1) (acc ++ [b &&& 63]) h3 (by simp at hf; omega)
      simp only [List.map_append, List.map_cons, List.map_nil] at this
      exact this
    · simp only [ht, if_false, Bool.false_eq_true]

theorem scanL_le (tag : UInt8) : ∀ (l : Bytes) (off : Nat) (acc : List UInt8), (scanL tag l off acc).1 ≤ off + l.length := by
  intro l
  induction l with
  | nil => intro off acc; simp [scanL]
  | cons b bs ih =>
    intro off acc
    simp only [scanL]
    split
    · have := ih (off + 1) (acc ++ [b &&& 63]); simp; omega
    · simp

theorem scanL_ge (tag : UInt8) : ∀ (l : Bytes) (off : Nat) (acc : List UInt8), off ≤ (scanL tag l off acc).1 := by
  intro l
  induction l with
  | nil => intro off acc; simp [scanL]
  | cons b bs ih =>
    intro off acc
    simp only [scanL]
    split
    · have := ih (off + 1) (acc ++ [b &&& 63]); omega
    · simp


theorem foldlM_eq_ok {σ α : Type} (f : σ → α → RF σ) (F : σ → α → σ) (h : ∀ s x, f s x = RF.ok (F s x)) (l : List α) : ∀ s : σ,
    List.foldlM f s l = RF.ok (List.foldl F s l) := by
  induction l with
  | nil => intro s; rfl
  | cons x xs ih => intro s; simp only [List.foldlM_cons, List.foldl_cons, h, RF.bind_ok]; exact ih _

def innerF (s : List CipherSuiteRecord × CipherSuiteRecord) (ca : UInt8) : List CipherSuiteRecord × CipherSuiteRecord :=
  let record := { s.2 with cipherSuite := { s.2.cipherSuite with confidentialityAlgorithm := ca } }
  (s.1 ++ [record], record)

def outerF (cas : List UInt8) (s : List CipherSuiteRecord × CipherSuiteRecord) (ia : UInt8) : List CipherSuiteRecord × CipherSuiteRecord :=
  let record := { s.2 with cipherSuite := { s.2.cipherSuite with integrityAlgorithm := ia } }
  List.foldl innerF (s.1, record) cas

/-- the two nested `range` loops as emitted -/
theorem cross_loops (recs : List CipherSuiteRecord) (rec : CipherSuiteRecord) (ias cas : List UInt8) :
    List.foldlM (m := RF) (fun s24 integrityAlgorithm => (do
            let records : List CipherSuiteRecord := s24.1
            let record : CipherSuiteRecord := s24.2
            let record := { record with cipherSuite := { record.cipherSuite with integrityAlgorithm := integrityAlgorithm } }
            let j26 ← List.foldlM (fun s25 confidentialityAlgorithm => (do
                let records : List CipherSuiteRecord := s25.1
                let record : CipherSuiteRecord := s25.2
                let record := { record with cipherSuite := { record.cipherSuite with confidentialityAlgorithm := confidentialityAlgorithm } }
                let records : List CipherSuiteRecord := (records ++ [record])
                pure (records, record))) (records, record) (cas)
            let records : List CipherSuiteRecord := j26.1
            let record : CipherSuiteRecord := j26.2
            pure (records, record))) (recs, rec) (ias)
      = RF.ok (List.foldl (outerF cas) (recs, rec) ias) := by
  apply foldlM_eq_ok _ (outerF cas)
  intro s ia
  have hin := foldlM_eq_ok (fun (s25 : List CipherSuiteRecord × CipherSuiteRecord) (confidentialityAlgorithm : UInt8) => (do
                let records : List CipherSuiteRecord := s25.1
                let record : CipherSuiteRecord := s25.2
                let record := { record with cipherSuite := { record.cipherSuite with confidentialityAlgorithm := confidentialityAlgorithm } }
                let records : List CipherSuiteRecord := (records ++ [record])
                pure (records, record) : RF _)) innerF (fun _ _ => rfl) cas
  simp only [hin, RF.bind_ok, outerF]
  rfl

def hdrEq (a b : CipherSuiteRecord) : Prop :=
  a.cipherSuiteID = b.cipherSuiteID ∧ a.enterprise = b.enterprise ∧
    a.cipherSuite.authenticationAlgorithm = b.cipherSuite.authenticationAlgorithm

theorem inner_spec (cas : List UInt8) : ∀ (recs : List CipherSuiteRecord) (rec : CipherSuiteRecord),
    (List.foldl innerF (recs, rec) cas).1.map CipherSuiteRecord.toEntry
        = recs.map CipherSuiteRecord.toEntry ++ cas.map (fun ca =>
            ({ id := rec.cipherSuiteID.toNat, iana := rec.enterprise.toNat, auth := rec.cipherSuite.authenticationAlgorithm.toNat,
               integ := rec.cipherSuite.integrityAlgorithm.toNat, conf := ca.toNat } : Entry)) ∧
      hdrEq (List.foldl innerF (recs, rec) cas).2 rec := by
  induction cas with
  | nil => intro recs rec; simp [hdrEq]
  | cons ca cas ih =>
    intro recs rec
    simp only [List.foldl_cons, innerF]
    obtain ⟨h1, h2⟩ := ih (recs ++ [{ rec with cipherSuite := { rec.cipherSuite with confidentialityAlgorithm := ca } }])
      { rec with cipherSuite := { rec.cipherSuite with confidentialityAlgorithm := ca } }
    refine ⟨?_, ?_⟩
    · rw [h1]; simp [CipherSuiteRecord.toEntry]
    · exact h2

theorem outer_spec (cas : List UInt8) (ias : List UInt8) : ∀ (recs : List CipherSuiteRecord) (rec : CipherSuiteRecord),
    (List.foldl (outerF cas) (recs, rec) ias).1.map CipherSuiteRecord.toEntry
        = recs.map CipherSuiteRecord.toEntry ++ cross rec.cipherSuiteID.toNat rec.enterprise.toNat
            rec.cipherSuite.authenticationAlgorithm.toNat (ias.map UInt8.toNat) (cas.map UInt8.toNat) := by
  induction ias with
  | nil => intro recs rec; simp [cross]
  | cons ia ias ih =>
    intro recs rec
    simp only [List.foldl_cons, outerF]
    obtain ⟨h1, h2, h3, h4⟩ := inner_spec cas recs { rec with cipherSuite := { rec.cipherSuite with integrityAlgorithm := ia } }
    have := ih (List.foldl innerF (recs, { rec with cipherSuite := { rec.cipherSuite with integrityAlgorithm := ia } }) cas).1
      (List.foldl innerF (recs, { rec with cipherSuite := { rec.cipherSuite with integrityAlgorithm := ia } }) cas).2
    rw [this, h1, h2, h3, h4]
    simp [cross, List.map_map, Function.comp_def]

/-- `if len(algs) == 0 { algs = append(algs, None) }` on the generated side -/
def orNoneU (l : List UInt8) : List UInt8 := if (l.length == 0) = true then l ++ [(0 : UInt8)] else l

theorem orNone_map (l : List UInt8) : orNone (l.map UInt8.toNat) = (orNoneU l).map UInt8.toNat := by
  unfold orNone orNoneU
  by_cases h : l.length = 0
  · simp [h]
  · simp [h]

theorem bidx_ok (j : Bytes) (i : Nat) (h : i < j.length) : bidx j i = .ok (j.getD i 0) := by
  unfold bidx; rw [GoSlice.idx_ok _ _ (by simpa using h)]; simp only [GoSlice.vis_ofBytes]

/-- what follows the `switch` in one round of the outer loop, as emitted -/
def tailG (joined : GoSlice) (records : List CipherSuiteRecord) (record : CipherSuiteRecord) (offset : Nat) :
    RF (Option (GoSlice × List CipherSuiteRecord)) := (do
        let t9 ← RF.lift (joined.idx 1)
        let record := { record with cipherSuiteID := t9 }
        let t10 ← RF.lift (joined.idx offset)
        if ((t10 >>> (6 : UInt8)) != (0 : UInt8)) then RF.err else
        let t11 ← RF.lift (joined.idx offset)
        let record := { record with cipherSuite := { record.cipherSuite with authenticationAlgorithm := t11 } }
        let offset : Nat := (offset + 1)
        let integrityAlgorithms : List UInt8 := ([] : List UInt8)
        let j16 ← GoDec.loopM (joined.len + 1) (fun s12 => (do
            let offset : Nat := s12.1
            let integrityAlgorithms : List UInt8 := s12.2
            let t14 ← (if joined.len > offset then (do
              let t13 ← RF.lift (joined.idx offset)
              pure ((t13 >>> (6 : UInt8)) == (1 : UInt8))) else pure false)
            if t14 then (do
              let t15 ← RF.lift (joined.idx offset)
              let integrityAlgorithms : List UInt8 := (integrityAlgorithms ++ [(t15 &&& (63 : UInt8))])
              let offset : Nat := (offset + 1)
              pure (some (offset, integrityAlgorithms))) else pure none)) (offset, integrityAlgorithms)
        let offset : Nat := j16.1
        let integrityAlgorithms : List UInt8 := j16.2
        let j17 ← (if (integrityAlgorithms.length == 0) then (do
            let integrityAlgorithms : List UInt8 := (integrityAlgorithms ++ [(0 : UInt8)])
            pure integrityAlgorithms) else (do
            pure integrityAlgorithms))
        let integrityAlgorithms : List UInt8 := j17
        let confidentialityAlgorithms : List UInt8 := ([] : List UInt8)
        let j22 ← GoDec.loopM (joined.len + 1) (fun s18 => (do
            let offset : Nat := s18.1
            let confidentialityAlgorithms : List UInt8 := s18.2
            let t20 ← (if joined.len > offset then (do
              let t19 ← RF.lift (joined.idx offset)
              pure ((t19 >>> (6 : UInt8)) == (2 : UInt8))) else pure false)
            if t20 then (do
              let t21 ← RF.lift (joined.idx offset)
              let confidentialityAlgorithms : List UInt8 := (confidentialityAlgorithms ++ [(t21 &&& (63 : UInt8))])
              let offset : Nat := (offset + 1)
              pure (some (offset, confidentialityAlgorithms))) else pure none)) (offset, confidentialityAlgorithms)
        let offset : Nat := j22.1
        let confidentialityAlgorithms : List UInt8 := j22.2
        let j23 ← (if (confidentialityAlgorithms.length == 0) then (do
            let confidentialityAlgorithms : List UInt8 := (confidentialityAlgorithms ++ [(0 : UInt8)])
            pure confidentialityAlgorithms) else (do
            pure confidentialityAlgorithms))
        let confidentialityAlgorithms : List UInt8 := j23
        let j27 ← List.foldlM (fun s24 integrityAlgorithm => (do
            let records : List CipherSuiteRecord := s24.1
            let record : CipherSuiteRecord := s24.2
            let record := { record with cipherSuite := { record.cipherSuite with integrityAlgorithm := integrityAlgorithm } }
            let j26 ← List.foldlM (fun s25 confidentialityAlgorithm => (do
                let records : List CipherSuiteRecord := s25.1
                let record : CipherSuiteRecord := s25.2
                let record := { record with cipherSuite := { record.cipherSuite with confidentialityAlgorithm := confidentialityAlgorithm } }
                let records : List CipherSuiteRecord := (records ++ [record])
                pure (records, record))) (records, record) (confidentialityAlgorithms)
            let records : List CipherSuiteRecord := j26.1
            let record : CipherSuiteRecord := j26.2
            pure (records, record))) (records, record) (integrityAlgorithms)
        let records : List CipherSuiteRecord := j27.1
        let record : CipherSuiteRecord := j27.2
        let t28 ← RF.lift (joined.sliceFrom offset)
        let joined : GoSlice := t28
        pure (some (joined, records)))

/-- outcome of a round, related to the model's -/
def roundRel (J : GoSlice) (Rs : List CipherSuiteRecord) (g : RF (Option (GoSlice × List CipherSuiteRecord)))
    (h : R (List Entry × Bytes)) : Prop :=
  match h with
  | .ok (es, j') => ∃ J' R', g = RF.ok (some (J', R')) ∧ J'.vis = j' ∧ J'.len < J.len ∧
      R'.map CipherSuiteRecord.toEntry = Rs.map CipherSuiteRecord.toEntry ++ es
  | .err => g = RF.err
  | .panic => g = RF.panic
  | .overread => g = RF.overread

theorem tail_spec (J : GoSlice) (Rs : List CipherSuiteRecord) (rec : CipherSuiteRecord) (off : Nat)
    (h1 : 1 < J.len) (ho : off < J.len) (hpos : 0 < off) :
    roundRel J Rs (tailG J Rs rec off) (parseAlgs J.vis (J.vis.getD 1 0).toNat rec.enterprise.toNat off) := by
  unfold tailG parseAlgs
  have hlen : J.vis.length = J.len := GoSlice.vis_length J
  simp only [GoSlice.idx_ok _ _ h1, GoSlice.idx_ok _ _ ho, RF.lift_ok, RF.bind_ok, bidx_ok _ _ (by omega : off < J.vis.length),
    R.bind_ok]
  by_cases ha : (List.getD J.vis off 0 >>> 6 != 0) = true
  · simp only [ha, if_true, roundRel]
  · simp only [ha, if_false, Bool.false_eq_true]
    rw [scan_loop J 1 (J.vis.drop (off + 1)) (J.len + 1) (off + 1) [] rfl (by simp; omega)]
    have hs1 := scan_hand J.vis 1 (J.vis.drop (off + 1)) J.vis.length (off + 1) [] rfl (by simp)
    simp only [List.map_nil] at hs1
    rw [hs1]
    simp only [RF.bind_ok, R.bind_ok]
    generalize hS1 : scanL 1 (J.vis.drop (off + 1)) (off + 1) [] = S1
    have hle1 : S1.1 ≤ J.len := by
      have := scanL_le 1 (J.vis.drop (off + 1)) (off + 1) []
      rw [hS1] at this; simp at this; omega
    have hge1 : off + 1 ≤ S1.1 := by
      have := scanL_ge 1 (J.vis.drop (off + 1)) (off + 1) []
      rw [hS1] at this; exact this
    have hj17 : (if (S1.2.length == 0) = true then (do
            let integrityAlgorithms : List UInt8 := (S1.2 ++ [(0 : UInt8)])
            pure integrityAlgorithms) else (do
            pure S1.2) : RF (List UInt8)) = RF.ok (orNoneU S1.2) := by
      unfold orNoneU; split <;> rfl
    simp only [hj17, RF.bind_ok]
    rw [scan_loop J 2 (J.vis.drop S1.1) (J.len + 1) S1.1 [] rfl (by simp; omega)]
    have hs2 := scan_hand J.vis 2 (J.vis.drop S1.1) J.vis.length S1.1 [] rfl (by simp)
    simp only [List.map_nil] at hs2
    rw [hs2]
    simp only [RF.bind_ok, R.bind_ok]
    generalize hS2 : scanL 2 (J.vis.drop S1.1) S1.1 [] = S2
    have hle2 : S2.1 ≤ J.len := by
      have := scanL_le 2 (J.vis.drop S1.1) S1.1 []
      rw [hS2] at this; simp at this; omega
    have hge2 : S1.1 ≤ S2.1 := by
      have := scanL_ge 2 (J.vis.drop S1.1) S1.1 []
      rw [hS2] at this; exact this
    have hj23 : (if (S2.2.length == 0) = true then (do
            let confidentialityAlgorithms : List UInt8 := (S2.2 ++ [(0 : UInt8)])
            pure confidentialityAlgorithms) else (do
            pure S2.2) : RF (List UInt8)) = RF.ok (orNoneU S2.2) := by
      unfold orNoneU; split <;> rfl
    simp only [hj23, RF.bind_ok]
    simp only [cross_loops, RF.bind_ok]
    simp only [GoSlice.sliceFrom_ok _ _ hle2, RF.lift_ok, RF.pure_eq, RF.bind_ok]
    have hng : ¬ S2.1 > J.vis.length := by omega
    simp only [hng, if_false, R.pure_eq, roundRel]
    refine ⟨_, _, rfl, ?_, ?_, ?_⟩
    · simp only [GoSlice.sub_vis]
      apply List.take_of_length_le; simp
    · simp only [GoSlice.sub_len]; omega
    · rw [outer_spec]
      simp only [orNone_map]


theorem and1_cases : ∀ x : UInt8, x &&& 1 = 0 ∨ x &&& 1 = 1 := forall_uint8 (by decide +kernel)

/-- `uint32(a) + uint32(b)<<8 + uint32(c)<<16` (the enterprise number of an OEM cipher suite record) -/
theorem add_shl24 (a b c : UInt8) :
    (a.toUInt32 + (b.toUInt32 <<< 8) + (c.toUInt32 <<< 16)).toNat = a.toNat + b.toNat * 256 + c.toNat * 65536 := by
  have ha := a.toNat_lt
  have hb := b.toNat_lt
  have hc := c.toNat_lt
  simp only [UInt32.toNat_add, UInt32.toNat_shiftLeft, UInt8.toNat_toUInt32]
  simp
  rw [Nat.shiftLeft_eq, Nat.shiftLeft_eq]; omega

/-- one round of the outer loop of `parseCipherSuiteRecordData`, as emitted -/
def stepG (s1 : GoSlice × List CipherSuiteRecord) : RF (Option (GoSlice × List CipherSuiteRecord)) := (do
      let joined : GoSlice := s1.1
      let records : List CipherSuiteRecord := s1.2
      if joined.len > 0 then (do
        let t2 ← RF.lift (joined.idx 0)
        if ((t2 >>> (1 : UInt8)) != (96 : UInt8)) then RF.err else
        let record : CipherSuiteRecord := ({} : CipherSuiteRecord)
        let offset : Nat := 2
        let t3 ← RF.lift (joined.idx 0)
        let t4 : UInt8 := (t3 &&& (1 : UInt8))
        let j8 ← (if (t4 == (0 : UInt8)) then (do
            if joined.len < 3 then RF.err else
            pure (record, offset)) else (if (t4 == (1 : UInt8)) then (do
            if joined.len < 6 then RF.err else
            let t5 ← RF.lift (joined.idx 2)
            let t6 ← RF.lift (joined.idx 3)
            let t7 ← RF.lift (joined.idx 4)
            let record := { record with enterprise := (((t5).toUInt32 + ((t6).toUInt32 <<< (8 : UInt32))) + ((t7).toUInt32 <<< (16 : UInt32))) }
            let offset : Nat := (offset + 3)
            pure (record, offset)) else (do
            pure (record, offset))))
        let record : CipherSuiteRecord := j8.1
        let offset : Nat := j8.2
        tailG joined records record offset) else pure none)

theorem bmc_parse_unfold (d : GoSlice) :
    bmc_parseCipherSuiteRecordData d = (GoDec.loopM (d.len + 1) stepG (d, []) >>= fun j29 => pure j29.2) := rfl

theorem step_done (J : GoSlice) (Rs : List CipherSuiteRecord) (h : J.len = 0) : stepG (J, Rs) = RF.ok none := by
  unfold stepG
  have : ¬ J.len > 0 := by omega
  simp only [this, if_false, RF.pure_eq]

theorem step_spec (J : GoSlice) (Rs : List CipherSuiteRecord) (h : J.len > 0) :
    roundRel J Rs (stepG (J, Rs)) (parseOne J.vis) := by
  unfold stepG parseOne
  have hlen : J.vis.length = J.len := GoSlice.vis_length J
  simp only [h, if_true, GoSlice.idx_ok _ _ h, RF.lift_ok, RF.bind_ok, bidx_ok _ _ (by omega : 0 < J.vis.length), R.bind_ok]
  by_cases hs : (List.getD J.vis 0 0 >>> 1 != 96) = true
  · simp only [hs, if_true, roundRel]
  · simp only [hs, if_false, Bool.false_eq_true]
    rcases and1_cases (List.getD J.vis 0 0) with h0 | h1
    · have e0 : (List.getD J.vis 0 0 &&& 1 == 0) = true := by rw [h0]; rfl
      simp only [e0, if_true, hlen]
      by_cases h3 : J.len < 3
      · simp only [h3, if_true, RF.bind_err, roundRel]
      · simp only [h3, if_false, RF.pure_eq, RF.bind_ok, bidx_ok _ _ (by omega : 1 < J.vis.length), R.bind_ok]
        exact tail_spec J Rs {} 2 (by omega) (by omega) (by omega)
    · have e0 : (List.getD J.vis 0 0 &&& 1 == 0) = false := by rw [h1]; rfl
      have e1 : (List.getD J.vis 0 0 &&& 1 == 1) = true := by rw [h1]; rfl
      simp only [e0, e1, if_true, if_false, Bool.false_eq_true, hlen]
      by_cases h6 : J.len < 6
      · simp only [h6, if_true, RF.bind_err, roundRel]
      · simp only [h6, if_false, RF.pure_eq, RF.bind_ok, RF.lift_ok, R.bind_ok,
          GoSlice.idx_ok _ _ (by omega : 2 < J.len), GoSlice.idx_ok _ _ (by omega : 3 < J.len), GoSlice.idx_ok _ _ (by omega : 4 < J.len),
          bidx_ok _ _ (by omega : 1 < J.vis.length), bidx_ok _ _ (by omega : 2 < J.vis.length),
          bidx_ok _ _ (by omega : 3 < J.vis.length), bidx_ok _ _ (by omega : 4 < J.vis.length)]
        have := tail_spec J Rs { ({} : CipherSuiteRecord) with enterprise := (((List.getD J.vis 2 0).toUInt32 + ((List.getD J.vis 3 0).toUInt32 <<< (8 : UInt32))) + ((List.getD J.vis 4 0).toUInt32 <<< (16 : UInt32))) } 5 (by omega) (by omega) (by omega)
        simp only [add_shl24] at this
        exact this

/-- the outer loop with enough fuel on both sides -/
theorem outer_loop : ∀ (n : Nat) (J : GoSlice) (Rs : List CipherSuiteRecord) (f : Nat), J.len < n → J.len < f →
    (GoDec.loopM n stepG (J, Rs)).map (fun s => s.2.map CipherSuiteRecord.toEntry)
      = RF.lift (parseLoop f J.vis (Rs.map CipherSuiteRecord.toEntry)) := by
  intro n
  induction n with
  | zero => intro J Rs f h; omega
  | succ n ih =>
    intro J Rs f hn hf
    obtain ⟨f, rfl⟩ : ∃ m, f = m + 1 := ⟨f - 1, by omega⟩
    rw [loopM_succ]
    simp only [parseLoop, GoSlice.vis_length]
    by_cases h0 : J.len > 0
    · have hr := step_spec J Rs h0
      simp only [h0, if_true]
      cases hp : parseOne J.vis with
      | ok p =>
        rw [hp] at hr
        obtain ⟨J', R', hg, hv, hl, hR⟩ := hr
        rw [hg]
        simp only [RF.bind_ok, R.bind_ok]
        rw [ih J' R' f (by omega) (by omega), hv, hR]
      | err => rw [hp] at hr; simp only [roundRel] at hr; rw [hr]; rfl
      | panic => rw [hp] at hr; simp only [roundRel] at hr; rw [hr]; rfl
      | overread => rw [hp] at hr; simp only [roundRel] at hr; rw [hr]; rfl
    · rw [step_done J Rs (by omega)]
      simp only [h0, if_false, RF.bind_ok, RF.pure_eq, RF.map, RF.lift_ok]

end Bmc.Lemmas.GenDec
