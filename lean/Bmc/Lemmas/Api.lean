import Bmc.Proto.Api
import Bmc.Lemmas.ResponseAccepted
import Bmc.Lemmas.SessionProps
import Bmc.Lemmas.DcmiRefine
import Bmc.Lemmas.SdrRefine
import Bmc.Lemmas.SessRefine
/-! Helper lemmas for the API theorems (Proofs/C07/Api.lean): `SendCommand` + `ValidateResponse` + wrapper as a
    function of (completion code, body); the in-session call on a conforming response datagram. -/
namespace Bmc.Proto
open Bmc Bmc.Wire Bmc.Crypto

theorem R.bad_map {α β : Type} (f : α → β) (r : R α) : (r.map f).bad = r.bad := by cases r <;> rfl

theorem R.map_ofExcept_bad {α β : Type} (f : α → β) (e : Except Unit α) : ((R.ofExcept e).map f).bad = false := by
  cases e <;> rfl

/-- the response layer of every call decodes without panic or over-read, whatever the body (per-layer refinement /
    canonical-form theorems) -/
theorem decodeBody_safe (call : Call) (body : Bytes) : (call.decodeBody body).bad = false := by
  cases call <;> simp only [Call.decodeBody, R.bad_map]
  · exact (GUIDRsp.decodeGo_canon {} _).2
  · exact (AuthCapsRsp.decodeGo_canon {} _).2
  · exact (SessionInfoRsp.decodeGo_canon {} _).2
  · rw [GetDeviceIDRsp.decodeGo_refines]; exact ofExcept_safe _
  · exact (GetChassisStatusRsp.decodeGo_canon {} _).2
  · rfl
  · exact (SDRRepoInfoRsp.decodeGo_canon {} _).2
  · exact (ReserveRsp.decodeGo_canon {} _).2
  · exact (SensorReadingRsp.decodeGo_canon {} _).2
  · exact (SetPrivRsp.decodeGo_canon {} _).2
  · exact (SetPrivRsp.decodeGo_canon {} _).2
  · rfl
  · rw [PowerReading.decodeGo_refines]; exact ofExcept_safe _
  · have h := SensorInfo.decodeGo_refines {} (GoSlice.ofBytes body)
    have : ((SensorInfo.decodeGo {} (GoSlice.ofBytes body)).map SensorInfo.view).bad = false := by
      rw [h]; exact ofExcept_safe _
    rwa [R.bad_map] at this
  · rw [DcmiCap1.decodeGo_refines]; exact ofExcept_safe _
  · rw [DcmiCap2.decodeGo_refines]; exact ofExcept_safe _
  · rw [DcmiCap3.decodeGo_refines]; exact ofExcept_safe _
  · rw [DcmiCap4.decodeGo_refines]; exact ofExcept_safe _
  · rw [DcmiCap5.decodeGo_refines]; exact ofExcept_safe _

/-- code 00h: the decoded response is what the caller gets -/
theorem finish_zero (call : Call) (body : Bytes) (v : Value) (h : call.decodeBody body = .ok v) :
    call.finish 0 body = .ok v := by
  simp [Call.finish, h]

/-- any other code: an error, whatever the body holds -/
theorem finish_nonzero (call : Call) (cc : UInt8) (hcc : cc ≠ 0) (body : Bytes) : call.finish cc body = .err := by
  have hs := decodeBody_safe call body
  unfold Call.finish
  cases h : call.decodeBody body with
  | ok v => simp [hcc]
  | err => rfl
  | panic => rw [h] at hs; simp [R.bad] at hs
  | overread => rw [h] at hs; simp [R.bad] at hs

/-- a value is returned only for code 00h and a body the response layer accepts -/
theorem finish_ok_inv (call : Call) (cc : UInt8) (body : Bytes) (v : Value) (h : call.finish cc body = .ok v) :
    cc = 0 ∧ call.decodeBody body = .ok v := by
  unfold Call.finish at h
  cases hd : call.decodeBody body with
  | ok w =>
    rw [hd] at h
    by_cases hc : cc = 0
    · subst hc; simp at h; exact ⟨rfl, by rw [h]⟩
    · simp [hc] at h
  | err => rw [hd] at h; simp at h
  | panic => rw [hd] at h; simp at h
  | overread => rw [hd] at h; simp at h

/-- the call never panics on a response the loop returned -/
theorem finish_safe (call : Call) (cc : UInt8) (body : Bytes) : (call.finish cc body).bad = false := by
  by_cases hc : cc = 0
  · subst hc
    have hs := decodeBody_safe call body
    unfold Call.finish
    cases h : call.decodeBody body <;> simp_all [R.bad]
  · rw [finish_nonzero call cc hc]; rfl

/-- Set Session Privilege Level = Callback is the one request the serialisers refuse -/
theorem cmdFor_reqFails (call : Call) (rid : Nat) :
    (call.cmdFor rid).reqFails = decide (call = .setSessionPrivilegeLevel 1) := by
  cases call <;> simp [Call.cmdFor, Call.body, Req.SetPriv.encode]
  rename_i l
  by_cases h : l = 1
  · subst h; rfl
  · have : (l == 1) = false := by simp [h]
    simp [this, h]

/-- the response message to the command of every call is well-formed (request NetFn even and below 63, LUN 0, the
    group body code only with the group NetFn) -/
theorem wire_wf (w : Req.Cmd) :
    (w.operation.function + 1).toNat < 64 ∧ (w.lun 0).toNat < 4 ∧ w.operation.enterprise < 16777216 ∧
    (isGroup (w.operation.function + 1) = false → w.operation.body = 0) ∧
    (isOEM (w.operation.function + 1) = false → w.operation.enterprise = 0) ∧
    isRequest (w.operation.function + 1) = false := by
  cases w <;> decide

/-- … and so is the request operation itself -/
theorem wire_req_wf (w : Req.Cmd) :
    w.operation.function.toNat < 64 ∧ (w.lun 0).toNat < 4 ∧ w.operation.enterprise < 16777216 ∧
    (isGroup w.operation.function = false → w.operation.body = 0) ∧
    (isOEM w.operation.function = false → w.operation.enterprise = 0) := by
  cases w <;> decide

theorem call_responseMsg_wf (call : Call) (rid : Nat) (cc : UInt8) : (responseMsg (call.cmdFor rid) cc).WF := by
  obtain ⟨h1, h2, h3, h4, h5, h6⟩ := wire_wf call.wire
  refine ⟨h1, by show (0 : UInt8).toNat < 4; decide, h2, by show (1 : UInt8).toNat < 64; decide, h3, h4, h5, fun h => ?_⟩
  have h' : isRequest (call.wire.operation.function + 1) = true := h
  rw [h6] at h'
  exact absurd h' (by decide)

/-- the in-session call on a conforming response datagram: ONE transmission — the datagram of the call's command
    under the session's keys, counter and this attempt's IV — and the wrapper's reading of (code, body) -/
theorem sessCall_response (C : Ops) (hC : C.Lawful) (call : Call) (hreq : call ≠ .setSessionPrivilegeLevel 1) (s : Sess)
    (iv : Bytes) (ivs : List Bytes) (cc : UInt8) (body : Bytes) (seq : Nat) (riv : Bytes) (rest : List Outcome)
    (hriv : riv.length = 16) (hid : s.localID < 4294967296) (hseq : seq < 4294967296)
    (hlen : (responseAes C s.keys (call.cmdFor s.remoteID) cc body riv).length < 65536) (hnt : isTemp cc = false) :
    (sessCall C s call (iv :: ivs)
        (.reply (responseDatagram C s.keys (call.cmdFor s.remoteID) cc body seq riv) :: rest)).2 =
      ([datagramOf C s.keys (call.cmdFor s.remoteID) s.inbound iv], call.finish cc body) := by
  have hf : (call.cmdFor s.remoteID).reqFails = false := by rw [cmdFor_reqFails]; simp [hreq]
  unfold sessCall send
  rw [sendLoop_reply C _ hf,
    classify_response C hC s.keys _ cc body seq riv hriv (call_responseMsg_wf call s.remoteID cc) hid hseq hlen, hnt]
  simp only [Bool.false_eq_true, if_false, attempt_init_eq, apiRes]

/-- a refused request: nothing is transmitted and the call returns an error, whatever the BMC would answer -/
theorem sessCall_refused (C : Ops) (s : Sess) (ivs : List Bytes) (script : List Outcome) :
    (sessCall C s (.setSessionPrivilegeLevel 1) ivs script).2 = ([], .err) := by
  unfold sessCall send
  cases script with
  | nil => simp [sendLoop, apiRes]
  | cons o rest =>
    cases ivs with
    | nil => simp [sendLoop, apiRes]
    | cons iv ivs =>
      have hf : (Call.cmdFor s.remoteID (.setSessionPrivilegeLevel 1)).reqFails = true := by rw [cmdFor_reqFails]; simp
      unfold sendLoop
      simp [hf, apiRes]

/-- SOUNDNESS for every script: whenever an in-session call hands a value to its caller, some reply of the script
    decoded (authentic, for this session, a response to this very command) with completion code 00h and a body that
    the call's response layer decodes to exactly that value -/
theorem sessCall_ok_inv (C : Ops) (call : Call) (s : Sess) (hs : s.inbound < 4294967296) (ivs : List Bytes)
    (script : List Outcome) (hl : script.length ≤ ivs.length) (v : Value)
    (h : (sessCall C s call ivs script).2.2 = .ok v) :
    ∃ d v2 msg, Outcome.reply d ∈ script ∧
      view (onReply C s.keys.sess (GoSlice.ofBytes d)) = (.message, some (v2, msg)) ∧
      accept s.keys (call.cmdFor s.remoteID) v2 msg = true ∧
      msg.completionCode = 0 ∧ call.decodeBody msg.payload = .ok v := by
  unfold sessCall send at h
  simp only at h
  by_cases hreq : call = .setSessionPrivilegeLevel 1
  · subst hreq
    have := sessCall_refused C s ivs script
    unfold sessCall send at this
    simp only at this
    have h2 := congrArg Prod.snd this
    simp only at h2
    rw [h2] at h
    simp at h
  · have hf : (call.cmdFor s.remoteID).reqFails = false := by rw [cmdFor_reqFails]; simp [hreq]
    cases hr : (sendLoop C (call.cmdFor s.remoteID) s ivs script).2.2 with
    | ok cc p =>
      rw [hr] at h
      simp only [apiRes] at h
      obtain ⟨hcc, hdec⟩ := finish_ok_inv call cc p v h
      rw [(sendLoop_spec C _ hf s hs ivs script hl).1] at hr
      obtain ⟨d, hm, hc⟩ := expected_ok_inv _ _ _ _ hr
      obtain ⟨v2, msg, hv, hacc, _, hcc2, hp⟩ := classify_final_inv C s.keys _ d cc p hc
      exact ⟨d, v2, msg, hm, hv, hacc, by rw [hcc2, hcc], by rw [hp]; exact hdec⟩
    | transportErr => rw [hr] at h; simp [apiRes] at h
    | serializeErr => rw [hr] at h; simp [apiRes] at h
    | ctxExpired => rw [hr] at h; simp [apiRes] at h
    | crashed => rw [hr] at h; simp [apiRes] at h

end Bmc.Proto

namespace Bmc.Proto
open Bmc Bmc.Wire Bmc.Crypto

theorem message_encode_length_le (m : Message) (data : Bytes) : (Message.encode m data).2.length ≤ data.length + 11 := by
  unfold Message.encode
  simp only [List.length_append, List.length_cons, List.length_nil]
  split <;> split <;> (try split) <;> simp <;> omega

theorem confPad_length (n : Nat) : (confPad n).length = n + 1 := by simp [confPad]

/-- the AES-CBC encapsulation (IV + padded ciphertext) of a message of at most 65400 bytes fits the wrapper's 16-bit
    length field -/
theorem aesEncode_fits (C : Ops) (hC : C.Lawful) (key iv msg : Bytes) (hiv : iv.length = 16) (hm : msg.length ≤ 65400) :
    (AESLayer.encode C key iv msg).length < 65536 := by
  generalize hpt0 : msg ++ confPad (padLen msg.length) = pt
  have hlen : pt.length = msg.length + (15 - msg.length % 16) + 1 := by
    rw [← hpt0]; simp only [List.length_append, confPad_length, padLen]; omega
  have hpt : pt.length = 16 * (pt.length / 16) := by omega
  have e : AESLayer.encode C key iv msg = iv ++ cbcEnc C key (pt.length / 16) iv pt := by
    unfold AESLayer.encode; simp only [hpt0]
  rw [e, List.length_append, hiv, cbcEnc_len C hC key _ iv _ hiv hpt]
  omega

/-- the encrypted response to a body of at most 65000 bytes fits -/
theorem responseAes_fits (C : Ops) (hC : C.Lawful) (k : Keys) (c : Cmd) (cc : UInt8) (body riv : Bytes)
    (hriv : riv.length = 16) (hb : body.length ≤ 65000) : (responseAes C k c cc body riv).length < 65536 := by
  have hm := message_encode_length_le (responseMsg c cc) body
  exact aesEncode_fits C hC k.k2 riv _ hriv (by unfold responseBytes; omega)

end Bmc.Proto
