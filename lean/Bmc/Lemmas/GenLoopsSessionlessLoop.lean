import Bmc.Lemmas.GenLoopsSessionless
/-! The regenerated `V2Sessionless.buildAndSendCommand` under the scripted surroundings: one run of the closure on a reply in the
    model's terms (`slStep_reply`, `slStepOut`) and the inductions over the script: what `Proto.slLoop` returns (`retry_slLoop`),
    what `Proto.Metrics.loop` counts outside a session (`retry_slMetrics`). -/
namespace Bmc.Lemmas.GenLoops
open Bmc Bmc.Wire Bmc.Crypto Bmc.Proto Bmc.GoOrch Bmc.GoLoops Bmc.Gen.Loops

theorem slOnReply_message_msg (l : SlLayers) (d : GoSlice) (msg : Message)
    (h : slView (slOnReply l d) = (.message, some msg)) : ∃ prev mi, Message.decodeGo 8 prev mi = .ok msg := by
  unfold slOnReply at h
  repeat' split at h
  all_goals (try (simp [slView] at h; done))
  rename_i m hm
  simp [slView] at h
  exact ⟨_, _, by rw [hm, h]⟩

theorem slAccGen_eq (c : Cmd) (name : String) (rsp : Opaque) (msg : Message) (hm : msg.enterprise < 4294967296) (hc : c.ent < 4294967296) :
    slAccGen c name rsp msg = slAcceptable c msg := isResponseTo_eq c msg hm hc name rsp

/-- what one run of the closure makes of a reply, in the model's terms -/
def slStepOut (c : Cmd) (d : Bytes) : RF (Bool × Option GoErr) × List Ev :=
  match slView (slOnReply {} (GoSlice.ofBytes d)) with
  | (.crash, _) => (.panic, [])
  | (.fail, _) => (.ok (false, some .decode), [])
  | (.message, some msg) =>
    if slAcceptable c msg then
      (if isTemp msg.completionCode then .ok (false, some .sentinel) else .ok (false, none),
       [Ev.inc "commandResponses" [Label.code msg.completionCode]])
    else (.ok (false, some .errorf), [])
  | _ => (.ok (false, some .innermost), [])

theorem slView_fst_message (p : SlLayers × Decoded) (h : (slView p).1 = .message) : slView p = (.message, some p.1.msg) := by
  unfold slView at *
  simp only at h
  simp [h]

theorem slStep_reply (c : Cmd) (bd : Bytes → Bool) (name : String) (rsp : Opaque) (hc : c.ent < 4294967296)
    (first : Bool) (ivs : List Bytes) (d : Bytes) (rest : List Outcome) (sent : List Bytes) (i e : Bool) (K : Conn Decoded) :
    obsB (V2Sessionless_buildAndSendCommand_func1 (slWorld c bd) (cmdOf c name rsp) first
          (({ ivs := ivs, script := .reply d :: rest, sent := sent, inSend := i, expired := e } : SW), K))
      = ((slStepOut c d).1, { ivs := ivs, script := rest, sent := sent ++ [K.buffer], inSend := i, expired := e },
         K.inbound, K.events ++ pre first ++ (slStepOut c d).2, K.buffer) := by
  unfold slStepOut
  cases hv : (slView (slOnReply {} (GoSlice.ofBytes d))).1 with
  | crash =>
    rw [slStep_crash c bd name rsp first ivs d rest sent i e K hv]
    generalize slView (slOnReply {} (GoSlice.ofBytes d)) = vw at hv
    obtain ⟨how, o⟩ := vw; simp only at hv; subst hv; simp
  | fail =>
    rw [slStep_fail c bd name rsp first ivs d rest sent i e K hv]
    generalize slView (slOnReply {} (GoSlice.ofBytes d)) = vw at hv
    obtain ⟨how, o⟩ := vw; simp only at hv; subst hv; simp
  | notMessage =>
    rw [slStep_notMessage c bd name rsp first ivs d rest sent i e K hv]
    generalize slView (slOnReply {} (GoSlice.ofBytes d)) = vw at hv
    obtain ⟨how, o⟩ := vw; simp only at hv; subst hv; simp
  | message =>
    have hv' := slView_fst_message _ hv
    generalize (slOnReply {} (GoSlice.ofBytes d)).1.msg = msg at hv'
    obtain ⟨_, _, hdm⟩ := slOnReply_message_msg _ _ msg hv'
    have hm := msg_decodeGo_ent_lt _ _ _ hdm
    have := slStep_message c bd name rsp first ivs d rest sent i e K msg hv'
    rw [slAccGen_eq c name rsp msg hm hc, ccIsTemporary_eq] at this
    rw [hv']
    simp only [obsBM, obsB, Prod.mk.injEq] at this ⊢
    obtain ⟨a1, a2, a3, a4, a5, _⟩ := this
    refine ⟨?_, a2, a3, ?_, a5⟩
    · rw [a1]; split <;> rfl
    · rw [a4]; split <;> rfl

theorem slStep_message_layer (c : Cmd) (bd : Bytes → Bool) (name : String) (rsp : Opaque)
    (first : Bool) (ivs : List Bytes) (d : Bytes) (rest : List Outcome) (sent : List Bytes) (i e : Bool) (K : Conn Decoded)
    (msg : Message) (hv : slView (slOnReply {} (GoSlice.ofBytes d)) = (.message, some msg)) :
    (V2Sessionless_buildAndSendCommand_func1 (slWorld c bd) (cmdOf c name rsp) first
          (({ ivs := ivs, script := .reply d :: rest, sent := sent, inSend := i, expired := e } : SW), K)).2.2.layers.message = msgOf msg := by
  have := slStep_message c bd name rsp first ivs d rest sent i e K msg hv
  simp only [obsBM, Prod.mk.injEq] at this
  exact this.2.2.2.2.2

theorem slStepOut_classify (c : Cmd) (d : Bytes) :
    match slClassify c d with
    | .crash => (slStepOut c d).1 = .panic
    | .final cc pl => (slStepOut c d).1 = .ok (false, none) ∧
        ∃ msg, slView (slOnReply {} (GoSlice.ofBytes d)) = (.message, some msg) ∧ msg.completionCode = cc ∧ msg.payload = pl
    | .retry => ∃ e, (slStepOut c d).1 = .ok (false, some e) := by
  unfold slClassify slStepOut
  generalize slView (slOnReply {} (GoSlice.ofBytes d)) = vw
  obtain ⟨how, o⟩ := vw
  cases how <;> cases o <;> simp
  rename_i msg
  cases slAcceptable c msg <;> cases isTemp msg.completionCode <;> simp

/-- the outcome of the translated loop against the model's result -/
def SlResOk (r : RF (Bool × Option GoErr) × SW × Conn Decoded) : Res → Prop
  | .ok cc p => r.1 = .ok (false, none) ∧ r.2.2.layers.message.completionCode = cc ∧ r.2.2.layers.message.payload = p
  | .ctxExpired => r.1 = .ok (false, some .ctx)
  | .crashed => r.1 = .panic
  | _ => False

/-- THE LOOP (session-less): the same serialised datagram is handed to the transport once per attempt, lost replies and anything
    that is not a final answer to this command are retried, as `Proto.slLoop` / `slExpected` say -/
theorem retry_slLoop (c : Cmd) (bd : Bytes → Bool) (name : String) (rsp : Opaque) (hc : c.ent < 4294967296) :
    ∀ (script : List Outcome), script ≠ [] → ∀ (fuel : Nat), script.length ≤ fuel →
      ∀ (first : Bool) (ivs sent0 : List Bytes) (e0 : Bool) (K : Conn Decoded),
      let r := backoffRetry SW.wait fuel (V2Sessionless_buildAndSendCommand_func1 (slWorld c bd) (cmdOf c name rsp)) first
                ({ ivs := ivs, script := script, sent := sent0, inSend := false, expired := e0 }, K)
      let m := slExpected (slClassify c) script
      r.2.1.sent = sent0 ++ List.replicate m.1 K.buffer ∧ r.2.2.inbound = K.inbound ∧ r.2.2.buffer = K.buffer ∧ SlResOk r m.2 := by
  intro script
  induction script with
  | nil => intro h; exact absurd rfl h
  | cons o rest ih =>
    intro _ fuel hfu first ivs sent0 e0 K
    cases fuel with
    | zero => simp at hfu
    | succ n =>
    have hfu' : rest.length ≤ n := by simpa using hfu
    intro r m
    -- what happens after a retryable error
    have again : ∀ (e : GoErr),
        (V2Sessionless_buildAndSendCommand_func1 (slWorld c bd) (cmdOf c name rsp) first
          ({ ivs := ivs, script := o :: rest, sent := sent0, inSend := false, expired := e0 }, K)).1 = .ok (false, some e) →
        (V2Sessionless_buildAndSendCommand_func1 (slWorld c bd) (cmdOf c name rsp) first
          ({ ivs := ivs, script := o :: rest, sent := sent0, inSend := false, expired := e0 }, K)).2.1
            = { ivs := ivs, script := rest, sent := sent0 ++ [K.buffer], inSend := false, expired := e0 } →
        (V2Sessionless_buildAndSendCommand_func1 (slWorld c bd) (cmdOf c name rsp) first
          ({ ivs := ivs, script := o :: rest, sent := sent0, inSend := false, expired := e0 }, K)).2.2.inbound = K.inbound →
        (V2Sessionless_buildAndSendCommand_func1 (slWorld c bd) (cmdOf c name rsp) first
          ({ ivs := ivs, script := o :: rest, sent := sent0, inSend := false, expired := e0 }, K)).2.2.buffer = K.buffer →
        let m' := slExpected (slClassify c) rest
        r.2.1.sent = sent0 ++ List.replicate (m'.1 + 1) K.buffer ∧ r.2.2.inbound = K.inbound ∧ r.2.2.buffer = K.buffer ∧ SlResOk r m'.2 := by
      intro e he hw hin hbuf m'
      have hr0 : r = _ := retry_of_err SW.wait _ n _ _ e _ he
      rw [show (V2Sessionless_buildAndSendCommand_func1 (slWorld c bd) (cmdOf c name rsp) first
          ({ ivs := ivs, script := o :: rest, sent := sent0, inSend := false, expired := e0 }, K)).2 = (_, _) from Prod.ext hw rfl,
          afterErr_script] at hr0
      cases rest with
      | nil =>
        simp only [List.isEmpty_nil, Bool.not_false, Bool.true_or, Bool.and_self, if_true] at hr0
        rw [hr0]
        simp only [m', slExpected]
        exact ⟨by simp, hin, hbuf, by simp [SlResOk]⟩
      | cons o2 rest2 =>
        simp only [List.isEmpty_cons, Bool.false_and, Bool.false_eq_true, if_false] at hr0
        have := ih (by simp) n hfu' false ivs (sent0 ++ [K.buffer]) e0
          (V2Sessionless_buildAndSendCommand_func1 (slWorld c bd) (cmdOf c name rsp) first
            ({ ivs := ivs, script := o :: o2 :: rest2, sent := sent0, inSend := false, expired := e0 }, K)).2.2
        simp only at this
        rw [← hr0, hbuf, hin] at this
        obtain ⟨t1, t2, t3, t4⟩ := this
        exact ⟨by rw [t1]; simp [List.replicate_succ, m'], t2, t3, t4⟩
    cases o with
    | lost =>
      have st := slStep_lost c bd name rsp first ivs rest sent0 false e0 K
      simp only [obsB, Prod.mk.injEq] at st
      obtain ⟨s1, s2, s3, _, s5⟩ := st
      have := again _ s1 s2 s3 s5
      simp only [m, slExpected]
      exact this
    | reply d =>
      have st := slStep_reply c bd name rsp hc first ivs d rest sent0 false e0 K
      simp only [obsB, Prod.mk.injEq] at st
      obtain ⟨s1, s2, s3, _, s5⟩ := st
      have hcl := slStepOut_classify c d
      simp only [m, slExpected]
      cases hc' : slClassify c d with
      | crash =>
        rw [hc'] at hcl; simp only at hcl ⊢
        have hr0 : r = _ := retry_of_panic SW.wait _ n _ _ (s1.trans hcl)
        rw [hr0]
        exact ⟨by simp [s2], s3, s5, by simp [SlResOk]⟩
      | final cc pl =>
        rw [hc'] at hcl; simp only at hcl ⊢
        obtain ⟨hcl1, msg, hv, hcc, hpl⟩ := hcl
        have hr0 : r = _ := retry_of_nil SW.wait _ n _ _ _ (s1.trans hcl1)
        have hml := slStep_message_layer c bd name rsp first ivs d rest sent0 false e0 K msg hv
        rw [hr0]
        refine ⟨by simp [s2], s3, s5, ?_⟩
        simp only [SlResOk, hml, msgOf, hcc, hpl, and_self]
      | retry =>
        rw [hc'] at hcl; simp only at hcl ⊢
        obtain ⟨e, he⟩ := hcl
        exact again _ (s1.trans he) s2 s3 s5

/-- what the instrumentation sees of one attempt outside a session -/
def slAttOf (c : Cmd) : Outcome → Metrics.Att
  | .lost => .lost
  | .reply d =>
    match slView (slOnReply {} (GoSlice.ofBytes d)) with
    | (.message, some msg) =>
      if slAcceptable c msg then
        (if isTemp msg.completionCode then .temp msg.completionCode.toNat else .final msg.completionCode.toNat)
      else .junk
    | _ => .junk

def slNoCrash (c : Cmd) (script : List Outcome) : Prop := ∀ d, Outcome.reply d ∈ script → slClassify c d ≠ .crash

theorem slStepOut_att (c : Cmd) (d : Bytes) (hn : slClassify c d ≠ .crash) :
    match slAttOf c (.reply d) with
    | .final n => (slStepOut c d).1 = .ok (false, none) ∧ ∃ cc : UInt8, cc.toNat = n ∧ (slStepOut c d).2 = [Ev.inc "commandResponses" [Label.code cc]]
    | .temp n => (∃ e, (slStepOut c d).1 = .ok (false, some e)) ∧ ∃ cc : UInt8, cc.toNat = n ∧ (slStepOut c d).2 = [Ev.inc "commandResponses" [Label.code cc]]
    | .junk => (∃ e, (slStepOut c d).1 = .ok (false, some e)) ∧ (slStepOut c d).2 = []
    | _ => False := by
  simp only [slClassify] at hn
  simp only [slAttOf, slStepOut]
  generalize slView (slOnReply {} (GoSlice.ofBytes d)) = vw at hn ⊢
  obtain ⟨how, o⟩ := vw
  cases how <;> cases o <;> simp at hn ⊢
  rename_i msg
  cases slAcceptable c msg <;> cases isTemp msg.completionCode <;> simp

def slOkNil : RF (Bool × Option GoErr) → Bool
  | .ok (_, none) => true
  | _ => false

/-- THE LOG (session-less) -/
theorem retry_slMetrics (c : Cmd) (bd : Bytes → Bool) (name : String) (rsp : Opaque) (hc : c.ent < 4294967296) (i : Bool) (m0 : Metrics.M) :
    ∀ (script : List Outcome), (i = false → script ≠ []) → slNoCrash c script →
      ∀ (fuel : Nat), script.length + 1 ≤ fuel → ∀ (first : Bool) (ivs sent0 : List Bytes) (K : Conn Decoded),
      let r := backoffRetry SW.wait fuel (V2Sessionless_buildAndSendCommand_func1 (slWorld c bd) (cmdOf c name rsp)) first
                ({ ivs := ivs, script := script, sent := sent0, inSend := i, expired := false }, K)
      let l := Metrics.loop false (evsApply m0 K.events) first (script.map (slAttOf c) ++ ending i)
      evsApply m0 r.2.2.events = l.1 ∧ slOkNil r.1 = l.2 ∧ ∃ x, r.1 = .ok x := by
  intro script
  induction script with
  | nil =>
    intro hne _ fuel hfu first ivs sent0 K r l
    cases i with
    | false => exact absurd rfl (hne rfl)
    | true =>
    cases fuel with
    | zero => simp at hfu
    | succ n =>
    have st := slStep_nil c bd name rsp first ivs sent0 true false K
    simp only [obsB, Prod.mk.injEq] at st
    obtain ⟨s1, s2, _, s4, _⟩ := st
    have hr0 : r = _ := retry_of_err SW.wait _ n _ _ _ _ s1
    rw [show (V2Sessionless_buildAndSendCommand_func1 (slWorld c bd) (cmdOf c name rsp) first
        ({ ivs := ivs, script := [], sent := sent0, inSend := true, expired := false }, K)).2 = (_, _) from Prod.ext s2 rfl,
        afterErr_script] at hr0
    simp only [List.isEmpty_nil, Bool.not_true, Bool.false_or, Bool.and_self, if_true] at hr0
    rw [hr0]
    refine ⟨?_, ?_, _, rfl⟩
    · simp only [l, ending, List.map_nil, List.append_nil, if_true, Metrics.loop, s4, evsApply_append, evsApply_pre]
    · simp only [l, ending, List.map_nil, List.append_nil, if_true, Metrics.loop, slOkNil]
  | cons o rest ih =>
    intro _ hnc fuel hfu first ivs sent0 K r l
    cases fuel with
    | zero => simp at hfu
    | succ n =>
    have hfu' : rest.length + 1 ≤ n := by simpa using hfu
    have hnc' : slNoCrash c rest := fun d hd => hnc d (by simp [hd])
    have hl : l = Metrics.loop false (evsApply m0 K.events) first (slAttOf c o :: (rest.map (slAttOf c) ++ ending i)) := by
      simp only [l, List.map_cons, List.cons_append]
    -- what happens after a retryable error
    have again : ∀ (e : GoErr) (evs : List Ev),
        (V2Sessionless_buildAndSendCommand_func1 (slWorld c bd) (cmdOf c name rsp) first
          ({ ivs := ivs, script := o :: rest, sent := sent0, inSend := i, expired := false }, K)).1 = .ok (false, some e) →
        (V2Sessionless_buildAndSendCommand_func1 (slWorld c bd) (cmdOf c name rsp) first
          ({ ivs := ivs, script := o :: rest, sent := sent0, inSend := i, expired := false }, K)).2.1
            = { ivs := ivs, script := rest, sent := sent0 ++ [K.buffer], inSend := i, expired := false } →
        (V2Sessionless_buildAndSendCommand_func1 (slWorld c bd) (cmdOf c name rsp) first
          ({ ivs := ivs, script := o :: rest, sent := sent0, inSend := i, expired := false }, K)).2.2.events = K.events ++ pre first ++ evs →
        let l' := Metrics.loop false (evsApply (evsApply m0 (K.events ++ pre first)) evs) false (rest.map (slAttOf c) ++ ending i)
        evsApply m0 r.2.2.events = l'.1 ∧ slOkNil r.1 = l'.2 ∧ ∃ x, r.1 = .ok x := by
      intro e evs he hw hev l'
      have hr0 : r = _ := retry_of_err SW.wait _ n _ _ e _ he
      rw [show (V2Sessionless_buildAndSendCommand_func1 (slWorld c bd) (cmdOf c name rsp) first
          ({ ivs := ivs, script := o :: rest, sent := sent0, inSend := i, expired := false }, K)).2 = (_, _) from Prod.ext hw rfl,
          afterErr_script] at hr0
      by_cases hstop : (rest.isEmpty && !i) = true
      · simp only [Bool.or_false, hstop, if_true] at hr0
        have hrest : rest = [] := by cases rest <;> simp_all
        have hi : i = false := by cases i <;> simp_all
        rw [hr0]
        subst hrest; subst hi
        refine ⟨?_, ?_, _, rfl⟩
        · simp only [l', ending, List.map_nil, List.nil_append, Metrics.loop, hev, evsApply_append, Bool.false_eq_true, if_false]
        · simp only [l', ending, List.map_nil, List.nil_append, Metrics.loop, slOkNil, Bool.false_eq_true, if_false]
      · simp only [Bool.or_false, hstop, if_false, Bool.false_eq_true] at hr0
        have hne' : i = false → rest ≠ [] := by
          intro hi hr; apply hstop; simp [hi, hr]
        have := ih hne' hnc' n hfu' false ivs (sent0 ++ [K.buffer])
          (V2Sessionless_buildAndSendCommand_func1 (slWorld c bd) (cmdOf c name rsp) first
            ({ ivs := ivs, script := o :: rest, sent := sent0, inSend := i, expired := false }, K)).2.2
        simp only at this
        rw [← hr0, hev, evsApply_append] at this
        exact this
    cases o with
    | lost =>
      have st := slStep_lost c bd name rsp first ivs rest sent0 i false K
      simp only [obsB, Prod.mk.injEq] at st
      obtain ⟨s1, s2, _, s4, _⟩ := st
      have := again _ [] s1 s2 (by rw [s4]; simp)
      rw [hl]
      simp only [slAttOf, Metrics.loop, Bool.false_eq_true, if_false]
      simp only [evsApply_append, evsApply_pre] at this
      simp only [evsApply, List.foldl_nil] at this ⊢
      exact this
    | reply d =>
      have st := slStep_reply c bd name rsp hc first ivs d rest sent0 i false K
      simp only [obsB, Prod.mk.injEq] at st
      obtain ⟨s1, s2, _, s4, _⟩ := st
      have hat := slStepOut_att c d (hnc d (by simp))
      cases hatt : slAttOf c (.reply d) with
      | final nn =>
        rw [hatt] at hat hl; simp only at hat
        obtain ⟨h1, cc, hcc, h2⟩ := hat
        have hr0 : r = _ := retry_of_nil SW.wait _ n _ _ _ (s1.trans h1)
        rw [hr0, hl]
        refine ⟨?_, ?_, _, rfl⟩
        · simp only [Metrics.loop, s4, h2, evsApply_append, evsApply_pre]
          simp only [evsApply, List.foldl_cons, List.foldl_nil, evApply_responses, hcc]
        · simp only [Metrics.loop, slOkNil]
      | temp nn =>
        rw [hatt] at hat hl; simp only at hat
        obtain ⟨⟨e, h1⟩, cc, hcc, h2⟩ := hat
        have := again e _ (s1.trans h1) s2 (by rw [s4, h2])
        rw [hl]
        simp only [Metrics.loop]
        simp only [evsApply_append, evsApply_pre] at this
        simp only [evsApply, List.foldl_cons, List.foldl_nil, evApply_responses, hcc] at this ⊢
        exact this
      | junk =>
        rw [hatt] at hat hl; simp only at hat
        obtain ⟨⟨e, h1⟩, h2⟩ := hat
        have := again e _ (s1.trans h1) s2 (by rw [s4, h2])
        rw [hl]
        simp only [Metrics.loop]
        simp only [evsApply_append, evsApply_pre] at this
        simp only [evsApply, List.foldl_nil] at this ⊢
        exact this
      | lost => rw [hatt] at hat; exact absurd hat (by simp)
      | cancelled => rw [hatt] at hat; exact absurd hat (by simp)

end Bmc.Lemmas.GenLoops
