import Bmc.Wire.Message
namespace Bmc.Wire
open Bmc Bmc.Prim

theorem Message.decodeGo_refines (prev : Message) (d : GoSlice) :
    Message.decodeGo 8 prev d = R.ofExcept (Message.decode 8 d.vis) := by
  unfold Message.decodeGo Message.decode Message.specialGo
  simp -zeta only [GoSlice.vis_length]
  by_cases h7 : d.len < 7
  · simp [h7]
  · simp -zeta only [h7, if_false]
    simp -zeta (disch := omega) only [GoSlice.idx_ok, R.bind_ok]
    simp -zeta (disch := omega) only [GoSlice.slice_ok, R.bind_ok, GoSlice.sub_vis]
    simp only [Nat.sub_zero, List.drop_zero]
    split
    · rfl
    · split
      · rfl
      · cases hreq : isRequest (List.getD d.vis 1 0 >>> 2) <;>
        cases hg : isGroup (List.getD d.vis 1 0 >>> 2) <;>
        cases ho : isOEM (List.getD d.vis 1 0 >>> 2) <;>
        simp only [hreq, hg, ho, Bool.not_true, Bool.not_false, Bool.false_and, Bool.true_and, Bool.and_true,
          Bool.and_false, if_true, if_false, Bool.false_eq_true, reduceIte, R.bind_ok, R.pure_eq, decide_eq_true_eq]
        all_goals
          simp only [List.length_take, List.length_drop, GoSlice.vis_length, Nat.add_zero]
          try simp (disch := omega) only [Nat.min_eq_left]
          iterate 3
            all_goals (try simp (disch := omega) only [GoSlice.slice_ok, R.bind_ok, R.bind_err, GoSlice.sub_vis,
              GoSlice.sub_len, R.ofExcept_ok, R.ofExcept_error, R.ofExcept_ite, GoSlice.idx_ok, if_true, if_false])
            all_goals (try rfl)
            all_goals (try (repeat' split))
            all_goals (try (exfalso; omega))
#print axioms Message.decodeGo_refines
