import Bmc.Spec.Sess
import Bmc.Spec.Sdr
import Bmc.Spec.Dcmi
import Bmc.Spec.DeviceID
/-! Lengths of the specification's response encodings (all far below the 16-bit payload length of a datagram). -/
namespace Bmc.Spec
open Bmc

theorem flatMap_le16_length (l : List Nat) : (l.flatMap le16).length = 2 * l.length := by
  induction l with
  | nil => rfl
  | cons a t ih => simp only [List.flatMap_cons, List.length_append, ih, List.length_cons]; simp [le16]; omega

theorem DeviceID.encode_fits (v : DeviceID) : v.encode.length ≤ 65000 := by
  unfold DeviceID.encode; cases v.aux <;> simp [le24, le16]

theorem AuthCaps.encode_fits (v : AuthCaps) : v.encode.length ≤ 65000 := by simp [AuthCaps.encode, le24]

theorem SessionInfo.encode_fits (v : SessionInfo) : v.encode.length ≤ 65000 := by
  unfold SessionInfo.encode
  cases v.session with
  | none => simp
  | some s =>
    obtain ⟨u, p, v20, ch, chan⟩ := s
    cases chan with
    | absent => simp [ActiveSession.encode, SessionChannelInfo.encode]
    | lan ip mac port =>
      obtain ⟨a, b, c, d⟩ := ip; obtain ⟨m0, m1, m2, m3, m4, m5⟩ := mac
      simp [ActiveSession.encode, SessionChannelInfo.encode, le16]
    | serial act dest ip port =>
      obtain ⟨a, b, c, d⟩ := ip
      cases port <;> simp [ActiveSession.encode, SessionChannelInfo.encode, le16]

theorem ChassisStatus.encode_fits (v : ChassisStatus) : v.encode.length ≤ 65000 := by
  unfold ChassisStatus.encode; cases v.frontPanel <;> simp

theorem SDRRepoInfo.encode_fits (v : SDRRepoInfo) : v.encode.length ≤ 65000 := by simp [SDRRepoInfo.encode, le16, le32]
theorem ReserveSDR.encode_fits (v : ReserveSDR) : v.encode.length ≤ 65000 := by simp [ReserveSDR.encode, le16]
theorem SensorReading.encode_fits (v : SensorReading) : v.encode.length ≤ 65000 := by
  unfold SensorReading.encode; cases v.states2 <;> simp
theorem PowerReading.encode_fits (v : PowerReading) : v.encode.length ≤ 65000 := by simp [PowerReading.encode, le16, le32]
theorem SensorInfo.encode_fits (v : SensorInfo) (h : v.wf) : v.encode.length ≤ 65000 := by
  have := h.1
  simp only [SensorInfo.encode, List.length_append, flatMap_le16_length, List.length_cons, List.length_nil]; omega

theorem DcmiVersion.header_length (v : DcmiVersion) : v.header.length = 3 := by cases v <;> rfl
theorem Cap1.encode_fits (v : Cap1) : v.encode.length ≤ 65000 := by
  unfold Cap1.encode; split <;> simp [DcmiVersion.header_length]
theorem Cap2.encode_fits (v : Cap2) : v.encode.length ≤ 65000 := by
  unfold Cap2.encode; split <;> simp [DcmiVersion.header_length]
theorem Cap3.encode_fits (v : Cap3) : v.encode.length ≤ 65000 := by simp [Cap3.encode, DcmiVersion.header_length]
theorem Cap4.encode_fits (v : Cap4) : v.encode.length ≤ 65000 := by simp [Cap4.encode, DcmiVersion.header_length]
theorem Cap5.encode_fits (v : Cap5) (h : v.wf) : v.encode.length ≤ 65000 := by
  have := h.1
  simp only [Cap5.encode, List.length_append, List.length_cons, List.length_map, DcmiVersion.header_length]; omega

end Bmc.Spec
