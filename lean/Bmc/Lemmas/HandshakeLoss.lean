import Bmc.Proto.Handshake
/-! The handshake under loss: replies that are lost, or that one attempt of `buildAndSendPayload` classifies as "retry"
    (garbage, truncated, a packet that does not decode down to the session wrapper), only cause retransmissions of the
    SAME datagram; the outcome is that of the script with those replies removed. -/
namespace Bmc.Proto
open Bmc Bmc.Wire Bmc.Crypto

/-- a per-attempt outcome that makes the exchange try again -/
def Skipped (o : Outcome) : Prop := o = .lost ∨ ∃ d, o = .reply d ∧ payloadReply (GoSlice.ofBytes d) = .retry

/-- a reply that ends the exchange (whatever it then turns out to contain) -/
def Ends (d : Bytes) : Prop := payloadReply (GoSlice.ofBytes d) ≠ .retry

theorem exchange_skip (junk : List Outcome) (hj : ∀ o ∈ junk, Skipped o) (rest : List Outcome) :
    exchange (junk ++ rest) = ((exchange rest).1 + junk.length, (exchange rest).2) := by
  induction junk with
  | nil => simp
  | cons o junk ih =>
    have ih' := ih (fun x hx => hj x (by simp [hx]))
    rcases hj o (by simp) with rfl | ⟨d, rfl, hd⟩
    · simp only [List.cons_append, exchange, ih', List.length_cons]; constructor <;> simp <;> omega
    · simp only [List.cons_append, exchange, hd, ih', List.length_cons]; constructor <;> simp <;> omega

theorem exchange_ends (d : Bytes) (hd : Ends d) (rest : List Outcome) :
    exchange (.reply d :: rest) = (1, some (payloadReply (GoSlice.ofBytes d))) := by
  unfold Ends at hd
  cases hp : payloadReply (GoSlice.ofBytes d) with
  | retry => exact absurd hp hd
  | got p => simp only [exchange, hp]
  | crash => simp only [exchange, hp]

theorem exchange_junk_then (junk : List Outcome) (hj : ∀ o ∈ junk, Skipped o) (d : Bytes) (hd : Ends d) (rest : List Outcome) :
    exchange (junk ++ .reply d :: rest) = (junk.length + 1, some (payloadReply (GoSlice.ofBytes d))) := by
  rw [exchange_skip junk hj, exchange_ends d hd]
  simp only [Prod.mk.injEq, and_true]
  omega

theorem drop_junk_then (junk : List Outcome) (d : Bytes) (rest : List Outcome) :
    (junk ++ .reply d :: rest).drop (junk.length + 1) = rest := by
  have : junk.length + 1 = (junk ++ [Outcome.reply d]).length := by simp
  rw [this, show junk ++ Outcome.reply d :: rest = (junk ++ [Outcome.reply d]) ++ rest by simp, List.drop_left]

end Bmc.Proto

namespace Bmc.Proto
open Bmc Bmc.Wire Bmc.Crypto

theorem stepOpen_congr (o : Opts) (s s' : List Outcome) (h : (exchange s).2 = (exchange s').2) : stepOpen o s = stepOpen o s' := by
  unfold stepOpen exchangePayload; rw [h]

theorem stepRakp2_congr (C : Ops) (o : Opts) (rm : Bytes) (osr : OpenSessionRsp) (s s' : List Outcome)
    (h : (exchange s).2 = (exchange s').2) : stepRakp2 C o rm osr s = stepRakp2 C o rm osr s' := by
  unfold stepRakp2 exchangePayload; rw [h]

theorem stepRakp4_congr (C : Ops) (o : Opts) (rm : Bytes) (osr : OpenSessionRsp) (rk2 : RAKP2) (hh : HashAlg) (s s' : List Outcome)
    (h : (exchange s).2 = (exchange s').2) : stepRakp4 C o rm osr rk2 hh s = stepRakp4 C o rm osr rk2 hh s' := by
  unfold stepRakp4 exchangePayload; rw [h]

/-- the result of the handshake is unchanged when skipped outcomes are inserted before each of the three replies -/
theorem newSession_skips (C : Ops) (o : Opts) (rm : Bytes) (j1 j2 j3 : List Outcome) (r1 r2 r3 : Bytes) (tail : List Outcome)
    (h1 : ∀ x ∈ j1, Skipped x) (h2 : ∀ x ∈ j2, Skipped x) (h3 : ∀ x ∈ j3, Skipped x) (e1 : Ends r1) (e2 : Ends r2) (e3 : Ends r3) :
    (newSession C o rm (j1 ++ .reply r1 :: (j2 ++ .reply r2 :: (j3 ++ .reply r3 :: tail)))).2 =
      (newSession C o rm [.reply r1, .reply r2, .reply r3]).2 := by
  have A := exchange_junk_then j1 h1 r1 e1 (j2 ++ .reply r2 :: (j3 ++ .reply r3 :: tail))
  have A0 := exchange_junk_then [] (by simp) r1 e1 [.reply r2, .reply r3]
  have B := exchange_junk_then j2 h2 r2 e2 (j3 ++ .reply r3 :: tail)
  have B0 := exchange_junk_then [] (by simp) r2 e2 [.reply r3]
  have Cc := exchange_junk_then j3 h3 r3 e3 tail
  have C0 := exchange_junk_then [] (by simp) r3 e3 []
  have DA := drop_junk_then j1 r1 (j2 ++ .reply r2 :: (j3 ++ .reply r3 :: tail))
  have DB := drop_junk_then j2 r2 (j3 ++ .reply r3 :: tail)
  simp only [List.nil_append, List.length_nil, Nat.zero_add] at A0 B0 C0
  have so := stepOpen_congr o _ _ (by rw [A, A0] : (exchange (j1 ++ .reply r1 :: (j2 ++ .reply r2 :: (j3 ++ .reply r3 :: tail)))).2 = (exchange [.reply r1, .reply r2, .reply r3]).2)
  unfold newSession
  simp only [so, A, A0, DA, B, B0, DB, List.drop_succ_cons, List.drop_zero]
  cases stepOpen o [.reply r1, .reply r2, .reply r3] with
  | error e => rfl
  | ok osr =>
    simp only []
    cases RAKP1.encode 0 osr.bmcSessionID rm o.lookup o.priv o.user with
    | error _ => rfl
    | ok rk1 =>
      simp only []
      rw [stepRakp2_congr C o rm osr _ [.reply r2, .reply r3] (by rw [B, B0])]
      cases stepRakp2 C o rm osr [.reply r2, .reply r3] with
      | error e => rfl
      | ok p =>
        obtain ⟨rk2, h⟩ := p
        simp only []
        rw [stepRakp4_congr C o rm osr rk2 h _ [.reply r3] (by rw [Cc, C0])]
        cases stepRakp4 C o rm osr rk2 h [.reply r3] <;> rfl

end Bmc.Proto

namespace Bmc.Proto
open Bmc Bmc.Wire Bmc.Crypto

/-- … and what is transmitted is the loss-free run's three datagrams, each REPEATED once per skipped outcome before its
    reply: every retransmission is the very same datagram -/
theorem newSession_retransmits (C : Ops) (o : Opts) (rm : Bytes) (j1 j2 j3 : List Outcome) (r1 r2 r3 : Bytes) (tail : List Outcome)
    (h1 : ∀ x ∈ j1, Skipped x) (h2 : ∀ x ∈ j2, Skipped x) (h3 : ∀ x ∈ j3, Skipped x) (e1 : Ends r1) (e2 : Ends r2) (e3 : Ends r3)
    (d1 d2 d3 : Bytes) (hbase : (newSession C o rm [.reply r1, .reply r2, .reply r3]).1 = [d1, d2, d3]) :
    (newSession C o rm (j1 ++ .reply r1 :: (j2 ++ .reply r2 :: (j3 ++ .reply r3 :: tail)))).1 =
      List.replicate (j1.length + 1) d1 ++ List.replicate (j2.length + 1) d2 ++ List.replicate (j3.length + 1) d3 := by
  have A := exchange_junk_then j1 h1 r1 e1 (j2 ++ .reply r2 :: (j3 ++ .reply r3 :: tail))
  have A0 := exchange_junk_then [] (by simp) r1 e1 [.reply r2, .reply r3]
  have B := exchange_junk_then j2 h2 r2 e2 (j3 ++ .reply r3 :: tail)
  have B0 := exchange_junk_then [] (by simp) r2 e2 [.reply r3]
  have Cc := exchange_junk_then j3 h3 r3 e3 tail
  have C0 := exchange_junk_then [] (by simp) r3 e3 []
  have DA := drop_junk_then j1 r1 (j2 ++ .reply r2 :: (j3 ++ .reply r3 :: tail))
  have DB := drop_junk_then j2 r2 (j3 ++ .reply r3 :: tail)
  simp only [List.nil_append, List.length_nil, Nat.zero_add] at A0 B0 C0
  have so := stepOpen_congr o _ _ (by rw [A, A0] : (exchange (j1 ++ .reply r1 :: (j2 ++ .reply r2 :: (j3 ++ .reply r3 :: tail)))).2 = (exchange [.reply r1, .reply r2, .reply r3]).2)
  unfold newSession at hbase ⊢
  simp only [so, A, A0, DA, B, B0, DB, List.drop_succ_cons, List.drop_zero] at hbase ⊢
  cases hso : stepOpen o [.reply r1, .reply r2, .reply r3] with
  | error e => rw [hso] at hbase; simp at hbase
  | ok osr =>
    rw [hso] at hbase
    simp only [] at hbase ⊢
    cases hk1 : RAKP1.encode 0 osr.bmcSessionID rm o.lookup o.priv o.user with
    | error _ => rw [hk1] at hbase; simp at hbase
    | ok rk1 =>
      rw [hk1] at hbase
      simp only [] at hbase ⊢
      rw [stepRakp2_congr C o rm osr _ [.reply r2, .reply r3] (by rw [B, B0])]
      cases h2' : stepRakp2 C o rm osr [.reply r2, .reply r3] with
      | error e => rw [h2'] at hbase; simp at hbase
      | ok p =>
        obtain ⟨rk2, h⟩ := p
        rw [h2'] at hbase
        simp only [] at hbase ⊢
        rw [stepRakp4_congr C o rm osr rk2 h _ [.reply r3] (by rw [Cc, C0])]
        cases h4' : stepRakp4 C o rm osr rk2 h [.reply r3] <;>
        · rw [h4'] at hbase
          simp only [Cc, C0, List.replicate_one, List.cons_append, List.nil_append, List.cons.injEq, and_true] at hbase ⊢
          obtain ⟨rfl, rfl, rfl⟩ := hbase
          simp [List.append_assoc]

end Bmc.Proto
