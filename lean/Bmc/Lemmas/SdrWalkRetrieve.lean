import Bmc.Lemmas.SdrWalkSound
/-! Helper lemmas for C14, part 4: `walkSDRs` as a whole, one run of the retried closure, and the retry loop. -/
namespace Bmc.Lemmas.SdrWalk
open Bmc Bmc.Wire Bmc.Spec Bmc.Proto.SdrWalk

theorem walk_mono (k : Bool) (fuel : Nat) (w : World) :
    tsLe w (walk k bmc fuel w).1 ∧ (w.Inv → (walk k bmc fuel w).1.Inv) := by
  unfold walk
  rw [call_reserve]
  simp only
  have m1 := answer_mono w .reserve
  have i1 := answer_inv w .reserve
  have := walkLoop_mono k fuel (w.answer .reserve).1 (w.answer .reserve).1.repo.resv 0 []
  exact ⟨tsLe_trans m1 this.1, fun h => this.2 (i1 h)⟩

/-- SOUNDNESS of `walkSDRs`: a walk that returns a map while the timestamps stand still returns the Full Sensor
    Records of the store — which did not change either -/
theorem walk_sound (fuel : Nat) (w w' : World) (m : SDRRepository) (hInv : w.Inv)
    (h : walk true bmc fuel w = (w', .ok m)) (hts : tsEq w w') :
    m = fullView w'.repo.store.recs ∧ w'.repo.store.recs = w.repo.store.recs := by
  unfold walk at h
  rw [call_reserve] at h
  simp only at h
  have m1 := answer_mono w .reserve
  have i1 := answer_inv w .reserve hInv
  have m2 := (walkLoop_mono true fuel (w.answer .reserve).1 (w.answer .reserve).1.repo.resv 0 []).1
  rw [h] at m2
  obtain ⟨e1, e2⟩ := tsEq_squeeze m1 m2 hts
  have r1 := answer_same w .reserve e1
  have hpos : PosOK' [] (w.answer .reserve).1.repo.store.recs 0 := by
    cases hc : (w.answer .reserve).1.repo.store.recs with
    | nil => right; exact ⟨rfl, rfl, rfl⟩
    | cons r rest => left; right; exact ⟨rfl, rfl⟩
  have := walkLoop_sound fuel (w.answer .reserve).1 _ 0 [] _ w' m i1 (by simp) hpos (by simpa [fullView] using h) e2
  simp only [List.nil_append] at this
  obtain ⟨t1, t2⟩ := this
  exact ⟨by rw [t2]; exact t1, by rw [t2, r1]⟩

theorem attempt_mono (k : Bool) (fuel : Nat) (w : World) :
    tsLe w (attempt k bmc fuel w).1 ∧ (w.Inv → (attempt k bmc fuel w).1.Inv) := by
  unfold attempt
  rw [call_info]
  simp only
  have m1 := answer_mono w .info
  have i1 := answer_inv w .info
  have mw := walk_mono k fuel (w.answer .info).1
  cases hw : walk k bmc fuel (w.answer .info).1 with
  | mk w2 r =>
    rw [hw] at mw
    cases r with
    | ok cand =>
      simp only
      rw [call_info]
      simp only
      have m3 := answer_mono w2 .info
      have i3 := answer_inv w2 .info
      split <;> exact ⟨tsLe_trans m1 (tsLe_trans mw.1 m3), fun h => i3 (mw.2 (i1 h))⟩
    | err => exact ⟨tsLe_trans m1 mw.1, fun h => mw.2 (i1 h)⟩
    | outOfFuel => exact ⟨tsLe_trans m1 mw.1, fun h => mw.2 (i1 h)⟩

/-- one run of the closure that returns a candidate returns the Full Sensor Records of the repository as it stood
    when the final Get SDR Repository Info was answered — and as it had stood since the initial one -/
theorem attempt_sound (fuel : Nat) (w w' : World) (m : SDRRepository) (hInv : w.Inv)
    (h : attempt true bmc fuel w = (w', .ok m)) :
    m = fullView w'.repo.store.recs ∧ w'.repo.store.recs = (w.answer .info).1.repo.store.recs := by
  unfold attempt at h
  rw [call_info] at h
  simp only at h
  have i1 := answer_inv w .info hInv
  have mw := walk_mono true fuel (w.answer .info).1
  cases hw : walk true bmc fuel (w.answer .info).1 with
  | mk w2 r =>
    rw [hw] at h mw
    cases r with
    | ok cand =>
      simp only at h
      rw [call_info] at h
      simp only at h
      have m3 := answer_mono w2 .info
      have i3 := answer_inv w2 .info (mw.2 i1)
      have b1 := (inv_store _ i1).2
      have b3 := (inv_store _ i3).2
      split at h
      · simp at h
      · rename_i hnew
        simp only [Prod.mk.injEq, Res.ok.injEq] at h
        obtain ⟨rfl, rfl⟩ := h
        simp only [Proofs.C07.sdrRepoInfoView, Store.info] at hnew
        have hm := tsLe_trans mw.1 m3
        have e13 : tsEq (w.answer .info).1 (w2.answer .info).1 := by
          unfold tsLe at hm; unfold tsEq
          rw [Nat.mod_eq_of_lt b1.1, Nat.mod_eq_of_lt b1.2, Nat.mod_eq_of_lt b3.1, Nat.mod_eq_of_lt b3.2] at hnew
          omega
        obtain ⟨e12, e23⟩ := tsEq_squeeze mw.1 m3 e13
        have r3 := answer_same w2 .info e23
        have := walk_sound fuel _ w2 cand i1 hw e12
        rw [r3, this.2] at *
        exact ⟨this.1, rfl⟩
    | err => simp at h
    | outOfFuel => simp at h

theorem retrieve_inv (k : Bool) (fuel n : Nat) : ∀ w : World, w.Inv → (retrieve k bmc fuel n w).1.Inv := by
  induction n with
  | zero => intro w h; exact h
  | succ n ih =>
    intro w h
    rw [retrieve]
    have := (attempt_mono k fuel w).2 h
    cases ha : attempt k bmc fuel w with
    | mk w' r =>
      rw [ha] at this
      cases r with
      | ok m => exact this
      | err => exact ih w' this
      | outOfFuel => exact ih w' this

/-- whatever the retry loop returns was produced by a run of the closure during which nothing changed -/
theorem retrieve_sound (fuel n : Nat) : ∀ (w w' : World) (m : SDRRepository), w.Inv →
    retrieve true bmc fuel n w = (w', some m) → m = fullView w'.repo.store.recs := by
  induction n with
  | zero => intro w w' m _ h; simp [retrieve] at h
  | succ n ih =>
    intro w w' m hInv h
    rw [retrieve] at h
    have hi := (attempt_mono true fuel w).2 hInv
    cases ha : attempt true bmc fuel w with
    | mk w1 r =>
      rw [ha] at h hi
      cases r with
      | ok m1 =>
        simp only [Prod.mk.injEq, Option.some.injEq] at h
        obtain ⟨rfl, rfl⟩ := h
        exact (attempt_sound fuel w w1 m1 hInv ha).1
      | err => exact ih w1 w' m hi h
      | outOfFuel => exact ih w1 w' m hi h

-- completeness against a quiet BMC -------------------------------------------------------------------------------------
theorem quiet_answer (R : Repo) (q : RepoReq) : (World.quiet R).answer q = (World.quiet (R.step q).1, (R.step q).2) := rfl

theorem walk_complete_quiet (R : Repo) (fuel : Nat) (hwf : wfStore R.store.recs) (hne : R.store.recs ≠ [])
    (hfull : wfFull R.store.recs) (hfuel : R.store.recs.length < fuel) :
    walk true bmc fuel (World.quiet R) =
      (World.quiet { R with resv := R.nextResv, resvOk := true }, .ok (fullView R.store.recs)) := by
  unfold walk
  rw [call_reserve]
  simp only [quiet_answer, Repo.step]
  have hpos : PosOK [] R.store.recs 0 := by
    cases hc : R.store.recs with
    | nil => exact absurd hc hne
    | cons r rest => right; exact ⟨rfl, rfl⟩
  have := walkLoop_complete R.store.recs [] fuel (World.quiet { R with resv := R.nextResv, resvOk := true }) 0 rfl rfl
    (by simpa using hwf) hfull rfl hpos hfuel
  simpa [fullView] using this

theorem attempt_complete_quiet (R : Repo) (fuel : Nat) (hwf : wfStore R.store.recs) (hne : R.store.recs ≠ [])
    (hfull : wfFull R.store.recs) (hfuel : R.store.recs.length < fuel) :
    attempt true bmc fuel (World.quiet R) =
      (World.quiet { R with resv := R.nextResv, resvOk := true }, .ok (fullView R.store.recs)) := by
  unfold attempt
  rw [call_info]
  simp only [quiet_answer, Repo.step]
  rw [walk_complete_quiet R fuel hwf hne hfull hfuel]
  simp only
  rw [call_info]
  simp only [quiet_answer, Repo.step]
  simp [World.quiet]

theorem retrieve_complete_quiet (R : Repo) (fuel n : Nat) (hwf : wfStore R.store.recs) (hne : R.store.recs ≠ [])
    (hfull : wfFull R.store.recs) (hfuel : R.store.recs.length < fuel) :
    retrieve true bmc fuel (n + 1) (World.quiet R) =
      (World.quiet { R with resv := R.nextResv, resvOk := true }, some (fullView R.store.recs)) := by
  rw [retrieve, attempt_complete_quiet R fuel hwf hne hfull hfuel]

-- the shape of the expected result -----------------------------------------------------------------------------------------
theorem fullView_mem (recs : List SdrRec) (k : Nat) (f : FullSensorRecord) :
    (k, f) ∈ fullView recs ↔ ∃ r ∈ recs, r.typ = 1 ∧ r.id = k ∧ FullSensorRecord.decode r.body = .ok f := by
  simp only [fullView, List.mem_filterMap]
  constructor
  · rintro ⟨r, hr, h⟩
    refine ⟨r, hr, ?_⟩
    split at h
    · rename_i ht
      split at h
      · rename_i f' hd
        simp only [Option.some.injEq, Prod.mk.injEq] at h
        exact ⟨ht, h.1, by rw [hd, h.2]⟩
      · simp at h
    · simp at h
  · rintro ⟨r, hr, ht, hk, hd⟩
    exact ⟨r, hr, by simp [ht, hd, hk]⟩

theorem fullView_keys_sublist (recs : List SdrRec) : ((fullView recs).map (·.1)).Sublist (recs.map (·.id)) := by
  induction recs with
  | nil => simp [fullView]
  | cons r recs ih =>
    have : fullView (r :: recs) = fullView [r] ++ fullView recs := fullView_append [r] recs
    rw [this, List.map_append, List.map_cons]
    by_cases ht : r.typ = 1
    · cases hd : FullSensorRecord.decode r.body with
      | ok f => simpa [fullView, ht, hd] using ih
      | error e => simpa [fullView, ht, hd] using ih.cons _
    · simpa [fullView, ht] using ih.cons _

/-- no key occurs twice -/
theorem fullView_nodup (recs : List SdrRec) (h : wfStore recs) : ((fullView recs).map (·.1)).Nodup :=
  (fullView_keys_sublist recs).nodup h.1

/-- a finite check of `World.Inv`: the stores after each prefix of the schedule -/
theorem inv_of_prefixes (w : World)
    (h : ∀ k, k ≤ w.sched.length → (w.repo.store.applyAll ((w.sched.take k).flatMap (·.2))).wf) : w.Inv := by
  intro k
  by_cases hk : k ≤ w.sched.length
  · exact h k hk
  · have := h w.sched.length (Nat.le_refl _)
    rw [List.take_of_length_le (by omega)]
    rwa [List.take_length] at this

end Bmc.Lemmas.SdrWalk
