import Bmc.Lemmas.V2RoundTripAuth
namespace Bmc.Wire
open Bmc

/-- … and with ANY OTHER trailing bytes in place of the integrity value the wrapper is rejected: the pad scan and the
    position of the AuthCode depend only on what precedes it -/
theorem V2Session.decode_layout_badsig (mac : Bytes → Bytes) (hdr inner sig : Bytes) (p : Nat) (oem : Bool)
    (hH : hdr.length = (if oem then 8 else 2) + 10)
    (h0 : hdr.getD 0 0 = 6)
    (hauth : (hdr.getD 1 0 &&& 0x40 != 0) = true)
    (hoem : (hdr.getD 1 0 &&& 0x3f == 2) = oem)
    (hlen : le16 (hdr.drop ((if oem then 8 else 2) + 8)) = inner.length)
    (hp : p < 255)
    (hsig : sig ≠ mac (hdr ++ (inner ++ v2Trailer p))) :
    V2Session.decode mac (hdr ++ (inner ++ (v2Trailer p ++ sig))) = .error () := by
  generalize hb : hdr ++ (inner ++ (v2Trailer p ++ sig)) = b
  have blen : b.length = hdr.length + inner.length + (p + 2) + sig.length := by
    subst hb; simp [v2Trailer_length]; omega
  have g0 : b.getD 0 0 = hdr.getD 0 0 := by subst hb; exact getD_append_lt _ _ _ (by cases oem <;> simp at hH <;> omega)
  have g1 : b.getD 1 0 = hdr.getD 1 0 := by subst hb; exact getD_append_lt _ _ _ (by cases oem <;> simp at hH <;> omega)
  have tk : b.take hdr.length = hdr := by subst hb; simp
  have dr : b.drop hdr.length = inner ++ (v2Trailer p ++ sig) := by subst hb; simp
  have dr2 : b.drop (hdr.length + inner.length) = v2Trailer p ++ sig := by
    rw [← List.drop_drop, dr]; simp
  have dr3 : b.drop (hdr.length + inner.length + (p + 1) + 1) = sig := by
    rw [show hdr.length + inner.length + (p + 1) + 1 = (hdr.length + inner.length) + (v2Trailer p).length by
      simp [v2Trailer_length]; omega, ← List.drop_drop, dr2]; simp
  have tk3 : b.take (hdr.length + inner.length + (p + 1) + 1) = hdr ++ (inner ++ v2Trailer p) := by
    subst hb
    rw [show hdr.length + inner.length + (p + 1) + 1 = (hdr ++ (inner ++ v2Trailer p)).length by
      simp [v2Trailer_length]; omega]
    rw [show hdr ++ (inner ++ (v2Trailer p ++ sig)) = (hdr ++ (inner ++ v2Trailer p)) ++ sig by simp]
    exact List.take_left' rfl
  have w16 : ∀ k, k + 2 ≤ hdr.length → le16 (b.drop k) = le16 (hdr.drop k) := by
    intro k hk; subst hb; exact le16_drop_append _ _ _ hk
  have w32 : ∀ k, k + 4 ≤ hdr.length → le32 (b.drop k) = le32 (hdr.drop k) := by
    intro k hk; subst hb; exact le32_drop_append _ _ _ hk
  have sc := scanFF_trailer p hp sig
  unfold V2Session.decode
  cases oem
  · simp only [Bool.false_eq_true, if_false] at hH hlen ⊢
    have hH' : hdr.length = 12 := by omega
    rw [hH'] at tk dr dr2 dr3 tk3 blen
    have e16 := w16 10 (by omega)
    have e32a := w32 2 (by omega)
    have e32b := w32 6 (by omega)
    have hlen' : le16 (hdr.drop 10) = inner.length := hlen
    simp only [g0, g1, h0, hoem, hauth, blen]
    simp only [Bool.false_eq_true, if_false, Nat.reduceAdd, e16, e32a, e32b, hlen', tk, dr, dr2, sc, dr3, tk3]
    simp
    intros; exact hsig
  · simp only [if_true] at hH hlen ⊢
    have hH' : hdr.length = 18 := by omega
    rw [hH'] at tk dr dr2 dr3 tk3 blen
    have e16 := w16 16 (by omega)
    have e16b := w16 6 (by omega)
    have e32a := w32 8 (by omega)
    have e32b := w32 12 (by omega)
    have e32c := w32 2 (by omega)
    have hlen' : le16 (hdr.drop 16) = inner.length := hlen
    simp only [g0, g1, h0, hoem, hauth, blen]
    simp only [if_true, Nat.reduceAdd, e16, e16b, e32a, e32b, e32c, hlen', tk, dr, dr2, sc, dr3, tk3]
    simp
    intros; exact hsig


end Bmc.Wire
