import Bmc.Wire.Encode
/-! Round trip of the v2.0 session wrapper (C08). -/
namespace Bmc.Wire
open Bmc Bmc.Prim

theorem scanFF_replicate (p : Nat) (x : UInt8) (rest : Bytes) (hx : x ≠ 0xff) :
    scanFF (List.replicate p 0xff ++ x :: rest) = p + 1 := by
  induction p with
  | zero => simp [scanFF, hx]
  | succ n ih => simp [List.replicate_succ, scanFF, ih]; omega

structure V2Session.WF (s : V2Session) (inner : Bytes) : Prop where
  pt : s.payloadType.toNat < 64
  id : s.id < 4294967296
  seq : s.sequence < 4294967296
  len : inner.length < 65536
  ent : s.enterprise < 4294967296
  pid : s.payloadID < 65536
  oem0 : s.payloadType ≠ 2 → s.enterprise = 0 ∧ s.payloadID = 0
  unauth : s.authenticated = false → s.pad = 0 ∧ s.signature = []

theorem flags_rt : ∀ pt : Nat, pt < 64 → ∀ e a : Bool,
    let f : UInt8 := UInt8.ofNat pt ||| (if e then 0x80 else 0) ||| (if a then 0x40 else 0)
    (f &&& 0x80 != 0) = e ∧ (f &&& 0x40 != 0) = a ∧ f &&& 0x3f = UInt8.ofNat pt := by decide +kernel

theorem V2Session.decode_encode_unauth (mac : Bytes → Bytes) (s : V2Session) (inner : Bytes) (h : s.WF inner)
    (hu : s.authenticated = false) :
    V2Session.decode mac (V2Session.encode mac s inner).2 =
      .ok { (V2Session.encode mac s inner).1 with
            contents := (V2Session.encode mac s inner).2.take (if s.payloadType == 2 then 18 else 12)
            payload := inner } := by
  obtain ⟨hpt, hid, hseq, hlen, hent, hpid, hoem0, hun⟩ := h
  obtain ⟨enc, auth, pt, ent, pid, id, seq, len, pad, sig, contents, payload⟩ := s
  simp only at hpt hid hseq hlen hent hpid hoem0 hun hu
  subst hu
  unfold V2Session.encode V2Session.decode
  have f00 := flags_rt _ hpt false false
  have f10 := flags_rt _ hpt true false
  simp only [UInt8.ofNat_toNat, Bool.false_eq_true, if_false, if_true, UInt8.or_zero] at f00 f10
  have hl : List.length inner % 256 + 256 * (List.length inner % 65536 / 256 % 256) = List.length inner := by omega
  have hl2 : List.length inner % 65536 = List.length inner := by omega
  obtain ⟨hp0, hs0⟩ := hun rfl
  cases enc <;> cases hoem : (pt == 2)
  all_goals simp [hoem, f00, f10, putLE32, putLE16, le32, le16, hl, hl2, hp0, hs0]
  all_goals (try (have := hoem0 (by simpa using hoem)))
  all_goals (repeat' split)
  all_goals (try omega)
  all_goals (
    have hl3 : List.length inner % 256 + 256 * (List.length inner / 256 % 256) = List.length inner := by omega
    have eid : id % 256 + 256 * (id / 256 % 256) + 65536 * (id / 65536 % 256) + 16777216 * (id / 16777216 % 256) = id := by omega
    have eseq : seq % 256 + 256 * (seq / 256 % 256) + 65536 * (seq / 65536 % 256) + 16777216 * (seq / 16777216 % 256) = seq := by omega
    have eent : ent % 256 + 256 * (ent / 256 % 256) + 65536 * (ent / 65536 % 256) + 16777216 * (ent / 16777216 % 256) = ent := by omega
    have epid : pid % 256 + 256 * (pid / 256 % 256) = pid := by omega
    simp [hl3, eid, eseq, eent, epid]
    try omega)
end Bmc.Wire
