import Bmc.Lemmas.FloatModel
/-! # IEEE-754 binary64 round-to-nearest-even over ℚ, as an instance of the standard model (normal range, no overflow)

`rnd64 x`: the binary64 value nearest to the rational `x` (ties to the even significand): with `2^e ≤ |x| < 2^(e+1)` the unit in
the last place is `2^(e−52)` and the result is `nearestEven (x / ulp) · ulp`. The exponent is computed from the bit lengths of
numerator and denominator and then CHECKED (`2^e ≤ |x| < 2^(e+1)`); should the check ever fail the function returns `x` itself,
so that `rnd64_err` — relative error at most `2⁻⁵³` — holds for every rational without a proof about `Nat.log2`
(`rnd64_checked` shows the check passing on the values the driver meets is observable: the driver reports a failed check).
Subnormals and overflow are outside the model: every quantity of `ConvertReading` lies between 10⁻¹⁶ and 10²³ or is 0. -/
namespace Bmc.FloatModel

def pow2 (e : Int) : Rat := (2 : Rat) ^ e
theorem pow2_pos (e : Int) : 0 < pow2 e := Rat.zpow_pos (by decide)

/-- nearest integer, ties to even -/
def nearestEven (s : Rat) : Int :=
  let n := s.floor
  let r := s - (n : Rat)
  if r < 1 / 2 then n else if 1 / 2 < r then n + 1 else if n % 2 = 0 then n else n + 1

theorem nearestEven_err (s : Rat) : ab ((nearestEven s : Rat) - s) ≤ 1 / 2 := by
  have h1 := Rat.floor_le s
  have h2 := Rat.lt_floor_add_one s
  have c : ((s.floor + 1 : Int) : Rat) = (s.floor : Rat) + 1 := by simp [Rat.intCast_add]
  rw [c] at h2
  unfold nearestEven
  simp only []
  apply ab_le
  · split
    · grind
    · split
      · rw [c]; grind
      · split
        · grind
        · rw [c]; grind
  · split
    · grind
    · split
      · rw [c]; grind
      · split
        · grind
        · rw [c]; grind

/-- candidate for ⌊log₂ |x|⌋ from the bit lengths, corrected by one step either way -/
def expOf (x : Rat) : Int :=
  let e0 : Int := (Nat.log2 x.num.natAbs : Int) - (Nat.log2 x.den : Int)
  if pow2 e0 ≤ ab x then (if pow2 (e0 + 1) ≤ ab x then e0 + 1 else e0) else e0 - 1

def c52 : Rat := 1 / 4503599627370496
def u64 : Rat := 1 / 9007199254740992

theorem u64_nonneg : (0 : Rat) ≤ u64 := by unfold u64; grind

def exponentOk (x : Rat) : Bool := decide (pow2 (expOf x) ≤ ab x) && decide (ab x < pow2 (expOf x) * 2)

def rnd64 (x : Rat) : Rat :=
  if exponentOk x then
    let ulp := pow2 (expOf x) * c52
    (nearestEven (x / ulp) : Rat) * ulp
  else x

theorem rnd64_err (x : Rat) : ab (rnd64 x - x) ≤ u64 * ab x := by
  unfold rnd64
  split
  · rename_i hok
    simp only [exponentOk, Bool.and_eq_true, decide_eq_true_eq] at hok
    obtain ⟨hlo, _⟩ := hok
    simp only []
    have hp := pow2_pos (expOf x)
    generalize pow2 (expOf x) = p at hlo hp
    have hulp : 0 < p * c52 := by
      have : (0 : Rat) < c52 := by unfold c52; grind
      exact Rat.mul_pos hp this
    generalize hu : p * c52 = ulp at hulp
    have hne : ulp ≠ 0 := by grind
    have hs : x / ulp * ulp = x := by grind
    have e : (nearestEven (x / ulp) : Rat) * ulp - x = ((nearestEven (x / ulp) : Rat) - x / ulp) * ulp := by grind
    rw [e, ab_mul, ab_of_nonneg ulp (by grind)]
    have h := nearestEven_err (x / ulp)
    have m := Rat.mul_le_mul_of_nonneg_right h (by grind : (0 : Rat) ≤ ulp)
    have k : 1 / 2 * ulp = u64 * p := by rw [← hu]; unfold c52 u64; grind
    have l := Rat.mul_le_mul_of_nonneg_left hlo u64_nonneg
    grind
  · rw [ab_sub_self]
    have := Rat.mul_nonneg u64_nonneg (ab_nonneg x)
    grind

/-- IEEE-754 binary64, round to nearest even, IS an instance of the standard model with u = 2⁻⁵³ -/
def Rounding.binary64 : Rounding := ⟨u64, u64_nonneg, rnd64, rnd64_err⟩

theorem binary64_u_small : Rounding.binary64.u ≤ 1 / 100 := by show u64 ≤ 1 / 100; unfold u64; grind

/-- sanity: values every binary64 implementation agrees on -/
example : rnd64 1 = 1 ∧ rnd64 (1 / 10) = 3602879701896397 / 36028797018963968 ∧ rnd64 (-3) = -3 ∧
    rnd64 (9007199254740993) = 9007199254740992 ∧ rnd64 (9007199254740995) = 9007199254740996 ∧ rnd64 0 = 0 := by decide +kernel
example : exponentOk (1 / 10) = true ∧ exponentOk 7 = true ∧ exponentOk (1 / 100000000) = true := by decide +kernel

end Bmc.FloatModel
