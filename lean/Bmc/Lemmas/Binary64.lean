import Bmc.Lemmas.FloatModel
/-! # IEEE-754 binary64 round-to-nearest-even over ℚ, as an instance of the standard model (normal range, no overflow)

`rnd64 x`: the binary64 value nearest to the rational `x` (ties to the even significand): with `2^e ≤ |x| < 2^(e+1)` the unit in
the last place is `2^(e−52)` and the result is `nearestEven (x / ulp) · ulp`. The exponent is computed from the bit lengths of
numerator and denominator, corrected by one step, and then CHECKED (`2^e ≤ |x| < 2^(e+1)`; were the check to fail the function
would return `x` itself, which keeps `rnd64_err` — relative error at most `2⁻⁵³` — a two-line case split). `exponentOk_of_ne_zero`
proves the check ALWAYS passes for x ≠ 0 (`bracket`: the bit lengths put |x| within a factor two of `2^e0` either way), so
`rnd64_eq`: on every non-zero rational `rnd64` IS rounding to 53 significant bits, ties to even.
Subnormals and overflow are outside the model: every quantity of `ConvertReading` lies between 10⁻¹⁶ and 10²³ or is 0. -/
namespace Bmc.FloatModel

def pow2 (e : Int) : Rat := (2 : Rat) ^ e
theorem pow2_pos (e : Int) : 0 < pow2 e := Rat.zpow_pos (by decide)

/-- nearest integer, ties to even -/
def nearestEven (s : Rat) : Int :=
  let n := s.floor
  let r := s - (n : Rat)
  if r < 1 / 2 then n else if 1 / 2 < r then n + 1 else if n % 2 = 0 then n else n + 1

theorem nearestEven_err (s : Rat) : ab ((nearestEven s : Rat) - s) ≤ 1 / 2 := by
  have h1 := Rat.floor_le s
  have h2 := Rat.lt_floor_add_one s
  have c : ((s.floor + 1 : Int) : Rat) = (s.floor : Rat) + 1 := by simp [Rat.intCast_add]
  rw [c] at h2
  unfold nearestEven
  simp only []
  apply ab_le
  · split
    · grind
    · split
      · rw [c]; grind
      · split
        · grind
        · rw [c]; grind
  · split
    · grind
    · split
      · rw [c]; grind
      · split
        · grind
        · rw [c]; grind

/-- candidate for ⌊log₂ |x|⌋ from the bit lengths, corrected by one step either way -/
def expOf (x : Rat) : Int :=
  let e0 : Int := (Nat.log2 x.num.natAbs : Int) - (Nat.log2 x.den : Int)
  if pow2 e0 ≤ ab x then (if pow2 (e0 + 1) ≤ ab x then e0 + 1 else e0) else e0 - 1

def c52 : Rat := 1 / 4503599627370496
def u64 : Rat := 1 / 9007199254740992

theorem u64_nonneg : (0 : Rat) ≤ u64 := by unfold u64; grind

def exponentOk (x : Rat) : Bool := decide (pow2 (expOf x) ≤ ab x) && decide (ab x < pow2 (expOf x) * 2)

def rnd64 (x : Rat) : Rat :=
  if exponentOk x then
    let ulp := pow2 (expOf x) * c52
    (nearestEven (x / ulp) : Rat) * ulp
  else x

theorem rnd64_err (x : Rat) : ab (rnd64 x - x) ≤ u64 * ab x := by
  unfold rnd64
  split
  · rename_i hok
    simp only [exponentOk, Bool.and_eq_true, decide_eq_true_eq] at hok
    obtain ⟨hlo, _⟩ := hok
    simp only []
    have hp := pow2_pos (expOf x)
    generalize pow2 (expOf x) = p at hlo hp
    have hulp : 0 < p * c52 := by
      have : (0 : Rat) < c52 := by unfold c52; grind
      exact Rat.mul_pos hp this
    generalize hu : p * c52 = ulp at hulp
    have hne : ulp ≠ 0 := by grind
    have hs : x / ulp * ulp = x := by grind
    have e : (nearestEven (x / ulp) : Rat) * ulp - x = ((nearestEven (x / ulp) : Rat) - x / ulp) * ulp := by grind
    rw [e, ab_mul, ab_of_nonneg ulp (by grind)]
    have h := nearestEven_err (x / ulp)
    have m := Rat.mul_le_mul_of_nonneg_right h (by grind : (0 : Rat) ≤ ulp)
    have k : 1 / 2 * ulp = u64 * p := by rw [← hu]; unfold c52 u64; grind
    have l := Rat.mul_le_mul_of_nonneg_left hlo u64_nonneg
    grind
  · rw [ab_sub_self]
    have := Rat.mul_nonneg u64_nonneg (ab_nonneg x)
    grind

/-- IEEE-754 binary64, round to nearest even, IS an instance of the standard model with u = 2⁻⁵³ -/
def Rounding.binary64 : Rounding := ⟨u64, u64_nonneg, rnd64, rnd64_err⟩

theorem binary64_u_small : Rounding.binary64.u ≤ 1 / 100 := by show u64 ≤ 1 / 100; unfold u64; grind

/-- sanity: values every binary64 implementation agrees on -/
example : rnd64 1 = 1 ∧ rnd64 (1 / 10) = 3602879701896397 / 36028797018963968 ∧ rnd64 (-3) = -3 ∧
    rnd64 (9007199254740993) = 9007199254740992 ∧ rnd64 (9007199254740995) = 9007199254740996 ∧ rnd64 0 = 0 := by decide +kernel
example : exponentOk (1 / 10) = true ∧ exponentOk 7 = true ∧ exponentOk (1 / 100000000) = true := by decide +kernel

/-! ## the exponent self-check always passes -/

theorem eq_num_div_den (x : Rat) : x = (x.num : Rat) / (x.den : Rat) := by
  have h := Rat.mkRat_eq_div x.num x.den
  rw [Rat.mkRat_self] at h
  simpa using h

theorem den_cast_pos (x : Rat) : (0 : Rat) < (x.den : Rat) := by
  have := x.den_pos
  exact_mod_cast this

theorem mul_den (x : Rat) : x * (x.den : Rat) = (x.num : Rat) := by
  have h := eq_num_div_den x
  have hd := den_cast_pos x
  have hne : (x.den : Rat) ≠ 0 := by grind
  generalize (x.den : Rat) = d at *
  generalize (x.num : Rat) = n at *
  rw [h]; grind


theorem ab_mul_den (x : Rat) : ab x * (x.den : Rat) = (x.num.natAbs : Rat) := by
  have h := mul_den x
  unfold ab
  by_cases hx : 0 ≤ x
  · have hn : 0 ≤ x.num := Rat.num_nonneg.mpr hx
    have e : ((x.num.natAbs : Nat) : Rat) = (x.num : Rat) := by
      have : ((x.num.natAbs : Nat) : Int) = x.num := Int.natAbs_of_nonneg hn
      rw [← Rat.intCast_natCast, this]
    simp only [hx, if_true, e, h]
  · have hn : x.num < 0 := by
      have : ¬ 0 ≤ x.num := fun h => hx (Rat.num_nonneg.mp h)
      omega
    have e : ((x.num.natAbs : Nat) : Rat) = -(x.num : Rat) := by
      have : ((x.num.natAbs : Nat) : Int) = -x.num := by omega
      rw [← Rat.intCast_natCast, this, Rat.intCast_neg]
    simp only [hx, if_false, e]
    grind

theorem pow2_nat (a : Nat) : pow2 (a : Int) = ((2 ^ a : Nat) : Rat) := by
  unfold pow2; rw [Rat.zpow_natCast]; simp

theorem pow2_add (m n : Int) : pow2 (m + n) = pow2 m * pow2 n := Rat.zpow_add (by decide) m n
theorem pow2_succ (m : Int) : pow2 (m + 1) = pow2 m * 2 := by rw [pow2_add]; rfl

theorem lt_of_mul_lt_mul_right {a b d : Rat} (hd : 0 < d) (h : a * d < b * d) : a < b := by
  apply Classical.byContradiction
  intro hn
  have : b ≤ a := by grind
  have := Rat.mul_le_mul_of_nonneg_right this (by grind : (0 : Rat) ≤ d)
  grind

theorem le_of_mul_le_mul_right {a b d : Rat} (hd : 0 < d) (h : a * d ≤ b * d) : a ≤ b := by
  apply Classical.byContradiction
  intro hn
  have hlt : b < a := by grind
  have : b * d < a * d := Rat.mul_lt_mul_of_pos_right hlt hd
  grind

/-- the candidate exponent brackets |x| within a factor of two either way -/
theorem bracket (x : Rat) (hx : x ≠ 0) :
    let e0 : Int := (Nat.log2 x.num.natAbs : Int) - (Nat.log2 x.den : Int)
    pow2 (e0 - 1) < ab x ∧ ab x < pow2 (e0 + 1) := by
  intro e0
  have hn0 : x.num.natAbs ≠ 0 := by
    have : x.num ≠ 0 := fun h => hx (Rat.num_eq_zero.mp h)
    omega
  have hd0 : x.den ≠ 0 := x.den_nz
  have n1 := Nat.log2_self_le hn0
  have n2 := @Nat.lt_log2_self x.num.natAbs
  have d1 := Nat.log2_self_le hd0
  have d2 := @Nat.lt_log2_self x.den
  generalize ha : Nat.log2 x.num.natAbs = a at n1 n2 e0
  generalize hb : Nat.log2 x.den = b at d1 d2 e0
  have hmul := ab_mul_den x
  have hdpos := den_cast_pos x
  have N1 : ((2 ^ a : Nat) : Rat) ≤ (x.num.natAbs : Rat) := by exact_mod_cast n1
  have N2 : (x.num.natAbs : Rat) < ((2 ^ (a + 1) : Nat) : Rat) := by exact_mod_cast n2
  have D1 : ((2 ^ b : Nat) : Rat) ≤ (x.den : Rat) := by exact_mod_cast d1
  have D2 : (x.den : Rat) < ((2 ^ (b + 1) : Nat) : Rat) := by exact_mod_cast d2
  rw [← pow2_nat] at N1 N2 D1 D2
  constructor
  · apply lt_of_mul_lt_mul_right hdpos
    rw [hmul]
    have p := pow2_pos (e0 - 1)
    have s : pow2 (e0 - 1) * (x.den : Rat) < pow2 (e0 - 1) * pow2 ((b + 1 : Nat) : Int) := Rat.mul_lt_mul_of_pos_left D2 p
    have e : pow2 (e0 - 1) * pow2 ((b + 1 : Nat) : Int) = pow2 (a : Int) := by
      rw [← pow2_add]; congr 1; simp [e0]; omega
    grind
  · apply lt_of_mul_lt_mul_right hdpos
    rw [hmul]
    have p := pow2_pos (e0 + 1)
    have s : pow2 (e0 + 1) * pow2 (b : Int) ≤ pow2 (e0 + 1) * (x.den : Rat) := Rat.mul_le_mul_of_nonneg_left D1 (by grind)
    have e : pow2 (e0 + 1) * pow2 (b : Int) = pow2 ((a + 1 : Nat) : Int) := by
      rw [← pow2_add]; congr 1; simp [e0]; omega
    grind

theorem exponentOk_of_ne_zero (x : Rat) (hx : x ≠ 0) : exponentOk x = true := by
  obtain ⟨lo, hi⟩ := bracket x hx
  unfold exponentOk expOf
  simp only []
  generalize ((Nat.log2 x.num.natAbs : Nat) : Int) - ((Nat.log2 x.den : Nat) : Int) = e0 at lo hi
  have s0 := pow2_succ e0
  have s1 := pow2_succ (e0 - 1)
  have e : e0 - 1 + 1 = e0 := by omega
  rw [e] at s1
  by_cases h1 : pow2 e0 ≤ ab x
  · by_cases h2 : pow2 (e0 + 1) ≤ ab x
    · exfalso; grind
    · simp only [h1, h2, if_true, if_false, Bool.and_eq_true, decide_eq_true_eq, true_and]
      grind
  · simp only [h1, if_false, Bool.and_eq_true, decide_eq_true_eq]
    constructor
    · grind
    · grind

/-- so `rnd64` never takes its fall-back branch on a non-zero rational: it IS rounding to 53 significant bits -/
theorem rnd64_eq (x : Rat) (hx : x ≠ 0) :
    rnd64 x = (nearestEven (x / (pow2 (expOf x) * c52)) : Rat) * (pow2 (expOf x) * c52) := by
  unfold rnd64
  rw [exponentOk_of_ne_zero x hx]
  rfl

/-! ## correctly rounded square root (executable; used by the driver for the bit-for-bit comparison of `math.Sqrt`) -/

/-- ⌊√m⌋ for m < 2^(2·bits), bit by bit from the top -/
def isqrtBits (m : Nat) : Nat → Nat → Nat
  | 0, r => r
  | bit + 1, r => let t := r + 2 ^ bit; isqrtBits m bit (if t * t ≤ m then t else r)

/-- `2^(e−52)` for the exponent `e` of √v: `2^e ≤ √v < 2^(e+1)` (Int division rounds towards −∞ for a positive divisor) -/
def sqrtUlp (v : Rat) : Rat := pow2 (expOf v / 2) * c52

/-- the 53-bit significand of the binary64 nearest to √q for `q = v / ulp²`: `n = ⌊√q⌋`, then `n` or `n + 1` according to the side
    of `(n + ½)²` on which `q` lies (a tie — impossible for binary64 arguments — to the even one) -/
def sqrtMant (q : Rat) : Nat :=
  let n := isqrtBits q.floor.toNat 54 0
  let mid : Rat := ((n : Rat) + 1 / 2) * ((n : Rat) + 1 / 2)
  if q < mid then n else if mid < q then n + 1 else if n % 2 = 0 then n else n + 1

/-- the binary64 nearest to √v (ties to even) for a positive rational v in the normal range -/
def sqrt64 (v : Rat) : Rat :=
  if v ≤ 0 then 0 else (sqrtMant (v / (sqrtUlp v * sqrtUlp v)) : Rat) * sqrtUlp v

/-! ## `sqrt64` is the correctly rounded square root -/

theorem isqrtBits_spec (m : Nat) : ∀ (bit r : Nat), r * r ≤ m → m < (r + 2 ^ bit) * (r + 2 ^ bit) →
    isqrtBits m bit r * isqrtBits m bit r ≤ m ∧ m < (isqrtBits m bit r + 1) * (isqrtBits m bit r + 1) := by
  intro bit
  induction bit with
  | zero => intro r h1 h2; simpa [isqrtBits] using ⟨h1, h2⟩
  | succ bit ih =>
    intro r h1 h2
    simp only [isqrtBits]
    by_cases ht : (r + 2 ^ bit) * (r + 2 ^ bit) ≤ m
    · simp only [ht, if_true]
      apply ih _ ht
      have e : r + 2 ^ bit + 2 ^ bit = r + 2 ^ (bit + 1) := by rw [Nat.pow_succ]; omega
      rw [e]; exact h2
    · simp only [ht, if_false]
      exact ih r h1 (by omega)

/-- ⌊√m⌋ for every m below 2^108 -/
theorem isqrt_spec (m : Nat) (hm : m < 2 ^ 108) :
    isqrtBits m 54 0 * isqrtBits m 54 0 ≤ m ∧ m < (isqrtBits m 54 0 + 1) * (isqrtBits m 54 0 + 1) :=
  isqrtBits_spec m 54 0 (by omega) (by
    have : (0 + 2 ^ 54) * (0 + 2 ^ 54) = 2 ^ 108 := by decide
    omega)


/-- the rounding decision of `sqrt64` at the level of `q = v / ulp²`: the chosen integer is within ½ of √q -/
theorem sqrtRound_bracket (q : Rat) (n : Nat) (hn1 : 1 ≤ n) (h1 : (n : Rat) * n ≤ q) (h2 : q < ((n : Rat) + 1) * ((n : Rat) + 1)) :
    let mid : Rat := ((n : Rat) + 1 / 2) * ((n : Rat) + 1 / 2)
    let n' : Nat := if q < mid then n else if mid < q then n + 1 else if n % 2 = 0 then n else n + 1
    ((n' : Rat) - 1 / 2) * ((n' : Rat) - 1 / 2) ≤ q ∧ q ≤ ((n' : Rat) + 1 / 2) * ((n' : Rat) + 1 / 2) ∧ 1 ≤ n' := by
  intro mid n'
  have hn : (1 : Rat) ≤ (n : Rat) := by exact_mod_cast hn1
  have c : ((n + 1 : Nat) : Rat) = (n : Rat) + 1 := by simp
  have hmid : mid = (n : Rat) * n + n + 1 / 4 := by simp only [mid]; grind
  by_cases a : q < mid
  · have e : n' = n := by simp only [n', a, if_true]
    rw [e]; refine ⟨by grind, by grind, hn1⟩
  · by_cases b : mid < q
    · have e : n' = n + 1 := by simp only [n', a, b, if_true, if_false]
      rw [e, c]; refine ⟨by grind, by grind, by omega⟩
    · have hq : q = mid := by grind
      by_cases p : n % 2 = 0
      · have e : n' = n := by simp only [n', a, b, p, if_true, if_false]
        rw [e]; refine ⟨by grind, by grind, hn1⟩
      · have e : n' = n + 1 := by simp only [n', a, b, p, if_false]
        rw [e, c]; refine ⟨by grind, by grind, by omega⟩



theorem sqrtUlp_pos (v : Rat) : 0 < sqrtUlp v := by
  have : (0 : Rat) < c52 := by unfold c52; grind
  exact Rat.mul_pos (pow2_pos _) this

theorem sqrt64_bracket (v : Rat) (hv : 0 < v) (hlo : sqrtUlp v * sqrtUlp v ≤ v)
    (hhi : v < ((2 ^ 108 : Nat) : Rat) * (sqrtUlp v * sqrtUlp v)) :
    (sqrt64 v - sqrtUlp v / 2) * (sqrt64 v - sqrtUlp v / 2) ≤ v ∧
    v ≤ (sqrt64 v + sqrtUlp v / 2) * (sqrt64 v + sqrtUlp v / 2) ∧ sqrtUlp v ≤ sqrt64 v := by
  have hup := sqrtUlp_pos v
  have hnv : ¬ v ≤ 0 := by grind
  have hu2 : 0 < sqrtUlp v * sqrtUlp v := Rat.mul_pos hup hup
  unfold sqrt64
  simp only [hnv, if_false]
  generalize hq : v / (sqrtUlp v * sqrtUlp v) = q
  have hqv : q * (sqrtUlp v * sqrtUlp v) = v := by
    rw [← hq]; have : sqrtUlp v * sqrtUlp v ≠ 0 := by grind
    grind
  have hq1 : (1 : Rat) ≤ q := by
    apply le_of_mul_le_mul_right hu2; rw [hqv]; grind
  have hq2 : q < ((2 ^ 108 : Nat) : Rat) := by
    apply lt_of_mul_lt_mul_right hu2; rw [hqv]; exact hhi
  -- the floor
  have f1 := Rat.floor_le q
  have f2 := Rat.lt_floor_add_one q
  have fpos : (1 : Int) ≤ q.floor := Rat.le_floor_iff.mpr (by simpa using hq1)
  have flt : q.floor < ((2 ^ 108 : Nat) : Int) := Rat.floor_lt_iff.mpr (by simpa using hq2)
  generalize hm : q.floor.toNat = m
  have hmz : (m : Int) = q.floor := by rw [← hm]; omega
  have hm1 : 1 ≤ m := by omega
  have hm2 : m < 2 ^ 108 := by omega
  have mq1 : (m : Rat) ≤ q := by
    have : ((m : Int) : Rat) ≤ q := by rw [hmz]; exact f1
    simpa [Rat.intCast_natCast] using this
  have mq2 : q < (m : Rat) + 1 := by
    have : q < (((m : Int) + 1 : Int) : Rat) := by rw [hmz]; exact f2
    simpa [Rat.intCast_natCast, Rat.intCast_add] using this
  obtain ⟨s1, s2⟩ := isqrt_spec m hm2
  generalize hn : isqrtBits m 54 0 = n at s1 s2
  have hn1 : 1 ≤ n := by
    apply Classical.byContradiction; intro h
    have : n = 0 := by omega
    subst this; simp at s2; omega
  have r1 : (n : Rat) * n ≤ q := by
    have : ((n * n : Nat) : Rat) ≤ (m : Rat) := by exact_mod_cast s1
    have e : ((n * n : Nat) : Rat) = (n : Rat) * n := by simp
    grind
  have r2 : q < ((n : Rat) + 1) * ((n : Rat) + 1) := by
    have h' : m + 1 ≤ (n + 1) * (n + 1) := by omega
    have : ((m + 1 : Nat) : Rat) ≤ (((n + 1) * (n + 1) : Nat) : Rat) := by exact_mod_cast h'
    have e1 : ((m + 1 : Nat) : Rat) = (m : Rat) + 1 := by simp
    have e2 : (((n + 1) * (n + 1) : Nat) : Rat) = ((n : Rat) + 1) * ((n : Rat) + 1) := by simp
    grind
  have br := sqrtRound_bracket q n hn1 r1 r2
  simp only [] at br
  have hmant : sqrtMant q = (if q < ((n : Rat) + 1 / 2) * ((n : Rat) + 1 / 2) then n
      else if ((n : Rat) + 1 / 2) * ((n : Rat) + 1 / 2) < q then n + 1 else if n % 2 = 0 then n else n + 1) := by
    unfold sqrtMant; simp only [hm, hn]
  rw [hmant]
  generalize (if q < ((n : Rat) + 1 / 2) * ((n : Rat) + 1 / 2) then n
      else if ((n : Rat) + 1 / 2) * ((n : Rat) + 1 / 2) < q then n + 1 else if n % 2 = 0 then n else n + 1) = n' at br ⊢
  obtain ⟨b1, b2, b3⟩ := br
  have b3' : (1 : Rat) ≤ (n' : Rat) := by exact_mod_cast b3
  generalize sqrtUlp v = ulp at *
  have m1 := Rat.mul_le_mul_of_nonneg_right b1 (by grind : (0 : Rat) ≤ ulp * ulp)
  have m2 := Rat.mul_le_mul_of_nonneg_right b2 (by grind : (0 : Rat) ≤ ulp * ulp)
  have m3 := Rat.mul_le_mul_of_nonneg_right b3' (by grind : (0 : Rat) ≤ ulp)
  refine ⟨by grind, by grind, by grind⟩


theorem c52sq : ((2 ^ 108 : Nat) : Rat) * (c52 * c52) = 16 := by decide +kernel
theorem c52sq_le : c52 * c52 ≤ 1 := by decide +kernel

/-- the hypotheses of `sqrt64_bracket` hold for every positive rational: `q = v / ulp²` lies in `[2^104, 2^106)` -/
theorem sqrt_range (v : Rat) (hv : 0 < v) :
    sqrtUlp v * sqrtUlp v ≤ v ∧ v < ((2 ^ 108 : Nat) : Rat) * (sqrtUlp v * sqrtUlp v) := by
  have hne : v ≠ 0 := by grind
  have hok := exponentOk_of_ne_zero v hne
  simp only [exponentOk, Bool.and_eq_true, decide_eq_true_eq] at hok
  rw [ab_of_nonneg v (by grind)] at hok
  obtain ⟨lo, hi⟩ := hok
  unfold sqrtUlp
  generalize expOf v = E at lo hi
  have hE : E = E / 2 + E / 2 ∨ E = E / 2 + E / 2 + 1 := by omega
  generalize E / 2 = e at hE
  have pe := pow2_pos e
  have pp : pow2 e * pow2 e = pow2 (e + e) := (pow2_add e e).symm
  have ppos := pow2_pos (e + e)
  have h1 := c52sq
  have h2 := c52sq_le
  have hc : (0 : Rat) ≤ c52 * c52 := by unfold c52; grind
  have e1 : pow2 e * c52 * (pow2 e * c52) = pow2 (e + e) * (c52 * c52) := by rw [← pp]; grind
  rw [e1]
  have m1 := Rat.mul_le_mul_of_nonneg_left h2 (by grind : (0 : Rat) ≤ pow2 (e + e))
  have e2 : ((2 ^ 108 : Nat) : Rat) * (pow2 (e + e) * (c52 * c52)) = pow2 (e + e) * 16 := by
    rw [← h1]; grind
  rw [e2]
  rcases hE with h | h
  · rw [h] at lo hi; constructor <;> grind
  · rw [h, pow2_succ] at lo hi; constructor <;> grind

/-- **`sqrt64` is the correctly rounded square root**: for every positive rational v the value returned is within half a unit in
    the last place (of the binade of √v) of √v — stated without √: `(r − ulp/2)² ≤ v ≤ (r + ulp/2)²` with `r ≥ ulp` (so both
    bases are positive and the squares are monotone) -/
theorem sqrt64_correctly_rounded (v : Rat) (hv : 0 < v) :
    (sqrt64 v - sqrtUlp v / 2) * (sqrt64 v - sqrtUlp v / 2) ≤ v ∧
    v ≤ (sqrt64 v + sqrtUlp v / 2) * (sqrt64 v + sqrtUlp v / 2) ∧ sqrtUlp v ≤ sqrt64 v :=
  sqrt64_bracket v hv (sqrt_range v hv).1 (sqrt_range v hv).2


end Bmc.FloatModel
