import Bmc.Proto.Session
/-! Laws of the in-session send loop used by the C03/C04/C09/C10/C11 theorems. -/
namespace Bmc.Proto
open Bmc Bmc.Wire Bmc.Crypto

/-- the part of the session state that never changes during a command -/
structure Keys where
  localID : Nat
  remoteID : Nat
  integ : Nat
  k1 : Bytes
  k2 : Bytes
  deriving DecidableEq

def Sess.keys (s : Sess) : Keys := ⟨s.localID, s.remoteID, s.integ, s.k1, s.k2⟩

/-- what decoding a reply leaves in the layers, and how the chain ended — as a function of the keys only -/
structure Seen where
  rmcp : RMCP
  v2 : V2Session
  msg : Message
  how : Decoded

def Sess.seen (p : Sess × Decoded) : Seen := ⟨p.1.rmcp, p.1.v2, p.1.msg, p.2⟩

theorem onMessage_keys (s : Sess) (d : GoSlice) :
    (onMessage s d).1.keys = s.keys ∧ (onMessage s d).1.inbound = s.inbound := by
  unfold onMessage
  repeat' split
  all_goals exact ⟨rfl, rfl⟩

theorem onWrapper_keys (C : Ops) (s : Sess) (v : V2Session) :
    (onWrapper C s v).1.keys = s.keys ∧ (onWrapper C s v).1.inbound = s.inbound := by
  unfold onWrapper
  repeat' split
  all_goals first | exact ⟨rfl, rfl⟩ | exact onMessage_keys _ _

theorem onReply_keys (C : Ops) (s : Sess) (d : GoSlice) :
    (onReply C s d).1.keys = s.keys ∧ (onReply C s d).1.inbound = s.inbound := by
  unfold onReply
  repeat' split
  all_goals first | exact ⟨rfl, rfl⟩ | exact onWrapper_keys _ _ _

theorem initLayers_keys (s : Sess) (c : Cmd) : (initLayers s c).keys = s.keys ∧ (initLayers s c).inbound = s.inbound :=
  ⟨rfl, rfl⟩

theorem attempt_keys (C : Ops) (s : Sess) (c : Cmd) (iv : Bytes) :
    (attempt C s c iv).1.keys = s.keys ∧ (attempt C s c iv).1.inbound = (s.inbound + 1) % 4294967296 :=
  ⟨rfl, rfl⟩

/-- the datagram an attempt transmits depends only on the keys, the command, the counter and the IV -/
def datagramOf (C : Ops) (k : Keys) (c : Cmd) (inbound : Nat) (iv : Bytes) : Bytes :=
  (attempt C (initLayers { inbound := inbound, localID := k.localID, remoteID := k.remoteID, integ := k.integ
                           k1 := k.k1, k2 := k.k2 } c) c iv).2

theorem attempt_init_eq (C : Ops) (s : Sess) (c : Cmd) (iv : Bytes) :
    (attempt C (initLayers s c) c iv).2 = datagramOf C s.keys c s.inbound iv := rfl

end Bmc.Proto

namespace Bmc.Proto
open Bmc Bmc.Wire Bmc.Crypto

/-- a session state holding only the keys (fresh layers, zero counter) -/
def Keys.sess (k : Keys) : Sess :=
  { localID := k.localID, remoteID := k.remoteID, integ := k.integ, k1 := k.k1, k2 := k.k2 }

/-- what the send loop looks at after decoding a reply: how the chain ended and, when it reached the message layer,
    the session wrapper and message it decoded -/
def view (p : Sess × Decoded) : Decoded × Option (V2Session × Message) :=
  (p.2, if p.2 = .message then some (p.1.v2, p.1.msg) else none)

theorem onMessage_view (s s' : Sess) (hv : s'.v2 = s.v2) (d : GoSlice) : view (onMessage s' d) = view (onMessage s d) := by
  unfold onMessage
  have h : Message.decodeGo 8 s'.msg d = Message.decodeGo 8 s.msg d := rfl
  rw [h]
  split
  · rfl
  · split <;> simp [view, hv]

theorem onWrapper_view (C : Ops) (s s' : Sess) (hk : s'.k2 = s.k2) (v : V2Session) :
    view (onWrapper C s' v) = view (onWrapper C s v) := by
  unfold onWrapper
  simp only [hk]
  repeat' split
  all_goals first | rfl | (refine onMessage_view _ _ ?_ _; rfl)

/-- decoding a reply gives the same verdict, wrapper and message whatever the layers held before and whatever the
    counter is: they are a function of the keys and the datagram -/
theorem onReply_view (C : Ops) (s : Sess) (d : GoSlice) : view (onReply C s d) = view (onReply C s.keys.sess d) := by
  unfold onReply
  have h1 : RMCP.decodeGo s.rmcp d = RMCP.decodeGo s.keys.sess.rmcp d := rfl
  rw [h1]
  have h2 : ∀ p, V2Session.decodeGo (integMac C s.integ s.k1) s.v2 p
      = V2Session.decodeGo (integMac C s.keys.sess.integ s.keys.sess.k1) s.keys.sess.v2 p := fun _ => rfl
  simp only [h2]
  repeat' split
  all_goals first | rfl | (refine onWrapper_view C _ _ ?_ _; rfl)

end Bmc.Proto
