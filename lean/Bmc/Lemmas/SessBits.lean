import Bmc.Spec.Sess
import Bmc.Wire.Simple
import Bmc.Wire.Sess
import Bmc.Wire.Chassis
/-! Byte-level facts used by `Proofs/C07/Sess.lean` (finite checks over whole field ranges), and the reading of a
    flags byte the driver prints (`flag b n` = bit `n` of `b`). -/
namespace Bmc.Lemmas.Sess
open Bmc Bmc.Wire Bmc.Spec

/-- bit `n` of a flags byte — the expression `Driver.kvBit` prints -/
def flag (b : UInt8) (n : Nat) : Bool := b.toNat / 2 ^ n % 2 == 1

-- Get Channel Authentication Capabilities ------------------------------------------------------------------------
def authTypes (e o p m5 m2 n : Bool) : UInt8 := bit e 7 ||| bit o 5 ||| bit p 4 ||| bit m5 2 ||| bit m2 1 ||| bit n 0
def authStatus (k pm ul nn nu an : Bool) : UInt8 := bit k 5 ||| bit pm 4 ||| bit ul 3 ||| bit nn 2 ||| bit nu 1 ||| bit an 0
def authVersions (v2 v1 : Bool) : UInt8 := bit v2 1 ||| bit v1 0

theorem a1 : ∀ e o p m5 m2 n : Bool, authTypes e o p m5 m2 n &&& 0xb7 = authTypes e o p m5 m2 n := by decide +kernel
theorem a2 : ∀ k pm ul nn nu an : Bool, authStatus k pm ul nn nu an &&& 0x3f = authStatus k pm ul nn nu an := by
  decide +kernel
theorem a3 : ∀ v2 v1 : Bool, authVersions v2 v1 &&& 3 = authVersions v2 v1 := by decide +kernel

theorem a1_flags : ∀ e o p m5 m2 n : Bool,
    let b := authTypes e o p m5 m2 n
    flag b 7 = e ∧ flag b 5 = o ∧ flag b 4 = p ∧ flag b 2 = m5 ∧ flag b 1 = m2 ∧ flag b 0 = n := by decide +kernel
theorem a2_flags : ∀ k pm ul nn nu an : Bool,
    let b := authStatus k pm ul nn nu an
    flag b 5 = k ∧ flag b 4 = pm ∧ flag b 3 = ul ∧ flag b 2 = nn ∧ flag b 1 = nu ∧ flag b 0 = an := by decide +kernel
theorem a3_flags : ∀ v2 v1 : Bool, flag (authVersions v2 v1) 1 = v2 ∧ flag (authVersions v2 v1) 0 = v1 := by
  decide +kernel

theorem le24_read (n : Nat) (h : n < 16777216) :
    (UInt8.ofNat (n % 256)).toNat + 256 * (UInt8.ofNat (n / 256 % 256)).toNat
      + 65536 * (UInt8.ofNat (n / 65536 % 256)).toNat = n := by
  simp; omega

theorem le16_read (n : Nat) (h : n < 65536) : Wire.le16 (Spec.le16 n) = n := by
  simp [Wire.le16, Spec.le16]; omega

-- Get Session Info ---------------------------------------------------------------------------------------------------
theorem s3 : ∀ u : Nat, u < 64 → UInt8.ofNat u &&& 0x3f = UInt8.ofNat u := by decide +kernel
theorem s4 : ∀ p : Nat, p < 16 → UInt8.ofNat p &&& 0xf = UInt8.ofNat p := by decide +kernel
theorem s5 : ∀ v : Bool, ∀ c : Nat, c < 16 →
    ((((((if v then (1 : UInt8) else 0) <<< 4) ||| UInt8.ofNat c) &&& 0xf0) >>> 4 == 1) = v) ∧
    (((if v then (1 : UInt8) else 0) <<< 4) ||| UInt8.ofNat c) &&& 0xf = UInt8.ofNat c := by decide +kernel

-- Get Chassis Status -------------------------------------------------------------------------------------------------
def chassis0 (a b c d e : Bool) : UInt8 := bit a 4 ||| bit b 3 ||| bit c 2 ||| bit d 1 ||| bit e 0
def chassis2 (a b c d : Bool) : UInt8 := bit a 3 ||| bit b 2 ||| bit c 1 ||| bit d 0

theorem c0 : ∀ p : Nat, p < 4 → ∀ a b c d e : Bool,
    ((((UInt8.ofNat p <<< 5) ||| bit a 4 ||| bit b 3 ||| bit c 2 ||| bit d 1 ||| bit e 0) &&& 0x60) >>> 5 = UInt8.ofNat p) ∧
    ((UInt8.ofNat p <<< 5) ||| bit a 4 ||| bit b 3 ||| bit c 2 ||| bit d 1 ||| bit e 0) &&& 0x1f = chassis0 a b c d e := by
  decide +kernel
theorem c1 : ∀ a b c d e : Bool,
    (bit a 4 ||| bit b 3 ||| bit c 2 ||| bit d 1 ||| bit e 0) &&& 0x1f = chassis0 a b c d e := by decide +kernel
theorem c2 : ∀ s : Bool, ∀ st : Nat, st < 4 → ∀ a b c d : Bool,
    (if (bit s 6 ||| (UInt8.ofNat st <<< 4) ||| bit a 3 ||| bit b 2 ||| bit c 1 ||| bit d 0) &&& 0x40 != 0
       then ((bit s 6 ||| (UInt8.ofNat st <<< 4) ||| bit a 3 ||| bit b 2 ||| bit c 1 ||| bit d 0) &&& 0x30) >>> 4
       else 0xff) = (if s then UInt8.ofNat st else 0xff) ∧
    (bit s 6 ||| (UInt8.ofNat st <<< 4) ||| bit a 3 ||| bit b 2 ||| bit c 1 ||| bit d 0) &&& 0x0f = chassis2 a b c d := by
  decide +kernel

theorem c0_flags : ∀ a b c d e : Bool,
    let x := chassis0 a b c d e
    flag x 4 = a ∧ flag x 3 = b ∧ flag x 2 = c ∧ flag x 1 = d ∧ flag x 0 = e := by decide +kernel
theorem c2_flags : ∀ a b c d : Bool,
    let x := chassis2 a b c d
    flag x 3 = a ∧ flag x 2 = b ∧ flag x 1 = c ∧ flag x 0 = d := by decide +kernel
theorem c3_flags : ∀ a b c d e f g h : Bool,
    let x := (Spec.FrontPanel.mk a b c d e f g h).encode
    flag x 7 = a ∧ flag x 6 = b ∧ flag x 5 = c ∧ flag x 4 = d ∧ flag x 3 = e ∧ flag x 2 = f ∧ flag x 1 = g ∧ flag x 0 = h := by
  decide +kernel

end Bmc.Lemmas.Sess
