import Bmc.Gen.Dec
import Bmc.Lemmas.GenDecLoop
import Bmc.Lemmas.GenDec
import Bmc.Wire.V2Session
/-! Lemmas identifying the REGENERATED `ipmi.V2Session.DecodeFromBytes` (`Bmc.Gen.Dec.V2Session.decodeGo`, in the monad `RF`: the
    pad-scanning loop runs with fuel; `executeHash(s.IntegrityAlgorithm, ·)` a parameter) with the hand model
    `Wire.V2Session.decodeGo`. -/
set_option linter.unusedVariables false
namespace Bmc.Gen.Dec
def V2Session.toModel (g : V2Session) : Bmc.Wire.V2Session :=
  { encrypted := g.encrypted, authenticated := g.authenticated, payloadType := g.payloadDescriptor.payloadType
    enterprise := g.payloadDescriptor.enterprise.toNat, payloadID := g.payloadDescriptor.payloadID.toNat
    id := g.id.toNat, sequence := g.sequence.toNat, length := g.length.toNat, pad := g.pad, signature := g.signature
    contents := g.contents, payload := g.payload }
end Bmc.Gen.Dec
namespace Bmc.Lemmas.GenDec
open Bmc Bmc.Gen.Dec

theorem drop_cons_facts' (j : Bytes) (off : Nat) (b : UInt8) (bs : Bytes) (h : j.drop off = b :: bs) :
    off < j.length ∧ j.getD off 0 = b ∧ j.drop (off + 1) = bs := by
  have hl : off < j.length := by
    by_cases hh : off < j.length
    · exact hh
    · rw [List.drop_eq_nil_of_le (by omega)] at h; cases h
  have := List.getElem_cons_drop hl
  rw [h] at this
  simp only [List.cons.injEq] at this
  exact ⟨hl, by simp [List.getD_eq_getElem?_getD, hl, this.1], this.2⟩

theorem drop_nil_facts' (j : Bytes) (off : Nat) (h : j.drop off = []) : ¬ off < j.length := by
  intro hh
  have : (j.drop off).length = j.length - off := List.length_drop
  rw [h] at this; simp at this; omega

/-- one round of the pad-scanning loop of `V2Session.DecodeFromBytes`, as emitted -/
def v2Step {ρ : Type} (D : GoSlice) (s16 : ρ × Nat × UInt8) : RF (Option (ρ × Nat × UInt8)) := (do
      let r := s16.1
      let offset : Nat := s16.2.1
      let b : UInt8 := s16.2.2
      if ((decide (offset < D.len)) && (b == (255 : UInt8))) then (do
        let t17 ← RF.lift (D.idx offset)
        let b : UInt8 := t17
        let offset : Nat := (offset + 1)
        pure (some (r, offset, b))) else pure none)

theorem v2Step_stop {ρ : Type} (D : GoSlice) (r : ρ) (off : Nat) (b : UInt8) (h : ¬ (off < D.len ∧ b = 255)) :
    v2Step D (r, off, b) = RF.ok none := by
  unfold v2Step
  have : ((decide (off < D.len)) && (b == (255 : UInt8))) = false := by
    by_cases h1 : off < D.len
    · have : b ≠ 255 := fun hb => h ⟨h1, hb⟩
      simp [this]
    · simp [h1]
  simp only [this, Bool.false_eq_true, if_false, RF.pure_eq]

theorem v2Step_go {ρ : Type} (D : GoSlice) (r : ρ) (off : Nat) (h : off < D.len) :
    v2Step D (r, off, (255 : UInt8)) = RF.ok (some (r, off + 1, D.vis.getD off 0)) := by
  unfold v2Step
  simp only [h, decide_true, BEq.rfl, Bool.and_self, if_true, GoSlice.idx_ok _ _ h, RF.lift_ok, RF.bind_ok, RF.pure_eq]

theorem padscan_loop {ρ : Type} (D : GoSlice) : ∀ (l : Bytes) (n off : Nat) (r : ρ) (b : UInt8),
    D.vis.drop off = l → l.length < n →
    (GoDec.loopM n (v2Step D) (r, off, b)).map (fun s => (s.1, s.2.1))
      = RF.ok (r, off + (if b = 255 then Wire.scanFF l else 0)) := by
  intro l
  induction l with
  | nil =>
    intro n off r b hl hn
    obtain ⟨n, rfl⟩ : ∃ m, n = m + 1 := ⟨n - 1, by simp at hn; omega⟩
    have := drop_nil_facts' _ _ hl
    simp only [GoSlice.vis_length] at this
    rw [loopM_succ, v2Step_stop D r off b (fun h => this h.1)]
    simp only [RF.bind_ok, RF.pure_eq, RF.map, Wire.scanFF]
    split <;> rfl
  | cons x xs ih =>
    intro n off r b hl hn
    obtain ⟨n, rfl⟩ : ∃ m, n = m + 1 := ⟨n - 1, by simp at hn; omega⟩
    obtain ⟨h1, h2, h3⟩ := drop_cons_facts' _ _ _ _ hl
    simp only [GoSlice.vis_length] at h1
    rw [loopM_succ]
    by_cases hb : b = 255
    · subst hb
      rw [v2Step_go D r off h1, h2]
      simp only [RF.bind_ok, if_true]
      rw [ih n (off + 1) r x h3 (by simp at hn; omega)]
      simp only [Wire.scanFF]
      congr 2
      by_cases hx : x = 255
      · simp [hx]; omega
      · simp [hx]
    · rw [v2Step_stop D r off b (fun h => hb h.2)]
      simp only [RF.bind_ok, RF.pure_eq, RF.map, hb, if_false]
      rfl

theorem le32Go_ok (s : GoSlice) (h : 4 ≤ s.len) : GoDec.le32Go s = .ok (GoDec.le32 s.vis) := by
  unfold GoDec.le32Go; have : ¬ s.len < 4 := by omega
  simp [this]
theorem le16Go_ok (s : GoSlice) (h : 2 ≤ s.len) : GoDec.le16Go s = .ok (GoDec.le16 s.vis) := by
  unfold GoDec.le16Go; have : ¬ s.len < 2 := by omega
  simp [this]

/-- `V2Session.DecodeFromBytes` from the session ID on (after the optional OEM fields), as emitted -/
def v2Tail (integrityAlgorithm_executeHash : Bytes → Bytes) (data : GoSlice) (r : V2Session) (offset : Nat) : RF V2Session := do
  let t8 ← RF.lift (data.slice offset (offset + 4))
  let t9 ← RF.lift (GoDec.le32Go t8)
  let r := { r with id := t9 }
  let t10 ← RF.lift (data.slice (offset + 4) (offset + 8))
  let t11 ← RF.lift (GoDec.le32Go t10)
  let r := { r with sequence := t11 }
  let t12 ← RF.lift (data.slice (offset + 8) (offset + 10))
  let t13 ← RF.lift (GoDec.le16Go t12)
  let r := { r with length := t13 }
  let offset : Nat := (offset + 10)
  let t14 ← RF.lift (data.slice 0 offset)
  let r := { r with contents := t14.vis }
  if data.len < (offset + (r.length).toNat) then RF.err else
  let t15 ← RF.lift (data.slice offset (offset + (r.length).toNat))
  let r := { r with payload := t15.vis }
  let offset : Nat := (offset + (r.length).toNat)
  if (!r.authenticated) then (do
    let r := { r with pad := (0 : UInt8) }
    let r := { r with signature := [] }
    pure r) else
  let padStart : Nat := offset
  let b : UInt8 := (255 : UInt8)
  let j18 ← GoDec.loopM (data.len + 1) (v2Step data) (r, offset, b)
  let r := j18.1
  let offset : Nat := j18.2.1
  let b : UInt8 := j18.2.2
  let offset : Int := (((offset : Nat) : Int) - ((1 : Nat) : Int))
  let r := { r with pad := (UInt8.ofNat (Int.toNat ((offset - ((padStart : Nat) : Int)) % 256))) }
  let offset : Int := (offset + ((2 : Nat) : Int))
  if ((data.len : Nat) : Int) < offset then (do
    let r := { r with signature := [] }
    RF.err) else
  let t20 ← RF.lift (GoDec.nat offset)
  let t19 ← RF.lift (data.sliceFrom t20)
  let r := { r with signature := t19.vis }
  let t22 ← RF.lift (GoDec.nat offset)
  let t21 ← RF.lift (data.slice 0 t22)
  let signature : Bytes := (integrityAlgorithm_executeHash t21.vis)
  if (!(r.signature == signature)) then RF.err else
  pure r

theorem V2Session_unfold (integrityAlgorithm_executeHash : Bytes → Bytes) (prev : V2Session) (data : GoSlice) :
    V2Session.decodeGo integrityAlgorithm_executeHash prev data = (do
  let r := prev
  if data.len < 12 then RF.err else
  let t1 ← RF.lift (data.idx 0)
  if (t1 != (6 : UInt8)) then RF.err else
  let t2 ← RF.lift (data.idx 1)
  let r := { r with encrypted := ((t2 &&& (128 : UInt8)) != (0 : UInt8)) }
  let t3 ← RF.lift (data.idx 1)
  let r := { r with authenticated := ((t3 &&& (64 : UInt8)) != (0 : UInt8)) }
  let t4 ← RF.lift (data.idx 1)
  let r := { r with payloadDescriptor := { r.payloadDescriptor with payloadType := (t4 &&& (63 : UInt8)) } }
  let offset : Nat := 2
  let j7 ← (if (r.payloadDescriptor.payloadType == (2 : UInt8)) then (do
      if data.len < 18 then RF.err else
      let t5 ← RF.lift (data.slice 2 6)
      let r := { r with payloadDescriptor := { r.payloadDescriptor with enterprise := (GoDec.le32 t5.vis) } }
      let t6 ← RF.lift (data.slice 6 8)
      let r := { r with payloadDescriptor := { r.payloadDescriptor with payloadID := (GoDec.le16 t6.vis) } }
      let offset : Nat := (offset + 6)
      pure (r, offset)) else (do
      let r := { r with payloadDescriptor := { r.payloadDescriptor with enterprise := (0 : UInt32) } }
      let r := { r with payloadDescriptor := { r.payloadDescriptor with payloadID := (0 : UInt16) } }
      pure (r, offset)))
  let r := j7.1
  let offset : Nat := j7.2
  v2Tail integrityAlgorithm_executeHash data r offset) := rfl

/-- the hand model from the session ID on -/
def hTail (mac : Bytes → Bytes) (d : GoSlice) (enc auth : Bool) (pt : UInt8) (ent pid off : Nat) : R Wire.V2Session := do
  let sId ← d.slice off (off + 4)
  let sSeq ← d.slice (off + 4) (off + 8)
  let sLen ← d.slice (off + 8) (off + 10)
  let len := Wire.le16 sLen.vis
  let off := off + 10
  let contents ← d.slice 0 off
  if d.len < off + len then R.err else
  let payload ← d.slice off (off + len)
  let off := off + len
  if !auth then
    pure { encrypted := enc, authenticated := auth, payloadType := pt, enterprise := ent, payloadID := pid
           id := Wire.le32 sId.vis, sequence := Wire.le32 sSeq.vis, length := len, pad := 0, signature := []
           contents := contents.vis, payload := payload.vis }
  else
    let rest ← d.sliceFrom off
    let n := Wire.scanFF rest.vis
    let sigOff := off + n + 1
    if d.len < sigOff then R.err else
    let sig ← d.sliceFrom sigOff
    let signed ← d.slice 0 sigOff
    if sig.vis != mac signed.vis then R.err else
    pure { encrypted := enc, authenticated := auth, payloadType := pt, enterprise := ent, payloadID := pid
           id := Wire.le32 sId.vis, sequence := Wire.le32 sSeq.vis, length := len
           pad := UInt8.ofNat (n - 1), signature := sig.vis
           contents := contents.vis, payload := payload.vis }

theorem hand_unfold (mac : Bytes → Bytes) (p : Wire.V2Session) (d : GoSlice) :
    Wire.V2Session.decodeGo mac p d = (do
  if d.len < 12 then R.err else
  let b0 ← d.idx 0
  if b0 != 6 then R.err else
  let b1 ← d.idx 1
  let enc := b1 &&& 0x80 != 0
  let auth := b1 &&& 0x40 != 0
  let pt := b1 &&& 0x3f
  let oem := pt == 2
  if oem && d.len < 18 then R.err else
  let ent ← if oem then (do let s ← d.slice 2 6; pure (Wire.le32 s.vis)) else pure 0
  let pid ← if oem then (do let s ← d.slice 6 8; pure (Wire.le16 s.vis)) else pure 0
  hTail mac d enc auth pt ent pid (if oem then 8 else 2)) := rfl

theorem scanFF_pos (l : Bytes) (h : 0 < l.length) : 1 ≤ Wire.scanFF l := by
  cases l with
  | nil => simp at h
  | cons b bs => simp only [Wire.scanFF]; split <;> omega

theorem pad_mod (n P : Nat) (hn : 1 ≤ n) :
    UInt8.ofNat (Int.toNat (((((P + n : Nat) : Int) - ((1 : Nat) : Int)) - ((P : Nat) : Int)) % 256)) = UInt8.ofNat (n - 1) := by
  have : ((((P + n : Nat) : Int) - ((1 : Nat) : Int)) - ((P : Nat) : Int)) % 256 = (((n - 1) % 256 : Nat) : Int) := by omega
  rw [this, Int.toNat_natCast]
  apply UInt8.toNat.inj
  simp

theorem tail_spec_v2 (mac : Bytes → Bytes) (d : GoSlice) (r : V2Session) (off : Nat) (hoff : off + 10 ≤ d.len) :
    (v2Tail mac d r off).map V2Session.toModel
      = RF.lift (hTail mac d r.encrypted r.authenticated r.payloadDescriptor.payloadType
          r.payloadDescriptor.enterprise.toNat r.payloadDescriptor.payloadID.toNat off) := by
  unfold v2Tail hTail
  rw [GoSlice.slice_ok _ off (off + 4) (by omega) (by omega), GoSlice.slice_ok _ (off + 4) (off + 8) (by omega) (by omega),
    GoSlice.slice_ok _ (off + 8) (off + 10) (by omega) (by omega)]
  simp only [RF.lift_ok, RF.bind_ok, R.bind_ok]
  rw [le32Go_ok _ (by simp only [GoSlice.sub_len]; omega), le32Go_ok _ (by simp only [GoSlice.sub_len]; omega),
    le16Go_ok _ (by simp only [GoSlice.sub_len]; omega)]
  simp only [RF.lift_ok, RF.bind_ok, le16_toNat]
  rw [GoSlice.slice_ok _ 0 (off + 10) (by omega) (by omega)]
  simp only [RF.lift_ok, RF.bind_ok, R.bind_ok]
  generalize hL : Wire.le16 (d.sub (off + 8) (off + 10) (by omega) (by omega)).vis = L
  by_cases hlen : d.len < off + 10 + L
  · simp only [hlen, if_true, RF.map, RF.lift_err]
  · simp only [hlen, if_false]
    rw [GoSlice.slice_ok _ (off + 10) (off + 10 + L) (by omega) (by omega)]
    simp only [RF.lift_ok, RF.bind_ok, R.bind_ok]
    by_cases ha : (!r.authenticated) = true
    · simp only [ha, if_true, RF.pure_eq, R.pure_eq, RF.map, RF.lift_ok, V2Session.toModel, le32_toNat, le16_toNat, hL]
    · simp only [ha, if_false, Bool.false_eq_true]
      rw [GoSlice.sliceFrom_ok _ (off + 10 + L) (by omega)]
      simp only [R.bind_ok]
      have key := padscan_loop d (d.vis.drop (off + 10 + L)) (d.len + 1) (off + 10 + L)
        ({ r with id := GoDec.le32 (d.sub off (off + 4) (by omega) (by omega)).vis,
                  sequence := GoDec.le32 (d.sub (off + 4) (off + 8) (by omega) (by omega)).vis,
                  length := GoDec.le16 (d.sub (off + 8) (off + 10) (by omega) (by omega)).vis,
                  contents := (d.sub 0 (off + 10) (by omega) (by omega)).vis,
                  payload := (d.sub (off + 10) (off + 10 + L) (by omega) (by omega)).vis } : V2Session) 255 rfl (by simp; omega)
      simp only [if_true] at key
      have hrest : (d.sub (off + 10 + L) d.len (by omega) (Nat.le_refl _)).vis = d.vis.drop (off + 10 + L) := by
        simp only [GoSlice.sub_vis, GoSlice.take_len_drop_vis]
      rw [hrest]
      generalize hN : Wire.scanFF (d.vis.drop (off + 10 + L)) = N at key ⊢
      have hNle : N ≤ d.len - (off + 10 + L) := by
        have := Wire.scanFF_le (d.vis.drop (off + 10 + L)); rw [hN] at this; simp at this; omega
      generalize GoDec.loopM (d.len + 1) (v2Step d) _ = F at key ⊢
      cases F with
      | ok st =>
        simp only [RF.map, RF.ok.injEq, Prod.mk.injEq] at key
        obtain ⟨k1, k2⟩ := key
        simp only [RF.bind_ok, k1, k2]
        by_cases hsig : d.len < off + 10 + L + N + 1
        · have : ((d.len : Nat) : Int) < ((off + 10 + L + N : Nat) : Int) - ((1 : Nat) : Int) + ((2 : Nat) : Int) := by omega
          simp only [hsig, this, if_true, RF.map, RF.lift_err]
        · have : ¬ ((d.len : Nat) : Int) < ((off + 10 + L + N : Nat) : Int) - ((1 : Nat) : Int) + ((2 : Nat) : Int) := by omega
          have hnat : GoDec.nat (((off + 10 + L + N : Nat) : Int) - ((1 : Nat) : Int) + ((2 : Nat) : Int)) = .ok (off + 10 + L + N + 1) := by
            rw [GoDec.nat_ok _ (by omega)]; congr 1; omega
          simp only [hsig, this, if_false, hnat, RF.lift_ok, RF.bind_ok]
          rw [GoSlice.sliceFrom_ok _ _ (by omega), GoSlice.slice_ok _ 0 _ (by omega) (by omega)]
          simp only [RF.lift_ok, RF.bind_ok, R.bind_ok]
          have hN1 : 1 ≤ N := by
            have := scanFF_pos (d.vis.drop (off + 10 + L)) (by simp; omega)
            rw [hN] at this; exact this
          have hpad := pad_mod N (off + 10 + L) hN1
          by_cases hm : ((d.sub (off + 10 + L + N + 1) d.len (by omega) (Nat.le_refl _)).vis
              != mac (d.sub 0 (off + 10 + L + N + 1) (by omega) (by omega)).vis) = true
          · have hm' : (!((d.sub (off + 10 + L + N + 1) d.len (by omega) (Nat.le_refl _)).vis
              == mac (d.sub 0 (off + 10 + L + N + 1) (by omega) (by omega)).vis)) = true := hm
            simp only [hm, hm', if_true, RF.map, RF.lift_err]
          · have hm' : ¬ (!((d.sub (off + 10 + L + N + 1) d.len (by omega) (Nat.le_refl _)).vis
              == mac (d.sub 0 (off + 10 + L + N + 1) (by omega) (by omega)).vis)) = true := hm
            simp only [hm, hm', RF.pure_eq, R.pure_eq, RF.map, V2Session.toModel, hpad]
            simp only [Bool.false_eq_true, if_false, RF.lift_ok, le32_toNat, le16_toNat, hL]
      | err => simp [RF.map] at key
      | panic => simp [RF.map] at key
      | overread => simp [RF.map] at key
      | outOfFuel => simp [RF.map] at key

theorem V2Session_lift (mac : Bytes → Bytes) (prev : V2Session) (d : GoSlice) :
    (V2Session.decodeGo mac prev d).map V2Session.toModel = RF.lift (Wire.V2Session.decodeGo mac (V2Session.toModel prev) d) := by
  rw [V2Session_unfold, hand_unfold]
  by_cases h12 : d.len < 12
  · rw [if_pos h12, if_pos h12]; rfl
  · rw [if_neg h12, if_neg h12]
    rw [GoSlice.idx_ok _ _ (by omega : 0 < d.len), GoSlice.idx_ok _ _ (by omega : 1 < d.len)]
    simp only [RF.lift_ok, RF.bind_ok, R.bind_ok]
    by_cases h6 : (List.getD d.vis 0 0 != 6) = true
    · simp only [h6, if_true, RF.map, RF.lift_err]
    · simp only [h6, if_false, Bool.false_eq_true]
      by_cases hoem : (List.getD d.vis 1 0 &&& 63 == 2) = true
      · simp only [hoem, if_true, Bool.true_and, decide_eq_true_eq]
        by_cases h18 : d.len < 18
        · simp only [h18, if_true, RF.bind_err, RF.map, RF.lift_err]
        · simp only [h18, if_false]
          rw [GoSlice.slice_ok _ 2 6 (by omega) (by omega), GoSlice.slice_ok _ 6 8 (by omega) (by omega)]
          simp only [RF.lift_ok, RF.bind_ok, R.bind_ok, R.pure_eq, RF.pure_eq]
          have := tail_spec_v2 mac d
            { prev with encrypted := List.getD d.vis 1 0 &&& 128 != 0, authenticated := List.getD d.vis 1 0 &&& 64 != 0,
                        payloadDescriptor := { payloadType := List.getD d.vis 1 0 &&& 63,
                                               enterprise := GoDec.le32 (d.sub 2 6 (by omega) (by omega)).vis,
                                               payloadID := GoDec.le16 (d.sub 6 8 (by omega) (by omega)).vis } } 8 (by omega)
          simp only [le32_toNat, le16_toNat] at this
          exact this
      · simp only [hoem, if_false, Bool.false_and, Bool.false_eq_true, RF.pure_eq, R.pure_eq, RF.bind_ok, R.bind_ok]
        have := tail_spec_v2 mac d
            { prev with encrypted := List.getD d.vis 1 0 &&& 128 != 0, authenticated := List.getD d.vis 1 0 &&& 64 != 0,
                        payloadDescriptor := { payloadType := List.getD d.vis 1 0 &&& 63, enterprise := 0, payloadID := 0 } } 2 (by omega)
        exact this

end Bmc.Lemmas.GenDec
