import Bmc.Proofs.GenOrch.RetrieveSupportedCipherSuites
import Bmc.Proto.Discovery
/-! Helper lemmas for `Proofs/GenOrch/DetermineCipherSuite.lean`: the selection (a Go map used as a set, then the first
    desired suite in it) against the hand model's `find?` / `contains`; discovery followed by the selection, with the
    regenerated `RetrieveSupportedCipherSuites` as a black box (its equality theorem). -/
namespace Bmc.Lemmas.GenOrchSuites
open Bmc Bmc.GoOrch Bmc.Gen.Orch Bmc.Proto.Enum Bmc.Lemmas.GenOrch
open Bmc.Proto Bmc.Proofs.GenOrch

def viewSuite (c : Gen.Dec.CipherSuite) : Suite :=
  ⟨c.authenticationAlgorithm.toNat, c.integrityAlgorithm.toNat, c.confidentialityAlgorithm.toNat⟩

theorem viewSuite_inj (a b : Gen.Dec.CipherSuite) : viewSuite a = viewSuite b ↔ a = b := by
  constructor
  · intro h
    cases a; cases b
    simp only [viewSuite, Suite.mk.injEq] at h
    simp only [Gen.Dec.CipherSuite.mk.injEq]
    exact ⟨UInt8.toNat_inj.mp h.1, UInt8.toNat_inj.mp h.2.1, UInt8.toNat_inj.mp h.2.2⟩
  · intro h; rw [h]

/-- what `determineCipherSuite` returns, and whether it ran discovery, read off the hand model's outcome -/
def resultOf : Choice → R Suite
  | .propose s _ => .ok s
  | _ => .err
def discoveryRan : Choice → Bool
  | .propose _ d => d
  | _ => true

theorem suiteOfEntry_toEntry (r : Gen.Dec.CipherSuiteRecord) : suiteOfEntry r.toEntry = viewSuite r.cipherSuite := rfl

/-- the selection after discovery: the first desired suite among the advertised ones -/
theorem find_view (desired : List Gen.Dec.CipherSuite) (recs : List Gen.Dec.CipherSuiteRecord) :
    (desired.find? (fun d => recs.any (fun x => decide (x.cipherSuite = d)))).map viewSuite
      = (desired.map viewSuite).find? (fun p => ((recs.map Gen.Dec.CipherSuiteRecord.toEntry).map suiteOfEntry).contains p) := by
  induction desired with
  | nil => rfl
  | cons d ds ih =>
    simp only [List.map_cons, List.find?_cons]
    have h : recs.any (fun x => decide (x.cipherSuite = d))
        = ((recs.map Gen.Dec.CipherSuiteRecord.toEntry).map suiteOfEntry).contains (viewSuite d) := by
      rw [Bool.eq_iff_iff, List.map_map]
      simp only [List.any_eq_true, decide_eq_true_eq, List.contains_iff_mem, List.mem_map, Function.comp]
      constructor
      · rintro ⟨x, hx, rfl⟩; exact ⟨x, hx, rfl⟩
      · rintro ⟨x, hx, he⟩; exact ⟨x, hx, (viewSuite_inj _ _).mp he⟩
    rw [← h]
    cases recs.any (fun x => decide (x.cipherSuite = d)) <;> simp [ih]

/-- the selection after discovery, as the regenerated code computes it (a set of the advertised suites, then the first
    desired one in it), against the hand model's `find?` / `contains` -/
theorem select_view (desired : List Gen.Dec.CipherSuite) (recs : List Gen.Dec.CipherSuiteRecord) :
    (desired.find? (fun d => mapHas (recs.foldl (fun m (x : Gen.Dec.CipherSuiteRecord) => mapSet m x.cipherSuite ()) []) d)).map viewSuite
      = (desired.map viewSuite).find? (fun p => ((recs.map Gen.Dec.CipherSuiteRecord.toEntry).map suiteOfEntry).contains p) := by
  rw [← find_view]
  congr 2
  funext d
  rw [mapHas_foldl (fun (x : Gen.Dec.CipherSuiteRecord) => x.cipherSuite)]
  simp [mapHas_nil]

/-- the hand model once there are several candidates -/
def afterDiscovery (desiredV : List Suite) (page : Nat → Option Bytes) : Choice :=
  match discovered page with
  | none => .discoveryFailed
  | some a => match desiredV.find? (fun p => a.contains p) with
    | some p => .propose p true
    | none => .noSupported

theorem discoveryRan_after (d : List Suite) (page : Nat → Option Bytes) : discoveryRan (afterDiscovery d page) = true := by
  unfold afterDiscovery
  cases discovered page with
  | none => rfl
  | some a => simp only []; cases List.find? _ d <;> rfl

theorem determineFull_nil (page : Nat → Option Bytes) : determineFull [] page = afterDiscovery defaultSuites page := rfl
theorem determineFull_many (a b : Suite) (rest : List Suite) (page : Nat → Option Bytes) :
    determineFull (a :: b :: rest) page = afterDiscovery (a :: b :: rest) page := rfl

/-- discovery followed by the selection, for a list of candidates that is not a singleton -/
theorem discover_select (b : TBmc) (junk : Junk) (fuel : Nat) (hf : 64 ≤ fuel) (tail : Bytes) (desired : List Gen.Dec.CipherSuite)
    (log : List GetChannelCipherSuitesReq)
    (k : List Gen.Dec.CipherSuiteRecord → M (List GetChannelCipherSuitesReq) Gen.Dec.CipherSuite)
    (hk : ∀ recs s, k recs s = (match desired.find? (fun d => mapHas (recs.foldl (fun m (x : Gen.Dec.CipherSuiteRecord) => mapSet m x.cipherSuite ()) []) d) with
        | some d => .ok d | none => .err, s)) :
    ((M.cont k (bmc_RetrieveSupportedCipherSuites fuel (ansOf b junk) tail log)).1.map viewSuite
        = RF.lift (resultOf (afterDiscovery (desired.map viewSuite) (pageOf b)))) ∧
    (M.cont k (bmc_RetrieveSupportedCipherSuites fuel (ansOf b junk) tail log)).2.map viewReq
        = log.map viewReq ++ (retrieveSupportedCipherSuites (pageOf b)).1 := by
  have key := RetrieveSupportedCipherSuites_gen_eq b junk fuel hf tail log
  have hres := retrieve_res (pageOf b)
  unfold afterDiscovery discovered
  generalize bmc_RetrieveSupportedCipherSuites fuel (ansOf b junk) tail log = r at key ⊢
  generalize retrieveSupportedCipherSuites (pageOf b) = h at key hres ⊢
  obtain ⟨r1, log'⟩ := r
  obtain ⟨l, hr⟩ := h
  obtain ⟨k1, k2⟩ := key
  simp only at k1 k2 hres
  cases r1 with
  | ok recs =>
    cases hr <;> simp [RF.map] at k1
    subst k1
    simp only [cont_ok, hk, k2, and_true]
    have := select_view desired recs
    generalize List.find? _ desired = x at this ⊢
    generalize List.find? _ (List.map viewSuite desired) = y at this ⊢
    cases x <;> cases y <;> simp_all [RF.map, resultOf]
  | err => cases hr <;> simp [RF.map] at k1 <;> simp [RF.map, k2, resultOf]
  | panic => rcases hres with h | ⟨_, h⟩ <;> subst h <;> simp [RF.map] at k1
  | overread => rcases hres with h | ⟨_, h⟩ <;> subst h <;> simp [RF.map] at k1
  | outOfFuel => cases hr <;> simp [RF.map] at k1

end Bmc.Lemmas.GenOrchSuites
