import Bmc.Proto.Api
import Bmc.Lemmas.RequestsBody
/-! The request side of the API calls: what the specification's reference parser (Spec/Requests.lean) reads from the
    request data each wrapper builds from its arguments. -/
namespace Bmc.Proto
open Bmc Bmc.Wire

/-- the caller's arguments, in the specification's terms -/
inductive Asked where
  | nothing                                        -- commands without request data
  | authCaps (v : Spec.Req.AuthCaps)
  | sessionInfo (v : Spec.Req.SessionSel)
  | chassisControl (control : Nat)
  | sensor (number : Nat)
  | privilege (level : Nat)                        -- 0 = "no change": how the current level is read
  | close (v : Spec.Req.CloseSel)
  | power (v : Spec.Req.PowerMode)
  | dcmiSensor (v : Spec.Req.DcmiSensorInfo)
  | dcmiParameter (selector : Nat)
  deriving Repr, DecidableEq

/-- the reference parser of the request data of the call's command -/
def Call.specParse : Call → Bytes → Option Asked
  | .getSystemGUID | .getDeviceID | .getChassisStatus | .getSDRRepositoryInfo | .reserveSDRRepository =>
    fun b => (Spec.Req.parseEmpty b).map fun _ => .nothing
  | .getChannelAuthenticationCapabilities _ => fun b => (Spec.Req.parseAuthCaps b).map .authCaps
  | .getSessionInfo _ => fun b => (Spec.Req.parseSessionInfo b).map .sessionInfo
  | .chassisControl _ => fun b => (Spec.Req.parseChassisControl b).map .chassisControl
  | .getSensorReading _ => fun b => (Spec.Req.parseSensorReading b).map .sensor
  | .getSessionPrivilegeLevel | .setSessionPrivilegeLevel _ => fun b => (Spec.Req.parseSetPriv b).map .privilege
  | .close => fun b => (Spec.Req.parseCloseSession b).map .close
  | .getPowerReading _ => fun b => (Spec.Req.parsePowerReading b).map .power
  | .getDCMISensorInfo _ => fun b => (Spec.Req.parseDcmiSensorInfo b).map .dcmiSensor
  | .dcmiSupportedCapabilities | .dcmiMandatoryPlatformAttrs | .dcmiOptionalPlatformAttrs | .dcmiManageabilityAccessAttrs
  | .dcmiEnhancedSystemPowerStatisticsAttrs => fun b => (Spec.Req.parseDcmiCaps b).map .dcmiParameter

/-- what the caller asked for (`remoteID`: the session whose `Close` is called) -/
def Call.asked (remoteID : Nat) : Call → Asked
  | .getSystemGUID | .getDeviceID | .getChassisStatus | .getSDRRepositoryInfo | .reserveSDRRepository => .nothing
  | .getChannelAuthenticationCapabilities r =>
    .authCaps { v2Data := r.extendedData, channel := r.channel.toNat, privilege := r.maxPrivilegeLevel.toNat }
  | .getSessionInfo r =>
    .sessionInfo (if r.index = 0 then .current else if r.index = 0xFE then .handle r.handle.toNat
                  else if r.index = 0xFF then .id r.id else .nth r.index.toNat)
  | .chassisControl c => .chassisControl c
  | .getSensorReading n => .sensor n.toNat
  | .getSessionPrivilegeLevel => .privilege 0
  | .setSessionPrivilegeLevel l => .privilege l.toNat
  | .close => .close (if remoteID = 0 then .byHandle 0 else .byID remoteID)
  | .getPowerReading r =>
    .power (if r.mode = 1 then .normal
            else .enhanced (Spec.rollingByte (r.periodNs.toNat / 1000000000) / 64) (Spec.rollingByte (r.periodNs.toNat / 1000000000) % 64))
  | .getDCMISensorInfo r =>
    .dcmiSensor { sensorType := r.type.toNat, entity := r.entity.toNat
                  sel := if r.instance_ = 0 then .all r.instanceStart.toNat else .one r.instance_.toNat }
  | .dcmiSupportedCapabilities => .dcmiParameter 1
  | .dcmiMandatoryPlatformAttrs => .dcmiParameter 2
  | .dcmiOptionalPlatformAttrs => .dcmiParameter 3
  | .dcmiManageabilityAccessAttrs => .dcmiParameter 4
  | .dcmiEnhancedSystemPowerStatisticsAttrs => .dcmiParameter 5

/-- the arguments fit the wire width of the request's fields (the `wf` predicates of Wire/Requests.lean; outside
    them the serialisers mask or overflow into neighbouring bits, see the examples at the end of Proofs/C06.lean) -/
def Call.argsWf (remoteID : Nat) : Call → Prop
  | .getChannelAuthenticationCapabilities r => r.wf
  | .getSessionInfo r => r.wf
  | .chassisControl c => c < 16
  | .setSessionPrivilegeLevel l => Req.SetPriv.wf l
  | .close => remoteID < 4294967296
  | .getPowerReading r => r.mode = 1 ∨ (r.mode = 2 ∧ 0 ≤ r.periodNs)
  | _ => True

/-- for every call with in-width arguments the request serialises, and the reference parser reads the caller's
    arguments back from it -/
theorem request_parses (call : Call) (rid : Nat) (h : call.argsWf rid) :
    ∃ b, call.body rid = .ok b ∧ call.specParse b = some (call.asked rid) := by
  cases call with
  | getSystemGUID | getDeviceID | getChassisStatus | getSDRRepositoryInfo | reserveSDRRepository => exact ⟨[], rfl, rfl⟩
  | getChannelAuthenticationCapabilities r =>
    exact ⟨r.encode, rfl, by simp only [Call.specParse, Call.asked, Req.authcaps_body r h]; rfl⟩
  | getSessionInfo r =>
    exact ⟨r.encode, rfl, by simp only [Call.specParse, Call.asked, Req.sessioninfo_body r h]; rfl⟩
  | chassisControl c =>
    exact ⟨_, rfl, by simp only [Call.specParse, Call.asked, Req.chassiscontrol_body c h]; rfl⟩
  | getSensorReading n => exact ⟨_, rfl, rfl⟩
  | getSessionPrivilegeLevel => exact ⟨[0], rfl, rfl⟩
  | setSessionPrivilegeLevel l =>
    obtain ⟨b, hb, hp⟩ := Req.setpriv_body l h
    exact ⟨b, hb, by simp only [Call.specParse, Call.asked, hp]; rfl⟩
  | close =>
    exact ⟨_, rfl, by simp only [Call.specParse, Call.asked, Req.closesession_body rid 0 h]; rfl⟩
  | getPowerReading r =>
    obtain ⟨m, ns⟩ := r
    refine ⟨_, rfl, ?_⟩
    rcases h with h | ⟨h, h0⟩
    · simp only at h; subst h
      simp only [Call.specParse, Call.asked, Req.powerreading_normal ns]; rfl
    · simp only at h h0; subst h
      simp only [Call.specParse, Call.asked, Req.powerreading_enhanced ns h0]; rfl
  | getDCMISensorInfo r =>
    exact ⟨r.encode, rfl, by simp only [Call.specParse, Call.asked, Req.dcmisensorinfo_body r]; rfl⟩
  | dcmiSupportedCapabilities | dcmiMandatoryPlatformAttrs | dcmiOptionalPlatformAttrs | dcmiManageabilityAccessAttrs
  | dcmiEnhancedSystemPowerStatisticsAttrs => exact ⟨_, rfl, rfl⟩

/-- request data of every call is at most five bytes -/
theorem request_short (call : Call) (rid : Nat) : (call.cmdFor rid).req.length ≤ 5 := by
  cases call <;> simp [Call.cmdFor, Call.body, Req.AuthCaps.encode, Req.ChassisControl.encode, Req.SensorReading.encode,
    Req.DcmiCaps.encode, Req.PowerReading.encode, Req.DcmiSensorInfo.encode]
  · rename_i r; unfold Req.SessionInfo.encode; split
    · simp
    · split <;> simp [putLE32]
  · simp [Req.SetPriv.encode]
  · rename_i l; unfold Req.SetPriv.encode; by_cases h : (l == 1) = true <;> simp [h]
  · unfold Req.CloseSession.encode; split <;> simp [putLE32]

end Bmc.Proto
