import Bmc.Basic.GoOrch
/-! General lemmas about the loop combinators and the association-list maps of `Basic/GoOrch.lean`, used by the equality
    proofs of the regenerated orchestration functions (`Proofs/GenOrch/*`). -/
namespace Bmc.Lemmas.GenOrch
open Bmc Bmc.GoOrch

/-- a `range` loop whose body only computes: a left fold -/
theorem forEach_pure {σ α β : Type} (g : β → α → β) (l : List α) (b : β) (s : σ) :
    forEach l (fun b x => (pure (Step.next (g b x)) : M σ _)) b s = (.ok (l.foldl g b), s) := by
  induction l generalizing b with
  | nil => rfl
  | cons x xs ih => rw [forEach_cons]; simp only [pure_apply]; rw [ih]; rfl

/-- a `range` loop that returns the first element with a property -/
theorem forEachR_find {σ α ρ : Type} (p : α → Bool) (g : α → ρ) (l : List α) (s : σ) :
    forEachR l (fun (_ : Unit) x => if p x = true then (pure (Ctl.ret (g x)) : M σ _) else pure (Ctl.next ())) () s
      = (.ok (match l.find? p with | some x => Sum.inr (g x) | none => Sum.inl ()), s) := by
  induction l with
  | nil => rfl
  | cons x xs ih =>
    rw [forEachR_cons]
    by_cases h : p x = true
    · simp [h, List.find?_cons]
    · simp only [h, if_false, pure_apply, Bool.false_eq_true]
      rw [ih]
      simp [List.find?_cons, h]

theorem foldl_snoc {α : Type} (l acc : List α) : l.foldl (fun b x => b ++ [x]) acc = acc ++ l := by
  induction l generalizing acc with
  | nil => simp
  | cons x xs ih => simp [ih]

theorem mapHas_nil {κ ν : Type} [DecidableEq κ] (k : κ) : mapHas ([] : List (κ × ν)) k = false := rfl

theorem mapHas_mapSet {κ ν : Type} [DecidableEq κ] (m : List (κ × ν)) (k k' : κ) (v : ν) :
    mapHas (mapSet m k v) k' = (decide (k = k') || mapHas m k') := by
  unfold mapHas mapSet
  simp only [List.any_append, List.any_filter, List.any_cons, List.any_nil, Bool.or_false]
  by_cases h : k = k'
  · subst h
    simp
  · simp only [h, decide_false, Bool.false_or, Bool.or_false]
    congr 1
    funext e
    by_cases he : e.1 = k'
    · subst he
      have : e.1 ≠ k := fun hh => h hh.symm
      simp [this]
    · simp [he]

/-- a set built by inserting the keys of a list: membership -/
theorem mapHas_foldl {κ α : Type} [DecidableEq κ] (key : α → κ) (l : List α) (m : List (κ × Unit)) (k : κ) :
    mapHas (l.foldl (fun m x => mapSet m (key x) ()) m) k = (l.any (fun x => decide (key x = k)) || mapHas m k) := by
  induction l generalizing m with
  | nil => simp
  | cons x xs ih =>
    simp only [List.foldl_cons, ih, mapHas_mapSet, List.any_cons]
    cases decide (key x = k) <;> cases List.any xs _ <;> simp

end Bmc.Lemmas.GenOrch
