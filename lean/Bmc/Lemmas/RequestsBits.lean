import Bmc.Wire.Requests
import Bmc.Spec.Requests
import Bmc.Lemmas.StringsSpec
/-! Finite bit facts and little-endian / checksum facts used by the C06 theorems. -/
namespace Bmc.Wire.Req
open Bmc Bmc.Wire Bmc.Prim

theorem rd32_le (n : Nat) (h : n < 4294967296) :
    Spec.Req.rd32 (UInt8.ofNat (n % 256)) (UInt8.ofNat (n / 256 % 256)) (UInt8.ofNat (n / 65536 % 256))
      (UInt8.ofNat (n / 16777216 % 256)) = n := by
  simp [Spec.Req.rd32]; omega

theorem rd16_le (n : Nat) (h : n < 65536) :
    Spec.Req.rd16 (UInt8.ofNat (n % 256)) (UInt8.ofNat (n / 256 % 256)) = n := by
  simp [Spec.Req.rd16]; omega

/-- the serialiser's checksum byte makes the 8-bit sum vanish (data of every length) -/
theorem sum8_checksum (bs : Bytes) : Spec.Req.sum8 (bs ++ [checksum bs]) = 0 := by
  simp [Spec.Req.sum8, checksum, List.foldl_append, UInt8.add_right_neg]

/-- first byte of Get Channel Authentication Capabilities -/
theorem authcaps_bits : ∀ c : UInt8, c.toNat < 16 → ∀ ext : Bool,
    (if ext then c ||| 0x80 else c).toNat / 16 % 8 = 0 ∧
    decide ((if ext then c ||| 0x80 else c).toNat / 128 = 1) = ext ∧
    (if ext then c ||| 0x80 else c).toNat % 16 = c.toNat := by
  apply forall_uint8; decide +kernel

/-- the three masks of Get Channel Cipher Suites -/
theorem mask_bits : ∀ c : UInt8,
    ((c &&& 0x0f).toNat / 16 = 0 ∧ (c.toNat < 16 → (c &&& 0x0f).toNat % 16 = c.toNat)) ∧
    ((c &&& 0x3f).toNat / 64 = 0 ∧ (c.toNat < 64 → (c &&& 0x3f).toNat % 64 = c.toNat)) ∧
    ((0x80 ||| (c &&& 0x3f)).toNat / 64 % 2 = 0 ∧ (0x80 ||| (c &&& 0x3f)).toNat / 128 = 1 ∧
      (c.toNat < 64 → (0x80 ||| (c &&& 0x3f)).toNat % 64 = c.toNat)) := by
  apply forall_uint8; decide +kernel

/-- a 4-bit privilege level under the `& 0xF` mask -/
theorem priv_bits : ∀ l : UInt8, l.toNat < 16 → (l &&& 0xF).toNat / 16 = 0 ∧ (l &&& 0xF).toNat % 16 = l.toNat := by
  apply forall_uint8; decide +kernel

/-- the role byte of RAKP Message 1 -/
theorem role_bits : ∀ p : UInt8, p.toNat < 16 → ∀ lookup : Bool,
    ((p &&& 0xF) ||| (if lookup then 0 else 0x10)).toNat / 32 = 0 ∧
    decide (((p &&& 0xF) ||| (if lookup then 0 else 0x10)).toNat / 16 % 2 = 1) = !lookup ∧
    ((p &&& 0xF) ||| (if lookup then 0 else 0x10)).toNat % 16 = p.toNat := by
  apply forall_uint8; decide +kernel

theorem fnlun_nat0 : ∀ f : Nat, f < 64 → ∀ l : Nat, l < 4 →
    ((UInt8.ofNat f <<< 2) ||| UInt8.ofNat l).toNat / 4 = f ∧ ((UInt8.ofNat f <<< 2) ||| UInt8.ofNat l).toNat % 4 = l := by
  decide +kernel

/-- NetFn/LUN and rqSeq/LUN bytes: the serialiser's shift-and-or is the table's "bits 7:2 / bits 1:0" -/
theorem fnlun_nat (f l : UInt8) (hf : f.toNat < 64) (hl : l.toNat < 4) :
    ((f <<< 2) ||| l).toNat / 4 = f.toNat ∧ ((f <<< 2) ||| l).toNat % 4 = l.toNat := by
  have := fnlun_nat0 _ hf _ hl
  simpa only [UInt8.ofNat_toNat] using this

theorem rollingByte_lt (s : Nat) : Spec.rollingByte s < 256 := by
  unfold Spec.rollingByte; split <;> (try split) <;> (try split) <;> omega

theorem rollingByteNs_toNat (ns : Int) (h : 0 ≤ ns) :
    (rollingByteNs ns).toNat = Spec.rollingByte (ns.toNat / 1000000000) := by
  have hb := rollingByte_lt (ns.toNat / 1000000000)
  simp [rollingByteNs, h, rollingByteGo_spec]; omega

end Bmc.Wire.Req
