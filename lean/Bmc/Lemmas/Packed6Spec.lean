import Bmc.Prim.Packed6
namespace Bmc.Prim
open Bmc

def Codes (cs : List UInt8) : Prop := ∀ x ∈ cs, x.toNat < 64

theorem code_getD (cs : List UInt8) (h : Codes cs) (k : Nat) : (cs.getD k 0).toNat < 64 := by
  by_cases hk : k < cs.length
  · have : cs.getD k 0 = cs[k] := by simp [List.getD_eq_getElem?_getD, hk]
    rw [this]; exact h _ (List.getElem_mem hk)
  · have : cs[k]? = none := List.getElem?_eq_none (by omega)
    simp [List.getD_eq_getElem?_getD, this]

theorem ofNat_toNat8 (x : UInt8) : UInt8.ofNat x.toNat = x := by simp

/-- the data the decoder sees: at least the packing of `cs`, possibly followed by more bytes -/
def Holds (d : GoSlice) (cs : List UInt8) : Prop :=
  cs.length - cs.length / 4 ≤ d.len ∧ ∀ k, k < cs.length - cs.length / 4 → d.vis.getD k 0 = packByte cs k

theorem char6_spec (d : GoSlice) (cs : List UInt8) (hc : Codes cs) (hd : Holds d cs) (i : Nat) (hi : i < cs.length) :
    char6 d i = R.ok (cs.getD i 0 + 0x20) := by
  obtain ⟨hlen, hget⟩ := hd
  have hq : i = 4 * (i / 4) + i % 4 := by omega
  generalize hqq : i / 4 = q at hq
  have hr : i % 4 < 4 := Nat.mod_lt _ (by decide)
  have ha := code_getD cs hc (4 * q)
  have hb := code_getD cs hc (4 * q + 1)
  have hcc := code_getD cs hc (4 * q + 2)
  have hdd := code_getD cs hc (4 * q + 3)
  unfold char6 off6
  rcases Nat.lt_or_ge (i % 4) 1 with h0 | h0
  · -- i % 4 = 0
    have e : i % 4 = 0 := by omega
    have eo : (if i = 0 then 0 else i - 1 - (i - 1) / 4) = 3 * q := by split <;> omega
    simp only [e, if_true, eo]
    rw [GoSlice.idx_ok _ _ (by omega), hget _ (by omega)]
    have : packByte cs (3 * q) = cs.getD (4 * q) 0 ||| (cs.getD (4 * q + 1) 0 <<< 6) := by
      simp [packByte, show 3 * q / 3 = q by omega, show 3 * q % 3 = 0 by omega]
    have hi' : i = 4 * q := by omega
    simp only [this, R.bind_ok, R.pure_eq, hi']
    have := (bits0 _ ha _ hb).1
    simp only [ofNat_toNat8] at this
    rw [this]
  · have hne0 : ¬ (i % 4 = 0) := by omega
    have pb0 : packByte cs (3 * q) = cs.getD (4 * q) 0 ||| (cs.getD (4 * q + 1) 0 <<< 6) := by
      simp [packByte, show 3 * q / 3 = q by omega, show 3 * q % 3 = 0 by omega]
    have pb1 : packByte cs (3 * q + 1) = (cs.getD (4 * q + 1) 0 >>> 2) ||| (cs.getD (4 * q + 2) 0 <<< 4) := by
      simp [packByte, show (3 * q + 1) / 3 = q by omega, show (3 * q + 1) % 3 = 1 by omega]
    have pb2 : packByte cs (3 * q + 2) = (cs.getD (4 * q + 2) 0 >>> 4) ||| (cs.getD (4 * q + 3) 0 <<< 2) := by
      simp [packByte, show (3 * q + 2) / 3 = q by omega, show (3 * q + 2) % 3 = 2 by omega]
    rcases Nat.lt_or_ge (i % 4) 2 with h1 | h1
    · -- i % 4 = 1
      have e : i % 4 = 1 := by omega
      have eo : (if i = 0 then 0 else i - 1 - (i - 1) / 4) = 3 * q := by split <;> omega
      have hi' : i = 4 * q + 1 := by omega
      simp only [e, hne0, if_true, if_false, eo, show (1 : Nat) = 0 ↔ False by decide]
      rw [GoSlice.idx_ok _ _ (by omega), hget _ (by omega), GoSlice.idx_ok _ _ (by omega), hget _ (by omega)]
      simp only [pb0, pb1, R.bind_ok, R.pure_eq, hi']
      have b0 := (bits0 _ ha _ hb).2
      have b1 := (bits1 _ hb _ hcc).1
      have j := join1 _ hb
      simp only [ofNat_toNat8] at b0 b1 j
      rw [b0, b1, j]
    · rcases Nat.lt_or_ge (i % 4) 3 with h2 | h2
      · -- i % 4 = 2
        have e : i % 4 = 2 := by omega
        have eo : (if i = 0 then 0 else i - 1 - (i - 1) / 4) = 3 * q + 1 := by split <;> omega
        have hi' : i = 4 * q + 2 := by omega
        simp only [e, if_true, if_false, eo, show (2 : Nat) = 0 ↔ False by decide, show (2 : Nat) = 1 ↔ False by decide]
        rw [GoSlice.idx_ok _ _ (by omega), hget _ (by omega), GoSlice.idx_ok _ _ (by omega), hget _ (by omega)]
        simp only [pb1, pb2, R.bind_ok, R.pure_eq, hi']
        have b1 := (bits1 _ hb _ hcc).2
        have b2 := (bits2 _ hcc _ hdd).1
        have j := join2 _ hcc
        simp only [ofNat_toNat8] at b1 b2 j
        rw [b1, b2, j]
      · -- i % 4 = 3
        have e : i % 4 = 3 := by omega
        have eo : (if i = 0 then 0 else i - 1 - (i - 1) / 4) = 3 * q + 2 := by split <;> omega
        have hi' : i = 4 * q + 3 := by omega
        simp only [e, if_true, if_false, eo, show (3 : Nat) = 0 ↔ False by decide, show (3 : Nat) = 1 ↔ False by decide,
          show (3 : Nat) = 2 ↔ False by decide]
        rw [GoSlice.idx_ok _ _ (by omega), hget _ (by omega)]
        simp only [pb2, R.bind_ok, R.pure_eq, hi']
        have b2 := (bits2 _ hcc _ hdd).2
        simp only [ofNat_toNat8] at b2
        rw [b2]

theorem loop6_spec (d : GoSlice) (cs : List UInt8) (hc : Codes cs) (hd : Holds d cs) (n i : Nat) (h : i + n = cs.length) :
    loop6 d i n = R.ok ((cs.drop i).map (· + 0x20)) := by
  induction n generalizing i with
  | zero =>
    have : cs.drop i = [] := List.drop_eq_nil_of_le (by omega)
    simp [loop6, this]
  | succ n ih =>
    have hi : i < cs.length := by omega
    have hdrop : cs.drop i = cs.getD i 0 :: cs.drop (i + 1) := by
      rw [List.drop_eq_getElem_cons hi]; simp [List.getD_eq_getElem?_getD, hi]
    simp only [loop6, char6_spec d cs hc hd i hi, R.bind_ok, ih (i + 1) (by omega), R.pure_eq, hdrop, List.map_cons]

/-- C20 (packed 6-bit ASCII): decoding the packing of any sequence of 6-bit codes — of ANY length, followed by
    any further bytes — returns the characters 20h + code, consumes ceil(3n/4) bytes, and never panics -/
theorem decode6_spec (d : GoSlice) (cs : List UInt8) (hc : Codes cs) (hd : Holds d cs) :
    decode6Go d cs.length = R.ok (cs.map (· + 0x20), cs.length - cs.length / 4) := by
  unfold decode6Go
  have : ¬ d.len < cs.length - cs.length / 4 := by have := hd.1; omega
  simp only [this, if_false, loop6_spec d cs hc hd cs.length 0 (by omega), R.bind_ok, R.pure_eq, List.drop_zero]

/-- too few bytes for the character count: an error, for any data -/
theorem decode6_short (d : GoSlice) (c : Nat) (h : d.len < c - c / 4) : decode6Go d c = R.err := by
  simp [decode6Go, h]
#print axioms decode6_spec
