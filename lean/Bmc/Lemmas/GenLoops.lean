import Bmc.Gen.Loops
import Bmc.Proto.Session
import Bmc.Proto.Sessionless
import Bmc.Proto.Handshake
import Bmc.Proto.Metrics
import Bmc.Lemmas.SessionLaws
/-! Instantiating the PARAMETERS of the regenerated retry loops (`Gen/Loops.lean`) with the hand models' own pieces:

    * the SURROUNDINGS are a SCRIPT (`SW`): the outcomes of the Sends in order (`Proto.Outcome`: a reply or a loss), the draws of
      crypto/rand (one IV per serialisation inside a session), the list of datagrams handed to the transport so far, and how the
      caller's context ends when the script runs out — during the back-off after the last scripted attempt (`inSend = false`:
      `backoff.Retry` returns the context's error and the closure does not run again; the `R!` scripts of the harness, the
      convention of `Proto.sendLoop` / `slLoop` / `exchange`) or during one more Send, which fails (`inSend = true`: the convention
      of `Proto.Metrics.loop` for an exhausted list of attempts);
    * field correspondences between the generated layer structures (fixed-width fields, every field of the Go struct) and the
      structures of `Wire/` (`…To` / `…Of`);
    * the events of the log as steps on the counters of `Proto.Metrics.M` (`evApply`). -/
namespace Bmc.Lemmas.GenLoops
open Bmc Bmc.Wire Bmc.Crypto Bmc.Proto Bmc.GoOrch Bmc.GoLoops Bmc.Gen.Loops

/-- the surroundings as a script -/
structure SW where
  ivs : List Bytes := []
  script : List Outcome := []
  sent : List Bytes := []
  inSend : Bool := false
  expired : Bool := false

/-- `transport.Send`: the next outcome of the script; with the script exhausted the context has expired: nothing is transmitted
    and an error comes back (the scripted transport of the harness: `e.cancel(); return nil, context.Canceled`) -/
def SW.send (w : SW) (b : Bytes) : SW × Option Bytes :=
  match w.script with
  | [] => ({ w with expired := true }, none)
  | .lost :: rest => ({ w with script := rest, sent := w.sent ++ [b] }, none)
  | .reply d :: rest => ({ w with script := rest, sent := w.sent ++ [b] }, some d)

/-- the back-off after a failed attempt: the context is done exactly when the script is exhausted (and, with `inSend`, a Send
    has already met the expired context); the policy itself never gives up -/
def SW.wait (w : SW) : SW × Wait :=
  (w, if w.script.isEmpty && (!w.inSend || w.expired) then .ctxDone else .again)

-- field correspondences ------------------------------------------------------------------------------------------------
def rmcpTo (g : layers_RMCP) : Wire.RMCP := { version := g.version, sequence := g.sequence, ack := g.ack, cls := g.class_ }
def rmcpOf (r : Wire.RMCP) : layers_RMCP := { version := r.version, sequence := r.sequence, ack := r.ack, class_ := r.cls }

def v2To (g : ipmi_V2Session) : Wire.V2Session :=
  { encrypted := g.encrypted, authenticated := g.authenticated, payloadType := g.payloadDescriptor.payloadType
    enterprise := g.payloadDescriptor.enterprise.toNat, payloadID := g.payloadDescriptor.payloadID.toNat
    id := g.id.toNat, sequence := g.sequence.toNat, length := g.length.toNat, pad := g.pad, signature := g.signature
    contents := g.contents, payload := g.payload }
/-- `integ`, `conf`: the two fields the model keeps in the session, not in the layer -/
def v2Of (v : Wire.V2Session) (integ conf : Opaque) : ipmi_V2Session :=
  { encrypted := v.encrypted, authenticated := v.authenticated
    payloadDescriptor := { payloadType := v.payloadType, enterprise := UInt32.ofNat v.enterprise, payloadID := UInt16.ofNat v.payloadID }
    id := UInt32.ofNat v.id, sequence := UInt32.ofNat v.sequence, length := UInt16.ofNat v.length, pad := v.pad
    signature := v.signature, contents := v.contents, payload := v.payload
    integrityAlgorithm := integ, confidentialityLayerType := conf }

def msgTo (g : ipmi_Message) : Wire.Message :=
  { function := g.operation.function, body := g.operation.body, enterprise := g.operation.enterprise.toNat
    command := g.operation.command, remoteAddress := g.remoteAddress, remoteLUN := g.remoteLUN, checksum1 := g.checksum1
    localAddress := g.localAddress, localLUN := g.localLUN, sequence := g.sequence, completionCode := g.completionCode
    checksum2 := g.checksum2, contents := g.contents, payload := g.payload }
def msgOf (m : Wire.Message) : ipmi_Message :=
  { operation := { function := m.function, body := m.body, enterprise := UInt32.ofNat m.enterprise, command := m.command }
    remoteAddress := m.remoteAddress, remoteLUN := m.remoteLUN, checksum1 := m.checksum1, localAddress := m.localAddress
    localLUN := m.localLUN, sequence := m.sequence, completionCode := m.completionCode, checksum2 := m.checksum2
    contents := m.contents, payload := m.payload }

/-- the command as the getters of `ipmi.Command` present it; `4` stands for its (non-nil) request layer, whose serialisation is
    the model's `c.req` / `c.reqFails` -/
def cmdOf (c : Cmd) (name : String) (rsp : Opaque) : ipmi_Command :=
  { operation := { function := c.fn, body := c.body, enterprise := UInt32.ofNat c.ent, command := c.cmd }
    remoteLUN := c.lun, request := 4, name := name, response := rsp }

-- the events as steps on the counters of the instrumentation model ---------------------------------------------------------
/-- one Prometheus call on the counters of `Proto.Metrics.M` (the timer's histogram is not part of that model) -/
def evApply (m : Metrics.M) : Ev → Metrics.M
  | .inc "commandRetries" [] => { m with retries := m.retries + 1 }
  | .inc "commandResponses" [.code c] => { m with responses := Metrics.bump c.toNat m.responses }
  | .inc "commandAttempts" [.str n] => { m with cmdAttempts := Metrics.bump n m.cmdAttempts }
  | .inc "commandFailures" [.str n] => { m with cmdFailures := Metrics.bump n m.cmdFailures }
  | _ => m

def evsApply (m : Metrics.M) (l : List Ev) : Metrics.M := l.foldl evApply m

theorem evsApply_append (m : Metrics.M) (a b : List Ev) : evsApply m (a ++ b) = evsApply (evsApply m a) b := by
  simp [evsApply, List.foldl_append]

-- running the regenerated helpers on an explicit state ------------------------------------------------------------------------
def sendRes : Option Bytes → Bytes × Option GoErr
  | some d => (d, none)
  | none => ([], some GoErr.transport)
def decRes : DecodeOutcome → RF (Option GoErr)
  | .ok => .ok none | .err => .ok (some GoErr.decode) | .panic => .panic

section generic
variable {σ τ : Type} (W : World σ τ)

theorem serializeLayers_eq (opts : SerializeOptions) (args : List LayerArg) (w : σ) (K : Conn τ) {w1 : σ} {L1 : Layers} {buf : Bytes} {ok : Bool}
    (h : W.serializeLayers w opts K.layers args = (w1, L1, buf, ok)) :
    serializeLayers W opts args (w, K) = (.ok (if ok then none else some GoErr.serialize), (w1, { K with layers := L1, buffer := buf })) := by
  simp [serializeLayers, h]

theorem transportSend_eq (b : Bytes) (w : σ) (K : Conn τ) {w1 : σ} {r : Option Bytes} (h : W.transportSend w b = (w1, r)) :
    transportSend W b (w, K) = (.ok (sendRes r), (w1, K)) := by
  simp only [transportSend, callW_apply, h]
  cases r <;> rfl

theorem decodeLayers_eq (d : Bytes) (w : σ) (K : Conn τ) {L1 : Layers} {t1 : τ} {o : DecodeOutcome} (h : W.decode K.layers K.decoded d = (L1, t1, o)) :
    decodeLayers W d (w, K) = (decRes o, (w, { K with layers := L1, decoded := t1 })) := by
  simp only [decodeLayers, callP_apply, h]
  cases o <;> rfl

theorem event_eq (e : Ev) (w : σ) (K : Conn τ) :
    (event e : M (σ × Conn τ) Unit) (w, K) = (.ok (), (w, { K with events := K.events ++ [e] })) := rfl
end generic

theorem send_nil (ivs sent) (b : Bytes) (i e : Bool) :
    SW.send { ivs := ivs, script := [], sent := sent, inSend := i, expired := e } b
      = ({ ivs := ivs, script := [], sent := sent, inSend := i, expired := true }, none) := rfl
theorem send_lost (ivs rest sent) (b : Bytes) (i e : Bool) :
    SW.send { ivs := ivs, script := .lost :: rest, sent := sent, inSend := i, expired := e } b
      = ({ ivs := ivs, script := rest, sent := sent ++ [b], inSend := i, expired := e }, none) := rfl
theorem send_reply (ivs rest sent d) (b : Bytes) (i e : Bool) :
    SW.send { ivs := ivs, script := .reply d :: rest, sent := sent, inSend := i, expired := e } b
      = ({ ivs := ivs, script := rest, sent := sent ++ [b], inSend := i, expired := e }, some d) := rfl

/-- the events at the head of an attempt: `commandRetries.Inc()` unless it is the first -/
def pre (first : Bool) : List Ev := if first then [] else [Ev.inc "commandRetries" []]

/-- what is observed of one run of a closure: outcome, surroundings, counter, log -/
def obs {α τ : Type} (r : RF α × SW × Conn τ) : RF α × SW × UInt32 × List Ev := (r.1, r.2.1, r.2.2.inbound, r.2.2.events)
/-- … and the message layer the connection is left with -/
def obsM {α τ : Type} (r : RF α × SW × Conn τ) : RF α × SW × UInt32 × List Ev × ipmi_Message :=
  (r.1, r.2.1, r.2.2.inbound, r.2.2.events, r.2.2.layers.message)

section retryLemmas
variable {σ K β : Type} (wait : σ → σ × Wait) (op : β → M (σ × K) (β × Option GoErr))

theorem retry_of_nil (n : Nat) (b b' : β) (s : σ × K) (h : (op b s).1 = .ok (b', none)) :
    backoffRetry wait (n + 1) op b s = (.ok (b', none), (op b s).2) := by
  rw [backoffRetry_succ]
  generalize op b s = x at h ⊢
  obtain ⟨r, s'⟩ := x
  simp only at h; subst h; rfl

theorem retry_of_err (n : Nat) (b b' : β) (e : GoErr) (s : σ × K) (h : (op b s).1 = .ok (b', some e)) :
    backoffRetry wait (n + 1) op b s = afterErr wait (backoffRetry wait n op) b' e (op b s).2 := by
  rw [backoffRetry_succ]
  generalize op b s = x at h ⊢
  obtain ⟨r, s'⟩ := x
  simp only at h; subst h; rfl

theorem retry_of_panic (n : Nat) (b : β) (s : σ × K) (h : (op b s).1 = .panic) :
    backoffRetry wait (n + 1) op b s = (.panic, (op b s).2) := by
  rw [backoffRetry_succ]
  generalize op b s = x at h ⊢
  obtain ⟨r, s'⟩ := x
  simp only at h; subst h; rfl
end retryLemmas

/-- the scripted back-off: the context's error when the script is exhausted (and the mode says so), otherwise once more -/
theorem afterErr_script {K β : Type} (again : β → M (SW × K) (β × Option GoErr)) (b : β) (e : GoErr) (w : SW) (k : K) :
    afterErr SW.wait again b e (w, k) =
      if (w.script.isEmpty && (!w.inSend || w.expired)) = true then (.ok (b, some .ctx), (w, k)) else again b (w, k) := by
  rw [afterErr_apply]
  simp only [SW.wait]
  cases (w.script.isEmpty && (!w.inSend || w.expired)) <;> rfl

/-- … for a loop that sends what the buffer already holds: the buffer as well -/
def obsB {α τ : Type} (r : RF α × SW × Conn τ) : RF α × SW × UInt32 × List Ev × Bytes :=
  (r.1, r.2.1, r.2.2.inbound, r.2.2.events, r.2.2.buffer)
def obsBM {α τ : Type} (r : RF α × SW × Conn τ) : RF α × SW × UInt32 × List Ev × Bytes × ipmi_Message :=
  (r.1, r.2.1, r.2.2.inbound, r.2.2.events, r.2.2.buffer, r.2.2.layers.message)

theorem evApply_retries (m : Metrics.M) : evApply m (Ev.inc "commandRetries" []) = { m with retries := m.retries + 1 } := rfl
theorem evApply_responses (m : Metrics.M) (cc : UInt8) :
    evApply m (Ev.inc "commandResponses" [Label.code cc]) = { m with responses := Metrics.bump cc.toNat m.responses } := rfl

theorem evsApply_pre (m : Metrics.M) (first : Bool) :
    evsApply m (pre first) = { m with retries := if first then m.retries else m.retries + 1 } := by
  cases first <;> rfl

/-- how the attempts end for the instrumentation model: with the context ending in the back-off, the attempt after the last
    scripted one never runs (`cancelled`); with the context ending in one more Send, the list is simply exhausted -/
def ending (i : Bool) : List Metrics.Att := if i then [] else [.cancelled]

/-- what `buildAndSend` returned (an error value, or a panic) and the message layer it left, as a result of the hand model -/
def resOf (r : RF (Option GoErr)) (K : Conn Decoded) : Option Res :=
  match r with
  | .ok none => some (.ok K.layers.message.completionCode K.layers.message.payload)
  | .ok (some .transport) => some .transportErr
  | .ok (some .serialize) => some .serializeErr
  | .ok (some .ctx) => some .ctxExpired
  | .panic => some .crashed
  | _ => none

theorem resOf_inv (r : RF (Option GoErr)) (K : Conn Decoded) (res : Res) (h : resOf r K = some res) :
    match res with
    | .ok cc p => r = .ok none ∧ K.layers.message.completionCode = cc ∧ K.layers.message.payload = p
    | .transportErr => r = .ok (some .transport)
    | .serializeErr => r = .ok (some .serialize)
    | .ctxExpired => r = .ok (some .ctx)
    | .crashed => r = .panic := by
  unfold resOf at h
  split at h <;> simp at h <;> subst h <;> simp


-- fixed-width fields ---------------------------------------------------------------------------------------------------------------
theorem ofNat32_inj (a b : Nat) (ha : a < 4294967296) (hb : b < 4294967296) : (UInt32.ofNat a = UInt32.ofNat b) ↔ a = b := by
  constructor
  · intro h
    have := congrArg UInt32.toNat h
    simp only [UInt32.toNat_ofNat'] at this
    omega
  · intro h; rw [h]

theorem ofNat32_toNat (n : Nat) (h : n < 4294967296) : (UInt32.ofNat n).toNat = n := by
  rw [UInt32.toNat_ofNat']; omega

theorem ofNat32_succ (n : Nat) : UInt32.ofNat n + 1 = UInt32.ofNat ((n + 1) % 4294967296) := by
  apply UInt32.toNat_inj.mp
  rw [UInt32.toNat_add, UInt32.toNat_ofNat', UInt32.toNat_ofNat']; simp

theorem slave20 : (UInt8.ofBitVec (Bmc.Gen.slaveAddress (UInt8.toBitVec 16))) = 0x20 := by decide
theorem swid81 : (UInt8.ofBitVec (Bmc.Gen.swidAddress (UInt8.toBitVec 64))) = 0x81 := by decide

private theorem u8_dec (a b : UInt8) : decide (a.toBitVec = b.toBitVec) = (a == b) := by
  by_cases h : a = b
  · subst h; simp
  · have h' : a.toBitVec ≠ b.toBitVec := fun e => h (UInt8.toBitVec_inj.mp e)
    simp [h, h']

/-- the regenerated `isResponseTo` on the fields of the decoded message and of the command = the model's `slAcceptable` -/
theorem isResponseTo_eq (c : Cmd) (m : Message) (hm : m.enterprise < 4294967296) (hc : c.ent < 4294967296) (name : String) (rsp : Opaque) :
    Bmc.Gen.isResponseTo (msgOf m).operation.function.toBitVec (msgOf m).operation.body.toBitVec
        (msgOf m).operation.enterprise.toBitVec (msgOf m).operation.command.toBitVec
        (cmdOf c name rsp).operation.function.toBitVec (cmdOf c name rsp).operation.body.toBitVec
        (cmdOf c name rsp).operation.enterprise.toBitVec (cmdOf c name rsp).operation.command.toBitVec
      = slAcceptable c m := by
  have e1 : decide (m.function.toBitVec = c.fn.toBitVec + 1#8) = (m.function == c.fn + 1) := by
    rw [show c.fn.toBitVec + 1#8 = (c.fn + 1).toBitVec from rfl]
    exact u8_dec _ _
  have e2 : decide (m.command.toBitVec = c.cmd.toBitVec) = (m.command == c.cmd) := u8_dec _ _
  have e3 : decide (m.body.toBitVec = c.body.toBitVec) = (m.body == c.body) := u8_dec _ _
  have e4 : decide ((UInt32.ofNat m.enterprise).toBitVec = (UInt32.ofNat c.ent).toBitVec) = (m.enterprise == c.ent) := by
    have : (UInt32.ofNat m.enterprise).toBitVec = (UInt32.ofNat c.ent).toBitVec ↔ m.enterprise = c.ent := by
      rw [UInt32.toBitVec_inj]; exact ofNat32_inj _ _ hm hc
    by_cases h : m.enterprise = c.ent <;> simp [this, h]
  show Bmc.Gen.isResponseTo m.function.toBitVec m.body.toBitVec (UInt32.ofNat m.enterprise).toBitVec m.command.toBitVec
        c.fn.toBitVec c.body.toBitVec (UInt32.ofNat c.ent).toBitVec c.cmd.toBitVec = slAcceptable c m
  unfold Bmc.Gen.isResponseTo slAcceptable
  simp only [e1, e2, e3, e4]
  cases (m.function == c.fn + 1) <;> cases (m.command == c.cmd) <;> cases (m.body == c.body) <;> simp

/-- the regenerated `CompletionCode.IsTemporary` = the model's `isTemp` -/
theorem ccIsTemporary_eq (cc : UInt8) : Bmc.Gen.ccIsTemporary cc.toBitVec = isTemp cc := by
  have h : ∀ b : BitVec 8, Bmc.Gen.ccIsTemporary b = (b == 192#8 || b == 195#8) := by decide
  rw [h]
  unfold isTemp
  have e1 : (cc.toBitVec == 192#8) = (cc == 0xC0) := by
    rw [show (192#8 : BitVec 8) = (0xC0 : UInt8).toBitVec from rfl]
    by_cases hh : cc = 0xC0
    · subst hh; rfl
    · have : cc.toBitVec ≠ (0xC0 : UInt8).toBitVec := fun e => hh (UInt8.toBitVec_inj.mp e)
      have h1 : (cc.toBitVec == (0xC0 : UInt8).toBitVec) = false := by simpa using this
      have h2 : (cc == 0xC0) = false := by simpa using hh
      rw [h1, h2]
  have e2 : (cc.toBitVec == 195#8) = (cc == 0xC3) := by
    rw [show (195#8 : BitVec 8) = (0xC3 : UInt8).toBitVec from rfl]
    by_cases hh : cc = 0xC3
    · subst hh; rfl
    · have : cc.toBitVec ≠ (0xC3 : UInt8).toBitVec := fun e => hh (UInt8.toBitVec_inj.mp e)
      have h1 : (cc.toBitVec == (0xC3 : UInt8).toBitVec) = false := by simpa using this
      have h2 : (cc == 0xC3) = false := by simpa using hh
      rw [h1, h2]
  rw [e1, e2]

end Bmc.Lemmas.GenLoops

namespace Bmc
/-- the pure steps of a regenerated loop body on an explicit state (the calls into the surroundings are rewritten one by one
    with `serializeLayers_eq` / `transportSend_eq` / `decodeLayers_eq`) -/
syntax "loop_simp" ("[" Lean.Parser.Tactic.simpLemma,* "]")? : tactic
macro_rules
  | `(tactic| loop_simp) => `(tactic| loop_simp [])
  | `(tactic| loop_simp [$ls,*]) => `(tactic| simp only [GoOrch.pure_apply, GoOrch.bind_apply, GoOrch.cont_ok, GoOrch.cont_err,
      GoOrch.cont_panic, GoOrch.getCell_apply, GoOrch.modifyCell_apply, GoOrch.ite_apply', Bmc.Lemmas.GenLoops.event_eq,
      bne_self_eq_false, Bool.false_eq_true, if_false, if_true, reduceCtorEq, bne_iff_ne, ne_eq, not_true_eq_false,
      not_false_eq_true, Bmc.Lemmas.GenLoops.sendRes, Bmc.Lemmas.GenLoops.decRes, $ls,*])
end Bmc
