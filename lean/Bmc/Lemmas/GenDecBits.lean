import Bmc.Basic.GoDec
import Bmc.Wire.V2Session
/-! Bit-level facts used to identify the REGENERATED decoders (`Bmc/Gen/Dec.lean`, fixed-width Go arithmetic) with
    the hand-written models (`Bmc/Wire/*.lean`, arithmetic in ℕ). -/
namespace Bmc.Lemmas.GenDec
open Bmc

theorem nat_or_shl (a b : Nat) (i : Nat) (h : a < 2 ^ i) : a ||| b <<< i = a + 2 ^ i * b := by
  rw [Nat.or_comm, ← Nat.shiftLeft_add_eq_or_of_lt h, Nat.shiftLeft_eq]
  rw [Nat.mul_comm, Nat.add_comm]

/-- `uint16(a) | uint16(b)<<8` -/
theorem or_shl8 (a b : UInt8) : (a.toUInt16 ||| (b.toUInt16 <<< 8)).toNat = a.toNat + 256 * b.toNat := by
  have ha := a.toNat_lt
  have hb := b.toNat_lt
  simp only [UInt16.toNat_or, UInt16.toNat_shiftLeft, UInt8.toNat_toUInt16]
  simp
  have : b.toNat <<< 8 % 65536 = b.toNat <<< 8 := by
    apply Nat.mod_eq_of_lt; rw [Nat.shiftLeft_eq]; omega
  rw [this, nat_or_shl _ _ 8 ha]

/-- `uint32(a) | uint32(b)<<8 | uint32(c)<<16` (the three-byte enterprise numbers) -/
theorem or_shl24 (a b c : UInt8) :
    (a.toUInt32 ||| (b.toUInt32 <<< 8) ||| (c.toUInt32 <<< 16)).toNat = a.toNat + 256 * b.toNat + 65536 * c.toNat := by
  have ha := a.toNat_lt
  have hb := b.toNat_lt
  have hc := c.toNat_lt
  simp only [UInt32.toNat_or, UInt32.toNat_shiftLeft, UInt8.toNat_toUInt32]
  simp
  have h1 : b.toNat <<< 8 % 4294967296 = b.toNat <<< 8 := by
    apply Nat.mod_eq_of_lt; rw [Nat.shiftLeft_eq]; omega
  have h2 : c.toNat <<< 16 % 4294967296 = c.toNat <<< 16 := by
    apply Nat.mod_eq_of_lt; rw [Nat.shiftLeft_eq]; omega
  rw [h1, h2, nat_or_shl _ _ 8 ha, nat_or_shl _ _ 16 (by omega)]

theorem or_shl32 (a b c d : UInt8) :
    (a.toUInt32 ||| (b.toUInt32 <<< 8) ||| (c.toUInt32 <<< 16) ||| (d.toUInt32 <<< 24)).toNat
      = a.toNat + 256 * b.toNat + 65536 * c.toNat + 16777216 * d.toNat := by
  have ha := a.toNat_lt
  have hb := b.toNat_lt
  have hc := c.toNat_lt
  have hd := d.toNat_lt
  simp only [UInt32.toNat_or, UInt32.toNat_shiftLeft, UInt8.toNat_toUInt32]
  simp
  have h1 : b.toNat <<< 8 % 4294967296 = b.toNat <<< 8 := by
    apply Nat.mod_eq_of_lt; rw [Nat.shiftLeft_eq]; omega
  have h2 : c.toNat <<< 16 % 4294967296 = c.toNat <<< 16 := by
    apply Nat.mod_eq_of_lt; rw [Nat.shiftLeft_eq]; omega
  have h3 : d.toNat <<< 24 % 4294967296 = d.toNat <<< 24 := by
    apply Nat.mod_eq_of_lt; rw [Nat.shiftLeft_eq]; omega
  rw [h1, h2, h3, nat_or_shl _ _ 8 ha, nat_or_shl _ _ 16 (by omega), nat_or_shl _ _ 24 (by omega)]

/-- Go's `binary.LittleEndian.Uint16` is the models' `le16` -/
theorem le16_toNat (b : Bytes) : (GoDec.le16 b).toNat = Wire.le16 b := or_shl8 _ _
/-- Go's `binary.LittleEndian.Uint32` is the models' `le32` -/
theorem le32_toNat (b : Bytes) : (GoDec.le32 b).toNat = Wire.le32 b := or_shl32 _ _ _ _

end Bmc.Lemmas.GenDec
