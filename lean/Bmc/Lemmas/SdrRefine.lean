import Bmc.Lemmas.SdrStrings
/-! Refinement: the faithful models of the SDR group equal pure functions of the visible bytes. -/
namespace Bmc.Wire
open Bmc Bmc.Lemmas.Sdr

theorem SDRRepoInfoRsp.decodeGo_canon (prev : SDRRepoInfoRsp) (d : GoSlice) :
    SDRRepoInfoRsp.decodeGo prev d = SDRRepoInfoRsp.decode d.vis ∧ (SDRRepoInfoRsp.decodeGo prev d).bad = false := by
  unfold SDRRepoInfoRsp.decode SDRRepoInfoRsp.decodeGo
  simp -zeta only [GoSlice.len_ofBytes, GoSlice.vis_length]
  canon_proof (d.len < 14)

theorem FullSensorRecord.decodeGo_refines (prev : FullSensorRecord) (d : GoSlice) :
    FullSensorRecord.decodeGo prev d = R.ofExcept (FullSensorRecord.decode d.vis) := by
  unfold FullSensorRecord.decodeGo FullSensorRecord.decode
  simp -zeta only [GoSlice.vis_length]
  by_cases h : d.len < 43
  · simp [h]
  · simp -zeta only [h, if_false]
    simp -zeta (disch := omega) only [GoSlice.idx_ok, R.bind_ok, GoSlice.sliceFrom_ok]
    rw [idDecoder_pure]
    simp only [GoSlice.sub_vis, GoSlice.take_len_drop_vis]
    cases hr : idPure (d.vis.getD 42 0 >>> 6) (List.drop 43 d.vis) (d.vis.getD 42 0 &&& 0x1f).toNat with
    | none => rfl
    | some r =>
      have hle := idPure_le _ _ _ r hr
      simp only [List.length_drop, GoSlice.vis_length] at hle
      simp only [R.ofOption_some, R.bind_ok]
      rw [GoSlice.slice_ok _ _ _ (by omega) (by omega), GoSlice.sliceFrom_ok _ _ (by omega)]
      simp only [R.bind_ok, R.pure_eq, GoSlice.sub_vis, GoSlice.take_len_drop_vis, List.drop_zero, Nat.sub_zero,
        R.ofExcept_ok]

end Bmc.Wire
