import Bmc.Driver.Prim
import Bmc.Driver.DecBasic
import Bmc.Driver.DecCore
import Bmc.Driver.DecSess
import Bmc.Driver.DecDcmi
import Bmc.Driver.DecSdr
import Bmc.Driver.DecSetup
import Bmc.Driver.Rt
import Bmc.Driver.Rt2
import Bmc.Driver.Send
import Bmc.Driver.SlSend
import Bmc.Driver.Hs
import Bmc.Driver.Suite
import Bmc.Driver.Hist
import Bmc.Driver.Conv
import Bmc.Driver.Enc
import Bmc.Driver.Sdr
import Bmc.Driver.Enum
import Bmc.Driver.Time
import Bmc.Driver.Conc
import Bmc.Driver.Api
import Bmc.Driver.BmcSpec
open Bmc.Driver

def decTables : List (String × DecFn) := decTableBasic ++ decTableCore ++ decTableSess ++ decTableDcmi ++ decTableSdr ++ decTableSetup

def evalDec (args : List String) : String :=
  match args with
  | [layer, prevS, dataS, tailS] =>
    match decTables.lookup layer, parseHex prevS, parseHex dataS, parseHex tailS with
    | some f, some prev, some data, some tail => f prev data tail
    | none, _, _, _ => "no-such-layer"
    | _, _, _, _ => "bad-op"
  | _ => "bad-op"

/-- one op per line: `<id> <class> <kind> <args…>`; the answer is `<id> <model outcome>` -/
def step (line : String) : String :=
  match (line.trimAscii.toString.splitOn " ").filter (· ≠ "") with
  | id :: _cls :: "prim" :: fn :: args => s!"{id} {evalPrim fn args}"
  | id :: _cls :: "str" :: args => s!"{id} {evalStr args}"
  | id :: _cls :: "dec" :: args => s!"{id} {evalDec args}"
  | id :: _cls :: "decn" :: layer :: chain :: rest =>
    -- a chain of earlier valid inputs "p1+p2+…": by the layers' reuse theorems only the receiver's LAST state could matter
    s!"{id} {evalDec (layer :: ((chain.splitOn "+").getLast?.getD "-") :: rest)}"
  | id :: _cls :: "rt" :: args => s!"{id} {evalRt args}"
  | id :: _cls :: "rtv1" :: args => s!"{id} {evalRtV1 args}"
  | id :: _cls :: "rtrakp1" :: args => s!"{id} {evalRtRakp1 args}"
  | id :: _cls :: "send" :: args => s!"{id} {evalSend args}"
  | id :: _cls :: "sendhist" :: args => s!"{id} {evalSendHist args}"
  | id :: _cls :: "sendu" :: args => s!"{id} {evalSend args}"
  | id :: _cls :: "slsendu" :: args => s!"{id} {evalSlSend args}"
  | id :: _cls :: "hsu" :: args => s!"{id} {evalHs args}"
  | id :: _cls :: "sendb" :: args => s!"{id} {evalSendB args}"
  | id :: _cls :: "slsendb" :: args => s!"{id} {evalSlSendB args}"
  | id :: _cls :: "sendseq" :: args => s!"{id} {evalSendSeq args}"
  | id :: _cls :: "sendm" :: args => s!"{id} {evalSendM args}"
  | id :: _cls :: "slsend" :: args => s!"{id} {evalSlSend args}"
  | id :: _cls :: "slhist" :: args => s!"{id} {evalSlHist args}"
  | id :: _cls :: "hs" :: args => s!"{id} {evalHs args}"
  | id :: _cls :: "hsm" :: args => s!"{id} {evalHsM args}"
  | id :: _cls :: "hs2" :: args => s!"{id} {evalHs2 args}"
  | id :: _cls :: "suite" :: args => s!"{id} {evalSuite args}"
  | id :: _cls :: "suiterec" :: args => s!"{id} {evalSuiteRec args}"
  | id :: _cls :: "hist" :: args => s!"{id} {evalHist args}"
  | id :: _cls :: "conv" :: args => s!"{id} {evalConv args}"
  | id :: _cls :: "enc" :: args => s!"{id} {evalEnc args}"
  | id :: _cls :: "pkt" :: args => s!"{id} {evalPkt args}"
  | id :: _cls :: "pktcmd" :: args => s!"{id} {evalPktCmd args}"
  | id :: _cls :: "sdr" :: args => s!"{id} {evalSdr args}"
  | id :: _cls :: "suites" :: args => s!"{id} {evalSuites args}"
  | id :: _cls :: "parse" :: args => s!"{id} {evalParse args}"
  | id :: _cls :: "dcmi" :: args => s!"{id} {evalDcmi args}"
  | id :: _cls :: "time" :: args => s!"{id} {evalTime args}"
  | id :: _cls :: "conc" :: args => s!"{id} {evalConc args}"
  | id :: _cls :: "concu" :: args => s!"{id} {evalConc args}"
  | id :: _cls :: "api" :: args => s!"{id} {evalApi args}"
  | id :: _cls :: "bmcopen" :: args => s!"{id} {evalBmcOpen args}"
  | id :: _cls :: "bmcseal" :: args => s!"{id} {evalBmcSeal args}"
  | id :: _ => s!"{id} bad-op"
  | [] => ""

partial def loop (h : IO.FS.Stream) (out : IO.FS.Stream) : IO Unit := do
  let line ← h.getLine
  if line.isEmpty then return ()
  let r := step line
  if r ≠ "" then out.putStrLn r
  loop h out

def main : IO Unit := do
  let out ← IO.getStdout
  loop (← IO.getStdin) out
  out.flush
