import Bmc.Driver.Prim
open Bmc.Driver

/-- one op per line: `<id> <class> <kind> <args…>`; the answer is `<id> <model outcome>` -/
def step (line : String) : String :=
  match (line.trimAscii.toString.splitOn " ").filter (· ≠ "") with
  | id :: _cls :: "prim" :: fn :: args => s!"{id} {evalPrim fn args}"
  | id :: _cls :: "str" :: args => s!"{id} {evalStr args}"
  | id :: _ => s!"{id} bad-op"
  | [] => ""

partial def loop (h : IO.FS.Stream) (out : IO.FS.Stream) : IO Unit := do
  let line ← h.getLine
  if line.isEmpty then return ()
  let r := step line
  if r ≠ "" then out.putStrLn r
  loop h out

def main : IO Unit := do
  let out ← IO.getStdout
  loop (← IO.getStdin) out
  out.flush
