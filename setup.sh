#!/bin/sh
# MANIFEST.setup_cmd: build the framework from files on disk only (offline).
set -e
cd "$(dirname "$0")"
export GOFLAGS=-mod=mod GOPROXY=off GOSUMDB=off GOTOOLCHAIN=local
mkdir -p bin work evidence replays
(cd tools/factgen && go build -o ../../bin/factgen .)
(cd tools/ssagen && go build -o ../../bin/ssagen .)
(cd tools/decgen && go build -o ../../bin/decgen .)
(cd tools/encgen && go build -o ../../bin/encgen .)
(cd tools/keygen && go build -o ../../bin/keygen .)
(cd tools/loopgen && go build -o ../../bin/loopgen .)
./bin/factgen /repo > lean/Bmc/Gen/Facts.lean.tmp && mv lean/Bmc/Gen/Facts.lean.tmp lean/Bmc/Gen/Facts.lean
./bin/ssagen /repo > lean/Bmc/Gen/Prims.lean.tmp && mv lean/Bmc/Gen/Prims.lean.tmp lean/Bmc/Gen/Prims.lean
./bin/decgen /repo > lean/Bmc/Gen/Dec.lean.tmp && mv lean/Bmc/Gen/Dec.lean.tmp lean/Bmc/Gen/Dec.lean
./bin/decgen -orch /repo > lean/Bmc/Gen/Orch.lean.tmp && mv lean/Bmc/Gen/Orch.lean.tmp lean/Bmc/Gen/Orch.lean
./bin/encgen /repo > lean/Bmc/Gen/Enc.lean.tmp && mv lean/Bmc/Gen/Enc.lean.tmp lean/Bmc/Gen/Enc.lean
./bin/keygen /repo > lean/Bmc/Gen/Keys.lean.tmp && mv lean/Bmc/Gen/Keys.lean.tmp lean/Bmc/Gen/Keys.lean
./bin/decgen -hs /repo > lean/Bmc/Gen/Hs.lean.tmp && mv lean/Bmc/Gen/Hs.lean.tmp lean/Bmc/Gen/Hs.lean
./bin/loopgen /repo > lean/Bmc/Gen/Loops.lean.tmp && mv lean/Bmc/Gen/Loops.lean.tmp lean/Bmc/Gen/Loops.lean
rm -f work/gen.hash
(cd lean && lake build)
cp /repo/go.sum harness/go.sum
(cd harness && go build -tags verif -o ../bin/harness ./cmd/harness)
echo setup done
