#!/usr/bin/env python3
"""Regenerate MANIFEST.json from props.py (claimed properties) and properties.jsonl (the rest => not_applicable)."""
import json, os, subprocess, sys
ROOT = os.path.dirname(os.path.abspath(__file__))
sys.path.insert(0, ROOT)
from props import PROPS
try:
    from props import NOT_CLAIMED
except ImportError:
    NOT_CLAIMED = {}
hooks = subprocess.run(["git", "-C", "/repo", "log", "--format=%h %s"], stdout=subprocess.PIPE, text=True).stdout.splitlines()
hook_commits = [l.split()[0] for l in hooks if l.split(" ", 1)[1].startswith("verif:")]
m = {
    "version": 1,
    "setup_cmd": "./setup.sh",
    "hooks": {"guard": "verif", "enable": "go build -tags verif (the harness module replaces github.com/gebn/bmc with /repo)",
              "baseline_off_cmd": "cd /repo && GOFLAGS=-mod=mod GOPROXY=off go test -vet=off -count=1 ./...",
              "source_commits": hook_commits, "add_only": True},
    "engines": [{"name": "lean-proof+correspondence", "path": "check", "serves_properties": sorted(PROPS),
                 "kind_free_text": "Lean 4 theorems over a hand-written model + regenerated facts/SSA translation, tied to /repo by a differential correspondence check (Go harness vs compiled Lean driver)"}],
    "checks": [], "not_applicable": [],
    "notes": "see DESIGN.md; known_findings.json lists repaired defects (fixed entries suppress nothing)",
}
for pid in sorted(PROPS):
    c = PROPS[pid]
    m["checks"].append({"property_id": pid, "quick_cmd": "./check %s --tier quick" % pid, "thorough_cmd": "./check %s --tier thorough" % pid,
                        "evidence_file": "/verif/evidence/%s.json" % pid, "replay_cmd_template": "./check replay {path}",
                        "engine": "lean-proof+correspondence",
                        "level_claimed": {"category": "proof", "text": c["claim"], "design_ref": c.get("ref", "")},
                        "level_note": c["note"], "technique": c["technique"]})
for l in open(os.path.join(ROOT, "properties.jsonl")):
    pid = json.loads(l)["id"]
    if pid not in PROPS:
        m["not_applicable"].append({"property_id": pid, "reason": NOT_CLAIMED.get(pid, "not yet claimed: the model and check for this property are still being built (see DESIGN.md build order)")})
json.dump(m, open(os.path.join(ROOT, "MANIFEST.json"), "w"), indent=1)
print("claimed:", sorted(PROPS))
