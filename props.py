"""Per-property configuration of ./check: theorem modules, harness scenarios, evidence wording."""

PROPS = {
    "C20": {
        "claim": "Every conversion is proved equal to its mathematical definition on its whole domain: the scalar functions are re-translated from Go SSA to Lean BitVec definitions on every run and proved by kernel-checked decide over all 256 / 1024 / 2^bits inputs; string decoders, checksum and the duration codec are hand models with theorems for every length (induction), tied to the code by an exhaustive differential run.",
        "note": "trusted: Lean kernel, ssagen/factgen translators, the correspondence harness; Go float division on whole seconds assumed exact (exhaustively cross-checked in the thorough tier)",
        "technique": "Lean 4 proof (decide +kernel on regenerated SSA translation; induction for list functions) + exhaustive differential correspondence",
        "ref": "§5 C20",
        "proofs": ["Bmc.Proofs.C20"],
        "scenarios": ["c20"],
        "rule": "exhaustive over every byte for the 13 scalar functions, every value of every width 1..12 (thorough: 1..16) for two's "
                "complement, every nibble / 6-bit code at every position of BCD+ / packed strings of 0..31 characters, every data length "
                "around each requirement, Latin-1 counts 0..31 x lengths 0..count+2, checksums of every length 0..64, durations: every second "
                "to 2 h + every hour/day boundary +-2 s + 20000 random (thorough: every second to 64 days). Non-trivial = non-zero argument / "
                "string long enough to decode; distinct = distinct op line.",
        "exhaustive_thorough": True,
        "modelled": ["decodeBCDPlus, decodePacked6BitAscii, decode8BitAsciiLatin1, checksum, rollingAvgPeriodByte are hand models tied by "
                     "correspondence; the 20 loop-free scalar functions are regenerated from SSA on every run"],
        "assumptions": ["float division of a whole number of seconds by a whole unit followed by truncation equals integer division "
                        "(rollingAvgPeriodByte); checked by the exhaustive thorough run"],
    },
    "C08": {
        "claim": "Round-trip theorems in Lean over the encode/decode models: IPMI message for every NetFn class and every payload (decode(encode) = value with computed checksums, re-encode = same bytes), AES-128-CBC layer for every lawful block cipher, key, IV and message of every length (CBC inversion by induction on blocks, pad arithmetic for every length), v2.0 wrapper without trailer incl. OEM descriptor; the authenticated trailer of the v2.0 wrapper, the v1.5 wrapper and RAKP 1 are so far covered by the correspondence run only (partial). Models are tied to the code by serialising through gopacket.SerializeLayers for every payload length 0..200 (thorough 0..480), all integrity algorithms, and comparing bytes with the model's; the Go side also checks decode(serialise) = value and re-serialise = same bytes directly.",
        "note": "trusted: Lean kernel; hand-written encode/decode models tied by byte-exact correspondence; HMAC/AES of Go's crypto library assumed lawful (decBlock inverts encBlock, fixed output lengths); gopacket SerializeBuffer modelled as list concatenation",
        "technique": "Lean 4 proof (round-trip theorems by simp/omega/induction over abstract lawful crypto) + byte-exact differential correspondence of serialisers",
        "ref": "§5 C08",
        "proofs": ["Bmc.Proofs.C08"],
        "scenarios": ["rt"],
        "rule": "message: 7 NetFn classes x every payload length 0..200 (thorough 0..480); v2 wrapper: 4 integrity algorithms x authenticated/not x payload "
                "types incl. OEM x every payload length; AES: every message length; all field values random per op. Non-trivial = every op (each "
                "serialises, decodes, compares and re-serialises); distinct = distinct op line.",
        "modelled": ["Message.encode/decode, V2Session.encode/decode, AESLayer.encode/decode are hand models; gopacket's SerializeBuffer and "
                     "crypto/{hmac,aes,cipher} are modelled/assumed, not verified"],
        "assumptions": ["crypto/rand replaced by a fixed reader in the harness so that the IV is an input"],
    },
}
