"""Per-property configuration of ./check: theorem modules, harness scenarios, evidence wording."""

PROPS = {
    "C20": {
        "claim": "Every conversion is proved equal to its mathematical definition on its whole domain: the scalar functions are re-translated from Go SSA to Lean BitVec definitions on every run and proved by kernel-checked decide over all 256 / 1024 / 2^bits inputs; string decoders, checksum and the duration codec are hand models with theorems for every length (induction), tied to the code by an exhaustive differential run.",
        "note": "trusted: Lean kernel, ssagen/factgen translators, the correspondence harness; Go float division on whole seconds assumed exact (exhaustively cross-checked in the thorough tier)",
        "technique": "Lean 4 proof (decide +kernel on regenerated SSA translation; induction for list functions) + exhaustive differential correspondence",
        "ref": "§5 C20",
        "proofs": ["Bmc.Proofs.C20"],
        "scenarios": ["c20"],
        "rule": "exhaustive over every byte for the 13 scalar functions, every value of every width 1..12 (thorough: 1..16) for two's "
                "complement, every nibble / 6-bit code at every position of BCD+ / packed strings of 0..31 characters, every data length "
                "around each requirement, Latin-1 counts 0..31 x lengths 0..count+2, checksums of every length 0..64, durations: every second "
                "to 2 h + every hour/day boundary +-2 s + 20000 random (thorough: every second to 64 days). Non-trivial = non-zero argument / "
                "string long enough to decode; distinct = distinct op line.",
        "exhaustive_thorough": True,
        "modelled": ["decodeBCDPlus, decodePacked6BitAscii, decode8BitAsciiLatin1, checksum, rollingAvgPeriodByte are hand models tied by "
                     "correspondence; the 20 loop-free scalar functions are regenerated from SSA on every run"],
        "assumptions": ["float division of a whole number of seconds by a whole unit followed by truncation equals integer division "
                        "(rollingAvgPeriodByte); checked by the exhaustive thorough run"],
    },
    "C08": {
        "claim": "Round-trip theorems in Lean over the encode/decode models: IPMI message for every NetFn class and every payload (decode(encode) = value with computed checksums, re-encode = same bytes), AES-128-CBC layer for every lawful block cipher, key, IV and message of every length (CBC inversion by induction on blocks, pad arithmetic for every length), v2.0 wrapper without trailer incl. OEM descriptor; the authenticated trailer of the v2.0 wrapper, the v1.5 wrapper and RAKP 1 are so far covered by the correspondence run only (partial). Models are tied to the code by serialising through gopacket.SerializeLayers for every payload length 0..200 (thorough 0..480), all integrity algorithms, and comparing bytes with the model's; the Go side also checks decode(serialise) = value and re-serialise = same bytes directly.",
        "note": "trusted: Lean kernel; hand-written encode/decode models tied by byte-exact correspondence; HMAC/AES of Go's crypto library assumed lawful (decBlock inverts encBlock, fixed output lengths); gopacket SerializeBuffer modelled as list concatenation",
        "technique": "Lean 4 proof (round-trip theorems by simp/omega/induction over abstract lawful crypto) + byte-exact differential correspondence of serialisers",
        "ref": "§5 C08",
        "proofs": ["Bmc.Proofs.C08"],
        "scenarios": ["rt"],
        "rule": "message: 7 NetFn classes x every payload length 0..200 (thorough 0..480); v2 wrapper: 4 integrity algorithms x authenticated/not x payload "
                "types incl. OEM x every payload length; AES: every message length; all field values random per op. Non-trivial = every op (each "
                "serialises, decodes, compares and re-serialises); distinct = distinct op line.",
        "modelled": ["Message.encode/decode, V2Session.encode/decode, AESLayer.encode/decode are hand models; gopacket's SerializeBuffer and "
                     "crypto/{hmac,aes,cipher} are modelled/assumed, not verified"],
        "assumptions": ["crypto/rand replaced by a fixed reader in the harness so that the IV is an input"],
    },
    "C05": {
        "claim": "For each of the 31 decoding layers of pkg/ipmi and pkg/dcmi a Lean model mirrors DecodeFromBytes statement by statement over an explicit Go-slice semantics (indexing bounded by len, slicing by cap, panics and reads beyond len as outcomes) and a refinement / canonical-form theorem shows: for EVERY receiver state and EVERY slice (any length, any capacity, any bytes beyond its length) the result is a value or an error - never a panic or an over-read - and is a function of the visible bytes only. The AES layer is proved for every lawful block cipher and key, i.e. for every plaintext a key holder can craft. On top: the whole decoding chain of an in-session reply never crashes (decodeChain_total) and an in-session command returns for every reply script of every length (call_total). Models are tied to the code by running every decoder under recover() on exact-capacity slices and on windows into a poisoned buffer with two poisons.",
        "note": "trusted: Lean kernel; the hand-written decodeGo models (tied by correspondence: outcome incl. every exported field, panic, over-read); Go slice semantics as modelled in Basic/Go.lean; gopacket's LayersDecoder modelled from source; state left behind by a FAILED decode is not modelled; session-less and handshake call totality rest on the same per-layer theorems plus the correspondence runs of C10/C02 (no separate Lean theorem yet)",
        "technique": "Lean 4 proof (per-layer refinement theorems over Go-slice semantics; induction over reply scripts) + differential correspondence under recover() with poisoned windows",
        "ref": "§5 C05",
        "proofs": ["Bmc.Proofs.C05.Basic", "Bmc.Proofs.C05.Core", "Bmc.Proofs.C05.Sess", "Bmc.Proofs.C05.Sdr", "Bmc.Proofs.C05.Setup", "Bmc.Proofs.C05.Dcmi"],
        "scenarios": ["dec", "send"],
        "rule": "dec: per layer 150 (thorough 3000) specification-conforming encodings, each decoded fresh / in a poisoned window / after another valid input; every truncation and 1-3 byte extension of 40 of them; single-bit corruptions; random bytes; all ordered pairs of a pool; layer-specific branch steering (crafted AES plaintexts for every pad length x pattern, 7-byte responses, every trailer length). send: exhaustive reply scripts over an 18-letter alphabet (forged, truncated, mis-signed, mis-padded, runt, ...) to depth 2 (thorough 3). Non-trivial = input passing the layer's first length guard / script with a non-final outcome before its end; distinct = distinct op line.",
        "modelled": ["all DecodeFromBytes methods, LayersDecoder chain, in-session retry loop are hand models tied by correspondence; crypto/aes + cipher.CBC assumed lawful (decBlock inverts encBlock, lengths preserved)"],
        "assumptions": ["gopacket hands each layer LayerPayload() of the previous one (window into the receive buffer)"],
    },
    "C07": {
        "claim": "For every response layer (24 IPMI/DCMI/RMCP+ layers incl. Full Sensor Record with all four ID-string encodings and every length 0..31, DCMI capabilities for versions 1.0/1.1/1.5, Open Session Response in all its forms) a specification-side record + encoder written from the tables, and a theorem: decoding the encoding of ANY well-formed value yields exactly its fields (every flag bit, 10-bit M/B/accuracy and 4-bit exponents through the C20 two's-complement lemmas, every optional / variable tail), plus rejection theorems (shorter than the minimum, truncated variable tails, wrong payload types, both IPMI checksums, wrapper length field exceeding the data). Models tied to the code by decoding generated spec encodings and comparing every exported field.",
        "note": "trusted: Lean kernel; Spec/ transcription of the IPMI v2.0 / DCMI tables (PDFs unavailable offline; where the repo's tests pin a reading - DCMI SEL attribute byte order, raw auth status bits, 16-byte AES pads - the spec side follows it and says so); decodeGo models tied by correspondence",
        "technique": "Lean 4 proof (decode(encode v) = v for all well-formed v, per layer; finite bit facts by decide +kernel) + differential correspondence on spec-conforming encodings",
        "ref": "§5 C07",
        "proofs": ["Bmc.Proofs.C07.Basic", "Bmc.Proofs.C07.Core", "Bmc.Proofs.C07.Sess", "Bmc.Proofs.C07.Sdr", "Bmc.Proofs.C07.Setup", "Bmc.Proofs.C07.Dcmi"],
        "scenarios": ["dec"],
        "rule": "as for C05 (scenario dec); class P = inputs produced by the per-layer generator of specification-conforming encodings (reserved bits zero, every optional-tail form) and inputs the specification demands be rejected (below the minimum length, corrupted checksums, excessive length fields); everything else is class M.",
        "modelled": ["all DecodeFromBytes methods are hand models tied by correspondence"],
        "assumptions": [],
    },
    "C17": {
        "claim": "The per-layer refinement theorems quantify over the receiver's previous state: decodeGo prev d = decodeGo fresh d for every prev and d, for all 31 layers (incl. GetDCMISensorInfoRsp whose RecordIDs slice reuses its backing array - only the visible prefix is observable). At connection level the in-session loop theorem (sendLoop_spec) shows result and transmitted bytes depend only on the keys, the command, the counter and the script - not on what earlier commands left in the layers. Tied to the code by decoding every ordered pair of a pool of valid inputs into one receiver and comparing with a fresh receiver, and by the in-session correspondence run.",
        "note": "trusted: Lean kernel; decodeGo models tied by correspondence; what a FAILED decode leaves in the receiver is not modelled (layers are rebuilt per attempt and command structs are fresh per call); session-less connection-level independence is covered by correspondence only",
        "technique": "Lean 4 proof (refinement theorems universally quantified over the receiver state; loop refinement) + differential reuse-vs-fresh correspondence",
        "ref": "§5 C17",
        "proofs": ["Bmc.Proofs.C17.Basic", "Bmc.Proofs.C17.Core", "Bmc.Proofs.C17.Sess", "Bmc.Proofs.C17.Sdr", "Bmc.Proofs.C17.Setup", "Bmc.Proofs.C17.Dcmi"],
        "scenarios": ["dec"],
        "rule": "as for C05 (scenario dec): every op with an earlier input decodes it into the same receiver first; all ordered pairs of a pool of 8 (thorough 24) valid encodings per layer plus layer-specific pairs with differing optional tails; verdict `stale` when the reused result differs from a fresh one.",
        "modelled": ["all DecodeFromBytes methods are hand models tied by correspondence"],
        "assumptions": [],
    },
}
