"""Per-property configuration of ./check: theorem modules, harness scenarios, evidence wording."""

PROPS = {
    "C20": {
        "proofs": ["Bmc.Proofs.C20"],
        "scenarios": ["c20"],
        "rule": "exhaustive over every byte for the 13 scalar functions, every value of every width 1..12 (thorough: 1..16) for two's "
                "complement, every nibble / 6-bit code at every position of BCD+ / packed strings of 0..31 characters, every data length "
                "around each requirement, Latin-1 counts 0..31 x lengths 0..count+2, checksums of every length 0..64, durations: every second "
                "to 2 h + every hour/day boundary +-2 s + 20000 random (thorough: every second to 64 days). Non-trivial = non-zero argument / "
                "string long enough to decode; distinct = distinct op line.",
        "exhaustive_thorough": True,
        "modelled": ["decodeBCDPlus, decodePacked6BitAscii, decode8BitAsciiLatin1, checksum, rollingAvgPeriodByte are hand models tied by "
                     "correspondence; the 20 loop-free scalar functions are regenerated from SSA on every run"],
        "assumptions": ["float division of a whole number of seconds by a whole unit followed by truncation equals integer division "
                        "(rollingAvgPeriodByte); checked by the exhaustive thorough run"],
    },
}
