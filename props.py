"""Per-property configuration of ./check: theorem modules, harness scenarios, evidence wording."""

PROPS = {
    "C20": {
        "claim": "Every conversion is proved equal to its mathematical definition on its whole domain: the scalar functions are re-translated from Go SSA to Lean BitVec definitions on every run and proved by kernel-checked decide over all 256 / 1024 / 2^bits inputs; string decoders, checksum and the duration codec are hand models with theorems for every length (induction), tied to the code by an exhaustive differential run.",
        "note": "trusted: Lean kernel, ssagen/factgen translators, the correspondence harness; Go float division on whole seconds assumed exact (exhaustively cross-checked in the thorough tier)",
        "technique": "Lean 4 proof (decide +kernel on regenerated SSA translation; induction for list functions) + exhaustive differential correspondence",
        "ref": "§5 C20",
        "proofs": ["Bmc.Proofs.C20"],
        "scenarios": ["c20", "dec:fsr,sensorreading,powerreading,deviceid,dcmisensorinfo,sdrrepoinfo"],
        "rule": "exhaustive over every byte for the 13 scalar functions, every value of every width 1..12 (thorough: 1..16) for two's "
                "complement, every nibble / 6-bit code at every position of BCD+ / packed strings of 0..31 characters, every data length "
                "around each requirement, Latin-1 counts 0..31 x lengths 0..count+2, checksums of every length 0..64, durations: every second "
                "to 2 h + every hour/day boundary +-2 s + 20000 random (thorough: every second to 64 days). Non-trivial = non-zero argument / "
                "string long enough to decode; distinct = distinct op line.",
        "exhaustive_thorough": True,
        "modelled": ["decodeBCDPlus, decodePacked6BitAscii, decode8BitAsciiLatin1, checksum, rollingAvgPeriodByte are hand models tied by "
                     "correspondence; the 20 loop-free scalar functions are regenerated from SSA on every run"],
        "assumptions": ["float division of a whole number of seconds by a whole unit followed by truncation equals integer division "
                        "(rollingAvgPeriodByte); checked by the exhaustive thorough run"],
    },
    "C08": {'claim': 'Round-trip theorems in Lean over the encode/decode models of all five two-way layers: IPMI message for every NetFn class and every payload '
          '(decode(encode) = value with computed checksums, re-encode = same bytes); AES-128-CBC layer for every lawful block cipher, key, IV and message of '
          'every length (CBC inversion by induction on blocks, pad arithmetic for every length); v2.0 session wrapper with and without the OEM payload '
          'descriptor and with and without the authenticated trailer (0xFF integrity pad scan, pad length, next header, AuthCode) for EVERY integrity function '
          '(any output, any length) and every payload length < 65536; v1.5 session wrapper in both forms (10-byte header / 26 bytes with the 16-byte AuthCode) '
          'for every payload (Length byte exact below 256 bytes); RAKP Message 1 for every tag, session ID, random, role and user name of 0..16 bytes (17 and '
          "more: the serialiser refuses). Each with 'serialising the decoded value again gives the same bytes'. Models are tied to the code by serialising "
          'through gopacket.SerializeLayers for every payload length 0..200 (thorough 0..480; v1.5: 0..255 and beyond the byte wrap), all integrity '
          "algorithms, every user-name length 0..20, and comparing the bytes and the re-decoded fields with the model's; the Go side also checks "
          'decode(serialise) = value and re-serialise = same bytes directly.',
 'note': "trusted: Lean kernel; hand-written encode/decode models tied by byte-exact correspondence; HMAC/AES of Go's crypto library assumed lawful (decBlock "
         "inverts encBlock); gopacket SerializeBuffer modelled as list concatenation. Values outside the wire format's range are excluded by the WF hypotheses "
         '(message sequence < 64, LUN < 4; v2 payload type < 64; v1.5 AuthCode all zero when the authentication type is none - the field is absent from the '
         'wire; RAKP 1 privilege level < 16)',
 'technique': 'Lean 4 proof (round-trip theorems by simp/omega/induction over abstract lawful crypto and an arbitrary integrity function) + byte-exact '
              'differential correspondence of serialisers and decoders',
 'ref': '§5 C08',
 'proofs': ['Bmc.Proofs.C08'],
 'scenarios': ['rt', 'rt2', 'dec:aes,v2none,v2sha1,v2md5,v2sha256,v1session,message,rakp1'],
 'rule': 'rt: message: 7 NetFn classes x every payload length 0..200 (thorough 0..480); v2 wrapper: 4 integrity algorithms x authenticated/not x payload types '
         'incl. OEM x every payload length; AES: every message length. rt2: v1.5 wrapper: authentication type none and 5 other types (16-byte AuthCode) x '
         'every payload length 0..200 (thorough 0..255, 256, 257, 300, 511, 512); RAKP 1: user-name lengths 0..20 x lookup flag x all 16 privilege values. All '
         'other field values random per op (32-bit fields incl. 0, 0xffffffff, single non-zero byte). Non-trivial = every op (each serialises, decodes, '
         'compares and re-serialises); distinct = distinct op line.',
 'modelled': ['Message.encode/decode, V2Session.encode/decode, AESLayer.encode/decode, V1Session.encode/decode, RAKP1.encode / Setup.RAKP1.decode are hand '
              "models; gopacket's SerializeBuffer and crypto/{hmac,aes,cipher} are modelled/assumed, not verified"],
 'assumptions': ['crypto/rand replaced by a fixed reader in the harness so that the IV is an input']},
    "C05": {
        "claim": "For each of the 31 decoding layers of pkg/ipmi and pkg/dcmi a Lean model mirrors DecodeFromBytes statement by statement over an explicit Go-slice semantics (indexing bounded by len, slicing by cap, panics and reads beyond len as outcomes) and a refinement / canonical-form theorem shows: for EVERY receiver state and EVERY slice (any length, any capacity, any bytes beyond its length) the result is a value or an error - never a panic or an over-read - and is a function of the visible bytes only. The AES layer is proved for every lawful block cipher and key, i.e. for every plaintext a key holder can craft. On top: the whole decoding chain of an in-session reply never crashes (decodeChain_total) and an in-session command returns for every reply script of every length (call_total); likewise the session-less chain and command (slChain_total, sessionless_call_total) and the whole RAKP handshake: for every credential set, suite and EVERY reply script - any bytes substituted or truncated at any of the three exchanges - newSession ends with a session or an error, never a crash (handshake_total). Models are tied to the code by running every decoder under recover() on exact-capacity slices and on windows into a poisoned buffer with two poisons.",
        "note": "trusted: Lean kernel; the hand-written decodeGo models (tied by correspondence: outcome incl. every exported field, panic, over-read); Go slice semantics as modelled in Basic/Go.lean; gopacket's LayersDecoder modelled from source; state left behind by a FAILED decode is not modelled",
        "technique": "Lean 4 proof (per-layer refinement theorems over Go-slice semantics; induction over reply scripts) + differential correspondence under recover() with poisoned windows",
        "ref": "§5 C05",
        "proofs": ["Bmc.Proofs.C05.Basic", "Bmc.Proofs.C05.Core", "Bmc.Proofs.C05.Sess", "Bmc.Proofs.C05.Sdr", "Bmc.Proofs.C05.Setup", "Bmc.Proofs.C05.Dcmi", "Bmc.Proofs.C05.Calls"],
        "scenarios": ["dec", "send", "slsend", "hs", "api", "enum", "sdr", "suite", "udp"],
        "rule": "dec: per layer 150 (thorough 3000) specification-conforming encodings, each decoded fresh / in a poisoned window / after another valid input; every truncation and 1-3 byte extension of 40 of them; single-bit corruptions; random bytes; all ordered pairs of a pool; layer-specific branch steering (crafted AES plaintexts for every pad length x pattern, 7-byte responses, every trailer length). send: exhaustive reply scripts over an 18-letter alphabet (forged, truncated, mis-signed, mis-padded, runt, ...) to depth 3 (thorough: + a quarter of depth 4). Non-trivial = input passing the layer's first length guard / script with a non-final outcome before its end; distinct = distinct op line.",
        "modelled": ["all DecodeFromBytes methods, LayersDecoder chain, in-session retry loop are hand models tied by correspondence; crypto/aes + cipher.CBC assumed lawful (decBlock inverts encBlock, lengths preserved)"],
        "assumptions": ["gopacket hands each layer LayerPayload() of the previous one (window into the receive buffer)"],
    },
    "C07": {
        "claim": "For every response layer (24 IPMI/DCMI/RMCP+ layers incl. Full Sensor Record with all four ID-string encodings and every length 0..31, DCMI capabilities for versions 1.0/1.1/1.5, Open Session Response in all its forms) a specification-side record + encoder written from the tables, and a theorem: decoding the encoding of ANY well-formed value yields exactly its fields (every flag bit, 10-bit M/B/accuracy and 4-bit exponents through the C20 two's-complement lemmas, every optional / variable tail), plus rejection theorems (shorter than the minimum, truncated variable tails, wrong payload types, both IPMI checksums, wrapper length field exceeding the data). Models tied to the code by decoding generated spec encodings and comparing every exported field."
          " On top, the HIGH-LEVEL API (Proofs/C07/Api.lean over Proto/Api.lean: every wrapper around SendCommand - bmc.V2Session's twelve methods, V2Sessionless's two, the seven of the DCMI commanders): for every call, a conforming response datagram with code 00h and the specification's encoding of ANY well-formed value makes the call return exactly that value's fields after one transmission of a datagram that opens to the specification's command with the caller's arguments (call_returns_decoded + one instance per call, request_is_the_call, session-less analogues); a non-zero completion code is an error whatever the body (nonzero_code_is_error); for every script a value reaches the caller only from a reply to this very command with code 00h decoded by the call's own response layer (value_only_from_code_zero). Tied to the code by calling the REAL methods on real sessions / session-less transports with scripted replies.",
        "note": "trusted: Lean kernel; Spec/ transcription of the IPMI v2.0 / DCMI tables (PDFs unavailable offline; where the repo's tests pin a reading - DCMI SEL attribute byte order, raw auth status bits, 16-byte AES pads - the spec side follows it and says so); decodeGo models tied by correspondence",
        "technique": "Lean 4 proof (decode(encode v) = v for all well-formed v, per layer; finite bit facts by decide +kernel) + differential correspondence on spec-conforming encodings",
        "ref": "§5 C07",
        "proofs": ["Bmc.Proofs.C07.Basic", "Bmc.Proofs.C07.Core", "Bmc.Proofs.C07.Sess", "Bmc.Proofs.C07.Sdr", "Bmc.Proofs.C07.Setup", "Bmc.Proofs.C07.Dcmi", "Bmc.Proofs.C07.Api"],
        "scenarios": ["dec", "api", "sdr"],
        "rule": "as for C05 (scenario dec); class P = inputs produced by the per-layer generator of specification-conforming encodings (reserved bits zero, every optional-tail form) and inputs the specification demands be rejected (below the minimum length, corrupted checksums, excessive length fields); everything else is class M."
          " api: every high-level call x {3 suites in session, session-less}: type-directed arguments (0, max, walking bits, out-of-width, random) x reply scripts {conforming body in every optional-tail form, non-zero code with / without body, temporary code then final, reply to another command first, lost, empty / truncated at every length / extended / random body} + all ordered pairs of calls on ONE connection with the second reply shorter than the first; class P = conforming scripts; model-independent verdict: result = fresh decode by the real decoder of the first acceptable final response (error unless code 00h), every transmitted datagram opens under the reference BMC / parser to the specification's command with the caller's arguments.",
        "modelled": ["all DecodeFromBytes methods are hand models tied by correspondence"],
        "assumptions": [],
    },
    "C17": {
        "claim": "The per-layer refinement theorems quantify over the receiver's previous state: decodeGo prev d = decodeGo fresh d for every prev and d, for all 31 layers (incl. GetDCMISensorInfoRsp whose RecordIDs slice reuses its backing array - only the visible prefix is observable). At connection level the in-session loop theorem (sendLoop_spec) shows result and transmitted bytes depend only on the keys, the command, the counter and the script - not on what earlier commands left in the layers. Tied to the code by decoding every ordered pair of a pool of valid inputs into one receiver and comparing with a fresh receiver, and by the in-session correspondence run."
          ' At the level of the high-level API the value a call returns is a function of the one reply it accepts (Proofs/C07/Api.lean: value_only_from_code_zero; the command struct is fresh per call): scenario api runs every ordered pair of calls on one connection with the second reply shorter than the first and compares with a fresh decode.',
        "note": "trusted: Lean kernel; decodeGo models tied by correspondence; what a FAILED decode leaves in the receiver is not modelled (layers are rebuilt per attempt and command structs are fresh per call); session-less connection-level independence is covered by correspondence only",
        "technique": "Lean 4 proof (refinement theorems universally quantified over the receiver state; loop refinement) + differential reuse-vs-fresh correspondence",
        "ref": "§5 C17",
        "proofs": ["Bmc.Proofs.C17.Basic", "Bmc.Proofs.C17.Core", "Bmc.Proofs.C17.Sess", "Bmc.Proofs.C17.Sdr", "Bmc.Proofs.C17.Setup", "Bmc.Proofs.C17.Dcmi"],
        "scenarios": ["dec", "api", "send", "slsend", "sdr"],
        "rule": "send / slsend (connection-level clause: the same command gives the same datagrams and result whatever replies - authentic, forged, mis-signed, truncated - the session's layers, hash and buffers saw before; exhaustive reply scripts, see C10). as for C05 (scenario dec): every op with an earlier input decodes it into the same receiver first; all ordered pairs of a pool of 8 (thorough 24) valid encodings per layer plus layer-specific pairs with differing optional tails; verdict `stale` when the reused result differs from a fresh one."
          " api: every high-level call x {3 suites in session, session-less}: type-directed arguments (0, max, walking bits, out-of-width, random) x reply scripts {conforming body in every optional-tail form, non-zero code with / without body, temporary code then final, reply to another command first, lost, empty / truncated at every length / extended / random body} + all ordered pairs of calls on ONE connection with the second reply shorter than the first; class P = conforming scripts; model-independent verdict: result = fresh decode by the real decoder of the first acceptable final response (error unless code 00h), every transmitted datagram opens under the reference BMC / parser to the specification's command with the caller's arguments.",
        "modelled": ["all DecodeFromBytes methods are hand models tied by correspondence"],
        "assumptions": [],
    },
    "C09": {
        "claim": "history_seqs: for EVERY history of commands on a session and EVERY per-attempt outcome script (any length) the sequence fields of the transmitted datagrams are counter+1, counter+2, ... with no gap or repeat, all addressed to the BMC's session ID; strictly increasing while the 32-bit counter does not wrap; a request that fails to serialise consumes nothing; session-less datagrams always carry session ID 0 and sequence 0. Proved by induction over scripts and histories on the byte-level loop model via the refinement theorem sendLoop_spec and the header law attempt_header.",
        "note": "trusted: Lean kernel; the byte-level model of V2Session.buildAndSend / V2Sessionless.buildAndSendCommand (hand-written; tied by a byte-exact correspondence run: every transmitted datagram, the result and the final counter, against the real SendCommand after a real handshake, crypto/rand replaced by an entropy stream); HMAC/AES assumed lawful (abstract Ops); backoff.Retry + context modelled as 'the script runs out'; the reference BMC in the harness (sim.go) is an independent Go transcription of the spec used for the model-free verdicts",
        "technique": 'Lean 4 proof (induction over reply scripts and command histories on a byte-level loop model) + byte-exact differential correspondence + reference-BMC verdicts',
        "ref": '§5 C09',
        "proofs": ['Bmc.Proofs.C09'],
        "scenarios": ['send', 'slsend', 'udp', 'hs'],
        "rule": 'send: exhaustive reply scripts over the 22-letter alphabet {final, error code, one bit of the RMCP header flipped, busy C0, timeout C3, reply to another command (any completion code, near-miss command numbers, other group body / OEM enterprise), authenticated-flagged forgery without any trailer, authentic response cut at the payload end, AuthCode cut short or extended, unauthenticated forgery with foreign/own session ID, authentic but foreign session, flipped AuthCode, wrong key, flipped ciphertext, bad confidentiality pad, authentic unencrypted, garbage, non-message packet, runt message, 7-byte response, lost} to depth 3 (thorough: depth 3 exhaustively + a quarter of depth 4) on suite 3 and one level less on four more suites, random operation (incl. group/OEM NetFns), LUN and request body of 0..39 bytes per script, every request length 0..63, counters right below 2^16, 2^31 and the 32-bit wrap (ops that wrap are class M with a no-reuse verdict), unserialisable requests. Non-trivial = script with a non-final outcome before its end; distinct = distinct op line. slsend: exhaustive scripts over 11 letters to depth 3 (thorough 4).',
        "modelled": ["in-session and session-less retry loops, layer (re)initialisation, LayersDecoder chain, sequence counter: hand models tied by byte-exact correspondence"],
        "assumptions": ["a Send that fails before anything leaves the socket is outside the outcome alphabet (it still consumes a number, which is the safe choice)"],
    },
    "C10": {
        "claim": 'Refinement to the documented contract: for every script of every length the in-session and session-less send loops return exactly what the fold `expected`/`slExpected` (first acceptable non-temporary response ends the call; busy/timeout codes and unacceptable replies retransmit; a lost reply is retried outside a session, terminal inside) prescribes, transmit exactly that many datagrams, and every transmission is the complete datagram for the same command (in session: datagramOf keys cmd (counter+i) iv_i; outside: the one serialised buffer).',
        "note": "trusted: Lean kernel; the byte-level model of V2Session.buildAndSend / V2Sessionless.buildAndSendCommand (hand-written; tied by a byte-exact correspondence run: every transmitted datagram, the result and the final counter, against the real SendCommand after a real handshake, crypto/rand replaced by an entropy stream); HMAC/AES assumed lawful (abstract Ops); backoff.Retry + context modelled as 'the script runs out'; the reference BMC in the harness (sim.go) is an independent Go transcription of the spec used for the model-free verdicts Handshake payload retries (buildAndSendPayload): handshake_payload_retries (same datagram re-sent once per lost / undecodable reply before each of the three exchanges' replies; result and datagrams of the loss-free run), tied by the hs correspondence.",
        "technique": 'Lean 4 proof (refinement of the loop models to an abstract fold, induction over scripts) + byte-exact differential correspondence + reference verdicts',
        "ref": '§5 C10',
        "proofs": ['Bmc.Proofs.C10'],
        "scenarios": ['send', 'slsend', 'udp', 'hs'],
        "rule": 'send: exhaustive reply scripts over the 22-letter alphabet {final, error code, one bit of the RMCP header flipped, busy C0, timeout C3, reply to another command (any completion code, near-miss command numbers, other group body / OEM enterprise), authenticated-flagged forgery without any trailer, authentic response cut at the payload end, AuthCode cut short or extended, unauthenticated forgery with foreign/own session ID, authentic but foreign session, flipped AuthCode, wrong key, flipped ciphertext, bad confidentiality pad, authentic unencrypted, garbage, non-message packet, runt message, 7-byte response, lost} to depth 3 (thorough: depth 3 exhaustively + a quarter of depth 4) on suite 3 and one level less on four more suites, random operation (incl. group/OEM NetFns), LUN and request body of 0..39 bytes per script, every request length 0..63, counters right below 2^16, 2^31 and the 32-bit wrap (ops that wrap are class M with a no-reuse verdict), unserialisable requests. Non-trivial = script with a non-final outcome before its end; distinct = distinct op line. slsend: exhaustive scripts over 11 letters to depth 3 (thorough 4).',
        "modelled": ["in-session and session-less retry loops, layer (re)initialisation, LayersDecoder chain, sequence counter: hand models tied by byte-exact correspondence"],
        "assumptions": ["a Send that fails before anything leaves the socket is outside the outcome alphabet (it still consumes a number, which is the safe choice)"],
    },
    "C11": {
        "claim": "For every script: a returned (completion code, body) was decoded from a reply of the script whose message has the request's NetFn+1, command number, group body code and OEM enterprise (in and outside a session); a decodable reply to any other command classifies as retry and never reaches the caller."
          " At the level of the high-level API (Proofs/C07/Api.lean: value_only_from_code_zero, sessionless_value_only_from_code_zero) a VALUE returned by any wrapper comes from a reply to that wrapper's own command; scenario api places a reply to another command before the real one for every call.",
        "note": "trusted: Lean kernel; the byte-level model of V2Session.buildAndSend / V2Sessionless.buildAndSendCommand (hand-written; tied by a byte-exact correspondence run: every transmitted datagram, the result and the final counter, against the real SendCommand after a real handshake, crypto/rand replaced by an entropy stream); HMAC/AES assumed lawful (abstract Ops); backoff.Retry + context modelled as 'the script runs out'; the reference BMC in the harness (sim.go) is an independent Go transcription of the spec used for the model-free verdicts Two consecutive identical commands cannot be told apart by NetFn/command; the property does not ask for that.",
        "technique": 'Lean 4 proof (inversion of the loop refinement) + differential correspondence with replies to other commands at every script position',
        "ref": '§5 C11',
        "proofs": ['Bmc.Proofs.C11', "Bmc.Proofs.C11.Match"],
        "scenarios": ['send', 'slsend', 'api', 'udp:sendu,slsendu,sendb,slsendb'],
        "rule": 'send: exhaustive reply scripts over the 22-letter alphabet {final, error code, one bit of the RMCP header flipped, busy C0, timeout C3, reply to another command (any completion code, near-miss command numbers, other group body / OEM enterprise), authenticated-flagged forgery without any trailer, authentic response cut at the payload end, AuthCode cut short or extended, unauthenticated forgery with foreign/own session ID, authentic but foreign session, flipped AuthCode, wrong key, flipped ciphertext, bad confidentiality pad, authentic unencrypted, garbage, non-message packet, runt message, 7-byte response, lost} to depth 3 (thorough: depth 3 exhaustively + a quarter of depth 4) on suite 3 and one level less on four more suites, random operation (incl. group/OEM NetFns), LUN and request body of 0..39 bytes per script, every request length 0..63, counters right below 2^16, 2^31 and the 32-bit wrap (ops that wrap are class M with a no-reuse verdict), unserialisable requests. Non-trivial = script with a non-final outcome before its end; distinct = distinct op line. slsend: exhaustive scripts over 11 letters to depth 3 (thorough 4).'
          " api: every high-level call x {3 suites in session, session-less}: type-directed arguments (0, max, walking bits, out-of-width, random) x reply scripts {conforming body in every optional-tail form, non-zero code with / without body, temporary code then final, reply to another command first, lost, empty / truncated at every length / extended / random body} + all ordered pairs of calls on ONE connection with the second reply shorter than the first; class P = conforming scripts; model-independent verdict: result = fresh decode by the real decoder of the first acceptable final response (error unless code 00h), every transmitted datagram opens under the reference BMC / parser to the specification's command with the caller's arguments.",
        "modelled": ["in-session and session-less retry loops, layer (re)initialisation, LayersDecoder chain, sequence counter: hand models tied by byte-exact correspondence"],
        "assumptions": ["a Send that fails before anything leaves the socket is outside the outcome alphabet (it still consumes a number, which is the safe choice)"],
    },
    "C04": {
        "claim": "accept_sound: whenever an in-session command completes, some reply of the script decoded such that its session wrapper has the authenticated flag set (integrity negotiated), carries this session's ID, its trailing AuthCode equals the negotiated keyed hash under K1 of everything before it, and (if flagged encrypted) decrypted under K2 to a valid pad; unauthenticated or foreign-session packets classify as retry. The bit-flip clause reduces to: an accepted datagram satisfies the MAC equation (unforgeability itself is the MAC's job, not claimed); and, with no assumption on the hash, tampered_authcode_is_retry: the conforming BMC's response with ANY other bytes in place of its AuthCode (a flipped bit, a shorter / longer / foreign code, none) is a retry, with the genuine code it is the command's final response.",
        "note": "trusted: Lean kernel; the byte-level model of V2Session.buildAndSend / V2Sessionless.buildAndSendCommand (hand-written; tied by a byte-exact correspondence run: every transmitted datagram, the result and the final counter, against the real SendCommand after a real handshake, crypto/rand replaced by an entropy stream); HMAC/AES assumed lawful (abstract Ops); backoff.Retry + context modelled as 'the script runs out'; the reference BMC in the harness (sim.go) is an independent Go transcription of the spec used for the model-free verdicts",
        "technique": 'Lean 4 proof (inversion lemmas over the decode chain; reduction to the MAC equation) + differential correspondence over a forged-reply catalogue',
        "ref": '§5 C04',
        "proofs": ['Bmc.Proofs.C04'],
        "scenarios": ['send', 'dec:v2none,v2sha1,v2md5,v2sha256,aes', 'udp:sendu,sendb'],
        "rule": 'send: exhaustive reply scripts over the 22-letter alphabet {final, error code, one bit of the RMCP header flipped, busy C0, timeout C3, reply to another command (any completion code, near-miss command numbers, other group body / OEM enterprise), authenticated-flagged forgery without any trailer, authentic response cut at the payload end, AuthCode cut short or extended, unauthenticated forgery with foreign/own session ID, authentic but foreign session, flipped AuthCode, wrong key, flipped ciphertext, bad confidentiality pad, authentic unencrypted, garbage, non-message packet, runt message, 7-byte response, lost} to depth 3 (thorough: depth 3 exhaustively + a quarter of depth 4) on suite 3 and one level less on four more suites, random operation (incl. group/OEM NetFns), LUN and request body of 0..39 bytes per script, every request length 0..63, counters right below 2^16, 2^31 and the 32-bit wrap (ops that wrap are class M with a no-reuse verdict), unserialisable requests. Non-trivial = script with a non-final outcome before its end; distinct = distinct op line.',
        "modelled": ["in-session and session-less retry loops, layer (re)initialisation, LayersDecoder chain, sequence counter: hand models tied by byte-exact correspondence"],
        "assumptions": ["a Send that fails before anything leaves the socket is outside the outcome alphabet (it still consumes a number, which is the safe choice)"],
    },
    "C03": {
        "claim": "Every in-session datagram is (by sendLoop_spec) datagramOf keys cmd counter iv, whose exact byte shape is proved: RMCP 06 00 FF 07, auth type 06, flags C0, BMC session ID, sequence number, length, AES payload, 0xFF pad to a multiple of 4 with its length byte, next header 07, and an AuthCode equal to the negotiated keyed hash under K1 over exactly auth-type..next-header; the AES payload decrypts (any lawful cipher) to the 01,02,.. pad and the serialised message, which decodes to exactly the caller's command with valid checksums; the i-th datagram uses the i-th 16-byte entropy draw as IV. PARTIAL: that draws differ is crypto/rand's property.",
        "note": "trusted: Lean kernel; the byte-level model of V2Session.buildAndSend / V2Sessionless.buildAndSendCommand (hand-written; tied by a byte-exact correspondence run: every transmitted datagram, the result and the final counter, against the real SendCommand after a real handshake, crypto/rand replaced by an entropy stream); HMAC/AES assumed lawful (abstract Ops); backoff.Retry + context modelled as 'the script runs out'; the reference BMC in the harness (sim.go) is an independent Go transcription of the spec used for the model-free verdicts",
        "technique": 'Lean 4 proof (byte shape of the sealed datagram, AES/message round trips, per-datagram IV draw) + byte-exact differential correspondence + BMC-side open() of every logged datagram',
        "ref": '§5 C03',
        "proofs": ['Bmc.Proofs.C03'],
        "scenarios": ['send', 'udp:sendu,sendb', 'hs'],
        "rule": 'send: exhaustive reply scripts over the 22-letter alphabet {final, error code, one bit of the RMCP header flipped, busy C0, timeout C3, reply to another command (any completion code, near-miss command numbers, other group body / OEM enterprise), authenticated-flagged forgery without any trailer, authentic response cut at the payload end, AuthCode cut short or extended, unauthenticated forgery with foreign/own session ID, authentic but foreign session, flipped AuthCode, wrong key, flipped ciphertext, bad confidentiality pad, authentic unencrypted, garbage, non-message packet, runt message, 7-byte response, lost} to depth 3 (thorough: depth 3 exhaustively + a quarter of depth 4) on suite 3 and one level less on four more suites, random operation (incl. group/OEM NetFns), LUN and request body of 0..39 bytes per script, every request length 0..63, counters right below 2^16, 2^31 and the 32-bit wrap (ops that wrap are class M with a no-reuse verdict), unserialisable requests. Non-trivial = script with a non-final outcome before its end; distinct = distinct op line.',
        "modelled": ["in-session and session-less retry loops, layer (re)initialisation, LayersDecoder chain, sequence counter: hand models tied by byte-exact correspondence"],
        "assumptions": ["a Send that fails before anything leaves the socket is outside the outcome alphabet (it still consumes a number, which is the safe choice)"],
    },
    "C01": {'claim': "COMMANDS ANSWERED command_answered / all_commands_answered (console || conforming in-session BMC of Spec/BmcSession.lean, for command histories of ANY length): every datagram the console model transmits for any well-posed command passes the BMC's integrity check, decryption, pad and checksum tests, is read as exactly the caller's command with the next sequence number, and the BMC's response datagram - whatever its handler answers - is accepted and the caller receives exactly that completion code and data (response_returned); every lawful crypto, key set, counters, IVs. The Lean BMC is tied to the harness's reference BMC and to the real library by scenario bmcspec (bmcopen on real datagrams and corruptions, bmcseal fed to the real SendCommand). LIVENESS handshake_succeeds / keys_agree / transmits_spec_datagrams: against the specification's BMC (Spec/Bmc.lean: Open Session Response, RAKP 2, "
          'RAKP 4 as datagrams written from Appendix H, keys derived from the fields it received) holding the same password and KG, for EVERY supported suite '
          '(auth 1..3, integrity 1/2/4, AES), user name <= 16 bytes, privilege nibble, lookup mode, password, KG, console random, BMC session ID/random/GUID '
          "and EVERY hash function whose outputs fit a datagram (no crypto law needed), newSession transmits exactly three datagrams - the specification's "
          "Open Session Request, RAKP 1 and RAKP 3 (with the RAKP 3 code the BMC expects) - and returns a session with console ID 1, the BMC's ID, the "
          "proposed suite and SIK, K1, K2 equal to the BMC's own derivation. SOUNDNESS keys_are_spec: for EVERY credential, suite, random, GUID, session ID "
          "and reply script, a returned session's SIK, K1, K2 are the specification's functions (Spec/Rakp.lean) of the exchanged values under the caller's "
          "password/KG; session IDs are the Open Session Response's; every later datagram is sealed under exactly these keys (C03 theorems); suites with "
          'None/unknown algorithms are refused, never a session. Liveness is stated for the loss-free script (one conforming reply per exchange); '
          "retransmission after lost/undecodable replies is C10; the correspondence run against the independent reference BMC additionally checks 'honest "
          "transcript => session, keys equal the BMC's' on the real code.",
 'note': 'trusted: Lean kernel; the byte-level handshake model (newSession = stepOpen / stepRakp2 / stepRakp4 over buildAndSendPayload exchanges, hand-written '
         'from v2session_new.go, v2sessionless.go, authenticator.go, hasher.go, confidentiality.go; tied by byte-exact correspondence: every datagram, the '
         'result class and SIK/K1/K2 against the real NewV2Session with crypto/rand replaced); HMAC as an abstract function (no cryptographic strength '
         'claimed); Spec/Rakp.lean transcribes §13.28-13.32; the reference BMC in the harness (sim.go) is an independent Go implementation used for the '
         'model-free verdicts',
 'technique': "Lean 4 proof (inversion of the handshake model to the specification's key formulas) + byte-exact differential correspondence + reference-BMC "
              'verdicts',
 'ref': '§5 C01',
 'proofs': ['Bmc.Proofs.C01'],
 'scenarios': ['hs', 'send', 'bmcspec', 'udp:hsu,sendu,sendb'],
 'rule': 'hs: 9 suites x 6 (thorough 60) credential sets (user 0..16 bytes, password 0..20, KG absent/20 bytes, both lookup modes, privilege 0..5) as honest '
         'transcripts of the reference BMC; other BMC password / KG; per authentication algorithm every status in a sample (thorough: all 1..255), other tags, '
         'every 3rd (thorough: every) single-bit flip and every truncation length (consistent and inconsistent wrapper length) and 1-3 byte extensions of each '
         'of the three replies; lost / garbage / duplicated replies inside each exchange; every algorithm triple 0..4 x 0..5 x 0..3 the BMC may confirm; '
         'proposals of None/unknown algorithms; user names of 17..20 bytes. suite: every ordered preference list of length 0..3 (thorough 0..4) over a 5-suite '
         'universe x every advertised subset (rotated order) and failing discovery. Non-trivial = every op (each runs a full or failing handshake); distinct = '
         'distinct op line.',
 'modelled': ['newV2Session, openSession/rakpMessage1/rakpMessage3, buildAndSendPayload, the calculate* functions, algorithm constructors and '
              'determineCipherSuite are hand models tied by correspondence'],
 'assumptions': ["the multi-suite path's discovery (RetrieveSupportedCipherSuites) is abstracted to its result in `determine`; its own correctness is C16"]},
    "C02": {
        "claim": "session_sound: for every reply script, a session is returned ONLY IF the Open Session Response echoes the tag with status OK and the proposed algorithms, RAKP 2 has tag/status OK and its AuthCode equals the specification's keyed hash (under the caller's password) of the exchanged values, and RAKP 4 has tag/status OK and an ICV equal to the specification's keyed hash under the specification's SIK (caller's KG or password); the incorrect-password error arises exactly from a well-formed status-OK RAKP 2 with another code; truncated/malformed replies fail in the per-layer decoders (C05/C07 theorems).",
        "note": 'trusted: Lean kernel; the byte-level handshake model (newSession = stepOpen / stepRakp2 / stepRakp4 over buildAndSendPayload exchanges, hand-written from v2session_new.go, v2sessionless.go, authenticator.go, hasher.go, confidentiality.go; tied by byte-exact correspondence: every datagram, the result class and SIK/K1/K2 against the real NewV2Session with crypto/rand replaced); HMAC as an abstract function (no cryptographic strength claimed); Spec/Rakp.lean transcribes §13.28-13.32; the reference BMC in the harness (sim.go) is an independent Go implementation used for the model-free verdicts',
        "technique": 'Lean 4 proof (soundness by inversion: ok => transcript authentic) + differential correspondence over mutated transcripts',
        "ref": '§5 C02',
        "proofs": ['Bmc.Proofs.C02'],
        "scenarios": ['hs', 'udp:hsu'],
        "rule": 'hs: 9 suites x 6 (thorough 60) credential sets (user 0..16 bytes, password 0..20, KG absent/20 bytes, both lookup modes, privilege 0..5) as honest transcripts of the reference BMC; other BMC password / KG; per authentication algorithm every status in a sample (thorough: all 1..255), other tags, every 3rd (thorough: every) single-bit flip and every truncation length (consistent and inconsistent wrapper length) and 1-3 byte extensions of each of the three replies; lost / garbage / duplicated replies inside each exchange; every algorithm triple 0..4 x 0..5 x 0..3 the BMC may confirm; proposals of None/unknown algorithms; user names of 17..20 bytes. suite: every ordered preference list of length 0..3 (thorough 0..4) over a 5-suite universe x every advertised subset (rotated order) and failing discovery. Non-trivial = every op (each runs a full or failing handshake); distinct = distinct op line.',
        "modelled": ["newV2Session, openSession/rakpMessage1/rakpMessage3, buildAndSendPayload, the calculate* functions, algorithm constructors and determineCipherSuite are hand models tied by correspondence"],
        "assumptions": ["the multi-suite path's discovery (RetrieveSupportedCipherSuites) is abstracted to its result in `determine`; its own correctness is C16"],
    },
    "C12": {
        "claim": "determine = first preference among the advertised suites (choose_first_supported with 'no earlier preference is advertised'), the no-supported-cipher-suite error iff none is, a single preference without discovery, no preference => suite 17 then 3 (defaults + regenerated fact defaults_fact); discovery_then_choice / first_advertised_preference compose the choice with discovery EXECUTED at the wire (chunk loop over list indices + record parser, C16): against a BMC holding any list of well-formed cipher-suite records the proposal is the first preference occurring as an (authentication, integrity, confidentiality) combination of some record; a failed discovery is an error (discovery_failure_is_error); the Lean driver evaluates this composed pipeline for every suite op. no_downgrade: for every reply script a returned session carries exactly the proposed authentication/integrity/confidentiality algorithms, which are supported ones (never None/unknown) - hence never a downgraded session; never a panic is C05-level totality of the model (structural recursion) + correspondence.",
        "note": 'trusted: Lean kernel; the byte-level handshake model (newSession = stepOpen / stepRakp2 / stepRakp4 over buildAndSendPayload exchanges, hand-written from v2session_new.go, v2sessionless.go, authenticator.go, hasher.go, confidentiality.go; tied by byte-exact correspondence: every datagram, the result class and SIK/K1/K2 against the real NewV2Session with crypto/rand replaced); HMAC as an abstract function (no cryptographic strength claimed); Spec/Rakp.lean transcribes §13.28-13.32; the reference BMC in the harness (sim.go) is an independent Go implementation used for the model-free verdicts',
        "technique": 'Lean 4 proof (first-match characterisation of the selection; inversion of the handshake model) + exhaustive differential correspondence on small universes',
        "ref": '§5 C12',
        "proofs": ['Bmc.Proofs.C12'],
        "scenarios": ['suite', 'hs'],
        "rule": 'hs: 9 suites x 6 (thorough 60) credential sets (user 0..16 bytes, password 0..20, KG absent/20 bytes, both lookup modes, privilege 0..5) as honest transcripts of the reference BMC; other BMC password / KG; per authentication algorithm every status in a sample (thorough: all 1..255), other tags, every 3rd (thorough: every) single-bit flip and every truncation length (consistent and inconsistent wrapper length) and 1-3 byte extensions of each of the three replies; lost / garbage / duplicated replies inside each exchange; every algorithm triple 0..4 x 0..5 x 0..3 the BMC may confirm; proposals of None/unknown algorithms; user names of 17..20 bytes. suite: every ordered preference list of length 0..3 (thorough 0..4) over a 5-suite universe x every advertised subset (rotated order) and failing discovery. Non-trivial = every op (each runs a full or failing handshake); distinct = distinct op line.',
        "modelled": ["newV2Session, openSession/rakpMessage1/rakpMessage3, buildAndSendPayload, the calculate* functions, algorithm constructors and determineCipherSuite are hand models tied by correspondence"],
        "assumptions": ["the multi-suite path's discovery (RetrieveSupportedCipherSuites) is abstracted to its result in `determine`; its own correctness is C16"],
    },
    "C15": {'claim': 'PARTIAL. Proved in Lean for all inputs: the model of sensor_reader.go (NewSensorReader, both Read methods), ConversionFactors.ConvertReading, '
          'Linearisation.Lineariser and AnalogDataFormat.Parser, with the float64 arithmetic replaced by the EXACT value of the same expression as a decimal '
          '(mantissa, exp10) and each lineariser by its name, equals the specification: the decimal denotes the core-Rat value (M*x + B*10^K1)*10^K2 for ALL '
          "integers (convert_exact); the raw byte is read as unsigned / 1's / 2's complement as the record states (raw_interpretation, on the SSA-regenerated "
          'parsers of C20); code 0 gives the linear reader, codes 1..11 the linearised reader holding the function the specification names for that code, '
          'codes >= 12 the non-linear error, analog format 3 the not-analog error, nothing else is refused (reader_selection, reader_refused_iff, '
          'lineariser_table over all 256 keys); reading-unavailable (bit 5) gives ErrSensorReadingUnavailable, else scanning disabled (bit 6 clear) gives '
          "ErrSensorScanningDisabled, else a value, exactly (flags, flags_iff; with both conditions present the code reports 'unavailable', bits 7 and 4:0 "
          'have no influence); and the composition from the bytes of any well-formed Full Sensor Record (sensor_reading_spec, through the C07 decode theorem). '
          'NOT proved (outside Lean core: no IEEE-754 model, no real analysis): that the float64 the code returns is within rounding of the exact decimal, and '
          'that math.Log, math.Pow(f, 1./3), ... compute the functions they are read as. These are covered by the tolerance check of the correspondence run '
          "only: math/big exact evaluation of the linear part (<= 6 u of the terms' magnitudes, u = 2^-53; worst seen 3.1 u) and independently computed "
          'linearisations (1e-12 relative, 1e-15 absolute for the logarithms) over 256 raw bytes x 3 formats x 12 functions with boundary-complete and random '
          'factors. That check finds the one defect: the cube root (code 0Bh) of a negative value is NaN (math.Pow with a negative base).',
 'note': 'partial: float rounding and the transcendental functions are outside Lean and covered by the tolerance check only. trusted: Lean kernel; the hand '
         'model of sensor_reader.go tied by the correspondence run (reader type by reflection, lineariser identified by code pointer against '
         "linearisationLinearisers, factors/reading read from the reader's own fields); the reading of each Go math expression as the specification's function "
         "(Lemmas.Sensor.denotes); Go's math package as the numeric reference; SendCommand abstracted to (completion code, decode of the response data) - the "
         'exchange itself is C03/C04/C10/C11',
 'technique': 'Lean 4 proof (core Rat, decide +kernel over the 256-entry tables and flag bytes, C20/C07 theorems reused) + differential correspondence on '
              'exact decimals + reference evaluation with math/big for the floating-point part',
 'ref': '§5 C15',
 'proofs': ['Bmc.Proofs.C15'],
 'scenarios': ['conv'],
 'rule': 'every op builds the real reader from a decoded record and reads once through a real V2 session against the reference BMC. 256 raw bytes x 3 analog '
         'formats x 12 linear/linearised functions x 4 factor sets (thorough 21); every combination of {min,-1,0,1,max} for M, B, K1, K2 (625 sets) x 3 '
         'formats x {identity + 1 function} x 6 raw bytes (thorough: all 12 functions x 16 raw bytes, and all 256 raw bytes for the linear formula); 4000 '
         '(thorough 120000) fully random ops; all 256 flag bytes x 6 readers; every code 12..127 x 4 formats and format 3 x codes 0..11 (refusals); non-normal '
         'completion codes, 2/4/5/6-byte responses, malformed records. Non-trivial = a reader is built and a value converted (reading available, scanning '
         'enabled); distinct = distinct op line.',
 'modelled': ['NewSensorReader / newLinearSensorReader / newLinearisedSensorReader / both Read methods, Lineariser(), Parser() are hand models tied by '
              "correspondence (table keys from factgen constants, IsLinear/IsLinearised and the three parsers from the SSA translation); ConvertReading's "
              'float64 arithmetic is NOT modelled - its exact counterpart is; Session.SendCommand is abstracted to its result'],
 'assumptions': ["Go's math package (Log, Log2, Log1p, Exp, Exp2, Cbrt, big.Float.Sqrt) is the numeric reference for the eleven functions",
                 "a float64 counts as 'within rounding' of the exact linear value when it is within 6*2^-53 of it relative to |M*x| + |B*10^K1| (five "
                 'roundings, cancellation between the two terms allowed for)']},
    "C06": {'claim': 'For every request layer of pkg/ipmi and pkg/dcmi (Get Channel Authentication Capabilities, Get Channel Cipher Suites, Get Session Info in its index '
          '/ handle / ID forms, Set Session Privilege Level, Close Session, Chassis Control, Get SDR, Get Sensor Reading with any owner LUN, the commands '
          'without request data, RMCP+ Open Session Request with its three algorithm payloads, RAKP 1, RAKP 3, DCMI Get Capabilities Info, Get Power Reading, '
          "Get DCMI Sensor Info) Lean theorems state that an independent reference parser written from the IPMI/DCMI tables recovers exactly the caller's "
          'field values from the model of SerializeTo, for ALL field values within the wire width (explicit decidable wf) and all variable lengths; '
          'packet_parses / payload_packet_parses / command_packet_parses: the session-less datagram built by buildAndSendCommand / buildAndSendPayload around '
          'ANY body parses to RMCP (version 6, sequence FF, class IPMI, no ACK), a v2.0 wrapper with the right payload type, the null session and length = '
          "rest, and an IPMI message with two valid checksums, rsAddr 20h, the specification's NetFn / command / group-extension byte or OEM IANA of that "
          "command, the caller's LUN, rqAddr 81h, and that body; the library's operation table equals the specification's command table entry by entry; a user "
          'name over 16 bytes and privilege level Callback are refused (error, nothing transmitted). The models are tied to the code byte for byte on every '
          'run (each layer through gopacket.SerializeLayers, whole datagrams through the real V2SessionlessTransport.SendCommand, the high-level API and a '
          'real NewV2Session handshake over the verif transport hook), and a reference parser written in Go, independent of library and model, must recover '
          "the caller's fields from every transmitted datagram. In-session packets are covered by C03."
          ' The same is shown for the requests the HIGH-LEVEL API calls build from their arguments, in and outside a session (Proofs/C07/Api.lean: request_is_the_call, sessionless_request_is_the_call, callback_refused), and checked on the real methods by scenario api.',
 'note': 'trusted: Lean kernel; the transcription of the request tables in Spec/Requests.lean (reserved bits must be zero); hand-written serialiser models '
         "tied by byte-exact correspondence; gopacket's SerializeBuffer (Prepend/AppendBytes) modelled as list concatenation; float division in "
         'rollingAvgPeriodByte assumed exact on non-negative durations (cross-checked at every unit boundary +-1 ns and on 20000 random periods in the '
         'thorough tier)',
 'technique': 'Lean 4 proof (encode models vs independent reference parser; decide +kernel for bit fields over all 256 byte values, simp/omega for '
              'little-endian integers and the length field, checksum lemma for data of every length) + byte-exact differential correspondence + Go '
              'reference-parser verdicts on transmitted datagrams',
 'ref': '§5 C06',
 'proofs': ['Bmc.Proofs.C06'],
 'scenarios': ['enc', 'send', 'api'],
 'rule': 'enc: every request layer; each bit-field exhaustively over the whole Go byte (values beyond the wire width are class M = not claimed), all 256 '
         'session-info indexes, privilege levels, chassis controls, sensor numbers, DCMI parameters, RAKP 3 statuses; user-name lengths 0..24 and up to 1000 '
         '(over 16 must be refused); AuthCode lengths 0..40; wildcard/explicit x every algorithm byte per payload; power-reading periods at every unit '
         'boundary +-1 ns, every whole unit 1..63 of s/min/h/d, sub-second, 400 (thorough 20000) random, the 63-day clamp, negative periods as class M; '
         'thorough: all 131072 authcaps triples and all 65536 in-width cipher-suite triples. pkt: every NetFn byte x every LUN 0..3, every LUN byte, every '
         'command and defining-body byte, enterprise numbers around 2^24, every body length 0..300 (thorough 0..2000) and around the 16-bit length limit, '
         'extreme checksum bodies. pktcmd: all 16 commands through the high-level API (GetSystemGUID, GetChannelAuthenticationCapabilities, dcmi commander, '
         "SendCommand with the library's Cmd types) with field sweeps, RetrieveSupportedCipherSuites over several pages, and the three setup datagrams of real "
         'NewV2Session handshakes (user-name lengths 0..20, every privilege byte, every 6-bit algorithm number in each position). Non-trivial = in-domain op '
         'with a non-zero field (enc) / every in-domain datagram (pkt, pktcmd); distinct = distinct op line.'
          " api: every high-level call x {3 suites in session, session-less}: type-directed arguments (0, max, walking bits, out-of-width, random) x reply scripts {conforming body in every optional-tail form, non-zero code with / without body, temporary code then final, reply to another command first, lost, empty / truncated at every length / extended / random body} + all ordered pairs of calls on ONE connection with the second reply shorter than the first; class P = conforming scripts; model-independent verdict: result = fresh decode by the real decoder of the first acceptable final response (error unless code 00h), every transmitted datagram opens under the reference BMC / parser to the specification's command with the caller's arguments.",
 'modelled': ['SerializeTo of the 14 request layers, Message/V2Session/RMCP SerializeTo, buildAndSendCommand/buildAndSendPayload layer stacking, the operation '
              'table and RemoteLUN() are hand models tied by correspondence; gopacket SerializeBuffer and layers.RMCP are modelled, not verified',
              'out of wire width (channel >= 16, privilege >= 16, chassis control >= 16, algorithm >= 64, list index >= 64, NetFn >= 64 or odd, LUN >= 4, '
              'enterprise >= 2^24, power mode other than 1/2, negative period): the code masks or overflows into neighbouring bits; modelled and compared '
              '(class M) but not claimed'],
 'assumptions': ['crypto/rand replaced by a fixed reader in the harness so that the RAKP 1 random number is an input',
                 'the session-less retry loop re-sends the buffer serialised once (first datagram captured; retries are the subject of C10)']},
    "C18": {
        "claim": "conservation: for EVERY history of dials, session opens/closes and commands, each with ANY sequence of per-attempt outcomes (final code, temporary code, junk, lost), and from any starting counter values, the instrumentation model's counters change by exactly: command attempts = calls per name, command failures = calls that returned an error (incl. a response body that fails to decode), retries = runs of the retry closure beyond the first of each call, responses per completion code = valid responses received, session/connection open attempts and failures = opens tried/failed, gauges = opens minus closes (gauges_do_not_drift for matched histories). Proved by induction over histories with per-call laws by induction over the attempt list. wire_accounting ties the abstract outcomes to the wire: an attempt's outcome is a function attOf of the session keys, the command and the BYTES of the reply, and for every in-session command and reply script the retry and failure counters move by what the byte-level loop model (tied to the code datagram for datagram, C10) transmits and returns. The model's increments are tied to the code by comparing prometheus.DefaultGatherer deltas after real histories (real handshakes, real in-session and session-less commands with scripted replies, real failing dial) with the model's counters, letter for letter.",
        "note": "trusted: Lean kernel; the instrumentation model Proto/Metrics.lean (hand-written from the Inc()/Dec() sites; tied by the gatherer-delta correspondence); the Prometheus client library (internally synchronised counters); the mapping from scripted reply letters to the abstract outcomes final/temp/junk/lost in the hist scenario is the harness's; in scenario sendm the Lean side derives each attempt's outcome from the BYTES of the scripted reply with attOf (the function of wire_accounting) and the real gatherer deltas of every in-session command over all 1- and 2-reply scripts of the 21-letter alphabet (thorough: 3) are compared with the instrumentation model ( replies to other commands and undecodable replies are junk: not counted as responses); a retry-closure run whose Send fails because the context expired counts as a retry (the datagram was handed to the transport)",
        "technique": "Lean 4 proof (conservation laws by induction over histories and attempt lists) + differential correspondence of Prometheus gatherer deltas",
        "ref": "§5 C18",
        "proofs": ["Bmc.Proofs.C18"],
        "scenarios": ["hist", "sendm", "hsm"],
        "rule": "sendm: every in-session reply script of length 1..2 (thorough 3) over the 21-letter alphabet of C10, ending in a lost reply or in the context expiring while the last reply is handled; retries / attempts / failures / responses-per-code deltas of the real gatherer vs the model driven by attOf on the reply bytes. hist: 150 (thorough 3000) random histories of 5..60 events over {dial via hook, failing real dial, close connection, session open ok / wrong password, close session with 6 scripts, in-session and session-less commands of three names (one whose response body never decodes) with random outcome scripts of 0..5 letters over {F,E,B,T,X,G,L}}. Non-trivial = history with at least one failure and one retried command; distinct = distinct op line.",
        "modelled": ["every Inc()/Dec() of connection.go, session.go, v2sessionless.go, v2session.go, v2session_new.go, bmc.go, sessionless_transport.go as a step function"],
        "assumptions": ["Close called twice on one session/connection is outside the property (matched opens and closes)"],
    },
    "C14": {'claim': "Lean theorems over a model of sdr_repository.go (walkSDRs / RetrieveSDRRepository as functions of the BMC's answer function) and an independent "
          'specification of the SDR Repository Device (ordered records, Next links, reservations cancelled by every modification, addition/erase timestamps, '
          'modifications scheduled before any request): for a repository of ANY size with distinct IDs (none FFFFh, 0000h only in front) whose Full Sensor '
          "Records fit the library's 64-byte limit, the walk returns exactly the type-01h records, each once, under the record's own ID, decoded as the C07 "
          'reference decoding (walk_complete, retrieve_complete, result_exact; fuel = records + 1 suffices); for ANY BMC a failed or non-00h Get SDR (C5h) '
          'makes the walk return no map, a failed walk or a newer addition/erase timestamp makes the closure drop the candidate, and the retry loop then runs '
          'the whole closure again (modified_discarded_*); against the conforming BMC under arbitrary interleaved additions, deletions and reservation losses, '
          'whatever is returned equals the Full Sensor Records of the repository at the instant the final Get SDR Repository Info was answered, and nothing '
          'changed during that whole run (snapshot, snapshot_run). The theorems are for the REPAIRED map key (header.ID); the pinned tree stores under the '
          "requested ID (first record under 0000h) - exhibited by a decide-checked example and by the correspondence run's model-independent verdict.",
 'note': 'trusted: Lean kernel; the hand-written model of sdr_repository.go tied by running the real bmc.RetrieveSDRRepository over a real RMCP+ session '
         'against a Go-simulated repository device and comparing map, keys, every decoded field and the request count with the model run against the Lean '
         'specification BMC; the Go verdict decodes with a reference decoder written from the 43.1 table; one SendCommand = one request/one final answer (the '
         'packet exchange underneath is C03/C04/C10/C11); timestamps assumed to be bumped by every modification and not to wrap 2^32',
 'technique': 'Lean 4 proof (induction over the repository for completeness; induction over the walk with a timestamp squeeze for the snapshot property; '
              'log-wrapper induction for any answer function) + differential correspondence through a real session with event injection before every Get SDR',
 'ref': '§5 C14',
 'proofs': ['Bmc.Proofs.C14'],
 'scenarios': ['sdr'],
 'timeout': 3000,
 'rule': 'repositories of 1..40 records (thorough: every size 1..40 x 4 mixes), IDs sparse and unordered in 0000h..FFFEh, first ID zero or non-zero, types '
         'full/compact/locators/OEM/association with bodies 0..255 bytes, Full Sensor Records with all four ID string encodings x every count 0..31 and bodies '
         'padded to exactly 64 bytes; a reservation loss, an addition and a deletion injected before EACH Get SDR request of the walk (and one position past '
         'it); timestamp edge values; too small a retry budget; malformed stream (empty repository, over-long / truncated Full Sensor Records, a deletion that '
         'empties the repository). Non-trivial = every op (each runs a whole retrieval through a real session); distinct = distinct op line.',
 'modelled': ['walkSDRs / RetrieveSDRRepository are hand models (Proto/SdrWalk.lean) tied by correspondence; gopacket.NewPacket(Lazy) is modelled as '
              "decode-of-a-copy with 'no layer' = error; backoff.Retry is modelled as a bounded number of runs of the closure (the context's budget), its "
              'waiting times are not modelled'],
 'assumptions': ['every modification of the repository updates the addition or the erase timestamp (a BMC whose timestamps have one-second resolution and '
                 'which is modified twice within a second is outside the theorem)',
                 'Next links do not form a cycle (a well-formed repository has none); against a cyclic BMC the Go loop ends only with the context']},
    "C16": {'claim': 'Lean theorems over the models of parseCipherSuiteRecordData, RetrieveSupportedCipherSuites, getEntityInstances, getSensorMap and GetSensorInfo, for '
          'inputs of every size: any list of well-formed standard/OEM records with any number of integrity and confidentiality algorithms parses to one entry '
          'per combination in order (parse_encode); every byte string gives a list or an error, never a panic (parse_total), with errors for a bad start byte, '
          'a stray tag and a record cut in or right after its header (parse_malformed_*); record data shorter than 1024 bytes served 16 bytes per list index '
          'is reassembled exactly, exact multiples of 16 included, asking for indices 0..len/16 once each (chunks_reassemble, retrieve_complete, '
          'retrieve_eq_parse); a DCMI BMC holding any 0..255 record IDs per entity and paging by instance start with any page size >= 1 is enumerated '
          'completely and in order (dcmi_pages), the DCMI-specific entity IDs are used exactly when the standard ones gave an error or no IDs (fallback_iff, '
          'for every BMC), and both loops terminate within 65 / 256 rounds against every BMC (chunks_fuel, dcmi_fuel). The models are tied to the code by '
          "running the real functions through the verif transport hook against a simulated paging BMC and comparing results and request logs with the model's; "
          'the Go side also checks every result against a small reference implementation (record grammar recogniser, expected record IDs).',
 'note': 'trusted: Lean kernel; hand-written models tied by correspondence; Spec/Enum.lean (Table 22-18 record grammar, 16-byte paging, DCMI instance-start '
         "paging as the library's doc comments read it); the request/response layers and the retry loop below SendCommand are covered by C06/C07/C10, here a "
         'BMC answer is a response body or an error. Outside the domain: record data of exactly 1024 bytes (64 full chunks) makes the code issue a 65th '
         'request whose list index goes out as 0 and appends the first chunk again (decide-checked example in Proofs/C16.lean; `ListIndex == 63` repairs it, '
         'chunks_reassemble_limit63).',
 'technique': 'Lean 4 proof (induction on record lists, runs of tagged bytes, fuel; tag-bit facts by kernel-checked decide) + differential correspondence '
              'through the transport hook + reference verdicts',
 'ref': '§5 C16',
 'proofs': ['Bmc.Proofs.C16'],
 'scenarios': ['enum'],
 'rule': 'record lists of 0..20 random records (standard/OEM, 0..3 integrity and confidentiality algorithms each) and lists built to every encoded length 0, '
         '3..96 bytes (1..7 chunks, every residue mod 16 incl. exact multiples) plus 160..1023 bytes, each retrieved through 16-byte pages AND parsed '
         'directly; malformed stream: truncation at every offset, every position overwritten / a byte inserted with each tag class, all 256 values in six '
         'positions, random strings over the tag alphabet; DCMI: instance counts (quick: 25 stratified values, thorough: all 0..255) x page sizes 1..8 x 3 '
         'entities x both entity-ID families, the DCMI family reached through both triggers (no IDs / rejection at the first, second or third standard '
         'entity), rejections under the DCMI IDs, pages up to 240 IDs; class M: BMCs with other page sizes, failing indices, 1024+ bytes, misreported totals, '
         'empty pages. Non-trivial = at least one record / malformed input / one record ID held; distinct = distinct op line.',
 'exhaustive_thorough': False,
 'modelled': ['parseCipherSuiteRecordData, RetrieveSupportedCipherSuites, getEntityInstances, getSensorMap, GetSensorInfo are hand models (Proto/Enum.lean); '
              "SendCommand + ValidateResponse are abstracted to 'response body or error' (C10/C11 cover them); the response layers are the models of C07 "
              '(GetChannelCipherSuitesRsp, GetDCMISensorInfoRsp)'],
 'assumptions': ['a conforming BMC answers a list index past the end of the record data with a normal completion code and no data (IPMI 22.15), and numbers '
                 "entity instances from 1 with 'instance start' selecting the first one reported (DCMI 6.5.2 as read by the library)",
                 'cipher suite record data is shorter than 1024 bytes (see note)']},
    "C13": {
        "claim": "PARTIAL. Proved on a tick-based time model of backoff.Retry(op, backoff.WithContext(b, ctx)) with every attempt under context.WithTimeout(ctx, T): for EVERY behaviour of the BMC (any stream of attempt durations, outcomes and back-off proposals) the call returns no later than max(now, deadline) within deadline-now+1 iterations, reports success only if an attempt received a final response, and with an expired context returns at once with an error (returns_by_deadline, expired_context, no_false_success); the multi-step calls are modelled too: a sequence of retry loops under the same context (handshake = 3 exchanges, close, one SDR walk: sequence_returns_by_deadline) and the outer retry over whole walks of RetrieveSDRRepository (retrieval_returns_by_deadline), with any BMC behaviour at any step. The model's assumptions A1-A3 (Send honours its context's deadline, back-off sleeps honour the context, an attempt takes at least a tick) are tied to the source by regenerated syntactic facts (3 WithTimeout calls all on the caller's ctx; 4 Retry calls all under WithContext(_, ctx); both socket deadlines set from the context). What the model cannot exhibit - socket deadlines, timers, the scheduler - is exercised by the `time` scenario over REAL UDP sockets (no hook): session-less command, handshake, in-session command, close, SDR retrieval x {black hole, reply after the per-attempt timeout, garbage, busy forever, truncated handshake replies}, the fault setting in at the first datagram or after k properly answered ones (every later exchange of the handshake, every phase of the SDR walk), x several timeout/deadline ratios incl. an already expired context, the per-attempt timeout given through WithTimeout, SetTimeout or the version-agnostic Dial, verdict: returned by deadline + 250 ms with an error.",
        "note": "trusted: Lean kernel; the time model's assumptions A1-A3 (runtime behaviour of net, context and time packages and of cenkalti/backoff, modelled from source); factgen's syntactic facts; wall-clock measurements on a possibly loaded host (250 ms allowance). Contexts cancelled without a deadline are outside the property.",
        "technique": "Lean 4 proof over a time model (induction on the remaining time) + regenerated syntactic facts + wall-clock runs over real UDP sockets",
        "ref": "§5 C13",
        "proofs": ["Bmc.Proofs.C13"],
        "scenarios": ["time"],
        "rule": "5 blocking calls x 5 fault patterns (truncation for the two session-less paths) x 3 (thorough 7) timeout/deadline ratios incl. deadline 0, plus well-behaved controls; each op runs against its own UDP socket pair. Non-trivial = deadline in the future with a fault injected; distinct = distinct op line.",
        "modelled": ["backoff.Retry / WithContext, context.WithTimeout nesting and transport.Send deadlines as a tick model; NOT verified: the Go runtime, net and timers"],
        "assumptions": ["A1 Send returns by its context's deadline", "A2 back-off sleeps are bounded by the context", "A3 every attempt takes at least one tick"],
    },
    "C19": {
        "claim": "PARTIAL. isolation: for state machines whose steps read and write only their own connection's state (shared tables read-only), under EVERY interleaving each connection's outputs and final state equal those of its solo run (induction over the schedule); the premise is tied to the source by the regenerated fact that the only function of the module writing a package-level variable outside init is RegisterOEMPayloadDescriptor (documented as not concurrency-safe). What the model cannot exhibit - the Go memory model and scheduler - is exercised by the `conc` scenario built with the race detector: N = 2,4,8 (thorough 2..16) goroutines each running a seeded workload (session-less command, handshakes over three suites, in-session commands incl. retried ones, closes) against its own reference BMC; every goroutine's results and its BMC's decoded request log must equal the same workload run alone, and the race detector must stay silent.",
        "note": "trusted: Lean kernel; factgen's scan for package-level writes (assignments, ++/--, map element writes, delete; method calls on shared objects such as Prometheus vectors are trusted to be internally synchronised); the race detector only sees the schedules that actually occur",
        "technique": "Lean 4 proof (isolation under arbitrary interleaving) + regenerated no-shared-writes fact + race-detector runs compared with sequential runs",
        "ref": "§5 C19",
        "proofs": ["Bmc.Proofs.C19"],
        "scenarios": ["conc"],
        "race": True,
        "rule": "N in {2,4,8} x 3 seeds (thorough N in {2,3,4,6,8,12,16} x 50 seeds) concurrent workloads, each also re-run alone for comparison. Non-trivial = every op; distinct = distinct (N, seed).",
        "modelled": ["connections as independent state machines; NOT verified: the Go memory model"],
        "assumptions": ["the Register* functions documented as not concurrency-safe are not part of the workloads"],
    },
}

# The regenerated decoders (tools/decgen -> lean/Bmc/Gen/Dec.lean) and their equality with the hand models
# (lean/Bmc/Proofs/GenDec.lean) support C05, C07 and C17 alike.
GENDEC_LAYERS = 29
GENDEC = ["Bmc.Proofs.GenDec.TranslatedOk", "Bmc.Proofs.GenDec.ReserveSDRRepositoryRsp", "Bmc.Proofs.GenDec.GetSystemGUIDRsp", "Bmc.Proofs.GenDec.SetSessionPrivilegeLevelRsp", "Bmc.Proofs.GenDec.GetSDRRsp", "Bmc.Proofs.GenDec.SDR", "Bmc.Proofs.GenDec.GetSensorReadingRsp", "Bmc.Proofs.GenDec.GetChannelCipherSuitesRsp", "Bmc.Proofs.GenDec.GetChannelAuthenticationCapabilitiesRsp", "Bmc.Proofs.GenDec.GetSDRRepositoryInfoRsp", "Bmc.Proofs.GenDec.GetPowerReadingRsp", "Bmc.Proofs.GenDec.GetChassisStatusRsp", "Bmc.Proofs.GenDec.GetDeviceIDRsp", "Bmc.Proofs.GenDec.RAKPMessage4", "Bmc.Proofs.GenDec.RAKPMessage2", "Bmc.Proofs.GenDec.RAKPMessage1", "Bmc.Proofs.GenDec.V1Session", "Bmc.Proofs.GenDec.GetSessionInfoRsp", "Bmc.Proofs.GenDec.OpenSessionRsp", "Bmc.Proofs.GenDec.GetDCMICapabilitiesInfoManageabilityAccessAttrsRsp", "Bmc.Proofs.GenDec.GetDCMICapabilitiesInfoOptionalPlatformAttrsRsp", "Bmc.Proofs.GenDec.GetDCMICapabilitiesInfoSupportedCapabilitiesRsp", "Bmc.Proofs.GenDec.GetDCMICapabilitiesInfoMandatoryPlatformAttrsRsp", "Bmc.Proofs.GenDec.SessionSelector", "Bmc.Proofs.GenDec.Message", "Bmc.Proofs.GenDec.GetDCMICapabilitiesInfoEnhancedSystemPowerStatisticsAttrsRsp", "Bmc.Proofs.GenDec.GetDCMISensorInfoRsp",
          # decgen2: signed narrow integers / closed sums / map literals / float idioms / loops with fuel / external calls as parameters
          "Bmc.Proofs.GenDec.FullSensorRecord", "Bmc.Proofs.GenDec.V2Session", "Bmc.Proofs.GenDec.AES128CBC"]
_GENDEC_CLAIM = (" REGENERATED MODELS: the decoders of %d layers (every DecodeFromBytes of pkg/ipmi and pkg/dcmi; the translator gives up on none) are "
                 "RE-TRANSLATED from the Go source on every run (tools/decgen -> Gen/Dec.lean) and proved "
                 "equal to the models the theorems are about, for every receiver and every Go slice (Proofs/GenDec/*.lean: T_gen_eq): a source change "
                 "to a decoder breaks a proof obligation at build time. External calls are parameters of the regenerated definitions "
                 "(executeHash(s.IntegrityAlgorithm, .) of V2Session; CBC decryption of AES128CBC, block size 16 from aes.NewCipher); loops the translator "
                 "cannot bound structurally run with fuel and the equality shows the fuel suffices." % GENDEC_LAYERS)
for _p in ("C05", "C07", "C17"):
    PROPS[_p]["claim"] += _GENDEC_CLAIM
    PROPS[_p]["proofs"] = PROPS[_p]["proofs"] + GENDEC
    PROPS[_p]["modelled"] = PROPS[_p]["modelled"] + ["layers decgen gives up on (listed in Gen/Dec.lean: gaveUp, with reasons; none at delivery of decgen2) stay hand models tied by correspondence only",
                                                     "regenerated decoders: Go int is Z (no wrap at 2^63); int(math.Ceil/Floor(float64(e)/2^k)) is exact ceiling/floor division (|e| < 2^53); a zero-value AES128CBC (nil cipher) is outside the translation"]

# parseCipherSuiteRecordData (cipher_suites.go) is not a layer method; its regenerated translation is proved equal to the model C16 and C12 are about.
_GENSUITES_CLAIM = (" REGENERATED MODEL: parseCipherSuiteRecordData is RE-TRANSLATED from cipher_suites.go on every run (tools/decgen -> Gen/Dec.lean: "
                    "bmc_parseCipherSuiteRecordData, its three `for` loops with fuel len(joined)+1, the nested range product as folds) and proved equal "
                    "to the model parseRecords on the bytes of every Go slice, never out of fuel (Proofs/GenDec/CipherSuiteRecords.lean: "
                    "parseCipherSuiteRecordData_gen_eq, parseCipherSuiteRecordData_fuel).")
for _p in ("C16", "C12"):
    PROPS[_p]["claim"] += _GENSUITES_CLAIM
    PROPS[_p]["proofs"] = PROPS[_p]["proofs"] + ["Bmc.Proofs.GenDec.CipherSuiteRecords"]

# The RAKP key formulas (authenticator.go, hasher.go, confidentiality.go) regenerated (tools/keygen -> lean/Bmc/Gen/Keys.lean) and
# proved to be the handshake model's (lean/Bmc/Proofs/GenKeys/*.lean) support C01 and C02 alike.
GENKEYS = ["Bmc.Proofs.GenKeys.TranslatedOk", "Bmc.Proofs.GenKeys.SIK", "Bmc.Proofs.GenKeys.Rakp2", "Bmc.Proofs.GenKeys.Rakp3", "Bmc.Proofs.GenKeys.ICV",
           "Bmc.Proofs.GenKeys.KConstant", "Bmc.Proofs.GenKeys.Tables", "Bmc.Proofs.GenKeys.Integrity", "Bmc.Proofs.GenKeys.Cipher"]
_GENKEYS_CLAIM = (" REGENERATED KEY FORMULAS: calculateSIK, calculateRAKPMessage2AuthCode, calculateRAKPMessage3AuthCode, calculateRAKPMessage4ICV, executeHash, "
                  "additionalKeyMaterialGenerator.K, truncatedHash, the constructors of authenticationAlgorithmParams and the tables algorithmAuthenticationHashGenerator / "
                  "algorithmHasher / algorithmCipher are RE-TRANSLATED from the Go source on every run (tools/keygen -> Gen/Keys.lean: the byte string each function writes into "
                  "its hash.Hash, in order, after checking that it ends with Sum(nil) / Reset / return of that sum and that nothing else touches the hash) and proved, for every "
                  "field value, to be the message the model's %s apply the keyed hash to, with the model's hash, key index, K constant (20 bytes) and truncation lengths "
                  "(Proofs/GenKeys/*.lean) - swapping two Write calls, dropping the role bit or changing kConstantLength breaks exactly one obligation at build time.")
for _p, _what in (("C01", "sikOf / K1 / K2 (and rakp3Code, which the BMC must accept)"), ("C02", "rakp2Code / icvOf / sikOf (the checks a session is returned only through)")):
    PROPS[_p]["claim"] += _GENKEYS_CLAIM % _what
    PROPS[_p]["proofs"] = PROPS[_p]["proofs"] + GENKEYS
    PROPS[_p]["note"] += ("; Gen/Keys.lean rests on the hash.Hash / io.Writer contract (Write appends what the slice holds at the call and does not retain it, Sum(nil) is the MAC of "
                          "what was written since the last Reset, hmac.New starts reset) written out in its header and in Lemmas/GenKeys.lean: mac")
    PROPS[_p]["modelled"] = PROPS[_p]["modelled"] + ["key formulas keygen gives up on (listed in Gen/Keys.lean: gaveUp, with reasons; none at delivery) stay hand models tied by correspondence only"]
# (Proofs/GenOrch/TranslatedOk.lean — "everything translated at delivery still is" — is NOT an obligation of any property: it is
# global, so a give-up on one function would alarm the properties of the others; each F_gen_eq module already fails to build
# when F is no longer translated.)
# The ORCHESTRATION functions (loops over SendCommand) regenerated by tools/decgen -orch -> lean/Bmc/Gen/Orch.lean and proved equal
# to the hand models (lean/Bmc/Proofs/GenOrch/<Function>.lean): items 1, 2 -> C16; 2, 3 -> C12.
GENORCH_DCMI = ["Bmc.Proofs.GenOrch.GetEntityInstances", "Bmc.Proofs.GenOrch.GetSensorMap",
                "Bmc.Proofs.GenOrch.CountRecordIDs", "Bmc.Proofs.GenOrch.GetSensorInfo"]
GENORCH_RETRIEVE = ["Bmc.Proofs.GenOrch.RetrieveSupportedCipherSuites"]
GENORCH_DETERMINE = ["Bmc.Proofs.GenOrch.DetermineCipherSuite"]
PROPS["C16"]["claim"] += (" REGENERATED ORCHESTRATION: getEntityInstances, getSensorMap, sensorMap.CountRecordIDs, GetSensorInfo and RetrieveSupportedCipherSuites "
                          "are RE-TRANSLATED from the Go source on every run (tools/decgen -orch -> Gen/Orch.lean: SendCommand + ValidateResponse as an application of the "
                          "BMC's answer function, a PARAMETER threaded through a state monad; the command struct as the cell of the state; for loops with break as "
                          "fuelled loops; Go maps as association lists) and proved to return what the hand models return - result AND request sequence - for every typed "
                          "BMC, every content of the response struct after a failed command and every fuel >= 256 / 64; that fuel suffices for EVERY answer function "
                          "over any state, i.e. also for a BMC whose answers change over time (Proofs/GenOrch/*.lean: F_gen_eq, F_fuel, F_fuel_any).")
PROPS["C16"]["proofs"] = PROPS["C16"]["proofs"] + GENORCH_DCMI + GENORCH_RETRIEVE
PROPS["C16"]["modelled"] = PROPS["C16"]["modelled"] + ["regenerated orchestration functions: Go int is N (lengths, counts, conversions of unsigned fields; no wrap at 2^63); a pointer to a struct is its value; "
                                                       "the iteration order of a Go map is only used for a commutative sum; functions tools/decgen -orch gives up on (Gen/Orch.lean: gaveUp, with reasons) stay hand models tied by correspondence only"]
PROPS["C12"]["claim"] += (" REGENERATED ORCHESTRATION: determineCipherSuite (with the table defaultCipherSuites) and RetrieveSupportedCipherSuites are RE-TRANSLATED from the Go "
                          "source on every run (tools/decgen -orch -> Gen/Orch.lean; the BMC's answer function is a parameter) and proved equal to determineFull / "
                          "retrieveSupportedCipherSuites for every preference list and every typed BMC: the suite proposed or the error, whether discovery ran, and the list "
                          "indices asked for (Proofs/GenOrch/DetermineCipherSuite.lean, RetrieveSupportedCipherSuites.lean).")
PROPS["C12"]["proofs"] = PROPS["C12"]["proofs"] + GENORCH_DETERMINE + GENORCH_RETRIEVE
GENORCH_SDR = ["Bmc.Proofs.GenOrch.WalkSDRs", "Bmc.Proofs.GenOrch.RetrieveSDRRepository"]
# SESSION ESTABLISHMENT regenerated (tools/decgen -hs -> lean/Bmc/Gen/Hs.lean: newV2Session and the wrappers openSession / rakpMessage1 /
# rakpMessage3, statement by statement) and proved equal to the handshake model (lean/Bmc/Proofs/GenHs/*.lean): C01, C02, C12.
GENHS = ["Bmc.Proofs.GenHs.TranslatedOk", "Bmc.Proofs.GenHs.Model", "Bmc.Proofs.GenHs.Wrappers", "Bmc.Proofs.GenHs.NewV2Session",
         "Bmc.Proofs.GenHs.Examples"]
_GENHS_CLAIM = (" REGENERATED SESSION ESTABLISHMENT: newV2Session and the wrappers openSession / rakpMessage1 / rakpMessage3 are RE-TRANSLATED from the Go source on every "
                "run (tools/decgen -hs -> Gen/Hs.lean: buildAndSendPayload, rand.Read and the keyed hash as PARAMETERS, determineCipherSuite and the key formulas as the "
                "regenerated definitions of Gen/Orch.lean / Gen/Keys.lean) and proved, for every option value, every answer function over any state and every draw, to return "
                "what the hand model's composition of stepOpen / stepRakp2 / stepRakp4 returns over the same answers - result and final state, i.e. which requests are made in "
                "which order (Proofs/GenHs/NewV2Session.lean: newV2Session_gen_eq; Proofs/GenHs/Model.lean: that composition over a reply script IS Proto.newSession): %s")
for _p, _what in (("C01", "the session carries LocalID / RemoteID of the Open Session RESPONSE, the confirmed algorithms, the SIK under K_G (the password when K_G is empty), "
                          "the integrity hasher keyed with K1 and the AES key = first 16 bytes of K2, which is what the in-session model starts from."),
                  ("C02", "the RAKP 2 AuthCode is checked BEFORE RAKP 3 is built, ErrIncorrectPassword is returned exactly on its mismatch, the RAKP 4 ICV is checked under the SIK, "
                          "tag / status of every response are checked by the wrappers, and nothing is sent after a failed check."),
                  ("C12", "the Open Session Request carries SessionID 1, the caller's privilege level and exactly the algorithms determineCipherSuite proposed, and the response "
                          "must confirm exactly the PROPOSAL (compared with the proposal, not with itself); without a proposal nothing is sent.")):
    PROPS[_p]["claim"] += _GENHS_CLAIM % _what
    PROPS[_p]["proofs"] = PROPS[_p]["proofs"] + GENHS
    PROPS[_p]["note"] += ("; Gen/Hs.lean takes buildAndSendPayload, crypto/rand.Read and the hash.Hash contract (hash_Sum := Lemmas/GenKeys.lean: mac) as parameters, takes "
                          "ipmi.NewAES128CBC not to fail on a 16-byte key, and does not model the gopacket decoder, the shared connection and the timeout of the new session")
    PROPS[_p]["modelled"] = PROPS[_p]["modelled"] + ["session establishment functions tools/decgen -hs gives up on (Gen/Hs.lean: gaveUp, with reasons; none at delivery) stay hand models tied by correspondence only"]
GENORCH_SDR = ["Bmc.Proofs.GenOrch.TranslatedOk", "Bmc.Proofs.GenOrch.WalkSDRs", "Bmc.Proofs.GenOrch.RetrieveSDRRepository"]
_GENORCH_SDR_CLAIM = (" REGENERATED ORCHESTRATION: walkSDRs and RetrieveSDRRepository are RE-TRANSLATED from the Go source on every run (tools/decgen -orch -> Gen/Orch.lean: "
                      "SendCommand / ReserveSDRRepository / GetSDRRepositoryInfo as applications of the BMC's answer functions, the reused GetSDRCmd as the cell of the state whose "
                      "response part every command replaces, gopacket.NewPacket(.., Lazy).Layer(..) as the regenerated SDR / FullSensorRecord decoders of Gen/Dec.lean on a copy "
                      "of the payload, the walk as a fuelled loop, backoff.Retry as at most `attempts` runs of the closure) and proved equal to the hand model Proto/SdrWalk.lean "
                      "(walk / retrieve with the map key header.ID) for EVERY raw answer function over any state, every fuel and every number of attempts: the repository or the "
                      "error, outOfFuel exactly where the hand model reports it, and the final state of the answer function, i.e. the requests made "
                      "(Proofs/GenOrch/WalkSDRs.lean, RetrieveSDRRepository.lean).")
for _p in ("C14", "C17"):
    PROPS[_p]["claim"] += _GENORCH_SDR_CLAIM
    PROPS[_p]["proofs"] = PROPS[_p]["proofs"] + GENORCH_SDR

# The three RETRY LOOPS and the two SendCommand wrappers regenerated by tools/loopgen -> lean/Bmc/Gen/Loops.lean and proved equal to the
# hand models of the send loops (lean/Bmc/Proofs/GenLoops/*.lean): in-session loop -> C03 C04 C09 C10 C11 C18; session-less -> C09 C10
# C11 C18; payload loop -> C02 C10.
GENLOOPS_SESSION = ["Bmc.Proofs.GenLoops.BuildAndSend"]
GENLOOPS_SESSIONLESS = ["Bmc.Proofs.GenLoops.BuildAndSendCommand"]
GENLOOPS_PAYLOAD = ["Bmc.Proofs.GenLoops.BuildAndSendPayload"]
_GENLOOPS_HOW = ("(tools/loopgen -> Gen/Loops.lean: every statement of the function and of its retry closure over a state monad; gopacket.SerializeLayers, transport.Send, the "
                 "connection's decoder with InnermostEquals, the back-off's verdict between attempts and the response layer's DecodeFromBytes are PARAMETERS, the Prometheus calls "
                 "an event log, backoff.Retry the definition GoLoops.backoffRetry written after backoff v4.3.0; any other write to the receiver, any other write of the sequence "
                 "counter than ++, any other use of the transport, the buffer or the context is a give-up)")
_GENLOOPS_SESSION_CLAIM = {
    "C03": "every datagram handed to the transport was serialised from layer structs rebuilt in that very attempt with Encrypted and Authenticated set, the BMC's session ID, the "
           "session's integrity algorithm and confidentiality layer, i.e. is Proto.attempt's datagram",
    "C04": "the three acceptance checks of the closure - authenticated when an integrity algorithm was negotiated, addressed to this session, a response to this very operation - "
           "are, in this order and before anything is counted or returned, the model's accept",
    "C09": "the sequence number written into the wrapper is the counter + 1, the counter is incremented exactly once per successful serialisation and nowhere else, so the datagrams "
           "carry sendLoop's numbers and the final counter is sendLoop's",
    "C10": "a transport error and a serialisation error are terminal, every other failure (undecodable, not a message, unacceptable, temporary code) re-runs the closure, which "
           "rebuilds and re-serialises the same request, until the context ends - exactly sendLoop's transmissions and result",
    "C11": "the result is nil only after the regenerated isResponseTo accepted the decoded message, and the completion code and payload left in the message layer are those of that "
           "reply",
    "C18": "the log of Prometheus calls replayed on the counters is Proto.Metrics.loop / command on attOf of the same script (retries at the head of every run of the closure after "
           "the first, responses for the code of every accepted reply, attempts and failures in SendCommand) for both ways the caller's context can end",
}
for _p, _what in _GENLOOPS_SESSION_CLAIM.items():
    PROPS[_p]["claim"] += (" REGENERATED RETRY LOOP: V2Session.buildAndSend (with its closure) and V2Session.SendCommand are RE-TRANSLATED from v2session.go on every run " + _GENLOOPS_HOW +
                           " and, with the parameters instantiated by the hand model's own pieces, proved to return what Proto.sendLoop returns for every command, session state, "
                           "non-empty script and IV list (Proofs/GenLoops/BuildAndSend.lean: V2Session_buildAndSend_gen_eq / _events_eq, V2Session_SendCommand_gen_eq / _events_eq): " + _what + ".")
    PROPS[_p]["proofs"] = PROPS[_p]["proofs"] + [m for m in GENLOOPS_SESSION if m not in PROPS[_p]["proofs"]]
_GENLOOPS_SESSIONLESS_CLAIM = {
    "C09": "buildAndSendCommand and its closure never touch AuthenticatedSequenceNumbers.Inbound",
    "C10": "the request is serialised once, the very same buffer is handed to the transport on every attempt, lost replies and everything that is not a final answer are retried "
           "until the context ends - slSend's transmissions and result, for EVERY script",
    "C11": "the result is nil only after the regenerated isResponseTo accepted the decoded message, and code and payload are that reply's",
    "C18": "the log replayed on the counters is Proto.Metrics.loop false / command on the attempts of the script (slAttOf)",
}
for _p, _what in _GENLOOPS_SESSIONLESS_CLAIM.items():
    PROPS[_p]["claim"] += (" SESSION-LESS: V2Sessionless.buildAndSendCommand (with its closure) and V2Sessionless.SendCommand are re-translated the same way and proved equal to Proto.slSend "
                           "(Proofs/GenLoops/BuildAndSendCommand.lean: V2Sessionless_buildAndSendCommand_gen_eq / _events_eq, V2Sessionless_SendCommand_gen_eq / _events_eq): " + _what + ".")
    PROPS[_p]["proofs"] = PROPS[_p]["proofs"] + [m for m in GENLOOPS_SESSIONLESS if m not in PROPS[_p]["proofs"]]
_GENLOOPS_PAYLOAD_CLAIM = {
    "C02": "the bytes handed to the response layer of openSession / rakpMessage1 / rakpMessage3 are the payload of a reply that decoded down to the session wrapper and nothing else "
           "- what Proto.exchange returns",
    "C10": "the setup datagram is serialised once and retransmitted unchanged after every lost or undecodable reply until the context ends - (exchange script).1 copies of setupDatagram",
}
for _p, _what in _GENLOOPS_PAYLOAD_CLAIM.items():
    PROPS[_p]["claim"] += ((" REGENERATED RETRY LOOP: " if _p == "C02" else " SESSION SETUP: ") + "V2Sessionless.buildAndSendPayload (with its closure) is RE-TRANSLATED from v2sessionless.go on every run " +
                           (_GENLOOPS_HOW + " " if _p == "C02" else "") + "and proved equal to Proto.exchange for every payload type, payload and script "
                           "(Proofs/GenLoops/BuildAndSendPayload.lean: V2Sessionless_buildAndSendPayload_gen_eq): " + _what + ".")
    PROPS[_p]["proofs"] = PROPS[_p]["proofs"] + [m for m in GENLOOPS_PAYLOAD if m not in PROPS[_p]["proofs"]]
for _p in ("C02", "C03", "C04", "C09", "C10", "C11", "C18"):
    PROPS[_p]["modelled"] = PROPS[_p]["modelled"] + ["regenerated retry loops (Gen/Loops.lean): the methods of the ipmi.Command / ipmi.Payload parameter are taken to be getters; "
                                                     "interface values are opaque tokens; deadlines and waiting are not modelled (the surroundings decide when the context is done); "
                                                     "an already-expired context still costs buildAndSend one sequence number (V2Session_buildAndSend_expired_context) - the hand model "
                                                     "sendLoop does not show this, its equality is for non-empty scripts"]

# The regenerated serialisers (tools/encgen -> lean/Bmc/Gen/Enc.lean) and their equality with the hand encoder models
# (lean/Bmc/Proofs/GenEnc.lean) support C06 and C08 alike.
GENENC_LAYERS = 18
_GENENC_CLAIM = (" REGENERATED MODELS: the SerializeTo methods of %d layers are RE-TRANSLATED from the Go source on every run (tools/encgen -> Gen/Enc.lean) over a "
                 "serialize buffer whose PrependBytes / AppendBytes hand back bytes of INDETERMINATE content, and proved equal to the encoder models the theorems are "
                 "about for every layer value, every inner payload and every stale content (Proofs/GenEnc.lean: T_enc_eq) - a serialiser that leaves a byte unwritten "
                 "on one path, swaps two fields or changes a mask breaks a proof obligation at build time. The translator gives up on NO SerializeTo method "
                 "(Proofs/GenEnc/TranslatedOk.lean: gaveUp_empty): ipmi.AES128CBC too is regenerated, its external calls as PARAMETERS - a.cipher.BlockSize() = 16 (the "
                 "unexported field is only ever set from aes.NewCipher), rand.Read(iv) = the bytes drawn (or the error, returned at once), "
                 "cipher.NewCBCEncrypter(a.cipher, iv).CryptBlocks(toEncrypt, toEncrypt) = a function of the IV and of what the slice b.Bytes()[16:] holds AT THE TIME OF THE "
                 "CALL, applied in place - and proved equal to Wire.AESLayer.encode for every key, IV draw, inner payload and stale content, CBC encryption identified "
                 "with the model's cbcEnc over a lawful block cipher as on the decoding side (Proofs/GenEnc/AES128CBC.lean: AES128CBC_enc_eq, _enc_param for every "
                 "length-preserving cipher function, _enc_randErr). A local holding a slice of the buffer is usable only until the next PrependBytes / AppendBytes "
                 "(which may move the contents): with the slice taken before the PrependBytes for the IV (defect F13) the translator gives up and these obligations break." % GENENC_LAYERS)
# The wrappers around SendCommand as the source has them now (factgen -> Gen/Facts.lean: apiWrappers) — Proofs/ApiWrappers.lean
for _p in ("C06", "C07", "C17"):
    PROPS[_p]["proofs"] = PROPS[_p]["proofs"] + ["Bmc.Proofs.ApiWrappers"]
    PROPS[_p]["claim"] += (" API WRAPPERS: the shape the API model assumes of every wrapper around SendCommand (a command value allocated by the call from the "
                           "caller's arguments, sent on the receiver, ValidateResponse, the response struct or one field handed back, no other statement) is "
                           "re-extracted from the source on every run and compared with the expected table (Proofs/ApiWrappers.lean).")
for _p in ("C06", "C08"):
    PROPS[_p]["claim"] += _GENENC_CLAIM
    PROPS[_p]["proofs"] = PROPS[_p]["proofs"] + ["Bmc.Proofs.GenEnc.TranslatedOk", "Bmc.Proofs.GenEnc.GetSensorReadingReq", "Bmc.Proofs.GenEnc.GetDCMICapabilitiesInfoReq", "Bmc.Proofs.GenEnc.GetDCMISensorInfoReq", "Bmc.Proofs.GenEnc.ChassisControlReq", "Bmc.Proofs.GenEnc.CloseSessionReq", "Bmc.Proofs.GenEnc.GetChannelAuthenticationCapabilitiesReq", "Bmc.Proofs.GenEnc.GetChannelCipherSuitesReq", "Bmc.Proofs.GenEnc.GetSDRReq", "Bmc.Proofs.GenEnc.GetSessionInfoReq", "Bmc.Proofs.GenEnc.SetSessionPrivilegeLevelReq", "Bmc.Proofs.GenEnc.OpenSessionReq", "Bmc.Proofs.GenEnc.RAKPMessage3", "Bmc.Proofs.GenEnc.RAKPMessage1", "Bmc.Proofs.GenEnc.V1Session", "Bmc.Proofs.GenEnc.Message", "Bmc.Proofs.GenEnc.GetPowerReadingReq", "Bmc.Proofs.GenEnc.V2Session", "Bmc.Proofs.GenEnc.AES128CBC"]
    PROPS[_p]["modelled"] = PROPS[_p]["modelled"] + ["serialisers encgen gives up on (listed in Gen/Enc.lean: gaveUp, with reasons; none at delivery - gaveUp_empty) stay hand models tied by correspondence only",
                                                     "regenerated AES128CBC.SerializeTo: crypto/rand.Read and crypto/cipher's CBC encrypter are PARAMETERS (the bytes drawn / a function of IV and plaintext, in place); a zero-value AES128CBC (nil cipher) is outside the translation; a slice of the serialize buffer aliases it only until the next PrependBytes / AppendBytes"]

# C04's acceptance path runs through the session-wrapper, AES and message decoders; C03's transmissions through the
# corresponding serialisers: their regenerated translations are obligations of these properties too.
PROPS["C04"]["proofs"] = PROPS["C04"]["proofs"] + ["Bmc.Proofs.GenDec.V2Session", "Bmc.Proofs.GenDec.AES128CBC", "Bmc.Proofs.GenDec.Message"]
PROPS["C04"]["claim"] += (" The wrapper, AES and message DECODERS the acceptance test runs through are re-translated from the source on every run and proved "
                          "equal to the models these theorems are about (Proofs/GenDec/{V2Session,AES128CBC,Message}).")
PROPS["C03"]["proofs"] = PROPS["C03"]["proofs"] + ["Bmc.Proofs.GenEnc.V2Session", "Bmc.Proofs.GenEnc.Message", "Bmc.Proofs.GenEnc.AES128CBC"]
PROPS["C03"]["claim"] += (" The wrapper, AES and message SERIALISERS are re-translated from the source on every run and proved equal to the encoder models "
                          "(Proofs/GenEnc/{V2Session,Message,AES128CBC}); in the AES serialiser rand.Read (the IV draw) and CBC encryption are parameters of the "
                          "regenerated definition, the latter applied to what b.Bytes()[16:] holds at the time of the call - a slice taken before the PrependBytes "
                          "for the IV (defect F13) makes the translator give up.")


# C08's round trips decode what was serialised — also into receivers that have been used before: the regenerated DECODERS of the
# two-way layers are its obligations too.
PROPS["C08"]["proofs"] = PROPS["C08"]["proofs"] + ["Bmc.Proofs.GenDec.V2Session", "Bmc.Proofs.GenDec.AES128CBC", "Bmc.Proofs.GenDec.Message",
                                                   "Bmc.Proofs.GenDec.V1Session", "Bmc.Proofs.GenDec.RAKPMessage1"]

# END TO END: the property theorems composed with the regenerated loops' equality theorems — statements whose subject is the
# code as translated on this run (Proofs/EndToEnd/*.lean).
PROPS["C09"]["proofs"] = PROPS["C09"]["proofs"] + ["Bmc.Proofs.EndToEnd.SessionC09", "Bmc.Proofs.EndToEnd.SessionlessC09"]
PROPS["C11"]["proofs"] = PROPS["C11"]["proofs"] + ["Bmc.Proofs.EndToEnd.SessionC11", "Bmc.Proofs.EndToEnd.SessionlessC11"]
PROPS["C04"]["proofs"] = PROPS["C04"]["proofs"] + ["Bmc.Proofs.EndToEnd.SessionC04"]
for _p in ("C04", "C09", "C11"):
    PROPS[_p]["claim"] += (" END TO END: composed with the regenerated loops' equality theorems the property theorems become statements about the code as "
                           "translated from the source on this run (Proofs/EndToEnd: generated_loop_…), with no hand model left in them.")
for _p in ("C02", "C12"):
    PROPS[_p]["proofs"] = PROPS[_p]["proofs"] + ["Bmc.Proofs.EndToEnd.HandshakeC02"]
    PROPS[_p]["claim"] += (" END TO END: generated_newV2Session_sound (Proofs/EndToEnd/HandshakeC02.lean) — if newV2Session AS TRANSLATED FROM THE SOURCE ON THIS RUN "
                           "returns a session, the Open Session Response confirmed exactly the proposal and the RAKP 2 code / RAKP 4 check value received ARE the keyed "
                           "hashes of the exchange under the caller's password / the SIK, for every BMC, every draw and every option value.")
PROPS["C12"]["proofs"] = PROPS["C12"]["proofs"] + ["Bmc.Proofs.EndToEnd.DiscoveryC12"]
PROPS["C12"]["claim"] += (" generated_determineCipherSuite_first_preference (Proofs/EndToEnd/DiscoveryC12.lean): against a BMC serving the specification's encoding "
                          "of any well-formed record list, a proposal made by determineCipherSuite AS TRANSLATED ON THIS RUN (two or more preferences) is the first "
                          "preference some record advertises.")
for _p in ("C03", "C10"):
    PROPS[_p]["proofs"] = PROPS[_p]["proofs"] + ["Bmc.Proofs.EndToEnd.SessionC03"]
    PROPS[_p]["claim"] += (" END TO END: generated_loop_datagrams (Proofs/EndToEnd/SessionC03.lean) — what buildAndSend AS TRANSLATED ON THIS RUN hands to the transport is, "
                           "datagram by datagram, the specification-shaped packet for the caller's command (nthDatagram), as many as the documented contract says.")
PROPS["C14"]["proofs"] = PROPS["C14"]["proofs"] + ["Bmc.Proofs.EndToEnd.WalkC14"]
PROPS["C14"]["claim"] += (" END TO END: generated_walkSDRs_complete (Proofs/EndToEnd/WalkC14.lean) — walkSDRs AS TRANSLATED ON THIS RUN returns exactly the Full Sensor "
                          "Records of any well-formed repository held by the conforming device, each under its own ID.")
for _p in ("C07", "C17"):
    PROPS[_p]["proofs"] = PROPS[_p]["proofs"] + ["Bmc.Proofs.EndToEnd.DecodeC07", "Bmc.Proofs.EndToEnd.DecodeSetupC07"]
    PROPS[_p]["claim"] += (" END TO END: generated_*_decodes (Proofs/EndToEnd/DecodeC07.lean, DecodeSetupC07.lean; 26 decoders) — each DecodeFromBytes AS TRANSLATED FROM THE "
                           "SOURCE ON THIS RUN, started from ANY previous receiver content on ANY Go slice (any capacity, any bytes beyond len) whose visible bytes are the "
                           "specification's encoding of a well-formed value, returns exactly that value's view.")
PROPS["C08"]["proofs"] = PROPS["C08"]["proofs"] + ["Bmc.Proofs.EndToEnd.RoundTripC08"]
PROPS["C08"]["claim"] += (" END TO END: generated_{message,v1,v2,aes,rakp1}_roundtrip (Proofs/EndToEnd/RoundTripC08.lean) — SerializeTo AS TRANSLATED ON THIS RUN, over any stale "
                          "buffer, produces bytes which DecodeFromBytes AS TRANSLATED ON THIS RUN, from any receiver content on any Go slice showing those bytes, turns back "
                          "into the serialised fields and the inner payload (every mac, every lawful block cipher, every length).")
PROPS["C06"]["proofs"] = PROPS["C06"]["proofs"] + ["Bmc.Proofs.EndToEnd.RequestsC06"]
PROPS["C06"]["claim"] += (" END TO END: generated_*_request (Proofs/EndToEnd/RequestsC06.lean; 16 theorems over the 14 request layers) — each SerializeTo AS TRANSLATED ON THIS RUN, "
                          "over any stale buffer, produces bytes the independent reference parser reads as exactly the caller's fields, for all values fitting the wire width.")
PROPS["C16"]["proofs"] = PROPS["C16"]["proofs"] + ["Bmc.Proofs.EndToEnd.EnumC16"]
PROPS["C16"]["claim"] += (" END TO END: generated_RetrieveSupportedCipherSuites_complete, generated_getEntityInstances_pages (Proofs/EndToEnd/EnumC16.lean) — the paging loops AS "
                          "TRANSLATED ON THIS RUN return every entry / record ID of any conforming BMC, in order, asking for each page exactly once (hypotheses on the BMC "
                          "restricted by congruence lemmas to the indices the loops can ask for, and shown satisfiable).")
PROPS["C01"]["proofs"] = PROPS["C01"]["proofs"] + ["Bmc.Proofs.EndToEnd.HandshakeC01"]
PROPS["C01"]["claim"] += (" END TO END (liveness / key agreement): hsRun_live, hsRun_against_spec_bmc, generated_newV2Session_live (Proofs/EndToEnd/HandshakeC01.lean) — against a BMC "
                          "whose three set-up exchanges end with what the specification's BMC sends (same password and K_G; it answers only the RAKP 3 code it expects), newV2Session AS "
                          "TRANSLATED ON THIS RUN returns a session whose SIK, K1, K2 are the ones the BMC derives on its own from the fields it received; generated_newV2Session_against_spec_bmc: the same with the "
                          "specification's BMC written as response structs of the code's own types (typedO / typedR1 / typedR3) — no hypothesis about intermediate states is left, only: the suite the translated discovery "
                          "determined is supported, the BMC is well-formed and holds the caller's password and K_G.")
PROPS["C18"]["proofs"] = PROPS["C18"]["proofs"] + ["Bmc.Proofs.EndToEnd.MetricsC18"]
PROPS["C18"]["claim"] += (" END TO END: generated_session_SendCommand_accounting, generated_sessionless_SendCommand_accounting (Proofs/EndToEnd/MetricsC18.lean) — the Prometheus calls of "
                          "SendCommand AS TRANSLATED ON THIS RUN, applied to any metric values, satisfy the per-command accounting laws (attempts +1 for this name only, failures +1 exactly "
                          "when no accepted final response that decodes, retries = closure runs beyond the first, responses per code, other metrics untouched); generatedRun_metrics / generated_history_conservation — over ANY history of calls of the translated "
                          "SendCommand, each made on the connection value the previous one left, the Prometheus log applied to any starting values is the instrumentation model run over the history's events, hence CONSERVATION (attempts = calls per name, failures = failed calls, retries = extra transmissions, responses per code) holds of the translated code.")
PROPS["C05"]["proofs"] = PROPS["C05"]["proofs"] + ["Bmc.Proofs.EndToEnd.SafeC05"]
PROPS["C05"]["claim"] += (" END TO END: generated_*_safe (Proofs/EndToEnd/SafeC05.lean; 30 theorems) — every DecodeFromBytes AS TRANSLATED ON THIS RUN, and the cipher-suite record parser, "
                          "from any receiver content on any Go slice, never ends in a panic, a read beyond len or an exhausted loop fuel.")
PROPS["C10"]["proofs"] = PROPS["C10"]["proofs"] + ["Bmc.Proofs.EndToEnd.SessionlessC10"]
PROPS["C10"]["claim"] += (" generated_sessionless_SendCommand_retries / _until_final (Proofs/EndToEnd/SessionlessC10.lean): outside a session SendCommand AS TRANSLATED ON THIS RUN hands the "
                          "transport the SAME datagram as many times as the contract says (one more per lost / undecodable / stray / temporary reply, none after a final answer).")
PROPS["C14"]["claim"] += (" generated_RetrieveSDRRepository_snapshot (same file): a repository returned by RetrieveSDRRepository AS TRANSLATED, against a device whose records may change "
                          "under the walk, is the Full Sensor Record set of ONE device state (the one the run ended in), never a mixture.")
PROPS["C15"]["proofs"] = PROPS["C15"]["proofs"] + ["Bmc.Proofs.C15Float"]
PROPS["C15"]["claim"] += (" FLOATING-POINT CLAUSE UNDER THE STANDARD MODEL (Proofs/C15Float.lean, Lemmas/FloatModel.lean; core Lean, rationals): convertReading_source — the body of ConvertReading as it "
                          "stands in the source on this run is the three statements modelled (regenerated fact); convert_error / convert_within_6u — for EVERY rounding function with relative error <= u "
                          "(what IEEE-754 guarantees for correctly rounded operations; binary64: u = 2^-53) the five-rounding computation is within ((1+u)^5 - 1), hence 6u, of (|M x| + |B| 10^K1) 10^K2 "
                          "from the specification's value, for ALL integers: the tolerance the correspondence check applies to the real float64 on every run is this theorem's bound. BINARY64 (Lemmas/Binary64.lean): "
                          "rnd64, IEEE-754 round-to-nearest-even over the rationals, is PROVED an instance of that model with u = 2^-53 (rnd64_err), so convert_binary64_within_6u holds of the concrete value; the driver "
                          "computes that value exactly and the correspondence run compares it BIT FOR BIT (as the rational num/den) with the float64 the real code returned for every reading (the ~lin= field), and likewise the result of the three linearisations Go computes with correctly rounded operations only (1/x, x^2, x^3 under rnd64, and sqrt under the correctly rounded sqrt64: the ~nl= field). Still trusted: "
                          "that Go's float64 operations and math.Pow10 are IEEE-754 correctly rounded (now confirmed bit for bit on every input of the run), and the library functions behind the linearisations.")
PROPS["C17"]["proofs"] = PROPS["C17"]["proofs"] + ["Bmc.Proofs.EndToEnd.ReuseC17"]
PROPS["C17"]["claim"] += (" generated_session_SendCommand_ignores_history / generated_sessionless_SendCommand_ignores_history (Proofs/EndToEnd/ReuseC17.lean): SendCommand AS TRANSLATED ON THIS RUN gives "
                          "the same result, the same datagrams and the same counter from two connection values differing ARBITRARILY in what earlier traffic left behind (layer structs of the last decode, "
                          "which layers it went through, serialisation buffer bytes, Prometheus log).")
PROPS["C19"]["proofs"] = PROPS["C19"]["proofs"] + ["Bmc.Proofs.EndToEnd.IsolationC19"]
PROPS["C19"]["claim"] += (" generated_SendCommand_isolation (Proofs/EndToEnd/IsolationC19.lean): the isolation theorem instantiated with both SendCommand entry points AS TRANSLATED ON THIS RUN — the translation "
                          "succeeds only if every variable they touch is a parameter, a local or a field of the receiver (a written package-level variable is a give-up), so they ARE functions of the connection's own "
                          "state and every interleaving gives each connection its solo results.")
PROPS["C13"]["proofs"] = PROPS["C13"]["proofs"] + ["Bmc.Proofs.EndToEnd.ContextC13"]
PROPS["C13"]["claim"] += (" About the retry loops AS TRANSLATED ON THIS RUN (Proofs/EndToEnd/ContextC13.lean; the part a function of states can say): at most one datagram per outcome the caller's context allows, "
                          "nothing after the context has ended in the back-off, and a call entered with an ended context serialises one packet, fails in the transport and returns without a retry.")
PROPS["C01"]["proofs"] = PROPS["C01"]["proofs"] + ["Bmc.Proofs.EndToEnd.SessionC01"]
PROPS["C01"]["claim"] += (" generated_SendCommand_answered (Proofs/EndToEnd/SessionC01.lean): on a session whose keys both sides hold, the one datagram SendCommand AS TRANSLATED ON THIS RUN sends for any "
                          "well-posed command passes the conforming BMC's integrity check, decryption and message checks, and the translated code returns the BMC handler's completion code; generated_all_commands_answered: the same for histories of ANY length — "
                          "generatedConverse threads the regenerated SendCommand's own connection value from call to call against the conforming BMC, and every call returns the handler's answer to that very command with the next sequence number.")
PROPS["C01"]["proofs"] = PROPS["C01"]["proofs"] + ["Bmc.Proofs.EndToEnd.WholeC01"]
PROPS["C01"]["claim"] += (" WHOLE (Proofs/EndToEnd/WholeC01.lean: generated_session_then_commands): newV2Session AS TRANSLATED against the specification's BMC (typed) returns a session value whose keys, read the way "
                          "buildAndSend reads them (keysOfSession), are the BMC's own, and every command of ANY history sent on it by SendCommand AS TRANSLATED is accepted by that BMC — integrity check and decryption with "
                          "ITS OWN K1 / K2 — and answered with the handler's completion code.")
PROPS["C06"]["proofs"] = PROPS["C06"]["proofs"] + ["Bmc.Proofs.EndToEnd.DatagramC06"]
PROPS["C06"]["claim"] += (" generated_sessionless_datagram_parses (Proofs/EndToEnd/DatagramC06.lean): EVERY datagram the session-less SendCommand AS TRANSLATED hands to the transport (retransmissions included) parses "
                          "under the reference parser as RMCP / null-session wrapper / checksum-valid IPMI message carrying exactly the command's NetFn, LUN, number, extension bytes and request data.")
PROPS["C09"]["proofs"] = PROPS["C09"]["proofs"] + ["Bmc.Proofs.EndToEnd.HistoryC09"]
PROPS["C09"]["claim"] += (" HISTORY FORM about the translated code (Proofs/EndToEnd/HistoryC09.lean): generatedHistory runs SendCommand AS TRANSLATED command after command, threading its own connection value; "
                          "generatedHistory_eq — its datagrams over the whole history are the hand model's; generated_history_sequence_numbers / generated_history_no_reuse — counter+1, counter+2, … with no gap and no repeat, "
                          "all addressed to the BMC's session ID, and no number used twice for any starting counter and up to 2^32 transmissions.")
PROPS["C15"]["proofs"] = PROPS["C15"]["proofs"] + ["Bmc.Proofs.C15Source"]
PROPS["C15"]["claim"] += (" SOURCE TIES (Proofs/C15Source.lean, regenerated facts): lineariser_table_source / parser_table_source — which function each of the two lookup tables holds for which key, as in the source on this run; "
                          "sensor_reader_source — the bodies of the five reader functions, the two table look-ups and the two adapter methods are what Proto/Sensor.lean transcribes.")
PROPS["C10"]["proofs"] = PROPS["C10"]["proofs"] + ["Bmc.Proofs.EndToEnd.SessionC10"]
PROPS["C10"]["claim"] += (" generated_SendCommand_busy_then_final (Proofs/EndToEnd/SessionC10.lean): in a session, any number of conforming node-busy / timeout answers then a conforming final one — SendCommand AS TRANSLATED "
                          "transmits the complete datagram for this command once per answer (next sequence number and IV draw each time) and returns the final code.")
PROPS["C17"]["proofs"] = PROPS["C17"]["proofs"] + ["Bmc.Proofs.EndToEnd.ReceiverC17"]
PROPS["C17"]["claim"] += (" generated_*_ignores_receiver (Proofs/EndToEnd/ReceiverC17.lean; 25 decoders): for EVERY input (valid, truncated, garbage, any capacity) and ANY two previous contents of the receiver struct, "
                          "DecodeFromBytes AS TRANSLATED gives the same outcome and the same decoded value.")

PROPS["C02"]["claim"] += (" hsRun_incorrect_password / generated_newV2Session_incorrect_password (same file): a RAKP Message 2 with tag 0 and status OK whose AuthCode is not the keyed hash of the exchange under the caller's "
                          "password makes newV2Session AS TRANSLATED return ErrIncorrectPassword — never a session, never a generic error — with no RAKP Message 3 sent.")
# C17 also runs the paged enumerations: a second enumeration on a connection after a failed one (seed C17-B15)
PROPS["C17"]["scenarios"] = PROPS["C17"]["scenarios"] + ["enum:suites,dcmi"]
# a missed reply, then a peer that never stops sending: the next call still returns by its deadline (seed C05-B15, real UDP transport)
PROPS["C05"]["scenarios"] = PROPS["C05"]["scenarios"] + ["flood"]
PROPS["C13"]["scenarios"] = PROPS["C13"]["scenarios"] + ["flood"]
for _p in ("C13", "C05"):
    PROPS[_p]["proofs"] = PROPS[_p]["proofs"] + ["Bmc.Proofs.C13Source"]
    PROPS[_p]["claim"] += (" transport_source (Proofs/C13Source.lean, regenerated fact): the UDP transport (internal/pkg/transport: New, Send, Close, Address, the struct's fields) as it stands in the source on this run is the text "
                           "the time model's assumption about Send (one write, one read, both under the context's deadline) was written against.")
for _p in ("C13", "C19", "C05"):
    PROPS[_p]["proofs"] = PROPS[_p]["proofs"] + ["Bmc.Proofs.SourcePins"]
PROPS["C03"]["proofs"] = PROPS["C03"]["proofs"] + ["Bmc.Proofs.EndToEnd.HistoryC03"]
PROPS["C03"]["claim"] += (" HISTORY FORM about the translated code (Proofs/EndToEnd/HistoryC03.lean): generated_history_datagrams — EVERY datagram SendCommand AS TRANSLATED hands to the transport over a whole "
                          "history of commands (retransmissions, temporary codes, forged or undecodable replies, transport failures) is the packet of one of the history's commands under one of that command's own IV draws; "
                          "generated_history_packets_open — the BMC opens every one of them: RMCP header, AuthCode verifies under K1, authenticated + encrypted flags, its session ID, payload decrypts under K2 to a "
                          "checksum-valid IPMI message that is the caller's command with the caller's request body.")
for _p in ("C11", "C04"):
    PROPS[_p]["proofs"] = PROPS[_p]["proofs"] + ["Bmc.Proofs.EndToEnd.HistoryC11"]
    PROPS[_p]["claim"] += (" HISTORY FORM about the translated code (Proofs/EndToEnd/HistoryC11.lean): generated_history_results — over a whole history of commands run by SendCommand AS TRANSLATED (any replies, "
                           "forgeries, losses, any number of earlier commands), whenever a call returns a completion code with a nil error, a reply delivered DURING THAT CALL decoded to a message for THAT call's command "
                           "(NetFn+1, command, body code, enterprise) with that completion code, in a wrapper addressed to this session, authenticated when an integrity algorithm was negotiated, whose AuthCode is the keyed hash under K1.")
PROPS["C10"]["proofs"] = PROPS["C10"]["proofs"] + ["Bmc.Proofs.EndToEnd.HistoryC10"]
PROPS["C10"]["claim"] += (" HISTORY FORM about the translated code (Proofs/EndToEnd/HistoryC10.lean): generated_history_is_the_contract — the datagrams SendCommand AS TRANSLATED hands to the transport over ANY history of "
                          "commands are exactly `contract`: per command as many as the documented behaviour says (one per attempt until the first final answer / lost reply / end of context), each the complete packet for that "
                          "same command with the next sequence number and IV draw, the next command starting where the counter stands; contract_count_busy_then_final — n temporary answers then a final one: n+1 datagrams.")
PROPS["C03"]["proofs"] = PROPS["C03"]["proofs"] + ["Bmc.Proofs.EndToEnd.WholeC03"]
PROPS["C03"]["claim"] += (" WHOLE (Proofs/EndToEnd/WholeC03.lean): generated_session_then_history_opens — the session newV2Session AS TRANSLATED returns against the specification's BMC, then ANY history on SendCommand AS TRANSLATED: "
                          "every datagram sent opens AT THAT BMC under the K1 / K2 it derived for itself (AuthCode verifies, flags set, its session ID, payload decrypts to the caller's command).")
PROPS["C17"]["proofs"] = PROPS["C17"]["proofs"] + ["Bmc.Proofs.EndToEnd.HistoryC17"]
PROPS["C17"]["claim"] += (" HISTORY FORM about the translated code (Proofs/EndToEnd/HistoryC17.lean): generated_history_ignores_what_the_connection_holds — two connection values that agree on the sequence counter and differ "
                          "ARBITRARILY in layer structs, decoded-layer list, buffer and metric events, the same history of commands run on each by SendCommand AS TRANSLATED (each call on the value the previous one left): "
                          "same datagrams and same return value, call for call (generatedResults_eq: the returns are the hand model's).")
PROPS["C13"]["proofs"] = PROPS["C13"]["proofs"] + ["Bmc.Proofs.EndToEnd.HistoryC13"]
PROPS["C13"]["claim"] += (" HISTORY FORM of the logical half, about the translated code (Proofs/EndToEnd/HistoryC13.lean): generated_history_call_within_its_context — the n-th call of any history on SendCommand AS TRANSLATED "
                          "adds at most as many datagrams as ITS OWN context allowed outcomes (nothing carried over from earlier calls); generated_history_within_contexts / _prefix_ — totals.")
for _p in ("C04", "C11"):
    PROPS[_p]["proofs"] = PROPS[_p]["proofs"] + ["Bmc.Proofs.EndToEnd.WholeC04"]
    PROPS[_p]["claim"] += (" WHOLE (Proofs/EndToEnd/WholeC04.lean): generated_session_then_history_results — with the session newV2Session AS TRANSLATED returns against the specification's BMC, over ANY history every returned "
                           "completion code is justified by a reply authenticated under the K1 THAT BMC derived for itself, addressed to the console's session ID, for that call's command.")
for _p in ("C10", "C17", "C09"):
    PROPS[_p]["proofs"] = PROPS[_p]["proofs"] + ["Bmc.Proofs.EndToEnd.SessionlessHistory"]
    PROPS[_p]["claim"] += (" SESSION-LESS HISTORY about the translated code (Proofs/EndToEnd/SessionlessHistory.lean): generated_sessionless_history — command after command on one session-less connection value threaded by "
                           "SendCommand AS TRANSLATED, each call sends and returns the documented contract OF THAT CALL ALONE (slExpected-many copies of that command's one serialisation), whatever the earlier calls were or left behind "
                           "and whatever value the connection started from (_ignores_connection); every datagram has null session ID and sequence number (_null).")
PROPS["C09"]["proofs"] = PROPS["C09"]["proofs"] + ["Bmc.Proofs.EndToEnd.WholeC09"]
PROPS["C09"]["claim"] += (" WHOLE (Proofs/EndToEnd/WholeC09.lean): generated_session_then_history_sequence_numbers — from the session newV2Session AS TRANSLATED returns against the specification's BMC, any history on SendCommand AS TRANSLATED "
                          "sends sequence numbers 1, 2, 3, … in order, all addressed to the session ID the BMC chose.")
PROPS["C09"]["proofs"] = PROPS["C09"]["proofs"] + ["Bmc.Proofs.EndToEnd.HistoryC09Fail"]
PROPS["C09"]["claim"] += (" WITH SERIALISATION FAILURES (Proofs/EndToEnd/HistoryC09Fail.lean): generated_history_sequence_numbers_any / generated_history_no_reuse_any — the same history theorems about SendCommand AS TRANSLATED "
                          "when some commands of the history fail to serialise: such a call consumes no sequence number, the datagrams around it are numbered consecutively.")
PROPS["C05"]["proofs"] = PROPS["C05"]["proofs"] + ["Bmc.Proofs.EndToEnd.HistoryC05"]
PROPS["C05"]["claim"] += (" HISTORY FORM about the translated code (Proofs/EndToEnd/HistoryC05.lean): generated_history_never_panics — over a whole history of commands run by SendCommand AS TRANSLATED on one session, with ANY bytes delivered "
                          "as replies at any point of any call, no call ends in RF.panic (the translation's rendering of a Go run-time panic): every call returns a completion code or an error.")
PROPS["C11"]["proofs"] = PROPS["C11"]["proofs"] + ["Bmc.Proofs.EndToEnd.SessionlessHistory"]
PROPS["C11"]["claim"] += (" SESSION-LESS HISTORY (Proofs/EndToEnd/SessionlessHistory.lean): generated_sessionless_history_results — on a session-less connection threaded through any history by SendCommand AS TRANSLATED, "
                          "every completion code returned with a nil error comes from a reply delivered during that call that decodes to a message for that call's command.")

# WHAT A FAILING INPUT OF THE PROPERTY LOOKS LIKE.  Scenarios are shared between properties and their executors attach the verdicts of all
# the properties they serve; `check` counts a verdict (or a model/implementation difference on a class-P operation) as an input on which
# THIS property fails only if it is about this property — anything else is a break of the correspondence (reported, "no-failing-input-found"
# unless an input of the right kind is found as well).  `relevant`: regex over "<first word of the implementation's outcome> <verdict>";
# `irrelevant`: per scenario, verdicts that belong to another property.
PROPS["C05"]["relevant"] = r"\b(panic|overread|hang)\b|did not return|had not returned|after its deadline|beyond the end|does not terminate"
PROPS["C09"]["relevant"] = r"sequence number|session ID|not zero outside a session|implementation differs|\b(panic|hang)\b"
_about_results = r"result is |datagrams transmitted"
_about_datagrams = r"datagram \d+ (is not|does not|reuses|carries|:)|datagrams \d+ and \d+|datagrams transmitted"
_about_the_walk = r"modified during the final walk|after a failed retrieval"
PROPS["C03"]["irrelevant"] = {"send": _about_results, "udp": _about_results}
PROPS["C06"]["irrelevant"] = {"send": _about_results + r"|sequence number|IV draw|initialisation vector"}
PROPS["C04"]["irrelevant"] = {"send": _about_datagrams, "udp": _about_datagrams}
PROPS["C11"]["irrelevant"] = {"send": _about_datagrams, "slsend": _about_datagrams, "udp": _about_datagrams}
PROPS["C07"]["irrelevant"] = {"sdr": _about_the_walk}
PROPS["C17"]["irrelevant"] = {"sdr": _about_the_walk}
PROPS["C06"]["proofs"] = PROPS["C06"]["proofs"] + ["Bmc.Proofs.EndToEnd.HistoryC06"]
PROPS["C06"]["claim"] += (" HISTORY FORM, in-session (Proofs/EndToEnd/HistoryC06.lean): generated_history_requests_parse — every datagram SendCommand AS TRANSLATED hands to the transport over any history of a session opens (wrapper, "
                          "decryption) to message bytes that the REFERENCE parser, written from the specification's tables, reads as: responder 20h, the command's NetFn and LUN, requester 81h, its number, its group-extension / OEM prefix, "
                          "and exactly the caller's request data.")
PROPS["C14"]["proofs"] = PROPS["C14"]["proofs"] + ["Bmc.Proofs.EndToEnd.AgainC14"]
PROPS["C14"]["claim"] += (" AGAIN (Proofs/EndToEnd/AgainC14.lean): generated_RetrieveSDRRepository_again — after a first RetrieveSDRRepository AS TRANSLATED that succeeded OR FAILED (reservations lost, repository modified under it, "
                          "attempts used up), a second one on the same session against the device as the first left it returns, when it returns, exactly the Full Sensor Records of the one state in which it ended.")
# the handshake scenario's verdicts about WHO may get a session (C02) are not about which suite is proposed (C12) or which keys a
# conforming exchange yields (C01)
_about_proof_of_password = r"a session was returned although the RAKP"
PROPS["C12"]["irrelevant"] = {"hs": _about_proof_of_password}
PROPS["C01"]["irrelevant"] = {"hs": _about_proof_of_password, "udp": _about_proof_of_password}
