package main

// The statement language of keygen and the translators of the individual shapes.
//
//   h.Write(e)                               ↦ let written := written ++ e          (h the hash.Hash parameter)
//   x := e, x = e, x |= e, x &= e            ↦ let x := …                            (locals; := only at the top level)
//   buf := [N]byte{}                         ↦ let buf : Bytes := List.replicate N 0
//   binary.LittleEndian.PutUint32(a[:], v)   ↦ let a := GoKeys.putUint32LE a v       (a a local [N]byte, N ≥ 4 checked)
//   copy(a[:], src)                          ↦ let a := GoKeys.copyArr N a src       (a a local [N]byte)
//   if c { assignments / writes } [else {…}] ↦ let (x, …) := if c then (…; (x, …)) else (…)  — a join on the names rebound
//   for i := 0; i < N; i++ { a[i] = e }      ↦ let a := List.foldl (fun a (i : Nat) => a.set i e) a (List.range N)
//                                              (N constant, N ≤ the static length of a: the index is always in range)
//   const c = …                              ↦ nothing (constants are evaluated by go/types)
// Everything else ⇒ the translator gives up on the function.

import (
	"fmt"
	"go/ast"
	"go/token"
	"go/types"
	"strings"
)

func (f *fn) stmts(list []ast.Stmt) {
	for _, s := range list {
		f.stmt(s)
	}
}

func (f *fn) defineVar(id *ast.Ident, v val, isArray bool) string {
	obj := f.g.info.Defs[id]
	if obj == nil {
		f.fail(id, "%s is not a new variable", id.Name)
	}
	name := leanVar(id.Name)
	for _, k := range f.keyFns {
		if k == name {
			f.fail(id, "variable name %s clashes with a generated parameter", name)
		}
	}
	for _, o := range f.vars {
		if o.lean == name {
			f.fail(id, "variable %s shadows another one", name)
		}
	}
	f.vars[obj] = &varInfo{lean: name, k: v.k, n: v.n, t: v.t, isArray: isArray}
	return name
}

func leanKind(k kind) string {
	switch k {
	case kU8:
		return "UInt8"
	case kU32:
		return "UInt32"
	case kBool:
		return "Bool"
	case kNat:
		return "Nat"
	case kInt:
		return "Int"
	case kBytes:
		return "Bytes"
	case kHash:
		return "HashVal"
	case kHashFn:
		return "HashFn"
	}
	return "?"
}

func (f *fn) stmt(s ast.Stmt) {
	switch x := s.(type) {
	case *ast.ExprStmt:
		c, ok := ast.Unparen(x.X).(*ast.CallExpr)
		if !ok {
			f.fail(s, "expression statement")
		}
		f.callStmt(c)
	case *ast.AssignStmt:
		f.assign(x)
	case *ast.IfStmt:
		f.ifStmt(x)
	case *ast.ForStmt:
		f.forStmt(x)
	case *ast.DeclStmt:
		gd, ok := x.Decl.(*ast.GenDecl)
		if !ok || gd.Tok != token.CONST {
			f.fail(s, "declaration other than const")
		}
	default:
		f.fail(s, "statement %T", s)
	}
}

// localArray: e is a[:] for a local byte array a
func (f *fn) localArray(e ast.Expr) *varInfo {
	se, ok := ast.Unparen(e).(*ast.SliceExpr)
	if !ok || se.Low != nil || se.High != nil || se.Max != nil {
		return nil
	}
	id := identOf(se.X)
	if id == nil {
		return nil
	}
	v, ok := f.vars[f.g.info.Uses[id]]
	if !ok || !v.isArray {
		return nil
	}
	return v
}

func (f *fn) callStmt(c *ast.CallExpr) {
	if c.Ellipsis.IsValid() {
		f.fail(c, "variadic call")
	}
	if id := identOf(c.Fun); id != nil {
		if b, ok := f.g.info.Uses[id].(*types.Builtin); ok && b.Name() == "copy" && len(c.Args) == 2 {
			a := f.localArray(c.Args[0])
			if a == nil {
				f.fail(c, "copy into something that is not a[:] for a local byte array a")
			}
			src := f.expr(c.Args[1])
			if src.k != kBytes {
				f.fail(c, "copy from something that is not a byte string")
			}
			f.emit("let %s := GoKeys.copyArr %d %s %s", a.lean, a.n, a.lean, paren(src.s))
			f.bind(a.lean)
			return
		}
	}
	sel, ok := ast.Unparen(c.Fun).(*ast.SelectorExpr)
	if !ok {
		f.fail(c, "call statement")
	}
	// h.Write(e)
	if id := identOf(sel.X); id != nil && f.hashObj != nil && f.g.info.Uses[id] == f.hashObj {
		if sel.Sel.Name != "Write" || len(c.Args) != 1 {
			f.fail(c, "h.%s(…) in the middle of the function", sel.Sel.Name)
		}
		v := f.expr(c.Args[0])
		if v.k != kBytes {
			f.fail(c, "Write of something that is not a byte string")
		}
		f.hashUses[id] = true
		f.emit("let written := written ++ %s", v.s)
		f.bind("written")
		return
	}
	if fo, ok := f.g.info.Uses[sel.Sel].(*types.Func); ok && fo.FullName() == "(encoding/binary.littleEndian).PutUint32" && len(c.Args) == 2 {
		a := f.localArray(c.Args[0])
		if a == nil || a.n < 4 {
			f.fail(c, "PutUint32 into something that is not a[:] for a local byte array of at least 4 bytes")
		}
		v := f.expr(c.Args[1])
		if v.k != kU32 {
			f.fail(c, "PutUint32 of something that is not a uint32")
		}
		f.emit("let %s := GoKeys.putUint32LE %s %s", a.lean, a.lean, paren(v.s))
		f.bind(a.lean)
		return
	}
	f.fail(c, "call statement")
}

func (f *fn) assign(x *ast.AssignStmt) {
	if len(x.Lhs) != 1 || len(x.Rhs) != 1 {
		f.fail(x, "multiple assignment")
	}
	id := identOf(x.Lhs[0])
	if id == nil {
		f.fail(x, "assignment to something that is not a local variable")
	}
	switch x.Tok {
	case token.DEFINE:
		if f.inBranch {
			f.fail(x, "declaration inside a branch")
		}
		if id.Name == "_" {
			f.fail(x, "blank assignment")
		}
		// an array literal declares an array variable
		if cl, ok := ast.Unparen(x.Rhs[0]).(*ast.CompositeLit); ok {
			if _, isArr := f.g.info.Types[cl].Type.Underlying().(*types.Array); isArr {
				v := f.compositeLit(cl)
				name := f.defineVar(id, v, true)
				f.emit("let %s : Bytes := %s", name, v.s)
				f.bind(name)
				return
			}
		}
		v := f.expr(x.Rhs[0])
		if v.k == kStruct {
			f.fail(x, "local structure")
		}
		name := f.defineVar(id, v, false)
		f.emit("let %s : %s := %s", name, leanKind(v.k), v.s)
		f.bind(name)
	case token.ASSIGN, token.OR_ASSIGN, token.AND_ASSIGN:
		lv, ok := f.vars[f.g.info.Uses[id]]
		if !ok || lv.isArray || lv.k == kStruct {
			f.fail(x, "assignment to %s", id.Name)
		}
		if _, isParam := f.g.info.Uses[id].(*types.Var); !isParam {
			f.fail(x, "assignment to %s", id.Name)
		}
		v := f.expr(x.Rhs[0])
		if v.k != lv.k {
			f.fail(x, "assignment changes the type of %s", id.Name)
		}
		switch x.Tok {
		case token.ASSIGN:
			f.emit("let %s := %s", lv.lean, v.s)
			lv.n = v.n
		default:
			if lv.k != kU8 && lv.k != kU32 {
				f.fail(x, "%s on a non-integer", x.Tok)
			}
			op := "|||"
			if x.Tok == token.AND_ASSIGN {
				op = "&&&"
			}
			f.emit("let %s := (%s %s %s)", lv.lean, lv.lean, op, v.s)
		}
		f.bind(lv.lean)
	default:
		f.fail(x, "assignment operator %s", x.Tok)
	}
}

// branch: the statements of one arm of an if, as lets on one line, and the names they rebind
func (f *fn) branch(list []ast.Stmt) (string, []string) {
	sub := &fn{g: f.g, vars: f.vars, hashObj: f.hashObj, hashUses: f.hashUses, keyFns: f.keyFns, recvT: f.recvT, recvObj: f.recvObj,
		recvFlat: f.recvFlat, flat: f.flat, inBranch: true}
	sub.stmts(list)
	return strings.Join(sub.lines, "; "), sub.assigned
}

func tuple(names []string) string {
	if len(names) == 1 {
		return names[0]
	}
	return "(" + strings.Join(names, ", ") + ")"
}

func (f *fn) ifStmt(x *ast.IfStmt) {
	if x.Init != nil {
		f.fail(x, "if with an init statement")
	}
	c := f.expr(x.Cond)
	if c.k != kBool {
		f.fail(x, "condition is not a boolean")
	}
	// static lengths may differ between the arms: forget them for byte strings rebound (arrays keep theirs)
	thenS, thenA := f.branch(x.Body.List)
	var elseS string
	var elseA []string
	if x.Else != nil {
		blk, ok := x.Else.(*ast.BlockStmt)
		if !ok {
			f.fail(x, "else if")
		}
		elseS, elseA = f.branch(blk.List)
	}
	names := append([]string{}, thenA...)
	for _, n := range elseA {
		dup := false
		for _, m := range names {
			dup = dup || m == n
		}
		if !dup {
			names = append(names, n)
		}
	}
	if len(names) == 0 {
		return
	}
	for _, v := range f.vars {
		for _, n := range names {
			if v.lean == n && !v.isArray {
				v.n = -1
			}
		}
	}
	arm := func(s string) string {
		if s == "" {
			return tuple(names)
		}
		return "(" + s + "; " + tuple(names) + ")"
	}
	f.emit("let %s := if %s then %s else %s", tuple(names), c.s, arm(thenS), arm(elseS))
	for _, n := range names {
		f.bind(n)
	}
}

func (f *fn) forStmt(x *ast.ForStmt) {
	if f.inBranch {
		f.fail(x, "loop inside a branch")
	}
	// for i := 0; i < N; i++
	init, ok := x.Init.(*ast.AssignStmt)
	if !ok || init.Tok != token.DEFINE || len(init.Lhs) != 1 || len(init.Rhs) != 1 {
		f.fail(x, "loop that is not for i := 0; i < N; i++")
	}
	iv := identOf(init.Lhs[0])
	if z, ok := f.constInt(init.Rhs[0]); iv == nil || !ok || z != 0 {
		f.fail(x, "loop that is not for i := 0; i < N; i++")
	}
	iobj := f.g.info.Defs[iv]
	cond, ok := ast.Unparen(x.Cond).(*ast.BinaryExpr)
	if !ok || cond.Op != token.LSS || identOf(cond.X) == nil || f.g.info.Uses[identOf(cond.X)] != iobj {
		f.fail(x, "loop that is not for i := 0; i < N; i++")
	}
	n, ok := f.constInt(cond.Y)
	if !ok || n < 0 {
		f.fail(x, "loop bound is not a constant")
	}
	post, ok := x.Post.(*ast.IncDecStmt)
	if !ok || post.Tok != token.INC || identOf(post.X) == nil || f.g.info.Uses[identOf(post.X)] != iobj {
		f.fail(x, "loop that is not for i := 0; i < N; i++")
	}
	if len(x.Body.List) == 0 {
		return
	}
	// body: a[i] = e …, one byte string a of static length ≥ N
	var arr *varInfo
	iname := leanVar(iv.Name)
	var steps []string
	for _, s := range x.Body.List {
		as, ok := s.(*ast.AssignStmt)
		if !ok || as.Tok != token.ASSIGN || len(as.Lhs) != 1 || len(as.Rhs) != 1 {
			f.fail(s, "loop body statement that is not a[i] = e")
		}
		ie, ok := ast.Unparen(as.Lhs[0]).(*ast.IndexExpr)
		if !ok || identOf(ie.X) == nil || identOf(ie.Index) == nil || f.g.info.Uses[identOf(ie.Index)] != iobj {
			f.fail(s, "loop body statement that is not a[i] = e")
		}
		v, ok := f.vars[f.g.info.Uses[identOf(ie.X)]]
		if !ok || v.k != kBytes || v.n < 0 || int64(v.n) < n {
			f.fail(s, "a[i] = e where the length of a is not statically at least the loop bound")
		}
		if _, isLocal := f.g.info.Uses[identOf(ie.X)].(*types.Var); !isLocal {
			f.fail(s, "loop body statement that is not a[i] = e")
		}
		if arr != nil && arr != v {
			f.fail(s, "loop body assigns elements of two variables")
		}
		arr = v
		e := f.expr(as.Rhs[0]) // the loop variable is not in scope of the expression language: e cannot mention it
		if e.k != kU8 {
			f.fail(s, "a[i] = e where e is not a uint8")
		}
		steps = append(steps, fmt.Sprintf("%s.set %s %s", arr.lean, iname, paren(e.s)))
	}
	body := steps[0]
	if len(steps) > 1 {
		var b strings.Builder
		for _, st := range steps[:len(steps)-1] {
			fmt.Fprintf(&b, "let %s := %s; ", arr.lean, st)
		}
		body = "(" + b.String() + steps[len(steps)-1] + ")"
	}
	f.emit("let %s := List.foldl (fun %s (%s : Nat) => %s) %s (List.range %d)", arr.lean, arr.lean, iname, body, arr.lean, n)
	f.bind(arr.lean)
}

// ---- parameters ---------------------------------------------------------------------------------------------------------

type param struct {
	id  *ast.Ident
	obj types.Object
	typ types.Type
}

func (g *gen) paramsOf(fd *ast.FuncDecl) []param {
	var ps []param
	for _, fl := range fd.Type.Params.List {
		if len(fl.Names) == 0 {
			panic(giveUp{g.pos(fl) + ": unnamed parameter"})
		}
		for _, id := range fl.Names {
			obj := g.info.Defs[id]
			ps = append(ps, param{id, obj, obj.Type()})
		}
	}
	return ps
}

func moduleStruct(t types.Type) (*types.Named, bool) {
	n, ok := types.Unalias(t).(*types.Named)
	if !ok || n.Obj().Pkg() == nil || !strings.HasPrefix(n.Obj().Pkg().Path(), modPath) {
		return nil, false
	}
	_, ok = n.Underlying().(*types.Struct)
	return n, ok
}

// bindParam: make a Go parameter a Lean parameter; returns its declaration ("" for the collected hash)
func (f *fn) bindParam(p param, allowHash bool) string {
	name := leanVar(p.id.Name)
	if p.id.Name == "_" {
		f.fail(p.id, "blank parameter")
	}
	t := p.typ
	if isHashHash(t) {
		if !allowHash || f.hashObj != nil {
			f.fail(p.id, "a hash.Hash parameter here")
		}
		f.hashObj = p.obj
		return ""
	}
	if ptr, ok := t.Underlying().(*types.Pointer); ok {
		if st, ok := moduleStruct(ptr.Elem()); ok {
			f.g.useField(st, "")
			f.vars[p.obj] = &varInfo{lean: name, k: kStruct, t: st}
			return fmt.Sprintf("(%s : %s)", name, leanTypeName(st))
		}
	}
	if s, ok := t.Underlying().(*types.Slice); ok {
		if b, ok := types.Unalias(s.Elem()).(*types.Basic); ok && b.Kind() == types.Uint8 {
			f.vars[p.obj] = &varInfo{lean: name, k: kBytes, n: -1}
			return fmt.Sprintf("(%s : Bytes)", name)
		}
	}
	if b, ok := t.Underlying().(*types.Basic); ok {
		switch b.Kind() {
		case types.Int:
			f.vars[p.obj] = &varInfo{lean: name, k: kInt}
			return fmt.Sprintf("(%s : Int)", name)
		case types.Uint8:
			f.vars[p.obj] = &varInfo{lean: name, k: kU8}
			return fmt.Sprintf("(%s : UInt8)", name)
		}
	}
	if it, ok := t.Underlying().(*types.Interface); ok {
		if n, ok := types.Unalias(t).(*types.Named); ok && n.Obj().Pkg() != nil && n.Obj().Pkg().Path() == modPath && it.NumMethods() == 1 {
			m := it.Method(0)
			sig := m.Type().(*types.Signature)
			if m.Name() == "K" && sig.Params().Len() == 1 && sig.Results().Len() == 1 {
				pb, ok1 := sig.Params().At(0).Type().Underlying().(*types.Basic)
				rs, ok2 := sig.Results().At(0).Type().Underlying().(*types.Slice)
				if ok1 && ok2 && pb.Kind() == types.Int && isByte(rs.Elem()) {
					kn := name + "_K"
					f.keyFns[p.obj] = kn
					return fmt.Sprintf("(%s : Int → Bytes)", kn)
				}
			}
		}
	}
	f.fail(p.id, "parameter of type %s", t)
	return ""
}

// bindRecv: the receiver of a method of a module struct (value or pointer receiver)
func (f *fn) bindRecv(fd *ast.FuncDecl, flat bool) string {
	if fd.Recv == nil || len(fd.Recv.List) != 1 || len(fd.Recv.List[0].Names) != 1 {
		f.fail(fd, "method without a named receiver")
	}
	id := fd.Recv.List[0].Names[0]
	obj := f.g.info.Defs[id]
	t := obj.Type()
	if ptr, ok := t.Underlying().(*types.Pointer); ok {
		t = ptr.Elem()
	}
	st, ok := moduleStruct(t)
	if !ok {
		f.fail(fd, "receiver of type %s", obj.Type())
	}
	name := leanVar(id.Name)
	f.recvT, f.recvObj, f.recvFlat = st, obj, flat
	f.vars[obj] = &varInfo{lean: name, k: kStruct, t: st}
	if flat {
		return ""
	}
	f.g.useField(st, "")
	return fmt.Sprintf("(%s : %s)", name, leanTypeName(st))
}

func isNilExpr(info *types.Info, e ast.Expr) bool {
	tv, ok := info.Types[e]
	return ok && tv.IsNil()
}

func (g *gen) file(fd *ast.FuncDecl) string { return shortFile(g.fset.Position(fd.Pos()).Filename) }

func joinParams(ps []string) string {
	var out []string
	for _, p := range ps {
		if p != "" {
			out = append(out, p)
		}
	}
	if len(out) == 0 {
		return ""
	}
	return " " + strings.Join(out, " ")
}

func indent(lines []string) string {
	var b strings.Builder
	for _, l := range lines {
		b.WriteString("  " + l + "\n")
	}
	return b.String()
}

// ---- functions of the shape …h.Write(x)…; sum := h.Sum(nil); h.Reset(); return sum -----------------------------------

func (g *gen) hashInputFunc(it item) string {
	fd := g.funcs[it.key]
	f := g.newFn()
	if fd.Recv != nil {
		f.fail(fd, "a method")
	}
	fobj := g.info.Defs[fd.Name].(*types.Func)
	sig := fobj.Type().(*types.Signature)
	if sig.Results().Len() != 1 {
		f.fail(fd, "does not return exactly one value")
	}
	if rs, ok := sig.Results().At(0).Type().Underlying().(*types.Slice); !ok || !isByte(rs.Elem()) {
		f.fail(fd, "does not return a []byte")
	}
	if fd.Type.Results.List[0].Names != nil {
		f.fail(fd, "named result")
	}
	var decls []string
	for i, p := range g.paramsOf(fd) {
		decls = append(decls, f.bindParam(p, i == 0))
	}
	if f.hashObj == nil {
		f.fail(fd, "the first parameter is not a hash.Hash")
	}
	body := fd.Body.List
	nilGuard := false
	if len(body) > 0 {
		if is, ok := body[0].(*ast.IfStmt); ok && f.nilGuard(is) {
			nilGuard = true
			body = body[1:]
		}
	}
	const shape = "the function does not end with `sum := h.Sum(nil); h.Reset(); return sum`"
	if len(body) < 3 {
		f.fail(fd, shape)
	}
	tail := body[len(body)-3:]
	as, ok := tail[0].(*ast.AssignStmt)
	if !ok || as.Tok != token.DEFINE || len(as.Lhs) != 1 || len(as.Rhs) != 1 || identOf(as.Lhs[0]) == nil {
		f.fail(tail[0], shape)
	}
	sumObj := g.info.Defs[identOf(as.Lhs[0])]
	if c, ok := ast.Unparen(as.Rhs[0]).(*ast.CallExpr); !ok || !f.hashCall(c, "Sum") || len(c.Args) != 1 || !isNilExpr(g.info, c.Args[0]) || sumObj == nil {
		f.fail(tail[0], shape)
	}
	es, ok := tail[1].(*ast.ExprStmt)
	if !ok {
		f.fail(tail[1], shape)
	}
	if c, ok := ast.Unparen(es.X).(*ast.CallExpr); !ok || !f.hashCall(c, "Reset") || len(c.Args) != 0 {
		f.fail(tail[1], shape)
	}
	rs, ok := tail[2].(*ast.ReturnStmt)
	if !ok || len(rs.Results) != 1 || identOf(rs.Results[0]) == nil || g.info.Uses[identOf(rs.Results[0])] != sumObj {
		f.fail(tail[2], shape)
	}
	f.emit("let written : Bytes := []")
	f.stmts(body[:len(body)-3])
	// nothing else touches h
	ast.Inspect(fd.Body, func(n ast.Node) bool {
		if id, ok := n.(*ast.Ident); ok && g.info.Uses[id] == f.hashObj && !f.hashUses[id] {
			f.fail(id, "another use of the hash %s", id.Name)
		}
		return true
	})
	name := fd.Name.Name + "_input"
	var b strings.Builder
	fmt.Fprintf(&b, "/-- translated from `%s` (%s): the bytes written into the hash, in order; the function returns `Sum(nil)` of them and\n    leaves the hash reset", fd.Name.Name, g.file(fd))
	if nilGuard {
		b.WriteString(".\n    A nil hash (`h == nil`) makes the function return nil without hashing anything: outside this definition")
	}
	b.WriteString(" -/\n")
	fmt.Fprintf(&b, "def %s%s : Bytes :=\n%s  written\n", name, joinParams(decls), indent(f.lines))
	g.inputFns[fobj] = name
	g.inputArity[fobj] = len(decls) - 1
	g.done[it.name] = name
	return b.String()
}

// hashCall: c is h.<method>(…) on the collected hash; records the use
func (f *fn) hashCall(c *ast.CallExpr, method string) bool {
	sel, ok := ast.Unparen(c.Fun).(*ast.SelectorExpr)
	if !ok || sel.Sel.Name != method {
		return false
	}
	id := identOf(sel.X)
	if id == nil || f.g.info.Uses[id] != f.hashObj {
		return false
	}
	f.hashUses[id] = true
	return true
}

// nilGuard: `if h == nil { return nil }`
func (f *fn) nilGuard(is *ast.IfStmt) bool {
	if is.Init != nil || is.Else != nil || len(is.Body.List) != 1 {
		return false
	}
	c, ok := ast.Unparen(is.Cond).(*ast.BinaryExpr)
	if !ok || c.Op != token.EQL || identOf(c.X) == nil || f.g.info.Uses[identOf(c.X)] != f.hashObj || !isNilExpr(f.g.info, c.Y) {
		return false
	}
	r, ok := is.Body.List[0].(*ast.ReturnStmt)
	if !ok || len(r.Results) != 1 || !isNilExpr(f.g.info, r.Results[0]) {
		return false
	}
	f.hashUses[identOf(c.X)] = true
	return true
}

// ---- additionalKeyMaterialGenerator.K ----------------------------------------------------------------------------------

func (g *gen) kMethod(it item) string {
	fd := g.funcs[it.key]
	f := g.newFn()
	f.bindRecv(fd, true)
	var decls []string
	for _, p := range g.paramsOf(fd) {
		decls = append(decls, f.bindParam(p, false))
	}
	body := fd.Body.List
	if len(body) == 0 {
		f.fail(fd, "empty body")
	}
	rs, ok := body[len(body)-1].(*ast.ReturnStmt)
	if !ok || len(rs.Results) != 1 {
		f.fail(fd, "does not end with return executeHash(g.hash, constant)")
	}
	c, ok := ast.Unparen(rs.Results[0]).(*ast.CallExpr)
	if !ok || identOf(c.Fun) == nil || len(c.Args) != 2 {
		f.fail(rs, "does not end with return executeHash(g.hash, constant)")
	}
	callee, _ := g.info.Uses[identOf(c.Fun)].(*types.Func)
	inputName, ok := g.inputFns[callee]
	if !ok || g.inputArity[callee] != 1 {
		f.fail(rs, "the function called is not a translated function of the Write…Sum(nil)/Reset shape with one byte-string argument")
	}
	// first argument: the hash held by the receiver
	sel, ok := ast.Unparen(c.Args[0]).(*ast.SelectorExpr)
	if !ok || identOf(sel.X) == nil || g.info.Uses[identOf(sel.X)] != f.recvObj {
		f.fail(rs, "the hash passed is not a field of the receiver")
	}
	if fl := structField(f.recvT, sel.Sel.Name); fl == nil || !isHashHash(fl.Type()) {
		f.fail(rs, "the hash passed is not a hash.Hash field of the receiver")
	}
	f.stmts(body[:len(body)-1])
	arg := f.expr(c.Args[1])
	if arg.k != kBytes {
		f.fail(rs, "the value hashed is not a byte string")
	}
	if len(f.flat) != 0 {
		f.fail(fd, "the method reads fields of its receiver")
	}
	var b strings.Builder
	fmt.Fprintf(&b, "/-- translated from `(%s).%s` (%s): the byte string it builds and hands to `%s(%s.%s, ·)` -/\n",
		f.recvT.Obj().Name(), fd.Name.Name, g.file(fd), callee.Name(), identOf(sel.X).Name, sel.Sel.Name)
	fmt.Fprintf(&b, "def K_constant%s : Bytes :=\n%s  %s\n\n", joinParams(decls), indent(f.lines), arg.s)
	var names []string
	for _, p := range g.paramsOf(fd) {
		names = append(names, leanVar(p.id.Name))
	}
	fmt.Fprintf(&b, "/-- what `(%s).%s` writes into the hash `%s.%s` (through `%s`); its result is `Sum(nil)` of that -/\n",
		f.recvT.Obj().Name(), fd.Name.Name, identOf(sel.X).Name, sel.Sel.Name, callee.Name())
	fmt.Fprintf(&b, "def K_input%s : Bytes := %s (K_constant %s)\n", joinParams(decls), inputName, strings.Join(names, " "))
	g.done[it.name] = "K_constant"
	return b.String()
}

// ---- truncatedHash ------------------------------------------------------------------------------------------------------

// flatParams: the receiver fields a flat method reads, as parameters, in declaration order
func (f *fn) flatParams(sumParam string) []string {
	var out []string
	st := f.recvT.Underlying().(*types.Struct)
	for i := 0; i < st.NumFields(); i++ {
		fl := st.Field(i)
		if isHashHash(fl.Type()) {
			if sumParam != "" {
				out = append(out, fmt.Sprintf("(%s : Bytes → Bytes)", sumParam))
			}
			continue
		}
		name, ok := f.flat[fl.Name()]
		if !ok {
			continue
		}
		b, isBasic := fl.Type().Underlying().(*types.Basic)
		if !isBasic || b.Kind() != types.Int {
			panic(giveUp{fmt.Sprintf("receiver field %s of type %s", fl.Name(), fl.Type())})
		}
		out = append(out, fmt.Sprintf("(%s : Int)", name))
	}
	return out
}

func (g *gen) truncatedSum(it item) string {
	fd := g.funcs[it.key]
	f := g.newFn()
	f.bindRecv(fd, true)
	var decls []string
	for _, p := range g.paramsOf(fd) {
		decls = append(decls, f.bindParam(p, false))
	}
	const shape = "the method is not `sum := t.Hash.Sum(b); return sum[:hi]`"
	if len(fd.Body.List) != 2 {
		f.fail(fd, shape)
	}
	as, ok := fd.Body.List[0].(*ast.AssignStmt)
	if !ok || as.Tok != token.DEFINE || len(as.Lhs) != 1 || len(as.Rhs) != 1 || identOf(as.Lhs[0]) == nil {
		f.fail(fd.Body.List[0], shape)
	}
	c, ok := ast.Unparen(as.Rhs[0]).(*ast.CallExpr)
	if !ok || len(c.Args) != 1 || c.Ellipsis.IsValid() {
		f.fail(as, shape)
	}
	outer, ok := ast.Unparen(c.Fun).(*ast.SelectorExpr)
	if !ok || outer.Sel.Name != "Sum" {
		f.fail(as, shape)
	}
	inner, ok := ast.Unparen(outer.X).(*ast.SelectorExpr)
	if !ok || identOf(inner.X) == nil || g.info.Uses[identOf(inner.X)] != f.recvObj {
		f.fail(as, shape)
	}
	hf := structField(f.recvT, inner.Sel.Name)
	if hf == nil || !isHashHash(hf.Type()) || g.info.Uses[inner.Sel] != hf {
		f.fail(as, "%s is not a hash.Hash field of the receiver", inner.Sel.Name)
	}
	sumParam := identOf(inner.X).Name + "_" + inner.Sel.Name + "_Sum"
	arg := f.expr(c.Args[0])
	if arg.k != kBytes {
		f.fail(as, shape)
	}
	sumName := f.defineVar(identOf(as.Lhs[0]), val{k: kBytes, n: -1}, false)
	sumObj := g.info.Defs[identOf(as.Lhs[0])]
	f.emit("let %s : Bytes := %s %s", sumName, sumParam, paren(arg.s))
	rs, ok := fd.Body.List[1].(*ast.ReturnStmt)
	if !ok || len(rs.Results) != 1 {
		f.fail(fd.Body.List[1], shape)
	}
	se, ok := ast.Unparen(rs.Results[0]).(*ast.SliceExpr)
	if !ok || se.Low != nil || se.High == nil || se.Max != nil || se.Slice3 || identOf(se.X) == nil || g.info.Uses[identOf(se.X)] != sumObj {
		f.fail(rs, shape)
	}
	hi := f.expr(se.High)
	if hi.k != kInt && hi.k != kNat {
		f.fail(rs, "slice bound is not an int")
	}
	var b strings.Builder
	fmt.Fprintf(&b, "/-- translated from `(%s).Sum` (%s). PARAMETER `%s`: the method `Sum` of the embedded `hash.Hash` (by the contract:\n", f.recvT.Obj().Name(), g.file(fd), sumParam)
	b.WriteString("    `fun b => b ++ MAC of what was written`). `sum[:hi]` ↦ `GoKeys.sliceTo`: `none` when `hi` is negative or beyond `len(sum)`\n")
	b.WriteString("    (beyond the capacity Go panics; between length and capacity the bytes are not the MAC's) -/\n")
	fmt.Fprintf(&b, "def truncatedHash_Sum%s%s : Option Bytes :=\n%s  GoKeys.sliceTo %s %s\n", joinParams(f.flatParams(sumParam)), joinParams(decls), indent(f.lines), sumName, paren(toInt(hi)))
	g.done[it.name] = "truncatedHash_Sum"
	return b.String()
}

func (g *gen) truncatedSize(it item) string {
	fd := g.funcs[it.key]
	f := g.newFn()
	f.bindRecv(fd, true)
	if len(g.paramsOf(fd)) != 0 || len(fd.Body.List) != 1 {
		f.fail(fd, "the method is not `return t.length`")
	}
	rs, ok := fd.Body.List[0].(*ast.ReturnStmt)
	if !ok || len(rs.Results) != 1 {
		f.fail(fd, "the method is not `return t.length`")
	}
	v := f.expr(rs.Results[0])
	if v.k != kInt {
		f.fail(rs, "the result is not an int")
	}
	var b strings.Builder
	fmt.Fprintf(&b, "/-- translated from `(%s).Size` (%s) -/\n", f.recvT.Obj().Name(), g.file(fd))
	fmt.Fprintf(&b, "def truncatedHash_Size%s : Int := %s\n", joinParams(f.flatParams("")), v.s)
	g.done[it.name] = "truncatedHash_Size"
	return b.String()
}

// ---- the constructors of authenticationAlgorithmParams ------------------------------------------------------------------

// retBlock: statements of the shape `if c { …return A }; …return B` as an expression of kind `want`
func (f *fn) retBlock(list []ast.Stmt, at ast.Node) val {
	if len(list) == 0 {
		f.fail(at, "control reaches the end without a return")
	}
	switch x := list[0].(type) {
	case *ast.ReturnStmt:
		if len(x.Results) != 1 {
			f.fail(x, "return of several values")
		}
		return f.expr(x.Results[0])
	case *ast.IfStmt:
		if x.Init != nil || x.Else != nil {
			f.fail(x, "if with init or else")
		}
		c := f.expr(x.Cond)
		if c.k != kBool {
			f.fail(x, "condition is not a boolean")
		}
		a := f.retBlock(x.Body.List, x)
		b := f.retBlock(list[1:], x)
		if a.k != b.k {
			f.fail(x, "the two arms return different kinds of value")
		}
		return val{s: fmt.Sprintf("if %s then %s else %s", c.s, a.s, b.s), k: a.k}
	}
	f.fail(list[0], "statement %T", list[0])
	return val{}
}

func (g *gen) ctorMethod(it item) string {
	fd := g.funcs[it.key]
	f := g.newFn()
	decls := []string{f.bindRecv(fd, false)}
	for _, p := range g.paramsOf(fd) {
		decls = append(decls, f.bindParam(p, false))
	}
	fobj := g.info.Defs[fd.Name].(*types.Func)
	sig := fobj.Type().(*types.Signature)
	if sig.Results().Len() != 1 || !isHashHash(sig.Results().At(0).Type()) {
		f.fail(fd, "does not return a hash.Hash")
	}
	v := f.retBlock(fd.Body.List, fd)
	if v.k != kHash {
		f.fail(fd, "the result is not a hash value the translator can describe")
	}
	name := f.recvT.Obj().Name() + "_" + fd.Name.Name
	var b strings.Builder
	fmt.Fprintf(&b, "/-- translated from `(*%s).%s` (%s) -/\n", f.recvT.Obj().Name(), fd.Name.Name, g.file(fd))
	fmt.Fprintf(&b, "def %s%s : HashVal :=\n  %s\n", name, joinParams(decls), v.s)
	g.done[it.name] = name
	return b.String()
}

// ---- the tables: func f(a T, …) (X, error) { switch a { case C: …return x, nil … default: return nil, err } } ----------

func (g *gen) switchFunc(it item) string {
	fd := g.funcs[it.key]
	f := g.newFn()
	if fd.Recv != nil {
		f.fail(fd, "a method")
	}
	ps := g.paramsOf(fd)
	var decls []string
	for _, p := range ps {
		decls = append(decls, f.bindParam(p, false))
	}
	if len(ps) == 0 || f.vars[ps[0].obj] == nil || f.vars[ps[0].obj].k != kU8 {
		f.fail(fd, "the first parameter is not a uint8")
	}
	fobj := g.info.Defs[fd.Name].(*types.Func)
	sig := fobj.Type().(*types.Signature)
	if sig.Results().Len() != 2 || !isNamed(sig.Results().At(1).Type(), "", "error") && sig.Results().At(1).Type().String() != "error" {
		f.fail(fd, "does not return (value, error)")
	}
	if len(fd.Body.List) != 1 {
		f.fail(fd, "the body is not a single switch")
	}
	sw, ok := fd.Body.List[0].(*ast.SwitchStmt)
	if !ok || sw.Init != nil || identOf(sw.Tag) == nil || g.info.Uses[identOf(sw.Tag)] != ps[0].obj {
		f.fail(fd, "the body is not a single switch on the first parameter")
	}
	tag := f.vars[ps[0].obj].lean
	type row struct {
		cond string
		res  string
	}
	var rows []row
	def := ""
	resKind := kind(-1)
	var resT *types.Named
	suffix := ""
	for _, st := range sw.Body.List {
		cc := st.(*ast.CaseClause)
		var conds []string
		for _, e := range cc.List {
			n, ok := f.constInt(e)
			if !ok || n < 0 || n > 255 {
				f.fail(e, "case expression is not a constant in 0..255")
			}
			conds = append(conds, fmt.Sprintf("%s == %d", tag, n))
		}
		if len(cc.Body) == 0 {
			f.fail(cc, "empty clause")
		}
		// the clause: statements, then a return
		sub := &fn{g: g, vars: map[types.Object]*varInfo{}, hashUses: f.hashUses, keyFns: f.keyFns, flat: f.flat}
		for o, v := range f.vars {
			sub.vars[o] = v
		}
		sub.stmts(cc.Body[:len(cc.Body)-1])
		rs, ok := cc.Body[len(cc.Body)-1].(*ast.ReturnStmt)
		if !ok {
			f.fail(cc, "clause does not end with a return")
		}
		res := ""
		switch len(rs.Results) {
		case 2:
			switch {
			case isNilExpr(g.info, rs.Results[0]) && g.isNewError(rs.Results[1]):
				res = "none"
			case isNilExpr(g.info, rs.Results[1]):
				v := sub.expr(rs.Results[0])
				if v.k != kHash && v.k != kStruct {
					f.fail(rs, "the value returned is not one the translator can describe")
				}
				if resKind >= 0 && (resKind != v.k || resT != v.t) {
					f.fail(rs, "clauses return different kinds of value")
				}
				resKind, resT = v.k, v.t
				res = v.s
			default:
				f.fail(rs, "return that is neither (value, nil) nor (nil, a new error)")
			}
		case 1:
			// return pkg.F(x): the results of a constructor of the module handed back as they are; translated: its argument
			c, ok := ast.Unparen(rs.Results[0]).(*ast.CallExpr)
			if !ok || len(c.Args) != 1 {
				f.fail(rs, "return of one expression that is not a call with one argument")
			}
			sel, ok := ast.Unparen(c.Fun).(*ast.SelectorExpr)
			if !ok {
				f.fail(rs, "return of one expression that is not a call of a package function")
			}
			callee, _ := g.info.Uses[sel.Sel].(*types.Func)
			if callee == nil || callee.Pkg() == nil || !strings.HasPrefix(callee.Pkg().Path(), modPath) || callee.Type().(*types.Signature).Recv() != nil {
				f.fail(rs, "return of a call that is not a package function of the module")
			}
			csig := callee.Type().(*types.Signature)
			if csig.Params().Len() != 1 || csig.Results().Len() != 2 {
				f.fail(rs, "the constructor called does not have one parameter and two results")
			}
			if a, ok := csig.Params().At(0).Type().Underlying().(*types.Array); !ok || !isByte(a.Elem()) {
				f.fail(rs, "the constructor's parameter is not a byte array")
			}
			id := identOf(c.Args[0])
			var av *varInfo
			if id != nil {
				av = sub.vars[g.info.Uses[id]]
			}
			if av == nil || !av.isArray {
				f.fail(rs, "the constructor's argument is not a local byte array")
			}
			sfx := "_" + csig.Params().At(0).Name()
			if resKind >= 0 && (resKind != kBytes || suffix != sfx) {
				f.fail(rs, "clauses return different kinds of value")
			}
			resKind, suffix = kBytes, sfx
			f.emitDocCallee = callee.Pkg().Name() + "." + callee.Name()
			res = av.lean
		default:
			f.fail(rs, "return of %d values", len(rs.Results))
		}
		if res != "none" {
			if len(sub.lines) > 0 {
				res = "some (" + strings.Join(sub.lines, "; ") + "; " + res + ")"
			} else {
				res = "some " + paren(res)
			}
		} else if len(sub.lines) > 0 {
			f.fail(cc, "statements before an error return")
		}
		if cc.List == nil {
			def = res
		} else {
			rows = append(rows, row{strings.Join(conds, " || "), res})
		}
	}
	if def == "" {
		f.fail(sw, "switch without a default clause")
	}
	if resKind < 0 {
		f.fail(sw, "no clause returns a value")
	}
	lt := "HashVal"
	switch resKind {
	case kStruct:
		lt = leanTypeName(resT)
	case kBytes:
		lt = "Bytes"
	}
	var b strings.Builder
	fmt.Fprintf(&b, "/-- translated from `%s` (%s): `none` = an error is returned", fd.Name.Name, g.file(fd))
	if resKind == kBytes {
		fmt.Fprintf(&b, "; `some x` = the results of `%s(x)` are returned as they are", f.emitDocCallee)
	}
	for _, k := range sortedValues(f.keyFns) {
		fmt.Fprintf(&b, ".\n    PARAMETER `%s`: the method `K` of the interface value", k)
	}
	b.WriteString(" -/\n")
	fmt.Fprintf(&b, "def %s%s%s : Option %s :=\n", fd.Name.Name, suffix, joinParams(decls), lt)
	for i, r := range rows {
		kw := "  if"
		if i > 0 {
			kw = "  else if"
		}
		fmt.Fprintf(&b, "%s %s then %s\n", kw, r.cond, r.res)
	}
	if len(rows) == 0 {
		fmt.Fprintf(&b, "  %s\n", def)
	} else {
		fmt.Fprintf(&b, "  else %s\n", def)
	}
	g.done[it.name] = fd.Name.Name + suffix
	return b.String()
}

func sortedValues(m map[types.Object]string) []string {
	var out []string
	for _, v := range m {
		out = append(out, v)
	}
	// insertion sort: tiny
	for i := 1; i < len(out); i++ {
		for j := i; j > 0 && out[j] < out[j-1]; j-- {
			out[j], out[j-1] = out[j-1], out[j]
		}
	}
	return out
}

// isNewError: fmt.Errorf(…) / errors.New(…): a non-nil error
func (g *gen) isNewError(e ast.Expr) bool {
	c, ok := ast.Unparen(e).(*ast.CallExpr)
	if !ok {
		return false
	}
	sel, ok := ast.Unparen(c.Fun).(*ast.SelectorExpr)
	if !ok {
		return false
	}
	fo, _ := g.info.Uses[sel.Sel].(*types.Func)
	if fo == nil || fo.Pkg() == nil {
		return false
	}
	return fo.FullName() == "fmt.Errorf" || fo.FullName() == "errors.New"
}

// ---- the callers: every hash handed to a function of the Write…Sum(nil)/Reset shape arrives reset -------------------------

// callers checks, over every non-test function of package bmc, that the hash passed to a translated function of the
// Write…Sum(nil)/Reset shape is either (a) a local variable bound exactly once, by `x := recv.M(key)` with M a translated
// constructor (a fresh hmac.New / truncatedHash around one), whose only other uses are as the hash argument of such
// functions (each of which leaves it reset), or (b) a hash.Hash field of the receiver that, in the whole package, is only
// ever set in a keyed literal from such a constructor call and only ever used as the hash argument of such functions.
// It emits the pairing function ← constructor(key expression), sorted.
func (g *gen) callers(it item) string {
	type site struct{ text string }
	var sites []string
	fail := func(n ast.Node, format string, a ...any) {
		panic(giveUp{fmt.Sprintf("%s: %s", g.pos(n), fmt.Sprintf(format, a...))})
	}
	// ctorCall: e is recv.M(key) with M a translated constructor method; returns "M(key text)"
	ctorCall := func(e ast.Expr) (string, bool) {
		c, ok := ast.Unparen(e).(*ast.CallExpr)
		if !ok || len(c.Args) != 1 {
			return "", false
		}
		sel, ok := ast.Unparen(c.Fun).(*ast.SelectorExpr)
		if !ok {
			return "", false
		}
		fo, _ := g.info.Uses[sel.Sel].(*types.Func)
		if fo == nil {
			return "", false
		}
		sig := fo.Type().(*types.Signature)
		if sig.Recv() == nil {
			return "", false
		}
		rt := sig.Recv().Type()
		if p, ok := rt.Underlying().(*types.Pointer); ok {
			rt = p.Elem()
		}
		st, ok := moduleStruct(rt)
		if !ok {
			return "", false
		}
		if _, ok := g.done["bmc."+st.Obj().Name()+"."+fo.Name()]; !ok || !isHashHash(sig.Results().At(0).Type()) {
			return "", false
		}
		return fo.Name() + "(" + types.ExprString(c.Args[0]) + ")", true
	}
	var keys []string
	for k := range g.funcs {
		keys = append(keys, k)
	}
	sortStrings(keys)
	fieldSites := map[*types.Var][]string{} // hash field of a receiver -> the functions it is handed to
	var fieldOrder []*types.Var
	okFieldUse := map[*ast.Ident]bool{}
	for _, k := range keys {
		fd := g.funcs[k]
		okUse := map[*ast.Ident]bool{}
		locals := map[types.Object]string{} // hash variable -> constructor text
		ast.Inspect(fd.Body, func(n ast.Node) bool {
			c, ok := n.(*ast.CallExpr)
			if !ok || identOf(c.Fun) == nil {
				return true
			}
			callee, _ := g.info.Uses[identOf(c.Fun)].(*types.Func)
			if _, ok := g.inputFns[callee]; !ok || len(c.Args) == 0 {
				return true
			}
			switch a := ast.Unparen(c.Args[0]).(type) {
			case *ast.Ident:
				obj, _ := g.info.Uses[a].(*types.Var)
				if obj == nil || obj.Parent() == nil || obj.IsField() {
					fail(c, "the hash passed to %s is not a local variable", callee.Name())
				}
				okUse[a] = true
				locals[obj] = ""
				sites = append(sites, callee.Name()+" ← \x00"+fmt.Sprint(obj.Pos()))
			case *ast.SelectorExpr:
				fl, _ := g.info.Uses[a.Sel].(*types.Var)
				if fl == nil || !fl.IsField() || !isHashHash(fl.Type()) || identOf(a.X) == nil || fd.Recv == nil ||
					g.info.Uses[identOf(a.X)] != g.info.Defs[fd.Recv.List[0].Names[0]] {
					fail(c, "the hash passed to %s is not a hash.Hash field of the receiver", callee.Name())
				}
				okFieldUse[a.Sel] = true
				if _, seen := fieldSites[fl]; !seen {
					fieldOrder = append(fieldOrder, fl)
				}
				fieldSites[fl] = append(fieldSites[fl], callee.Name())
			default:
				fail(c, "the hash passed to %s is neither a local variable nor a field of the receiver", callee.Name())
			}
			return true
		})
		if len(locals) == 0 {
			continue
		}
		// each such local: bound once by := from a constructor call, never assigned again, no other use
		ast.Inspect(fd.Body, func(n ast.Node) bool {
			switch x := n.(type) {
			case *ast.AssignStmt:
				for i, l := range x.Lhs {
					id := identOf(l)
					if id == nil {
						continue
					}
					if obj := g.info.Defs[id]; obj != nil {
						if _, ok := locals[obj]; ok {
							if len(x.Lhs) != len(x.Rhs) {
								fail(x, "the hash %s is bound by a multiple-value assignment", id.Name)
							}
							text, ok := ctorCall(x.Rhs[i])
							if !ok {
								fail(x, "the hash %s is not bound to the result of a translated constructor", id.Name)
							}
							locals[obj] = text
						}
					} else if obj := g.info.Uses[id]; obj != nil {
						if _, ok := locals[obj]; ok {
							fail(x, "the hash %s is assigned again", id.Name)
						}
					}
				}
			case *ast.Ident:
				if obj := g.info.Uses[x]; obj != nil {
					if _, ok := locals[obj]; ok && !okUse[x] {
						fail(x, "the hash %s is used other than as the hash argument of a translated function", x.Name)
					}
				}
			}
			return true
		})
		for obj, text := range locals {
			if text == "" {
				fail(fd, "the hash %s is not bound by := in %s", obj.Name(), fd.Name.Name)
			}
			for i, s := range sites {
				sites[i] = strings.Replace(s, "\x00"+fmt.Sprint(obj.Pos()), text, 1)
			}
		}
	}
	// hash fields of receivers: set only in keyed literals from a constructor call; no other use anywhere in the package
	for _, fl := range fieldOrder {
		var ctor []string
		for _, k := range keys {
			fd := g.funcs[k]
			ast.Inspect(fd.Body, func(n ast.Node) bool {
				switch x := n.(type) {
				case *ast.CompositeLit:
					st, ok := moduleStruct(g.info.Types[x].Type)
					if !ok || structField(st, fl.Name()) != fl {
						return true
					}
					found := false
					for _, el := range x.Elts {
						kv, ok := el.(*ast.KeyValueExpr)
						if !ok {
							fail(x, "positional literal of %s", st.Obj().Name())
						}
						if id := identOf(kv.Key); id != nil && g.info.Uses[id] == fl {
							text, ok := ctorCall(kv.Value)
							if !ok {
								fail(kv, "the field %s is not set to the result of a translated constructor", fl.Name())
							}
							ctor = append(ctor, text)
							okFieldUse[id] = true
							found = true
						}
					}
					if !found {
						fail(x, "literal of %s leaves the hash field %s nil", st.Obj().Name(), fl.Name())
					}
				case *ast.Ident:
					if g.info.Uses[x] == fl && !okFieldUse[x] {
						// keys of literals are visited after the literal itself, so they are already marked
						fail(x, "the hash field %s is used other than as the hash argument of a translated function", fl.Name())
					}
				}
				return true
			})
		}
		owner := ""
		for _, k := range keys {
			if fd := g.funcs[k]; fd.Recv != nil {
				rt := g.info.Defs[fd.Recv.List[0].Names[0]].Type()
				if p, ok := rt.Underlying().(*types.Pointer); ok {
					rt = p.Elem()
				}
				if st, ok := moduleStruct(rt); ok && structField(st, fl.Name()) == fl {
					owner = st.Obj().Name()
				}
			}
		}
		sortStrings(ctor)
		ctor = uniq(ctor)
		if len(ctor) == 0 {
			fail(g.funcs[it.key], "no literal sets the hash field %s", fl.Name())
		}
		fns := uniq(sorted(fieldSites[fl]))
		for _, fn := range fns {
			sites = append(sites, fmt.Sprintf("%s ← %s.%s ← %s", fn, owner, fl.Name(), strings.Join(ctor, " / ")))
		}
	}
	for _, s := range sites {
		if strings.Contains(s, "\x00") {
			panic(giveUp{"internal: unresolved call site"})
		}
	}
	sortStrings(sites)
	sites = uniq(sites)
	var b strings.Builder
	b.WriteString("/-- CHECKED ON THE SOURCE (every non-test function of package bmc): the hash handed to a function of the\n")
	b.WriteString("    Write…Sum(nil)/Reset shape is (a) a local variable bound once, by `:=`, to the result of a translated constructor\n")
	b.WriteString("    (a fresh `hmac.New`, or a `truncatedHash` around one) and used for nothing but such calls, or (b) a `hash.Hash` field of\n")
	b.WriteString("    the receiver that is only ever set, in a keyed literal, to such a result and used for nothing but such calls - so it\n")
	b.WriteString("    arrives in the reset state. The pairing `function ← constructor(key expression)`, sorted: -/\n")
	b.WriteString("def hashOf : List String := [\n")
	for i, s := range sites {
		sep := ","
		if i == len(sites)-1 {
			sep = ""
		}
		fmt.Fprintf(&b, "  %q%s\n", s, sep)
	}
	b.WriteString("]\n")
	g.done[it.name] = "hashOf"
	return b.String()
}

func sortStrings(s []string) {
	for i := 1; i < len(s); i++ {
		for j := i; j > 0 && s[j] < s[j-1]; j-- {
			s[j], s[j-1] = s[j-1], s[j]
		}
	}
}

func sorted(s []string) []string {
	out := append([]string{}, s...)
	sortStrings(out)
	return out
}

func uniq(s []string) []string {
	var out []string
	for i, x := range s {
		if i == 0 || x != s[i-1] {
			out = append(out, x)
		}
	}
	return out
}

// ---- the RAKPMessage1 that newV2Session hands to the key formulas ----------------------------------------------------------

// rakp1Literal: in the function it.key there is exactly one composite literal of a struct type S that the translated
// functions read through a pointer parameter (ipmi.RAKPMessage1), bound by `x := &S{…}` to a variable that is never
// assigned again and that every call of a translated function in that function receives as its S argument. Every field
// value must be a LEAF: a local variable or a selector chain on one (`opts.Username`). The literal becomes a function of
// its leaves (fields the translated code does not read are left out).
func (g *gen) rakp1Literal(it item) string {
	fd := g.funcs[it.key]
	f := g.newFn()
	var lit *ast.CompositeLit
	var litT *types.Named
	var bound types.Object
	ast.Inspect(fd.Body, func(n ast.Node) bool {
		as, ok := n.(*ast.AssignStmt)
		if !ok || len(as.Lhs) != 1 || len(as.Rhs) != 1 {
			return true
		}
		u, ok := ast.Unparen(as.Rhs[0]).(*ast.UnaryExpr)
		if !ok || u.Op != token.AND {
			return true
		}
		cl, ok := ast.Unparen(u.X).(*ast.CompositeLit)
		if !ok {
			return true
		}
		st, ok := moduleStruct(g.info.Types[cl].Type)
		if !ok || st.Obj().Name() != "RAKPMessage1" {
			return true
		}
		if lit != nil {
			f.fail(as, "a second RAKPMessage1 literal")
		}
		if as.Tok != token.DEFINE || identOf(as.Lhs[0]) == nil || g.info.Defs[identOf(as.Lhs[0])] == nil {
			f.fail(as, "the RAKPMessage1 literal is not bound by := to a new variable")
		}
		lit, litT, bound = cl, st, g.info.Defs[identOf(as.Lhs[0])]
		return true
	})
	if lit == nil {
		f.fail(fd, "no `x := &ipmi.RAKPMessage1{…}` in the function")
	}
	if !g.structUseHas(litT) {
		f.fail(lit, "the translated functions do not read a %s", litT.Obj().Name())
	}
	// never assigned again; every translated function called here receives it
	ncalls := 0
	ast.Inspect(fd.Body, func(n ast.Node) bool {
		switch x := n.(type) {
		case *ast.AssignStmt:
			for _, l := range x.Lhs {
				if id := identOf(l); id != nil && g.info.Uses[id] == bound {
					f.fail(x, "%s is assigned again", id.Name)
				}
				// a write through the pointer
				if sel, ok := ast.Unparen(l).(*ast.SelectorExpr); ok && identOf(sel.X) != nil && g.info.Uses[identOf(sel.X)] == bound {
					f.fail(x, "a field of %s is assigned", identOf(sel.X).Name)
				}
			}
		case *ast.CallExpr:
			if identOf(x.Fun) == nil {
				return true
			}
			callee, _ := g.info.Uses[identOf(x.Fun)].(*types.Func)
			if _, ok := g.inputFns[callee]; !ok {
				return true
			}
			sig := callee.Type().(*types.Signature)
			for i := 0; i < sig.Params().Len(); i++ {
				if p, ok := sig.Params().At(i).Type().Underlying().(*types.Pointer); ok {
					if st, ok := moduleStruct(p.Elem()); ok && st == litT {
						if id := identOf(x.Args[i]); id == nil || g.info.Uses[id] != bound {
							f.fail(x, "%s receives another %s", callee.Name(), litT.Obj().Name())
						}
						ncalls++
					}
				}
			}
		}
		return true
	})
	if ncalls == 0 {
		f.fail(fd, "no translated function receives the literal")
	}
	given := map[string]ast.Expr{}
	for _, el := range lit.Elts {
		kv, ok := el.(*ast.KeyValueExpr)
		if !ok {
			f.fail(el, "positional struct literal")
		}
		given[kv.Key.(*ast.Ident).Name] = kv.Value
	}
	st := litT.Underlying().(*types.Struct)
	var decls, parts []string
	seenLeaf := map[string]bool{}
	for i := 0; i < st.NumFields(); i++ {
		fl := st.Field(i)
		if !g.structUse[litT][fl.Name()] {
			continue
		}
		lt, zero, ok := fieldType(fl.Type())
		if !ok {
			f.fail(lit, "field %s of type %s", fl.Name(), fl.Type())
		}
		ex := given[fl.Name()]
		if ex == nil {
			parts = append(parts, fmt.Sprintf("%s := %s", leanField(fl.Name()), zero))
			continue
		}
		// a leaf: identifier or selector chain on an identifier of a local variable / parameter
		leaf := ast.Unparen(ex)
		root := leaf
		for {
			sel, ok := root.(*ast.SelectorExpr)
			if !ok {
				break
			}
			if _, isField := g.info.Uses[sel.Sel].(*types.Var); !isField {
				f.fail(ex, "value of field %s is not a variable or a field of one", fl.Name())
			}
			root = ast.Unparen(sel.X)
		}
		rid, ok := root.(*ast.Ident)
		if !ok {
			f.fail(ex, "value of field %s is not a variable or a field of one", fl.Name())
		}
		if v, ok := g.info.Uses[rid].(*types.Var); !ok || v.IsField() || v.Pkg() == nil || v.Parent() == v.Pkg().Scope() {
			f.fail(ex, "value of field %s does not start at a local variable", fl.Name())
		}
		if !types.Identical(g.info.Types[ex].Type, fl.Type()) {
			f.fail(ex, "value of field %s has another type", fl.Name())
		}
		name := strings.ReplaceAll(types.ExprString(leaf), ".", "_")
		if !seenLeaf[name] {
			seenLeaf[name] = true
			decls = append(decls, fmt.Sprintf("(%s : %s)", name, lt))
		}
		parts = append(parts, fmt.Sprintf("%s := %s", leanField(fl.Name()), name))
	}
	name := fd.Name.Name + "_" + g.info.Defs[identOfObj(fd, bound)].Name()
	var b strings.Builder
	fmt.Fprintf(&b, "/-- translated from `%s := &%s.%s{…}` in `%s` (%s): the value every translated function called there receives (the\n", bound.Name(), litT.Obj().Pkg().Name(), litT.Obj().Name(), fd.Name.Name, g.file(fd))
	b.WriteString("    variable is never assigned again, no field is assigned through it in that function), as a function of the LEAVES of the\n")
	b.WriteString("    literal (`opts_Username` = the Go expression `opts.Username`); fields the translated code does not read are left out.\n")
	b.WriteString("    Not checked: that the callees it is passed to in between do not write through the pointer -/\n")
	fmt.Fprintf(&b, "def %s%s : %s :=\n  { %s }\n", name, joinParams(decls), leanTypeName(litT), strings.Join(parts, ", "))
	g.done[it.name] = name
	return b.String()
}

func (g *gen) structUseHas(t *types.Named) bool {
	_, ok := g.structUse[t]
	return ok
}

// identOfObj: the defining identifier of obj inside fd
func identOfObj(fd *ast.FuncDecl, obj types.Object) *ast.Ident {
	var out *ast.Ident
	ast.Inspect(fd.Body, func(n ast.Node) bool {
		if id, ok := n.(*ast.Ident); ok && id.Pos() == obj.Pos() {
			out = id
		}
		return true
	})
	return out
}
