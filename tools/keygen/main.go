package main

// keygen: translate the RAKP key-derivation / authentication-code code of package bmc (authenticator.go, hasher.go,
// confidentiality.go) from the Go source (go/ast + go/types) into Lean 4 definitions (lean/Bmc/Gen/Keys.lean):
//
//   * the functions of the shape `func f(h hash.Hash, …) []byte { …h.Write(x)…; sum := h.Sum(nil); h.Reset(); return sum }`
//     (calculateSIK, calculateRAKPMessage2AuthCode, calculateRAKPMessage3AuthCode, calculateRAKPMessage4ICV, executeHash)
//     ↦ `f_input : … → Bytes`, THE BYTE STRING WRITTEN INTO THE HASH, in order;
//   * `additionalKeyMaterialGenerator.K(n)` ↦ `K_constant n` (the constant it builds) and `K_input n` (what it writes);
//   * `truncatedHash.Sum` / `.Size`, the four constructors of `authenticationAlgorithmParams`, and the tables
//     `algorithmAuthenticationHashGenerator`, `algorithmHasher`, `algorithmCipher` ↦ finite tables over a closed
//     description `HashVal` of the `hash.Hash` values the module builds;
//   * two facts about the callers: the `rakpMessage1 := &ipmi.RAKPMessage1{…}` literal of `newV2Session` as a function of
//     its leaves, and the pairing function ← constructor(key) of every hash handed to a translated function, after
//     checking that it arrives reset (`hashOf`).
//
// usage: keygen <repo-dir> > lean/Bmc/Gen/Keys.lean
//
// The statement language is described in DESIGN.md §2.2 (T2d) and in stmt.go / expr.go. The translator never guesses:
// a statement or expression outside its language makes it give up on the whole function, with the reason recorded in
// the output (`-- keygen: gave up on F: file:line: reason`, `def gaveUp`). Output is deterministic.

import (
	"fmt"
	"go/ast"
	"go/token"
	"go/types"
	"os"
	"sort"
	"strings"

	"golang.org/x/tools/go/packages"
)

type giveUp struct{ msg string }

const modPath = "github.com/gebn/bmc"

// gen is the global state of one run
type gen struct {
	pkg   *packages.Package
	info  *types.Info
	fset  *token.FileSet
	funcs map[string]*ast.FuncDecl // "f" or "T.m" (non-test files of package bmc)

	structUse  map[*types.Named]map[string]bool
	structSeen []*types.Named
	hashFns    map[string]bool   // constructors of HashFn
	done       map[string]string // Go name of a translated item -> its Lean name
	inputFns   map[*types.Func]string
	inputArity map[*types.Func]int
}

// item: one thing to translate; `needs` are items whose translation it refers to
type item struct {
	name  string // "bmc.calculateSIK", "bmc.truncatedHash.Sum", …
	key   string // key into gen.funcs
	run   func(g *gen, it item) string
	needs []string
}

var items = []item{
	{name: "bmc.executeHash", key: "executeHash", run: (*gen).hashInputFunc},
	{name: "bmc.calculateSIK", key: "calculateSIK", run: (*gen).hashInputFunc},
	{name: "bmc.calculateRAKPMessage2AuthCode", key: "calculateRAKPMessage2AuthCode", run: (*gen).hashInputFunc},
	{name: "bmc.calculateRAKPMessage3AuthCode", key: "calculateRAKPMessage3AuthCode", run: (*gen).hashInputFunc},
	{name: "bmc.calculateRAKPMessage4ICV", key: "calculateRAKPMessage4ICV", run: (*gen).hashInputFunc},
	{name: "bmc.additionalKeyMaterialGenerator.K", key: "additionalKeyMaterialGenerator.K", run: (*gen).kMethod, needs: []string{"bmc.executeHash"}},
	{name: "bmc.truncatedHash.Sum", key: "truncatedHash.Sum", run: (*gen).truncatedSum},
	{name: "bmc.truncatedHash.Size", key: "truncatedHash.Size", run: (*gen).truncatedSize},
	{name: "bmc.authenticationAlgorithmParams.AuthCode", key: "authenticationAlgorithmParams.AuthCode", run: (*gen).ctorMethod},
	{name: "bmc.authenticationAlgorithmParams.SIK", key: "authenticationAlgorithmParams.SIK", run: (*gen).ctorMethod},
	{name: "bmc.authenticationAlgorithmParams.K", key: "authenticationAlgorithmParams.K", run: (*gen).ctorMethod},
	{name: "bmc.authenticationAlgorithmParams.ICV", key: "authenticationAlgorithmParams.ICV", run: (*gen).ctorMethod, needs: []string{"bmc.authenticationAlgorithmParams.K"}},
	{name: "bmc.algorithmAuthenticationHashGenerator", key: "algorithmAuthenticationHashGenerator", run: (*gen).switchFunc},
	{name: "bmc.algorithmHasher", key: "algorithmHasher", run: (*gen).switchFunc},
	{name: "bmc.algorithmCipher", key: "algorithmCipher", run: (*gen).switchFunc},
	{name: "bmc.newV2Session: rakpMessage1", key: "V2SessionlessTransport.newV2Session", run: (*gen).rakp1Literal,
		needs: []string{"bmc.calculateSIK", "bmc.calculateRAKPMessage2AuthCode", "bmc.calculateRAKPMessage3AuthCode", "bmc.calculateRAKPMessage4ICV"}},
	{name: "bmc: callers pass a reset hash", key: "V2SessionlessTransport.newV2Session", run: (*gen).callers,
		needs: []string{"bmc.executeHash", "bmc.calculateSIK", "bmc.calculateRAKPMessage2AuthCode", "bmc.calculateRAKPMessage3AuthCode", "bmc.calculateRAKPMessage4ICV",
			"bmc.authenticationAlgorithmParams.AuthCode", "bmc.authenticationAlgorithmParams.SIK", "bmc.authenticationAlgorithmParams.K", "bmc.authenticationAlgorithmParams.ICV"}},
}

func main() {
	dir := "/repo"
	if len(os.Args) > 1 {
		dir = os.Args[1]
	}
	cfg := &packages.Config{Mode: packages.LoadAllSyntax, Dir: dir, Env: append(os.Environ(), "GOFLAGS=-mod=mod", "GOPROXY=off")}
	pkgs, err := packages.Load(cfg, ".")
	if err != nil || packages.PrintErrors(pkgs) > 0 || len(pkgs) != 1 || pkgs[0].PkgPath != modPath {
		fmt.Fprintln(os.Stderr, "keygen: cannot load package", modPath, err)
		os.Exit(2)
	}
	p := pkgs[0]
	g := &gen{pkg: p, info: p.TypesInfo, fset: p.Fset, funcs: map[string]*ast.FuncDecl{}}
	for _, f := range p.Syntax {
		if strings.HasSuffix(p.Fset.Position(f.Pos()).Filename, "_test.go") {
			continue
		}
		for _, d := range f.Decls {
			fd, ok := d.(*ast.FuncDecl)
			if !ok || fd.Body == nil {
				continue
			}
			key := fd.Name.Name
			if fd.Recv != nil && len(fd.Recv.List) == 1 {
				if len(fd.Recv.List[0].Names) != 1 {
					continue // a method that cannot mention its receiver
				}
				t := fd.Recv.List[0].Type
				if st, ok := t.(*ast.StarExpr); ok {
					t = st.X
				}
				if id, ok := t.(*ast.Ident); ok {
					key = id.Name + "." + key
				}
			}
			g.funcs[key] = fd
		}
	}

	// round 1: which items are inside the language (an item that needs one that gave up gives up too)
	reasons := map[string]string{}
	g.reset()
	for _, it := range items {
		_, reason := g.translate(it)
		if reason != "" {
			reasons[it.name] = reason
		}
	}
	// round 2: only the translatable ones contribute structures, constructors and definitions
	g.reset()
	var bodies, translated, gaveUpList, comments []string
	for _, it := range items {
		if r := reasons[it.name]; r != "" {
			gaveUpList = append(gaveUpList, it.name)
			comments = append(comments, fmt.Sprintf("-- keygen: gave up on %s: %s", it.name, r))
			continue
		}
		text, reason := g.translate(it)
		if reason != "" {
			fmt.Fprintln(os.Stderr, "keygen: internal: second round failed for", it.name, reason)
			os.Exit(2)
		}
		bodies = append(bodies, text)
		translated = append(translated, it.name)
	}

	var out strings.Builder
	out.WriteString(header)
	for _, c := range comments {
		out.WriteString(c + "\n")
	}
	out.WriteString("\n")
	out.WriteString(g.hashDecls())
	out.WriteString(g.structDecls())
	for _, b := range bodies {
		out.WriteString(b)
		out.WriteString("\n")
	}
	out.WriteString("def translated : List String := [" + quoteJoin(translated) + "]\n")
	out.WriteString("def gaveUp : List String := [" + quoteJoin(gaveUpList) + "]\n")
	out.WriteString("\nend Bmc.Gen.Keys\n")
	fmt.Print(out.String())
}

const header = `-- GENERATED by keygen from the Go sources (authenticator.go, hasher.go, confidentiality.go); do not edit.
--
-- TRUSTED CONTRACT (the interfaces hash.Hash / io.Writer of the standard library; not translated, not checked):
--   * h.Write(p) appends the bytes p holds AT THE TIME OF THE CALL to the message of h, never fails, does not modify
--     and does not retain p (so a buffer written twice with different contents contributes both contents);
--   * h.Sum(nil) is the MAC / digest of everything written since h was created or last Reset, and does not change
--     that state; h.Sum(b) is b followed by it; h.Reset() empties the message;
--   * hmac.New(f, key) is a hash.Hash in the reset state computing HMAC_f under key.
-- For a function of the shape  …h.Write(x)…; sum := h.Sum(nil); h.Reset(); return sum  the translator checks that
-- these are the ONLY uses of h, that the function ends with exactly that Sum(nil) / Reset / return of the sum, and emits
-- F_input = the bytes written, in order. Its result is then the MAC of F_input PROVIDED h arrives in the reset state
-- (as built by hmac.New, or left by a previous function of this shape) - an assumption about the callers.
-- Pointer parameters are taken to be non-nil and are only read. Go strings are their bytes; len of one is its byte
-- count; uint8(len(s)) is that count modulo 256. A [N]byte field is a list of N bytes (guaranteed by the Go type, not
-- recorded in the Lean structure). Go int is translated into ℤ (no wrap-around at 2^63).
-- HashVal describes the hash.Hash values the module builds: hmac.New over a named hash constructor (HashFn), or a
-- truncatedHash around one; what Sum(nil) of such a value returns is defined by hand (Lemmas/GenKeys.lean: HashVal.mac)
-- from the contract above and the translated truncatedHash_Sum.
import Bmc.Basic.GoKeys
namespace Bmc.Gen.Keys
open Bmc

`

func (g *gen) reset() {
	g.structUse = map[*types.Named]map[string]bool{}
	g.structSeen = nil
	g.hashFns = map[string]bool{}
	g.done = map[string]string{}
	g.inputFns = map[*types.Func]string{}
	g.inputArity = map[*types.Func]int{}
}

func (g *gen) translate(it item) (text string, reason string) {
	defer func() {
		if r := recover(); r != nil {
			if gu, ok := r.(giveUp); ok {
				text, reason = "", gu.msg
				return
			}
			panic(r)
		}
	}()
	if _, ok := g.funcs[it.key]; !ok {
		panic(giveUp{"function not found in package bmc"})
	}
	for _, n := range it.needs {
		if _, ok := g.done[n]; !ok {
			panic(giveUp{"needs " + n + ", which was not translated"})
		}
	}
	text = it.run(g, it)
	return text, ""
}

func quoteJoin(l []string) string {
	q := make([]string, len(l))
	for i, s := range l {
		q[i] = fmt.Sprintf("%q", s)
	}
	return strings.Join(q, ", ")
}

func shortFile(p string) string {
	if i := strings.Index(p, "/pkg/"); i >= 0 {
		return p[i+1:]
	}
	return p[strings.LastIndex(p, "/")+1:]
}

func (g *gen) pos(n ast.Node) string {
	p := g.fset.Position(n.Pos())
	return fmt.Sprintf("%s:%d", shortFile(p.Filename), p.Line)
}

// ---- structures and the closed description of hash values ------------------------------------------------------------

func (g *gen) useField(t *types.Named, field string) {
	m := g.structUse[t]
	if m == nil {
		m = map[string]bool{}
		g.structUse[t] = m
		g.structSeen = append(g.structSeen, t)
	}
	if field != "" {
		m[field] = true
	}
}

func leanTypeName(t *types.Named) string {
	n := t.Obj().Name()
	return strings.ToUpper(n[:1]) + n[1:]
}

var leanReserved = map[string]bool{"type": true, "end": true, "instance": true, "from": true, "at": true, "in": true, "then": true,
	"else": true, "do": true, "open": true, "private": true, "local": true, "prefix": true, "structure": true, "class": true,
	"where": true, "with": true, "if": true, "match": true, "fun": true, "let": true, "have": true, "show": true, "by": true,
	"of": true, "deriving": true, "mutual": true, "import": true, "export": true, "namespace": true, "section": true,
	"variable": true, "universe": true, "theorem": true, "def": true, "example": true, "inductive": true, "abbrev": true,
	"macro": true, "syntax": true, "notation": true, "infix": true, "attribute": true, "return": true, "for": true, "mut": true,
	"written": true, "some": true, "none": true}

// leanField: Go field name -> Lean field name (leading run of capitals lowered: ID -> id, OEMData -> oemData)
func leanField(goName string) string {
	rs := []rune(goName)
	n := 0
	for n < len(rs) && rs[n] >= 'A' && rs[n] <= 'Z' {
		n++
	}
	k := n
	if n > 1 && n < len(rs) && rs[n] >= 'a' && rs[n] <= 'z' {
		k = n - 1
	}
	if n == 0 {
		k = 0
	}
	s := strings.ToLower(string(rs[:k])) + string(rs[k:])
	if leanReserved[s] {
		s += "_"
	}
	return s
}

func leanVar(goName string) string {
	if leanReserved[goName] {
		return goName + "_"
	}
	return goName
}

func isByte(t types.Type) bool {
	b, ok := t.Underlying().(*types.Basic)
	return ok && b.Kind() == types.Uint8
}

func isNamed(t types.Type, pkgPath, name string) bool {
	n, ok := types.Unalias(t).(*types.Named)
	return ok && n.Obj().Pkg() != nil && n.Obj().Pkg().Path() == pkgPath && n.Obj().Name() == name
}

func isHashHash(t types.Type) bool { return isNamed(t, "hash", "Hash") }

// isHashCtorType: func() hash.Hash
func isHashCtorType(t types.Type) bool {
	sig, ok := t.Underlying().(*types.Signature)
	return ok && sig.Recv() == nil && sig.Params().Len() == 0 && sig.Results().Len() == 1 && isHashHash(sig.Results().At(0).Type()) && !sig.Variadic()
}

// fieldType: Lean type and default value of a struct field of Go type t
func fieldType(t types.Type) (string, string, bool) {
	if isHashCtorType(t) {
		return "HashFn", "", true
	}
	switch u := t.Underlying().(type) {
	case *types.Basic:
		switch u.Kind() {
		case types.Uint8:
			return "UInt8", "0", true
		case types.Uint32:
			return "UInt32", "0", true
		case types.Bool:
			return "Bool", "false", true
		case types.Int:
			return "Int", "0", true
		case types.String:
			return "Bytes", "[]", true
		}
	case *types.Array:
		if isByte(u.Elem()) {
			return "Bytes", fmt.Sprintf("List.replicate %d 0", u.Len()), true
		}
	}
	return "", "", false
}

func (g *gen) structDecls() string {
	seen := append([]*types.Named{}, g.structSeen...)
	sort.SliceStable(seen, func(i, j int) bool {
		a, b := seen[i].Obj(), seen[j].Obj()
		if a.Pkg().Path() != b.Pkg().Path() {
			return a.Pkg().Path() > b.Pkg().Path() // pkg/ipmi before the root package
		}
		return a.Name() < b.Name()
	})
	var b strings.Builder
	for _, t := range seen {
		st := t.Underlying().(*types.Struct)
		fmt.Fprintf(&b, "/-- the fields of `%s.%s` the translated code reads -/\nstructure %s where\n", t.Obj().Pkg().Name(), t.Obj().Name(), leanTypeName(t))
		n := 0
		for i := 0; i < st.NumFields(); i++ {
			fl := st.Field(i)
			if !g.structUse[t][fl.Name()] {
				continue
			}
			lt, zero, ok := fieldType(fl.Type())
			if !ok {
				panic(fmt.Sprintf("internal: field %s.%s has no Lean type", t.Obj().Name(), fl.Name()))
			}
			if zero == "" {
				fmt.Fprintf(&b, "  %s : %s\n", leanField(fl.Name()), lt)
			} else {
				fmt.Fprintf(&b, "  %s : %s := %s\n", leanField(fl.Name()), lt, zero)
			}
			n++
		}
		if n == 0 {
			b.WriteString("  mk ::\n")
		}
		b.WriteString("  deriving Repr, DecidableEq\n\n")
	}
	return b.String()
}

func (g *gen) hashDecls() string {
	var names []string
	for n := range g.hashFns {
		names = append(names, n)
	}
	sort.Strings(names)
	var b strings.Builder
	b.WriteString("/-- the functions of type `func() hash.Hash` the translated code mentions (`sha1_New` = `crypto/sha1.New`) -/\ninductive HashFn where\n")
	for _, n := range names {
		fmt.Fprintf(&b, "  | %s\n", n)
	}
	if len(names) == 0 {
		b.WriteString("  | none_mentioned\n")
	}
	b.WriteString("  deriving Repr, DecidableEq\n\n")
	b.WriteString("/-- the `hash.Hash` values the translated code builds -/\ninductive HashVal where\n")
	b.WriteString("  | hmac (f : HashFn) (key : Bytes)                -- `hmac.New(f, key)`\n")
	b.WriteString("  | truncated (inner : HashVal) (length : Int)     -- `truncatedHash{Hash: inner, length: length}` (or a pointer to one)\n")
	b.WriteString("  deriving Repr, DecidableEq\n\n")
	return b.String()
}
