package main

// The expression language of keygen.
//
//   constants (evaluated by go/types)            ↦ numerals of the type go/types assigned
//   a local / parameter                          ↦ the Lean variable of the same name
//   p.F        (p a struct parameter / receiver) ↦ p.f       (uint8 / uint32 / bool / int / string fields)
//   p.F[:]     (F a [N]byte field), a[:] (a a local [N]byte) ↦ the list of its N bytes
//   []byte{e…}, [N]byte{}                        ↦ [e…], List.replicate N 0
//   []byte(s)  (s a string)                      ↦ s (Go strings are their bytes)
//   len(x)                                       ↦ x.length (ℕ)
//   uint8(e)                                     ↦ e / UInt8.ofNat (e % 256) / the residue modulo 256 of an int
//   make([]byte, N)  (N constant)                ↦ List.replicate N 0
//   | & on uint8 / uint32; + on int; == != ! && || ↦ the same operations
//   hmac.New(f, key), truncatedHash{Hash: h, length: n}, &truncatedHash{…} ↦ HashVal.hmac / HashVal.truncated
//   f = pkg.New of type func() hash.Hash, or a struct field of that type ↦ a constructor of HashFn / the field
//   g.K(n)     (g of an interface type of the module with a method K(int) []byte) ↦ the PARAMETER g_K applied to n
//   g.M(x)     (M a translated method of the receiver's type) ↦ its definition
//   authenticationAlgorithmParams{…}, &…{…}     ↦ a structure value (every func-typed field must be given)

import (
	"fmt"
	"go/ast"
	"go/constant"
	"go/token"
	"go/types"
	"sort"
	"strings"
)

type kind int

const (
	kU8 kind = iota
	kU32
	kBool
	kNat // a Go int known to be ≥ 0 by construction (a length)
	kInt
	kBytes  // n = static length or -1
	kHash   // a hash.Hash built by the translated constructors (Lean HashVal)
	kHashFn // a func() hash.Hash (Lean HashFn)
	kStruct
)

type val struct {
	s string
	k kind
	n int
	t *types.Named // kStruct
}

type varInfo struct {
	lean    string
	k       kind
	n       int
	t       *types.Named
	isArray bool // a local [N]byte: usable only as a[:]
}

// fn: the state of the translation of one Go function
type fn struct {
	g             *gen
	vars          map[types.Object]*varInfo
	hashObj       types.Object        // the hash.Hash parameter whose writes are collected
	hashUses      map[*ast.Ident]bool // its accepted uses
	keyFns        map[types.Object]string
	keyFnSig      []string // parameters `(g_K : Int → Bytes)` in order of declaration
	recvT         *types.Named
	recvObj       types.Object
	recvFlat      bool // receiver fields become separate parameters (truncatedHash)
	flat          map[string]string
	lines         []string
	assigned      []string // Lean variables (re)bound by the statements translated so far, in order of first binding
	inBranch      bool
	emitDocCallee string // switchFunc: the constructor whose argument is the translation
}

func (g *gen) newFn() *fn {
	return &fn{g: g, vars: map[types.Object]*varInfo{}, hashUses: map[*ast.Ident]bool{}, keyFns: map[types.Object]string{}, flat: map[string]string{}}
}

func (f *fn) fail(n ast.Node, format string, a ...any) {
	panic(giveUp{fmt.Sprintf("%s: %s", f.g.pos(n), fmt.Sprintf(format, a...))})
}

func (f *fn) emit(format string, a ...any) { f.lines = append(f.lines, fmt.Sprintf(format, a...)) }

func (f *fn) bind(name string) {
	for _, a := range f.assigned {
		if a == name {
			return
		}
	}
	f.assigned = append(f.assigned, name)
}

func paren(s string) string {
	if strings.ContainsAny(s, " ") && !(strings.HasPrefix(s, "(") && strings.HasSuffix(s, ")") && balanced(s[1:len(s)-1])) &&
		!(strings.HasPrefix(s, "[") && strings.HasSuffix(s, "]")) {
		return "(" + s + ")"
	}
	return s
}

func balanced(s string) bool {
	d := 0
	for _, c := range s {
		switch c {
		case '(':
			d++
		case ')':
			d--
			if d < 0 {
				return false
			}
		}
	}
	return d == 0
}

func (f *fn) constant(e ast.Expr, tv types.TypeAndValue) val {
	b, ok := tv.Type.Underlying().(*types.Basic)
	if !ok {
		f.fail(e, "constant of type %s", tv.Type)
	}
	switch {
	case b.Info()&types.IsBoolean != 0:
		return val{s: fmt.Sprintf("%v", constant.BoolVal(tv.Value)), k: kBool}
	case b.Info()&types.IsInteger != 0:
		v, exact := constant.Int64Val(constant.ToInt(tv.Value))
		if !exact {
			f.fail(e, "constant out of range")
		}
		switch b.Kind() {
		case types.Uint8:
			return val{s: fmt.Sprintf("(%d : UInt8)", v), k: kU8}
		case types.Uint32:
			return val{s: fmt.Sprintf("(%d : UInt32)", v), k: kU32}
		case types.Int, types.UntypedInt:
			return val{s: fmt.Sprintf("(%d : Int)", v), k: kInt, n: int(v)}
		}
	}
	f.fail(e, "constant of type %s", tv.Type)
	return val{}
}

// constInt: e is an integer constant; its value
func (f *fn) constInt(e ast.Expr) (int64, bool) {
	tv := f.g.info.Types[e]
	if tv.Value == nil || tv.Value.Kind() != constant.Int {
		return 0, false
	}
	return constant.Int64Val(tv.Value)
}

func toInt(v val) string {
	if v.k == kNat {
		return "(Int.ofNat " + paren(v.s) + ")"
	}
	return v.s
}

// structBase: e denotes a struct variable (pointer-to-struct parameter, receiver); its Lean name and type
func (f *fn) structBase(e ast.Expr) (string, *types.Named, bool) {
	id, ok := ast.Unparen(e).(*ast.Ident)
	if !ok {
		return "", nil, false
	}
	v, ok := f.vars[f.g.info.Uses[id]]
	if !ok || v.k != kStruct {
		return "", nil, false
	}
	return v.lean, v.t, true
}

// field: the Go field `name` of struct type t reached through x.name (embedded fields are not followed)
func structField(t *types.Named, name string) *types.Var {
	st := t.Underlying().(*types.Struct)
	for i := 0; i < st.NumFields(); i++ {
		if st.Field(i).Name() == name {
			return st.Field(i)
		}
	}
	return nil
}

// fieldRef: p.F as a Lean term (records the use of the field)
func (f *fn) fieldRef(sel *ast.SelectorExpr) (string, *types.Var, bool) {
	base, t, ok := f.structBase(sel.X)
	if !ok {
		return "", nil, false
	}
	fl := structField(t, sel.Sel.Name)
	if fl == nil || f.g.info.Uses[sel.Sel] != fl {
		f.fail(sel, "%s is not a direct field of %s", sel.Sel.Name, t.Obj().Name())
	}
	if f.recvFlat && t == f.recvT {
		name := base + "_" + sel.Sel.Name
		f.flat[sel.Sel.Name] = name
		return name, fl, true
	}
	if _, _, ok := fieldType(fl.Type()); !ok {
		f.fail(sel, "field %s.%s of type %s", t.Obj().Name(), fl.Name(), fl.Type())
	}
	f.g.useField(t, fl.Name())
	return base + "." + leanField(fl.Name()), fl, true
}

func (f *fn) expr(e ast.Expr) val {
	e = ast.Unparen(e)
	if tv, ok := f.g.info.Types[e]; ok && tv.Value != nil {
		return f.constant(e, tv)
	}
	switch x := e.(type) {
	case *ast.Ident:
		obj := f.g.info.Uses[x]
		if obj == f.hashObj && obj != nil {
			f.fail(e, "the hash %s is used as a value", x.Name)
		}
		if v, ok := f.vars[obj]; ok {
			if v.isArray {
				f.fail(e, "array %s used as a value (only %s[:] is in the language)", x.Name, x.Name)
			}
			if v.k == kStruct {
				f.fail(e, "struct %s used as a value", x.Name)
			}
			return val{s: v.lean, k: v.k, n: v.n, t: v.t}
		}
		f.fail(e, "identifier %s", x.Name)
	case *ast.SelectorExpr:
		if fo, ok := f.g.info.Uses[x.Sel].(*types.Func); ok && fo.Pkg() != nil && !strings.HasPrefix(fo.Pkg().Path(), modPath) && isHashCtorType(fo.Type()) {
			if _, isPkg := f.g.info.Uses[identOf(x.X)].(*types.PkgName); isPkg {
				name := fo.Pkg().Name() + "_" + fo.Name()
				f.g.hashFns[name] = true
				return val{s: "HashFn." + name, k: kHashFn}
			}
		}
		if s, fl, ok := f.fieldRef(x); ok {
			if isHashCtorType(fl.Type()) {
				return val{s: s, k: kHashFn}
			}
			switch u := fl.Type().Underlying().(type) {
			case *types.Basic:
				switch u.Kind() {
				case types.Uint8:
					return val{s: s, k: kU8}
				case types.Uint32:
					return val{s: s, k: kU32}
				case types.Bool:
					return val{s: s, k: kBool}
				case types.Int:
					return val{s: s, k: kInt}
				case types.String:
					return val{s: s, k: kBytes, n: -1}
				}
			case *types.Array:
				f.fail(e, "array field %s used as a value (only %s[:] is in the language)", fl.Name(), fl.Name())
			}
			f.fail(e, "field of type %s", fl.Type())
		}
		f.fail(e, "selector expression")
	case *ast.SliceExpr:
		if x.Low != nil || x.High != nil || x.Max != nil {
			f.fail(e, "slice expression with bounds")
		}
		return f.wholeArray(x.X)
	case *ast.UnaryExpr:
		switch x.Op {
		case token.NOT:
			v := f.expr(x.X)
			if v.k != kBool {
				f.fail(e, "! of a non-boolean")
			}
			return val{s: "(!" + paren(v.s) + ")", k: kBool}
		case token.AND:
			if cl, ok := ast.Unparen(x.X).(*ast.CompositeLit); ok {
				v := f.compositeLit(cl)
				if v.k == kHash || v.k == kStruct {
					// a pointer to a fresh value that the translated code only reads: the value
					return v
				}
			}
		}
		f.fail(e, "unary %s", x.Op)
	case *ast.BinaryExpr:
		return f.binary(x)
	case *ast.CompositeLit:
		return f.compositeLit(x)
	case *ast.CallExpr:
		return f.call(x)
	}
	f.fail(e, "expression %T", e)
	return val{}
}

func identOf(e ast.Expr) *ast.Ident {
	id, _ := ast.Unparen(e).(*ast.Ident)
	return id
}

// wholeArray: a[:] for a local [N]byte a or a [N]byte field p.F
func (f *fn) wholeArray(e ast.Expr) val {
	e = ast.Unparen(e)
	switch x := e.(type) {
	case *ast.Ident:
		if v, ok := f.vars[f.g.info.Uses[x]]; ok && v.isArray {
			return val{s: v.lean, k: kBytes, n: v.n}
		}
	case *ast.SelectorExpr:
		if s, fl, ok := f.fieldRef(x); ok {
			if a, ok := fl.Type().Underlying().(*types.Array); ok && isByte(a.Elem()) {
				return val{s: s, k: kBytes, n: int(a.Len())}
			}
		}
	}
	f.fail(e, "x[:] where x is not a byte array")
	return val{}
}

func (f *fn) binary(x *ast.BinaryExpr) val {
	a, b := f.expr(x.X), f.expr(x.Y)
	num := func(k kind) bool { return k == kNat || k == kInt }
	switch x.Op {
	case token.OR, token.AND:
		if a.k == b.k && (a.k == kU8 || a.k == kU32) {
			op := "|||"
			if x.Op == token.AND {
				op = "&&&"
			}
			return val{s: fmt.Sprintf("(%s %s %s)", a.s, op, b.s), k: a.k}
		}
	case token.ADD:
		if a.k == kNat && b.k == kNat {
			return val{s: fmt.Sprintf("(%s + %s)", a.s, b.s), k: kNat}
		}
		if num(a.k) && num(b.k) {
			return val{s: fmt.Sprintf("(%s + %s)", toInt(a), toInt(b)), k: kInt}
		}
	case token.EQL, token.NEQ:
		op := "=="
		if x.Op == token.NEQ {
			op = "!="
		}
		if num(a.k) && num(b.k) {
			return val{s: fmt.Sprintf("(%s %s %s)", toInt(a), op, toInt(b)), k: kBool}
		}
		if a.k == b.k && (a.k == kU8 || a.k == kU32 || a.k == kBool) {
			return val{s: fmt.Sprintf("(%s %s %s)", a.s, op, b.s), k: kBool}
		}
	case token.LAND, token.LOR:
		if a.k == kBool && b.k == kBool {
			op := "&&"
			if x.Op == token.LOR {
				op = "||"
			}
			return val{s: fmt.Sprintf("(%s %s %s)", a.s, op, b.s), k: kBool}
		}
	}
	f.fail(x, "binary %s on these operands", x.Op)
	return val{}
}

func (f *fn) compositeLit(x *ast.CompositeLit) val {
	t := f.g.info.Types[x].Type
	switch u := t.Underlying().(type) {
	case *types.Slice:
		if b, ok := types.Unalias(u.Elem()).(*types.Basic); ok && b.Kind() == types.Uint8 {
			var els []string
			for _, el := range x.Elts {
				if _, kv := el.(*ast.KeyValueExpr); kv {
					f.fail(el, "keyed element in a []byte literal")
				}
				v := f.expr(el)
				if v.k != kU8 {
					f.fail(el, "element of a []byte literal is not a uint8")
				}
				els = append(els, v.s)
			}
			return val{s: "[" + strings.Join(els, ", ") + "]", k: kBytes, n: len(els)}
		}
	case *types.Array:
		if isByte(u.Elem()) && len(x.Elts) == 0 {
			return val{s: fmt.Sprintf("(List.replicate %d (0 : UInt8))", u.Len()), k: kBytes, n: int(u.Len())}
		}
	case *types.Struct:
		named, ok := types.Unalias(t).(*types.Named)
		if !ok || named.Obj().Pkg() == nil || named.Obj().Pkg().Path() != modPath {
			break
		}
		given := map[string]ast.Expr{}
		for _, el := range x.Elts {
			kv, ok := el.(*ast.KeyValueExpr)
			if !ok {
				f.fail(el, "positional struct literal")
			}
			given[kv.Key.(*ast.Ident).Name] = kv.Value
		}
		if named.Obj().Name() == "truncatedHash" {
			// truncatedHash{Hash: h, length: n}
			if u.NumFields() != 2 || given["Hash"] == nil || given["length"] == nil || len(given) != 2 {
				f.fail(x, "truncatedHash literal without exactly the fields Hash and length")
			}
			h, n := f.expr(given["Hash"]), f.expr(given["length"])
			if h.k != kHash || (n.k != kInt && n.k != kNat) {
				f.fail(x, "truncatedHash literal: Hash is not a translated hash value or length is not an int")
			}
			return val{s: fmt.Sprintf("(HashVal.truncated %s %s)", paren(h.s), paren(toInt(n))), k: kHash}
		}
		// a plain data structure: every field gets its value or the zero value
		var parts []string
		for i := 0; i < u.NumFields(); i++ {
			fl := u.Field(i)
			lt, zero, ok := fieldType(fl.Type())
			if !ok {
				f.fail(x, "literal of %s: field %s of type %s", named.Obj().Name(), fl.Name(), fl.Type())
			}
			f.g.useField(named, fl.Name())
			ex := given[fl.Name()]
			delete(given, fl.Name())
			if ex == nil {
				if zero == "" {
					f.fail(x, "literal of %s: field %s (%s) left nil", named.Obj().Name(), fl.Name(), lt)
				}
				parts = append(parts, fmt.Sprintf("%s := %s", leanField(fl.Name()), zero))
				continue
			}
			v := f.expr(ex)
			want := map[string]kind{"HashFn": kHashFn, "UInt8": kU8, "UInt32": kU32, "Bool": kBool, "Int": kInt, "Bytes": kBytes}[lt]
			s := v.s
			if want == kInt && v.k == kNat {
				s = toInt(v)
			} else if v.k != want {
				f.fail(ex, "literal of %s: value of field %s has another type", named.Obj().Name(), fl.Name())
			}
			parts = append(parts, fmt.Sprintf("%s := %s", leanField(fl.Name()), s))
		}
		if len(given) != 0 {
			var ks []string
			for k := range given {
				ks = append(ks, k)
			}
			sort.Strings(ks)
			f.fail(x, "literal of %s: unknown fields %v", named.Obj().Name(), ks)
		}
		return val{s: fmt.Sprintf("({ %s } : %s)", strings.Join(parts, ", "), leanTypeName(named)), k: kStruct, t: named}
	}
	f.fail(x, "composite literal of type %s", t)
	return val{}
}

func (f *fn) call(c *ast.CallExpr) val {
	if c.Ellipsis.IsValid() {
		f.fail(c, "variadic call")
	}
	// conversions
	if tv, ok := f.g.info.Types[c.Fun]; ok && tv.IsType() {
		if len(c.Args) != 1 {
			f.fail(c, "conversion")
		}
		to := tv.Type
		if b, ok := to.Underlying().(*types.Basic); ok && b.Kind() == types.Uint8 {
			v := f.expr(c.Args[0])
			switch v.k {
			case kU8:
				return v
			case kU32:
				return val{s: "(" + v.s + ").toUInt8", k: kU8}
			case kNat:
				return val{s: fmt.Sprintf("(UInt8.ofNat (%s %% 256))", v.s), k: kU8}
			case kInt:
				// truncation of a two's-complement int: the residue modulo 2^8 (Lean's `%` on ℤ with a positive modulus is non-negative)
				return val{s: fmt.Sprintf("(UInt8.ofNat (Int.toNat (%s %% 256)))", v.s), k: kU8}
			}
			f.fail(c, "conversion to uint8 of this operand")
		}
		if s, ok := to.Underlying().(*types.Slice); ok {
			if b, ok := types.Unalias(s.Elem()).(*types.Basic); ok && b.Kind() == types.Uint8 {
				at := f.g.info.Types[c.Args[0]].Type
				if ab, ok := at.Underlying().(*types.Basic); ok && ab.Info()&types.IsString != 0 {
					v := f.expr(c.Args[0])
					if v.k == kBytes {
						return val{s: v.s, k: kBytes, n: -1}
					}
				}
			}
		}
		f.fail(c, "conversion to %s", to)
	}
	// builtins
	if id := identOf(c.Fun); id != nil {
		if b, ok := f.g.info.Uses[id].(*types.Builtin); ok {
			switch b.Name() {
			case "len":
				v := f.lenArg(c.Args[0])
				return val{s: paren(v.s) + ".length", k: kNat}
			case "make":
				if len(c.Args) == 2 {
					if s, ok := f.g.info.Types[c.Args[0]].Type.Underlying().(*types.Slice); ok {
						if eb, ok := types.Unalias(s.Elem()).(*types.Basic); ok && eb.Kind() == types.Uint8 {
							if n, ok := f.constInt(c.Args[1]); ok && n >= 0 {
								return val{s: fmt.Sprintf("(List.replicate %d (0 : UInt8))", n), k: kBytes, n: int(n)}
							}
						}
					}
				}
				f.fail(c, "make other than make([]byte, constant)")
			}
			f.fail(c, "builtin %s", b.Name())
		}
	}
	sel, ok := ast.Unparen(c.Fun).(*ast.SelectorExpr)
	if !ok {
		f.fail(c, "call of %T", c.Fun)
	}
	fo, _ := f.g.info.Uses[sel.Sel].(*types.Func)
	if fo == nil {
		f.fail(c, "call through a function value")
	}
	// hmac.New(f, key)
	if fo.Pkg() != nil && fo.Pkg().Path() == "crypto/hmac" && fo.Name() == "New" && len(c.Args) == 2 {
		h, k := f.expr(c.Args[0]), f.expr(c.Args[1])
		if h.k != kHashFn || k.k != kBytes {
			f.fail(c, "hmac.New: the hash is not a named constructor / the key is not a byte string")
		}
		return val{s: fmt.Sprintf("(HashVal.hmac %s %s)", paren(h.s), paren(k.s)), k: kHash}
	}
	// g.K(n) on an interface value of the module: the parameter g_K
	if id := identOf(sel.X); id != nil {
		if name, ok := f.keyFns[f.g.info.Uses[id]]; ok {
			if sel.Sel.Name != "K" || len(c.Args) != 1 {
				f.fail(c, "method %s of the key material generator", sel.Sel.Name)
			}
			a := f.expr(c.Args[0])
			if a.k != kInt && a.k != kNat {
				f.fail(c, "argument of K is not an int")
			}
			return val{s: fmt.Sprintf("(%s %s)", name, paren(toInt(a))), k: kBytes, n: -1}
		}
	}
	// a translated method of the receiver's own type, called on the receiver
	if base, t, ok := f.structBase(sel.X); ok && t == f.recvT && !f.recvFlat {
		goName := "bmc." + t.Obj().Name() + "." + sel.Sel.Name
		lean, ok := f.g.done[goName]
		if !ok {
			f.fail(c, "needs %s, which was not translated", goName)
		}
		args := []string{base}
		for _, a := range c.Args {
			v := f.expr(a)
			if v.k != kBytes {
				f.fail(a, "argument of %s is not a byte string", sel.Sel.Name)
			}
			args = append(args, paren(v.s))
		}
		return val{s: "(" + lean + " " + strings.Join(args, " ") + ")", k: kHash}
	}
	f.fail(c, "call of %s", fo.FullName())
	return val{}
}

// lenArg: the operand of len: a byte string, or a whole byte array
func (f *fn) lenArg(e ast.Expr) val {
	if t, ok := f.g.info.Types[e].Type.Underlying().(*types.Array); ok && isByte(t.Elem()) {
		return f.wholeArray(e)
	}
	v := f.expr(e)
	if v.k != kBytes {
		f.fail(e, "len of something that is not a byte string")
	}
	return v
}
