#!/usr/bin/env python3
"""seed_import.py <dir with patch.diff, meta.json, demo test> <seed id> [props to run…]
Confirms a seeded change in scratch worktrees of /repo (never in /repo itself): (1) the patch applies, the library
compiles and its own unedited tests pass with it; (2) the demonstration fails with the change and passes without it;
then runs the checks against it (default: the property it targets + all others) and stores everything under
seeded/<seed id>/ with a meta.json saying what was run and which checks raised a VIOLATION."""
import glob, json, os, shutil, subprocess, sys, tempfile
ROOT = os.path.dirname(os.path.dirname(os.path.abspath(__file__)))
sys.path.insert(0, ROOT)
from props import PROPS
import atexit, glob as _glob, shutil as _shutil
# EVID_BACKUP: runs against a changed tree must not leave their evidence files behind in /verif/evidence
_evid = {f: open(f).read() for f in _glob.glob(os.path.join(ROOT, 'evidence', '*.json'))}
def _restore():
    for f, c in _evid.items():
        open(f, 'w').write(c)
atexit.register(_restore)
src, sid = os.path.abspath(sys.argv[1]), sys.argv[2]
meta = json.load(open(os.path.join(src, "meta.json")))
target = meta.get("property", sid[:3])
props = sys.argv[3:] or ([target] + [p for p in sorted(PROPS) if p != target])
env = dict(os.environ, GOFLAGS="-mod=mod", GOPROXY="off", GOSUMDB="off", GOTOOLCHAIN="local")
patch = os.path.join(src, "patch.diff")

def sh(cmd, cwd, timeout=1800):
    return subprocess.run(cmd, cwd=cwd, env=env, stdout=subprocess.PIPE, stderr=subprocess.STDOUT, text=True, shell=isinstance(cmd, str), timeout=timeout)

def worktree():
    wt = tempfile.mkdtemp(prefix="seedwt_", dir="/tmp"); os.rmdir(wt)
    subprocess.run(["git", "-C", "/repo", "worktree", "add", "-q", "--detach", wt, "HEAD"], check=True)
    return wt

def drop(wt):
    subprocess.run(["git", "-C", "/repo", "worktree", "remove", "--force", wt]); shutil.rmtree(wt, ignore_errors=True)

def place_demo(wt):
    dp = meta.get("demo_path", "")
    files = [f for f in glob.glob(os.path.join(src, "*")) if f.endswith("_test.go") or (f.endswith(".go") and "demo" in os.path.basename(f))]
    dest_dir = os.path.join(wt, os.path.dirname(dp)) if dp.endswith(".go") else os.path.join(wt, dp)
    os.makedirs(dest_dir, exist_ok=True)
    for f in files:
        shutil.copy(f, dest_dir)
    return files

result = {"seed": sid, "property": target, "summary": meta.get("summary"), "needs": meta.get("needs"), "ran": []}
demo_cmd = meta.get("demo_cmd", "go test -vet=off -count=1 ./...")
# (2a) demo passes on the unchanged tree
wt = worktree()
try:
    place_demo(wt)
    r = sh(demo_cmd, wt)
    result["demo_without_change"] = "PASS" if r.returncode == 0 else "FAIL: " + r.stdout[-400:]
finally:
    drop(wt)
# (1) + (2b) with the change
wt = worktree()
try:
    a = sh(["git", "apply", patch], wt)
    if a.returncode != 0:
        print("patch does not apply:", a.stdout); sys.exit(2)
    b = sh(["go", "build", "./..."], wt)
    t = sh(["go", "test", "-vet=off", "-count=1", "./..."], wt)
    result["builds_with_change"] = b.returncode == 0
    result["repo_tests_with_change"] = "PASS" if t.returncode == 0 else "FAIL: " + t.stdout[-400:]
    place_demo(wt)
    r = sh(demo_cmd, wt)
    result["demo_with_change"] = "FAIL (as intended)" if r.returncode != 0 else "PASS (the demonstration does not show the change!)"
finally:
    drop(wt)
print(json.dumps({k: v for k, v in result.items() if k not in ("ran",)}, indent=1))
# (3) the checks
wt = worktree()
caught = {}
try:
    sh(["git", "apply", patch], wt)
    for p in props:
        c = subprocess.run([os.path.join(ROOT, "check"), p], cwd=ROOT, env=dict(env, VERIF_REPO=wt), stdout=subprocess.PIPE, stderr=subprocess.STDOUT, text=True)
        viol = [l for l in c.stdout.splitlines() if l.startswith("VIOLATION")]
        info = {"exit": c.returncode, "violation_lines": len(viol)}
        if viol:
            rp = os.path.join(ROOT, viol[0].split("replay=")[1].split()[0])
            try:
                body = json.load(open(rp))
                info["first_replay"] = {"kind": body.get("kind"), "why": str(body.get("why", body.get("no_longer_checks", "")))[:300], "op": str(body.get("op", ""))[:300]}
                info["no_failing_input_found"] = "no-failing-input-found" in viol[0]
            except Exception:
                pass
        caught[p] = info
        print("  %s exit=%d %s" % (p, c.returncode, (info.get("first_replay") or {}).get("why", "")[:140]))
finally:
    drop(wt)
    subprocess.run([os.path.join(ROOT, "check"), "gen"], cwd=ROOT, stdout=subprocess.DEVNULL, stderr=subprocess.DEVNULL)
result["checks"] = caught
result["caught_by"] = [p for p, i in caught.items() if i["exit"] != 0]
result["caught_by_target"] = caught.get(target, {}).get("exit", 0) != 0
dst = os.path.join(ROOT, "seeded", sid)
os.makedirs(dst, exist_ok=True)
for f in glob.glob(os.path.join(src, "*")):
    if os.path.isfile(f) and os.path.basename(f) != "meta.json":
        shutil.copy(f, dst)
meta_out = dict(meta); meta_out.update({"confirmed": result})
json.dump(meta_out, open(os.path.join(dst, "meta.json"), "w"), indent=1)
print("CAUGHT BY:", result["caught_by"], "| target", target, "caught:", result["caught_by_target"])
