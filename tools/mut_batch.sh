#!/bin/sh
# mut_batch.sh <patch:PROP[,PROP…]> …  — for use under `vp run`: builds the framework in this snapshot and runs the named
# checks against each seeded change (quick look; tools/seed_batch.sh does the full confirmation + all checks)
cd "$(dirname "$0")/.."
./setup.sh > setup.log 2>&1 || { tail -30 setup.log; exit 2; }
for pair in "$@"; do
  patch=${pair%%:*}; props=$(echo "${pair##*:}" | tr ',' ' ')
  echo "=== $patch [$props]"
  python3 tools/mutcheck.py "$patch" $props 2>&1 | grep -v "^WARNING" | cut -c1-400
done
echo batch done
