#!/usr/bin/env python3
"""seedtable.py — regenerate seeded/README.md from seeded/*/meta.json (which checks caught which seeded change)."""
import glob, json, os
ROOT = os.path.dirname(os.path.dirname(os.path.abspath(__file__)))
rows = []
for d in sorted(glob.glob(os.path.join(ROOT, "seeded", "*", "meta.json"))):
    m = json.load(open(d))
    c = m.get("confirmed", {})
    sid = os.path.basename(os.path.dirname(d))
    tgt = m.get("property", sid[:3])
    caught = c.get("caught_by", [])
    nf = [p for p, i in c.get("checks", {}).items() if i.get("no_failing_input_found")]
    rows.append((sid, tgt, "yes" if c.get("caught_by_target") else "NO", " ".join(caught) or "-",
                 " ".join(nf) or "-", (m.get("summary") or "").replace("\n", " ").replace("|", "/")[:230],
                 (m.get("needs") or "").replace("\n", " ").replace("|", "/")[:200]))
out = ["# Seeded changes", "",
       "Each directory holds `patch.diff` (a change to gebn/bmc that compiles and passes the repository's own tests),",
       "the demonstration (fails with the change, passes without), and `meta.json` (what it needs to manifest, what was",
       "run: `tools/seed_import.py`, confirmation in scratch worktrees, then every check through `VERIF_REPO`).",
       "`by target` = the check of the property the change was written against raised a VIOLATION; `no-input` = checks that",
       "reported it as no-failing-input-found (broken obligation / correspondence only).", "",
       "| seed | property | by target | caught by | no-input | change | needs |", "|---|---|---|---|---|---|---|"]
for r in rows:
    out.append("| " + " | ".join(r) + " |")
out.append("")
out.append("%d seeded changes; %d caught by their target property's check; %d caught by at least one check." % (
    len(rows), len([r for r in rows if r[2] == "yes"]), len([r for r in rows if r[3] != "-"])))
open(os.path.join(ROOT, "seeded", "README.md"), "w").write("\n".join(out) + "\n")
print(out[-1])
