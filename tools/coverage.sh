#!/bin/bash
# Statement coverage of /repo (not of the harness) under all quick scenarios: which code the correspondence never runs.
# usage: tools/coverage.sh [outdir]   (scratch lives under /root/scratch-cov, removed at the end)
set -e
export GOFLAGS=-mod=mod GOPROXY=off GOSUMDB=off GOTOOLCHAIN=local
ROOT=$(cd "$(dirname "$0")/.." && pwd)
REPO=${VERIF_REPO:-/repo}
W=/root/scratch-cov; rm -rf $W; mkdir -p $W/data $W/out
cd $ROOT/harness
sed "s#=> /repo#=> $REPO#" go.mod > go.verif.mod; cp $REPO/go.sum go.verif.sum
go build -cover -coverpkg=github.com/gebn/bmc/...,harness/... -tags verif -modfile go.verif.mod -o $W/harness ./cmd/harness
for sc in $(python3 -c "
import sys; sys.path.insert(0,'$ROOT'); import props
s=[]
for p in props.PROPS.values() if isinstance(props.PROPS,dict) else props.PROPS:
    for x in p['scenarios']:
        n=x.split(':')[0]
        if n not in s and n!='conc': s.append(n)
print(' '.join(s))"); do
  GOCOVERDIR=$W/data timeout 600 $W/harness run $sc -out $W/out -seed 1 -tier quick >/dev/null 2>&1 || echo "scenario $sc exited non-zero"
done
go tool covdata textfmt -i=$W/data -o $W/cov.txt
grep -v "^harness/" $W/cov.txt > $W/cov.repo.txt
(cd $REPO && go tool cover -func=$W/cov.repo.txt) > ${1:-$ROOT}/coverage.txt 2>/dev/null || true
rm -rf $W
awk '$NF=="0.0%"' ${1:-$ROOT}/coverage.txt | wc -l
