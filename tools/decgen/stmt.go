package main

import (
	"fmt"
	"go/ast"
	"go/token"
	"go/types"
	"strings"
)

// finFn emits what happens when control falls off the end of a block
type finFn func()

func terminates(stmts []ast.Stmt) bool {
	if len(stmts) == 0 {
		return false
	}
	switch s := stmts[len(stmts)-1].(type) {
	case *ast.ReturnStmt:
		return true
	case *ast.BlockStmt:
		return terminates(s.List)
	case *ast.IfStmt:
		if s.Else == nil {
			return false
		}
		return terminates(s.Body.List) && terminates([]ast.Stmt{s.Else})
	case *ast.SwitchStmt:
		hasDefault := false
		for _, c := range s.Body.List {
			cc := c.(*ast.CaseClause)
			if cc.List == nil {
				hasDefault = true
			}
			if !terminates(cc.Body) {
				return false
			}
		}
		return hasDefault
	}
	return false
}

func isNilIdent(e ast.Expr) bool {
	id, ok := e.(*ast.Ident)
	return ok && id.Name == "nil"
}

// isErrNotNil: `err != nil` for the given object
func (f *fn) isErrNotNil(e ast.Expr, errObj types.Object) bool {
	b, ok := e.(*ast.BinaryExpr)
	if !ok || b.Op != token.NEQ || !isNilIdent(b.Y) {
		return false
	}
	id, ok := b.X.(*ast.Ident)
	return ok && errObj != nil && f.info.Uses[id] == errObj
}

// isPropagate: the block is `return [zero…,] err`
func (f *fn) isPropagate(body *ast.BlockStmt, errObj types.Object) bool {
	if len(body.List) != 1 {
		return false
	}
	ret, ok := body.List[0].(*ast.ReturnStmt)
	if !ok || len(ret.Results) == 0 {
		return false
	}
	id, ok := ret.Results[len(ret.Results)-1].(*ast.Ident)
	return ok && f.info.Uses[id] == errObj
}

func (f *fn) block(stmts []ast.Stmt, ind int, fin finFn) {
	for i := 0; i < len(stmts); i++ {
		f.ind = ind
		s := stmts[i]
		rest := stmts[i+1:]
		switch s := s.(type) {
		case *ast.BlockStmt:
			f.block(append(append([]ast.Stmt{}, s.List...), rest...), ind, fin)
			return
		case *ast.ExprStmt:
			f.exprStmt(s)
		case *ast.ReturnStmt:
			f.ret(s)
			return
		case *ast.IncDecStmt:
			id, ok := s.X.(*ast.Ident)
			if !ok {
				f.fail(s, "++/-- on a non-variable")
			}
			op := "+="
			if s.Tok == token.DEC {
				op = "-="
			}
			f.localAssign(s, id, op, nil)
		case *ast.AssignStmt:
			// `v, err := recv.M(args)` followed by `if err != nil { return err }`
			if len(s.Rhs) == 1 {
				if call, ok := s.Rhs[0].(*ast.CallExpr); ok && fullName(f.calleeOf(call)) == "crypto/cipher.NewCBCDecrypter" {
					if len(rest) == 0 {
						f.fail(s, "cipher.NewCBCDecrypter not followed at once by CryptBlocks")
					}
					f.cbcDecryptInPlace(s, call, rest[0])
					i++
					continue
				}
				if call, ok := s.Rhs[0].(*ast.CallExpr); ok && !f.isMethodCallee(call) {
					if callee, en, ok := f.errCallee(call); ok {
						errId, _ := s.Lhs[len(s.Lhs)-1].(*ast.Ident)
						var errObj types.Object
						if errId != nil {
							errObj = f.info.Defs[errId]
							if errObj == nil {
								errObj = f.info.Uses[errId]
							}
						}
						if len(rest) == 0 {
							f.fail(s, "call of %s whose error is not propagated at once", callee.Name())
						}
						next, ok := rest[0].(*ast.IfStmt)
						if !ok || next.Init != nil || next.Else != nil || !f.isErrNotNil(next.Cond, errObj) || !f.isPropagate(next.Body, errObj) {
							f.fail(s, "call of %s whose error is not propagated at once", callee.Name())
						}
						f.errCall(call, callee, en, s.Lhs[:len(s.Lhs)-1])
						i++
						continue
					}
				}
				if call, ok := s.Rhs[0].(*ast.CallExpr); ok && f.isMethodCallee(call) {
					errId, _ := s.Lhs[len(s.Lhs)-1].(*ast.Ident)
					var errObj types.Object
					if errId != nil {
						errObj = f.info.Defs[errId]
						if errObj == nil {
							errObj = f.info.Uses[errId]
						}
					}
					if len(rest) == 0 {
						f.fail(s, "call of a method of the receiver whose error is not propagated at once")
					}
					next, ok := rest[0].(*ast.IfStmt)
					if !ok || next.Init != nil || next.Else != nil || !f.isErrNotNil(next.Cond, errObj) || !f.isPropagate(next.Body, errObj) {
						f.fail(s, "call of a method of the receiver whose error is not propagated at once")
					}
					f.methodCall(call, s.Lhs[:len(s.Lhs)-1], s.Tok == token.DEFINE)
					i++
					continue
				}
			}
			f.assign(s)
		case *ast.IfStmt:
			if f.ifStmt(s, rest, ind, fin) {
				return
			}
		case *ast.SwitchStmt:
			if f.switchStmt(s, rest, ind, fin) {
				return
			}
		case *ast.DeclStmt:
			f.fail(s, "declaration statement")
		case *ast.ForStmt:
			f.forStmt(s, ind)
		case *ast.RangeStmt:
			f.rangeLoop(s, ind)
		default:
			f.fail(s, "statement of unsupported form")
		}
	}
	f.ind = ind
	if fin == nil {
		panic(giveUp{"control reaches the end of a block that must return"})
	}
	fin()
}

func (f *fn) exprStmt(s *ast.ExprStmt) {
	call, ok := s.X.(*ast.CallExpr)
	if !ok {
		f.fail(s, "expression statement")
	}
	if se, ok := call.Fun.(*ast.SelectorExpr); ok {
		if id, ok := se.X.(*ast.Ident); ok && f.dfObj != nil && f.info.Uses[id] == f.dfObj && se.Sel.Name == "SetTruncated" {
			return // feedback to gopacket only; no effect on the receiver or the result
		}
	}
	if id, ok := call.Fun.(*ast.Ident); ok && id.Name == "copy" {
		if _, isBuiltin := f.info.Uses[id].(*types.Builtin); isBuiltin {
			f.copyStmt(call)
			return
		}
	}
	f.fail(s, "call statement %s", types.ExprString(call.Fun))
}

// copy(dst, src) where dst is `arr[:]` / `arr[lo:]` of a fixed array (receiver field or local)
func (f *fn) copyStmt(call *ast.CallExpr) {
	dst, ok := call.Args[0].(*ast.SliceExpr)
	if !ok || dst.High != nil || dst.Slice3 {
		f.fail(call, "copy into something other than arr[lo:]")
	}
	at, ok := f.info.TypeOf(dst.X).Underlying().(*types.Array)
	if !ok || !isByte(at.Elem()) {
		f.fail(call, "copy into something other than a byte array")
	}
	n := int(at.Len())
	lo := 0
	if dst.Low != nil {
		c, ok := constInt(f.info, dst.Low)
		if !ok || c < 0 || int(c) > n {
			f.fail(call, "copy destination offset")
		}
		lo = int(c)
	}
	src := f.expr(call.Args[1])
	var srcBytes string
	switch src.K {
	case KSlice:
		srcBytes = src.S + ".vis"
	case KBytes:
		srcBytes = src.S
	default:
		f.fail(call, "copy source")
	}
	cur := f.expr(dst.X) // current value of the array
	newVal := fmt.Sprintf("GoDec.copyArr %d %s %s", n, paren(cur.S), paren(srcBytes))
	if lo > 0 {
		newVal = fmt.Sprintf("GoDec.copyAt %d %d %s %s", n, lo, paren(cur.S), paren(srcBytes))
	}
	if path, ok := f.fieldPath(dst.X); ok && len(path) > 0 {
		f.setField(call, path, newVal)
		return
	}
	if id, ok := dst.X.(*ast.Ident); ok {
		obj := f.info.Uses[id]
		if v, ok := f.vars[obj]; ok && v.K == KBytes {
			f.w("let %s := %s", v.S, newVal)
			return
		}
	}
	f.fail(call, "copy destination")
}

// setField emits the nested record update for a receiver field path
func (f *fn) setField(n ast.Node, path []*types.Var, val string) {
	lp := f.leanPath(n, path)
	f.w("let r := %s", nestedUpdate("r", lp, val))
}

func nestedUpdate(base string, lp []string, val string) string {
	if len(lp) == 1 {
		return fmt.Sprintf("{ %s with %s := %s }", base, lp[0], val)
	}
	return fmt.Sprintf("{ %s with %s := %s }", base, lp[0], nestedUpdate(base+"."+lp[0], lp[1:], val))
}

func (f *fn) assign(s *ast.AssignStmt) {
	if len(s.Lhs) != 1 || len(s.Rhs) != 1 {
		f.fail(s, "multiple assignment")
	}
	lhs, rhs := s.Lhs[0], s.Rhs[0]
	if path, ok := f.fieldPath(lhs); ok && len(path) > 0 {
		if s.Tok != token.ASSIGN {
			f.fail(s, "compound assignment to a field")
		}
		f.setField(s, path, f.fieldValue(s, path[len(path)-1].Type(), rhs))
		return
	}
	if call, ok := rhs.(*ast.CallExpr); ok {
		if id, ok := call.Fun.(*ast.Ident); ok && id.Name == "append" && len(call.Args) > 0 {
			if _, isBuiltin := f.info.Uses[id].(*types.Builtin); isBuiltin && types.ExprString(lhs) != types.ExprString(call.Args[0]) {
				f.fail(s, "append whose result is not stored back into its first argument (two slices could share a backing array)")
			}
		}
	}
	if id, ok := lhs.(*ast.Ident); ok {
		f.localAssign(s, id, s.Tok.String(), rhs)
		return
	}
	if root, path, ok := f.localFieldPath(lhs); ok && len(path) > 0 {
		if s.Tok != token.ASSIGN {
			f.fail(s, "compound assignment to a field")
		}
		rv := f.vars[root]
		val := f.fieldValue(s, path[len(path)-1].Type(), rhs)
		lp := f.leanPathFrom(s, rv.T, path)
		f.w("let %s := %s", rv.S, nestedUpdate(rv.S, lp, val))
		return
	}
	// arr[c] = v on a local byte array (constant index inside the array); s[i] = v on a local list
	if ix, ok := lhs.(*ast.IndexExpr); ok && s.Tok == token.ASSIGN {
		if id, ok := ix.X.(*ast.Ident); ok {
			obj := f.info.Uses[id]
			if cur, ok := f.vars[obj]; ok {
				if _, isArr := obj.Type().Underlying().(*types.Array); isArr && cur.K == KBytes && cur.N >= 0 {
					c, isC := constInt(f.info, ix.Index)
					if !isC || c < 0 || int(c) >= cur.N {
						f.fail(s, "array index that is not a constant within the array")
					}
					v := f.expr(rhs)
					if v.K != KU8 {
						f.fail(s, "array element of unsupported kind")
					}
					f.w("let %s : Bytes := %s.set %d %s", cur.S, paren(cur.S), c, paren(v.S))
					return
				}
				if cur.K == KList && cur.E != KStruct {
					i, _ := f.natIndex(ix.Index)
					v := f.expr(rhs)
					if !(v.K == cur.E || (cur.E == KInt && v.K == KNat)) {
						f.fail(s, "element of kind %d stored into a slice of another kind", v.K)
					}
					f.w("let %s ← %s", cur.S, f.lift(fmt.Sprintf("GoDec.setAt %s %s %s", paren(cur.S), paren(i), paren(f.coerce(s, v, cur.E)))))
					cur.N = -1
					f.vars[obj] = cur
					return
				}
			}
		}
	}
	// x.F[i] = v on a slice of uint16 / int64: an index beyond len(x.F) is a panic
	if ix, ok := lhs.(*ast.IndexExpr); ok && s.Tok == token.ASSIGN {
		if path, ok := f.fieldPath(ix.X); ok && len(path) > 0 {
			if ek, ok := listElem(path[len(path)-1].Type()); ok {
				cur := f.expr(ix.X)
				i, _ := f.natIndex(ix.Index)
				v := f.expr(rhs)
				if !(v.K == ek || (ek == KInt && v.K == KNat)) {
					f.fail(s, "element of kind %d stored into a slice of another kind", v.K)
				}
				t := f.tmp()
				f.w("let %s ← %s", t, f.lift(fmt.Sprintf("GoDec.setAt %s %s %s", paren(cur.S), paren(i), paren(f.coerce(s, v, ek)))))
				f.setField(s, path, t)
				return
			}
		}
	}
	f.fail(s, "assignment to %s", types.ExprString(lhs))
}

// fieldValue: the Lean term stored into a field of Go type t for the Go expression rhs
func (f *fn) fieldValue(n ast.Node, t types.Type, rhs ast.Expr) string {
	if isTime(t) {
		// time.Unix(sec, 0): kept as the seconds
		if call, ok := rhs.(*ast.CallExpr); ok && fullName(f.calleeOf(call)) == "time.Unix" && len(call.Args) == 2 {
			if c, ok := constInt(f.info, call.Args[1]); ok && c == 0 {
				v := f.expr(call.Args[0])
				if v.K == KNat || v.K == KInt {
					return f.asInt(v)
				}
			}
		}
		f.fail(n, "time.Time value other than time.Unix(sec, 0)")
	}
	lt, _, ok := f.g.fieldType(t)
	if !ok {
		f.fail(n, "field of unsupported type %s", t)
	}
	if isNilIdent(rhs) {
		if lt != "Bytes" && !strings.HasPrefix(lt, "List ") {
			f.fail(n, "nil stored into a field of type %s", t)
		}
		return "[]"
	}
	v := f.expr(rhs)
	switch lt {
	case "UInt8", "UInt16", "UInt32", "Bool", "Int8", "Int16", "Int32":
		if leanKindType(v.K) == lt {
			if v.K == KBool {
				return boolTerm(v)
			}
			return v.S
		}
	case "Int":
		if v.K == KNat || v.K == KInt {
			return f.asInt(v)
		}
	case "Bytes":
		switch v.K {
		case KSlice:
			if v.Al != nil {
				f.aliases = append(f.aliases, *v.Al)
			} else {
				f.aliases = append(f.aliases, storedAlias{nil, ""})
			}
			return v.S + ".vis"
		case KBytes:
			if at, ok := t.Underlying().(*types.Array); ok && int(at.Len()) != v.N {
				f.fail(n, "array length mismatch")
			}
			return v.S
		}
	default:
		if v.K == KStruct && leanTypeName(v.T) == lt {
			return v.S
		}
		if v.K == KList && lt == "List "+leanKindType(v.E) {
			return v.S
		}
	}
	f.fail(n, "value of kind %d stored into a field of type %s", v.K, t)
	return ""
}

// localAssign: `v := e`, `v = e`, `v op= e`, v++ / v-- (rhs nil)
func (f *fn) localAssign(n ast.Node, id *ast.Ident, tok string, rhs ast.Expr) {
	if id.Name == "_" {
		f.fail(n, "assignment to _")
	}
	obj := f.info.Defs[id]
	if obj == nil {
		obj = f.info.Uses[id]
	}
	if obj == nil || obj == f.recvObj {
		f.fail(n, "assignment to %s", id.Name)
	}
	var v Val
	switch tok {
	case ":=", "=":
		if isNilIdent(rhs) {
			f.fail(n, "nil stored into a variable")
		}
		v = f.expr(rhs)
	default:
		cur, ok := f.vars[obj]
		if !ok {
			f.fail(n, "compound assignment to an unknown variable")
		}
		var op token.Token
		switch tok {
		case "+=":
			op = token.ADD
		case "-=":
			op = token.SUB
		case "*=":
			op = token.MUL
		case "&=":
			op = token.AND
		case "|=":
			op = token.OR
		default:
			f.fail(n, "compound assignment %s", tok)
		}
		var b Val
		var ytv types.TypeAndValue
		if rhs == nil {
			b = Val{S: "1", K: KNat, N: -1}
			if width(cur.K) > 0 {
				b = Val{S: fmt.Sprintf("(1 : %s)", leanKindType(cur.K)), K: cur.K, N: -1}
			}
		} else {
			b = f.expr(rhs)
			ytv = f.info.Types[rhs]
		}
		v = f.binop(n, op, cur, b, ytv)
	}
	if v.K == KStruct {
		if !plainStruct(v.T) {
			f.fail(n, "struct value stored into a variable")
		}
	}
	// the declared type decides between the fixed-width kinds and int; an int variable is ℕ or ℤ by its value
	tmpl, ok := f.typeTemplate(obj.Type())
	if !ok {
		f.fail(n, "variable %s of type %s", id.Name, obj.Type())
	}
	switch {
	case tmpl.K == KEnum && v.K == KEnum && v.En != nil:
	case tmpl.K == KList || tmpl.K == KStruct:
		if !sameType(tmpl, v) {
			f.fail(n, "variable %s of type %s", id.Name, obj.Type())
		}
	case tmpl.K == KSlice && v.K == KBytes: // a byte slice from an external call: kept as the bytes it denotes
	case tmpl.K == v.K, tmpl.K == KInt && v.K == KNat:
	default:
		f.fail(n, "variable %s of type %s", id.Name, obj.Type())
	}
	name := f.nameOf(obj)
	s := v.S
	if v.K == KBool {
		s = boolTerm(v)
	}
	f.w("let %s : %s := %s", name, v.leanType(), s)
	nv := v
	nv.S, nv.Prop, nv.IsConst = name, false, false
	if v.K == KSlice && v.Al == nil {
		// a second name for the same slice: remember what it aliases
		if rid, ok := rhs.(*ast.Ident); ok {
			nv.Al = &storedAlias{f.info.Uses[rid], ""}
		}
	}
	f.vars[obj] = nv
}

// ---- return ---------------------------------------------------------------------------------------------------

func (f *fn) okValue(extra []string) string {
	if f.noRecv {
		switch len(extra) {
		case 0:
			return "pure ()"
		case 1:
			return "pure " + paren(extra[0])
		}
		return "pure (" + strings.Join(extra, ", ") + ")"
	}
	if len(extra) == 0 {
		return "pure r"
	}
	return "pure (r, " + strings.Join(extra, ", ") + ")"
}

func (f *fn) isErrorCtor(e ast.Expr) bool {
	call, ok := e.(*ast.CallExpr)
	if !ok {
		return false
	}
	switch fullName(f.calleeOf(call)) {
	case "fmt.Errorf", "errors.New":
		return true
	}
	return false
}

func (f *fn) ret(s *ast.ReturnStmt) {
	if len(s.Results) != len(f.results)+1 {
		f.fail(s, "return with %d results", len(s.Results))
	}
	last := s.Results[len(s.Results)-1]
	if f.isErrorCtor(last) {
		f.w("%s.err", f.M())
		return
	}
	if isNilIdent(last) {
		if f.inJoin > 0 {
			f.fail(s, "successful return inside a conditional that control flows out of")
		}
		var extra []string
		for i, e := range s.Results[:len(s.Results)-1] {
			v := f.expr(e)
			if f.resT != nil {
				extra = append(extra, f.coerceTo(e, v, &f.resT[i]))
			} else {
				extra = append(extra, f.coerce(e, v, f.results[i]))
			}
		}
		f.w("%s", f.okValue(extra))
		return
	}
	// tail call of a method of the receiver returning only an error
	if call, ok := last.(*ast.CallExpr); ok && len(f.results) == 0 && f.isMethodCallee(call) {
		if f.inJoin > 0 {
			f.fail(s, "return inside a conditional that control flows out of")
		}
		name, recvPath, args, res := f.prepareMethodCall(call)
		if len(res) != 0 || len(recvPath) != 0 {
			f.fail(s, "tail call of %s", name)
		}
		term := fmt.Sprintf("%s r %s", name, strings.Join(args, " "))
		if f.g.defMonad[name] == "RF" {
			f.requireFuel()
		} else if f.fuel {
			term = f.lift(term)
		}
		f.w("%s", term)
		return
	}
	f.fail(s, "return of %s", types.ExprString(last))
}
