package main

import (
	"fmt"
	"go/ast"
	"go/token"
	"go/types"
	"strings"
)

// finFn emits what happens when control falls off the end of a block
type finFn func()

func terminates(stmts []ast.Stmt) bool {
	if len(stmts) == 0 {
		return false
	}
	switch s := stmts[len(stmts)-1].(type) {
	case *ast.ReturnStmt:
		return true
	case *ast.BlockStmt:
		return terminates(s.List)
	case *ast.IfStmt:
		if s.Else == nil {
			return false
		}
		return terminates(s.Body.List) && terminates([]ast.Stmt{s.Else})
	case *ast.SwitchStmt:
		hasDefault := false
		for _, c := range s.Body.List {
			cc := c.(*ast.CaseClause)
			if cc.List == nil {
				hasDefault = true
			}
			if !terminates(cc.Body) {
				return false
			}
		}
		return hasDefault
	}
	return false
}

func isNilIdent(e ast.Expr) bool {
	id, ok := e.(*ast.Ident)
	return ok && id.Name == "nil"
}

// isErrNotNil: `err != nil` for the given object
func (f *fn) isErrNotNil(e ast.Expr, errObj types.Object) bool {
	b, ok := e.(*ast.BinaryExpr)
	if !ok || b.Op != token.NEQ || !isNilIdent(b.Y) {
		return false
	}
	id, ok := b.X.(*ast.Ident)
	return ok && errObj != nil && f.info.Uses[id] == errObj
}

// isPropagate: the block is `return [zero…,] err`
func (f *fn) isPropagate(body *ast.BlockStmt, errObj types.Object) bool {
	if len(body.List) != 1 {
		return false
	}
	ret, ok := body.List[0].(*ast.ReturnStmt)
	if !ok || len(ret.Results) == 0 {
		return false
	}
	id, ok := ret.Results[len(ret.Results)-1].(*ast.Ident)
	return ok && f.info.Uses[id] == errObj
}

func (f *fn) block(stmts []ast.Stmt, ind int, fin finFn) {
	for i := 0; i < len(stmts); i++ {
		f.ind = ind
		s := stmts[i]
		rest := stmts[i+1:]
		switch s := s.(type) {
		case *ast.BlockStmt:
			f.block(append(append([]ast.Stmt{}, s.List...), rest...), ind, fin)
			return
		case *ast.ExprStmt:
			f.exprStmt(s)
		case *ast.ReturnStmt:
			f.ret(s)
			return
		case *ast.IncDecStmt:
			id, ok := s.X.(*ast.Ident)
			if !ok {
				f.fail(s, "++/-- on a non-variable")
			}
			op := "+="
			if s.Tok == token.DEC {
				op = "-="
			}
			f.localAssign(s, id, op, nil)
		case *ast.AssignStmt:
			// `v, err := recv.M(args)` followed by `if err != nil { return err }`
			if len(s.Rhs) == 1 {
				if call, ok := s.Rhs[0].(*ast.CallExpr); ok && f.isMethodCallee(call) {
					errId, _ := s.Lhs[len(s.Lhs)-1].(*ast.Ident)
					var errObj types.Object
					if errId != nil {
						errObj = f.info.Defs[errId]
						if errObj == nil {
							errObj = f.info.Uses[errId]
						}
					}
					if len(rest) == 0 {
						f.fail(s, "call of a method of the receiver whose error is not propagated at once")
					}
					next, ok := rest[0].(*ast.IfStmt)
					if !ok || next.Init != nil || next.Else != nil || !f.isErrNotNil(next.Cond, errObj) || !f.isPropagate(next.Body, errObj) {
						f.fail(s, "call of a method of the receiver whose error is not propagated at once")
					}
					f.methodCall(call, s.Lhs[:len(s.Lhs)-1], s.Tok == token.DEFINE)
					i++
					continue
				}
			}
			f.assign(s)
		case *ast.IfStmt:
			if f.ifStmt(s, rest, ind, fin) {
				return
			}
		case *ast.SwitchStmt:
			if f.switchStmt(s, rest, ind, fin) {
				return
			}
		case *ast.DeclStmt:
			f.fail(s, "declaration statement")
		case *ast.ForStmt:
			f.forStmt(s, ind)
		case *ast.RangeStmt:
			f.fail(s, "range loop")
		default:
			f.fail(s, "statement of unsupported form")
		}
	}
	f.ind = ind
	if fin == nil {
		panic(giveUp{"control reaches the end of a block that must return"})
	}
	fin()
}

func (f *fn) exprStmt(s *ast.ExprStmt) {
	call, ok := s.X.(*ast.CallExpr)
	if !ok {
		f.fail(s, "expression statement")
	}
	if se, ok := call.Fun.(*ast.SelectorExpr); ok {
		if id, ok := se.X.(*ast.Ident); ok && f.dfObj != nil && f.info.Uses[id] == f.dfObj && se.Sel.Name == "SetTruncated" {
			return // feedback to gopacket only; no effect on the receiver or the result
		}
	}
	if id, ok := call.Fun.(*ast.Ident); ok && id.Name == "copy" {
		if _, isBuiltin := f.info.Uses[id].(*types.Builtin); isBuiltin {
			f.copyStmt(call)
			return
		}
	}
	f.fail(s, "call statement %s", types.ExprString(call.Fun))
}

// copy(dst, src) where dst is `arr[:]` / `arr[lo:]` of a fixed array (receiver field or local)
func (f *fn) copyStmt(call *ast.CallExpr) {
	dst, ok := call.Args[0].(*ast.SliceExpr)
	if !ok || dst.High != nil || dst.Slice3 {
		f.fail(call, "copy into something other than arr[lo:]")
	}
	at, ok := f.info.TypeOf(dst.X).Underlying().(*types.Array)
	if !ok || !isByte(at.Elem()) {
		f.fail(call, "copy into something other than a byte array")
	}
	n := int(at.Len())
	lo := 0
	if dst.Low != nil {
		c, ok := constInt(f.info, dst.Low)
		if !ok || c < 0 || int(c) > n {
			f.fail(call, "copy destination offset")
		}
		lo = int(c)
	}
	src := f.expr(call.Args[1])
	var srcBytes string
	switch src.K {
	case KSlice:
		srcBytes = src.S + ".vis"
	case KBytes:
		srcBytes = src.S
	default:
		f.fail(call, "copy source")
	}
	cur := f.expr(dst.X) // current value of the array
	newVal := fmt.Sprintf("GoDec.copyArr %d %s %s", n, paren(cur.S), paren(srcBytes))
	if lo > 0 {
		newVal = fmt.Sprintf("GoDec.copyAt %d %d %s %s", n, lo, paren(cur.S), paren(srcBytes))
	}
	if path, ok := f.fieldPath(dst.X); ok && len(path) > 0 {
		f.setField(call, path, newVal)
		return
	}
	if id, ok := dst.X.(*ast.Ident); ok {
		obj := f.info.Uses[id]
		if v, ok := f.vars[obj]; ok && v.K == KBytes {
			f.w("let %s := %s", v.S, newVal)
			return
		}
	}
	f.fail(call, "copy destination")
}

// setField emits the nested record update for a receiver field path
func (f *fn) setField(n ast.Node, path []*types.Var, val string) {
	lp := f.leanPath(n, path)
	f.w("let r := %s", nestedUpdate("r", lp, val))
}

func nestedUpdate(base string, lp []string, val string) string {
	if len(lp) == 1 {
		return fmt.Sprintf("{ %s with %s := %s }", base, lp[0], val)
	}
	return fmt.Sprintf("{ %s with %s := %s }", base, lp[0], nestedUpdate(base+"."+lp[0], lp[1:], val))
}

func (f *fn) assign(s *ast.AssignStmt) {
	if len(s.Lhs) != 1 || len(s.Rhs) != 1 {
		f.fail(s, "multiple assignment")
	}
	lhs, rhs := s.Lhs[0], s.Rhs[0]
	if path, ok := f.fieldPath(lhs); ok && len(path) > 0 {
		if s.Tok != token.ASSIGN {
			f.fail(s, "compound assignment to a field")
		}
		f.setField(s, path, f.fieldValue(s, path[len(path)-1].Type(), rhs))
		return
	}
	if id, ok := lhs.(*ast.Ident); ok {
		f.localAssign(s, id, s.Tok.String(), rhs)
		return
	}
	// x.F[i] = v on a slice of uint16 / int64: an index beyond len(x.F) is a panic
	if ix, ok := lhs.(*ast.IndexExpr); ok && s.Tok == token.ASSIGN {
		if path, ok := f.fieldPath(ix.X); ok && len(path) > 0 {
			if ek, ok := listElem(path[len(path)-1].Type()); ok {
				cur := f.expr(ix.X)
				i, _ := f.natIndex(ix.Index)
				v := f.expr(rhs)
				if !(v.K == ek || (ek == KInt && v.K == KNat)) {
					f.fail(s, "element of kind %d stored into a slice of another kind", v.K)
				}
				t := f.tmp()
				f.w("let %s ← GoDec.setAt %s %s %s", t, paren(cur.S), paren(i), paren(f.coerce(s, v, ek)))
				f.setField(s, path, t)
				return
			}
		}
	}
	f.fail(s, "assignment to %s", types.ExprString(lhs))
}

// fieldValue: the Lean term stored into a field of Go type t for the Go expression rhs
func (f *fn) fieldValue(n ast.Node, t types.Type, rhs ast.Expr) string {
	if isTime(t) {
		// time.Unix(sec, 0): kept as the seconds
		if call, ok := rhs.(*ast.CallExpr); ok && fullName(f.calleeOf(call)) == "time.Unix" && len(call.Args) == 2 {
			if c, ok := constInt(f.info, call.Args[1]); ok && c == 0 {
				v := f.expr(call.Args[0])
				if v.K == KNat || v.K == KInt {
					return f.asInt(v)
				}
			}
		}
		f.fail(n, "time.Time value other than time.Unix(sec, 0)")
	}
	lt, _, ok := f.g.fieldType(t)
	if !ok {
		f.fail(n, "field of unsupported type %s", t)
	}
	if isNilIdent(rhs) {
		if lt != "Bytes" && !strings.HasPrefix(lt, "List ") {
			f.fail(n, "nil stored into a field of type %s", t)
		}
		return "[]"
	}
	v := f.expr(rhs)
	switch lt {
	case "UInt8", "UInt16", "UInt32", "Bool":
		if leanKindType(v.K) == lt {
			if v.K == KBool {
				return boolTerm(v)
			}
			return v.S
		}
	case "Int":
		if v.K == KNat || v.K == KInt {
			return f.asInt(v)
		}
	case "Bytes":
		switch v.K {
		case KSlice:
			return v.S + ".vis"
		case KBytes:
			if at, ok := t.Underlying().(*types.Array); ok && int(at.Len()) != v.N {
				f.fail(n, "array length mismatch")
			}
			return v.S
		}
	default:
		if v.K == KStruct && leanTypeName(v.T) == lt {
			return v.S
		}
		if v.K == KList && lt == "List "+leanKindType(v.E) {
			return v.S
		}
	}
	f.fail(n, "value of kind %d stored into a field of type %s", v.K, t)
	return ""
}

// localAssign: `v := e`, `v = e`, `v op= e`, v++ / v-- (rhs nil)
func (f *fn) localAssign(n ast.Node, id *ast.Ident, tok string, rhs ast.Expr) {
	if id.Name == "_" {
		f.fail(n, "assignment to _")
	}
	obj := f.info.Defs[id]
	if obj == nil {
		obj = f.info.Uses[id]
	}
	if obj == nil || obj == f.recvObj {
		f.fail(n, "assignment to %s", id.Name)
	}
	var v Val
	switch tok {
	case ":=", "=":
		if isNilIdent(rhs) {
			f.fail(n, "nil stored into a variable")
		}
		v = f.expr(rhs)
	default:
		cur, ok := f.vars[obj]
		if !ok {
			f.fail(n, "compound assignment to an unknown variable")
		}
		var op token.Token
		switch tok {
		case "+=":
			op = token.ADD
		case "-=":
			op = token.SUB
		case "*=":
			op = token.MUL
		case "&=":
			op = token.AND
		case "|=":
			op = token.OR
		default:
			f.fail(n, "compound assignment %s", tok)
		}
		var b Val
		var ytv types.TypeAndValue
		if rhs == nil {
			b = Val{S: "1", K: KNat, N: -1}
			if width(cur.K) > 0 {
				b = Val{S: fmt.Sprintf("(1 : %s)", leanKindType(cur.K)), K: cur.K, N: -1}
			}
		} else {
			b = f.expr(rhs)
			ytv = f.info.Types[rhs]
		}
		v = f.binop(n, op, cur, b, ytv)
	}
	if v.K == KStruct {
		f.fail(n, "struct value stored into a variable")
	}
	// the declared type decides between the fixed-width kinds and int; an int variable is ℕ or ℤ by its value
	if dk, _, ok := f.kindOfType(obj.Type()); !ok || (dk != v.K && !(dk == KInt && v.K == KNat)) {
		f.fail(n, "variable %s of type %s", id.Name, obj.Type())
	}
	name := f.nameOf(obj)
	s := v.S
	if v.K == KBool {
		s = boolTerm(v)
	}
	f.w("let %s : %s := %s", name, leanKindType(v.K), s)
	f.vars[obj] = Val{S: name, K: v.K, N: v.N}
}

// ---- return ---------------------------------------------------------------------------------------------------

func (f *fn) okValue(extra []string) string {
	if len(extra) == 0 {
		return "pure r"
	}
	return "pure (r, " + strings.Join(extra, ", ") + ")"
}

func (f *fn) isErrorCtor(e ast.Expr) bool {
	call, ok := e.(*ast.CallExpr)
	if !ok {
		return false
	}
	switch fullName(f.calleeOf(call)) {
	case "fmt.Errorf", "errors.New":
		return true
	}
	return false
}

func (f *fn) ret(s *ast.ReturnStmt) {
	if len(s.Results) != len(f.results)+1 {
		f.fail(s, "return with %d results", len(s.Results))
	}
	last := s.Results[len(s.Results)-1]
	if f.isErrorCtor(last) {
		f.w("R.err")
		return
	}
	if isNilIdent(last) {
		if f.inJoin > 0 {
			f.fail(s, "successful return inside a conditional that control flows out of")
		}
		var extra []string
		for i, e := range s.Results[:len(s.Results)-1] {
			v := f.expr(e)
			extra = append(extra, f.coerce(e, v, f.results[i]))
		}
		f.w("%s", f.okValue(extra))
		return
	}
	// tail call of a method of the receiver returning only an error
	if call, ok := last.(*ast.CallExpr); ok && len(f.results) == 0 && f.isMethodCallee(call) {
		if f.inJoin > 0 {
			f.fail(s, "return inside a conditional that control flows out of")
		}
		name, recvPath, args, res := f.prepareMethodCall(call)
		if len(res) != 0 || len(recvPath) != 0 {
			f.fail(s, "tail call of %s", name)
		}
		f.w("%s r %s", name, strings.Join(args, " "))
		return
	}
	f.fail(s, "return of %s", types.ExprString(last))
}

// forStmt: `for i := 0; i < N; i++ { body }` with N a constant or a local variable the body does not assign, i not
// assigned by the body, no break / continue / successful return: exactly the indices 0 … N-1 in order, i.e. a monadic
// left fold over `List.range N` of the receiver and the outer variables the body assigns
func (f *fn) forStmt(s *ast.ForStmt, ind int) {
	f.ind = ind
	init, ok := s.Init.(*ast.AssignStmt)
	if !ok || init.Tok != token.DEFINE || len(init.Lhs) != 1 || len(init.Rhs) != 1 {
		f.fail(s, "loop whose initialiser is not `i := 0`")
	}
	iv, ok := init.Lhs[0].(*ast.Ident)
	if c, isC := constInt(f.info, init.Rhs[0]); !ok || !isC || c != 0 {
		f.fail(s, "loop whose initialiser is not `i := 0`")
	}
	iObj := f.info.Defs[iv]
	if b, ok := iObj.Type().Underlying().(*types.Basic); !ok || b.Kind() != types.Int {
		f.fail(s, "loop variable that is not an int")
	}
	cond, ok := s.Cond.(*ast.BinaryExpr)
	if !ok || cond.Op != token.LSS {
		f.fail(s, "loop whose condition is not `i < N`")
	}
	if id, ok := cond.X.(*ast.Ident); !ok || f.info.Uses[id] != iObj {
		f.fail(s, "loop whose condition is not `i < N`")
	}
	post, ok := s.Post.(*ast.IncDecStmt)
	if !ok || post.Tok != token.INC {
		f.fail(s, "loop whose post statement is not `i++`")
	}
	if id, ok := post.X.(*ast.Ident); !ok || f.info.Uses[id] != iObj {
		f.fail(s, "loop whose post statement is not `i++`")
	}
	var boundObj types.Object
	if _, isC := constInt(f.info, cond.Y); !isC {
		id, ok := cond.Y.(*ast.Ident)
		if !ok {
			f.fail(s, "loop bound that is neither a constant nor a local variable")
		}
		boundObj = f.info.Uses[id]
	}
	bound := f.expr(cond.Y)
	if bound.K != KNat {
		f.fail(s, "loop bound that may be negative")
	}
	vars := f.assignedOuter(s, s.Body.List)
	for _, o := range vars {
		if o == boundObj {
			f.fail(s, "loop body assigns the loop bound")
		}
	}
	ast.Inspect(s.Body, func(n ast.Node) bool {
		switch x := n.(type) {
		case *ast.AssignStmt:
			for _, l := range x.Lhs {
				if id, ok := l.(*ast.Ident); ok && f.info.Uses[id] == iObj {
					f.fail(s, "loop body assigns the loop variable")
				}
			}
		case *ast.IncDecStmt:
			if id, ok := x.X.(*ast.Ident); ok && f.info.Uses[id] == iObj {
				f.fail(s, "loop body assigns the loop variable")
			}
		case *ast.UnaryExpr:
			if x.Op == token.AND {
				f.fail(s, "address taken inside a loop")
			}
		}
		return true
	})
	iname := f.nameOf(iObj)
	state := "r"
	if len(vars) > 0 {
		names := []string{"r"}
		for _, o := range vars {
			names = append(names, f.vars[o].S)
		}
		state = "(" + strings.Join(names, ", ") + ")"
	}
	f.ntmp++
	st := fmt.Sprintf("s%d", f.ntmp)
	savedVars := map[types.Object]Val{}
	for k, v := range f.vars {
		savedVars[k] = v
	}
	f.vars[iObj] = Val{S: iname, K: KNat, N: -1}
	saved := f.lines
	f.lines = nil
	f.inJoin++
	f.ind = ind + 2
	if len(vars) > 0 {
		f.w("let r := %s.1", st)
		for i, o := range vars {
			proj := st + ".2" + strings.Repeat(".2", i)
			if i < len(vars)-1 {
				proj += ".1"
			}
			f.w("let %s : %s := %s", f.vars[o].S, leanKindType(f.vars[o].K), proj)
		}
	}
	f.block(s.Body.List, ind+2, func() { f.w("pure %s", state) })
	f.inJoin--
	body := f.lines
	f.lines = saved
	kindsAfter := map[types.Object]Kind{}
	for _, o := range vars {
		kindsAfter[o] = f.vars[o].K
	}
	f.vars = savedVars
	for _, o := range vars {
		if kindsAfter[o] != f.vars[o].K {
			f.fail(s, "loop body changes the kind of variable %s", o.Name())
		}
	}
	f.ind = ind
	binder := "r"
	if len(vars) > 0 {
		binder = st
	}
	res := "r"
	if len(vars) > 0 {
		f.ntmp++
		res = fmt.Sprintf("j%d", f.ntmp)
	}
	f.w("let %s ← List.foldlM (fun %s %s => (do", res, binder, iname)
	f.lines = append(f.lines, body[:len(body)-1]...)
	f.lines = append(f.lines, body[len(body)-1]+")) "+state+" (List.range "+paren(bound.S)+")")
	if len(vars) > 0 {
		f.w("let r := %s.1", res)
		for i, o := range vars {
			proj := res + ".2" + strings.Repeat(".2", i)
			if i < len(vars)-1 {
				proj += ".1"
			}
			v := f.vars[o]
			f.w("let %s : %s := %s", v.S, leanKindType(v.K), proj)
			f.vars[o] = Val{S: v.S, K: v.K, N: -1}
		}
	}
}
