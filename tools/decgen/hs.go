package main

// hsgen (decgen -hs): SESSION ESTABLISHMENT — `(*V2SessionlessTransport).newV2Session` (v2session_new.go) and the three set-up
// wrappers `(*V2Sessionless).openSession / rakpMessage1 / rakpMessage3` (v2sessionless.go) — translated STATEMENT BY STATEMENT
// with the orchestration translator (orch*.go; DESIGN.md §2.2 T2e) into lean/Bmc/Gen/Hs.lean (DESIGN.md §2.2 T2f). On top of
// the language of `-orch`:
//
//   * `s.buildAndSendPayload(ctx, payload)` is an application of a PARAMETER `send_<Payload>` — everything below it
//     (serialisation, the retry loop around transport.Send, decoding down to the session wrapper, `p.Response().DecodeFromBytes`)
//     as a function of its state and the request struct; the payload struct (`Request()` / `Response()` return the addresses of
//     its fields) is the CELL, exactly like a command struct under SendCommand;
//   * `rand.Read(a[:])` on a local byte array is the PARAMETER `rand_Read`;
//   * the key formulas are NOT translated again: a call of a function keygen translates (tools/keygen -> Gen/Keys.lean) is a
//     reference to its definition there — `calculate…(h, m1, m2)` ↦ `hash_Sum h (Keys.calculate…_input m1 m2)` with the PARAMETER
//     `hash_Sum` (what `Sum(nil)` of a hash value returns after the bytes were written into it in the reset state: the contract
//     of hash.Hash, written out as Lemmas/GenKeys.lean: mac), the constructors `.AuthCode/.SIK/.K/.ICV`, and the tables
//     `algorithmAuthenticationHashGenerator`, `algorithmHasher`, `algorithmCipher`; the Go signatures are checked here, the shape
//     of the bodies by keygen (Proofs/GenKeys/TranslatedOk.lean pins that it still translates them);
//   * `hmac.Equal(a, b)` is equality of the byte strings;
//   * a pointer parameter to a structure that the function only reads through is the structure's value;
//   * a sentinel error a target returns directly (`ErrIncorrectPassword`) is told apart from every other error: the result
//     type is `Except String T`;
//   * a structure with fields outside the language (`bmc.V2Session`: the gopacket decoder, the connection, the timeout) is
//     a PARTIAL view: the fields the code sets or reads; an interface-typed field holds the description of what is stored in it;
//   * statements that only build gopacket values (the new session's decoder) are not modelled, and listed;
//   * a structure decoded from a response may point into the receive buffer: a slice field of it read after a later
//     exchange is a give-up (the buffer has been overwritten).
//
// usage: decgen -hs <repo-dir> > lean/Bmc/Gen/Hs.lean
//
// The definitions of `-orch` (determineCipherSuite) are referred to in Gen/Orch.lean: the run translates the targets of
// `-orch` first, exactly as `-orch` does (checked: same text), and prints only what the targets below add.

import (
	"fmt"
	"go/ast"
	"go/token"
	"go/types"
	"os"
	"strings"
)

// hsTargets: (package path, receiver type, name), in the order of the output
var hsTargets = [][3]string{
	{"github.com/gebn/bmc", "V2Sessionless", "openSession"},
	{"github.com/gebn/bmc", "V2Sessionless", "rakpMessage1"},
	{"github.com/gebn/bmc", "V2Sessionless", "rakpMessage3"},
	{"github.com/gebn/bmc", "V2SessionlessTransport", "newV2Session"},
}

const (
	bmcPath      = "github.com/gebn/bmc"
	gopacketPath = "github.com/google/gopacket"
	keysHashVal  = "Keys.HashVal"
	keysAAP      = "Keys.AuthenticationAlgorithmParams"
)

// payloadSenders: methods that send a set-up payload and decode the reply into it (the PARAMETER `send_<Payload>`)
var payloadSenders = map[string]bool{
	"(*github.com/gebn/bmc.V2Sessionless).buildAndSendPayload": true,
}

// ---- types ------------------------------------------------------------------------------------------------------------

func isNamed(t types.Type, pkg, name string) bool {
	n, ok := t.(*types.Named)
	return ok && n.Obj().Pkg() != nil && n.Obj().Pkg().Path() == pkg && n.Obj().Name() == name
}

// extType: values described by the types of Gen/Keys.lean
func (og *ogen) extType(t types.Type) *otype {
	if !og.hs {
		return nil
	}
	if isNamed(t, "hash", "Hash") {
		return &otype{k: oExt, ext: keysHashVal} // a hash.Hash the module builds (hmac.New / truncatedHash); nil has no description
	}
	if p, ok := t.(*types.Pointer); ok {
		t = p.Elem()
	}
	if isNamed(t, bmcPath, "authenticationAlgorithmParams") {
		return &otype{k: oExt, ext: keysAAP}
	}
	return nil
}

// shallowOK: could a value of type t be described (structures are taken to be, without looking inside)
func (og *ogen) shallowOK(t types.Type) bool {
	if og.extType(t) != nil || isTime(t) {
		return true
	}
	if p, ok := t.(*types.Pointer); ok {
		t = p.Elem()
		if _, isS := t.Underlying().(*types.Struct); isS {
			return true
		}
		if n, ok := t.(*types.Named); ok {
			switch n.Underlying().(type) {
			case *types.Map, *types.Slice:
				return og.shallowOK(n)
			}
		}
		return false
	}
	switch u := t.Underlying().(type) {
	case *types.Basic:
		switch u.Kind() {
		case types.Uint8, types.Uint16, types.Uint32, types.Int, types.Bool, types.String:
			return true
		}
	case *types.Slice:
		return og.shallowOK(u.Elem())
	case *types.Array:
		return isByte(u.Elem())
	case *types.Map:
		return og.shallowOK(u.Key()) && og.shallowOK(u.Elem())
	case *types.Struct:
		return true
	}
	return false
}

// isPartial: the structure has a field (other than BaseLayer) whose type is outside the language and not a structure
func (og *ogen) isPartial(n *types.Named) bool {
	st := n.Underlying().(*types.Struct)
	for i := 0; i < st.NumFields(); i++ {
		fl := st.Field(i)
		if isBaseLayer(fl.Type()) {
			continue
		}
		if !og.shallowOK(fl.Type()) {
			return true
		}
	}
	return false
}

// noDefault: a structure one of whose declared fields has no zero description
func (og *ogen) noDefault(n *types.Named) bool {
	st, ok := n.Underlying().(*types.Struct)
	if !ok {
		return false
	}
	for i := 0; i < st.NumFields(); i++ {
		for _, fn := range og.structs[n] {
			if st.Field(i).Name() == fn {
				if ft, ok := og.fieldOType(n, st.Field(i)); ok && (ft.k == oExt || (ft.k == oStruct && ft.named != n && og.noDefault(ft.named))) {
					return true
				}
			}
		}
	}
	return false
}

// ---- parameters -------------------------------------------------------------------------------------------------------

// readOnlyStructPtr: a pointer parameter to a structure that the body only reads through: `p.F…` in value positions and
// `*p`; never assigned through, never handed on as a whole, no address taken inside. Then it is the structure's value
// (the pointer is taken to be non-nil).
func (f *ofn) readOnlyStructPtr(obj types.Object) bool {
	if !f.og.hs {
		return false
	}
	p, ok := obj.Type().(*types.Pointer)
	if !ok {
		return false
	}
	n, ok := p.Elem().(*types.Named)
	if !ok {
		return false
	}
	if _, isS := n.Underlying().(*types.Struct); !isS {
		return false
	}
	var stack []ast.Node
	ast.Inspect(f.src.decl.Body, func(m ast.Node) bool {
		if m == nil {
			stack = stack[:len(stack)-1]
			return true
		}
		stack = append(stack, m)
		id, ok := m.(*ast.Ident)
		if !ok || f.info.Uses[id] != obj {
			return true
		}
		// climb through the selector chain rooted at the parameter
		k := len(stack) - 1
		var cur ast.Node = id
		sel := false
		for k > 0 {
			if se, ok := stack[k-1].(*ast.SelectorExpr); ok && se.X == cur {
				if s := f.info.Selections[se]; s == nil || s.Kind() != types.FieldVal {
					f.fail(id, "method called on the pointer parameter %s", id.Name)
				}
				cur, k, sel = se, k-1, true
				continue
			}
			if pe, ok := stack[k-1].(*ast.ParenExpr); ok {
				cur, k = pe, k-1
				continue
			}
			break
		}
		parent := stack[k-1]
		if !sel {
			if st, ok := parent.(*ast.StarExpr); ok && st.X == cur {
				cur, parent = st, stack[k-2]
			} else {
				f.fail(id, "the pointer parameter %s is used as a whole", id.Name)
			}
		}
		switch pn := parent.(type) {
		case *ast.AssignStmt:
			for _, l := range pn.Lhs {
				if l == cur {
					f.fail(id, "assignment through the pointer parameter %s", id.Name)
				}
			}
		case *ast.IncDecStmt:
			f.fail(id, "assignment through the pointer parameter %s", id.Name)
		case *ast.UnaryExpr:
			if pn.Op == token.AND {
				f.fail(id, "address taken inside the pointer parameter %s", id.Name)
			}
		case *ast.SliceExpr:
			if pn.X == cur {
				if _, isArr := f.info.TypeOf(pn.X).Underlying().(*types.Array); isArr {
					f.fail(id, "an array inside the pointer parameter %s is sliced (aliased)", id.Name)
				}
			}
		}
		return true
	})
	t, ok := f.og.typeOf(obj.Type())
	return ok && t.k == oStruct
}

// returnsSentinel: some return statement of the body (outside function literals) returns a package-level sentinel error
func (f *ofn) returnsSentinel() bool {
	found := false
	ast.Inspect(f.src.decl.Body, func(m ast.Node) bool {
		if _, ok := m.(*ast.FuncLit); ok {
			return false
		}
		ret, ok := m.(*ast.ReturnStmt)
		if !ok || len(ret.Results) == 0 {
			return true
		}
		var obj types.Object
		switch x := ret.Results[len(ret.Results)-1].(type) {
		case *ast.Ident:
			obj = f.info.Uses[x]
		case *ast.SelectorExpr:
			obj = f.info.Uses[x.Sel]
		}
		if v, ok := obj.(*types.Var); ok && v.Pkg() != nil && v.Parent() == v.Pkg().Scope() && f.og.errSentinel(v) {
			found = true
		}
		return true
	})
	return found
}

// ---- statements ---------------------------------------------------------------------------------------------------------

func (f *ofn) note(n ast.Node, format string, a ...interface{}) {
	pos := f.src.pkg.Fset.Position(n.Pos())
	f.notes = append(f.notes, fmt.Sprintf("%s:%d: %s", shortFile(pos.Filename), pos.Line, fmt.Sprintf(format, a...)))
}

func isGopacketType(t types.Type) bool {
	n, ok := t.(*types.Named)
	return ok && n.Obj().Pkg() != nil && n.Obj().Pkg().Path() == gopacketPath
}

// plumbing: `x := E` / `x = E` / `v.f = E` where the place has a type of package gopacket and E only converts to gopacket
// types, calls functions and methods of package gopacket (and `LayerType()` of a layer), and takes addresses only of fields
// outside the language: the statement builds the new session's packet decoder and touches nothing that is modelled (a call
// into gopacket is taken not to modify the values it is handed). Not modelled; listed in the doc comment.
func (f *ofn) plumbing(s *ast.AssignStmt) bool {
	if !f.og.phaseHs || len(s.Lhs) != 1 || len(s.Rhs) != 1 {
		return false
	}
	var lt types.Type
	switch l := s.Lhs[0].(type) {
	case *ast.Ident:
		obj := f.info.Defs[l]
		if obj == nil {
			obj = f.info.Uses[l]
		}
		if obj == nil {
			return false
		}
		if _, modelled := f.vars[obj]; modelled {
			return false
		}
		lt = obj.Type()
	case *ast.SelectorExpr:
		sel := f.info.Selections[l]
		if sel == nil || sel.Kind() != types.FieldVal {
			return false
		}
		id, ok := l.X.(*ast.Ident)
		if !ok {
			return false
		}
		if t, known := f.vars[f.info.Uses[id]]; !known || t.k != oStruct {
			return false
		}
		lt = f.info.TypeOf(l)
	default:
		return false
	}
	if !isGopacketType(lt) {
		return false
	}
	ast.Inspect(s.Rhs[0], func(m ast.Node) bool {
		switch x := m.(type) {
		case *ast.FuncLit:
			f.fail(x, "function literal in a statement that builds a gopacket value")
		case *ast.CallExpr:
			if tv, ok := f.info.Types[x.Fun]; ok && tv.IsType() {
				if !isGopacketType(tv.Type) {
					f.fail(x, "conversion to %s in a statement that builds a gopacket value", tv.Type)
				}
				return true
			}
			se, isSel := x.Fun.(*ast.SelectorExpr)
			if isSel && se.Sel.Name == "LayerType" && len(x.Args) == 0 {
				return true
			}
			if callee := staticCallee(f.info, x); callee != nil && callee.Pkg() != nil && callee.Pkg().Path() == gopacketPath {
				return true
			}
			if isSel {
				if sel := f.info.Selections[se]; sel != nil && sel.Kind() == types.MethodVal && isGopacketType(sel.Recv()) {
					return true
				}
			}
			f.fail(x, "call of %s in a statement that builds a gopacket value", types.ExprString(x.Fun))
		case *ast.UnaryExpr:
			if x.Op == token.AND {
				f.escapeField(x)
			}
		}
		return true
	})
	f.note(s, "`%s %s …` builds a value of type %s (the new session's packet decoder; only calls into gopacket)", types.ExprString(s.Lhs[0]), s.Tok, lt)
	return true
}

// escapeField: `&v.f…` handed to gopacket: v must be a local structure that is a partial view, and its field the path starts
// with is then outside the model for good (a later use of it as a modelled field is a give-up)
func (f *ofn) escapeField(x *ast.UnaryExpr) {
	se, ok := x.X.(*ast.SelectorExpr)
	if !ok {
		f.fail(x, "address expression in a statement that builds a gopacket value")
	}
	var root ast.Expr = se
	var first *ast.SelectorExpr
	for {
		s2, ok := root.(*ast.SelectorExpr)
		if !ok {
			break
		}
		first, root = s2, s2.X
	}
	id, ok := root.(*ast.Ident)
	if !ok {
		f.fail(x, "address expression in a statement that builds a gopacket value")
	}
	t, known := f.vars[f.info.Uses[id]]
	sel := f.info.Selections[first]
	if !known || t.k != oStruct || !f.og.partial[t.named] || sel == nil || sel.Kind() != types.FieldVal {
		f.fail(x, "the address of something other than a field of a partially modelled local structure is handed to gopacket")
	}
	fl := t.named.Underlying().(*types.Struct).Field(sel.Index()[0])
	for _, used := range f.og.structs[t.named] {
		if used == fl.Name() {
			f.fail(x, "the address of the modelled field %s.%s is handed to gopacket", t.named.Obj().Name(), fl.Name())
		}
	}
	if f.og.escaped[t.named] == nil {
		f.og.escaped[t.named] = map[string]bool{}
	}
	f.og.escaped[t.named][fl.Name()] = true
}

// randReadIdiom: `if _, err := rand.Read(a[:]); err != nil { return zero…, err }` for a local byte array `a`:
// the PARAMETER `rand_Read` (state, number of bytes asked for ↦ new state, the bytes or `none` = an error)
func (f *ofn) randReadIdiom(s *ast.IfStmt, as *ast.AssignStmt) bool {
	if !f.og.hs || len(as.Rhs) != 1 {
		return false
	}
	call, ok := as.Rhs[0].(*ast.CallExpr)
	if !ok || fullName(staticCallee(f.info, call)) != "crypto/rand.Read" {
		return false
	}
	errObj := f.lastErrObj(as)
	if len(as.Lhs) != 2 || len(call.Args) != 1 || errObj == nil || s.Else != nil || !f.isErrNotNil(s.Cond, errObj) || !f.isPropagate(s.Body, errObj) {
		f.fail(s, "rand.Read whose error is not propagated at once")
	}
	if id, ok := as.Lhs[0].(*ast.Ident); !ok || id.Name != "_" {
		f.fail(s, "rand.Read whose count is used")
	}
	sl, ok := call.Args[0].(*ast.SliceExpr)
	if !ok || sl.Low != nil || sl.High != nil || sl.Max != nil {
		f.fail(s, "rand.Read into something other than a whole local array `a[:]`")
	}
	id, ok := sl.X.(*ast.Ident)
	if !ok {
		f.fail(s, "rand.Read into something other than a whole local array `a[:]`")
	}
	obj := f.info.Uses[id]
	t, known := f.vars[obj]
	if _, isArr := obj.Type().Underlying().(*types.Array); !known || t.k != oBytes || !isArr {
		f.fail(s, "rand.Read into something other than a whole local array `a[:]`")
	}
	if len(f.loops) > 0 || f.inJoin > 0 {
		f.fail(s, "rand.Read inside a loop or a conditional that control flows out of")
	}
	f.need(oparam{"rand_Read", "σ → Nat → σ × Option Bytes",
		"`rand.Read(b)` of crypto/rand: its state and `len(b)` ↦ the new state and the bytes drawn (`none` = a non-nil error); the first `len(b)` of them fill `b`"})
	term := fmt.Sprintf("GoHs.randRead rand_Read %s", f.nameOf(obj))
	if f.hasCell {
		term = "liftCell (" + term + ")"
	}
	tmp := f.tmp("t")
	f.w("let %s ← %s", tmp, term)
	f.w("let %s : Bytes := %s", f.nameOf(obj), tmp)
	return true
}

// payloadSend: `s.buildAndSendPayload(ctx, payload)` with the function's payload struct: the PARAMETER `send_<Payload>`
func (f *ofn) payloadSend(call *ast.CallExpr) (string, bool) {
	callee := staticCallee(f.info, call)
	if callee == nil || !payloadSenders[callee.FullName()] {
		return "", false
	}
	se, ok := call.Fun.(*ast.SelectorExpr)
	if !ok || len(call.Args) != 2 {
		f.fail(call, "%s form", callee.Name())
	}
	if id, ok := se.X.(*ast.Ident); !ok || f.sessObj == nil || f.info.Uses[id] != f.sessObj {
		f.fail(call, "%s on something other than the receiver", callee.Name())
	}
	if cid, ok := call.Args[0].(*ast.Ident); !ok || f.ctxObj == nil || f.info.Uses[cid] != f.ctxObj {
		f.fail(call, "%s with something other than the context parameter", callee.Name())
	}
	if !f.isCellRef(call.Args[1]) || !f.hasCell {
		f.fail(call, "%s with a payload that is not the function's payload struct", callee.Name())
	}
	if f.cellAliased {
		f.fail(call, "a send after the address of a field of the payload struct was taken")
	}
	f.epoch++
	ci := f.cell
	f.need(oparam{ci.sendName(), fmt.Sprintf("σ → %s → σ × %s × Bool", ci.reqT.lean(), ci.rspT.lean()),
		fmt.Sprintf("`s.%s(ctx, payload)` for a `%s.%s`: everything below it (serialisation of the request, the retry loop around transport.Send, decoding down to the session wrapper, `p.Response().DecodeFromBytes`) as a function of its state and the request struct — the new state, what the response struct holds afterwards, whether the error is nil",
			callee.Name(), ci.named.Obj().Pkg().Name(), ci.named.Obj().Name())})
	setRsp := "(fun c _ => c)"
	if ci.rspField != "" {
		setRsp = fmt.Sprintf("(fun c rsp => { c with %s := rsp })", leanField(ci.rspField))
	}
	return fmt.Sprintf("send %s (fun c => c.%s) %s", ci.sendName(), leanField(ci.reqField), setRsp), true
}

// checkErrorArgs: the arguments of fmt.Errorf / errors.New are not modelled; they must not be able to do anything but
// compute a message: no calls but conversions, `len` and hex.EncodeToString, no indexing, slicing or dereference
func (f *ofn) checkErrorArgs(call *ast.CallExpr) {
	if !f.og.phaseHs {
		return
	}
	for _, a := range call.Args {
		ast.Inspect(a, func(m ast.Node) bool {
			switch x := m.(type) {
			case *ast.CallExpr:
				if tv, ok := f.info.Types[x.Fun]; ok && tv.IsType() {
					return true
				}
				if id, ok := x.Fun.(*ast.Ident); ok && id.Name == "len" {
					return true
				}
				if fullName(staticCallee(f.info, x)) == "encoding/hex.EncodeToString" {
					return true
				}
				f.fail(x, "call of %s in the arguments of an error message", types.ExprString(x.Fun))
			case *ast.IndexExpr, *ast.SliceExpr, *ast.StarExpr, *ast.TypeAssertExpr, *ast.FuncLit:
				f.fail(m, "an expression that can panic in the arguments of an error message")
			}
			return true
		})
	}
}

// hsLiteralField: fields of a struct literal with special treatment. (1) a field whose type is outside the language, set to
// `s.f` / `&s.f` of the receiver (the connection the new session shares, its timeout): not modelled, listed. (2) an
// interface-typed field of a partial structure set to a local value whose description is known: the field holds that
// description (every literal must agree).
func (f *ofn) hsLiteralField(lit *ast.CompositeLit, n *types.Named, fl *types.Var, val ast.Expr, fs *[]string) bool {
	if !f.og.hs {
		return false
	}
	if _, sh := f.og.shared[n.Obj().Pkg().Path()+"."+n.Obj().Name()]; sh {
		return false
	}
	f.og.useStruct(n)
	if !f.og.partial[n] {
		return false
	}
	_, over := f.og.fieldOver[n][fl.Name()]
	// (1) rooted at the receiver
	root := val
	if u, ok := root.(*ast.UnaryExpr); ok && u.Op == token.AND {
		root = u.X
	}
	if se, ok := root.(*ast.SelectorExpr); ok && !over {
		if id, ok := se.X.(*ast.Ident); ok && f.sessObj != nil && f.info.Uses[id] == f.sessObj {
			if sel := f.info.Selections[se]; sel != nil && sel.Kind() == types.FieldVal {
				f.note(val, "field `%s.%s` of the literal is set to `%s` (of the receiver: the connection and its settings; type %s outside the language)",
					n.Obj().Name(), fl.Name(), types.ExprString(val), fl.Type())
				return true
			}
		}
	}
	// (2) an interface holding a described value
	if _, inLang := f.og.typeOf(fl.Type()); inLang && !over {
		return false
	}
	if _, isIface := fl.Type().Underlying().(*types.Interface); !isIface {
		return false
	}
	id, ok := val.(*ast.Ident)
	if !ok {
		f.fail(val, "the interface-typed field %s.%s is set to something other than a local variable", n.Obj().Name(), fl.Name())
	}
	vt, known := f.vars[f.info.Uses[id]]
	if !known {
		f.fail(val, "the interface-typed field %s.%s is set to a value without description", n.Obj().Name(), fl.Name())
	}
	if over {
		if !f.og.fieldOver[n][fl.Name()].same(vt) {
			f.fail(val, "the interface-typed field %s.%s holds values of different descriptions", n.Obj().Name(), fl.Name())
		}
	} else {
		if f.og.fieldOver[n] == nil {
			f.og.fieldOver[n] = map[string]*otype{}
		}
		f.og.fieldOver[n][fl.Name()] = vt
	}
	if !f.og.hasField(n, fl.Name()) {
		f.fail(val, "field %s.%s", n.Obj().Name(), fl.Name())
	}
	*fs = append(*fs, fmt.Sprintf("%s := %s", f.og.fieldName(n, fl.Name()), f.nameOf(f.info.Uses[id])))
	return true
}

// checkResponseSlice: x = v.…F reads a SLICE field of a structure an effect handed back (decoded from a response: the slice
// points into the receive buffer, `transport.Send` returns `t.recvBuf[:n]`): after a later exchange the buffer holds
// another datagram
func (f *ofn) checkResponseSlice(x *ast.SelectorExpr, root types.Object) {
	if !f.og.phaseHs {
		return
	}
	at, isRsp := f.rspVars[root]
	if !isRsp || at == f.epoch {
		return
	}
	if _, isSlice := f.info.TypeOf(x).Underlying().(*types.Slice); isSlice {
		f.fail(x, "the slice %s of a decoded response is read after a later exchange (it points into the receive buffer, which the later reply overwrote)", types.ExprString(x))
	}
}

// ---- the key formulas of Gen/Keys.lean ------------------------------------------------------------------------------------

func (f *ofn) needHashSum() {
	f.need(oparam{"hash_Sum", keysHashVal + " → Bytes → Option Bytes",
		"`h.Sum(nil)` for a hash value the module builds, after exactly the given bytes were written into it in the reset state (the contract of hash.Hash: Lemmas/GenKeys.lean `mac`); `none` = the call panics (a `truncatedHash` longer than its MAC)"})
}

func sigIs(sig *types.Signature, params []func(types.Type) bool, results []func(types.Type) bool) bool {
	if sig.Params().Len() != len(params) || sig.Results().Len() != len(results) || sig.Variadic() {
		return false
	}
	for i, p := range params {
		if !p(sig.Params().At(i).Type()) {
			return false
		}
	}
	for i, r := range results {
		if !r(sig.Results().At(i).Type()) {
			return false
		}
	}
	return true
}

func tU8(t types.Type) bool {
	b, ok := t.Underlying().(*types.Basic)
	return ok && b.Kind() == types.Uint8
}
func tBytes(t types.Type) bool {
	s, ok := t.Underlying().(*types.Slice)
	return ok && isPlainByte(s.Elem())
}
func tErr(t types.Type) bool  { return t.String() == "error" }
func tHash(t types.Type) bool { return isNamed(t, "hash", "Hash") }
func tAAP(t types.Type) bool {
	p, ok := t.(*types.Pointer)
	return ok && isNamed(p.Elem(), bmcPath, "authenticationAlgorithmParams")
}
func tKGen(t types.Type) bool { return isNamed(t, bmcPath, "AdditionalKeyMaterialGenerator") }
func tPtrTo(pkg, name string) func(types.Type) bool {
	return func(t types.Type) bool {
		p, ok := t.(*types.Pointer)
		return ok && isNamed(p.Elem(), pkg, name)
	}
}
func tAny(types.Type) bool { return true }

// kGenHash: e is a value of the struct `additionalKeyMaterialGenerator{hash hash.Hash}` handed where the interface
// AdditionalKeyMaterialGenerator is expected: the description of its hash; `g.K(n)` is then `Sum(nil)` of that hash after
// `Keys.K_input n` was written (keygen: `additionalKeyMaterialGenerator.K`)
func (f *ofn) kGenHash(e ast.Expr) string {
	if !isNamed(f.info.TypeOf(e), bmcPath, "additionalKeyMaterialGenerator") {
		f.fail(e, "an AdditionalKeyMaterialGenerator that is not an additionalKeyMaterialGenerator value")
	}
	st := f.info.TypeOf(e).Underlying().(*types.Struct)
	if st.NumFields() != 1 || st.Field(0).Name() != "hash" || !tHash(st.Field(0).Type()) {
		f.fail(e, "additionalKeyMaterialGenerator is not `struct { hash hash.Hash }`")
	}
	v := f.expr(e)
	if v.t.k != oStruct {
		f.fail(e, "an AdditionalKeyMaterialGenerator without description")
	}
	f.needHashSum()
	return fmt.Sprintf("(GoHs.kOf hash_Sum %s.hash Keys.K_input)", paren(v.s))
}

// keysEffect: calls of the regenerated tables that return (value, error)
func (f *ofn) keysEffect(call *ast.CallExpr) (string, []*otype, bool) {
	if !f.og.hs {
		return "", nil, false
	}
	callee := staticCallee(f.info, call)
	if callee == nil || callee.Pkg() == nil || callee.Pkg().Path() != bmcPath {
		return "", nil, false
	}
	sig := callee.Type().(*types.Signature)
	if sig.Recv() != nil {
		return "", nil, false
	}
	switch callee.Name() {
	case "algorithmAuthenticationHashGenerator":
		if !sigIs(sig, []func(types.Type) bool{tU8}, []func(types.Type) bool{tAAP, tErr}) {
			f.fail(call, "signature of %s", callee.Name())
		}
		a := f.exprT(call.Args[0], &otype{k: oU8})
		return fmt.Sprintf("GoHs.optErr (Keys.algorithmAuthenticationHashGenerator %s)", paren(a.s)), []*otype{{k: oExt, ext: keysAAP}}, true
	case "algorithmHasher":
		if !sigIs(sig, []func(types.Type) bool{tU8, tKGen}, []func(types.Type) bool{tHash, tErr}) {
			f.fail(call, "signature of %s", callee.Name())
		}
		a := f.exprT(call.Args[0], &otype{k: oU8})
		return fmt.Sprintf("GoHs.optErr (Keys.algorithmHasher %s %s)", paren(a.s), f.kGenHash(call.Args[1])), []*otype{{k: oExt, ext: keysHashVal}}, true
	case "algorithmCipher":
		if !sigIs(sig, []func(types.Type) bool{tU8, tKGen}, []func(types.Type) bool{tAny, tErr}) {
			f.fail(call, "signature of %s", callee.Name())
		}
		if _, isIface := sig.Results().At(0).Type().Underlying().(*types.Interface); !isIface {
			f.fail(call, "signature of %s", callee.Name())
		}
		a := f.exprT(call.Args[0], &otype{k: oU8})
		f.note(call, "the layer `algorithmCipher` returns is described by the `[16]byte` key it hands to `ipmi.NewAES128CBC` (Gen/Keys.lean: algorithmCipher_k2); that call is taken not to fail (crypto/aes accepts every 16-byte key)")
		return fmt.Sprintf("GoHs.optErr (Keys.algorithmCipher_k2 %s %s)", paren(a.s), f.kGenHash(call.Args[1])), []*otype{{k: oBytes}}, true
	}
	return "", nil, false
}

// keysExpr: calls of the regenerated key formulas and constructors inside expressions, and hmac.Equal
func (f *ofn) keysExpr(c *ast.CallExpr) (oval, bool) {
	if !f.og.hs {
		return oval{}, false
	}
	callee := staticCallee(f.info, c)
	if callee == nil || callee.Pkg() == nil {
		return oval{}, false
	}
	sig := callee.Type().(*types.Signature)
	if callee.FullName() == "crypto/hmac.Equal" {
		if len(c.Args) != 2 {
			f.fail(c, "hmac.Equal form")
		}
		a, b := f.expr(c.Args[0]), f.expr(c.Args[1])
		if a.t.k != oBytes || b.t.k != oBytes {
			f.fail(c, "hmac.Equal of values of unsupported kind")
		}
		return oval{s: fmt.Sprintf("(%s == %s)", paren(a.s), paren(b.s)), t: &otype{k: oBool}}, true // constant time is not modelled: equality of the byte strings
	}
	if callee.Pkg().Path() != bmcPath {
		return oval{}, false
	}
	if sig.Recv() != nil {
		// the constructors of authenticationAlgorithmParams
		if !tAAP(sig.Recv().Type()) {
			return oval{}, false
		}
		switch callee.Name() {
		case "AuthCode", "SIK", "K", "ICV":
		default:
			return oval{}, false
		}
		if !sigIs(sig, []func(types.Type) bool{tBytes}, []func(types.Type) bool{tHash}) {
			f.fail(c, "signature of authenticationAlgorithmParams.%s", callee.Name())
		}
		se := c.Fun.(*ast.SelectorExpr)
		g := f.expr(se.X)
		if g.t.k != oExt || g.t.ext != keysAAP {
			f.fail(c, "receiver of %s", callee.Name())
		}
		key := f.exprT(c.Args[0], &otype{k: oBytes})
		return oval{s: fmt.Sprintf("(Keys.authenticationAlgorithmParams_%s %s %s)", callee.Name(), paren(g.s), paren(key.s)), t: &otype{k: oExt, ext: keysHashVal}}, true
	}
	switch callee.Name() {
	case "calculateSIK", "calculateRAKPMessage2AuthCode", "calculateRAKPMessage3AuthCode", "calculateRAKPMessage4ICV":
	default:
		return oval{}, false
	}
	if !sigIs(sig, []func(types.Type) bool{tHash, tPtrTo(bmcPath+"/pkg/ipmi", "RAKPMessage1"), tPtrTo(bmcPath+"/pkg/ipmi", "RAKPMessage2")}, []func(types.Type) bool{tBytes}) {
		f.fail(c, "signature of %s", callee.Name())
	}
	if f.pure || f.constOnly || f.noHoist > 0 {
		f.fail(c, "call of %s where a panic cannot be expressed", callee.Name())
	}
	h := f.expr(c.Args[0])
	if h.t.k != oExt || h.t.ext != keysHashVal {
		f.fail(c, "the hash handed to %s", callee.Name())
	}
	var ms []string
	for i, a := range c.Args[1:] {
		id, ok := a.(*ast.Ident)
		if !ok {
			f.fail(c, "a message handed to %s that is not a local variable", callee.Name())
		}
		v := f.expr(id)
		if v.t.k != oStruct {
			f.fail(c, "a message handed to %s without description", callee.Name())
		}
		// the fields keygen's structure has, by name: the formulas read scalar and array fields only (Gen/Keys.lean)
		ms = append(ms, fmt.Sprintf("({ %s with } : Keys.RAKPMessage%d)", v.s, i+1))
	}
	f.needHashSum()
	t := f.tmp("t")
	f.w("let %s ← GoHs.sum hash_Sum %s (Keys.%s_input %s)", t, paren(h.s), callee.Name(), strings.Join(ms, " "))
	return oval{s: t, t: &otype{k: oBytes}}, true
}

// ---- main -------------------------------------------------------------------------------------------------------------

func hsMain(g *gen) {
	fmt.Print(orchRun(g, true))
}

func hsHeader() string {
	var out strings.Builder
	out.WriteString("-- GENERATED by hsgen (decgen -hs) from the Go sources; do not edit.\n")
	out.WriteString("-- SESSION ESTABLISHMENT: newV2Session (v2session_new.go) and the wrappers openSession / rakpMessage1 / rakpMessage3\n")
	out.WriteString("-- (v2sessionless.go), statement by statement, over the state monad `GoOrch.M` (see Gen/Orch.lean). PARAMETERS:\n")
	out.WriteString("--   `send_<Payload>`  s.buildAndSendPayload(ctx, payload): state, request struct ↦ new state, response struct afterwards, error is nil\n")
	out.WriteString("--                     (the payload struct is the CELL; nothing is assumed about the response struct after an error);\n")
	out.WriteString("--   `rand_Read`       crypto/rand.Read: state, length ↦ new state, the bytes drawn or none (an error);\n")
	out.WriteString("--   `hash_Sum`        Sum(nil) of a hash value of Gen/Keys.lean after the given bytes were written (none = panic): the TRUSTED\n")
	out.WriteString("--                     contract of hash.Hash, instantiated by Lemmas/GenKeys.lean `mac`;\n")
	out.WriteString("--   those of determineCipherSuite (Gen/Orch.lean): `fuel`, `send_GetChannelCipherSuitesCmd`, `bufferTail`.\n")
	out.WriteString("-- The key formulas, the hash constructors and the algorithm tables are the definitions of Gen/Keys.lean (keygen); a Go\n")
	out.WriteString("-- struct handed to one of them is its `Keys.` view: the fields of the same names (`{ m with }`). hmac.Equal is equality of\n")
	out.WriteString("-- byte strings. Go strings are their bytes. Pointers to structures are the structures' values (non-nil; read-only where\n")
	out.WriteString("-- they are parameters). `.error name` in a result = that sentinel error; any other error = the outcome `err`.\n")
	out.WriteString("import Bmc.Basic.GoHs\nimport Bmc.Gen.Orch\nimport Bmc.Gen.Keys\nnamespace Bmc.Gen.Hs\nopen Bmc Bmc.GoOrch Bmc.Gen.Orch\n\n")
	return out.String()
}

func findTargets(g *gen, list [][3]string, tool string) []*types.Func {
	var out []*types.Func
	for _, t := range list {
		var found *types.Func
		for fn := range g.funcs {
			if fn.Pkg().Path() != t[0] || fn.Name() != t[2] {
				continue
			}
			sig := fn.Type().(*types.Signature)
			rn := ""
			if sig.Recv() != nil {
				rt := sig.Recv().Type()
				if p, ok := rt.(*types.Pointer); ok {
					rt = p.Elem()
				}
				if n, ok := rt.(*types.Named); ok {
					rn = n.Obj().Name()
				}
			}
			if rn == t[1] {
				found = fn
			}
		}
		if found == nil {
			fmt.Fprintf(os.Stderr, "%s: function %s.%s not found\n", tool, t[0], t[2])
			os.Exit(2)
		}
		out = append(out, found)
	}
	return out
}
