package main

import (
	"fmt"
	"go/ast"
	"go/token"
	"go/types"
	"strings"
)

// ---- the state threaded through joins and loops: the running receiver `r` (unless the function has none) and the outer
// variables assigned inside -------------------------------------------------------------------------------------------

func (f *fn) stateNames(vars []types.Object) []string {
	var names []string
	if !f.noRecv {
		names = append(names, "r")
	}
	for _, o := range vars {
		names = append(names, f.vars[o].S)
	}
	return names
}

func packState(names []string) string {
	switch len(names) {
	case 0:
		return "()"
	case 1:
		return names[0]
	}
	return "(" + strings.Join(names, ", ") + ")"
}

// unpackState emits `let r := s.1`, `let v : T := s.2.1`, … for the components of the state named `from`
func (f *fn) unpackState(from string, vars []types.Object, kinds map[types.Object]Val) {
	names := f.stateNames(vars)
	if len(names) == 0 {
		return
	}
	proj := func(i int) string {
		if len(names) == 1 {
			return from
		}
		p := from + strings.Repeat(".2", i)
		if i < len(names)-1 {
			p += ".1"
		}
		return p
	}
	k := 0
	if !f.noRecv {
		if from != "r" || len(names) > 1 {
			f.w("let r := %s", proj(0))
		}
		k = 1
	}
	for i, o := range vars {
		v := f.vars[o]
		if kv, ok := kinds[o]; ok {
			v = kv
		}
		f.w("let %s : %s := %s", v.S, v.leanType(), proj(k+i))
	}
}

// noLoopVarWrites: the body does not assign the loop variable and takes no address
func (f *fn) checkLoopBody(s ast.Node, body *ast.BlockStmt, iObj types.Object) {
	ast.Inspect(body, func(n ast.Node) bool {
		switch x := n.(type) {
		case *ast.AssignStmt:
			for _, l := range x.Lhs {
				if id, ok := l.(*ast.Ident); ok && iObj != nil && f.info.Uses[id] == iObj {
					f.fail(s, "loop body assigns the loop variable")
				}
			}
		case *ast.IncDecStmt:
			if id, ok := x.X.(*ast.Ident); ok && iObj != nil && f.info.Uses[id] == iObj {
				f.fail(s, "loop body assigns the loop variable")
			}
		case *ast.UnaryExpr:
			if x.Op == token.AND {
				f.fail(s, "address taken inside a loop")
			}
		case *ast.FuncLit:
			f.fail(s, "function literal inside a loop")
		}
		return true
	})
}

// pureBoundExpr: e is built from constants, local variables, len(local), conversions, + - * and (translator-known
// constant) method calls; returns the local variables it mentions
func (f *fn) boundVars(e ast.Expr) ([]types.Object, bool) {
	var out []types.Object
	ok := true
	var walk func(e ast.Expr)
	walk = func(e ast.Expr) {
		if tv, has := f.info.Types[e]; has && tv.Value != nil {
			return
		}
		switch x := e.(type) {
		case *ast.ParenExpr:
			walk(x.X)
		case *ast.Ident:
			obj := f.info.Uses[x]
			if _, known := f.vars[obj]; known {
				out = append(out, obj)
				return
			}
			ok = false
		case *ast.BinaryExpr:
			switch x.Op {
			case token.ADD, token.SUB, token.MUL:
				walk(x.X)
				walk(x.Y)
			default:
				ok = false
			}
		case *ast.CallExpr:
			if tv, has := f.info.Types[x.Fun]; has && tv.IsType() && len(x.Args) == 1 {
				walk(x.Args[0])
				return
			}
			if id, isId := x.Fun.(*ast.Ident); isId && id.Name == "len" && len(x.Args) == 1 {
				if _, isB := f.info.Uses[id].(*types.Builtin); isB {
					walk(x.Args[0])
					return
				}
			}
			if se, isSel := x.Fun.(*ast.SelectorExpr); isSel && se.Sel.Name == "BlockSize" && len(x.Args) == 0 {
				return // a constant for the translator (extCall), or a failure when translated
			}
			ok = false
		default:
			ok = false
		}
	}
	walk(e)
	return out, ok
}

// forStmt: a counting loop `for i := a; i < b; i++ { body }` — a, b evaluated once (b is built from constants and local
// variables the body does not assign), `i` not assigned by the body, no break / continue / successful return — runs the
// body for exactly i = a, a+1, …, b-1 in order: a monadic left fold over that list of the receiver and the outer
// variables the body assigns. Any other `for` is a loop with FUEL (whileLoop).
func (f *fn) forStmt(s *ast.ForStmt, ind int) {
	f.ind = ind
	if f.pure {
		f.fail(s, "loop in a pure helper")
	}
	init, ok := s.Init.(*ast.AssignStmt)
	counting := ok && init.Tok == token.DEFINE && len(init.Lhs) == 1 && len(init.Rhs) == 1
	var iObj types.Object
	var cond *ast.BinaryExpr
	if counting {
		iv, isId := init.Lhs[0].(*ast.Ident)
		counting = isId
		if counting {
			iObj = f.info.Defs[iv]
			b, isB := iObj.Type().Underlying().(*types.Basic)
			counting = isB && b.Kind() == types.Int
		}
	}
	if counting {
		cond, ok = s.Cond.(*ast.BinaryExpr)
		counting = ok && cond.Op == token.LSS
		if counting {
			id, isId := cond.X.(*ast.Ident)
			counting = isId && f.info.Uses[id] == iObj
		}
	}
	if counting {
		post, ok := s.Post.(*ast.IncDecStmt)
		counting = ok && post.Tok == token.INC
		if counting {
			id, isId := post.X.(*ast.Ident)
			counting = isId && f.info.Uses[id] == iObj
		}
	}
	var bvars []types.Object
	if counting {
		bvars, counting = f.boundVars(cond.Y)
	}
	if !counting {
		f.whileLoop(s, ind)
		return
	}
	vars := f.assignedOuter(s, s.Body.List)
	for _, o := range vars {
		for _, b := range bvars {
			if o == b {
				f.fail(s, "loop body assigns a variable of the loop bound")
			}
		}
	}
	f.checkLoopBody(s, s.Body, iObj)
	start := f.expr(init.Rhs[0])
	if start.K != KNat && start.K != KInt {
		f.fail(s, "loop start of unsupported kind")
	}
	before := len(f.lines)
	bound := f.expr(cond.Y)
	if len(f.lines) != before {
		f.fail(s, "loop bound with an index or slice expression")
	}
	if bound.K != KNat && bound.K != KInt {
		f.fail(s, "loop bound of unsupported kind")
	}
	startZero := false
	if c, isC := constInt(f.info, init.Rhs[0]); isC && c == 0 {
		startZero = true
	}
	var list string
	ik := KNat
	switch {
	case startZero && bound.K == KNat:
		list = "List.range " + paren(bound.S)
	case startZero && bound.K == KInt:
		list = "List.range (Int.toNat " + paren(bound.S) + ")"
	case start.K == KNat && bound.K == KNat:
		list = fmt.Sprintf("List.range' %s (%s - %s)", paren(start.S), paren(bound.S), paren(start.S))
	default:
		list = fmt.Sprintf("GoDec.intRange %s %s", paren(f.asInt(start)), paren(f.asInt(bound)))
		ik = KInt
	}
	iname := f.nameOf(iObj)
	f.foldLoop(s, ind, vars, iObj, Val{S: iname, K: ik, N: -1}, list, s.Body.List)
}

// foldLoop emits `List.foldlM (fun state x => do body; pure state) state list` and rebinds the state afterwards
func (f *fn) foldLoop(s ast.Node, ind int, vars []types.Object, xObj types.Object, x Val, list string, body []ast.Stmt) {
	names := f.stateNames(vars)
	state := packState(names)
	f.ntmp++
	st := fmt.Sprintf("s%d", f.ntmp)
	savedVars := map[types.Object]Val{}
	for k, v := range f.vars {
		savedVars[k] = v
	}
	f.vars[xObj] = x
	saved := f.lines
	f.lines = nil
	f.inJoin++
	f.ind = ind + 2
	binder := st
	if len(names) == 1 && !f.noRecv {
		binder = "r"
	} else if len(names) == 0 {
		binder = "_"
	} else {
		f.unpackState(st, vars, nil)
	}
	f.block(body, ind+2, func() { f.w("pure %s", state) })
	f.inJoin--
	bodyLines := f.lines
	f.lines = saved
	after := map[types.Object]Val{}
	for _, o := range vars {
		after[o] = f.vars[o]
	}
	f.vars = savedVars
	for _, o := range vars {
		if after[o].K != f.vars[o].K {
			f.fail(s, "loop body changes the kind of variable %s", o.Name())
		}
	}
	f.ind = ind
	res := "r"
	if !(len(names) == 1 && !f.noRecv) {
		f.ntmp++
		res = fmt.Sprintf("j%d", f.ntmp)
	}
	if len(names) == 0 {
		res = "_"
	}
	f.w("let %s ← List.foldlM (fun %s %s => (do", res, binder, x.S)
	f.lines = append(f.lines, bodyLines[:len(bodyLines)-1]...)
	f.lines = append(f.lines, bodyLines[len(bodyLines)-1]+")) "+state+" ("+list+")")
	if res != "r" && res != "_" {
		f.unpackState(res, vars, nil)
	}
	for _, o := range vars {
		v := f.vars[o]
		v.N = -1
		f.vars[o] = v
	}
}

// rangeLoop: `for _, x := range l { body }` over a list value (a slice given as the list of its elements) that the body
// does not assign: a monadic left fold over the list
func (f *fn) rangeLoop(s *ast.RangeStmt, ind int) {
	f.ind = ind
	if s.Key != nil {
		if id, ok := s.Key.(*ast.Ident); !ok || id.Name != "_" {
			f.fail(s, "range loop with an index variable")
		}
	}
	vid, ok := s.Value.(*ast.Ident)
	if !ok || s.Tok != token.DEFINE {
		f.fail(s, "range loop form")
	}
	lid, ok := s.X.(*ast.Ident)
	if !ok {
		f.fail(s, "range over something other than a local variable")
	}
	lObj := f.info.Uses[lid]
	over, known := f.vars[lObj]
	if !known || over.K != KList || over.E == KStruct {
		f.fail(s, "range over a value of unsupported kind")
	}
	vars := f.assignedOuter(s, s.Body.List)
	for _, o := range vars {
		if o == lObj {
			f.fail(s, "range loop body assigns the slice ranged over")
		}
	}
	// element writes `l[i] = …` to the ranged slice would be visible to later iterations
	ast.Inspect(s.Body, func(n ast.Node) bool {
		if as, ok := n.(*ast.AssignStmt); ok {
			for _, l := range as.Lhs {
				if ix, ok := l.(*ast.IndexExpr); ok {
					if id, ok := ix.X.(*ast.Ident); ok && f.info.Uses[id] == lObj {
						f.fail(s, "range loop body assigns an element of the slice ranged over")
					}
				}
			}
		}
		return true
	})
	vObj := f.info.Defs[vid]
	f.checkLoopBody(s, s.Body, vObj)
	f.foldLoop(s, ind, vars, vObj, Val{S: f.nameOf(vObj), K: over.E, N: -1}, over.S, s.Body.List)
}

// whileLoop: any other `for init; cond; post { body }` (no break / continue / successful return inside): GoDec.loopM with
// FUEL = 1 + the sum of the lengths len(x) the condition mentions. Each round evaluates the condition (left to right,
// short-circuit), and when it holds the body and the post statement. Running out of fuel is RF.outOfFuel.
func (f *fn) whileLoop(s *ast.ForStmt, ind int) {
	f.ind = ind
	if s.Cond == nil {
		f.fail(s, "loop without a condition")
	}
	f.requireFuel()
	if s.Init != nil {
		switch init := s.Init.(type) {
		case *ast.AssignStmt:
			f.assign(init)
		default:
			f.fail(s, "loop initialiser of unsupported form")
		}
	}
	// fuel
	var lens []string
	ast.Inspect(s.Cond, func(n ast.Node) bool {
		call, ok := n.(*ast.CallExpr)
		if !ok {
			return true
		}
		if id, ok := call.Fun.(*ast.Ident); ok && id.Name == "len" && len(call.Args) == 1 {
			if _, isB := f.info.Uses[id].(*types.Builtin); isB {
				if aid, ok := call.Args[0].(*ast.Ident); ok {
					if v, ok := f.vars[f.info.Uses[aid]]; ok {
						switch v.K {
						case KSlice:
							lens = append(lens, v.S+".len")
						case KList, KBytes:
							lens = append(lens, paren(v.S)+".length")
						}
					}
				}
			}
		}
		return true
	})
	if len(lens) == 0 {
		f.fail(s, "loop whose condition mentions no length to take the fuel from")
	}
	fuel := strings.Join(lens, " + ") + " + 1"
	var bodyStmts []ast.Stmt
	bodyStmts = append(bodyStmts, s.Body.List...)
	if s.Post != nil {
		bodyStmts = append(bodyStmts, s.Post)
	}
	vars := f.assignedOuter(s, bodyStmts)
	f.checkLoopBody(s, s.Body, nil)

	translate := func() ([]string, map[types.Object]Val, string) {
		names := f.stateNames(vars)
		state := packState(names)
		savedVars := map[types.Object]Val{}
		for k, v := range f.vars {
			savedVars[k] = v
		}
		savedTmp := f.ntmp
		f.ntmp++
		st := fmt.Sprintf("s%d", f.ntmp)
		saved := f.lines
		f.lines = nil
		f.inJoin++
		f.ind = ind + 2
		if len(names) == 1 {
			if names[0] != st {
				f.w("let %s := %s", names[0], st)
			}
		} else {
			f.unpackState(st, vars, nil)
		}
		c := f.expr(s.Cond)
		if c.K != KBool {
			f.fail(s, "loop condition of unsupported kind")
		}
		f.w("if %s then (do", c.S)
		f.block(bodyStmts, ind+3, func() { f.w("pure (some %s)", state) })
		f.lines[len(f.lines)-1] += ") else pure none"
		f.inJoin--
		out := f.lines
		f.lines = saved
		after := map[types.Object]Val{}
		for _, o := range vars {
			after[o] = f.vars[o]
		}
		f.vars = savedVars
		_ = savedTmp
		return out, after, st
	}
	lines, after, st := translate()
	// a variable that starts as ℕ and becomes ℤ in the body is carried as ℤ
	widened := false
	for _, o := range vars {
		if f.vars[o].K == KNat && after[o].K == KInt {
			v := f.vars[o]
			f.ind = ind
			f.w("let %s : Int := %s", v.S, f.asInt(v))
			v.K = KInt
			f.vars[o] = v
			widened = true
		}
	}
	if widened {
		lines, after, st = translate()
	}
	for _, o := range vars {
		if after[o].K != f.vars[o].K {
			f.fail(s, "loop body changes the kind of variable %s", o.Name())
		}
	}
	f.ind = ind
	names := f.stateNames(vars)
	state := packState(names)
	f.ntmp++
	res := fmt.Sprintf("j%d", f.ntmp)
	f.w("let %s ← GoDec.loopM (%s) (fun %s => (do", res, fuel, st)
	f.lines = append(f.lines, lines[:len(lines)-1]...)
	f.lines = append(f.lines, lines[len(lines)-1]+")) "+state)
	if len(names) == 1 {
		f.w("let %s := %s", names[0], res)
	} else {
		f.unpackState(res, vars, nil)
	}
	for _, o := range vars {
		v := f.vars[o]
		v.N = -1
		v.Al = nil
		f.vars[o] = v
	}
}

// cbcDecryptInPlace: `mode := cipher.NewCBCDecrypter(x.block, iv)` followed at once by `mode.CryptBlocks(d[lo:], d[lo:])`
// (d a byte-slice variable): afterwards d denotes the same slice with the bytes lo … len replaced by the decryption, which
// is a PARAMETER of the definition
func (f *fn) cbcDecryptInPlace(as *ast.AssignStmt, newCall *ast.CallExpr, next ast.Stmt) {
	if f.inJoin > 0 || f.params == nil {
		f.fail(as, "in-place decryption inside a conditional, a loop or a callee")
	}
	if as.Tok != token.DEFINE || len(as.Lhs) != 1 || len(newCall.Args) != 2 {
		f.fail(as, "cipher.NewCBCDecrypter form")
	}
	mid, ok := as.Lhs[0].(*ast.Ident)
	if !ok {
		f.fail(as, "cipher.NewCBCDecrypter form")
	}
	modeObj := f.info.Defs[mid]
	path, ok := f.fieldPath(newCall.Args[0])
	if !ok || len(path) != 1 || !externalIface(path[0].Type()) {
		f.fail(as, "cipher.NewCBCDecrypter on something other than a field of the receiver")
	}
	bs := f.g.blockSizeOfField(f, as, path[0])
	iv := f.expr(newCall.Args[1])
	es, ok := next.(*ast.ExprStmt)
	if !ok {
		f.fail(as, "cipher.NewCBCDecrypter not followed at once by CryptBlocks")
	}
	call, ok := es.X.(*ast.CallExpr)
	if !ok || len(call.Args) != 2 {
		f.fail(as, "cipher.NewCBCDecrypter not followed at once by CryptBlocks")
	}
	se, ok := call.Fun.(*ast.SelectorExpr)
	if !ok || se.Sel.Name != "CryptBlocks" {
		f.fail(as, "cipher.NewCBCDecrypter not followed at once by CryptBlocks")
	}
	if id, ok := se.X.(*ast.Ident); !ok || f.info.Uses[id] != modeObj {
		f.fail(as, "cipher.NewCBCDecrypter not followed at once by CryptBlocks")
	}
	// the block mode must not be used again
	uses := 0
	ast.Inspect(f.src.decl.Body, func(n ast.Node) bool {
		if id, ok := n.(*ast.Ident); ok && f.info.Uses[id] == modeObj {
			uses++
		}
		return true
	})
	if uses != 1 {
		f.fail(as, "the block mode is used more than once")
	}
	if types.ExprString(call.Args[0]) != types.ExprString(call.Args[1]) {
		f.fail(call, "CryptBlocks whose destination is not its source")
	}
	sl, ok := call.Args[0].(*ast.SliceExpr)
	if !ok || sl.High != nil || sl.Slice3 || sl.Low == nil {
		f.fail(call, "CryptBlocks on something other than d[lo:]")
	}
	did, ok := sl.X.(*ast.Ident)
	if !ok {
		f.fail(call, "CryptBlocks on something other than d[lo:]")
	}
	dObj := f.info.Uses[did]
	d, ok := f.vars[dObj]
	if !ok || d.K != KSlice || (d.Al != nil) {
		f.fail(call, "CryptBlocks on something other than a byte-slice parameter")
	}
	lo, _ := f.natIndex(sl.Low)
	// slices stored into the receiver earlier must end where the decrypted bytes begin
	for _, a := range f.aliases {
		if a.base != dObj || a.hi == "" || a.hi != lo {
			f.fail(call, "a byte slice stored earlier may overlap the bytes decrypted in place")
		}
	}
	pname := leanField(path[0].Name()) + "_decryptCBC"
	f.params.add(pname, "Bytes → Bytes → Bytes",
		fmt.Sprintf("`cipher.NewCBCDecrypter(x.%s, iv).CryptBlocks(dst, src)`: the plaintext as a function of the IV and the ciphertext (the block cipher in x.%s, set only from aes.NewCipher in the module, hence BlockSize() = %d, is not modelled; a receiver whose %s is nil is outside the translation)",
			path[0].Name(), path[0].Name(), bs, path[0].Name()))
	f.w("let %s ← %s", d.S, f.lift(fmt.Sprintf("GoDec.cryptBlocksInPlace %s %d %s %s %s", pname, bs, paren(f.bytesOf(as, iv)), d.S, paren(lo))))
	// every other byte slice derived from d is stale now
	for o, v := range f.vars {
		if o != dObj && v.K == KSlice {
			delete(f.vars, o)
		}
	}
}
