package main

import (
	"fmt"
	"go/ast"
	"go/token"
	"go/types"
	"sort"
	"strings"
)

type oval struct {
	s    string
	t    *otype
	prop bool // oBool given as a decidable Prop
}

func (v oval) boolTerm() string {
	if v.prop {
		return "decide (" + v.s + ")"
	}
	return v.s
}

type loopCtx struct {
	vars   []types.Object
	hasRet bool
}

// ofn: the state of the translation of one Go function
type ofn struct {
	og        *ogen
	src       funcSrc
	info      *types.Info
	fnObj     *types.Func
	names     map[types.Object]string
	used      map[string]bool
	vars      map[types.Object]*otype
	errVars   map[types.Object]bool // error variables kept as a Bool "the error is nil"
	sessObj   types.Object          // the session the commands are sent on
	ctxObj    types.Object
	cellObj   types.Object
	cell      *cmdInfo
	hasCell   bool // the state is σ × C at this point
	lines     []string
	ind       int
	ntmp      int
	results   []*otype
	loops     []*loopCtx
	inJoin    int
	snap      string // the name the cell is bound to for the statement being translated
	needs     map[string]oparam
	constOnly bool
	pure      bool
	packets   map[types.Object]pktInfo // `p := gopacket.NewPacket(bytes, LT, opts)`
	closure   []types.Object           // inside the closure given to backoff.Retry: the captured variables it assigns
	noHoist   int                      // inside the right operand of && / ||: nothing may be hoisted in front of the statement

	// hs.go
	track       bool                 // a sentinel error returned directly is told apart: the result is `Except String T`
	notes       []string             // what is not modelled (printed in the doc comment)
	epoch       int                  // number of exchanges so far on this path
	rspVars     map[types.Object]int // structures decoded from a response: the epoch they were obtained in
	cellAliased bool                 // the address of a field of the command struct was taken: no further send
}

func (f *ofn) fail(n ast.Node, format string, a ...interface{}) {
	pos := f.src.pkg.Fset.Position(n.Pos())
	panic(giveUp{fmt.Sprintf("%s:%d: %s", shortFile(pos.Filename), pos.Line, fmt.Sprintf(format, a...))})
}

func (f *ofn) w(format string, a ...interface{}) {
	f.lines = append(f.lines, strings.Repeat("  ", f.ind)+fmt.Sprintf(format, a...))
}

func (f *ofn) tmp(prefix string) string {
	f.ntmp++
	return fmt.Sprintf("%s%d", prefix, f.ntmp)
}

func (f *ofn) nameOf(obj types.Object) string {
	if n, ok := f.names[obj]; ok {
		return n
	}
	base := obj.Name()
	isTmp := func(p byte) bool {
		return len(base) > 1 && base[0] == p && base[1] >= '0' && base[1] <= '9'
	}
	if leanReserved[base] || base == "_" || isTmp('t') || isTmp('j') || isTmp('s') || isTmp('c') || base == "fuel" || base == "bufferTail" ||
		strings.HasPrefix(base, "send_") || strings.HasPrefix(base, "call_") {
		base += "_"
	}
	n := base
	for i := 1; f.used[n]; i++ {
		n = fmt.Sprintf("%s_%d", base, i)
	}
	f.used[n] = true
	f.names[obj] = n
	return n
}

func (f *ofn) need(p oparam) {
	if f.needs != nil {
		f.needs[p.name] = p
	}
}

type pktInfo struct {
	bytes string
	layer *types.Named
}

// ---- a function of the module -----------------------------------------------------------------------------------------

// function translates (once) the function fn into its own definition
func (og *ogen) function(fn *types.Func, from *ofn) *ofnInfo {
	failAt := func(format string, a ...interface{}) {
		panic(giveUp{fmt.Sprintf("%s: %s", orchDisplayName(fn), fmt.Sprintf(format, a...))})
	}
	if fi, ok := og.fns[fn]; ok {
		return fi
	}
	if og.inProgress[fn] {
		failAt("recursive call")
	}
	src, ok := og.g.funcs[fn]
	if !ok {
		failAt("no source")
	}
	og.inProgress[fn] = true
	defer delete(og.inProgress, fn)
	sig := fn.Type().(*types.Signature)
	f := &ofn{og: og, src: src, info: src.pkg.TypesInfo, fnObj: fn, names: map[types.Object]string{}, used: map[string]bool{"σ": true},
		vars: map[types.Object]*otype{}, errVars: map[types.Object]bool{}, needs: map[string]oparam{}, packets: map[types.Object]pktInfo{},
		rspVars: map[types.Object]int{}}
	info := &ofnInfo{name: orchLeanName(fn), needs: f.needs}
	wrap := func(run func()) {
		defer func() {
			if r := recover(); r != nil {
				if gu, ok := r.(giveUp); ok && from != nil {
					panic(giveUp{fmt.Sprintf("%s (in %s)", gu.msg, orchDisplayName(fn))})
				}
				panic(r)
			}
		}()
		run()
	}
	var pdecl []string
	wrap(func() {
		// results
		nres := sig.Results().Len()
		hasErr := nres > 0 && sig.Results().At(nres-1).Type().String() == "error"
		nval := nres
		if hasErr {
			nval--
		}
		for i := 0; i < nval; i++ {
			t, ok := og.typeOf(sig.Results().At(i).Type())
			if !ok {
				f.fail(src.decl, "result of type %s", sig.Results().At(i).Type())
			}
			f.results = append(f.results, t)
		}
		info.results = f.results
		f.pure = !hasErr
		info.pure = f.pure
		if og.phaseHs && og.hsTrack[fn] && hasErr && len(f.results) == 1 && f.returnsSentinel() {
			f.track, info.track = true, true
		}
		// receiver and parameters
		bind := func(id *ast.Ident, isRecv bool) {
			obj := f.info.Defs[id]
			if obj == nil {
				f.fail(id, "blank parameter")
			}
			t := obj.Type()
			if isContext(t) {
				f.ctxObj = obj
				return
			}
			if isSession(t) {
				if f.sessObj != nil {
					f.fail(id, "two session parameters")
				}
				f.sessObj = obj
				return
			}
			if _, isPtr := t.(*types.Pointer); isPtr {
				if ci := og.cmdOf(t); ci != nil {
					if f.cellObj != nil {
						f.fail(id, "two command parameters")
					}
					f.cellObj, f.cell, f.hasCell = obj, ci, true
					info.cell = ci
					return
				}
				if !f.readOnlyStructPtr(obj) {
					f.fail(id, "pointer parameter %s of type %s", id.Name, t)
				}
			}
			ot, ok := og.typeOf(t)
			if !ok {
				f.fail(id, "parameter %s of type %s", id.Name, t)
			}
			f.vars[obj] = ot
			pdecl = append(pdecl, fmt.Sprintf("(%s : %s)", f.nameOf(obj), ot.lean()))
			info.params = append(info.params, ot.lean())
		}
		if src.decl.Recv != nil {
			if len(src.decl.Recv.List) != 1 || len(src.decl.Recv.List[0].Names) != 1 {
				f.fail(src.decl, "unnamed receiver")
			}
			bind(src.decl.Recv.List[0].Names[0], true)
		}
		for _, p := range src.decl.Type.Params.List {
			if len(p.Names) == 0 {
				f.fail(p, "unnamed parameter")
			}
			for _, id := range p.Names {
				bind(id, false)
			}
		}
		if f.pure && (f.sessObj != nil || f.cellObj != nil) {
			f.fail(src.decl, "a function with a session or command parameter that returns no error")
		}
		if f.pure {
			if len(f.results) != 1 {
				f.fail(src.decl, "a function without an error result must have exactly one result")
			}
			f.pureBody(src.decl.Body.List)
		} else {
			f.block(src.decl.Body.List, 1, nil)
		}
	})
	pos := src.pkg.Fset.Position(src.decl.Pos())
	var b strings.Builder
	fmt.Fprintf(&b, "/-- translated from `%s` (%s)", fn.FullName(), shortFile(pos.Filename))
	if info.cell != nil {
		fmt.Fprintf(&b, "\n    CELL: the `%s.%s` behind the pointer parameter `%s`", info.cell.named.Obj().Pkg().Name(), info.cell.named.Obj().Name(), f.cellObj.Name())
	}
	needs := sortedNeeds(f.needs)
	var ps []string
	for _, p := range needs {
		fmt.Fprintf(&b, "\n    PARAMETER `%s`: %s", p.name, p.doc)
		ps = append(ps, fmt.Sprintf("(%s : %s)", p.name, p.typ))
	}
	if f.track {
		b.WriteString("\n    RESULT `Except.error name`: the function returns the package-level sentinel error `name` itself (callers compare with `==`); every other non-nil error is the outcome `err`")
	}
	for _, n := range f.notes {
		fmt.Fprintf(&b, "\n    NOT MODELLED: %s", n)
	}
	b.WriteString(" -/\n")
	if f.pure {
		fmt.Fprintf(&b, "def %s %s : %s :=\n", info.name, strings.Join(pdecl, " "), f.results[0].lean())
	} else {
		state := "σ"
		if info.cell != nil {
			state = "(σ × " + info.cell.named.Obj().Name() + ")"
		}
		res := paren(resultLean(f.results))
		if f.track {
			res = "(Except String " + res + ")"
		}
		fmt.Fprintf(&b, "def %s {σ : Type} %s : M %s %s := do\n", info.name, strings.Join(append(ps, pdecl...), " "), state, res)
	}
	b.WriteString(strings.Join(f.lines, "\n"))
	b.WriteString("\n")
	og.defs[info.name] = b.String()
	og.defOrder = append(og.defOrder, info.name)
	og.fns[fn] = info
	return info
}

func resultLean(res []*otype) string {
	switch len(res) {
	case 0:
		return "Unit"
	case 1:
		return res[0].lean()
	}
	var parts []string
	for _, r := range res {
		parts = append(parts, r.lean())
	}
	return strings.Join(parts, " × ")
}

func isContext(t types.Type) bool {
	n, ok := t.(*types.Named)
	return ok && n.Obj().Pkg() != nil && n.Obj().Pkg().Path() == "context" && n.Obj().Name() == "Context"
}

// isSession: a value commands are sent on: a type of the module with a method SendCommand
func isSession(t types.Type) bool {
	base := t
	if p, ok := base.(*types.Pointer); ok {
		base = p.Elem()
	}
	n, ok := base.(*types.Named)
	if !ok || n.Obj().Pkg() == nil || n.Obj().Pkg().Path() != "github.com/gebn/bmc" {
		return false
	}
	ms := types.NewMethodSet(t)
	for i := 0; i < ms.Len(); i++ {
		if ms.At(i).Obj().Name() == "SendCommand" {
			return true
		}
	}
	return false
}

// argsFor: the needs of a callee, in canonical order, as arguments (the caller needs them too)
func (f *ofn) argsFor(fi *ofnInfo) string {
	var out []string
	for _, p := range sortedNeeds(fi.needs) {
		f.need(p)
		out = append(out, p.name)
	}
	return strings.Join(out, " ")
}

// ---- pure functions (no error result): assignments, range folds, a final return -----------------------------------------

func (f *ofn) pureBody(stmts []ast.Stmt) {
	f.ind = 1
	for i, s := range stmts {
		switch s := s.(type) {
		case *ast.AssignStmt:
			f.assign(s)
		case *ast.RangeStmt:
			f.pureRange(s)
		case *ast.ReturnStmt:
			if i != len(stmts)-1 || len(s.Results) != 1 {
				f.fail(s, "return form in a function without an error result")
			}
			v := f.exprT(s.Results[0], f.results[0])
			f.w("%s", v.s)
			for _, l := range f.lines {
				if strings.Contains(l, "←") {
					f.fail(s, "an effect in a function without an error result")
				}
			}
			return
		default:
			f.fail(s, "statement in a function without an error result")
		}
	}
	panic(giveUp{"function without a final return"})
}

// pureRange: `for _, v := range x { acc += e }` (e does not mention acc): a left fold. Over a MAP the iteration order is
// unspecified: accepted because the body is a sum of ints (commutative, no wrap-around in ℕ); the fold runs over the
// association list in insertion order.
func (f *ofn) pureRange(s *ast.RangeStmt) {
	over := f.expr(s.X)
	if over.t.k != oList && over.t.k != oMap {
		f.fail(s, "range over a value of unsupported kind")
	}
	if len(s.Body.List) != 1 || s.Tok != token.DEFINE {
		f.fail(s, "range loop body with more than one statement")
	}
	as, ok := s.Body.List[0].(*ast.AssignStmt)
	if !ok || len(as.Lhs) != 1 || len(as.Rhs) != 1 || as.Tok != token.ADD_ASSIGN {
		f.fail(s, "range loop body other than `acc += e`")
	}
	accId, ok := as.Lhs[0].(*ast.Ident)
	if !ok {
		f.fail(s, "range loop body other than `acc += e`")
	}
	accObj := f.info.Uses[accId]
	acc, known := f.vars[accObj]
	if !known || acc.k != oNat {
		f.fail(s, "range loop accumulator that is not an int variable")
	}
	ast.Inspect(as.Rhs[0], func(n ast.Node) bool {
		if id, ok := n.(*ast.Ident); ok && f.info.Uses[id] == accObj {
			f.fail(s, "range loop body other than `acc += e` with e independent of acc")
		}
		return true
	})
	binder := "_"
	bind := func(e ast.Expr, t *otype, proj string) {
		if e == nil {
			return
		}
		id, ok := e.(*ast.Ident)
		if !ok {
			f.fail(s, "range loop form")
		}
		if id.Name == "_" {
			return
		}
		obj := f.info.Defs[id]
		f.vars[obj] = t
		if binder == "_" {
			binder = f.tmp("e")
		}
		f.names[obj] = "(" + binder + proj + ")"
	}
	if over.t.k == oMap {
		bind(s.Key, over.t.key, ".1")
		bind(s.Value, over.t.elem, ".2")
	} else {
		if s.Key != nil {
			if id, ok := s.Key.(*ast.Ident); !ok || id.Name != "_" {
				f.fail(s, "range loop with an index variable")
			}
		}
		bind(s.Value, over.t.elem, "")
	}
	e := f.expr(as.Rhs[0])
	if e.t.k != oNat {
		f.fail(s, "range loop body other than `acc += e` on ints")
	}
	an := f.nameOf(accObj)
	f.w("let %s : Nat := List.foldl (fun %s %s => (%s + %s)) %s %s", an, an, binder, an, e.s, an, paren(over.s))
}

// ---- blocks -----------------------------------------------------------------------------------------------------------

func (f *ofn) oterminates(stmts []ast.Stmt) bool {
	if len(stmts) == 0 {
		return false
	}
	switch s := stmts[len(stmts)-1].(type) {
	case *ast.ReturnStmt:
		return true
	case *ast.BranchStmt:
		return s.Label == nil && (s.Tok == token.BREAK || s.Tok == token.CONTINUE)
	case *ast.BlockStmt:
		return f.oterminates(s.List)
	case *ast.IfStmt:
		if s.Else == nil {
			return false
		}
		return f.oterminates(s.Body.List) && f.oterminates(elseStmts(s.Else))
	}
	return false
}

// state: the tuple of the loop / join variables
func (f *ofn) stateOf(vars []types.Object) string {
	var names []string
	for _, o := range vars {
		names = append(names, f.nameOf(o))
	}
	return packState(names)
}

func (f *ofn) unpack(from string, vars []types.Object) {
	for i, o := range vars {
		p := from
		if len(vars) > 1 {
			p = from + strings.Repeat(".2", i)
			if i < len(vars)-1 {
				p += ".1"
			}
		}
		f.w("let %s : %s := %s", f.nameOf(o), f.varType(o).lean(), p)
	}
}

func (f *ofn) stateType(vars []types.Object) string {
	if len(vars) == 0 {
		return "Unit"
	}
	var parts []string
	for _, o := range vars {
		parts = append(parts, f.varType(o).lean())
	}
	return strings.Join(parts, " × ")
}

func (f *ofn) varType(o types.Object) *otype {
	if f.errVars[o] {
		return &otype{k: oBool}
	}
	return f.vars[o]
}

// fallOff: what happens when control reaches the end of a loop body / join branch / function
type ofin func()

func (f *ofn) sub(stmts []ast.Stmt, ind int, fin ofin) []string {
	saved := f.lines
	savedVars := map[types.Object]*otype{}
	for k, v := range f.vars {
		savedVars[k] = v
	}
	savedErr := map[types.Object]bool{}
	for k, v := range f.errVars {
		savedErr[k] = v
	}
	f.lines = nil
	f.block(stmts, ind, fin)
	out := f.lines
	f.lines = saved
	f.vars = savedVars
	f.errVars = savedErr
	return out
}

func (f *ofn) appendBlock(lines []string, closing string) {
	f.lines = append(f.lines, lines[:len(lines)-1]...)
	f.lines = append(f.lines, lines[len(lines)-1]+closing)
}

func (f *ofn) block(stmts []ast.Stmt, ind int, fin ofin) {
	for i := 0; i < len(stmts); i++ {
		f.ind = ind
		f.snap = ""
		s := stmts[i]
		rest := stmts[i+1:]
		switch s := s.(type) {
		case *ast.BlockStmt:
			f.block(append(append([]ast.Stmt{}, s.List...), rest...), ind, fin)
			return
		case *ast.ReturnStmt:
			f.ret(s)
			return
		case *ast.BranchStmt:
			f.branchStmt(s)
			return
		case *ast.ExprStmt:
			f.exprStmt(s)
		case *ast.IncDecStmt:
			f.incDec(s)
		case *ast.DeclStmt:
			f.declStmt(s)
		case *ast.AssignStmt:
			if f.plumbing(s) {
				continue
			}
			// the cell: `cmd := &T{…}` / `x := T{…}` whose address is given to SendCommand
			if f.cellCreation(s) {
				if f.inJoin > 0 || len(f.loops) > 0 || ind != 1 {
					f.fail(s, "a command struct allocated inside a conditional or a loop")
				}
				init := f.exprT(s.Rhs[0], &otype{k: oStruct, named: f.cell.named})
				f.w("withCell %s (do", paren(init.s))
				f.hasCell = true
				f.block(rest, ind+1, fin)
				f.lines[len(f.lines)-1] += ")"
				return
			}
			if f.packetIdiom(s) {
				continue
			}
			if f.retryIdiom(s, rest, ind) {
				i++
				continue
			}
			if len(s.Rhs) == 1 {
				if call, ok := s.Rhs[0].(*ast.CallExpr); ok {
					if term, resT, ok := f.effect(call); ok {
						errObj := f.lastErrObj(s)
						if errObj == nil {
							f.fail(s, "an effect whose error is not stored")
						}
						if len(rest) > 0 {
							if next, ok := rest[0].(*ast.IfStmt); ok && next.Init == nil && next.Else == nil && f.isErrNotNil(next.Cond, errObj) && f.isPropagate(next.Body, errObj) {
								f.bindEffect(s, term, resT, s.Lhs[:len(s.Lhs)-1], s.Tok == token.DEFINE)
								if f.errVars[errObj] {
									f.w("let %s : Bool := true", f.nameOf(errObj)) // control goes on only when the error is nil
								}
								i++
								continue
							}
						}
						f.tryEffect(s, term, resT, s.Lhs[:len(s.Lhs)-1], errObj)
						continue
					}
				}
			}
			f.assign(s)
		case *ast.IfStmt:
			if f.ifStmt(s, rest, ind, fin) {
				return
			}
		case *ast.ForStmt:
			if f.forStmt(s, rest, ind, fin) {
				return
			}
		case *ast.RangeStmt:
			if f.rangeStmt(s, rest, ind, fin) {
				return
			}
		default:
			f.fail(s, "statement of unsupported form")
		}
	}
	f.ind = ind
	f.snap = ""
	if fin == nil {
		panic(giveUp{"control reaches the end of a block that must return"})
	}
	fin()
}

func (f *ofn) lastErrObj(s *ast.AssignStmt) types.Object {
	id, ok := s.Lhs[len(s.Lhs)-1].(*ast.Ident)
	if !ok || id.Name == "_" {
		return nil
	}
	obj := f.info.Defs[id]
	if obj == nil {
		obj = f.info.Uses[id]
	}
	if obj == nil || obj.Type().String() != "error" {
		return nil
	}
	return obj
}

func (f *ofn) isErrNotNil(e ast.Expr, errObj types.Object) bool {
	b, ok := e.(*ast.BinaryExpr)
	if !ok || b.Op != token.NEQ || !isNilIdent(b.Y) {
		return false
	}
	id, ok := b.X.(*ast.Ident)
	return ok && errObj != nil && f.info.Uses[id] == errObj
}

// isPropagate: the block is `return zero…, err`
func (f *ofn) isPropagate(body *ast.BlockStmt, errObj types.Object) bool {
	if len(body.List) != 1 {
		return false
	}
	ret, ok := body.List[0].(*ast.ReturnStmt)
	if !ok || len(ret.Results) != len(f.results)+1 {
		return false
	}
	id, ok := ret.Results[len(ret.Results)-1].(*ast.Ident)
	if !ok || f.info.Uses[id] != errObj {
		return false
	}
	for _, r := range ret.Results[:len(ret.Results)-1] {
		if !f.isZero(r) {
			f.fail(ret, "an error returned together with a value that is not the zero value")
		}
	}
	return true
}

// isZero: nil, a zero constant, or an empty composite literal
func (f *ofn) isZero(e ast.Expr) bool {
	if isNilIdent(e) {
		return true
	}
	if v, _, ok := constOf(f.info, e); ok {
		return v.String() == "0" || v.String() == "false" || v.String() == `""`
	}
	if cl, ok := e.(*ast.CompositeLit); ok {
		return len(cl.Elts) == 0
	}
	return false
}

// ---- effects: sends and calls of translated functions -----------------------------------------------------------------

// sendArg: e is `ValidateResponse(s.SendCommand(ctx, X))`: returns X
func (f *ofn) sendArg(call *ast.CallExpr) (ast.Expr, bool) {
	callee := staticCallee(f.info, call)
	if callee == nil || callee.FullName() != "github.com/gebn/bmc.ValidateResponse" || len(call.Args) != 1 {
		return nil, false
	}
	inner, ok := call.Args[0].(*ast.CallExpr)
	if !ok || len(inner.Args) != 2 {
		return nil, false
	}
	se, ok := inner.Fun.(*ast.SelectorExpr)
	if !ok || se.Sel.Name != "SendCommand" {
		return nil, false
	}
	id, ok := se.X.(*ast.Ident)
	if !ok || f.sessObj == nil || f.info.Uses[id] != f.sessObj {
		f.fail(call, "SendCommand on something other than the session parameter")
	}
	if cid, ok := inner.Args[0].(*ast.Ident); !ok || f.ctxObj == nil || f.info.Uses[cid] != f.ctxObj {
		f.fail(call, "SendCommand with something other than the context parameter")
	}
	return inner.Args[1], true
}

// isCellRef: e denotes the address of the cell (`cmd` for a pointer, `&x` for a value)
func (f *ofn) isCellRef(e ast.Expr) bool {
	if f.cellObj == nil {
		return false
	}
	_, cellIsPtr := f.cellObj.Type().(*types.Pointer)
	if u, ok := e.(*ast.UnaryExpr); ok && u.Op == token.AND && !cellIsPtr {
		id, ok := u.X.(*ast.Ident)
		return ok && f.info.Uses[id] == f.cellObj
	}
	if id, ok := e.(*ast.Ident); ok && cellIsPtr {
		return f.info.Uses[id] == f.cellObj
	}
	return false
}

// effect: the call is a send, a call of a translated function returning (…, error), a typed wrapper method of the session,
// or a byte parser of Gen/Dec.lean; returns the Lean term (of type M state result) and the result types
func (f *ofn) effect(call *ast.CallExpr) (string, []*otype, bool) {
	if f.pure || f.constOnly {
		return "", nil, false
	}
	if term, resT, ok := f.keysEffect(call); ok {
		return term, resT, true
	}
	if term, ok := f.payloadSend(call); ok {
		return term, nil, true
	}
	if arg, ok := f.sendArg(call); ok {
		if !f.isCellRef(arg) || !f.hasCell {
			f.fail(call, "SendCommand with a command that is not the function's command struct")
		}
		if f.cellAliased {
			f.fail(call, "a send after the address of a field of the command struct was taken")
		}
		f.epoch++
		ci := f.cell
		f.need(oparam{ci.sendName(), fmt.Sprintf("σ → %s → σ × %s × Bool", ci.reqT.lean(), ci.rspT.lean()),
			fmt.Sprintf("`ValidateResponse(s.SendCommand(ctx, cmd))` for a `%s.%s`: the BMC (and everything below SendCommand) as a function of its state and the request struct — the new state, what the response struct holds afterwards, whether the error is nil",
				ci.named.Obj().Pkg().Name(), ci.named.Obj().Name())})
		setRsp := "(fun c _ => c)"
		if ci.rspField != "" {
			setRsp = fmt.Sprintf("(fun c rsp => { c with %s := rsp })", leanField(ci.rspField))
		}
		return fmt.Sprintf("send %s (fun c => c.%s) %s", ci.sendName(), leanField(ci.reqField), setRsp), nil, true
	}
	sig, _ := f.info.TypeOf(call.Fun).(*types.Signature)
	if sig == nil || sig.Results().Len() == 0 || sig.Results().At(sig.Results().Len()-1).Type().String() != "error" {
		return "", nil, false
	}
	// a wrapper method of the session: `s.M(ctx)` returning (*Rsp, error)
	if se, ok := call.Fun.(*ast.SelectorExpr); ok {
		if id, ok := se.X.(*ast.Ident); ok && f.sessObj != nil && f.info.Uses[id] == f.sessObj && staticCallee(f.info, call) == nil {
			f.epoch++
			if len(call.Args) != 1 || sig.Results().Len() != 2 {
				f.fail(call, "session method %s with arguments or several results", se.Sel.Name)
			}
			if cid, ok := call.Args[0].(*ast.Ident); !ok || f.ctxObj == nil || f.info.Uses[cid] != f.ctxObj {
				f.fail(call, "session method %s with something other than the context parameter", se.Sel.Name)
			}
			rt, ok := f.og.typeOf(sig.Results().At(0).Type())
			if !ok {
				f.fail(call, "session method %s: result type %s", se.Sel.Name, sig.Results().At(0).Type())
			}
			name := "call_" + se.Sel.Name
			f.need(oparam{name, fmt.Sprintf("σ → σ × Option %s", paren(rt.lean())),
				fmt.Sprintf("`s.%s(ctx)` (a wrapper around SendCommand allocating its own command): the new state and the response struct, `none` = a non-nil error", se.Sel.Name)})
			term := "call " + name
			if f.hasCell {
				term = "liftCell (" + term + ")"
			}
			return term, []*otype{rt}, true
		}
	}
	callee := staticCallee(f.info, call)
	if callee == nil {
		return "", nil, false
	}
	if lean, ok := decgenFuncs[callee.FullName()]; ok {
		// a byte parser of Gen/Dec.lean applied to `buf.Bytes()`
		if len(call.Args) != 1 || sig.Results().Len() != 2 {
			f.fail(call, "call of %s", callee.Name())
		}
		rt, ok := f.og.typeOf(sig.Results().At(0).Type())
		if !ok {
			f.fail(call, "call of %s: result type", callee.Name())
		}
		arg := f.expr(call.Args[0])
		if arg.t.k != oBytes {
			f.fail(call, "call of %s: argument", callee.Name())
		}
		f.need(oparam{"bufferTail", "Bytes", "what lies between the length and the capacity of a byte slice handed to a byte parser (indeterminate)"})
		return fmt.Sprintf("liftRF (%s (GoSlice.window %s bufferTail))", lean, paren(arg.s)), []*otype{rt}, true
	}
	if _, inModule := f.og.g.funcs[callee]; !inModule {
		return "", nil, false
	}
	fi := f.og.function(callee, f)
	if fi.pure {
		return "", nil, false
	}
	if fi.track {
		f.fail(call, "call of %s, whose sentinel errors are told apart", callee.Name())
	}
	f.epoch++
	csig := callee.Type().(*types.Signature)
	var args []string
	checkArg := func(a ast.Expr, pt types.Type) {
		switch {
		case isContext(pt):
			if id, ok := a.(*ast.Ident); !ok || f.info.Uses[id] != f.ctxObj {
				f.fail(call, "call of %s with something other than the context parameter", callee.Name())
			}
		case isSession(pt):
			if id, ok := a.(*ast.Ident); !ok || f.info.Uses[id] != f.sessObj {
				f.fail(call, "call of %s with something other than the session parameter", callee.Name())
			}
		case f.og.cmdOf(pt) != nil && isPointer(pt):
			if !f.isCellRef(a) || !f.hasCell || f.cell != fi.cell {
				f.fail(call, "call of %s with a command that is not the function's command struct", callee.Name())
			}
		default:
			pot, _ := f.og.typeOf(pt)
			args = append(args, paren(f.exprT(a, pot).s))
		}
	}
	if csig.Recv() != nil {
		se := call.Fun.(*ast.SelectorExpr)
		checkArg(se.X, csig.Recv().Type())
	}
	for i, a := range call.Args {
		checkArg(a, csig.Params().At(i).Type())
	}
	term := strings.TrimSpace(fi.name + " " + f.argsFor(fi) + " " + strings.Join(args, " "))
	if f.hasCell && fi.cell == nil {
		term = "liftCell (" + term + ")"
	}
	if !f.hasCell && fi.cell != nil {
		f.fail(call, "call of %s without a command struct", callee.Name())
	}
	return term, fi.results, true
}

func isPointer(t types.Type) bool {
	_, ok := t.(*types.Pointer)
	return ok
}

// bindEffect: `lhs…, err := EFFECT` with the error propagated at once
func (f *ofn) bindEffect(n ast.Node, term string, resT []*otype, lhs []ast.Expr, define bool) {
	if len(lhs) != len(resT) {
		f.fail(n, "result count")
	}
	if len(resT) == 0 {
		f.w("%s", term)
		return
	}
	t := f.tmp("t")
	f.w("let %s ← %s", t, term)
	f.storeResults(n, t, resT, lhs)
}

func (f *ofn) storeResults(n ast.Node, t string, resT []*otype, lhs []ast.Expr) {
	for i, l := range lhs {
		id, ok := l.(*ast.Ident)
		if !ok {
			f.fail(n, "result stored into something other than a variable")
		}
		if id.Name == "_" {
			continue
		}
		obj := f.info.Defs[id]
		if obj == nil {
			obj = f.info.Uses[id]
		}
		if obj == f.cellObj {
			f.fail(n, "the command struct is assigned")
		}
		proj := t
		if len(resT) > 1 {
			proj = t + strings.Repeat(".2", i)
			if i < len(resT)-1 {
				proj += ".1"
			}
		}
		f.w("let %s : %s := %s", f.nameOf(obj), resT[i].lean(), proj)
		f.vars[obj] = resT[i]
		if resT[i].k == oStruct {
			f.rspVars[obj] = f.epoch // what an effect hands back may point into the receive buffer
		}
	}
}

// tryEffect: `lhs…, err := EFFECT` whose error is looked at later: the values are the zero values when an error came back
// (every translated function returns zero values with an error), `err` is kept as the Boolean "the error is nil"
func (f *ofn) tryEffect(n ast.Node, term string, resT []*otype, lhs []ast.Expr, errObj types.Object) {
	if len(lhs) != len(resT) {
		f.fail(n, "result count")
	}
	t := f.tmp("t")
	f.w("let %s ← try_ (%s)", t, term)
	if len(resT) > 0 {
		v := f.tmp("t")
		f.w("let %s : %s := match %s with | some a => a | none => %s", v, paren(resultLean(resT)), t, zeroTuple(resT))
		f.storeResults(n, v, resT, lhs)
	}
	f.errVars[errObj] = true
	if _, named := f.names[errObj]; !named {
		base := errObj.Name() + "IsNil"
		nm := base
		for i := 1; f.used[nm]; i++ {
			nm = fmt.Sprintf("%s_%d", base, i)
		}
		f.used[nm] = true
		f.names[errObj] = nm
	}
	f.w("let %s : Bool := %s.isSome", f.nameOf(errObj), t)
}

func zeroTuple(resT []*otype) string {
	var zs []string
	for _, r := range resT {
		zs = append(zs, r.zero())
	}
	if len(zs) == 1 {
		return zs[0]
	}
	return "(" + strings.Join(zs, ", ") + ")"
}

// ---- return / break / continue ------------------------------------------------------------------------------------------

func (f *ofn) emitFail() { f.w("fail") }

// emitReturn: a successful return of the value v
func (f *ofn) emitReturn(n ast.Node, v string) {
	if f.track {
		v = "(Except.ok " + paren(v) + ")"
	}
	f.emitReturnRaw(n, v)
}

func (f *ofn) emitReturnRaw(n ast.Node, v string) {
	if f.inJoin > 0 {
		f.fail(n, "a return inside a conditional that control flows out of")
	}
	if f.closure != nil {
		// `return nil` in the closure given to backoff.Retry: the captured variables it assigned
		if len(f.loops) > 0 {
			f.fail(n, "a return inside a loop inside a closure")
		}
		f.w("pure %s", f.stateOf(f.closure))
		return
	}
	if len(f.loops) > 0 {
		for _, l := range f.loops {
			l.hasRet = true
		}
		f.w("pure (Ctl.ret %s)", paren(v))
		return
	}
	f.w("pure %s", paren(v))
}

func (f *ofn) ret(s *ast.ReturnStmt) {
	// tail call of an effect
	if len(s.Results) == 1 {
		if call, ok := s.Results[0].(*ast.CallExpr); ok {
			if term, resT, ok := f.effect(call); ok {
				if len(resT) != len(f.results) {
					f.fail(s, "tail call with other results")
				}
				for i := range resT {
					if !resT[i].same(f.results[i]) {
						f.fail(s, "tail call with other results")
					}
				}
				if len(f.loops) > 0 || f.inJoin > 0 || f.track {
					f.fail(s, "tail call inside a loop or a conditional that control flows out of")
				}
				f.w("%s", term)
				return
			}
		}
	}
	if len(s.Results) != len(f.results)+1 {
		f.fail(s, "return with %d results", len(s.Results))
	}
	last := s.Results[len(s.Results)-1]
	vals := s.Results[:len(s.Results)-1]
	value := func() string {
		var vs []string
		for i, e := range vals {
			vs = append(vs, f.exprT(e, f.results[i]).s)
		}
		switch len(vs) {
		case 0:
			return "()"
		case 1:
			return vs[0]
		}
		return "(" + strings.Join(vs, ", ") + ")"
	}
	zeros := func() {
		for _, e := range vals {
			if !f.isZero(e) {
				f.fail(s, "an error returned together with a value that is not the zero value")
			}
		}
	}
	if isNilIdent(last) {
		f.emitReturn(s, value())
		return
	}
	if call, ok := last.(*ast.CallExpr); ok {
		switch fullName(staticCallee(f.info, call)) {
		case "fmt.Errorf", "errors.New":
			zeros()
			f.checkErrorArgs(call)
			f.emitFail()
			return
		}
	}
	var obj types.Object
	switch x := last.(type) {
	case *ast.Ident:
		obj = f.info.Uses[x]
	case *ast.SelectorExpr:
		obj = f.info.Uses[x.Sel]
	}
	if v, ok := obj.(*types.Var); ok {
		if v.Pkg() != nil && v.Parent() == v.Pkg().Scope() && f.og.errSentinel(v) {
			zeros()
			if f.track {
				f.emitReturnRaw(s, fmt.Sprintf("(Except.error %q)", v.Name()))
				return
			}
			f.emitFail()
			return
		}
		if f.errVars[v] {
			zeros()
			if f.inJoin > 0 {
				f.fail(s, "a return inside a conditional that control flows out of")
			}
			sv := f.lines
			f.lines = nil
			f.emitReturn(s, value())
			okLine := strings.TrimSpace(f.lines[0])
			f.lines = sv
			f.w("if %s then %s else fail", f.nameOf(v), okLine)
			return
		}
	}
	f.fail(s, "return of %s", types.ExprString(last))
}

func (f *ofn) branchStmt(s *ast.BranchStmt) {
	if s.Label != nil || len(f.loops) == 0 {
		f.fail(s, "%s", s.Tok)
	}
	if f.inJoin > 0 {
		f.fail(s, "%s inside a conditional that control flows out of", s.Tok)
	}
	l := f.loops[len(f.loops)-1]
	switch s.Tok {
	case token.BREAK:
		f.w("pure (%s)", f.ctl(l, "brk", f.stateOf(l.vars)))
	case token.CONTINUE:
		f.w("pure (%s)", f.ctl(l, "next", f.stateOf(l.vars)))
	default:
		f.fail(s, "%s", s.Tok)
	}
}

// ctl: the constructor text; the choice between Step and Ctl is made after the body is translated (placeholder)
func (f *ofn) ctl(l *loopCtx, c string, state string) string {
	return fmt.Sprintf("§%p§.%s %s", l, c, state)
}

// packetIdiom: `p := gopacket.NewPacket(bytes, LT, gopacket.DecodeOptions{Lazy: …})` and `l := p.Layer(LT)` for a layer type
// LT whose registered decoder decodes into a struct T that Gen/Dec.lean translates: `l` is `none` or the decoded T
// (GoOrch.packetLayer: NewPacket copies the bytes, so the decoder sees an exact-capacity slice; a decoding error or a
// recovered decoder panic leaves no layer of that type)
func (f *ofn) packetIdiom(s *ast.AssignStmt) bool {
	if s.Tok != token.DEFINE || len(s.Lhs) != 1 || len(s.Rhs) != 1 {
		return false
	}
	id, ok := s.Lhs[0].(*ast.Ident)
	call, ok2 := s.Rhs[0].(*ast.CallExpr)
	if !ok || !ok2 || id.Name == "_" {
		return false
	}
	obj := f.info.Defs[id]
	if fullName(staticCallee(f.info, call)) == "github.com/google/gopacket.NewPacket" {
		if len(call.Args) != 3 {
			f.fail(s, "gopacket.NewPacket form")
		}
		opts, ok := call.Args[2].(*ast.CompositeLit)
		if !ok {
			f.fail(s, "gopacket.NewPacket with options that are not a literal")
		}
		for _, el := range opts.Elts {
			kv, ok := el.(*ast.KeyValueExpr)
			if !ok {
				f.fail(s, "gopacket.NewPacket with positional options")
			}
			if kid, ok := kv.Key.(*ast.Ident); !ok || kid.Name != "Lazy" {
				f.fail(s, "gopacket.NewPacket with an option other than Lazy (NoCopy would alias the response buffer, SkipDecodeRecovery would let a decoder panic through)")
			}
		}
		lt := f.og.layerOfType(f.info, call.Args[1])
		if lt == nil || f.og.layerDec[lt] == "" {
			f.fail(s, "gopacket.NewPacket with a layer type whose decoder is not a layer translated by decgen")
		}
		b := f.expr(call.Args[0])
		if b.t.k != oBytes {
			f.fail(s, "gopacket.NewPacket of a value of unsupported kind")
		}
		f.packets[obj] = pktInfo{b.s, lt}
		return true
	}
	if se, ok := call.Fun.(*ast.SelectorExpr); ok && se.Sel.Name == "Layer" && len(call.Args) == 1 {
		if pid, ok := se.X.(*ast.Ident); ok {
			if pk, isPkt := f.packets[f.info.Uses[pid]]; isPkt {
				if f.og.layerOfType(f.info, call.Args[0]) != pk.layer {
					f.fail(s, "packet.Layer with another layer type than the packet's first")
				}
				et, _ := f.og.typeOf(pk.layer)
				t := &otype{k: oOpt, elem: et}
				f.w("let %s : %s := packetLayer %s {} %s", f.nameOf(obj), t.lean(), f.og.layerDec[pk.layer], paren(pk.bytes))
				f.vars[obj] = t
				return true
			}
		}
	}
	return false
}

// retryIdiom: `err := backoff.Retry(func() error { BODY }, policy)` followed at once by `if err != nil { return zero…, err }`:
// the closure is run until it returns nil, at most `attempts` times (a PARAMETER: what the context and the back-off's
// limit allow; the waiting between attempts is not modelled); the variables it assigns are threaded through
func (f *ofn) retryIdiom(s *ast.AssignStmt, rest []ast.Stmt, ind int) bool {
	if len(s.Lhs) != 1 || len(s.Rhs) != 1 {
		return false
	}
	call, ok := s.Rhs[0].(*ast.CallExpr)
	if !ok || fullName(staticCallee(f.info, call)) != "github.com/cenkalti/backoff/v4.Retry" || len(call.Args) != 2 {
		return false
	}
	fl, ok := call.Args[0].(*ast.FuncLit)
	if !ok || len(fl.Type.Params.List) != 0 || fl.Type.Results == nil || len(fl.Type.Results.List) != 1 {
		f.fail(s, "backoff.Retry with something other than a closure `func() error`")
	}
	errObj := f.lastErrObj(s)
	if errObj == nil || len(rest) == 0 {
		f.fail(s, "backoff.Retry whose error is not propagated at once")
	}
	next, ok := rest[0].(*ast.IfStmt)
	if !ok || next.Init != nil || next.Else != nil || !f.isErrNotNil(next.Cond, errObj) || !f.isPropagate(next.Body, errObj) {
		f.fail(s, "backoff.Retry whose error is not propagated at once")
	}
	if len(f.loops) > 0 || f.inJoin > 0 || f.closure != nil {
		f.fail(s, "backoff.Retry inside a loop, a conditional or another closure")
	}
	vars := f.assignedOuter(fl.Body.List)
	f.need(oparam{"attempts", "Nat", "how many times the closure given to backoff.Retry is run at most (what the context and the back-off's limit allow); the waiting between attempts is not modelled"})
	savedRes := f.results
	f.results, f.closure = nil, vars
	if vars == nil {
		f.closure = []types.Object{}
	}
	body := f.sub(fl.Body.List, ind+2, nil)
	f.results, f.closure = savedRes, nil
	f.ind = ind
	j := "_"
	if len(vars) > 0 {
		j = f.tmp("j")
	}
	f.w("let %s ← retry attempts (do", j)
	f.appendBlock(body, ")")
	if len(vars) > 0 {
		f.unpack(j, vars)
	}
	return true
}

// ---- simple statements ---------------------------------------------------------------------------------------------------

func (f *ofn) exprStmt(s *ast.ExprStmt) {
	call, ok := s.X.(*ast.CallExpr)
	if !ok {
		f.fail(s, "expression statement")
	}
	// buf.Write(bytes) on a local bytes.Buffer: the bytes are appended (the error result is always nil)
	if se, ok := call.Fun.(*ast.SelectorExpr); ok && se.Sel.Name == "Write" && len(call.Args) == 1 {
		if id, ok := se.X.(*ast.Ident); ok {
			obj := f.info.Uses[id]
			if t, known := f.vars[obj]; known && t.k == oBytes && isBytesBuffer(obj.Type()) {
				v := f.expr(call.Args[0])
				if v.t.k != oBytes {
					f.fail(s, "bytes.Buffer.Write of a value of unsupported kind")
				}
				f.w("let %s : Bytes := %s ++ %s", f.nameOf(obj), f.nameOf(obj), paren(v.s))
				return
			}
		}
	}
	f.fail(s, "call statement %s", types.ExprString(call.Fun))
}

func isBytesBuffer(t types.Type) bool {
	n, ok := t.(*types.Named)
	return ok && n.Obj().Pkg() != nil && n.Obj().Pkg().Path() == "bytes" && n.Obj().Name() == "Buffer"
}

func (f *ofn) declStmt(s *ast.DeclStmt) {
	gd, ok := s.Decl.(*ast.GenDecl)
	if !ok || gd.Tok != token.VAR {
		f.fail(s, "declaration")
	}
	for _, sp := range gd.Specs {
		vs := sp.(*ast.ValueSpec)
		if len(vs.Values) != 0 {
			f.fail(s, "var declaration with a value")
		}
		for _, id := range vs.Names {
			obj := f.info.Defs[id]
			t, ok := f.og.typeOf(obj.Type())
			if !ok {
				f.fail(s, "variable %s of type %s", id.Name, obj.Type())
			}
			f.w("let %s : %s := %s", f.nameOf(obj), t.lean(), t.zero())
			f.vars[obj] = t
		}
	}
}

func (f *ofn) incDec(s *ast.IncDecStmt) {
	one := &ast.BasicLit{Kind: token.INT, Value: "1"}
	_ = one
	op := token.ADD
	if s.Tok == token.DEC {
		op = token.SUB
	}
	cur := f.expr(s.X)
	var nv string
	switch cur.t.k {
	case oU8, oU16, oU32:
		sym := "+"
		if op == token.SUB {
			sym = "-"
		}
		nv = fmt.Sprintf("(%s %s (1 : %s))", paren(cur.s), sym, cur.t.lean())
	case oNat:
		if op == token.SUB {
			f.fail(s, "-- on an int (ints are ℕ)")
		}
		nv = fmt.Sprintf("(%s + 1)", paren(cur.s))
	default:
		f.fail(s, "++/-- on a value of unsupported kind")
	}
	f.store(s, s.X, oval{s: nv, t: cur.t})
}

// store: assign v to the place lhs (a local variable, a field of the cell, a field of a local structure, a map element)
func (f *ofn) store(n ast.Node, lhs ast.Expr, v oval) {
	if id, ok := lhs.(*ast.Ident); ok {
		obj := f.info.Defs[id]
		if obj == nil {
			obj = f.info.Uses[id]
		}
		if obj == nil || id.Name == "_" {
			f.fail(n, "assignment to %s", id.Name)
		}
		if obj == f.cellObj || obj == f.sessObj || obj == f.ctxObj {
			f.fail(n, "assignment to %s", id.Name)
		}
		if v.t.k == oBool {
			v.s = v.boolTerm()
		}
		f.w("let %s : %s := %s", f.nameOf(obj), v.t.lean(), v.s)
		f.vars[obj] = v.t
		delete(f.errVars, obj)
		return
	}
	if path, ok := f.cellPath(lhs); ok && len(path) > 0 {
		if !f.hasCell {
			f.fail(n, "the command struct is used before it exists")
		}
		if f.cellAliased {
			f.fail(n, "the command struct is assigned after the address of one of its fields was taken")
		}
		f.w("modifyCell (fun c => %s)", nestedUpdate("c", path, v.s))
		return
	}
	if root, path, ok := f.localPath(lhs); ok && len(path) > 0 {
		name := f.nameOf(root)
		f.w("let %s : %s := %s", name, f.vars[root].lean(), nestedUpdate(name, path, v.s))
		return
	}
	if ix, ok := lhs.(*ast.IndexExpr); ok {
		if id, ok := ix.X.(*ast.Ident); ok {
			obj := f.info.Uses[id]
			if mt, known := f.vars[obj]; known && mt.k == oMap {
				k := f.exprT(ix.Index, mt.key)
				f.w("let %s : %s := mapSet %s %s %s", f.nameOf(obj), mt.lean(), f.nameOf(obj), paren(k.s), paren(v.s))
				return
			}
		}
	}
	f.fail(n, "assignment to %s", types.ExprString(lhs))
}

// placeType: the type of the place an assignment stores into
func (f *ofn) placeType(n ast.Node, lhs ast.Expr) *otype {
	if ix, ok := lhs.(*ast.IndexExpr); ok {
		if id, ok := ix.X.(*ast.Ident); ok {
			if mt, known := f.vars[f.info.Uses[id]]; known && mt.k == oMap {
				return mt.elem
			}
		}
	}
	gt := f.info.TypeOf(lhs)
	if id, ok := lhs.(*ast.Ident); ok && f.info.Defs[id] != nil {
		gt = f.info.Defs[id].Type()
	}
	t, ok := f.og.typeOf(gt)
	if !ok {
		f.fail(n, "assignment to a place of type %s", gt)
	}
	return t
}

func (f *ofn) assign(s *ast.AssignStmt) {
	if len(s.Lhs) != 1 || len(s.Rhs) != 1 {
		f.fail(s, "multiple assignment")
	}
	lhs, rhs := s.Lhs[0], s.Rhs[0]
	if id, ok := lhs.(*ast.Ident); ok && id.Name == "_" && s.Tok == token.ASSIGN {
		f.expr(rhs) // `_ = e`: e is evaluated (what it hoists stays) and discarded
		return
	}
	want := f.placeType(s, lhs)
	if id, ok := lhs.(*ast.Ident); ok {
		if obj := f.info.Uses[id]; obj != nil && f.errVars[obj] {
			f.fail(s, "assignment to an error variable")
		}
	}
	switch s.Tok {
	case token.DEFINE, token.ASSIGN:
		// a slice of a response struct stored as such would alias the buffer the next decode overwrites
		if want.k == oList || want.k == oBytes {
			if _, isCell := f.cellPath(rhs); isCell {
				f.fail(s, "a slice of the command struct is stored without copying (it aliases what the next response overwrites)")
			}
		}
		if u, ok := rhs.(*ast.UnaryExpr); ok && u.Op == token.AND {
			if _, isCell := f.cellPath(u.X); isCell {
				// a pointer into the command struct: its value as long as the struct is not written again
				f.cellAliased = true
			}
		}
		if call, ok := rhs.(*ast.CallExpr); ok {
			if id, ok := call.Fun.(*ast.Ident); ok && id.Name == "append" && len(call.Args) > 0 {
				if _, isBuiltin := f.info.Uses[id].(*types.Builtin); isBuiltin && types.ExprString(lhs) != types.ExprString(call.Args[0]) {
					f.fail(s, "append whose result is not stored back into its first argument (two slices could share a backing array)")
				}
			}
		}
		f.store(s, lhs, f.exprT(rhs, want))
	case token.ADD_ASSIGN:
		cur := f.expr(lhs)
		b := f.exprT(rhs, want)
		f.store(s, lhs, f.arith(s, token.ADD, cur, b))
	default:
		f.fail(s, "compound assignment %s", s.Tok)
	}
}

// cellCreation: `v := &T{…}` / `v := T{…}` where T is a command struct and v (or &v) is what SendCommand is given
func (f *ofn) cellCreation(s *ast.AssignStmt) bool {
	if s.Tok != token.DEFINE || len(s.Lhs) != 1 || len(s.Rhs) != 1 {
		return false
	}
	id, ok := s.Lhs[0].(*ast.Ident)
	if !ok {
		return false
	}
	obj := f.info.Defs[id]
	if obj == nil {
		return false
	}
	ci := f.og.cmdOf(obj.Type())
	if ci == nil {
		return false
	}
	rhs := s.Rhs[0]
	if u, ok := rhs.(*ast.UnaryExpr); ok && u.Op == token.AND {
		rhs = u.X
	}
	if _, ok := rhs.(*ast.CompositeLit); !ok {
		f.fail(s, "a command struct that is not created by a composite literal")
	}
	if f.cellObj != nil {
		f.fail(s, "two command structs in one function")
	}
	// every other use of the variable must be a field access or the argument of SendCommand / a translated callee
	f.cellObj, f.cell = obj, ci
	f.checkCellUses()
	return true
}

// checkCellUses: the cell variable occurs only as the root of a field selection or as the command argument of a call
func (f *ofn) checkCellUses() {
	var stack []ast.Node
	ast.Inspect(f.src.decl.Body, func(n ast.Node) bool {
		if n == nil {
			stack = stack[:len(stack)-1]
			return true
		}
		stack = append(stack, n)
		id, ok := n.(*ast.Ident)
		if !ok || f.info.Uses[id] != f.cellObj {
			return true
		}
		parent := stack[len(stack)-2]
		switch p := parent.(type) {
		case *ast.SelectorExpr:
			if p.X == ast.Expr(id) {
				if sel := f.info.Selections[p]; sel != nil && sel.Kind() == types.FieldVal {
					return true
				}
			}
		case *ast.UnaryExpr:
			if p.Op == token.AND && len(stack) >= 3 {
				if _, ok := stack[len(stack)-3].(*ast.CallExpr); ok {
					return true
				}
			}
		case *ast.CallExpr:
			for _, a := range p.Args {
				if a == ast.Expr(id) {
					return true
				}
			}
		}
		f.fail(id, "the command struct %s is used as a whole", id.Name)
		return true
	})
}

// ---- conditionals --------------------------------------------------------------------------------------------------------

func (f *ofn) ifStmt(s *ast.IfStmt, rest []ast.Stmt, ind int, fin ofin) bool {
	f.ind = ind
	if s.Init != nil {
		as, ok := s.Init.(*ast.AssignStmt)
		if !ok || len(as.Rhs) != 1 {
			f.fail(s, "if statement with an initialiser of unsupported form")
		}
		if f.randReadIdiom(s, as) {
			return false
		}
		// `if [v…,] err := EFFECT; err != nil { return zero…, err }`
		if call, ok := as.Rhs[0].(*ast.CallExpr); ok {
			if term, resT, ok := f.effect(call); ok {
				errObj := f.lastErrObj(as)
				if errObj == nil || s.Else != nil || !f.isErrNotNil(s.Cond, errObj) || !f.isPropagate(s.Body, errObj) {
					f.fail(s, "an effect in an if statement whose error is not propagated at once")
				}
				f.bindEffect(s, term, resT, as.Lhs[:len(as.Lhs)-1], true)
				return false
			}
		}
		// `if v, ok := m[k]; …`
		if ix, isIx := as.Rhs[0].(*ast.IndexExpr); isIx && len(as.Lhs) == 2 && as.Tok == token.DEFINE {
			m := f.expr(ix.X)
			if m.t.k != oMap {
				f.fail(s, "comma-ok form on something other than a map")
			}
			k := f.exprT(ix.Index, m.t.key)
			if vid, ok := as.Lhs[0].(*ast.Ident); ok && vid.Name != "_" {
				obj := f.info.Defs[vid]
				f.w("let %s : %s := mapGet %s %s %s", f.nameOf(obj), m.t.elem.lean(), paren(m.s), paren(k.s), m.t.elem.zero())
				f.vars[obj] = m.t.elem
			}
			if oid, ok := as.Lhs[1].(*ast.Ident); ok && oid.Name != "_" {
				obj := f.info.Defs[oid]
				f.w("let %s : Bool := mapHas %s %s", f.nameOf(obj), paren(m.s), paren(k.s))
				f.vars[obj] = &otype{k: oBool}
			}
		} else {
			f.assign(as)
		}
		f.snap = "" // the initialiser may have changed the command struct
	}
	cond := f.expr(s.Cond)
	if cond.t.k != oBool {
		f.fail(s, "condition of unsupported kind")
	}
	A, B := s.Body.List, elseStmts(s.Else)
	thenT := f.oterminates(A)
	elseT := s.Else != nil && f.oterminates(B)
	switch {
	case thenT:
		a := f.sub(A, ind+1, nil)
		f.ind = ind
		if len(a) == 1 {
			f.w("if %s then %s else", cond.s, strings.TrimSpace(a[0]))
		} else {
			f.w("if %s then (do", cond.s)
			f.appendBlock(a, ") else")
		}
		if elseT && len(rest) > 0 {
			f.fail(s, "unreachable statements after a conditional")
		}
		f.block(append(append([]ast.Stmt{}, B...), rest...), ind, fin)
		return true
	case elseT:
		b := f.sub(B, ind+1, nil)
		f.ind = ind
		f.w("if !(%s) then (do", cond.boolTerm())
		f.appendBlock(b, ") else")
		f.block(append(append([]ast.Stmt{}, A...), rest...), ind, fin)
		return true
	}
	// control flows out of both branches: join on the outer variables assigned inside
	vars := f.assignedOuter(append(append([]ast.Stmt{}, A...), B...))
	state := f.stateOf(vars)
	finJoin := func() { f.w("pure %s", state) }
	f.inJoin++
	a := f.sub(A, ind+2, finJoin)
	b := f.sub(B, ind+2, finJoin)
	f.inJoin--
	f.ind = ind
	j := "_"
	if len(vars) > 0 {
		j = f.tmp("j")
	}
	f.w("let %s ← (if %s then (do", j, cond.s)
	f.appendBlock(a, ") else (do")
	f.appendBlock(b, "))")
	if len(vars) > 0 {
		f.unpack(j, vars)
	}
	return false
}

// assignedOuter: variables known before the statements and assigned inside them, in order of declaration
func (f *ofn) assignedOuter(stmts []ast.Stmt) []types.Object {
	set := map[types.Object]bool{}
	var mark func(e ast.Expr)
	mark = func(e ast.Expr) {
		switch x := e.(type) {
		case *ast.Ident:
			if obj := f.info.Uses[x]; obj != nil {
				if _, known := f.vars[obj]; known || f.errVars[obj] {
					set[obj] = true
				}
			}
		case *ast.ParenExpr:
			mark(x.X)
		case *ast.IndexExpr:
			mark(x.X)
		case *ast.SelectorExpr:
			mark(x.X)
		}
	}
	for _, s := range stmts {
		ast.Inspect(s, func(m ast.Node) bool {
			switch x := m.(type) {
			case *ast.AssignStmt:
				for _, l := range x.Lhs {
					mark(l)
				}
			case *ast.IncDecStmt:
				mark(x.X)
			case *ast.CallExpr:
				// buf.Write(…)
				if se, ok := x.Fun.(*ast.SelectorExpr); ok && se.Sel.Name == "Write" {
					mark(se.X)
				}
			case *ast.FuncLit:
				f.fail(x, "function literal")
			}
			return true
		})
	}
	var out []types.Object
	for o := range set {
		out = append(out, o)
	}
	sort.Slice(out, func(i, j int) bool { return out[i].Pos() < out[j].Pos() })
	return out
}

// ---- loops ---------------------------------------------------------------------------------------------------------------

// loopBody translates the body of a loop into the lines of its step function; returns the lines and whether a successful
// return occurs inside
func (f *ofn) loopBody(n ast.Node, vars []types.Object, st string, ind int, pre func(), body []ast.Stmt) ([]string, bool) {
	l := &loopCtx{vars: vars}
	f.loops = append(f.loops, l)
	saved := f.lines
	savedVars := map[types.Object]*otype{}
	for k, v := range f.vars {
		savedVars[k] = v
	}
	savedJoin := f.inJoin
	f.inJoin = 0
	f.lines = nil
	f.ind = ind
	f.unpack(st, vars)
	if pre != nil {
		pre()
	}
	f.block(body, f.ind, func() { f.w("pure (%s)", f.ctl(l, "next", f.stateOf(vars))) })
	out := f.lines
	f.lines = saved
	f.vars = savedVars
	f.inJoin = savedJoin
	f.loops = f.loops[:len(f.loops)-1]
	ctor := "Step"
	if l.hasRet {
		ctor = "Ctl"
	}
	ph := fmt.Sprintf("§%p§", l)
	for i := range out {
		out[i] = strings.ReplaceAll(out[i], ph, ctor)
	}
	return out, l.hasRet
}

// afterLoop: bind the loop's result; with a successful return inside, the rest of the block goes into the `inl` arm
func (f *ofn) afterLoop(n ast.Node, vars []types.Object, hasRet bool, head string, lines []string, tail string, rest []ast.Stmt, ind int, fin ofin) bool {
	f.ind = ind
	j := "_"
	if len(vars) > 0 || hasRet {
		j = f.tmp("j")
	}
	f.w("let %s ← %s", j, head)
	f.appendBlock(lines, tail)
	if !hasRet {
		if len(vars) > 0 {
			f.unpack(j, vars)
		}
		return false
	}
	if f.inJoin > 0 {
		f.fail(n, "a loop with a return inside a conditional that control flows out of")
	}
	f.w("match %s with", j)
	sv := f.lines
	f.lines = nil
	f.emitReturn(n, "v")
	retLine := strings.TrimSpace(f.lines[0])
	f.lines = sv
	f.w("| Sum.inr v => %s", retLine)
	s := f.tmp("s")
	f.w("| Sum.inl %s => (do", s)
	f.ind = ind + 1
	f.unpack(s, vars)
	f.block(rest, ind+1, fin)
	f.lines[len(f.lines)-1] += ")"
	return true
}

func (f *ofn) checkLoopBody(s ast.Node, body *ast.BlockStmt) {
	ast.Inspect(body, func(n ast.Node) bool {
		switch x := n.(type) {
		case *ast.FuncLit:
			f.fail(s, "function literal inside a loop")
		case *ast.BranchStmt:
			if x.Label != nil || (x.Tok != token.BREAK && x.Tok != token.CONTINUE) {
				f.fail(x, "%s", x.Tok)
			}
		case *ast.SwitchStmt, *ast.SelectStmt, *ast.TypeSwitchStmt, *ast.GoStmt, *ast.DeferStmt:
			f.fail(x.(ast.Node), "statement of unsupported form inside a loop")
		}
		return true
	})
}

// forStmt: `for [init]; [cond]; [post] { body }` with FUEL: each round evaluates the condition (false = the loop is left),
// then the body and the post statement
func (f *ofn) forStmt(s *ast.ForStmt, rest []ast.Stmt, ind int, fin ofin) bool {
	f.ind = ind
	if f.pure {
		f.fail(s, "loop in a function without an error result")
	}
	f.checkLoopBody(s, s.Body)
	if s.Init != nil {
		as, ok := s.Init.(*ast.AssignStmt)
		if !ok {
			f.fail(s, "loop initialiser of unsupported form")
		}
		f.assign(as)
	}
	body := append([]ast.Stmt{}, s.Body.List...)
	if s.Post != nil {
		ast.Inspect(s.Body, func(n ast.Node) bool {
			if b, ok := n.(*ast.BranchStmt); ok && b.Tok == token.CONTINUE {
				f.fail(b, "continue in a loop with a post statement")
			}
			return true
		})
		body = append(body, s.Post)
	}
	vars := f.assignedOuter(body)
	f.need(oparam{"fuel", "Nat", "the number of rounds every `for` loop may run (the Go loops have no bound of their own); beyond it the outcome is `RF.outOfFuel`"})
	st := f.tmp("s")
	var l0 *loopCtx
	pre := func() {
		l0 = f.loops[len(f.loops)-1]
		if s.Cond != nil {
			f.snap = ""
			c := f.expr(s.Cond)
			if c.t.k != oBool {
				f.fail(s, "loop condition of unsupported kind")
			}
			f.w("if !(%s) then pure (%s) else", c.boolTerm(), f.ctl(l0, "brk", f.stateOf(vars)))
		}
	}
	lines, hasRet := f.loopBody(s, vars, st, ind+2, pre, body)
	name := "loop"
	if hasRet {
		name = "loopR"
	}
	head := fmt.Sprintf("%s fuel (fun (%s : %s) => (do", name, st, f.stateType(vars))
	return f.afterLoop(s, vars, hasRet, head, lines, ")) "+f.stateOf(vars), rest, ind, fin)
}

// rangeStmt: `for _, x := range l { body }` over a list the body does not assign: no fuel
func (f *ofn) rangeStmt(s *ast.RangeStmt, rest []ast.Stmt, ind int, fin ofin) bool {
	f.ind = ind
	if f.pure {
		f.fail(s, "loop in a function without an error result")
	}
	f.checkLoopBody(s, s.Body)
	if s.Key != nil {
		if id, ok := s.Key.(*ast.Ident); !ok || id.Name != "_" {
			f.fail(s, "range loop with an index variable")
		}
	}
	if s.Tok != token.DEFINE {
		f.fail(s, "range loop form")
	}
	f.snap = ""
	over := f.expr(s.X)
	if over.t.k != oList {
		f.fail(s, "range over a value of unsupported kind (a map is ranged over only in a commutative sum)")
	}
	vars := f.assignedOuter(s.Body.List)
	if id, ok := s.X.(*ast.Ident); ok {
		for _, o := range vars {
			if o == f.info.Uses[id] {
				f.fail(s, "range loop body assigns the slice ranged over")
			}
		}
	}
	x := "_"
	var xObj types.Object
	if s.Value != nil {
		vid, ok := s.Value.(*ast.Ident)
		if !ok {
			f.fail(s, "range loop form")
		}
		if vid.Name != "_" {
			xObj = f.info.Defs[vid]
			x = f.nameOf(xObj)
		}
	}
	st := f.tmp("s")
	if xObj != nil {
		f.vars[xObj] = over.t.elem
	}
	lines, hasRet := f.loopBody(s, vars, st, ind+2, nil, s.Body.List)
	name := "forEach"
	if hasRet {
		name = "forEachR"
	}
	head := fmt.Sprintf("%s %s (fun (%s : %s) (%s : %s) => (do", name, paren(over.s), st, f.stateType(vars), x, over.t.elem.lean())
	return f.afterLoop(s, vars, hasRet, head, lines, ")) "+f.stateOf(vars), rest, ind, fin)
}
