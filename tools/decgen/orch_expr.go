package main

import (
	"fmt"
	"go/ast"
	"go/constant"
	"go/token"
	"go/types"
	"strings"
)

// fieldsOf: the Lean field path for the Go selector chain e = root.A.B… (embedded fields included); root is what the
// chain is rooted at
func (f *ofn) fieldsOf(e ast.Expr) (ast.Expr, []string, bool) {
	switch x := e.(type) {
	case *ast.ParenExpr:
		return f.fieldsOf(x.X)
	case *ast.SelectorExpr:
		sel := f.info.Selections[x]
		if sel == nil || sel.Kind() != types.FieldVal {
			return nil, nil, false
		}
		root, path, ok := f.fieldsOf(x.X)
		if !ok {
			root, path = x.X, nil
		}
		t := f.info.TypeOf(x.X)
		var holder *types.Named // the struct embedding the BaseLayer being traversed
		for _, i := range sel.Index() {
			if p, ok := t.Underlying().(*types.Pointer); ok {
				t = p.Elem()
			}
			st, ok := t.Underlying().(*types.Struct)
			if !ok {
				return nil, nil, false
			}
			nt, ok := t.(*types.Named)
			if !ok {
				f.fail(e, "field of an unnamed struct")
			}
			fl := st.Field(i)
			if isBaseLayer(fl.Type()) {
				holder = nt
				t = fl.Type()
				continue
			}
			if holder != nil {
				// BaseLayer.Contents / BaseLayer.Payload: flattened into the embedding structure
				if fl.Name() != "Contents" && fl.Name() != "Payload" {
					f.fail(e, "BaseLayer.%s", fl.Name())
				}
				if m, sh := f.og.shared[holder.Obj().Pkg().Path()+"."+holder.Obj().Name()]; sh {
					if !m[leanField(fl.Name())] {
						f.fail(e, "field %s.%s is not in the structure of Gen/Dec.lean", holder.Obj().Name(), fl.Name())
					}
				} else {
					f.og.useStruct(holder)
					if f.og.baseUse[holder] == nil {
						f.og.baseUse[holder] = map[string]bool{}
					}
					f.og.baseUse[holder][fl.Name()] = true
				}
				path = append(path, leanField(fl.Name()))
				t, holder = fl.Type(), nil
				continue
			}
			if !f.og.hasField(nt, fl.Name()) {
				f.fail(e, "field %s.%s of type %s is outside the language", nt.Obj().Name(), fl.Name(), fl.Type())
			}
			if _, sh := f.og.shared[nt.Obj().Pkg().Path()+"."+nt.Obj().Name()]; sh {
				path = append(path, leanField(fl.Name()))
			} else {
				path = append(path, f.og.fieldName(nt, fl.Name()))
			}
			t = fl.Type()
		}
		return root, path, true
	}
	return nil, nil, false
}

// cellPath: e is cell.A.B…
func (f *ofn) cellPath(e ast.Expr) ([]string, bool) {
	if f.cellObj == nil {
		return nil, false
	}
	root, path, ok := f.fieldsOf(e)
	if !ok {
		return nil, false
	}
	id, ok := root.(*ast.Ident)
	if !ok || f.info.Uses[id] != f.cellObj {
		return nil, false
	}
	return path, true
}

// localPath: e is v.A.B… for a local structure variable v
func (f *ofn) localPath(e ast.Expr) (types.Object, []string, bool) {
	root, path, ok := f.fieldsOf(e)
	if !ok {
		return nil, nil, false
	}
	id, ok := root.(*ast.Ident)
	if !ok {
		return nil, nil, false
	}
	obj := f.info.Uses[id]
	if t, known := f.vars[obj]; known && t.k == oStruct {
		return obj, path, true
	}
	return nil, nil, false
}

// snapCell: the name the cell's current value is bound to for this statement
func (f *ofn) snapCell(n ast.Node) string {
	if !f.hasCell {
		f.fail(n, "the command struct is used before it exists")
	}
	if f.snap == "" {
		f.snap = f.tmp("c")
		f.w("let %s ← getCell", f.snap)
	}
	return f.snap
}

func (f *ofn) constVal(e ast.Expr, v constant.Value, gt types.Type, want *otype) oval {
	t := want
	if t == nil || (t.k != oU8 && t.k != oU16 && t.k != oU32 && t.k != oNat && t.k != oBool) {
		var ok bool
		t, ok = f.og.typeOf(gt)
		if !ok {
			f.fail(e, "constant of type %s", gt)
		}
	}
	switch v.Kind() {
	case constant.Bool:
		if t.k == oBool {
			return oval{s: fmt.Sprintf("%v", constant.BoolVal(v)), t: t}
		}
	case constant.Int:
		if constant.Sign(v) < 0 {
			f.fail(e, "negative constant (ints are ℕ)")
		}
		switch t.k {
		case oU8, oU16, oU32:
			return oval{s: fmt.Sprintf("(%s : %s)", v.ExactString(), t.lean()), t: t}
		case oNat:
			return oval{s: v.ExactString(), t: t}
		}
	}
	f.fail(e, "constant of unsupported kind")
	return oval{}
}

// exprT: e as a value of the Lean type want (nil, untyped constants and composite literals take their type from it)
func (f *ofn) exprT(e ast.Expr, want *otype) oval {
	if isNilIdent(e) {
		switch want.k {
		case oList, oMap, oBytes, oStruct:
			return oval{s: want.zero(), t: want}
		}
		f.fail(e, "nil where a value of type %s is expected", want.lean())
	}
	if v, gt, ok := constOf(f.info, e); ok {
		return f.constVal(e, v, gt, want)
	}
	v := f.expr(e)
	if !v.t.same(want) {
		f.fail(e, "a value of type %s where %s is expected", v.t.lean(), want.lean())
	}
	return v
}

func (f *ofn) expr(e ast.Expr) oval {
	if v, gt, ok := constOf(f.info, e); ok {
		return f.constVal(e, v, gt, nil)
	}
	switch x := e.(type) {
	case *ast.ParenExpr:
		return f.expr(x.X)
	case *ast.Ident:
		obj := f.info.Uses[x]
		if f.errVars[obj] {
			f.fail(e, "an error variable used as a value")
		}
		if t, ok := f.vars[obj]; ok {
			return oval{s: f.nameOf(obj), t: t}
		}
		if pv, ok := obj.(*types.Var); ok && pv.Pkg() != nil && pv.Parent() == pv.Pkg().Scope() {
			return f.og.pkgVar(f, e, pv)
		}
		f.fail(e, "identifier %s", x.Name)
	case *ast.SelectorExpr:
		if path, ok := f.cellPath(x); ok && len(path) > 0 {
			t, ok := f.og.typeOf(f.info.TypeOf(x))
			if !ok {
				f.fail(e, "field of type %s", f.info.TypeOf(x))
			}
			return oval{s: f.snapCell(e) + "." + strings.Join(path, "."), t: t}
		}
		if root, path, ok := f.localPath(x); ok && len(path) > 0 {
			t, ok := f.og.typeOf(f.info.TypeOf(x))
			if !ok {
				f.fail(e, "field of type %s", f.info.TypeOf(x))
			}
			f.checkResponseSlice(x, root)
			return oval{s: f.nameOf(root) + "." + strings.Join(path, "."), t: t}
		}
		if f.info.Selections[x] == nil { // pkg.Var
			if pv, ok := f.info.Uses[x.Sel].(*types.Var); ok && pv.Pkg() != nil && pv.Parent() == pv.Pkg().Scope() {
				return f.og.pkgVar(f, e, pv)
			}
		}
		f.fail(e, "selector expression %s", types.ExprString(e))
	case *ast.IndexExpr:
		base := f.expr(x.X)
		switch base.t.k {
		case oMap:
			k := f.exprT(x.Index, base.t.key)
			return oval{s: fmt.Sprintf("(mapGet %s %s %s)", paren(base.s), paren(k.s), base.t.elem.zero()), t: base.t.elem}
		case oList:
			if f.pure || f.constOnly || f.noHoist > 0 {
				f.fail(e, "index expression where a panic cannot be expressed")
			}
			i := f.exprT(x.Index, &otype{k: oNat})
			t := f.tmp("t")
			f.w("let %s ← listIdx %s %s", t, paren(base.s), paren(i.s))
			return oval{s: t, t: base.t.elem}
		}
		f.fail(e, "index into a value of unsupported kind")
	case *ast.UnaryExpr:
		switch x.Op {
		case token.NOT:
			v := f.expr(x.X)
			if v.t.k == oBool {
				return oval{s: fmt.Sprintf("(!%s)", paren(v.boolTerm())), t: v.t}
			}
		case token.AND:
			// the address of a struct value: the value (see typeOf); of a map / slice variable: a non-nil pointer
			v := f.expr(x.X)
			if v.t.k == oStruct {
				return v
			}
			if v.t.k == oMap || v.t.k == oList {
				return oval{s: fmt.Sprintf("(some %s)", paren(v.s)), t: &otype{k: oOpt, elem: v.t}}
			}
		}
		f.fail(e, "unary operator %s", x.Op)
	case *ast.StarExpr:
		// `*p` for a pointer to a map / slice: a nil pointer is a panic
		v := f.expr(x.X)
		if v.t.k == oOpt {
			return f.deref(e, v)
		}
		if v.t.k == oStruct {
			return v // `*p` for a pointer to a structure (taken to be non-nil): the structure's value, copied
		}
		f.fail(e, "dereference of a value of unsupported kind")
	case *ast.TypeAssertExpr:
		// `l.(*T)` on the result of packet.Layer(…): a nil interface is a panic
		v := f.expr(x.X)
		want, ok := f.og.typeOf(f.info.TypeOf(x.Type))
		if v.t.k == oOpt && ok && v.t.elem.same(want) {
			return f.deref(e, v)
		}
		f.fail(e, "type assertion")
	case *ast.BinaryExpr:
		return f.binary(x)
	case *ast.CallExpr:
		return f.callExpr(x)
	case *ast.CompositeLit:
		return f.compositeLit(x)
	}
	f.fail(e, "expression %s", types.ExprString(e))
	return oval{}
}

// deref: the value behind an Option (hoisted in front of the statement: `none` is a run-time panic)
func (f *ofn) deref(n ast.Node, v oval) oval {
	if f.pure || f.constOnly || f.noHoist > 0 {
		f.fail(n, "dereference where a panic cannot be expressed")
	}
	t := f.tmp("t")
	f.w("let %s ← derefOpt %s", t, paren(v.s))
	return oval{s: t, t: v.t.elem}
}

func (f *ofn) binary(x *ast.BinaryExpr) oval {
	bt := &otype{k: oBool}
	// err == nil / err != nil for an error variable kept as a Boolean
	if (x.Op == token.EQL || x.Op == token.NEQ) && isNilIdent(x.Y) {
		if id, ok := x.X.(*ast.Ident); ok && f.errVars[f.info.Uses[id]] {
			n := f.nameOf(f.info.Uses[id])
			if x.Op == token.EQL {
				return oval{s: n, t: bt}
			}
			return oval{s: "(!" + n + ")", t: bt}
		}
	}
	if (x.Op == token.EQL || x.Op == token.NEQ) && isNilIdent(x.Y) {
		if id, ok := x.X.(*ast.Ident); ok {
			if _, isPkt := f.packets[f.info.Uses[id]]; isPkt {
				// gopacket.NewPacket never returns nil
				if x.Op == token.EQL {
					return oval{s: "false", t: bt}
				}
				return oval{s: "true", t: bt}
			}
		}
		v := f.expr(x.X)
		if v.t.k == oOpt {
			if x.Op == token.EQL {
				return oval{s: fmt.Sprintf("(%s).isNone", v.s), t: bt}
			}
			return oval{s: fmt.Sprintf("(%s).isSome", v.s), t: bt}
		}
		f.fail(x, "comparison with nil of a value of unsupported kind")
	}
	if x.Op == token.LAND || x.Op == token.LOR {
		a := f.expr(x.X)
		f.noHoist++
		b := f.expr(x.Y)
		f.noHoist--
		if a.t.k != oBool || b.t.k != oBool {
			f.fail(x, "logical operator on non-booleans")
		}
		op := "&&"
		if x.Op == token.LOR {
			op = "||"
		}
		return oval{s: fmt.Sprintf("(%s %s %s)", paren(a.boolTerm()), op, paren(b.boolTerm())), t: bt}
	}
	var a, b oval
	_, _, ca := constOf(f.info, x.X)
	_, _, cb := constOf(f.info, x.Y)
	switch {
	case ca && !cb:
		b = f.expr(x.Y)
		a = f.exprT(x.X, b.t)
	case cb && !ca:
		a = f.expr(x.X)
		b = f.exprT(x.Y, a.t)
	default:
		a = f.expr(x.X)
		b = f.expr(x.Y)
	}
	switch x.Op {
	case token.EQL, token.NEQ, token.LSS, token.LEQ, token.GTR, token.GEQ:
		if !a.t.same(b.t) {
			f.fail(x, "comparison of values of different types")
		}
		switch a.t.k {
		case oU8, oU16, oU32, oNat:
		case oBool, oStruct:
			if x.Op != token.EQL && x.Op != token.NEQ {
				f.fail(x, "ordering of values of unsupported kind")
			}
		default:
			f.fail(x, "comparison of values of unsupported kind")
		}
		as, bs := a.s, b.s
		if a.t.k == oBool {
			as, bs = a.boolTerm(), b.boolTerm()
		}
		switch x.Op {
		case token.EQL:
			return oval{s: fmt.Sprintf("(%s == %s)", paren(as), paren(bs)), t: bt}
		case token.NEQ:
			return oval{s: fmt.Sprintf("(%s != %s)", paren(as), paren(bs)), t: bt}
		}
		return oval{s: fmt.Sprintf("%s %s %s", paren(as), binOps[x.Op], paren(bs)), t: bt, prop: true}
	}
	return f.arith(x, x.Op, a, b)
}

func (f *ofn) arith(n ast.Node, op token.Token, a, b oval) oval {
	if !a.t.same(b.t) {
		f.fail(n, "arithmetic on values of different types")
	}
	switch a.t.k {
	case oNat:
		switch op {
		case token.ADD, token.MUL:
			return oval{s: fmt.Sprintf("(%s %s %s)", paren(a.s), binOps[op], paren(b.s)), t: a.t}
		}
		f.fail(n, "operator %s on ints (ints are ℕ: lengths, counts, conversions of unsigned values)", op)
	case oU8, oU16, oU32:
		switch op {
		case token.ADD, token.SUB, token.MUL, token.AND, token.OR, token.XOR:
			return oval{s: fmt.Sprintf("(%s %s %s)", paren(a.s), binOps[op], paren(b.s)), t: a.t}
		}
	}
	f.fail(n, "operator %s on values of type %s", op, a.t.lean())
	return oval{}
}

func (f *ofn) callExpr(c *ast.CallExpr) oval {
	if v, ok := f.keysExpr(c); ok {
		return v
	}
	// conversions
	if tv, ok := f.info.Types[c.Fun]; ok && tv.IsType() {
		to, ok := f.og.typeOf(tv.Type)
		if !ok {
			f.fail(c, "conversion to %s", tv.Type)
		}
		v := f.expr(c.Args[0])
		switch {
		case to.same(v.t):
			return v
		case (to.k == oU8 || to.k == oU16 || to.k == oU32) && v.t.k == oNat:
			// truncation of a non-negative int: the residue modulo 2^width
			return oval{s: fmt.Sprintf("(%s.ofNat %s)", to.lean(), paren(v.s)), t: to}
		case to.k == oNat && (v.t.k == oU8 || v.t.k == oU16 || v.t.k == oU32):
			return oval{s: fmt.Sprintf("(%s).toNat", v.s), t: to}
		case (to.k == oU8 || to.k == oU16 || to.k == oU32) && (v.t.k == oU8 || v.t.k == oU16 || v.t.k == oU32):
			return oval{s: fmt.Sprintf("(%s).to%s", v.s, to.lean()), t: to}
		}
		f.fail(c, "conversion from %s to %s", v.t.lean(), to.lean())
	}
	if id, ok := c.Fun.(*ast.Ident); ok {
		if _, isBuiltin := f.info.Uses[id].(*types.Builtin); isBuiltin {
			switch id.Name {
			case "len":
				v := f.expr(c.Args[0])
				switch v.t.k {
				case oList, oBytes, oMap:
					return oval{s: paren(v.s) + ".length", t: &otype{k: oNat}}
				}
				f.fail(c, "len of a value of unsupported kind")
			case "make":
				t, ok := f.og.typeOf(f.info.TypeOf(c.Args[0]))
				if !ok {
					f.fail(c, "make of %s", f.info.TypeOf(c.Args[0]))
				}
				for _, a := range c.Args[1:] {
					if sz := f.expr(a); sz.t.k != oNat { // evaluated for its possible panic only when it can be negative: ℕ cannot
						f.fail(c, "make with a size of unsupported kind")
					}
				}
				switch {
				case t.k == oMap:
					return oval{s: t.zero(), t: t} // the size hint is not observable
				case t.k == oList && len(c.Args) == 3:
					if n, ok := constInt(f.info, c.Args[1]); ok && n == 0 {
						return oval{s: t.zero(), t: t} // the capacity is not observable
					}
				case t.k == oList && len(c.Args) == 2:
					n := f.expr(c.Args[1])
					return oval{s: fmt.Sprintf("(List.replicate %s %s)", paren(n.s), t.elem.zero()), t: t}
				}
				f.fail(c, "make of %s", f.info.TypeOf(c.Args[0]))
			case "append":
				if len(c.Args) == 2 {
					l := f.expr(c.Args[0])
					if l.t.k != oList {
						f.fail(c, "append to a value of unsupported kind")
					}
					if c.Ellipsis.IsValid() {
						v := f.exprT(c.Args[1], l.t)
						return oval{s: fmt.Sprintf("(%s ++ %s)", paren(l.s), paren(v.s)), t: l.t}
					}
					v := f.exprT(c.Args[1], l.t.elem)
					return oval{s: fmt.Sprintf("(%s ++ [%s])", paren(l.s), v.s), t: l.t}
				}
				f.fail(c, "append form")
			}
			f.fail(c, "builtin %s", id.Name)
		}
	}
	// t.Before(u) on time.Time values
	if se, ok := c.Fun.(*ast.SelectorExpr); ok && len(c.Args) == 1 {
		if fullName(staticCallee(f.info, c)) == "(time.Time).Before" {
			a, b := f.expr(se.X), f.expr(c.Args[0])
			if a.t.k == oTime && b.t.k == oTime {
				return oval{s: fmt.Sprintf("%s < %s", paren(a.s), paren(b.s)), t: &otype{k: oBool}, prop: true}
			}
		}
	}
	// methods of local values
	if se, ok := c.Fun.(*ast.SelectorExpr); ok {
		if id, ok := se.X.(*ast.Ident); ok {
			obj := f.info.Uses[id]
			if t, known := f.vars[obj]; known && t.k == oBytes && isBytesBuffer(obj.Type()) && se.Sel.Name == "Bytes" && len(c.Args) == 0 {
				return oval{s: f.nameOf(obj), t: t} // the bytes written so far
			}
		}
	}
	callee := staticCallee(f.info, c)
	if callee == nil {
		f.fail(c, "call of %s (not a statically known function)", types.ExprString(c.Fun))
	}
	if _, inModule := f.og.g.funcs[callee]; !inModule {
		f.fail(c, "call of %s", callee.FullName())
	}
	if f.constOnly {
		f.fail(c, "call in an initialiser")
	}
	fi := f.og.function(callee, f)
	if !fi.pure {
		f.fail(c, "call of %s (a function with effects) inside an expression", callee.FullName())
	}
	sig := callee.Type().(*types.Signature)
	var args []string
	if sig.Recv() != nil {
		se := c.Fun.(*ast.SelectorExpr)
		rt, _ := f.og.typeOf(sig.Recv().Type())
		args = append(args, paren(f.exprT(se.X, rt).s))
	}
	for i, a := range c.Args {
		pt, _ := f.og.typeOf(sig.Params().At(i).Type())
		args = append(args, paren(f.exprT(a, pt).s))
	}
	return oval{s: fmt.Sprintf("(%s %s)", fi.name, strings.Join(args, " ")), t: fi.results[0]}
}

func (f *ofn) compositeLit(x *ast.CompositeLit) oval {
	gt := f.info.TypeOf(x)
	t, ok := f.og.typeOf(gt)
	if !ok {
		f.fail(x, "composite literal of type %s", gt)
	}
	switch t.k {
	case oUnit:
		return oval{s: "()", t: t}
	case oMap:
		if len(x.Elts) != 0 {
			f.fail(x, "map literal with elements")
		}
		return oval{s: t.zero(), t: t}
	case oList:
		var els []string
		for _, el := range x.Elts {
			if _, ok := el.(*ast.KeyValueExpr); ok {
				f.fail(x, "keyed slice literal")
			}
			els = append(els, f.exprT(el, t.elem).s)
		}
		return oval{s: fmt.Sprintf("([%s] : %s)", strings.Join(els, ", "), t.lean()), t: t}
	case oBytes:
		if isBytesBuffer(gt) && len(x.Elts) == 0 {
			return oval{s: "([] : Bytes)", t: t}
		}
		if at, ok := gt.Underlying().(*types.Array); ok && len(x.Elts) == 0 {
			return oval{s: fmt.Sprintf("(List.replicate %d (0 : UInt8))", at.Len()), t: t} // `[N]byte{}`
		}
	case oStruct:
		st := t.named.Underlying().(*types.Struct)
		var fs []string
		for i, el := range x.Elts {
			var fl *types.Var
			val := el
			if kv, ok := el.(*ast.KeyValueExpr); ok {
				kid, ok := kv.Key.(*ast.Ident)
				if !ok {
					f.fail(x, "struct literal key")
				}
				fl, _ = f.info.Uses[kid].(*types.Var)
				val = kv.Value
			} else {
				fl = st.Field(i)
			}
			if fl != nil && f.hsLiteralField(x, t.named, fl, val, &fs) {
				continue
			}
			if fl == nil || !f.og.hasField(t.named, fl.Name()) {
				f.fail(el, "struct literal sets a field outside the language")
			}
			ft, _ := f.og.fieldOType(t.named, fl)
			fname := leanField(fl.Name())
			if !t.sh {
				fname = f.og.fieldName(t.named, fl.Name())
			}
			fs = append(fs, fmt.Sprintf("%s := %s", fname, f.exprT(val, ft).s))
		}
		if len(fs) == 0 {
			return oval{s: t.zero(), t: t}
		}
		return oval{s: fmt.Sprintf("({ %s } : %s)", strings.Join(fs, ", "), t.lean()), t: t}
	}
	f.fail(x, "composite literal of type %s", gt)
	return oval{}
}
