package main

// Extensions of the translator's language (decgen2): package-level tables (arrays, map literals) that are never
// written, interface values that are one of finitely many named functions (closed sums), functions returning
// (values…, error) that are not methods of the receiver, local structures, external calls turned into parameters,
// the float idioms for ceiling / floor division by a power of two.

import (
	"fmt"
	"go/ast"
	"go/constant"
	"go/token"
	"go/types"
	"sort"
	"strings"

	"golang.org/x/tools/go/packages"
)

// ---- package-level variables that are never written --------------------------------------------------------------

type varSrc struct {
	init ast.Expr
	pkg  *packages.Package
}

// readOnly: every use of the package-level variable v in the loaded module packages is `v[k]` read as a value (not
// assigned, not incremented, not address-taken, not deleted from) or `len(v)`
func (g *gen) readOnly(v *types.Var) (bool, string) {
	if r, ok := g.roCache[v]; ok {
		return r == "", r
	}
	why := ""
	if v.Exported() {
		// packages of the module that were not loaded (and other modules) could write it
		why = "exported"
	}
	for _, p := range g.modPkgs {
		for _, file := range p.Syntax {
			var stack []ast.Node
			ast.Inspect(file, func(n ast.Node) bool {
				if n == nil {
					stack = stack[:len(stack)-1]
					return true
				}
				stack = append(stack, n)
				id, ok := n.(*ast.Ident)
				if !ok || p.TypesInfo.Uses[id] != v || why != "" {
					return true
				}
				pos := p.Fset.Position(id.Pos())
				at := fmt.Sprintf("%s:%d", shortFile(pos.Filename), pos.Line)
				if len(stack) < 2 {
					why = at
					return true
				}
				parent := stack[len(stack)-2]
				switch pn := parent.(type) {
				case *ast.IndexExpr:
					if pn.X != ast.Expr(id) {
						return true // used as an index of something else: a read
					}
					if len(stack) >= 3 {
						switch gp := stack[len(stack)-3].(type) {
						case *ast.AssignStmt:
							for _, l := range gp.Lhs {
								if l == ast.Expr(pn) {
									why = at + ": element assigned"
								}
							}
						case *ast.IncDecStmt:
							why = at + ": element incremented"
						case *ast.UnaryExpr:
							if gp.Op == token.AND {
								why = at + ": address of an element taken"
							}
						}
					}
				case *ast.CallExpr:
					if fid, ok := pn.Fun.(*ast.Ident); ok && fid.Name == "len" {
						return true
					}
					why = at + ": passed to a function"
				case *ast.SelectorExpr:
					if pn.Sel == id { // pkg.v qualified use: look one level further up
						if len(stack) >= 3 {
							if ix, ok := stack[len(stack)-3].(*ast.IndexExpr); ok && ix.X == ast.Expr(pn) {
								if len(stack) >= 4 {
									switch gp := stack[len(stack)-4].(type) {
									case *ast.AssignStmt:
										for _, l := range gp.Lhs {
											if l == ast.Expr(ix) {
												why = at + ": element assigned"
											}
										}
									case *ast.IncDecStmt:
										why = at + ": element incremented"
									case *ast.UnaryExpr:
										if gp.Op == token.AND {
											why = at + ": address of an element taken"
										}
									}
								}
								return true
							}
						}
					}
					why = at + ": used as a whole"
				default:
					why = at + ": used as a whole"
				}
				return true
			})
		}
	}
	g.roCache[v] = why
	return why == "", why
}

// tableVar: a package-level array of constants used as a value: the list of its elements
func (g *gen) tableVar(f *fn, n ast.Node, v *types.Var) Val {
	name := v.Pkg().Name() + "_" + v.Name()
	at, isArr := v.Type().Underlying().(*types.Array)
	if !isArr {
		f.fail(n, "package-level variable %s", v.Name())
	}
	ek, _, ok := f.kindOfType(at.Elem())
	if !ok || (width(ek) == 0 && swidth(ek) == 0) {
		f.fail(n, "package-level array %s of element type %s", v.Name(), at.Elem())
	}
	if _, done := g.defs[name]; !done {
		src, ok := g.varInits[v]
		if !ok {
			f.fail(n, "package-level variable %s: no initialiser", v.Name())
		}
		if ro, why := g.readOnly(v); !ro {
			f.fail(n, "package-level variable %s is written or escapes (%s)", v.Name(), why)
		}
		lit, ok := src.init.(*ast.CompositeLit)
		if !ok || len(lit.Elts) != int(at.Len()) {
			f.fail(n, "package-level array %s: initialiser form", v.Name())
		}
		var els []string
		for _, el := range lit.Elts {
			tv, ok := src.pkg.TypesInfo.Types[el]
			if !ok || tv.Value == nil || tv.Value.Kind() != constant.Int {
				f.fail(n, "package-level array %s: element that is not a constant", v.Name())
			}
			els = append(els, tv.Value.ExactString())
		}
		pos := src.pkg.Fset.Position(lit.Pos())
		g.defs[name] = fmt.Sprintf("/-- the package-level array `%s.%s` (%s); it is never written (every use in the module is an element read) -/\ndef %s : List %s := [%s]\n",
			v.Pkg().Name(), v.Name(), shortFile(pos.Filename), name, leanKindType(ek), strings.Join(els, ", "))
		g.defOrder = append(g.defOrder, name)
	}
	return Val{S: name, K: KList, E: ek, N: int(at.Len())}
}

// enumInfo: an interface type whose values, as far as the translated code can obtain them, are `dyn(f)` for finitely
// many top-level functions f (dyn a named function type implementing the interface by calling the function)
type enumInfo struct {
	name  string
	iface *types.Named
	dyn   *types.Named
	alts  []*types.Func
}

type mapInfo struct {
	name string
	kk   Kind
	val  Val // template of the value
}

// mapVar: a package-level `map[K]V{…}` that is never written, as a finite function K → Option V
func (g *gen) mapVar(f *fn, n ast.Node, v *types.Var) *mapInfo {
	if mi, ok := g.maps[v]; ok {
		return mi
	}
	mt, ok := v.Type().Underlying().(*types.Map)
	if !ok {
		f.fail(n, "package-level variable %s is not a map", v.Name())
	}
	kk, _, ok := f.kindOfType(mt.Key())
	if !ok || width(kk) == 0 {
		f.fail(n, "map %s: key type %s", v.Name(), mt.Key())
	}
	src, ok := g.varInits[v]
	if !ok {
		f.fail(n, "map %s: no initialiser", v.Name())
	}
	if ro, why := g.readOnly(v); !ro {
		f.fail(n, "map %s is written or escapes (%s)", v.Name(), why)
	}
	lit, ok := src.init.(*ast.CompositeLit)
	if !ok {
		f.fail(n, "map %s: initialiser form", v.Name())
	}
	info := src.pkg.TypesInfo
	type entry struct {
		key  int64
		term string
	}
	var entries []entry
	var en *enumInfo
	iface, isIface := mt.Elem().(*types.Named)
	if isIface {
		if _, ok := iface.Underlying().(*types.Interface); !ok {
			isIface = false
		}
	}
	if !isIface {
		f.fail(n, "map %s: value type %s", v.Name(), mt.Elem())
	}
	altSet := map[*types.Func]bool{}
	var dyn *types.Named
	type raw struct {
		key int64
		fn  *types.Func
	}
	var raws []raw
	for _, el := range lit.Elts {
		kv, ok := el.(*ast.KeyValueExpr)
		if !ok {
			f.fail(n, "map %s: element form", v.Name())
		}
		ktv, ok := info.Types[kv.Key]
		if !ok || ktv.Value == nil || ktv.Value.Kind() != constant.Int {
			f.fail(n, "map %s: key that is not a constant", v.Name())
		}
		key, _ := constant.Int64Val(ktv.Value)
		call, ok := kv.Value.(*ast.CallExpr)
		if !ok || len(call.Args) != 1 {
			f.fail(n, "map %s: value that is not T(function)", v.Name())
		}
		ctv, ok := info.Types[call.Fun]
		if !ok || !ctv.IsType() {
			f.fail(n, "map %s: value that is not T(function)", v.Name())
		}
		dn, ok := ctv.Type.(*types.Named)
		if !ok {
			f.fail(n, "map %s: value that is not T(function)", v.Name())
		}
		if _, isSig := dn.Underlying().(*types.Signature); !isSig {
			f.fail(n, "map %s: value that is not T(function)", v.Name())
		}
		if dyn != nil && dyn != dn {
			f.fail(n, "map %s: values of several dynamic types", v.Name())
		}
		dyn = dn
		fid, ok := call.Args[0].(*ast.Ident)
		if !ok {
			f.fail(n, "map %s: value that is not T(function)", v.Name())
		}
		fo, ok := info.Uses[fid].(*types.Func)
		if !ok || fo.Type().(*types.Signature).Recv() != nil {
			f.fail(n, "map %s: value that is not T(top-level function)", v.Name())
		}
		altSet[fo] = true
		raws = append(raws, raw{key, fo})
	}
	if dyn == nil {
		f.fail(n, "map %s is empty", v.Name())
	}
	en = g.enums[iface]
	if en == nil {
		en = &enumInfo{name: iface.Obj().Name(), iface: iface, dyn: dyn}
		for fo := range altSet {
			en.alts = append(en.alts, fo)
		}
		sort.Slice(en.alts, func(i, j int) bool { return en.alts[i].Name() < en.alts[j].Name() })
		g.enums[iface] = en
		var cs []string
		for _, a := range en.alts {
			cs = append(cs, "  | "+a.Name())
		}
		tn := "type:" + en.name
		g.defs[tn] = fmt.Sprintf("/-- the values of the interface `%s.%s` the translated code can obtain: `%s(f)` for these top-level functions f -/\ninductive %s where\n%s\n  deriving Repr, DecidableEq\n",
			iface.Obj().Pkg().Name(), iface.Obj().Name(), dyn.Obj().Name(), en.name, strings.Join(cs, "\n"))
		g.defOrder = append(g.defOrder, tn)
	} else {
		if en.dyn != dyn {
			f.fail(n, "map %s: another dynamic type than the one already seen for %s", v.Name(), en.name)
		}
		for fo := range altSet {
			found := false
			for _, a := range en.alts {
				if a == fo {
					found = true
				}
			}
			if !found {
				f.fail(n, "map %s: a function outside the closed sum %s", v.Name(), en.name)
			}
		}
	}
	for _, r := range raws {
		entries = append(entries, entry{r.key, fmt.Sprintf("some %s.%s", en.name, r.fn.Name())})
	}
	sort.Slice(entries, func(i, j int) bool { return entries[i].key < entries[j].key })
	name := v.Pkg().Name() + "_" + v.Name()
	var b strings.Builder
	pos := src.pkg.Fset.Position(lit.Pos())
	fmt.Fprintf(&b, "/-- the package-level map `%s.%s` (%s) as a finite function; it is never written (every use in the module is a lookup) -/\ndef %s (k : %s) : Option %s :=\n",
		v.Pkg().Name(), v.Name(), shortFile(pos.Filename), name, leanKindType(kk), en.name)
	for _, e := range entries {
		fmt.Fprintf(&b, "  if k == (%d : %s) then %s else\n", e.key, leanKindType(kk), e.term)
	}
	b.WriteString("  none\n")
	g.defs[name] = b.String()
	g.defOrder = append(g.defOrder, name)
	mi := &mapInfo{name: name, kk: kk, val: Val{K: KEnum, En: en, N: -1}}
	g.maps[v] = mi
	return mi
}

// commaOkLookup: `v, ok := m[k]` with m a package-level read-only map; returns the Lean term of the lookup (an Option)
func (f *fn) commaOkLookup(as *ast.AssignStmt) (term string, valObj, okObj types.Object, val Val, ok bool) {
	if as.Tok != token.DEFINE || len(as.Lhs) != 2 || len(as.Rhs) != 1 {
		return "", nil, nil, Val{}, false
	}
	ix, isIx := as.Rhs[0].(*ast.IndexExpr)
	if !isIx {
		return "", nil, nil, Val{}, false
	}
	mid, isId := ix.X.(*ast.Ident)
	if !isId {
		return "", nil, nil, Val{}, false
	}
	mv, isVar := f.info.Uses[mid].(*types.Var)
	if !isVar || mv.Pkg() == nil || mv.Parent() != mv.Pkg().Scope() {
		return "", nil, nil, Val{}, false
	}
	if _, isMap := mv.Type().Underlying().(*types.Map); !isMap {
		return "", nil, nil, Val{}, false
	}
	mi := f.g.mapVar(f, as, mv)
	k := f.expr(ix.Index)
	if k.K != mi.kk {
		f.fail(as, "map key of another kind")
	}
	vid, ok1 := as.Lhs[0].(*ast.Ident)
	oid, ok2 := as.Lhs[1].(*ast.Ident)
	if !ok1 || !ok2 || vid.Name == "_" || oid.Name == "_" {
		f.fail(as, "comma-ok lookup form")
	}
	return fmt.Sprintf("%s %s", mi.name, paren(k.S)), f.info.Defs[vid], f.info.Defs[oid], mi.val, true
}

// ---- functions returning (values…, error) that are not pointer-receiver methods of the receiver -----------------

type funcInfo struct {
	name  string
	monad string // "R" or "RF"
	resT  []Val
}

// typeTemplate: the shape (kind and Lean type) of a value of Go type t
func (f *fn) typeTemplate(t types.Type) (Val, bool) {
	if nt, ok := listOfStructs(t); ok {
		return Val{K: KList, E: KStruct, T: nt, N: -1}, true
	}
	if ek, ok := listElem(t); ok {
		return Val{K: KList, E: ek, N: -1}, true
	}
	if nt, ok := t.(*types.Named); ok {
		if _, isI := nt.Underlying().(*types.Interface); isI {
			return Val{K: KEnum, En: f.g.enums[nt], N: -1}, true // En may still be unknown
		}
		if _, isS := nt.Underlying().(*types.Struct); isS && plainStruct(nt) {
			return Val{K: KStruct, T: nt, N: -1}, true
		}
	}
	if k, n, ok := f.kindOfType(t); ok {
		return Val{K: k, N: n}, true
	}
	return Val{}, false
}

// coerceTo: v as a value of the shape want
func (f *fn) coerceTo(n ast.Node, v Val, want *Val) string {
	switch want.K {
	case KEnum:
		if v.K == KEnum {
			if want.En == nil {
				want.En = v.En
			}
			if want.En == v.En {
				return v.S
			}
		}
	case KList, KStruct:
		if sameType(v, *want) {
			return v.S
		}
	case KBytes:
		if v.K == KBytes {
			return v.S
		}
		if v.K == KSlice {
			return v.S + ".vis"
		}
	default:
		return f.coerce(n, v, want.K)
	}
	f.fail(n, "value of kind %d where %s is expected", v.K, want.leanType())
	return ""
}

// staticErrCallee: the call invokes a module function (package-level, or a method with a value receiver) whose last
// result is an error, or a method of a closed-sum interface value
func (f *fn) errCallee(call *ast.CallExpr) (*types.Func, *enumInfo, bool) {
	if se, ok := call.Fun.(*ast.SelectorExpr); ok {
		if id, ok := se.X.(*ast.Ident); ok {
			if v, ok := f.vars[f.info.Uses[id]]; ok && v.K == KEnum && v.En != nil {
				if sel := f.info.Selections[se]; sel != nil && sel.Kind() == types.MethodVal {
					m := sel.Obj().(*types.Func)
					sig := m.Type().(*types.Signature)
					if sig.Results().Len() > 0 && sig.Results().At(sig.Results().Len()-1).Type().String() == "error" {
						return m, v.En, true
					}
				}
			}
		}
	}
	callee := f.calleeOf(call)
	if callee == nil {
		return nil, nil, false
	}
	if _, ok := f.g.funcs[callee]; !ok {
		return nil, nil, false
	}
	sig := callee.Type().(*types.Signature)
	if sig.Results().Len() == 0 || sig.Results().At(sig.Results().Len()-1).Type().String() != "error" {
		return nil, nil, false
	}
	if sig.Recv() != nil {
		if _, isPtr := sig.Recv().Type().(*types.Pointer); isPtr {
			return nil, nil, false
		}
	}
	return callee, nil, true
}

// monadicFunc translates (once) a module function returning (values…, error) into its own definition
func (g *gen) monadicFunc(f *fn, n ast.Node, callee *types.Func) *funcInfo {
	sig := callee.Type().(*types.Signature)
	name := callee.Pkg().Name() + "_" + callee.Name()
	if sig.Recv() != nil {
		if rn, ok := sig.Recv().Type().(*types.Named); ok {
			name = rn.Obj().Name() + "_" + callee.Name()
		}
	}
	if fi, ok := g.funcInfos[name]; ok {
		return fi
	}
	if g.inProgress[name] {
		f.fail(n, "recursive call of %s", callee.FullName())
	}
	src, ok := g.funcs[callee]
	if !ok {
		f.fail(n, "call of %s: no source", callee.FullName())
	}
	g.inProgress[name] = true
	defer delete(g.inProgress, name)
	var resT []Val
	for i := 0; i < sig.Results().Len()-1; i++ {
		t, ok := f.typeTemplate(sig.Results().At(i).Type())
		if !ok {
			f.fail(n, "call of %s: result type %s", callee.FullName(), sig.Results().At(i).Type())
		}
		if t.K == KSlice {
			f.fail(n, "call of %s: a byte slice result (its backing array is not modelled)", callee.FullName())
		}
		resT = append(resT, t)
	}
	var h *fn
	var pdecl []string
	run := func(fuel bool) {
		h = g.newFn(src, nil)
		h.noRecv = true
		h.fuel = fuel
		pdecl = nil
		bind := func(id *ast.Ident) {
			obj := h.info.Defs[id]
			t, ok := h.typeTemplate(obj.Type())
			if !ok || t.K == KEnum || t.K == KList || t.K == KStruct {
				f.fail(n, "call of %s: parameter type %s", callee.FullName(), obj.Type())
			}
			t.S = h.nameOf(obj)
			h.vars[obj] = t
			pdecl = append(pdecl, fmt.Sprintf("(%s : %s)", t.S, t.leanType()))
		}
		if src.decl.Recv != nil {
			if len(src.decl.Recv.List[0].Names) != 1 {
				f.fail(n, "call of %s: unnamed receiver", callee.FullName())
			}
			bind(src.decl.Recv.List[0].Names[0])
		}
		for _, p := range src.decl.Type.Params.List {
			if len(p.Names) == 0 {
				f.fail(n, "call of %s: unnamed parameter", callee.FullName())
			}
			for _, id := range p.Names {
				if id.Name == "_" {
					f.fail(n, "call of %s: blank parameter", callee.FullName())
				}
				bind(id)
			}
		}
		h.resT = append([]Val{}, resT...)
		h.results = nil
		for _, t := range resT {
			h.results = append(h.results, t.K)
		}
		func() {
			defer func() {
				if r := recover(); r != nil {
					if gu, ok := r.(giveUp); ok {
						panic(giveUp{fmt.Sprintf("%s (in %s)", gu.msg, callee.FullName())})
					}
					panic(r)
				}
			}()
			h.block(src.decl.Body.List, 1, nil)
		}()
	}
	withFuelRetry(run)
	for i := range h.resT {
		if h.resT[i].K == KEnum && h.resT[i].En == nil {
			f.fail(n, "call of %s: an interface result whose values are not known", callee.FullName())
		}
	}
	pos := src.pkg.Fset.Position(src.decl.Pos())
	text := fmt.Sprintf("/-- translated from `%s` (%s) -/\ndef %s %s : %s %s := do\n%s\n", callee.FullName(), shortFile(pos.Filename),
		name, strings.Join(pdecl, " "), h.M(), resultType(h.resT), strings.Join(h.lines, "\n"))
	g.defs[name] = text
	g.defOrder = append(g.defOrder, name)
	fi := &funcInfo{name: name, monad: h.M(), resT: h.resT}
	g.funcInfos[name] = fi
	return fi
}

// withFuelRetry runs the translation in the monad R and, when it turns out to need fuel, again in RF
func withFuelRetry(run func(fuel bool)) {
	again := false
	func() {
		defer func() {
			if r := recover(); r != nil {
				if _, ok := r.(needFuel); ok {
					again = true
					return
				}
				panic(r)
			}
		}()
		run(false)
	}()
	if again {
		run(true)
	}
}

func resultType(res []Val) string {
	if len(res) == 0 {
		return "Unit"
	}
	var parts []string
	for _, r := range res {
		parts = append(parts, r.leanType())
	}
	if len(parts) == 1 {
		return paren(parts[0])
	}
	return "(" + strings.Join(parts, " × ") + ")"
}

// enumMethod: the method m of the closed-sum interface value: every alternative is dyn(f) and dyn's method m must be
// `return recv(params…)`; the definition dispatches on the alternative
func (g *gen) enumMethod(f *fn, n ast.Node, en *enumInfo, m *types.Func) *funcInfo {
	name := en.name + "." + m.Name()
	if fi, ok := g.funcInfos[name]; ok {
		return fi
	}
	// the method of the dynamic type
	var dm *types.Func
	for i := 0; i < en.dyn.NumMethods(); i++ {
		if en.dyn.Method(i).Name() == m.Name() {
			dm = en.dyn.Method(i)
		}
	}
	if dm == nil {
		f.fail(n, "method %s of %s not found", m.Name(), en.dyn.Obj().Name())
	}
	src, ok := g.funcs[dm]
	if !ok {
		f.fail(n, "method %s of %s: no source", m.Name(), en.dyn.Obj().Name())
	}
	// body must be exactly `return recv(p1, …, pn)`
	okForm := false
	if src.decl.Recv != nil && len(src.decl.Recv.List) == 1 && len(src.decl.Recv.List[0].Names) == 1 && len(src.decl.Body.List) == 1 {
		if ret, ok := src.decl.Body.List[0].(*ast.ReturnStmt); ok && len(ret.Results) == 1 {
			if call, ok := ret.Results[0].(*ast.CallExpr); ok && !call.Ellipsis.IsValid() {
				if fid, ok := call.Fun.(*ast.Ident); ok && src.pkg.TypesInfo.Uses[fid] == src.pkg.TypesInfo.Defs[src.decl.Recv.List[0].Names[0]] {
					var pnames []types.Object
					for _, p := range src.decl.Type.Params.List {
						for _, id := range p.Names {
							pnames = append(pnames, src.pkg.TypesInfo.Defs[id])
						}
					}
					if len(pnames) == len(call.Args) {
						okForm = true
						for i, a := range call.Args {
							aid, ok := a.(*ast.Ident)
							if !ok || src.pkg.TypesInfo.Uses[aid] != pnames[i] {
								okForm = false
							}
						}
					}
				}
			}
		}
	}
	if !okForm {
		f.fail(n, "method %s of %s is not a plain call of the function it wraps", m.Name(), en.dyn.Obj().Name())
	}
	var fis []*funcInfo
	monad := "R"
	for _, a := range en.alts {
		fi := g.monadicFunc(f, n, a)
		fis = append(fis, fi)
		if fi.monad == "RF" {
			monad = "RF"
		}
	}
	// parameters from the first alternative's signature
	sig := en.alts[0].Type().(*types.Signature)
	var pdecl, pnames []string
	for i := 0; i < sig.Params().Len(); i++ {
		t, ok := f.typeTemplate(sig.Params().At(i).Type())
		if !ok {
			f.fail(n, "method %s: parameter type", m.Name())
		}
		pn := fmt.Sprintf("a%d", i+1)
		pdecl = append(pdecl, fmt.Sprintf("(%s : %s)", pn, t.leanType()))
		pnames = append(pnames, pn)
	}
	var b strings.Builder
	fmt.Fprintf(&b, "/-- `x.%s(…)` for a value x of the closed sum `%s`: `%s.%s` calls the function it wraps -/\ndef %s (x : %s) %s : %s %s :=\n  match x with\n",
		m.Name(), en.name, en.dyn.Obj().Name(), m.Name(), name, en.name, strings.Join(pdecl, " "), monad, resultType(fis[0].resT))
	for i, a := range en.alts {
		call := fis[i].name + " " + strings.Join(pnames, " ")
		if monad == "RF" && fis[i].monad == "R" {
			call = "RF.lift (" + call + ")"
		}
		fmt.Fprintf(&b, "  | .%s => %s\n", a.Name(), call)
	}
	g.defs[name] = b.String()
	g.defOrder = append(g.defOrder, name)
	fi := &funcInfo{name: name, monad: monad, resT: fis[0].resT}
	g.funcInfos[name] = fi
	return fi
}

// errCall: `lhs…, err := callee(args)` with the error propagated by the statement that follows
func (f *fn) errCall(call *ast.CallExpr, callee *types.Func, en *enumInfo, lhs []ast.Expr) {
	var fi *funcInfo
	var args []string
	sig := callee.Type().(*types.Signature)
	if en != nil {
		fi = f.g.enumMethod(f, call, en, callee)
		se := call.Fun.(*ast.SelectorExpr)
		args = append(args, f.expr(se.X).S)
	} else {
		fi = f.g.monadicFunc(f, call, callee)
		if sig.Recv() != nil {
			se := call.Fun.(*ast.SelectorExpr)
			v := f.expr(se.X)
			args = append(args, paren(argTerm(f, v, sig.Recv().Type())))
		}
	}
	for i, a := range call.Args {
		v := f.expr(a)
		if v.K == KStruct || v.K == KList || v.K == KEnum {
			f.fail(call, "argument of %s", callee.FullName())
		}
		args = append(args, paren(argTerm(f, v, sig.Params().At(i).Type())))
	}
	if len(lhs) != len(fi.resT) {
		f.fail(call, "result count of %s", fi.name)
	}
	term := fi.name + " " + strings.Join(args, " ")
	if fi.monad == "RF" {
		f.requireFuel()
	} else {
		term = f.lift(term)
	}
	t := f.tmp()
	f.w("let %s ← %s", t, term)
	for i, l := range lhs {
		id, ok := l.(*ast.Ident)
		if !ok {
			f.fail(call, "result stored into a non-variable")
		}
		if id.Name == "_" {
			continue
		}
		obj := f.info.Defs[id]
		if obj == nil {
			obj = f.info.Uses[id]
		}
		proj := t
		if len(fi.resT) > 1 {
			proj = t + strings.Repeat(".2", i)
			if i < len(fi.resT)-1 {
				proj += ".1"
			}
		}
		nm := f.nameOf(obj)
		rv := fi.resT[i]
		f.w("let %s : %s := %s", nm, rv.leanType(), proj)
		rv.S = nm
		f.vars[obj] = rv
	}
}

// ---- local structures ---------------------------------------------------------------------------------------------

// localFieldPath: e is v.A.B… rooted at a local structure variable
func (f *fn) localFieldPath(e ast.Expr) (types.Object, []*types.Var, bool) {
	switch x := e.(type) {
	case *ast.ParenExpr:
		return f.localFieldPath(x.X)
	case *ast.Ident:
		obj := f.info.Uses[x]
		if v, ok := f.vars[obj]; ok && v.K == KStruct {
			return obj, nil, true
		}
	case *ast.SelectorExpr:
		root, base, ok := f.localFieldPath(x.X)
		if !ok {
			return nil, nil, false
		}
		sel := f.info.Selections[x]
		if sel == nil || sel.Kind() != types.FieldVal {
			return nil, nil, false
		}
		t := f.info.TypeOf(x.X)
		for _, i := range sel.Index() {
			st, ok := t.Underlying().(*types.Struct)
			if !ok {
				return nil, nil, false
			}
			base = append(base, st.Field(i))
			t = st.Field(i).Type()
		}
		return root, base, true
	}
	return nil, nil, false
}

// leanPathFrom: like leanPath, starting from the structure type `from`
func (f *fn) leanPathFrom(n ast.Node, from *types.Named, path []*types.Var) []string {
	saved := f.recvType
	f.recvType = from
	defer func() { f.recvType = saved }()
	return f.leanPath(n, path)
}

// ---- external calls as parameters ---------------------------------------------------------------------------------

type extParam struct {
	name, typ, doc string
}

type extParams struct {
	list []extParam
}

func (p *extParams) add(name, typ, doc string) {
	for _, e := range p.list {
		if e.name == name {
			return
		}
	}
	p.list = append(p.list, extParam{name, typ, doc})
}

type storedAlias struct {
	base types.Object
	hi   string
}

// bytesOf: the bytes a byte-slice / byte-string value denotes
func (f *fn) bytesOf(n ast.Node, v Val) string {
	switch v.K {
	case KSlice:
		return v.S + ".vis"
	case KBytes:
		return v.S
	}
	f.fail(n, "a value of kind %d where bytes are expected", v.K)
	return ""
}

// externalIface: t is an interface type declared outside the module
func externalIface(t types.Type) bool {
	n, ok := t.(*types.Named)
	if !ok {
		return false
	}
	if _, isI := n.Underlying().(*types.Interface); !isI {
		return false
	}
	return n.Obj().Pkg() != nil && !strings.HasPrefix(n.Obj().Pkg().Path(), "github.com/gebn/bmc")
}

// extCall: (1) `a.field.BlockSize()` on a cipher.Block field that is only ever set from aes.NewCipher: the constant
// aes.BlockSize; (2) a module function applied to a receiver field of an external interface type (hash.Hash …) and
// byte arguments, giving bytes: the whole call is a PARAMETER of the translated definition
func (f *fn) extCall(c *ast.CallExpr) (Val, bool) {
	if se, ok := c.Fun.(*ast.SelectorExpr); ok && se.Sel.Name == "BlockSize" && len(c.Args) == 0 {
		if path, ok := f.fieldPath(se.X); ok && len(path) == 1 && externalIface(path[0].Type()) {
			bs := f.g.blockSizeOfField(f, c, path[0])
			return Val{S: fmt.Sprintf("%d", bs), K: KNat, N: -1, IsConst: true, Const: int64(bs)}, true
		}
	}
	callee := f.calleeOf(c)
	if callee == nil {
		return Val{}, false
	}
	if _, inModule := f.g.funcs[callee]; !inModule {
		return Val{}, false
	}
	var field *types.Var
	var others []ast.Expr
	for _, a := range c.Args {
		if path, ok := f.fieldPath(a); ok && len(path) == 1 && externalIface(path[0].Type()) {
			if field != nil {
				return Val{}, false
			}
			field = path[0]
			continue
		}
		others = append(others, a)
	}
	if field == nil {
		return Val{}, false
	}
	sig := callee.Type().(*types.Signature)
	if sig.Results().Len() != 1 {
		f.fail(c, "external call %s: result count", callee.Name())
	}
	if sl, ok := sig.Results().At(0).Type().Underlying().(*types.Slice); !ok || !isPlainByte(sl.Elem()) {
		f.fail(c, "external call %s: result type %s", callee.Name(), sig.Results().At(0).Type())
	}
	if f.params == nil {
		f.fail(c, "external call %s outside a top-level definition", callee.Name())
	}
	var args, typ []string
	for _, a := range others {
		v := f.expr(a)
		args = append(args, paren(f.bytesOf(c, v)))
		typ = append(typ, "Bytes")
	}
	typ = append(typ, "Bytes")
	pname := leanField(field.Name()) + "_" + callee.Name()
	f.params.add(pname, strings.Join(typ, " → "),
		fmt.Sprintf("`%s(x.%s, …)` as a function of the bytes of its other arguments (the state of the `%s` is not modelled: every call is taken to compute the same function, as for a keyed hash left reset)",
			callee.Name(), field.Name(), field.Type()))
	return Val{S: fmt.Sprintf("(%s %s)", pname, strings.Join(args, " ")), K: KBytes, N: -1}, true
}

// blockSizeOfField: the field (of type cipher.Block) of the receiver structure is set, anywhere in the module, only in
// composite literals `T{field: c}` where c comes from `c, err := aes.NewCipher(…)`: its BlockSize() is aes.BlockSize
func (g *gen) blockSizeOfField(f *fn, n ast.Node, field *types.Var) int {
	if bs, ok := g.blockSizes[field]; ok {
		return bs
	}
	if field.Exported() {
		f.fail(n, "field %s is exported (it could be set outside the module)", field.Name())
	}
	writes := 0
	for _, p := range g.modPkgs {
		info := p.TypesInfo
		for _, file := range p.Syntax {
			var curFunc *ast.FuncDecl
			ast.Inspect(file, func(m ast.Node) bool {
				switch x := m.(type) {
				case *ast.FuncDecl:
					curFunc = x
				case *ast.AssignStmt:
					for _, l := range x.Lhs {
						if se, ok := l.(*ast.SelectorExpr); ok {
							if sel := info.Selections[se]; sel != nil && sel.Obj() == field {
								f.fail(n, "field %s is assigned outside a constructor literal", field.Name())
							}
						}
					}
				case *ast.UnaryExpr:
					if x.Op == token.AND {
						if se, ok := x.X.(*ast.SelectorExpr); ok {
							if sel := info.Selections[se]; sel != nil && sel.Obj() == field {
								f.fail(n, "address of field %s taken", field.Name())
							}
						}
					}
				case *ast.CompositeLit:
					st, ok := info.TypeOf(x).Underlying().(*types.Struct)
					if !ok {
						return true
					}
					has := false
					for i := 0; i < st.NumFields(); i++ {
						if st.Field(i) == field {
							has = true
						}
					}
					if !has {
						return true
					}
					for _, el := range x.Elts {
						kv, ok := el.(*ast.KeyValueExpr)
						if !ok {
							f.fail(n, "positional literal of the structure holding %s", field.Name())
						}
						kid, ok := kv.Key.(*ast.Ident)
						if !ok || info.Uses[kid] != field {
							continue
						}
						writes++
						vid, ok := kv.Value.(*ast.Ident)
						if !ok || curFunc == nil || !definedByAesNewCipher(info, curFunc, info.Uses[vid]) {
							f.fail(n, "field %s set from something other than aes.NewCipher", field.Name())
						}
					}
				}
				return true
			})
		}
	}
	if writes == 0 {
		f.fail(n, "field %s is never set", field.Name())
	}
	// the constant crypto/aes.BlockSize as type-checked
	bs := -1
	for _, p := range g.modPkgs {
		for path, ip := range p.Imports {
			if path == "crypto/aes" && ip.Types != nil {
				if c, ok := ip.Types.Scope().Lookup("BlockSize").(*types.Const); ok {
					if v, ok := constant.Int64Val(c.Val()); ok {
						bs = int(v)
					}
				}
			}
		}
	}
	if bs <= 0 {
		f.fail(n, "crypto/aes.BlockSize not found")
	}
	g.blockSizes[field] = bs
	return bs
}

// definedByAesNewCipher: obj is defined in fd by `obj, err := aes.NewCipher(…)` and not assigned again
func definedByAesNewCipher(info *types.Info, fd *ast.FuncDecl, obj types.Object) bool {
	defs, other := 0, 0
	ast.Inspect(fd, func(m ast.Node) bool {
		as, ok := m.(*ast.AssignStmt)
		if !ok {
			return true
		}
		for i, l := range as.Lhs {
			id, ok := l.(*ast.Ident)
			if !ok {
				continue
			}
			if info.Defs[id] == obj || info.Uses[id] == obj {
				if i == 0 && len(as.Rhs) == 1 && as.Tok == token.DEFINE {
					if call, ok := as.Rhs[0].(*ast.CallExpr); ok {
						if se, ok := call.Fun.(*ast.SelectorExpr); ok {
							if fo, ok := info.Uses[se.Sel].(*types.Func); ok && fo.FullName() == "crypto/aes.NewCipher" {
								defs++
								continue
							}
						}
					}
				}
				other++
			}
		}
		return true
	})
	return defs == 1 && other == 0
}

// ---- float idioms ---------------------------------------------------------------------------------------------------

// floatIdiom: `int(math.Ceil(float64(e) / k))` / `int(math.Floor(float64(e) / k))` with e an int expression and k a
// constant power of two: exact ceiling / floor division (for |e| < 2^53)
func (f *fn) floatIdiom(n ast.Node, arg ast.Expr) (Val, bool) {
	call, ok := arg.(*ast.CallExpr)
	if !ok || len(call.Args) != 1 {
		return Val{}, false
	}
	var name string
	switch fullName(f.calleeOf(call)) {
	case "math.Ceil":
		name = "GoDec.floatCeilDiv"
	case "math.Floor":
		name = "GoDec.floatFloorDiv"
	default:
		return Val{}, false
	}
	a := call.Args[0]
	for {
		p, ok := a.(*ast.ParenExpr)
		if !ok {
			break
		}
		a = p.X
	}
	div, ok := a.(*ast.BinaryExpr)
	if !ok || div.Op != token.QUO {
		f.fail(n, "float expression other than float64(e) / 2^k under math.Ceil / math.Floor")
	}
	conv, ok := div.X.(*ast.CallExpr)
	if !ok || len(conv.Args) != 1 {
		f.fail(n, "float expression other than float64(e) / 2^k under math.Ceil / math.Floor")
	}
	if tv, ok := f.info.Types[conv.Fun]; !ok || !tv.IsType() {
		f.fail(n, "float expression other than float64(e) / 2^k under math.Ceil / math.Floor")
	} else if b, ok := tv.Type.Underlying().(*types.Basic); !ok || b.Kind() != types.Float64 {
		f.fail(n, "float expression other than float64(e) / 2^k under math.Ceil / math.Floor")
	}
	ktv, ok := f.info.Types[div.Y]
	if !ok || ktv.Value == nil {
		f.fail(n, "float division by a non-constant")
	}
	kv := constant.ToInt(ktv.Value)
	if kv.Kind() != constant.Int {
		f.fail(n, "float division by a non-integer")
	}
	k, exact := constant.Int64Val(kv)
	if !exact || k <= 0 || k&(k-1) != 0 || k > 1<<20 {
		f.fail(n, "float division by something other than a small power of two")
	}
	e := f.expr(conv.Args[0])
	if e.K != KNat && e.K != KInt {
		f.fail(n, "float conversion of a non-int")
	}
	return Val{S: fmt.Sprintf("(%s %s %d)", name, paren(f.asInt(e)), k), K: KInt, N: -1}, true
}
