package main

// decgen: translate the DecodeFromBytes methods of pkg/ipmi and pkg/dcmi (and the helpers they call), and the further
// byte parsers listed in extraFuncs (parseCipherSuiteRecordData), from the Go source (go/ast + go/types) into Lean 4
// definitions over the Go-slice semantics of Bmc/Basic/Go.lean. The statement language is described in DESIGN.md §2.2
// (T2b); expr.go / stmt.go / control.go / call.go hold the original language, ext.go / loops.go its extensions (signed
// narrow integers, read-only package-level tables, closed sums for interface values, functions returning (…, error),
// local structures, loops with fuel in the monad RF, external calls as parameters).
//
// usage: decgen <repo-dir> > lean/Bmc/Gen/Dec.lean
//
// The translator never guesses: a statement or expression outside its language makes it give up on the whole
// method, with the reason recorded in the output (`gaveUp`).

import (
	"fmt"
	"go/ast"
	"go/token"
	"go/types"
	"os"
	"sort"
	"strings"

	"golang.org/x/tools/go/packages"
)

type giveUp struct{ msg string }

type funcSrc struct {
	decl *ast.FuncDecl
	pkg  *packages.Package
}

// gen is the global state of one run
type gen struct {
	funcs map[*types.Func]funcSrc // every function declaration of the loaded packages (incl. dependencies)

	// filled while translating (reset between the two rounds)
	structUse  map[*types.Named]map[string]bool // Go struct type -> Go field names used
	structSeen []*types.Named                   // in order of first use
	defs       map[string]string                // Lean def name -> text (callees, pure helpers)
	defOrder   []string
	inProgress map[string]bool
	funcInfos  map[string]*funcInfo       // functions returning (values…, error), by Lean name
	defMonad   map[string]string          // Lean def name of a method of the receiver -> "R" / "RF"
	maps       map[*types.Var]*mapInfo    // package-level map literals used as finite functions
	enums      map[*types.Named]*enumInfo // closed sums
	paramDocs  []string                   // comments about the parameters of top-level definitions

	// constant over the run
	modPkgs    []*packages.Package   // the packages of the module that were loaded
	varInits   map[*types.Var]varSrc // initialiser of every package-level variable of the module
	roCache    map[*types.Var]string
	blockSizes map[*types.Var]int
}

func (g *gen) reset() {
	g.structUse = map[*types.Named]map[string]bool{}
	g.structSeen = nil
	g.defs = map[string]string{}
	g.defOrder = nil
	g.inProgress = map[string]bool{}
	g.funcInfos = map[string]*funcInfo{}
	g.defMonad = map[string]string{}
	g.maps = map[*types.Var]*mapInfo{}
	g.enums = map[*types.Named]*enumInfo{}
	g.paramDocs = nil
}

func (g *gen) useField(t *types.Named, field string) {
	m := g.structUse[t]
	if m == nil {
		m = map[string]bool{}
		g.structUse[t] = m
		g.structSeen = append(g.structSeen, t)
	}
	if field != "" {
		m[field] = true
	}
}

type layer struct {
	pkgShort string
	typ      *types.Named
	fn       *types.Func
	src      funcSrc
	extra    bool // a top-level function that is not a DecodeFromBytes method
}

func (l layer) name() string {
	if l.extra {
		return l.pkgShort + "." + l.fn.Name()
	}
	return l.pkgShort + "." + l.typ.Obj().Name()
}

// extraFuncs: byte parsers that are not DecodeFromBytes methods (package path, function name)
var extraFuncs = [][2]string{
	{"github.com/gebn/bmc", "parseCipherSuiteRecordData"},
}

func main() {
	dir := "/repo"
	orch := false
	args := os.Args[1:]
	hsMode := false
	if len(args) > 0 && args[0] == "-orch" { // the orchestration functions (orch*.go) -> lean/Bmc/Gen/Orch.lean
		orch, args = true, args[1:]
	}
	if len(args) > 0 && args[0] == "-hs" { // session establishment (hs.go, on top of orch*.go) -> lean/Bmc/Gen/Hs.lean
		hsMode, args = true, args[1:]
	}
	if len(args) > 0 {
		dir = args[0]
	}
	cfg := &packages.Config{Mode: packages.LoadAllSyntax, Dir: dir, Env: append(os.Environ(), "GOFLAGS=-mod=mod", "GOPROXY=off")}
	pkgs, err := packages.Load(cfg, ".", "./pkg/ipmi", "./pkg/dcmi")
	if err != nil || packages.PrintErrors(pkgs) > 0 {
		fmt.Fprintln(os.Stderr, "decgen: cannot load packages", err)
		os.Exit(2)
	}
	g := &gen{funcs: map[*types.Func]funcSrc{}, varInits: map[*types.Var]varSrc{}, roCache: map[*types.Var]string{}, blockSizes: map[*types.Var]int{}}
	packages.Visit(pkgs, nil, func(p *packages.Package) {
		if !strings.HasPrefix(p.PkgPath, "github.com/gebn/bmc") {
			return
		}
		g.modPkgs = append(g.modPkgs, p)
		for _, f := range p.Syntax {
			for _, d := range f.Decls {
				if fd, ok := d.(*ast.FuncDecl); ok && fd.Body != nil {
					if obj, ok := p.TypesInfo.Defs[fd.Name].(*types.Func); ok {
						g.funcs[obj] = funcSrc{fd, p}
					}
				}
				if gd, ok := d.(*ast.GenDecl); ok && gd.Tok == token.VAR {
					for _, sp := range gd.Specs {
						vs := sp.(*ast.ValueSpec)
						if len(vs.Values) != len(vs.Names) {
							continue
						}
						for i, id := range vs.Names {
							if obj, ok := p.TypesInfo.Defs[id].(*types.Var); ok {
								g.varInits[obj] = varSrc{vs.Values[i], p}
							}
						}
					}
				}
			}
		}
	})
	sort.Slice(g.modPkgs, func(i, j int) bool { return g.modPkgs[i].PkgPath < g.modPkgs[j].PkgPath })
	if orch {
		orchMain(g)
		return
	}
	if hsMode {
		hsMain(g)
		return
	}

	layers := findLayers(g)
	for _, ef := range extraFuncs {
		found := false
		for fn, src := range g.funcs {
			if fn.Pkg().Path() == ef[0] && fn.Name() == ef[1] && fn.Type().(*types.Signature).Recv() == nil {
				layers = append(layers, layer{fn.Pkg().Name(), nil, fn, src, true})
				found = true
			}
		}
		if !found {
			fmt.Fprintf(os.Stderr, "decgen: function %s.%s not found\n", ef[0], ef[1])
			os.Exit(2)
		}
	}
	sort.Slice(layers, func(i, j int) bool { return layers[i].name() < layers[j].name() })

	// round 1: which layers are inside the language
	type outcome struct {
		text   string
		reason string
	}
	res := map[string]outcome{}
	for _, l := range layers {
		g.reset()
		text, reason := g.translateLayer(l)
		res[l.name()] = outcome{text, reason}
	}
	// round 2: only the translatable ones contribute to the shared structures and definitions
	g.reset()
	var bodies []string
	var translated, gaveUpList, comments []string
	for _, l := range layers {
		if res[l.name()].reason != "" {
			gaveUpList = append(gaveUpList, l.name())
			comments = append(comments, fmt.Sprintf("-- decgen: gave up on %s: %s", l.name(), res[l.name()].reason))
			continue
		}
		text, reason := g.translateLayer(l)
		if reason != "" { // cannot happen: round 1 succeeded
			fmt.Fprintln(os.Stderr, "decgen: internal: second round failed for", l.name(), reason)
			os.Exit(2)
		}
		if text != "" {
			bodies = append(bodies, text)
		}
		translated = append(translated, l.name())
	}

	var out strings.Builder
	out.WriteString("-- GENERATED by decgen from the Go sources; do not edit.\n")
	out.WriteString("-- Go `int`/`int64` arithmetic is translated into ℤ / ℕ (no wrap-around at 2^63); unsigned fixed-width\n")
	out.WriteString("-- arithmetic into UInt8/UInt16/UInt32 (wrapping like Go); shift counts are constants below the width.\n")
	out.WriteString("-- Signed int8/int16/int32 are Lean's Int8/Int16/Int32 (two's complement, same conversions); a shift by a variable\n")
	out.WriteString("-- count goes through GoDec.shl*/shr* (0 at or above the width). Definitions in the monad RF contain a loop run\n")
	out.WriteString("-- with FUEL (GoDec.loopM); RF.outOfFuel is a distinguished outcome. `int(math.Ceil/Floor(float64(e)/2^k))` is the\n")
	out.WriteString("-- exact ceiling/floor division (|e| < 2^53).\n")
	out.WriteString("import Bmc.Basic.GoDec\nnamespace Bmc.Gen.Dec\nopen Bmc Bmc.GoDec\n\n")
	for _, c := range comments {
		out.WriteString(c + "\n")
	}
	out.WriteString("\n")
	out.WriteString(g.structDecls())
	for _, n := range g.defOrder {
		out.WriteString(g.defs[n])
		out.WriteString("\n")
	}
	for _, b := range bodies {
		out.WriteString(b)
		out.WriteString("\n")
	}
	out.WriteString("def translated : List String := [" + quoteJoin(translated) + "]\n")
	out.WriteString("def gaveUp : List String := [" + quoteJoin(gaveUpList) + "]\n")
	out.WriteString("\nend Bmc.Gen.Dec\n")
	fmt.Print(out.String())
}

// findLayers: every `func (x *T) DecodeFromBytes(data []byte, df gopacket.DecodeFeedback) error` of pkg/ipmi and pkg/dcmi
func findLayers(g *gen) []layer {
	var layers []layer
	for fn, src := range g.funcs {
		if fn.Name() != "DecodeFromBytes" || src.decl.Recv == nil {
			continue
		}
		path := src.pkg.PkgPath
		if path != "github.com/gebn/bmc/pkg/ipmi" && path != "github.com/gebn/bmc/pkg/dcmi" {
			continue
		}
		if strings.HasSuffix(src.pkg.Fset.Position(src.decl.Pos()).Filename, "_test.go") {
			continue
		}
		sig := fn.Type().(*types.Signature)
		ptr, ok := sig.Recv().Type().(*types.Pointer)
		if !ok || sig.Params().Len() != 2 || sig.Results().Len() != 1 {
			continue
		}
		named, ok := ptr.Elem().(*types.Named)
		if !ok {
			continue
		}
		layers = append(layers, layer{path[strings.LastIndex(path, "/")+1:], named, fn, src, false})
	}
	return layers
}

func quoteJoin(l []string) string {
	q := make([]string, len(l))
	for i, s := range l {
		q[i] = fmt.Sprintf("%q", s)
	}
	return strings.Join(q, ", ")
}

// translateLayer returns the Lean text of `T.decodeGo` (or of an extra top-level function), or the reason for giving up
func (g *gen) translateLayer(l layer) (text string, reason string) {
	defer func() {
		if r := recover(); r != nil {
			if gu, ok := r.(giveUp); ok {
				text, reason = "", gu.msg
				return
			}
			panic(r)
		}
	}()
	if l.extra {
		d := g.newFn(l.src, nil)
		g.monadicFunc(d, l.src.decl, l.fn)
		return "", ""
	}
	g.useField(l.typ, "")
	name := leanTypeName(l.typ) + ".decodeGo"
	pos := l.src.pkg.Fset.Position(l.src.decl.Pos())
	var f *fn
	var dataName []string
	withFuelRetry(func(fuel bool) {
		f = g.newFn(l.src, l.typ)
		f.fuel = fuel
		f.params = &extParams{}
		dataName = f.bindParams(l.src.decl.Type.Params.List)
		if len(dataName) != 1 {
			panic(giveUp{"unexpected parameter list"})
		}
		f.results = nil
		f.block(l.src.decl.Body.List, 1, nil)
	})
	var b strings.Builder
	fmt.Fprintf(&b, "/-- translated from `(*%s.%s).DecodeFromBytes` (%s)", l.pkgShort, l.typ.Obj().Name(), shortFile(pos.Filename))
	var ps string
	for _, p := range f.params.list {
		fmt.Fprintf(&b, "\n    PARAMETER `%s`: %s", p.name, p.doc)
		ps += fmt.Sprintf("(%s : %s) ", p.name, p.typ)
	}
	b.WriteString(" -/\n")
	fmt.Fprintf(&b, "def %s %s(prev : %s) (%s : GoSlice) : %s %s := do\n  let r := prev\n", name, ps, leanTypeName(l.typ), dataName[0], f.M(), leanTypeName(l.typ))
	b.WriteString(strings.Join(f.lines, "\n"))
	b.WriteString("\n")
	return b.String(), ""
}

func shortFile(p string) string {
	if i := strings.Index(p, "/pkg/"); i >= 0 {
		return p[i+1:]
	}
	if i := strings.Index(p, "/internal/"); i >= 0 {
		return p[i+1:]
	}
	return p[strings.LastIndex(p, "/")+1:]
}

// ---- structures -----------------------------------------------------------------------------------------------

func leanTypeName(t *types.Named) string { return t.Obj().Name() }

var leanReserved = map[string]bool{"type": true, "end": true, "instance": true, "from": true, "at": true, "in": true, "then": true,
	"else": true, "do": true, "open": true, "private": true, "local": true, "prefix": true, "structure": true, "class": true,
	"where": true, "with": true, "if": true, "match": true, "fun": true, "let": true, "have": true, "show": true, "by": true,
	"of": true, "deriving": true, "mutual": true, "import": true, "export": true, "namespace": true, "section": true,
	"variable": true, "universe": true, "theorem": true, "def": true, "example": true, "inductive": true, "abbrev": true,
	"macro": true, "syntax": true, "notation": true, "infix": true, "attribute": true, "return": true, "for": true, "mut": true,
	"r": true, "prev": true}

// leanField: Go field name -> Lean field name (leading run of capitals lowered: ID -> id, OEMData -> oemData)
func leanField(goName string) string {
	rs := []rune(goName)
	n := 0
	for n < len(rs) && rs[n] >= 'A' && rs[n] <= 'Z' {
		n++
	}
	k := n
	if n > 1 && n < len(rs) && rs[n] >= 'a' && rs[n] <= 'z' {
		k = n - 1
	}
	if n == 0 {
		k = 0
	}
	s := strings.ToLower(string(rs[:k])) + string(rs[k:])
	if leanReserved[s] {
		s += "_"
	}
	return s
}

// fieldType: Lean type and zero value of a struct field of Go type t
func (g *gen) fieldType(t types.Type) (string, string, bool) {
	if isTime(t) {
		return "Int", "0", true
	}
	switch u := t.Underlying().(type) {
	case *types.Basic:
		switch u.Kind() {
		case types.Uint8:
			return "UInt8", "0", true
		case types.Uint16:
			return "UInt16", "0", true
		case types.Uint32:
			return "UInt32", "0", true
		case types.Bool:
			return "Bool", "false", true
		case types.Int, types.Int64:
			return "Int", "0", true
		case types.Int8:
			return "Int8", "0", true
		case types.Int16:
			return "Int16", "0", true
		case types.Int32:
			return "Int32", "0", true
		case types.String:
			return "Bytes", "[]", true
		}
	case *types.Slice:
		if isByte(u.Elem()) {
			return "Bytes", "[]", true
		}
		if ek, ok := listElem(t); ok {
			return "List " + leanKindType(ek), "[]", true
		}
	case *types.Array:
		if isByte(u.Elem()) {
			return "Bytes", fmt.Sprintf("List.replicate %d 0", u.Len()), true
		}
	case *types.Struct:
		if n, ok := t.(*types.Named); ok {
			return leanTypeName(n), "{}", true
		}
	}
	return "", "", false
}

func isByte(t types.Type) bool {
	b, ok := t.Underlying().(*types.Basic)
	return ok && b.Kind() == types.Uint8
}

// isPlainByte: t is byte / uint8 itself (a slice of it is a Go []byte; a slice of a NAMED uint8 type is a list of values)
func isPlainByte(t types.Type) bool {
	b, ok := types.Unalias(t).(*types.Basic)
	return ok && b.Kind() == types.Uint8
}

func isTime(t types.Type) bool {
	n, ok := t.(*types.Named)
	return ok && n.Obj().Pkg() != nil && n.Obj().Pkg().Path() == "time" && n.Obj().Name() == "Time"
}

func isBaseLayer(t types.Type) bool {
	n, ok := t.(*types.Named)
	return ok && n.Obj().Name() == "BaseLayer" && n.Obj().Pkg() != nil && strings.HasSuffix(n.Obj().Pkg().Path(), "gopacket/layers")
}

// structDecls: the Lean structures of every Go struct used, nested ones first; fields in Go declaration order,
// BaseLayer flattened into `contents` / `payload`
func (g *gen) structDecls() string {
	var order []*types.Named
	done := map[*types.Named]bool{}
	var visit func(t *types.Named)
	visit = func(t *types.Named) {
		if done[t] {
			return
		}
		done[t] = true
		st := t.Underlying().(*types.Struct)
		for i := 0; i < st.NumFields(); i++ {
			fl := st.Field(i)
			if g.structUse[t][fl.Name()] {
				if n, ok := fl.Type().(*types.Named); ok {
					if _, isStruct := n.Underlying().(*types.Struct); isStruct && !isTime(n) && !isBaseLayer(n) {
						g.useField(n, "")
						visit(n)
					}
				}
			}
		}
		order = append(order, t)
	}
	seen := append([]*types.Named{}, g.structSeen...)
	sort.SliceStable(seen, func(i, j int) bool {
		a, b := seen[i].Obj(), seen[j].Obj()
		if a.Pkg().Path() != b.Pkg().Path() {
			return a.Pkg().Path() > b.Pkg().Path() // ipmi before dcmi
		}
		return a.Name() < b.Name()
	})
	for _, t := range seen {
		if isBaseLayer(t) {
			continue
		}
		visit(t)
	}
	var b strings.Builder
	for _, t := range order {
		st := t.Underlying().(*types.Struct)
		fmt.Fprintf(&b, "/-- the fields of `%s.%s` its decoder assigns or reads -/\nstructure %s where\n", t.Obj().Pkg().Name(), t.Obj().Name(), leanTypeName(t))
		n := 0
		for i := 0; i < st.NumFields(); i++ {
			fl := st.Field(i)
			if isBaseLayer(fl.Type()) {
				for _, sub := range []string{"Contents", "Payload"} {
					if g.structUse[t]["BaseLayer."+sub] {
						fmt.Fprintf(&b, "  %s : Bytes := []\n", leanField(sub))
						n++
					}
				}
				continue
			}
			if !g.structUse[t][fl.Name()] {
				continue
			}
			lt, zero, ok := g.fieldType(fl.Type())
			if !ok {
				panic(fmt.Sprintf("internal: field %s.%s has no Lean type", t.Obj().Name(), fl.Name()))
			}
			fmt.Fprintf(&b, "  %s : %s := %s\n", leanField(fl.Name()), lt, zero)
			n++
		}
		if n == 0 {
			b.WriteString("  mk ::\n")
		}
		b.WriteString("  deriving Repr, DecidableEq\n\n")
	}
	return b.String()
}
