package main

import (
	"fmt"
	"go/ast"
	"go/constant"
	"go/token"
	"go/types"
	"strings"
)

type Kind int

const (
	KU8 Kind = iota
	KU16
	KU32
	KBool
	KNat   // a Go int / int64 value known to be ≥ 0 by construction (Lean Nat)
	KInt   // a Go int / int64 value (Lean Int)
	KSlice // a Go []byte (Lean GoSlice)
	KBytes // an array value / a pure byte list (Lean Bytes); N = static length or -1
	KStruct
	KList // a Go slice of uint16 / int64 elements, as the list of its len(…) elements (capacity is not observable through [:0], append, element assignment)
	KI8   // Go int8 (Lean Int8: two's complement, wrapping, arithmetic shift right)
	KI16  // Go int16 (Lean Int16)
	KI32  // Go int32 / rune (Lean Int32)
	KEnum // a value of an interface type known to be one of finitely many named functions (closed sum)
)

type Val struct {
	S       string
	K       Kind
	N       int          // static length (KBytes arrays, slices with constant bounds), -1 = unknown
	Prop    bool         // KBool given as a decidable Prop
	T       *types.Named // KStruct (and KList of structs: the element type)
	E       Kind         // KList: element kind
	En      *enumInfo    // KEnum
	IsConst bool         // a value the translator knows to be the constant Const although it is not a Go constant
	Const   int64
	Al      *storedAlias // KSlice obtained as base[lo:hi] of a variable: its base and upper bound
}

// leanType: the Lean type of a value
func (v Val) leanType() string {
	switch v.K {
	case KList:
		if v.E == KStruct {
			return "List " + leanTypeName(v.T)
		}
		return "List " + leanKindType(v.E)
	case KStruct:
		return leanTypeName(v.T)
	case KEnum:
		return v.En.name
	}
	return leanKindType(v.K)
}

// sameType: two values have the same Lean type
func sameType(a, b Val) bool { return a.K == b.K && a.leanType() == b.leanType() }

// fn is the state of the translation of one Go function into one Lean definition
type fn struct {
	g        *gen
	src      funcSrc
	info     *types.Info
	recvObj  types.Object // the receiver variable (nil for pure functions)
	recvType *types.Named
	dfObj    types.Object
	names    map[types.Object]string
	used     map[string]bool
	vars     map[types.Object]Val
	ntmp     int
	lines    []string
	ind      int    // indentation of the statement being translated
	results  []Kind // kinds of the results before the error
	inJoin   int
	pure     bool          // translating a pure helper (no monad)
	noRecv   bool          // a function without a receiver structure (no running `r`)
	fuel     bool          // the definition is in the monad RF (it contains, or calls something that contains, a loop with fuel)
	params   *extParams    // external calls turned into parameters (top-level definitions only)
	resT     []Val         // result templates (types) before the error
	aliases  []storedAlias // byte slices stored into receiver fields (for in-place mutation of the backing array)
}

// needFuel is thrown when a definition translated in the monad R turns out to need RF
type needFuel struct{}

// M: the name of the monad of the definition being translated
func (f *fn) M() string {
	if f.fuel {
		return "RF"
	}
	return "R"
}

// lift: an R-valued term used in a bind of the current monad
func (f *fn) lift(term string) string {
	if f.fuel {
		return "RF.lift (" + term + ")"
	}
	return term
}

func (f *fn) requireFuel() {
	if !f.fuel {
		panic(needFuel{})
	}
}

func (g *gen) newFn(src funcSrc, recv *types.Named) *fn {
	f := &fn{g: g, src: src, info: src.pkg.TypesInfo, recvType: recv, names: map[types.Object]string{}, used: map[string]bool{"r": true, "prev": true}, vars: map[types.Object]Val{}}
	if src.decl.Recv != nil && len(src.decl.Recv.List) == 1 && len(src.decl.Recv.List[0].Names) == 1 {
		f.recvObj = f.info.Defs[src.decl.Recv.List[0].Names[0]]
	}
	return f
}

func (f *fn) fail(n ast.Node, format string, a ...interface{}) {
	pos := f.src.pkg.Fset.Position(n.Pos())
	panic(giveUp{fmt.Sprintf("%s:%d: %s", shortFile(pos.Filename), pos.Line, fmt.Sprintf(format, a...))})
}

func (f *fn) w(format string, a ...interface{}) {
	f.lines = append(f.lines, strings.Repeat("  ", f.ind)+fmt.Sprintf(format, a...))
}

func (f *fn) tmp() string {
	f.ntmp++
	return fmt.Sprintf("t%d", f.ntmp)
}

func (f *fn) nameOf(obj types.Object) string {
	if n, ok := f.names[obj]; ok {
		return n
	}
	base := obj.Name()
	if leanReserved[base] || base == "_" || (len(base) > 1 && base[0] == 't' && base[1] >= '0' && base[1] <= '9') || (len(base) > 1 && base[0] == 'j' && base[1] >= '0' && base[1] <= '9') {
		base += "_"
	}
	n := base
	for i := 1; f.used[n]; i++ {
		n = fmt.Sprintf("%s_%d", base, i)
	}
	f.used[n] = true
	f.names[obj] = n
	return n
}

// bindParams registers the parameters; returns the Lean names of the translated ones (the DecodeFeedback is dropped)
func (f *fn) bindParams(params []*ast.Field) []string {
	var out []string
	for _, p := range params {
		for _, id := range p.Names {
			obj := f.info.Defs[id]
			if obj == nil { // `_`
				if isDecodeFeedback(f.info.TypeOf(p.Type)) {
					continue
				}
				f.fail(p, "blank parameter")
			}
			if isDecodeFeedback(obj.Type()) {
				f.dfObj = obj
				continue
			}
			k, n, ok := f.kindOfType(obj.Type())
			if !ok {
				f.fail(p, "parameter %s of unsupported type %s", id.Name, obj.Type())
			}
			f.vars[obj] = Val{S: f.nameOf(obj), K: k, N: n}
			out = append(out, f.nameOf(obj))
		}
		if len(p.Names) == 0 && !isDecodeFeedback(f.info.TypeOf(p.Type)) {
			f.fail(p, "unnamed parameter")
		}
	}
	return out
}

func isDecodeFeedback(t types.Type) bool {
	n, ok := t.(*types.Named)
	return ok && n.Obj().Name() == "DecodeFeedback"
}

// kindOfType: the kind of a VALUE of Go type t in an expression
func (f *fn) kindOfType(t types.Type) (Kind, int, bool) {
	switch u := t.Underlying().(type) {
	case *types.Basic:
		switch u.Kind() {
		case types.Uint8:
			return KU8, -1, true
		case types.Uint16:
			return KU16, -1, true
		case types.Uint32:
			return KU32, -1, true
		case types.Bool, types.UntypedBool:
			return KBool, -1, true
		case types.Int, types.Int64, types.UntypedInt:
			return KInt, -1, true
		case types.Int8:
			return KI8, -1, true
		case types.Int16:
			return KI16, -1, true
		case types.Int32, types.UntypedRune:
			return KI32, -1, true
		case types.String, types.UntypedString:
			return KBytes, -1, true
		}
	case *types.Slice:
		if isPlainByte(u.Elem()) {
			return KSlice, -1, true
		}
	case *types.Array:
		if isByte(u.Elem()) {
			return KBytes, int(u.Len()), true
		}
	}
	return 0, -1, false
}

func leanKindType(k Kind) string {
	switch k {
	case KU8:
		return "UInt8"
	case KU16:
		return "UInt16"
	case KU32:
		return "UInt32"
	case KBool:
		return "Bool"
	case KNat:
		return "Nat"
	case KInt:
		return "Int"
	case KSlice:
		return "GoSlice"
	case KBytes:
		return "Bytes"
	case KI8:
		return "Int8"
	case KI16:
		return "Int16"
	case KI32:
		return "Int32"
	}
	return "?"
}

// swidth: width of the signed fixed-width kinds
func swidth(k Kind) int {
	switch k {
	case KI8:
		return 8
	case KI16:
		return 16
	case KI32:
		return 32
	}
	return 0
}

func width(k Kind) int {
	switch k {
	case KU8:
		return 8
	case KU16:
		return 16
	case KU32:
		return 32
	}
	return 0
}

// constVal: the literal for a constant expression of the given Go type
func (f *fn) constVal(e ast.Expr, tv types.TypeAndValue) Val {
	switch tv.Value.Kind() {
	case constant.Bool:
		return Val{S: fmt.Sprintf("%v", constant.BoolVal(tv.Value)), K: KBool, N: -1}
	case constant.String:
		bs := []byte(constant.StringVal(tv.Value))
		if len(bs) == 0 {
			return Val{S: "([] : Bytes)", K: KBytes, N: 0}
		}
		var els []string
		for _, b := range bs {
			els = append(els, fmt.Sprintf("%d", b))
		}
		return Val{S: "([" + strings.Join(els, ", ") + "] : Bytes)", K: KBytes, N: len(bs)}
	case constant.Int:
		k, _, ok := f.kindOfType(tv.Type)
		if !ok {
			f.fail(e, "constant of unsupported type %s", tv.Type)
		}
		s := tv.Value.ExactString()
		switch k {
		case KU8, KU16, KU32:
			return Val{S: fmt.Sprintf("(%s : %s)", s, leanKindType(k)), K: k, N: -1}
		case KInt:
			if constant.Sign(tv.Value) >= 0 {
				return Val{S: s, K: KNat, N: -1}
			}
			return Val{S: fmt.Sprintf("(%s : Int)", s), K: KInt, N: -1}
		}
	}
	f.fail(e, "constant of unsupported kind")
	return Val{}
}

func (f *fn) asInt(v Val) string {
	if v.K == KNat {
		return fmt.Sprintf("((%s : Nat) : Int)", v.S)
	}
	return v.S
}

// boolProp: v as something usable after `if`
func boolProp(v Val) string { return v.S }

// boolTerm: v as a Bool-typed term
func boolTerm(v Val) string {
	if v.Prop {
		return fmt.Sprintf("decide (%s)", v.S)
	}
	return v.S
}

// natIndex: e as a Nat-typed index / slice bound; a negative Go value is a panic
func (f *fn) natIndex(e ast.Expr) (string, int) {
	v := f.expr(e)
	c := -1
	if tv, ok := f.info.Types[e]; ok && tv.Value != nil && tv.Value.Kind() == constant.Int {
		if n, ok := constant.Int64Val(tv.Value); ok && n >= 0 {
			c = int(n)
		}
	}
	switch v.K {
	case KNat:
		return v.S, c
	case KU8, KU16, KU32:
		return fmt.Sprintf("(%s).toNat", v.S), c
	case KInt:
		t := f.tmp()
		f.w("let %s ← %s", t, f.lift(fmt.Sprintf("GoDec.nat %s", paren(v.S))))
		return t, c
	}
	f.fail(e, "index of unsupported kind")
	return "", -1
}

func paren(s string) string {
	if strings.ContainsAny(s, " ") && !(strings.HasPrefix(s, "(") && matchingParen(s) == len(s)-1) {
		return "(" + s + ")"
	}
	return s
}

func matchingParen(s string) int {
	d := 0
	for i, c := range s {
		if c == '(' {
			d++
		} else if c == ')' {
			d--
			if d == 0 {
				return i
			}
		}
	}
	return -1
}

// fieldPath: if e is x.A.B… rooted at the receiver, the Go field names from the receiver's struct (embedded ones included)
func (f *fn) fieldPath(e ast.Expr) ([]*types.Var, bool) {
	switch x := e.(type) {
	case *ast.ParenExpr:
		return f.fieldPath(x.X)
	case *ast.Ident:
		if f.recvObj != nil && f.info.Uses[x] == f.recvObj {
			return nil, true
		}
	case *ast.SelectorExpr:
		base, ok := f.fieldPath(x.X)
		if !ok {
			return nil, false
		}
		sel := f.info.Selections[x]
		if sel == nil || sel.Kind() != types.FieldVal {
			return nil, false
		}
		// walk the index path (embedded fields) from the type of x.X
		t := f.info.TypeOf(x.X)
		for _, i := range sel.Index() {
			if p, ok := t.Underlying().(*types.Pointer); ok {
				t = p.Elem()
			}
			st, ok := t.Underlying().(*types.Struct)
			if !ok {
				return nil, false
			}
			base = append(base, st.Field(i))
			t = st.Field(i).Type()
		}
		return base, true
	}
	return nil, false
}

// leanPath: Lean access path components for a Go field path; records the use of every component
func (f *fn) leanPath(n ast.Node, path []*types.Var) []string {
	var out []string
	cur := f.recvType
	for i := 0; i < len(path); i++ {
		v := path[i]
		if isBaseLayer(v.Type()) {
			if i+1 >= len(path) {
				f.fail(n, "BaseLayer used as a whole")
			}
			sub := path[i+1].Name()
			if sub != "Contents" && sub != "Payload" {
				f.fail(n, "BaseLayer.%s", sub)
			}
			f.g.useField(cur, "BaseLayer."+sub)
			out = append(out, leanField(sub))
			return out
		}
		if _, _, ok := f.g.fieldType(v.Type()); !ok {
			f.fail(n, "field %s of unsupported type %s", v.Name(), v.Type())
		}
		f.g.useField(cur, v.Name())
		out = append(out, leanField(v.Name()))
		if i+1 < len(path) {
			nt, ok := v.Type().(*types.Named)
			if !ok {
				f.fail(n, "field path through unnamed struct")
			}
			cur = nt
		}
	}
	return out
}

func (f *fn) expr(e ast.Expr) Val {
	if tv, ok := f.info.Types[e]; ok && tv.Value != nil {
		return f.constVal(e, tv)
	}
	switch x := e.(type) {
	case *ast.ParenExpr:
		return f.expr(x.X)
	case *ast.Ident:
		obj := f.info.Uses[x]
		if v, ok := f.vars[obj]; ok {
			return v
		}
		if pv, ok := obj.(*types.Var); ok && pv.Parent() == pv.Pkg().Scope() {
			return f.g.tableVar(f, e, pv)
		}
		f.fail(e, "identifier %s", x.Name)
	case *ast.SelectorExpr:
		if path, ok := f.fieldPath(x); ok && len(path) > 0 {
			lp := f.leanPath(x, path)
			s := "r." + strings.Join(lp, ".")
			t := path[len(path)-1].Type()
			if isTime(t) {
				f.fail(e, "read of a time.Time field")
			}
			if k, n, ok := f.kindOfType(t); ok {
				if k == KSlice {
					// a []byte field is kept as the bytes it denotes: usable where only they matter (its capacity is not modelled)
					return Val{S: s, K: KBytes, N: -1}
				}
				return Val{S: s, K: k, N: n}
			}
			if nt, ok := t.(*types.Named); ok {
				if _, isS := nt.Underlying().(*types.Struct); isS {
					return Val{S: s, K: KStruct, T: nt, N: -1}
				}
			}
			if ek, ok := listElem(t); ok {
				return Val{S: s, K: KList, E: ek, N: -1}
			}
			f.fail(e, "read of field of type %s", t)
		}
		if root, path, ok := f.localFieldPath(x); ok && len(path) > 0 {
			rv := f.vars[root]
			lp := f.leanPathFrom(x, rv.T, path)
			t := path[len(path)-1].Type()
			if k, n, ok := f.kindOfType(t); ok && k != KSlice {
				return Val{S: rv.S + "." + strings.Join(lp, "."), K: k, N: n}
			}
			f.fail(e, "read of field of type %s of a local structure", t)
		}
		f.fail(e, "selector expression %s", types.ExprString(e))
	case *ast.IndexExpr:
		base := f.expr(x.X)
		switch base.K {
		case KSlice:
			i, _ := f.natIndex(x.Index)
			t := f.tmp()
			f.w("let %s ← %s", t, f.lift(fmt.Sprintf("%s.idx %s", base.S, paren(i))))
			return Val{S: t, K: KU8, N: -1}
		case KBytes:
			i, c := f.natIndex(x.Index)
			if _, isArr := f.info.TypeOf(x.X).Underlying().(*types.Array); !isArr {
				f.fail(e, "index into a byte string that is not an array")
			}
			if base.N < 0 || c < 0 || c >= base.N {
				f.fail(e, "array index that is not a constant within the array")
			}
			return Val{S: fmt.Sprintf("(%s.getD %s 0)", paren(base.S), i), K: KU8, N: -1}
		case KList:
			// a package-level array or a slice given as the list of its elements: an index beyond the length is a panic
			if base.E == KStruct {
				f.fail(e, "index into a list of structures")
			}
			i, _ := f.natIndex(x.Index)
			t := f.tmp()
			f.w("let %s ← %s", t, f.lift(fmt.Sprintf("GoDec.listIdx %s %s", paren(base.S), paren(i))))
			return Val{S: t, K: base.E, N: -1}
		}
		f.fail(e, "index into a value of unsupported kind")
	case *ast.SliceExpr:
		return f.sliceExpr(x)
	case *ast.UnaryExpr:
		v := f.expr(x.X)
		switch {
		case x.Op == token.NOT && v.K == KBool:
			return Val{S: fmt.Sprintf("(!%s)", paren(boolTerm(v))), K: KBool, N: -1}
		case x.Op == token.XOR && width(v.K) > 0:
			return Val{S: fmt.Sprintf("(~~~%s)", paren(v.S)), K: v.K, N: -1}
		case x.Op == token.SUB && (width(v.K) > 0 || swidth(v.K) > 0):
			return Val{S: fmt.Sprintf("(0 - %s)", paren(v.S)), K: v.K, N: -1}
		case x.Op == token.XOR && swidth(v.K) > 0:
			return Val{S: fmt.Sprintf("(~~~%s)", paren(v.S)), K: v.K, N: -1}
		case x.Op == token.SUB && (v.K == KInt || v.K == KNat):
			return Val{S: fmt.Sprintf("(-%s)", paren(f.asInt(v))), K: KInt, N: -1}
		}
		f.fail(e, "unary operator %s", x.Op)
	case *ast.BinaryExpr:
		return f.binary(x)
	case *ast.CallExpr:
		return f.call(x)
	case *ast.CompositeLit:
		return f.compositeLit(x)
	}
	f.fail(e, "expression %s", types.ExprString(e))
	return Val{}
}

func (f *fn) sliceExpr(x *ast.SliceExpr) Val {
	if x.Slice3 {
		f.fail(x, "three-index slice expression")
	}
	// an array sliced in full is its byte list
	if t := f.info.TypeOf(x.X); t != nil {
		if _, isArr := t.Underlying().(*types.Array); isArr {
			if x.Low != nil || x.High != nil {
				f.fail(x, "partial slice of an array used as a value")
			}
			v := f.expr(x.X)
			return Val{S: v.S, K: KBytes, N: v.N}
		}
	}
	base := f.expr(x.X)
	if base.K == KList {
		// s[:0] is legal whatever the capacity and denotes no element
		if c, ok := constInt(f.info, x.High); x.Low == nil && x.High != nil && ok && c == 0 {
			return Val{S: fmt.Sprintf("([] : List %s)", leanKindType(base.E)), K: KList, E: base.E, N: -1}
		}
		f.fail(x, "slice expression on a non-byte slice other than s[:0]")
	}
	if base.K != KSlice {
		f.fail(x, "slice expression on a value of unsupported kind")
	}
	if x.Low == nil && x.High == nil {
		return base
	}
	var baseObj types.Object
	if id, ok := x.X.(*ast.Ident); ok {
		baseObj = f.info.Uses[id]
		if base.Al != nil && base.Al.base != nil {
			baseObj = nil // a slice of a slice: provenance not tracked
		}
	}
	t := f.tmp()
	if x.High == nil {
		lo, _ := f.natIndex(x.Low)
		f.w("let %s ← %s", t, f.lift(fmt.Sprintf("%s.sliceFrom %s", base.S, paren(lo))))
		return Val{S: t, K: KSlice, N: -1, Al: &storedAlias{baseObj, ""}}
	}
	lo, lc := "0", 0
	if x.Low != nil {
		lo, lc = f.natIndex(x.Low)
	}
	hi, hc := f.natIndex(x.High)
	f.w("let %s ← %s", t, f.lift(fmt.Sprintf("%s.slice %s %s", base.S, paren(lo), paren(hi))))
	n := -1
	if lc >= 0 && hc >= lc {
		n = hc - lc
	}
	return Val{S: t, K: KSlice, N: n, Al: &storedAlias{baseObj, hi}}
}

var binOps = map[token.Token]string{token.AND: "&&&", token.OR: "|||", token.XOR: "^^^", token.ADD: "+", token.SUB: "-", token.MUL: "*",
	token.EQL: "==", token.NEQ: "!=", token.LSS: "<", token.LEQ: "≤", token.GTR: ">", token.GEQ: "≥"}

func (f *fn) binary(x *ast.BinaryExpr) Val {
	if x.Op == token.LAND || x.Op == token.LOR {
		a := f.expr(x.X)
		before := len(f.lines)
		saved := f.lines
		f.lines = nil
		savedInd := f.ind
		f.ind = savedInd + 1
		b := f.expr(x.Y)
		rhsLines := f.lines
		f.lines = saved
		f.ind = savedInd
		_ = before
		if a.K != KBool || b.K != KBool {
			f.fail(x, "logical operator on non-booleans")
		}
		if len(rhsLines) > 0 {
			// the right operand indexes or slices: it is evaluated only when the left one does not decide the result
			if f.pure {
				f.fail(x, "index or slice expression under a short-circuit operator")
			}
			t := f.tmp()
			if x.Op == token.LAND {
				f.w("let %s ← (if %s then (do", t, boolProp(a))
			} else {
				f.w("let %s ← (if !(%s) then (do", t, paren(boolTerm(a)))
			}
			f.lines = append(f.lines, rhsLines...)
			f.ind++
			if x.Op == token.LAND {
				f.w("pure %s) else pure false)", paren(boolTerm(b)))
			} else {
				f.w("pure %s) else pure true)", paren(boolTerm(b)))
			}
			f.ind--
			return Val{S: t, K: KBool, N: -1}
		}
		op := "&&"
		if x.Op == token.LOR {
			op = "||"
		}
		return Val{S: fmt.Sprintf("(%s %s %s)", paren(boolTerm(a)), op, paren(boolTerm(b))), K: KBool, N: -1}
	}
	if x.Op == token.SHL || x.Op == token.SHR {
		a := f.expr(x.X)
		tv := f.info.Types[x.Y]
		w := width(a.K) + swidth(a.K)
		if w == 0 {
			f.fail(x, "shift of a non-fixed-width value")
		}
		if tv.Value == nil {
			// a variable count: Go gives 0 for counts at or above the width (unsigned operand)
			cnt := f.expr(x.Y)
			var cs string
			switch {
			case width(cnt.K) > 0:
				cs = fmt.Sprintf("(%s).toNat", cnt.S)
			case cnt.K == KNat:
				cs = paren(cnt.S)
			default:
				f.fail(x, "shift count that may be negative")
			}
			if width(a.K) == 0 {
				f.fail(x, "shift of a signed value by a variable count")
			}
			name := "shl"
			if x.Op == token.SHR {
				name = "shr"
			}
			return Val{S: fmt.Sprintf("(GoDec.%s%d %s %s)", name, w, paren(a.S), cs), K: a.K, N: -1}
		}
		n, ok := constant.Int64Val(tv.Value)
		if !ok || n < 0 || int(n) >= w {
			f.fail(x, "shift count not below the width")
		}
		op := "<<<"
		if x.Op == token.SHR {
			op = ">>>"
		}
		return Val{S: fmt.Sprintf("(%s %s (%d : %s))", paren(a.S), op, n, leanKindType(a.K)), K: a.K, N: -1}
	}
	a := f.expr(x.X)
	b := f.expr(x.Y)
	ytv := f.info.Types[x.Y]
	if ytv.Value == nil && b.IsConst {
		ytv.Value = constant.MakeInt64(b.Const)
	}
	return f.binop(x, x.Op, a, b, ytv)
}

func (f *fn) binop(n ast.Node, op token.Token, a, b Val, ytv types.TypeAndValue) Val {
	lop, ok := binOps[op]
	cmp := op == token.EQL || op == token.NEQ || op == token.LSS || op == token.LEQ || op == token.GTR || op == token.GEQ
	if op == token.QUO || op == token.REM {
		// only by a positive constant (no division-by-zero panic; for ℕ Go's truncation is Lean's)
		if ytv.Value == nil || constant.Sign(ytv.Value) <= 0 {
			f.fail(n, "division by a non-constant")
		}
		lop, ok = "/", true
		if op == token.REM {
			lop = "%"
		}
		if a.K == KInt && (b.K == KNat || b.K == KInt) {
			// Go's / and % on ints truncate towards zero: Int.tdiv / Int.tmod
			name := "Int.tdiv"
			if op == token.REM {
				name = "Int.tmod"
			}
			return Val{S: fmt.Sprintf("(%s %s %s)", name, paren(a.S), paren(f.asInt(b))), K: KInt, N: -1}
		}
	}
	if !ok {
		f.fail(n, "binary operator %s", op)
	}
	switch {
	case a.K == KBool && b.K == KBool && (op == token.EQL || op == token.NEQ):
		return Val{S: fmt.Sprintf("(%s %s %s)", paren(boolTerm(a)), lop, paren(boolTerm(b))), K: KBool, N: -1}
	case (width(a.K) > 0 || swidth(a.K) > 0) && a.K == b.K:
		if swidth(a.K) > 0 && (op == token.QUO || op == token.REM) {
			f.fail(n, "division of a signed fixed-width value")
		}
		if cmp {
			if op == token.EQL || op == token.NEQ {
				return Val{S: fmt.Sprintf("(%s %s %s)", paren(a.S), lop, paren(b.S)), K: KBool, N: -1}
			}
			return Val{S: fmt.Sprintf("%s %s %s", paren(a.S), lop, paren(b.S)), K: KBool, Prop: true, N: -1}
		}
		return Val{S: fmt.Sprintf("(%s %s %s)", paren(a.S), lop, paren(b.S)), K: a.K, N: -1}
	case (a.K == KNat || a.K == KInt) && (b.K == KNat || b.K == KInt):
		if op == token.AND || op == token.OR || op == token.XOR {
			f.fail(n, "bitwise operator on int")
		}
		bothNat := a.K == KNat && b.K == KNat
		as, bs := a.S, b.S
		if !bothNat || op == token.SUB {
			as, bs = f.asInt(a), f.asInt(b)
		}
		if cmp {
			if op == token.EQL || op == token.NEQ {
				return Val{S: fmt.Sprintf("(%s %s %s)", paren(as), lop, paren(bs)), K: KBool, N: -1}
			}
			return Val{S: fmt.Sprintf("%s %s %s", paren(as), lop, paren(bs)), K: KBool, Prop: true, N: -1}
		}
		k := KInt
		if bothNat && op != token.SUB {
			k = KNat
		}
		return Val{S: fmt.Sprintf("(%s %s %s)", paren(as), lop, paren(bs)), K: k, N: -1}
	}
	f.fail(n, "binary operator %s on kinds %d, %d", op, a.K, b.K)
	return Val{}
}

func (f *fn) compositeLit(x *ast.CompositeLit) Val {
	t := f.info.TypeOf(x)
	switch u := t.Underlying().(type) {
	case *types.Array, *types.Slice:
		if nt, ok := listOfStructs(t); ok && len(x.Elts) == 0 {
			f.g.useField(nt, "")
			return Val{S: fmt.Sprintf("([] : List %s)", leanTypeName(nt)), K: KList, E: KStruct, T: nt, N: -1}
		}
		var elem types.Type
		n := -1
		if a, ok := u.(*types.Array); ok {
			elem, n = a.Elem(), int(a.Len())
		} else {
			elem = u.(*types.Slice).Elem()
		}
		if !isByte(elem) {
			f.fail(x, "composite literal of element type %s", elem)
		}
		var els []string
		for _, el := range x.Elts {
			if _, ok := el.(*ast.KeyValueExpr); ok {
				f.fail(x, "keyed array literal")
			}
			v := f.expr(el)
			if v.K != KU8 {
				f.fail(el, "array element of unsupported kind")
			}
			els = append(els, v.S)
		}
		if n < 0 {
			n = len(els)
		}
		for len(els) < n {
			els = append(els, "0")
		}
		if len(x.Elts) == 0 {
			return Val{S: fmt.Sprintf("(List.replicate %d 0)", n), K: KBytes, N: n}
		}
		return Val{S: "[" + strings.Join(els, ", ") + "]", K: KBytes, N: n}
	case *types.Struct:
		nt, ok := t.(*types.Named)
		if !ok || len(x.Elts) != 0 {
			f.fail(x, "struct literal with fields")
		}
		f.g.useField(nt, "")
		return Val{S: fmt.Sprintf("({} : %s)", leanTypeName(nt)), K: KStruct, T: nt, N: -1}
	}
	f.fail(x, "composite literal of type %s", t)
	return Val{}
}

// listElem: t is a slice whose elements are values of a fixed-width / int kind (not a Go []byte: that is a GoSlice)
func listElem(t types.Type) (Kind, bool) {
	sl, ok := t.Underlying().(*types.Slice)
	if !ok || isPlainByte(sl.Elem()) {
		return 0, false
	}
	if b, ok := sl.Elem().Underlying().(*types.Basic); ok {
		switch b.Kind() {
		case types.Uint8:
			return KU8, true
		case types.Uint16:
			return KU16, true
		case types.Uint32:
			return KU32, true
		case types.Int32:
			return KI32, true
		case types.Int64, types.Int:
			return KInt, true
		}
	}
	return 0, false
}

// listOfStructs: t is a slice of a named structure type without reference fields
func listOfStructs(t types.Type) (*types.Named, bool) {
	sl, ok := t.Underlying().(*types.Slice)
	if !ok {
		return nil, false
	}
	n, ok := sl.Elem().(*types.Named)
	if !ok || !plainStruct(n) {
		return nil, false
	}
	return n, true
}

// plainStruct: a structure all of whose fields (recursively) are fixed-width integers, booleans or such structures:
// copying it copies everything (no aliasing through slices, maps, pointers or interfaces)
func plainStruct(n *types.Named) bool {
	st, ok := n.Underlying().(*types.Struct)
	if !ok {
		return false
	}
	for i := 0; i < st.NumFields(); i++ {
		switch u := st.Field(i).Type().Underlying().(type) {
		case *types.Basic:
			switch u.Kind() {
			case types.Uint8, types.Uint16, types.Uint32, types.Bool, types.Int8, types.Int16, types.Int32:
			default:
				return false
			}
		case *types.Struct:
			fn, ok := st.Field(i).Type().(*types.Named)
			if !ok || !plainStruct(fn) {
				return false
			}
		default:
			return false
		}
	}
	return true
}
