package main

import (
	"fmt"
	"go/ast"
	"go/constant"
	"go/token"
	"go/types"
	"strings"
)

type Kind int

const (
	KU8 Kind = iota
	KU16
	KU32
	KBool
	KNat   // a Go int / int64 value known to be ≥ 0 by construction (Lean Nat)
	KInt   // a Go int / int64 value (Lean Int)
	KSlice // a Go []byte (Lean GoSlice)
	KBytes // an array value / a pure byte list (Lean Bytes); N = static length or -1
	KStruct
	KList // a Go slice of uint16 / int64 elements, as the list of its len(…) elements (capacity is not observable through [:0], append, element assignment)
)

type Val struct {
	S    string
	K    Kind
	N    int          // static length (KBytes arrays, slices with constant bounds), -1 = unknown
	Prop bool         // KBool given as a decidable Prop
	T    *types.Named // KStruct
	E    Kind         // KList: element kind (KU16 or KInt)
}

// fn is the state of the translation of one Go function into one Lean definition
type fn struct {
	g        *gen
	src      funcSrc
	info     *types.Info
	recvObj  types.Object // the receiver variable (nil for pure functions)
	recvType *types.Named
	dfObj    types.Object
	names    map[types.Object]string
	used     map[string]bool
	vars     map[types.Object]Val
	ntmp     int
	lines    []string
	ind      int    // indentation of the statement being translated
	results  []Kind // kinds of the results before the error
	inJoin   int
	pure     bool // translating a pure helper (no monad)
}

func (g *gen) newFn(src funcSrc, recv *types.Named) *fn {
	f := &fn{g: g, src: src, info: src.pkg.TypesInfo, recvType: recv, names: map[types.Object]string{}, used: map[string]bool{"r": true, "prev": true}, vars: map[types.Object]Val{}}
	if src.decl.Recv != nil && len(src.decl.Recv.List) == 1 && len(src.decl.Recv.List[0].Names) == 1 {
		f.recvObj = f.info.Defs[src.decl.Recv.List[0].Names[0]]
	}
	return f
}

func (f *fn) fail(n ast.Node, format string, a ...interface{}) {
	pos := f.src.pkg.Fset.Position(n.Pos())
	panic(giveUp{fmt.Sprintf("%s:%d: %s", shortFile(pos.Filename), pos.Line, fmt.Sprintf(format, a...))})
}

func (f *fn) w(format string, a ...interface{}) {
	f.lines = append(f.lines, strings.Repeat("  ", f.ind)+fmt.Sprintf(format, a...))
}

func (f *fn) tmp() string {
	f.ntmp++
	return fmt.Sprintf("t%d", f.ntmp)
}

func (f *fn) nameOf(obj types.Object) string {
	if n, ok := f.names[obj]; ok {
		return n
	}
	base := obj.Name()
	if leanReserved[base] || base == "_" || (len(base) > 1 && base[0] == 't' && base[1] >= '0' && base[1] <= '9') || (len(base) > 1 && base[0] == 'j' && base[1] >= '0' && base[1] <= '9') {
		base += "_"
	}
	n := base
	for i := 1; f.used[n]; i++ {
		n = fmt.Sprintf("%s_%d", base, i)
	}
	f.used[n] = true
	f.names[obj] = n
	return n
}

// bindParams registers the parameters; returns the Lean names of the translated ones (the DecodeFeedback is dropped)
func (f *fn) bindParams(params []*ast.Field) []string {
	var out []string
	for _, p := range params {
		for _, id := range p.Names {
			obj := f.info.Defs[id]
			if obj == nil { // `_`
				if isDecodeFeedback(f.info.TypeOf(p.Type)) {
					continue
				}
				f.fail(p, "blank parameter")
			}
			if isDecodeFeedback(obj.Type()) {
				f.dfObj = obj
				continue
			}
			k, n, ok := f.kindOfType(obj.Type())
			if !ok {
				f.fail(p, "parameter %s of unsupported type %s", id.Name, obj.Type())
			}
			f.vars[obj] = Val{S: f.nameOf(obj), K: k, N: n}
			out = append(out, f.nameOf(obj))
		}
		if len(p.Names) == 0 && !isDecodeFeedback(f.info.TypeOf(p.Type)) {
			f.fail(p, "unnamed parameter")
		}
	}
	return out
}

func isDecodeFeedback(t types.Type) bool {
	n, ok := t.(*types.Named)
	return ok && n.Obj().Name() == "DecodeFeedback"
}

// kindOfType: the kind of a VALUE of Go type t in an expression
func (f *fn) kindOfType(t types.Type) (Kind, int, bool) {
	switch u := t.Underlying().(type) {
	case *types.Basic:
		switch u.Kind() {
		case types.Uint8:
			return KU8, -1, true
		case types.Uint16:
			return KU16, -1, true
		case types.Uint32:
			return KU32, -1, true
		case types.Bool, types.UntypedBool:
			return KBool, -1, true
		case types.Int, types.Int64, types.UntypedInt:
			return KInt, -1, true
		}
	case *types.Slice:
		if isByte(u.Elem()) {
			return KSlice, -1, true
		}
	case *types.Array:
		if isByte(u.Elem()) {
			return KBytes, int(u.Len()), true
		}
	}
	return 0, -1, false
}

func leanKindType(k Kind) string {
	switch k {
	case KU8:
		return "UInt8"
	case KU16:
		return "UInt16"
	case KU32:
		return "UInt32"
	case KBool:
		return "Bool"
	case KNat:
		return "Nat"
	case KInt:
		return "Int"
	case KSlice:
		return "GoSlice"
	case KBytes:
		return "Bytes"
	}
	return "?"
}

func width(k Kind) int {
	switch k {
	case KU8:
		return 8
	case KU16:
		return 16
	case KU32:
		return 32
	}
	return 0
}

// constVal: the literal for a constant expression of the given Go type
func (f *fn) constVal(e ast.Expr, tv types.TypeAndValue) Val {
	switch tv.Value.Kind() {
	case constant.Bool:
		return Val{S: fmt.Sprintf("%v", constant.BoolVal(tv.Value)), K: KBool, N: -1}
	case constant.Int:
		k, _, ok := f.kindOfType(tv.Type)
		if !ok {
			f.fail(e, "constant of unsupported type %s", tv.Type)
		}
		s := tv.Value.ExactString()
		switch k {
		case KU8, KU16, KU32:
			return Val{S: fmt.Sprintf("(%s : %s)", s, leanKindType(k)), K: k, N: -1}
		case KInt:
			if constant.Sign(tv.Value) >= 0 {
				return Val{S: s, K: KNat, N: -1}
			}
			return Val{S: fmt.Sprintf("(%s : Int)", s), K: KInt, N: -1}
		}
	}
	f.fail(e, "constant of unsupported kind")
	return Val{}
}

func (f *fn) asInt(v Val) string {
	if v.K == KNat {
		return fmt.Sprintf("((%s : Nat) : Int)", v.S)
	}
	return v.S
}

// boolTerm: v as a Bool-typed term
func boolTerm(v Val) string {
	if v.Prop {
		return fmt.Sprintf("decide (%s)", v.S)
	}
	return v.S
}

// natIndex: e as a Nat-typed index / slice bound; a negative Go value is a panic
func (f *fn) natIndex(e ast.Expr) (string, int) {
	v := f.expr(e)
	c := -1
	if tv, ok := f.info.Types[e]; ok && tv.Value != nil && tv.Value.Kind() == constant.Int {
		if n, ok := constant.Int64Val(tv.Value); ok && n >= 0 {
			c = int(n)
		}
	}
	switch v.K {
	case KNat:
		return v.S, c
	case KU8, KU16, KU32:
		return fmt.Sprintf("(%s).toNat", v.S), c
	case KInt:
		t := f.tmp()
		f.w("let %s ← GoDec.nat %s", t, paren(v.S))
		return t, c
	}
	f.fail(e, "index of unsupported kind")
	return "", -1
}

func paren(s string) string {
	if strings.ContainsAny(s, " ") && !(strings.HasPrefix(s, "(") && matchingParen(s) == len(s)-1) {
		return "(" + s + ")"
	}
	return s
}

func matchingParen(s string) int {
	d := 0
	for i, c := range s {
		if c == '(' {
			d++
		} else if c == ')' {
			d--
			if d == 0 {
				return i
			}
		}
	}
	return -1
}

// fieldPath: if e is x.A.B… rooted at the receiver, the Go field names from the receiver's struct (embedded ones included)
func (f *fn) fieldPath(e ast.Expr) ([]*types.Var, bool) {
	switch x := e.(type) {
	case *ast.ParenExpr:
		return f.fieldPath(x.X)
	case *ast.Ident:
		if f.recvObj != nil && f.info.Uses[x] == f.recvObj {
			return nil, true
		}
	case *ast.SelectorExpr:
		base, ok := f.fieldPath(x.X)
		if !ok {
			return nil, false
		}
		sel := f.info.Selections[x]
		if sel == nil || sel.Kind() != types.FieldVal {
			return nil, false
		}
		// walk the index path (embedded fields) from the type of x.X
		t := f.info.TypeOf(x.X)
		for _, i := range sel.Index() {
			if p, ok := t.Underlying().(*types.Pointer); ok {
				t = p.Elem()
			}
			st, ok := t.Underlying().(*types.Struct)
			if !ok {
				return nil, false
			}
			base = append(base, st.Field(i))
			t = st.Field(i).Type()
		}
		return base, true
	}
	return nil, false
}

// leanPath: Lean access path components for a Go field path; records the use of every component
func (f *fn) leanPath(n ast.Node, path []*types.Var) []string {
	var out []string
	cur := f.recvType
	for i := 0; i < len(path); i++ {
		v := path[i]
		if isBaseLayer(v.Type()) {
			if i+1 >= len(path) {
				f.fail(n, "BaseLayer used as a whole")
			}
			sub := path[i+1].Name()
			if sub != "Contents" && sub != "Payload" {
				f.fail(n, "BaseLayer.%s", sub)
			}
			f.g.useField(cur, "BaseLayer."+sub)
			out = append(out, leanField(sub))
			return out
		}
		if _, _, ok := f.g.fieldType(v.Type()); !ok {
			f.fail(n, "field %s of unsupported type %s", v.Name(), v.Type())
		}
		f.g.useField(cur, v.Name())
		out = append(out, leanField(v.Name()))
		if i+1 < len(path) {
			nt, ok := v.Type().(*types.Named)
			if !ok {
				f.fail(n, "field path through unnamed struct")
			}
			cur = nt
		}
	}
	return out
}

func (f *fn) expr(e ast.Expr) Val {
	if tv, ok := f.info.Types[e]; ok && tv.Value != nil {
		return f.constVal(e, tv)
	}
	switch x := e.(type) {
	case *ast.ParenExpr:
		return f.expr(x.X)
	case *ast.Ident:
		obj := f.info.Uses[x]
		if v, ok := f.vars[obj]; ok {
			return v
		}
		f.fail(e, "identifier %s", x.Name)
	case *ast.SelectorExpr:
		if path, ok := f.fieldPath(x); ok && len(path) > 0 {
			lp := f.leanPath(x, path)
			s := "r." + strings.Join(lp, ".")
			t := path[len(path)-1].Type()
			if isTime(t) {
				f.fail(e, "read of a time.Time field")
			}
			if k, n, ok := f.kindOfType(t); ok {
				if k == KSlice {
					f.fail(e, "read of the slice field %s (its capacity is not modelled)", path[len(path)-1].Name())
				}
				return Val{S: s, K: k, N: n}
			}
			if nt, ok := t.(*types.Named); ok {
				if _, isS := nt.Underlying().(*types.Struct); isS {
					return Val{S: s, K: KStruct, T: nt, N: -1}
				}
			}
			if ek, ok := listElem(t); ok {
				return Val{S: s, K: KList, E: ek, N: -1}
			}
			f.fail(e, "read of field of type %s", t)
		}
		f.fail(e, "selector expression %s", types.ExprString(e))
	case *ast.IndexExpr:
		base := f.expr(x.X)
		switch base.K {
		case KSlice:
			i, _ := f.natIndex(x.Index)
			t := f.tmp()
			f.w("let %s ← %s.idx %s", t, base.S, paren(i))
			return Val{S: t, K: KU8, N: -1}
		case KBytes:
			i, c := f.natIndex(x.Index)
			if base.N < 0 || c < 0 || c >= base.N {
				f.fail(e, "array index that is not a constant within the array")
			}
			return Val{S: fmt.Sprintf("(%s.getD %s 0)", paren(base.S), i), K: KU8, N: -1}
		}
		f.fail(e, "index into a value of unsupported kind")
	case *ast.SliceExpr:
		return f.sliceExpr(x)
	case *ast.UnaryExpr:
		v := f.expr(x.X)
		switch {
		case x.Op == token.NOT && v.K == KBool:
			return Val{S: fmt.Sprintf("(!%s)", paren(boolTerm(v))), K: KBool, N: -1}
		case x.Op == token.XOR && width(v.K) > 0:
			return Val{S: fmt.Sprintf("(~~~%s)", paren(v.S)), K: v.K, N: -1}
		case x.Op == token.SUB && width(v.K) > 0:
			return Val{S: fmt.Sprintf("(0 - %s)", paren(v.S)), K: v.K, N: -1}
		case x.Op == token.SUB && (v.K == KInt || v.K == KNat):
			return Val{S: fmt.Sprintf("(-%s)", paren(f.asInt(v))), K: KInt, N: -1}
		}
		f.fail(e, "unary operator %s", x.Op)
	case *ast.BinaryExpr:
		return f.binary(x)
	case *ast.CallExpr:
		return f.call(x)
	case *ast.CompositeLit:
		return f.compositeLit(x)
	}
	f.fail(e, "expression %s", types.ExprString(e))
	return Val{}
}

func (f *fn) sliceExpr(x *ast.SliceExpr) Val {
	if x.Slice3 {
		f.fail(x, "three-index slice expression")
	}
	// an array sliced in full is its byte list
	if t := f.info.TypeOf(x.X); t != nil {
		if _, isArr := t.Underlying().(*types.Array); isArr {
			if x.Low != nil || x.High != nil {
				f.fail(x, "partial slice of an array used as a value")
			}
			v := f.expr(x.X)
			return Val{S: v.S, K: KBytes, N: v.N}
		}
	}
	base := f.expr(x.X)
	if base.K == KList {
		// s[:0] is legal whatever the capacity and denotes no element
		if c, ok := constInt(f.info, x.High); x.Low == nil && x.High != nil && ok && c == 0 {
			return Val{S: fmt.Sprintf("([] : List %s)", leanKindType(base.E)), K: KList, E: base.E, N: -1}
		}
		f.fail(x, "slice expression on a non-byte slice other than s[:0]")
	}
	if base.K != KSlice {
		f.fail(x, "slice expression on a value of unsupported kind")
	}
	if x.Low == nil && x.High == nil {
		return base
	}
	t := f.tmp()
	if x.High == nil {
		lo, _ := f.natIndex(x.Low)
		f.w("let %s ← %s.sliceFrom %s", t, base.S, paren(lo))
		return Val{S: t, K: KSlice, N: -1}
	}
	lo, lc := "0", 0
	if x.Low != nil {
		lo, lc = f.natIndex(x.Low)
	}
	hi, hc := f.natIndex(x.High)
	f.w("let %s ← %s.slice %s %s", t, base.S, paren(lo), paren(hi))
	n := -1
	if lc >= 0 && hc >= lc {
		n = hc - lc
	}
	return Val{S: t, K: KSlice, N: n}
}

var binOps = map[token.Token]string{token.AND: "&&&", token.OR: "|||", token.XOR: "^^^", token.ADD: "+", token.SUB: "-", token.MUL: "*",
	token.EQL: "==", token.NEQ: "!=", token.LSS: "<", token.LEQ: "≤", token.GTR: ">", token.GEQ: "≥"}

func (f *fn) binary(x *ast.BinaryExpr) Val {
	if x.Op == token.LAND || x.Op == token.LOR {
		a := f.expr(x.X)
		before := len(f.lines)
		b := f.expr(x.Y)
		if len(f.lines) != before {
			f.fail(x, "index or slice expression under a short-circuit operator")
		}
		if a.K != KBool || b.K != KBool {
			f.fail(x, "logical operator on non-booleans")
		}
		op := "&&"
		if x.Op == token.LOR {
			op = "||"
		}
		return Val{S: fmt.Sprintf("(%s %s %s)", paren(boolTerm(a)), op, paren(boolTerm(b))), K: KBool, N: -1}
	}
	if x.Op == token.SHL || x.Op == token.SHR {
		a := f.expr(x.X)
		tv := f.info.Types[x.Y]
		if tv.Value == nil || width(a.K) == 0 {
			f.fail(x, "shift with a non-constant count or of a non-fixed-width value")
		}
		n, ok := constant.Int64Val(tv.Value)
		if !ok || n < 0 || int(n) >= width(a.K) {
			f.fail(x, "shift count not below the width")
		}
		op := "<<<"
		if x.Op == token.SHR {
			op = ">>>"
		}
		return Val{S: fmt.Sprintf("(%s %s (%d : %s))", paren(a.S), op, n, leanKindType(a.K)), K: a.K, N: -1}
	}
	a := f.expr(x.X)
	b := f.expr(x.Y)
	return f.binop(x, x.Op, a, b, f.info.Types[x.Y])
}

func (f *fn) binop(n ast.Node, op token.Token, a, b Val, ytv types.TypeAndValue) Val {
	lop, ok := binOps[op]
	cmp := op == token.EQL || op == token.NEQ || op == token.LSS || op == token.LEQ || op == token.GTR || op == token.GEQ
	if op == token.QUO || op == token.REM {
		// only by a positive constant (no division-by-zero panic; for ℕ Go's truncation is Lean's)
		if ytv.Value == nil || constant.Sign(ytv.Value) <= 0 {
			f.fail(n, "division by a non-constant")
		}
		lop, ok = "/", true
		if op == token.REM {
			lop = "%"
		}
		if a.K == KInt {
			f.fail(n, "division of a possibly negative int")
		}
	}
	if !ok {
		f.fail(n, "binary operator %s", op)
	}
	switch {
	case a.K == KBool && b.K == KBool && (op == token.EQL || op == token.NEQ):
		return Val{S: fmt.Sprintf("(%s %s %s)", paren(boolTerm(a)), lop, paren(boolTerm(b))), K: KBool, N: -1}
	case width(a.K) > 0 && a.K == b.K:
		if cmp {
			if op == token.EQL || op == token.NEQ {
				return Val{S: fmt.Sprintf("(%s %s %s)", paren(a.S), lop, paren(b.S)), K: KBool, N: -1}
			}
			return Val{S: fmt.Sprintf("%s %s %s", paren(a.S), lop, paren(b.S)), K: KBool, Prop: true, N: -1}
		}
		return Val{S: fmt.Sprintf("(%s %s %s)", paren(a.S), lop, paren(b.S)), K: a.K, N: -1}
	case (a.K == KNat || a.K == KInt) && (b.K == KNat || b.K == KInt):
		if op == token.AND || op == token.OR || op == token.XOR {
			f.fail(n, "bitwise operator on int")
		}
		bothNat := a.K == KNat && b.K == KNat
		as, bs := a.S, b.S
		if !bothNat || op == token.SUB {
			as, bs = f.asInt(a), f.asInt(b)
		}
		if cmp {
			if op == token.EQL || op == token.NEQ {
				return Val{S: fmt.Sprintf("(%s %s %s)", paren(as), lop, paren(bs)), K: KBool, N: -1}
			}
			return Val{S: fmt.Sprintf("%s %s %s", paren(as), lop, paren(bs)), K: KBool, Prop: true, N: -1}
		}
		k := KInt
		if bothNat && op != token.SUB {
			k = KNat
		}
		return Val{S: fmt.Sprintf("(%s %s %s)", paren(as), lop, paren(bs)), K: k, N: -1}
	}
	f.fail(n, "binary operator %s on kinds %d, %d", op, a.K, b.K)
	return Val{}
}

func (f *fn) compositeLit(x *ast.CompositeLit) Val {
	t := f.info.TypeOf(x)
	switch u := t.Underlying().(type) {
	case *types.Array, *types.Slice:
		var elem types.Type
		n := -1
		if a, ok := u.(*types.Array); ok {
			elem, n = a.Elem(), int(a.Len())
		} else {
			elem = u.(*types.Slice).Elem()
		}
		if !isByte(elem) {
			f.fail(x, "composite literal of element type %s", elem)
		}
		var els []string
		for _, el := range x.Elts {
			if _, ok := el.(*ast.KeyValueExpr); ok {
				f.fail(x, "keyed array literal")
			}
			v := f.expr(el)
			if v.K != KU8 {
				f.fail(el, "array element of unsupported kind")
			}
			els = append(els, v.S)
		}
		if n < 0 {
			n = len(els)
		}
		for len(els) < n {
			els = append(els, "0")
		}
		if len(x.Elts) == 0 {
			return Val{S: fmt.Sprintf("(List.replicate %d 0)", n), K: KBytes, N: n}
		}
		return Val{S: "[" + strings.Join(els, ", ") + "]", K: KBytes, N: n}
	case *types.Struct:
		nt, ok := t.(*types.Named)
		if !ok || len(x.Elts) != 0 {
			f.fail(x, "struct literal with fields")
		}
		f.g.useField(nt, "")
		return Val{S: fmt.Sprintf("({} : %s)", leanTypeName(nt)), K: KStruct, T: nt, N: -1}
	}
	f.fail(x, "composite literal of type %s", t)
	return Val{}
}

// listElem: t is a slice of uint16-like or int64-like elements
func listElem(t types.Type) (Kind, bool) {
	sl, ok := t.Underlying().(*types.Slice)
	if !ok {
		return 0, false
	}
	if b, ok := sl.Elem().Underlying().(*types.Basic); ok {
		switch b.Kind() {
		case types.Uint16:
			return KU16, true
		case types.Int64, types.Int:
			return KInt, true
		}
	}
	return 0, false
}
