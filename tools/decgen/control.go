package main

import (
	"fmt"
	"go/ast"
	"go/token"
	"go/types"
	"sort"
	"strings"
)

func elseStmts(e ast.Stmt) []ast.Stmt {
	switch x := e.(type) {
	case nil:
		return nil
	case *ast.BlockStmt:
		return x.List
	default:
		return []ast.Stmt{x}
	}
}

// sub translates stmts into a fresh line buffer at indentation ind and returns the lines
func (f *fn) sub(stmts []ast.Stmt, ind int, fin finFn) []string {
	saved := f.lines
	savedVars := map[types.Object]Val{}
	for k, v := range f.vars {
		savedVars[k] = v
	}
	f.lines = nil
	f.block(stmts, ind, fin)
	out := f.lines
	f.lines = saved
	f.vars = savedVars
	f.ind = ind - 1
	return out
}

// ifStmt returns true when it has consumed `rest` as well
func (f *fn) ifStmt(s *ast.IfStmt, rest []ast.Stmt, ind int, fin finFn) bool {
	if s.Init != nil {
		// `if _, err := recv.M(args); err != nil { return err }`
		if as, ok := s.Init.(*ast.AssignStmt); ok && len(as.Rhs) == 1 {
			if call, ok := as.Rhs[0].(*ast.CallExpr); ok && f.isMethodCallee(call) {
				errId, _ := as.Lhs[len(as.Lhs)-1].(*ast.Ident)
				var errObj types.Object
				if errId != nil {
					errObj = f.info.Defs[errId]
				}
				if s.Else != nil || !f.isErrNotNil(s.Cond, errObj) || !f.isPropagate(s.Body, errObj) {
					f.fail(s, "call of a method of the receiver whose error is not propagated at once")
				}
				f.methodCall(call, as.Lhs[:len(as.Lhs)-1], true)
				return false
			}
		}
		as, ok := s.Init.(*ast.AssignStmt)
		if !ok {
			f.fail(s, "if statement with an initialiser of unsupported form")
		}
		f.assign(as)
	}
	cond := f.expr(s.Cond)
	if cond.K != KBool {
		f.fail(s, "condition of unsupported kind")
	}
	return f.branch(s, cond.S, s.Body.List, elseStmts(s.Else), s.Else != nil, rest, ind, fin)
}

// branch: `if c { A } [else { B }]; rest`
func (f *fn) branch(n ast.Node, cond string, A, B []ast.Stmt, hasElse bool, rest []ast.Stmt, ind int, fin finFn) bool {
	f.ind = ind
	thenT := terminates(A)
	elseT := hasElse && terminates(B)
	switch {
	case thenT:
		a := f.sub(A, ind+1, nil)
		if len(a) == 1 {
			f.w("if %s then %s else", cond, strings.TrimSpace(a[0]))
		} else {
			f.w("if %s then (do", cond)
			f.lines = append(f.lines, a[:len(a)-1]...)
			f.lines = append(f.lines, a[len(a)-1]+") else")
		}
		if elseT && len(rest) > 0 {
			f.fail(n, "unreachable statements after a conditional")
		}
		f.block(append(append([]ast.Stmt{}, B...), rest...), ind, fin)
		return true
	case elseT:
		b := f.sub(B, ind+1, nil)
		f.w("if !(%s) then (do", boolOf(cond))
		f.lines = append(f.lines, b[:len(b)-1]...)
		f.lines = append(f.lines, b[len(b)-1]+") else")
		f.block(append(append([]ast.Stmt{}, A...), rest...), ind, fin)
		return true
	}
	// control flows out of both branches: join the receiver and the outer variables assigned inside
	vars := f.assignedOuter(n, append(append([]ast.Stmt{}, A...), B...))
	tuple := "r"
	if len(vars) > 0 {
		names := []string{"r"}
		for _, o := range vars {
			names = append(names, f.vars[o].S)
		}
		tuple = "(" + strings.Join(names, ", ") + ")"
	}
	finJoin := func() { f.w("pure %s", tuple) }
	f.inJoin++
	a := f.sub(A, ind+2, finJoin)
	kindsA := f.kindsAfter(A, vars, ind)
	b := f.sub(B, ind+2, finJoin)
	kindsB := f.kindsAfter(B, vars, ind)
	f.inJoin--
	f.ind = ind
	for i := range vars {
		if kindsA[i] != kindsB[i] {
			f.fail(n, "variable %s has different kinds on the two branches", vars[i].Name())
		}
	}
	j := "r"
	if len(vars) > 0 {
		f.ntmp++
		j = fmt.Sprintf("j%d", f.ntmp)
	}
	f.w("let %s ← (if %s then (do", j, cond)
	f.lines = append(f.lines, a[:len(a)-1]...)
	f.lines = append(f.lines, a[len(a)-1]+") else (do")
	f.lines = append(f.lines, b[:len(b)-1]...)
	f.lines = append(f.lines, b[len(b)-1]+"))")
	if len(vars) > 0 {
		f.w("let r := %s.1", j)
		for i, o := range vars {
			proj := fmt.Sprintf("%s.2", j)
			for k := 0; k < i; k++ {
				proj += ".2"
			}
			if i < len(vars)-1 {
				proj = fmt.Sprintf("%s.2", j) + strings.Repeat(".2", i) + ".1"
			}
			v := f.vars[o]
			f.w("let %s : %s := %s", v.S, leanKindType(kindsA[i]), proj)
			f.vars[o] = Val{S: v.S, K: kindsA[i], N: -1}
		}
	}
	return false
}

func boolOf(cond string) string { return cond }

// kindsAfter: the kinds the join variables have at the end of a branch (re-translated in a scratch buffer)
func (f *fn) kindsAfter(stmts []ast.Stmt, vars []types.Object, ind int) []Kind {
	saved := f.lines
	savedVars := map[types.Object]Val{}
	for k, v := range f.vars {
		savedVars[k] = v
	}
	savedTmp := f.ntmp
	f.lines = nil
	var out []Kind
	f.inJoin++
	f.block(stmts, ind, func() {
		for _, o := range vars {
			out = append(out, f.vars[o].K)
		}
	})
	f.inJoin--
	f.lines = saved
	f.vars = savedVars
	f.ntmp = savedTmp
	if len(vars) > 0 && len(out) == 0 { // the branch never falls through (cannot happen: it does not terminate)
		for range vars {
			out = append(out, KInt)
		}
	}
	return out
}

// assignedOuter: local variables declared outside stmts and assigned inside, in order of declaration
func (f *fn) assignedOuter(n ast.Node, stmts []ast.Stmt) []types.Object {
	set := map[types.Object]bool{}
	mark := func(e ast.Expr) {
		if id, ok := e.(*ast.Ident); ok {
			if obj := f.info.Uses[id]; obj != nil {
				if _, known := f.vars[obj]; known {
					set[obj] = true
				}
			}
		}
		// copy(local[:], …)
	}
	for _, s := range stmts {
		ast.Inspect(s, func(m ast.Node) bool {
			switch x := m.(type) {
			case *ast.AssignStmt:
				for _, l := range x.Lhs {
					mark(l)
				}
			case *ast.IncDecStmt:
				mark(x.X)
			case *ast.CallExpr:
				if id, ok := x.Fun.(*ast.Ident); ok && id.Name == "copy" && len(x.Args) == 2 {
					if se, ok := x.Args[0].(*ast.SliceExpr); ok {
						mark(se.X)
					}
				}
			}
			return true
		})
	}
	var out []types.Object
	for o := range set {
		out = append(out, o)
	}
	sort.Slice(out, func(i, j int) bool { return out[i].Pos() < out[j].Pos() })
	return out
}

// switchStmt: `switch tag { case a, b: …; default: … }` as an if-else chain on the tag evaluated once
func (f *fn) switchStmt(s *ast.SwitchStmt, rest []ast.Stmt, ind int, fin finFn) bool {
	if s.Init != nil || s.Tag == nil {
		f.fail(s, "switch without a tag or with an initialiser")
	}
	f.ind = ind
	tag := f.expr(s.Tag)
	if width(tag.K) == 0 {
		f.fail(s, "switch tag of unsupported kind")
	}
	tv := f.tmp()
	f.w("let %s : %s := %s", tv, leanKindType(tag.K), tag.S)
	type clause struct {
		cond string
		body []ast.Stmt
	}
	var clauses []clause
	var deflt []ast.Stmt
	hasDefault := false
	for i, c := range s.Body.List {
		cc := c.(*ast.CaseClause)
		for _, st := range cc.Body {
			if br, ok := st.(*ast.BranchStmt); ok {
				f.fail(br, "%s in a switch", br.Tok)
			}
		}
		if cc.List == nil {
			if i != len(s.Body.List)-1 {
				f.fail(s, "default clause that is not last")
			}
			deflt, hasDefault = cc.Body, true
			continue
		}
		var alts []string
		for _, e := range cc.List {
			before := len(f.lines)
			v := f.expr(e)
			if v.K != tag.K || len(f.lines) != before {
				f.fail(e, "case expression")
			}
			alts = append(alts, fmt.Sprintf("(%s == %s)", tv, v.S))
		}
		cond := alts[0]
		if len(alts) > 1 {
			cond = "(" + strings.Join(alts, " || ") + ")"
		}
		clauses = append(clauses, clause{cond, cc.Body})
	}
	// build the chain from the back as synthetic statements is not possible without type information for new
	// nodes; instead recurse on the clause list
	var chain func(k int, rest []ast.Stmt, fin finFn) bool
	chain = func(k int, rest []ast.Stmt, fin finFn) bool {
		if k == len(clauses) {
			f.block(append(append([]ast.Stmt{}, deflt...), rest...), ind, fin)
			return true
		}
		if !terminates(clauses[k].body) {
			f.fail(s, "switch clause that control flows out of")
		}
		a := f.sub(clauses[k].body, ind+1, nil)
		f.ind = ind
		if len(a) == 1 {
			f.w("if %s then %s else", clauses[k].cond, strings.TrimSpace(a[0]))
		} else {
			f.w("if %s then (do", clauses[k].cond)
			f.lines = append(f.lines, a[:len(a)-1]...)
			f.lines = append(f.lines, a[len(a)-1]+") else")
		}
		return chain(k+1, rest, fin)
	}
	_ = hasDefault
	return chain(0, rest, fin)
}

// ---- methods of the receiver (or of a struct inside it) called as statements --------------------------------------

func (f *fn) isMethodCallee(call *ast.CallExpr) bool {
	se, ok := call.Fun.(*ast.SelectorExpr)
	if !ok {
		return false
	}
	sel := f.info.Selections[se]
	if sel == nil || sel.Kind() != types.MethodVal {
		return false
	}
	fnObj, ok := sel.Obj().(*types.Func)
	if !ok {
		return false
	}
	sig := fnObj.Type().(*types.Signature)
	if _, isPtr := sig.Recv().Type().(*types.Pointer); !isPtr {
		return false
	}
	_, rooted := f.fieldPath(se.X)
	return rooted
}

// prepareMethodCall translates the callee (once) and the arguments; returns the Lean name of the callee, the Lean
// path of the sub-structure it is called on, the argument terms and the result kinds
func (f *fn) prepareMethodCall(call *ast.CallExpr) (string, []string, []string, []Kind) {
	se := call.Fun.(*ast.SelectorExpr)
	sel := f.info.Selections[se]
	callee := sel.Obj().(*types.Func)
	path, _ := f.fieldPath(se.X)
	// embedded structs on the way to the method
	t := f.info.TypeOf(se.X)
	idx := sel.Index()
	for _, i := range idx[:len(idx)-1] {
		if p, ok := t.Underlying().(*types.Pointer); ok {
			t = p.Elem()
		}
		st := t.Underlying().(*types.Struct)
		path = append(path, st.Field(i))
		t = st.Field(i).Type()
	}
	var lp []string
	if len(path) > 0 {
		lp = f.leanPath(call, path)
	}
	recvNamed := callee.Type().(*types.Signature).Recv().Type().(*types.Pointer).Elem().(*types.Named)
	src, ok := f.g.funcs[callee]
	if !ok {
		f.fail(call, "call of %s: no source", callee.FullName())
	}
	sig := callee.Type().(*types.Signature)
	nres := sig.Results().Len()
	if nres == 0 || sig.Results().At(nres-1).Type().String() != "error" {
		f.fail(call, "call of %s: last result is not an error", callee.FullName())
	}
	var res []Kind
	for i := 0; i < nres-1; i++ {
		k, _, ok := f.kindOfType(sig.Results().At(i).Type())
		if !ok {
			f.fail(call, "call of %s: result type", callee.FullName())
		}
		res = append(res, k)
	}
	var args []string
	for i, a := range call.Args {
		if isDecodeFeedback(sig.Params().At(i).Type()) {
			continue
		}
		v := f.expr(a)
		if v.K == KStruct {
			f.fail(call, "struct argument")
		}
		args = append(args, paren(argTerm(f, v, sig.Params().At(i).Type())))
	}
	name := leanTypeName(recvNamed) + "." + callee.Name()
	if _, done := f.g.defs[name]; !done {
		if f.g.inProgress[name] {
			f.fail(call, "recursive call of %s", callee.FullName())
		}
		f.g.inProgress[name] = true
		f.g.useField(recvNamed, "")
		h := f.g.newFn(src, recvNamed)
		if h.recvObj == nil {
			f.fail(call, "call of %s: unnamed receiver", callee.FullName())
		}
		ps := h.bindParams(src.decl.Type.Params.List)
		var pdecl []string
		for _, p := range ps {
			for _, v := range h.vars {
				if v.S == p {
					pdecl = append(pdecl, fmt.Sprintf("(%s : %s)", p, leanKindType(v.K)))
				}
			}
		}
		h.results = res
		func() {
			defer func() {
				if r := recover(); r != nil {
					if gu, ok := r.(giveUp); ok {
						panic(giveUp{fmt.Sprintf("%s (in %s)", gu.msg, callee.FullName())})
					}
					panic(r)
				}
			}()
			h.block(src.decl.Body.List, 1, nil)
		}()
		rt := leanTypeName(recvNamed)
		if len(res) > 0 {
			parts := []string{rt}
			for _, k := range res {
				// an int result may be ℕ on one return and ℤ on another: results are coerced to the declared kind
				parts = append(parts, leanKindType(k))
			}
			rt = "(" + strings.Join(parts, " × ") + ")"
		}
		pos := src.pkg.Fset.Position(src.decl.Pos())
		text := fmt.Sprintf("/-- translated from `%s` (%s) -/\ndef %s (r : %s) %s : R %s := do\n%s\n", callee.FullName(), shortFile(pos.Filename),
			name, leanTypeName(recvNamed), strings.Join(pdecl, " "), rt, strings.Join(h.lines, "\n"))
		f.g.defs[name] = text
		f.g.defOrder = append(f.g.defOrder, name)
		delete(f.g.inProgress, name)
	}
	return name, lp, args, res
}

// methodCall: `lhs… , err := recv.M(args)` with the error propagated by the statement that follows
func (f *fn) methodCall(call *ast.CallExpr, lhs []ast.Expr, define bool) {
	name, lp, args, res := f.prepareMethodCall(call)
	if len(lhs) != len(res) {
		f.fail(call, "result count of %s", name)
	}
	recv := "r"
	if len(lp) > 0 {
		recv = "r." + strings.Join(lp, ".")
	}
	t := f.tmp()
	f.w("let %s ← %s %s %s", t, name, recv, strings.Join(args, " "))
	newRecv := t
	if len(res) > 0 {
		newRecv = t + ".1"
	}
	if len(lp) > 0 {
		f.w("let r := %s", nestedUpdate("r", lp, newRecv))
	} else {
		f.w("let r := %s", newRecv)
	}
	for i, l := range lhs {
		id, ok := l.(*ast.Ident)
		if !ok {
			f.fail(call, "result stored into a non-variable")
		}
		if id.Name == "_" {
			continue
		}
		obj := f.info.Defs[id]
		if obj == nil {
			obj = f.info.Uses[id]
		}
		proj := t + ".2"
		if len(res) > 1 {
			proj = t + ".2" + strings.Repeat(".2", i)
			if i < len(res)-1 {
				proj += ".1"
			}
		}
		n := f.nameOf(obj)
		f.w("let %s : %s := %s", n, leanKindType(res[i]), proj)
		f.vars[obj] = Val{S: n, K: res[i], N: -1}
	}
	_ = token.DEFINE
}
