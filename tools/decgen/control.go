package main

import (
	"fmt"
	"go/ast"
	"go/token"
	"go/types"
	"sort"
	"strings"
)

func elseStmts(e ast.Stmt) []ast.Stmt {
	switch x := e.(type) {
	case nil:
		return nil
	case *ast.BlockStmt:
		return x.List
	default:
		return []ast.Stmt{x}
	}
}

// sub translates stmts into a fresh line buffer at indentation ind and returns the lines
func (f *fn) sub(stmts []ast.Stmt, ind int, fin finFn) []string {
	saved := f.lines
	savedVars := map[types.Object]Val{}
	for k, v := range f.vars {
		savedVars[k] = v
	}
	f.lines = nil
	f.block(stmts, ind, fin)
	out := f.lines
	f.lines = saved
	f.vars = savedVars
	f.ind = ind - 1
	return out
}

// ifStmt returns true when it has consumed `rest` as well
func (f *fn) ifStmt(s *ast.IfStmt, rest []ast.Stmt, ind int, fin finFn) bool {
	if s.Init != nil {
		// `if _, err := recv.M(args); err != nil { return err }`
		if as, ok := s.Init.(*ast.AssignStmt); ok && len(as.Rhs) == 1 {
			if call, ok := as.Rhs[0].(*ast.CallExpr); ok && f.isMethodCallee(call) {
				errId, _ := as.Lhs[len(as.Lhs)-1].(*ast.Ident)
				var errObj types.Object
				if errId != nil {
					errObj = f.info.Defs[errId]
				}
				if s.Else != nil || !f.isErrNotNil(s.Cond, errObj) || !f.isPropagate(s.Body, errObj) {
					f.fail(s, "call of a method of the receiver whose error is not propagated at once")
				}
				f.methodCall(call, as.Lhs[:len(as.Lhs)-1], true)
				return false
			}
		}
		as, ok := s.Init.(*ast.AssignStmt)
		if !ok {
			f.fail(s, "if statement with an initialiser of unsupported form")
		}
		// `if v, ok := m[k]; ok { A (terminating) }; rest` on a read-only package-level map
		if term, valObj, okObj, val, isLookup := f.commaOkLookup(as); isLookup {
			cid, isId := s.Cond.(*ast.Ident)
			if !isId || f.info.Uses[cid] != okObj || s.Else != nil || !terminates(s.Body.List) {
				f.fail(s, "comma-ok lookup used other than `if v, ok := m[k]; ok { …return }`")
			}
			ast.Inspect(s.Body, func(m ast.Node) bool {
				if id, ok := m.(*ast.Ident); ok && f.info.Uses[id] == okObj {
					f.fail(s, "the ok variable of a lookup is used inside the branch")
				}
				return true
			})
			f.ind = ind
			vname := f.nameOf(valObj)
			val.S = vname
			savedVars := map[types.Object]Val{}
			for k, v := range f.vars {
				savedVars[k] = v
			}
			f.vars[valObj] = val
			a := f.sub(s.Body.List, ind+2, nil)
			f.vars = savedVars
			f.ind = ind
			f.w("match %s with", term)
			f.w("| some %s => (do", vname)
			f.lines = append(f.lines, a[:len(a)-1]...)
			f.lines = append(f.lines, a[len(a)-1]+")")
			f.w("| none => (do")
			start := len(f.lines)
			f.block(rest, ind+2, fin)
			_ = start
			f.lines[len(f.lines)-1] += ")"
			return true
		}
		f.assign(as)
	}
	cond := f.expr(s.Cond)
	if cond.K != KBool {
		f.fail(s, "condition of unsupported kind")
	}
	return f.branch(s, cond.S, s.Body.List, elseStmts(s.Else), s.Else != nil, rest, ind, fin)
}

// branch: `if c { A } [else { B }]; rest`
func (f *fn) branch(n ast.Node, cond string, A, B []ast.Stmt, hasElse bool, rest []ast.Stmt, ind int, fin finFn) bool {
	f.ind = ind
	thenT := terminates(A)
	elseT := hasElse && terminates(B)
	switch {
	case thenT:
		a := f.sub(A, ind+1, nil)
		if len(a) == 1 {
			f.w("if %s then %s else", cond, strings.TrimSpace(a[0]))
		} else {
			f.w("if %s then (do", cond)
			f.lines = append(f.lines, a[:len(a)-1]...)
			f.lines = append(f.lines, a[len(a)-1]+") else")
		}
		if elseT && len(rest) > 0 {
			f.fail(n, "unreachable statements after a conditional")
		}
		f.block(append(append([]ast.Stmt{}, B...), rest...), ind, fin)
		return true
	case elseT:
		b := f.sub(B, ind+1, nil)
		f.w("if !(%s) then (do", boolOf(cond))
		f.lines = append(f.lines, b[:len(b)-1]...)
		f.lines = append(f.lines, b[len(b)-1]+") else")
		f.block(append(append([]ast.Stmt{}, A...), rest...), ind, fin)
		return true
	}
	// control flows out of both branches: join the receiver and the outer variables assigned inside
	f.joinChain(n, []string{cond}, [][]ast.Stmt{A}, B, ind)
	return false
}

// joinChain: `if c1 { A1 } else if c2 { A2 } … else { D }` where control flows out of every branch: the value of the
// chain is the state (receiver and outer variables assigned inside) at the end of the branch taken
func (f *fn) joinChain(n ast.Node, conds []string, bodies [][]ast.Stmt, deflt []ast.Stmt, ind int) {
	var all []ast.Stmt
	for _, b := range bodies {
		all = append(all, b...)
	}
	all = append(all, deflt...)
	vars := f.assignedOuter(n, all)
	tuple := packState(f.stateNames(vars))
	finJoin := func() { f.w("pure %s", tuple) }
	f.inJoin++
	var texts [][]string
	var kinds [][]Val
	for _, b := range append(append([][]ast.Stmt{}, bodies...), deflt) {
		texts = append(texts, f.sub(b, ind+2, finJoin))
		kinds = append(kinds, f.kindsAfter(b, vars, ind))
	}
	f.inJoin--
	f.ind = ind
	// a variable that is ℕ on one branch and ℤ on another is carried as ℤ
	for i := range vars {
		for _, ks := range kinds[1:] {
			if !sameType(ks[i], kinds[0][i]) {
				f.fail(n, "variable %s has different kinds on the two branches", vars[i].Name())
			}
		}
	}
	names := f.stateNames(vars)
	j := "r"
	if len(names) == 0 {
		j = "_"
	} else if !(len(names) == 1 && !f.noRecv) {
		f.ntmp++
		j = fmt.Sprintf("j%d", f.ntmp)
	}
	for k, c := range conds {
		if k == 0 {
			f.w("let %s ← (if %s then (do", j, c)
		} else {
			f.lines[len(f.lines)-1] += ") else (if " + c + " then (do"
		}
		a := texts[k]
		f.lines = append(f.lines, a...)
	}
	f.lines[len(f.lines)-1] += ") else (do"
	b := texts[len(texts)-1]
	f.lines = append(f.lines, b[:len(b)-1]...)
	f.lines = append(f.lines, b[len(b)-1]+")"+strings.Repeat(")", len(conds)))
	if j != "r" && j != "_" {
		km := map[types.Object]Val{}
		for i, o := range vars {
			kv := kinds[0][i]
			kv.S = f.vars[o].S
			km[o] = kv
		}
		f.unpackState(j, vars, km)
	}
	for i, o := range vars {
		v := kinds[0][i]
		v.S = f.vars[o].S
		v.N, v.Prop, v.IsConst, v.Al = -1, false, false, nil
		f.vars[o] = v
	}
}

func boolOf(cond string) string { return cond }

// kindsAfter: the shapes the join variables have at the end of a branch (re-translated in a scratch buffer)
func (f *fn) kindsAfter(stmts []ast.Stmt, vars []types.Object, ind int) []Val {
	saved := f.lines
	savedVars := map[types.Object]Val{}
	for k, v := range f.vars {
		savedVars[k] = v
	}
	savedTmp := f.ntmp
	savedAl := f.aliases
	f.lines = nil
	var out []Val
	f.inJoin++
	f.block(stmts, ind, func() {
		for _, o := range vars {
			out = append(out, f.vars[o])
		}
	})
	f.inJoin--
	f.lines = saved
	f.vars = savedVars
	f.ntmp = savedTmp
	f.aliases = savedAl
	if len(vars) > 0 && len(out) == 0 { // the branch never falls through (cannot happen: it does not terminate)
		for range vars {
			out = append(out, Val{K: KInt, N: -1})
		}
	}
	return out
}

// assignedOuter: local variables declared outside stmts and assigned inside, in order of declaration
func (f *fn) assignedOuter(n ast.Node, stmts []ast.Stmt) []types.Object {
	set := map[types.Object]bool{}
	var mark func(e ast.Expr)
	mark = func(e ast.Expr) {
		switch x := e.(type) {
		case *ast.Ident:
			if obj := f.info.Uses[x]; obj != nil {
				if _, known := f.vars[obj]; known {
					set[obj] = true
				}
			}
		case *ast.ParenExpr:
			mark(x.X)
		case *ast.IndexExpr: // local[i] = …
			mark(x.X)
		case *ast.SelectorExpr: // local.field = …
			mark(x.X)
		}
		// copy(local[:], …)
	}
	for _, s := range stmts {
		ast.Inspect(s, func(m ast.Node) bool {
			switch x := m.(type) {
			case *ast.AssignStmt:
				for _, l := range x.Lhs {
					mark(l)
				}
			case *ast.IncDecStmt:
				mark(x.X)
			case *ast.CallExpr:
				if id, ok := x.Fun.(*ast.Ident); ok && id.Name == "copy" && len(x.Args) == 2 {
					if se, ok := x.Args[0].(*ast.SliceExpr); ok {
						mark(se.X)
					}
				}
			}
			return true
		})
	}
	var out []types.Object
	for o := range set {
		out = append(out, o)
	}
	sort.Slice(out, func(i, j int) bool { return out[i].Pos() < out[j].Pos() })
	return out
}

// switchStmt: `switch tag { case a, b: …; default: … }` as an if-else chain on the tag evaluated once
func (f *fn) switchStmt(s *ast.SwitchStmt, rest []ast.Stmt, ind int, fin finFn) bool {
	if s.Init != nil || s.Tag == nil {
		f.fail(s, "switch without a tag or with an initialiser")
	}
	f.ind = ind
	tag := f.expr(s.Tag)
	if width(tag.K) == 0 && swidth(tag.K) == 0 && tag.K != KNat && tag.K != KInt {
		f.fail(s, "switch tag of unsupported kind")
	}
	tv := f.tmp()
	f.w("let %s : %s := %s", tv, leanKindType(tag.K), tag.S)
	type clause struct {
		cond string
		body []ast.Stmt
	}
	var clauses []clause
	var deflt []ast.Stmt
	hasDefault := false
	for i, c := range s.Body.List {
		cc := c.(*ast.CaseClause)
		for _, st := range cc.Body {
			if br, ok := st.(*ast.BranchStmt); ok {
				f.fail(br, "%s in a switch", br.Tok)
			}
		}
		if cc.List == nil {
			if i != len(s.Body.List)-1 {
				f.fail(s, "default clause that is not last")
			}
			deflt, hasDefault = cc.Body, true
			continue
		}
		var alts []string
		for _, e := range cc.List {
			before := len(f.lines)
			v := f.expr(e)
			if len(f.lines) != before {
				f.fail(e, "case expression")
			}
			switch {
			case v.K == tag.K:
				alts = append(alts, fmt.Sprintf("(%s == %s)", tv, v.S))
			case (v.K == KNat || v.K == KInt) && (tag.K == KNat || tag.K == KInt):
				alts = append(alts, fmt.Sprintf("(%s == %s)", f.asInt(Val{S: tv, K: tag.K}), f.asInt(v)))
			default:
				f.fail(e, "case expression")
			}
		}
		cond := alts[0]
		if len(alts) > 1 {
			cond = "(" + strings.Join(alts, " || ") + ")"
		}
		clauses = append(clauses, clause{cond, cc.Body})
	}
	// build the chain from the back as synthetic statements is not possible without type information for new
	// nodes; instead recurse on the clause list
	// when control flows out of some clause, the switch is a join over all clauses (a missing default changes nothing)
	flowsOut := false
	for _, c := range clauses {
		if !terminates(c.body) {
			flowsOut = true
		}
	}
	if flowsOut {
		var conds []string
		var bodies [][]ast.Stmt
		for _, c := range clauses {
			conds = append(conds, c.cond)
			bodies = append(bodies, c.body)
		}
		f.joinChain(s, conds, bodies, deflt, ind)
		return false
	}
	var chain func(k int, rest []ast.Stmt, fin finFn) bool
	chain = func(k int, rest []ast.Stmt, fin finFn) bool {
		if k == len(clauses) {
			f.block(append(append([]ast.Stmt{}, deflt...), rest...), ind, fin)
			return true
		}
		if !terminates(clauses[k].body) {
			f.fail(s, "switch clause that control flows out of")
		}
		a := f.sub(clauses[k].body, ind+1, nil)
		f.ind = ind
		if len(a) == 1 {
			f.w("if %s then %s else", clauses[k].cond, strings.TrimSpace(a[0]))
		} else {
			f.w("if %s then (do", clauses[k].cond)
			f.lines = append(f.lines, a[:len(a)-1]...)
			f.lines = append(f.lines, a[len(a)-1]+") else")
		}
		return chain(k+1, rest, fin)
	}
	_ = hasDefault
	return chain(0, rest, fin)
}

// ---- methods of the receiver (or of a struct inside it) called as statements --------------------------------------

func (f *fn) isMethodCallee(call *ast.CallExpr) bool {
	se, ok := call.Fun.(*ast.SelectorExpr)
	if !ok {
		return false
	}
	sel := f.info.Selections[se]
	if sel == nil || sel.Kind() != types.MethodVal {
		return false
	}
	fnObj, ok := sel.Obj().(*types.Func)
	if !ok {
		return false
	}
	sig := fnObj.Type().(*types.Signature)
	if _, isPtr := sig.Recv().Type().(*types.Pointer); !isPtr {
		return false
	}
	_, rooted := f.fieldPath(se.X)
	return rooted
}

// prepareMethodCall translates the callee (once) and the arguments; returns the Lean name of the callee, the Lean
// path of the sub-structure it is called on, the argument terms and the result kinds
func (f *fn) prepareMethodCall(call *ast.CallExpr) (string, []string, []string, []Kind) {
	se := call.Fun.(*ast.SelectorExpr)
	sel := f.info.Selections[se]
	callee := sel.Obj().(*types.Func)
	path, _ := f.fieldPath(se.X)
	// embedded structs on the way to the method
	t := f.info.TypeOf(se.X)
	idx := sel.Index()
	for _, i := range idx[:len(idx)-1] {
		if p, ok := t.Underlying().(*types.Pointer); ok {
			t = p.Elem()
		}
		st := t.Underlying().(*types.Struct)
		path = append(path, st.Field(i))
		t = st.Field(i).Type()
	}
	var lp []string
	if len(path) > 0 {
		lp = f.leanPath(call, path)
	}
	recvNamed := callee.Type().(*types.Signature).Recv().Type().(*types.Pointer).Elem().(*types.Named)
	src, ok := f.g.funcs[callee]
	if !ok {
		f.fail(call, "call of %s: no source", callee.FullName())
	}
	sig := callee.Type().(*types.Signature)
	nres := sig.Results().Len()
	if nres == 0 || sig.Results().At(nres-1).Type().String() != "error" {
		f.fail(call, "call of %s: last result is not an error", callee.FullName())
	}
	var res []Kind
	for i := 0; i < nres-1; i++ {
		k, _, ok := f.kindOfType(sig.Results().At(i).Type())
		if !ok {
			f.fail(call, "call of %s: result type", callee.FullName())
		}
		res = append(res, k)
	}
	var args []string
	for i, a := range call.Args {
		if isDecodeFeedback(sig.Params().At(i).Type()) {
			continue
		}
		v := f.expr(a)
		if v.K == KStruct {
			f.fail(call, "struct argument")
		}
		args = append(args, paren(argTerm(f, v, sig.Params().At(i).Type())))
	}
	name := leanTypeName(recvNamed) + "." + callee.Name()
	if _, done := f.g.defs[name]; !done {
		if f.g.inProgress[name] {
			f.fail(call, "recursive call of %s", callee.FullName())
		}
		f.g.inProgress[name] = true
		f.g.useField(recvNamed, "")
		var h *fn
		var pdecl []string
		withFuelRetry(func(fuel bool) {
			h = f.g.newFn(src, recvNamed)
			h.fuel = fuel
			if h.recvObj == nil {
				f.fail(call, "call of %s: unnamed receiver", callee.FullName())
			}
			ps := h.bindParams(src.decl.Type.Params.List)
			pdecl = nil
			for _, p := range ps {
				for _, v := range h.vars {
					if v.S == p {
						pdecl = append(pdecl, fmt.Sprintf("(%s : %s)", p, leanKindType(v.K)))
					}
				}
			}
			h.results = res
			func() {
				defer func() {
					if r := recover(); r != nil {
						if gu, ok := r.(giveUp); ok {
							panic(giveUp{fmt.Sprintf("%s (in %s)", gu.msg, callee.FullName())})
						}
						panic(r)
					}
				}()
				h.block(src.decl.Body.List, 1, nil)
			}()
		})
		rt := leanTypeName(recvNamed)
		if len(res) > 0 {
			parts := []string{rt}
			for _, k := range res {
				// an int result may be ℕ on one return and ℤ on another: results are coerced to the declared kind
				parts = append(parts, leanKindType(k))
			}
			rt = "(" + strings.Join(parts, " × ") + ")"
		}
		pos := src.pkg.Fset.Position(src.decl.Pos())
		text := fmt.Sprintf("/-- translated from `%s` (%s) -/\ndef %s (r : %s) %s : %s %s := do\n%s\n", callee.FullName(), shortFile(pos.Filename),
			name, leanTypeName(recvNamed), strings.Join(pdecl, " "), h.M(), rt, strings.Join(h.lines, "\n"))
		f.g.defs[name] = text
		f.g.defOrder = append(f.g.defOrder, name)
		f.g.defMonad[name] = h.M()
		delete(f.g.inProgress, name)
	}
	return name, lp, args, res
}

// methodCall: `lhs… , err := recv.M(args)` with the error propagated by the statement that follows
func (f *fn) methodCall(call *ast.CallExpr, lhs []ast.Expr, define bool) {
	name, lp, args, res := f.prepareMethodCall(call)
	if len(lhs) != len(res) {
		f.fail(call, "result count of %s", name)
	}
	recv := "r"
	if len(lp) > 0 {
		recv = "r." + strings.Join(lp, ".")
	}
	t := f.tmp()
	term := fmt.Sprintf("%s %s %s", name, recv, strings.Join(args, " "))
	if f.g.defMonad[name] == "RF" {
		f.requireFuel()
	} else if f.fuel {
		term = f.lift(term)
	}
	f.w("let %s ← %s", t, term)
	newRecv := t
	if len(res) > 0 {
		newRecv = t + ".1"
	}
	if len(lp) > 0 {
		f.w("let r := %s", nestedUpdate("r", lp, newRecv))
	} else {
		f.w("let r := %s", newRecv)
	}
	for i, l := range lhs {
		id, ok := l.(*ast.Ident)
		if !ok {
			f.fail(call, "result stored into a non-variable")
		}
		if id.Name == "_" {
			continue
		}
		obj := f.info.Defs[id]
		if obj == nil {
			obj = f.info.Uses[id]
		}
		proj := t + ".2"
		if len(res) > 1 {
			proj = t + ".2" + strings.Repeat(".2", i)
			if i < len(res)-1 {
				proj += ".1"
			}
		}
		n := f.nameOf(obj)
		f.w("let %s : %s := %s", n, leanKindType(res[i]), proj)
		f.vars[obj] = Val{S: n, K: res[i], N: -1}
	}
	_ = token.DEFINE
}
