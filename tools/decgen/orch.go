package main

// orchgen (decgen -orch): translate the ORCHESTRATION functions of the module — functions that talk to the BMC through
// `s.SendCommand(ctx, cmd)` (+ `ValidateResponse`) several times, in loops — from the Go source (go/ast + go/types) into
// Lean 4 definitions over the state monad of Bmc/Basic/GoOrch.lean. The language is described in DESIGN.md §2.2 (T2e):
//
//   * `ValidateResponse(s.SendCommand(ctx, cmd))` is an application of a PARAMETER `send_<Cmd>` (the BMC's answer function
//     for that command type) to the request part of the command struct; the response part of the struct is replaced by the
//     answer (also when an error is reported);
//   * the command struct behind the pointer given to SendCommand is the CELL of the function's state (a pointer parameter,
//     a local `cmd := &T{…}`, or a local value whose address is passed);
//   * `for` loops run with FUEL (a parameter of the definition), `break` / `continue` / `return` inside loops are the
//     outcomes `Step.brk` / `Step.next` / `Ctl.ret` of the loop body; `range` over a slice is a fold without fuel;
//   * Go maps used as sets / small dictionaries are association lists in insertion order;
//   * functions of the module that are called are translated into their own definitions; byte parsers already translated
//     by decgen (`parseCipherSuiteRecordData`) are referred to in Gen/Dec.lean.
//
// usage: decgen -orch <repo-dir> > lean/Bmc/Gen/Orch.lean
//
// The translator never guesses: anything outside its language makes it give up on the whole function (`gaveUp`).

import (
	"fmt"
	"go/ast"
	"go/constant"
	"go/token"
	"go/types"
	"os"
	"sort"
	"strings"
)

// orchTargets: the functions to translate (package path, receiver type or "", name), in the order of the output
var orchTargets = [][3]string{
	{"github.com/gebn/bmc/pkg/dcmi", "", "getEntityInstances"},
	{"github.com/gebn/bmc/pkg/dcmi", "", "getSensorMap"},
	{"github.com/gebn/bmc/pkg/dcmi", "sensorMap", "CountRecordIDs"},
	{"github.com/gebn/bmc/pkg/dcmi", "", "GetSensorInfo"},
	{"github.com/gebn/bmc", "", "RetrieveSupportedCipherSuites"},
	{"github.com/gebn/bmc", "V2SessionlessTransport", "determineCipherSuite"},
	{"github.com/gebn/bmc", "", "walkSDRs"},
	{"github.com/gebn/bmc", "", "RetrieveSDRRepository"},
}

// decgenFuncs: byte parsers translated by decgen that orchestration functions call (full name -> Lean name in Gen/Dec.lean)
var decgenFuncs = map[string]string{
	"github.com/gebn/bmc.parseCipherSuiteRecordData": "Dec.bmc_parseCipherSuiteRecordData",
}

type okind int

const (
	oU8 okind = iota
	oU16
	oU32
	oNat
	oBool
	oBytes
	oList
	oMap
	oStruct
	oUnit
	oOpt  // a pointer to a map / slice, or an interface value that is nil or one known layer: Option
	oTime // a time.Time: the seconds it denotes (times are only compared)
	oExt  // a value described by a type of another generated module (Gen/Keys.lean: a hash.Hash the module builds, …)
)

// otype: the Lean type of a Go value
type otype struct {
	k     okind
	elem  *otype       // oList: element, oMap: value
	key   *otype       // oMap
	named *types.Named // oStruct
	sh    bool         // oStruct declared in Gen/Dec.lean
	ext   string       // oExt: the Lean type
}

func (t *otype) lean() string {
	switch t.k {
	case oU8:
		return "UInt8"
	case oU16:
		return "UInt16"
	case oU32:
		return "UInt32"
	case oNat:
		return "Nat"
	case oBool:
		return "Bool"
	case oBytes:
		return "Bytes"
	case oUnit:
		return "Unit"
	case oList:
		return "List " + paren(t.elem.lean())
	case oOpt:
		return "Option " + paren(t.elem.lean())
	case oTime:
		return "Int"
	case oExt:
		return t.ext
	case oMap:
		return "List (" + t.key.lean() + " × " + t.elem.lean() + ")"
	case oStruct:
		if t.sh {
			return "Dec." + t.named.Obj().Name()
		}
		return t.named.Obj().Name()
	}
	return "?"
}

func (t *otype) zero() string {
	switch t.k {
	case oU8, oU16, oU32:
		return fmt.Sprintf("(0 : %s)", t.lean())
	case oNat:
		return "0"
	case oBool:
		return "false"
	case oUnit:
		return "()"
	case oBytes:
		return "([] : Bytes)"
	case oOpt:
		return fmt.Sprintf("(none : %s)", t.lean())
	case oTime:
		return "(0 : Int)"
	case oList, oMap:
		return fmt.Sprintf("([] : %s)", t.lean())
	case oStruct:
		return fmt.Sprintf("({} : %s)", t.lean())
	}
	return "?"
}

func (t *otype) same(u *otype) bool { return t.lean() == u.lean() }

// cmdInfo: a command struct (a struct whose pointer has Request() / Response() methods returning the address of a field)
type cmdInfo struct {
	named    *types.Named
	reqField string // Go field names
	rspField string // "" when Response() returns nil
	reqT     *otype
	rspT     *otype // oUnit when there is no response struct
}

func (c *cmdInfo) sendName() string { return "send_" + c.named.Obj().Name() }

type oparam struct{ name, typ, doc string }

// ofnInfo: a translated function
type ofnInfo struct {
	name    string
	track   bool // hs.go: the result is `Except String T`
	pure    bool
	cell    *cmdInfo // the cell of the function's state (a pointer parameter), nil when it has none (or allocates its own)
	needs   map[string]oparam
	results []*otype
	params  []string // Lean types of the value parameters (for documentation)
}

type ogen struct {
	g          *gen
	structs    map[*types.Named][]string // Lean structures to declare: Go field names included
	structSeen []*types.Named
	shared     map[string]map[string]bool // structures of Gen/Dec.lean (by Go type name): Lean field names present
	defs       map[string]string
	defOrder   []string
	fns        map[*types.Func]*ofnInfo
	inProgress map[*types.Func]bool
	cmds       map[*types.Named]*cmdInfo
	reach      map[*ast.FuncDecl]bool
	pkgVars    map[*types.Var]string
	baseUse    map[*types.Named]map[string]bool // BaseLayer.Contents / BaseLayer.Payload used
	layerDec   map[*types.Named]string          // layer types of the NewPacket idiom: their decoder in Gen/Dec.lean

	// session establishment (hs.go)
	hs        bool                               // mode -hs
	phaseHs   bool                               // the targets of hs.go are being translated (their extra checks apply)
	partial   map[*types.Named]bool              // structures with fields outside the language: only the fields used are declared
	fieldOver map[*types.Named]map[string]*otype // interface-typed fields of such structures: the Lean type of what is stored there
	hsTrack   map[*types.Func]bool               // targets whose directly returned sentinel errors are told apart
	escaped   map[*types.Named]map[string]bool   // fields of partial structures whose address was handed to gopacket: never modelled
}

func (og *ogen) reset() {
	og.structs = map[*types.Named][]string{}
	og.structSeen = nil
	og.defs = map[string]string{}
	og.defOrder = nil
	og.fns = map[*types.Func]*ofnInfo{}
	og.inProgress = map[*types.Func]bool{}
	og.cmds = map[*types.Named]*cmdInfo{}
	og.pkgVars = map[*types.Var]string{}
	og.baseUse = map[*types.Named]map[string]bool{}
	og.partial = map[*types.Named]bool{}
	og.fieldOver = map[*types.Named]map[string]*otype{}
	og.escaped = map[*types.Named]map[string]bool{}
}

// orchOut: what one run of the translator produced
type orchOut struct {
	structNames []string          // Lean structures, in the order of the output
	structText  map[string]string // their declarations
	defNames    []string
	defText     map[string]string
	translated  []string // per target list
	gaveUp      []string
	comments    []string
}

func orchMain(g *gen) {
	o := orchCollect(g, false)
	var out strings.Builder
	out.WriteString("-- GENERATED by orchgen (decgen -orch) from the Go sources; do not edit.\n")
	out.WriteString("-- Every definition is a function of what the BMC answers to each request, in order: `send_<Cmd>` parameters are the\n")
	out.WriteString("-- answer functions (state, request struct ↦ new state, response struct afterwards, error is nil), threaded through\n")
	out.WriteString("-- the state monad `GoOrch.M`; the command struct behind the pointer given to SendCommand is the CELL of the state.\n")
	out.WriteString("-- `for` loops run with the parameter `fuel` (`RF.outOfFuel` beyond it). Go `int` is ℕ (values are lengths, counts and\n")
	out.WriteString("-- conversions of unsigned fields; no wrap-around at 2^63); Go maps are association lists in insertion order (the\n")
	out.WriteString("-- iteration order of a map is only used for a commutative sum); a pointer to a struct is the struct's value.\n")
	out.WriteString("import Bmc.Basic.GoOrch\nimport Bmc.Gen.Dec\nnamespace Bmc.Gen.Orch\nopen Bmc Bmc.GoOrch\n\n")
	for _, c := range o.comments {
		out.WriteString(c + "\n")
	}
	out.WriteString("\n")
	for _, n := range o.structNames {
		out.WriteString(o.structText[n])
	}
	for _, n := range o.defNames {
		out.WriteString(o.defText[n])
		out.WriteString("\n")
	}
	out.WriteString("def translated : List String := [" + quoteJoin(o.translated) + "]\n")
	out.WriteString("def gaveUp : List String := [" + quoteJoin(o.gaveUp) + "]\n")
	out.WriteString("\nend Bmc.Gen.Orch\n")
	fmt.Print(out.String())
}

// orchRun (hs): the targets of hs.go on top of those of -orch; prints only what they add (Gen/Hs.lean imports Gen/Orch.lean)
func orchRun(g *gen, hs bool) string {
	base := orchCollect(g, false)
	full := orchCollect(g, true)
	if os.Getenv("HSGEN_DEBUG") != "" {
		for _, c := range full.comments {
			fmt.Fprintln(os.Stderr, c)
		}
	}
	for _, n := range base.structNames {
		if full.structText[n] != base.structText[n] {
			fmt.Fprintf(os.Stderr, "hsgen: internal: the -hs run declares the structure %s of -orch differently\n%s\n%s\n", n, base.structText[n], full.structText[n])
			os.Exit(2)
		}
	}
	for _, n := range base.defNames {
		if full.defText[n] != base.defText[n] {
			fmt.Fprintf(os.Stderr, "hsgen: internal: the -hs run translates %s of -orch differently\n", n)
			os.Exit(2)
		}
	}
	var out strings.Builder
	out.WriteString(hsHeader())
	for _, c := range full.comments[len(base.comments):] {
		out.WriteString(c + "\n")
	}
	out.WriteString("\n")
	for _, n := range full.structNames {
		if _, inBase := base.structText[n]; !inBase {
			out.WriteString(full.structText[n])
		}
	}
	for _, n := range full.defNames {
		if _, inBase := base.defText[n]; !inBase {
			out.WriteString(full.defText[n])
			out.WriteString("\n")
		}
	}
	out.WriteString("def translated : List String := [" + quoteJoin(full.translated[len(base.translated):]) + "]\n")
	out.WriteString("def gaveUp : List String := [" + quoteJoin(full.gaveUp[len(base.gaveUp):]) + "]\n")
	out.WriteString("\nend Bmc.Gen.Hs\n")
	return out.String()
}

func orchCollect(g *gen, hs bool) *orchOut {
	og := &ogen{g: g, shared: map[string]map[string]bool{}, hs: hs, hsTrack: map[*types.Func]bool{}}
	// the structures Gen/Dec.lean declares for the byte parsers orchestration functions call: run decgen's translation
	for full := range decgenFuncs {
		var l *layer
		for fn, src := range g.funcs {
			if fn.FullName() == full {
				l = &layer{fn.Pkg().Name(), nil, fn, src, true}
			}
		}
		if l == nil {
			continue
		}
		g.reset()
		if _, reason := g.translateLayer(*l); reason != "" {
			delete(decgenFuncs, full) // decgen gave up on it: calls of it are outside the language
			continue
		}
		closeStructUse(g)
		for nt, fields := range g.structUse {
			m := map[string]bool{}
			for fl := range fields {
				if strings.HasPrefix(fl, "BaseLayer.") {
					fl = fl[len("BaseLayer."):]
				}
				m[leanField(fl)] = true
			}
			og.shared[nt.Obj().Pkg().Path()+"."+nt.Obj().Name()] = m
		}
	}
	g.reset()

	type target struct {
		fn   *types.Func
		name string
		hs   bool
	}
	var targets []target
	for _, fn := range findTargets(g, orchTargets, "orchgen") {
		targets = append(targets, target{fn, orchDisplayName(fn), false})
	}
	if hs {
		for _, fn := range findTargets(g, hsTargets, "hsgen") {
			targets = append(targets, target{fn, orchDisplayName(fn), true})
			og.hsTrack[fn] = true
		}
	}
	// the functions reachable from the targets by static calls inside the module (for the read-only check of package-level tables)
	og.reach = map[*ast.FuncDecl]bool{}
	var visit func(fn *types.Func)
	visit = func(fn *types.Func) {
		src, ok := g.funcs[fn]
		if !ok || og.reach[src.decl] {
			return
		}
		og.reach[src.decl] = true
		ast.Inspect(src.decl.Body, func(n ast.Node) bool {
			if c, ok := n.(*ast.CallExpr); ok {
				if callee := staticCallee(src.pkg.TypesInfo, c); callee != nil {
					visit(callee)
				}
			}
			return true
		})
	}
	for _, t := range targets {
		if !t.hs {
			visit(t.fn)
		}
	}

	// the layer types handed to `gopacket.NewPacket` in those functions: their structures and decoders are Gen/Dec.lean's
	og.layerDec = map[*types.Named]string{}
	layers := findLayers(g)
	for decl := range og.reach {
		var src funcSrc
		for _, fs := range g.funcs {
			if fs.decl == decl {
				src = fs
			}
		}
		ast.Inspect(decl.Body, func(n ast.Node) bool {
			c, ok := n.(*ast.CallExpr)
			if !ok || fullName(staticCallee(src.pkg.TypesInfo, c)) != "github.com/google/gopacket.NewPacket" || len(c.Args) != 3 {
				return true
			}
			nt := og.layerOfType(src.pkg.TypesInfo, c.Args[1])
			if nt == nil || og.layerDec[nt] != "" {
				return true
			}
			for _, l := range layers {
				if l.typ != nt {
					continue
				}
				g.reset()
				text, reason := g.translateLayer(l)
				if reason != "" || strings.Contains(text, "PARAMETER") {
					continue
				}
				closeStructUse(g)
				for st, fields := range g.structUse {
					m := map[string]bool{}
					for fl := range fields {
						if strings.HasPrefix(fl, "BaseLayer.") {
							fl = fl[len("BaseLayer."):]
						}
						m[leanField(fl)] = true
					}
					og.shared[st.Obj().Pkg().Path()+"."+st.Obj().Name()] = m
				}
				og.layerDec[nt] = "Dec." + nt.Obj().Name() + ".decodeGo"
			}
			return true
		})
	}
	g.reset()

	// round 1: which targets are inside the language
	reasons := map[string]string{}
	for _, t := range targets {
		og.reset()
		og.phaseHs = t.hs
		_, reason := og.translateTarget(t.fn)
		reasons[t.name] = reason
	}
	// round 2: only the translatable ones contribute structures and definitions
	og.reset()
	o := &orchOut{structText: map[string]string{}, defText: map[string]string{}}
	tool := "orchgen"
	for _, t := range targets {
		og.phaseHs = t.hs
		if t.hs {
			tool = "hsgen"
		}
		if reasons[t.name] != "" {
			o.gaveUp = append(o.gaveUp, t.name)
			o.comments = append(o.comments, fmt.Sprintf("-- %s: gave up on %s: %s", tool, t.name, reasons[t.name]))
			continue
		}
		if _, reason := og.translateTarget(t.fn); reason != "" {
			fmt.Fprintln(os.Stderr, tool+": internal: second round failed for", t.name, reason)
			os.Exit(2)
		}
		o.translated = append(o.translated, t.name)
	}
	o.structNames, o.structText = og.structDecls()
	for _, n := range og.defOrder {
		o.defNames = append(o.defNames, n)
		o.defText[n] = og.defs[n]
	}
	return o
}

// closeStructUse: decgen's structDecls adds the structures nested in used fields; reproduce that closure
func closeStructUse(g *gen) {
	for changed := true; changed; {
		changed = false
		for _, t := range append([]*types.Named{}, g.structSeen...) {
			st, ok := t.Underlying().(*types.Struct)
			if !ok {
				continue
			}
			for i := 0; i < st.NumFields(); i++ {
				fl := st.Field(i)
				if g.structUse[t][fl.Name()] {
					if n, ok := fl.Type().(*types.Named); ok {
						if _, isS := n.Underlying().(*types.Struct); isS && !isTime(n) && !isBaseLayer(n) {
							if _, seen := g.structUse[n]; !seen {
								g.useField(n, "")
								changed = true
							}
						}
					}
				}
			}
		}
	}
}

func orchDisplayName(fn *types.Func) string {
	sig := fn.Type().(*types.Signature)
	if sig.Recv() != nil {
		rt := sig.Recv().Type()
		if p, ok := rt.(*types.Pointer); ok {
			rt = p.Elem()
		}
		if n, ok := rt.(*types.Named); ok {
			return fn.Pkg().Name() + "." + n.Obj().Name() + "." + fn.Name()
		}
	}
	return fn.Pkg().Name() + "." + fn.Name()
}

func orchLeanName(fn *types.Func) string {
	return strings.ReplaceAll(orchDisplayName(fn), ".", "_")
}

func staticCallee(info *types.Info, c *ast.CallExpr) *types.Func {
	switch fun := c.Fun.(type) {
	case *ast.Ident:
		fnObj, _ := info.Uses[fun].(*types.Func)
		return fnObj
	case *ast.SelectorExpr:
		if sel := info.Selections[fun]; sel != nil {
			if sel.Kind() == types.MethodVal {
				if _, isIface := sel.Recv().Underlying().(*types.Interface); isIface {
					return nil
				}
				fnObj, _ := sel.Obj().(*types.Func)
				return fnObj
			}
			return nil
		}
		fnObj, _ := info.Uses[fun.Sel].(*types.Func)
		return fnObj
	}
	return nil
}

func (og *ogen) translateTarget(fn *types.Func) (info *ofnInfo, reason string) {
	defer func() {
		if r := recover(); r != nil {
			if gu, ok := r.(giveUp); ok {
				info, reason = nil, gu.msg
				return
			}
			panic(r)
		}
	}()
	return og.function(fn, nil), ""
}

// ---- types ----------------------------------------------------------------------------------------------------------

func (og *ogen) typeOf(t types.Type) (*otype, bool) {
	if ext := og.extType(t); ext != nil {
		return ext, true
	}
	if p, ok := t.(*types.Pointer); ok {
		// a pointer to a structure is the structure's value (aliasing through it is outside the language: the translator
		// accepts a pointer only where it is created and handed on — a command for SendCommand, a result)
		if n, ok := p.Elem().(*types.Named); ok {
			if _, isS := n.Underlying().(*types.Struct); isS {
				return og.typeOf(n)
			}
		}
		// a pointer to a named map / slice type (`*SDRRepository`): nil or the address of a value
		if n, ok := p.Elem().(*types.Named); ok {
			switch n.Underlying().(type) {
			case *types.Map, *types.Slice:
				if e, ok := og.typeOf(n); ok {
					return &otype{k: oOpt, elem: e}, true
				}
			}
		}
		return nil, false
	}
	if isTime(t) {
		return &otype{k: oTime}, true
	}
	if n, ok := t.(*types.Named); ok && n.Obj().Pkg() != nil && n.Obj().Pkg().Path() == "bytes" && n.Obj().Name() == "Buffer" {
		return &otype{k: oBytes}, true // a bytes.Buffer that is only written to and read in full: the bytes written so far
	}
	switch u := t.Underlying().(type) {
	case *types.Basic:
		switch u.Kind() {
		case types.Uint8:
			return &otype{k: oU8}, true
		case types.Uint16:
			return &otype{k: oU16}, true
		case types.Uint32:
			return &otype{k: oU32}, true
		case types.Int, types.UntypedInt:
			return &otype{k: oNat}, true
		case types.Bool, types.UntypedBool:
			return &otype{k: oBool}, true
		case types.String:
			if og.hs {
				return &otype{k: oBytes}, true // a Go string is its bytes (len = the byte count)
			}
		}
	case *types.Slice:
		if isPlainByte(u.Elem()) {
			return &otype{k: oBytes}, true
		}
		if e, ok := og.typeOf(u.Elem()); ok {
			return &otype{k: oList, elem: e}, true
		}
	case *types.Array:
		if isByte(u.Elem()) {
			return &otype{k: oBytes}, true
		}
	case *types.Map:
		k, ok1 := og.typeOf(u.Key())
		v, ok2 := og.typeOf(u.Elem())
		if ok1 && ok2 {
			switch k.k {
			case oU8, oU16, oU32, oNat, oStruct:
				return &otype{k: oMap, key: k, elem: v}, true
			}
		}
	case *types.Struct:
		if u.NumFields() == 0 {
			return &otype{k: oUnit}, true // struct{}
		}
		n, ok := t.(*types.Named)
		if !ok || isTime(n) || isBaseLayer(n) {
			return nil, false
		}
		if _, sh := og.shared[n.Obj().Pkg().Path()+"."+n.Obj().Name()]; sh {
			return &otype{k: oStruct, named: n, sh: true}, true
		}
		og.useStruct(n)
		return &otype{k: oStruct, named: n}, true
	}
	return nil, false
}

// useStruct: declare the Lean structure of a Go struct: every field whose type is inside the language (BaseLayer, times,
// interfaces, functions … are left out; a use of such a field makes the translator give up). A structure that has fields
// outside the language whose types are not structures themselves (hs.go: isPartial — `bmc.V2Session`) is a PARTIAL view: only
// the fields the translated code sets or reads are declared (hasField records them).
func (og *ogen) useStruct(n *types.Named) {
	if _, done := og.structs[n]; done {
		return
	}
	og.structs[n] = nil
	if og.hs && og.isPartial(n) {
		og.partial[n] = true
		og.structSeen = append(og.structSeen, n)
		return
	}
	st := n.Underlying().(*types.Struct)
	var fields []string
	for i := 0; i < st.NumFields(); i++ {
		fl := st.Field(i)
		if isBaseLayer(fl.Type()) {
			continue
		}
		if _, ok := og.typeOf(fl.Type()); ok {
			fields = append(fields, fl.Name())
		}
	}
	og.structs[n] = fields
	og.structSeen = append(og.structSeen, n)
}

func (og *ogen) hasField(n *types.Named, goField string) bool {
	if m, sh := og.shared[n.Obj().Pkg().Path()+"."+n.Obj().Name()]; sh {
		return m[leanField(goField)]
	}
	og.useStruct(n)
	for _, f := range og.structs[n] {
		if f == goField {
			return true
		}
	}
	if og.partial[n] {
		st := n.Underlying().(*types.Struct)
		for i := 0; i < st.NumFields(); i++ {
			fl := st.Field(i)
			if fl.Name() != goField || isBaseLayer(fl.Type()) || og.escaped[n][goField] {
				continue
			}
			if _, over := og.fieldOver[n][goField]; !over {
				if _, ok := og.typeOf(fl.Type()); !ok {
					return false
				}
			}
			og.structs[n] = append(og.structs[n], goField)
			return true
		}
	}
	return false
}

// fieldName: the Lean name of a field of a structure declared here: leanField, with `_` appended to an unexported field
// whose name collides with an exported one (`V2Session.IntegrityAlgorithm` / `V2Session.integrityAlgorithm`)
func (og *ogen) fieldName(n *types.Named, goField string) string {
	lf := leanField(goField)
	if n == nil || goField == "" || (goField[0] >= 'A' && goField[0] <= 'Z') {
		return lf
	}
	if st, ok := n.Underlying().(*types.Struct); ok {
		for i := 0; i < st.NumFields(); i++ {
			if o := st.Field(i).Name(); o != goField && leanField(o) == lf {
				return lf + "_"
			}
		}
	}
	return lf
}

// fieldOType: the Lean type of a field of a structure declared here
func (og *ogen) fieldOType(n *types.Named, fl *types.Var) (*otype, bool) {
	if t, over := og.fieldOver[n][fl.Name()]; over {
		return t, true
	}
	return og.typeOf(fl.Type())
}

func (og *ogen) structDecls() ([]string, map[string]string) {
	// nested structures first; otherwise in order of first use
	var order []*types.Named
	done := map[*types.Named]bool{}
	var visit func(t *types.Named)
	visit = func(t *types.Named) {
		if done[t] {
			return
		}
		done[t] = true
		st := t.Underlying().(*types.Struct)
		for _, fn := range og.structs[t] {
			for i := 0; i < st.NumFields(); i++ {
				if st.Field(i).Name() == fn {
					if ov, over := og.fieldOver[t][fn]; over {
						if ov.k == oStruct && !ov.sh {
							visit(ov.named)
						}
						continue
					}
					og.visitFieldStructs(st.Field(i).Type(), visit)
				}
			}
		}
		order = append(order, t)
	}
	for _, t := range og.structSeen {
		visit(t)
	}
	var names []string
	texts := map[string]string{}
	for _, t := range order {
		var b strings.Builder
		st := t.Underlying().(*types.Struct)
		what := "the fields whose types are inside the language"
		if og.partial[t] {
			what = "a PARTIAL view: the fields the translated code sets or reads"
		}
		fmt.Fprintf(&b, "/-- `%s.%s` (%s) -/\nstructure %s where\n", t.Obj().Pkg().Name(), t.Obj().Name(), what, t.Obj().Name())
		n := 0
		for _, sub := range []string{"Contents", "Payload"} {
			if og.baseUse[t][sub] {
				fmt.Fprintf(&b, "  %s : Bytes := []\n", leanField(sub))
				n++
			}
		}
		for i := 0; i < st.NumFields(); i++ {
			for _, fn := range og.structs[t] {
				if st.Field(i).Name() == fn {
					ft, _ := og.fieldOType(t, st.Field(i))
					zero := ft.zero()
					if ft.k == oStruct {
						zero = "{}"
					}
					if ft.k == oList || ft.k == oMap || ft.k == oBytes {
						zero = "[]"
					}
					if at, ok := st.Field(i).Type().Underlying().(*types.Array); ok && ft.k == oBytes {
						zero = fmt.Sprintf("List.replicate %d 0", at.Len())
					}
					if ft.k == oU8 || ft.k == oU16 || ft.k == oU32 || ft.k == oTime {
						zero = "0"
					}
					if ft.k == oOpt {
						zero = "none"
					}
					if ft.k == oExt || (ft.k == oStruct && og.noDefault(ft.named)) {
						fmt.Fprintf(&b, "  %s : %s\n", og.fieldName(t, fn), ft.lean()) // a nil interface value has no description
					} else {
						fmt.Fprintf(&b, "  %s : %s := %s\n", og.fieldName(t, fn), ft.lean(), zero)
					}
					n++
				}
			}
		}
		if n == 0 {
			b.WriteString("  mk ::\n")
		}
		b.WriteString("  deriving Repr, DecidableEq\n\n")
		if _, dup := texts[t.Obj().Name()]; dup {
			panic(giveUp{fmt.Sprintf("two structures named %s", t.Obj().Name())})
		}
		names = append(names, t.Obj().Name())
		texts[t.Obj().Name()] = b.String()
	}
	return names, texts
}

func (og *ogen) visitFieldStructs(t types.Type, visit func(*types.Named)) {
	ft, ok := og.typeOf(t)
	if !ok {
		return
	}
	var walk func(x *otype)
	walk = func(x *otype) {
		if x == nil {
			return
		}
		if x.k == oStruct && !x.sh {
			visit(x.named)
		}
		walk(x.elem)
		walk(x.key)
	}
	walk(ft)
}

// layerOfType: e names a package-level `LayerTypeX = gopacket.RegisterLayerType(n, gopacket.LayerTypeMetadata{…, Decoder:
// layerexts.BuildDecoder(func() … { return &T{} })})`: the layer struct T the registered decoder decodes into
func (og *ogen) layerOfType(info *types.Info, e ast.Expr) *types.Named {
	var obj types.Object
	switch x := e.(type) {
	case *ast.Ident:
		obj = info.Uses[x]
	case *ast.SelectorExpr:
		obj = info.Uses[x.Sel]
	}
	v, ok := obj.(*types.Var)
	if !ok || v.Pkg() == nil || v.Parent() != v.Pkg().Scope() {
		return nil
	}
	src, ok := og.g.varInits[v]
	if why := og.varWritten(v); !ok || (why != "" && !strings.Contains(why, "used as a whole")) {
		return nil
	}
	reg, ok := src.init.(*ast.CallExpr)
	if !ok || fullName(staticCallee(src.pkg.TypesInfo, reg)) != "github.com/google/gopacket.RegisterLayerType" || len(reg.Args) != 2 {
		return nil
	}
	meta, ok := reg.Args[1].(*ast.CompositeLit)
	if !ok {
		return nil
	}
	var found *types.Named
	for _, el := range meta.Elts {
		kv, ok := el.(*ast.KeyValueExpr)
		if !ok {
			return nil
		}
		if kid, ok := kv.Key.(*ast.Ident); !ok || kid.Name != "Decoder" {
			continue
		}
		bd, ok := kv.Value.(*ast.CallExpr)
		if !ok || fullName(staticCallee(src.pkg.TypesInfo, bd)) != "github.com/gebn/bmc/pkg/layerexts.BuildDecoder" || len(bd.Args) != 1 {
			return nil
		}
		fl, ok := bd.Args[0].(*ast.FuncLit)
		if !ok || len(fl.Body.List) != 1 {
			return nil
		}
		ret, ok := fl.Body.List[0].(*ast.ReturnStmt)
		if !ok || len(ret.Results) != 1 {
			return nil
		}
		u, ok := ret.Results[0].(*ast.UnaryExpr)
		if !ok || u.Op != token.AND {
			return nil
		}
		cl, ok := u.X.(*ast.CompositeLit)
		if !ok || len(cl.Elts) != 0 {
			return nil
		}
		found, _ = src.pkg.TypesInfo.TypeOf(cl).(*types.Named)
	}
	return found
}

// ---- command structs ------------------------------------------------------------------------------------------------

// cmdOf: t (or *t) is a command struct: its pointer type has methods `Request()` / `Response()` whose bodies are
// `return &recv.Field` (or `return nil`)
func (og *ogen) cmdOf(t types.Type) *cmdInfo {
	if p, ok := t.(*types.Pointer); ok {
		t = p.Elem()
	}
	n, ok := t.(*types.Named)
	if !ok {
		return nil
	}
	if ci, done := og.cmds[n]; done {
		return ci
	}
	if _, isS := n.Underlying().(*types.Struct); !isS {
		return nil
	}
	field := func(method string) (string, bool) {
		for i := 0; i < n.NumMethods(); i++ {
			m := n.Method(i)
			if m.Name() != method {
				continue
			}
			src, ok := og.g.funcs[m]
			if !ok || src.decl.Recv == nil || len(src.decl.Body.List) != 1 {
				return "", false
			}
			ret, ok := src.decl.Body.List[0].(*ast.ReturnStmt)
			if !ok || len(ret.Results) != 1 {
				return "", false
			}
			if isNilIdent(ret.Results[0]) {
				return "", true
			}
			u, ok := ret.Results[0].(*ast.UnaryExpr)
			if !ok || u.Op != token.AND {
				return "", false
			}
			se, ok := u.X.(*ast.SelectorExpr)
			if !ok {
				return "", false
			}
			id, ok := se.X.(*ast.Ident)
			if !ok || len(src.decl.Recv.List) != 1 || len(src.decl.Recv.List[0].Names) != 1 ||
				src.pkg.TypesInfo.Uses[id] != src.pkg.TypesInfo.Defs[src.decl.Recv.List[0].Names[0]] {
				return "", false
			}
			return se.Sel.Name, true
		}
		return "", false
	}
	req, ok1 := field("Request")
	rsp, ok2 := field("Response")
	if !ok1 || !ok2 || req == "" {
		og.cmds[n] = nil
		return nil
	}
	st := n.Underlying().(*types.Struct)
	ci := &cmdInfo{named: n, reqField: req, rspField: rsp, rspT: &otype{k: oUnit}}
	for i := 0; i < st.NumFields(); i++ {
		if st.Field(i).Name() == req {
			ci.reqT, _ = og.typeOf(st.Field(i).Type())
		}
		if rsp != "" && st.Field(i).Name() == rsp {
			ci.rspT, _ = og.typeOf(st.Field(i).Type())
		}
	}
	if ci.reqT == nil || ci.rspT == nil || ci.reqT.k != oStruct {
		og.cmds[n] = nil
		return nil
	}
	og.cmds[n] = ci
	return ci
}

// ---- package-level tables -------------------------------------------------------------------------------------------

// pkgVar: a package-level variable used as a constant table: a slice / array / struct literal of constants (and of other
// such variables) that nothing in the module writes (no assignment to it, to an element or a field, no ++/--, no address
// taken), used as a whole only inside the functions reachable from the translated ones. (An exported variable could be
// assigned by a client of the library: that is outside the translation.)
func (og *ogen) pkgVar(f *ofn, n ast.Node, v *types.Var) oval {
	t, ok := og.typeOf(v.Type())
	if !ok {
		f.fail(n, "package-level variable %s of type %s", v.Name(), v.Type())
	}
	name := v.Pkg().Name() + "_" + v.Name()
	if _, done := og.pkgVars[v]; done {
		return oval{s: name, t: t}
	}
	src, ok := og.g.varInits[v]
	if !ok {
		f.fail(n, "package-level variable %s: no initialiser", v.Name())
	}
	if why := og.varWritten(v); why != "" {
		f.fail(n, "package-level variable %s is written or escapes (%s)", v.Name(), why)
	}
	h := &ofn{og: og, src: funcSrc{nil, src.pkg}, info: src.pkg.TypesInfo, names: map[types.Object]string{}, used: map[string]bool{}, vars: map[types.Object]*otype{}, constOnly: true}
	val := func() (s string) {
		defer func() {
			if r := recover(); r != nil {
				if gu, ok := r.(giveUp); ok {
					panic(giveUp{fmt.Sprintf("%s (in the initialiser of %s)", gu.msg, v.Name())})
				}
				panic(r)
			}
		}()
		return h.exprT(src.init, t).s
	}()
	pos := src.pkg.Fset.Position(src.init.Pos())
	og.pkgVars[v] = name
	og.defs[name] = fmt.Sprintf("/-- the package-level variable `%s.%s` (%s); nothing in the module writes it -/\ndef %s : %s := %s\n",
		v.Pkg().Name(), v.Name(), shortFile(pos.Filename), name, t.lean(), val)
	og.defOrder = append(og.defOrder, name)
	return oval{s: name, t: t}
}

// varWritten: "" when no function of the module writes v or takes an address inside it, and every use of v as a whole
// (not under `range`, `len`, an index or a field selection) is inside a function reachable from the translated ones
func (og *ogen) varWritten(v *types.Var) string {
	why := ""
	for _, p := range og.g.modPkgs {
		for _, file := range p.Syntax {
			if strings.HasSuffix(p.Fset.Position(file.Pos()).Filename, "_test.go") {
				continue
			}
			var stack []ast.Node
			var curFunc *ast.FuncDecl
			ast.Inspect(file, func(n ast.Node) bool {
				if n == nil {
					if _, ok := stack[len(stack)-1].(*ast.FuncDecl); ok {
						curFunc = nil
					}
					stack = stack[:len(stack)-1]
					return true
				}
				stack = append(stack, n)
				if fd, ok := n.(*ast.FuncDecl); ok {
					curFunc = fd
				}
				id, ok := n.(*ast.Ident)
				if !ok || p.TypesInfo.Uses[id] != v || why != "" {
					return true
				}
				pos := p.Fset.Position(id.Pos())
				at := fmt.Sprintf("%s:%d", shortFile(pos.Filename), pos.Line)
				// climb through pkg.v, v[i], v.F, (v)
				k := len(stack) - 1
				var cur ast.Node = id
				whole := true
			climb:
				for k > 0 {
					parent := stack[k-1]
					switch pn := parent.(type) {
					case *ast.SelectorExpr:
						if pn.Sel == cur {
							cur, k = pn, k-1
							continue
						}
						if pn.X == cur {
							cur, k, whole = pn, k-1, false
							continue
						}
					case *ast.IndexExpr:
						if pn.X == cur {
							cur, k, whole = pn, k-1, false
							continue
						}
					case *ast.ParenExpr:
						cur, k = pn, k-1
						continue
					}
					break climb
				}
				if k == 0 {
					return true
				}
				switch pn := stack[k-1].(type) {
				case *ast.AssignStmt:
					for _, l := range pn.Lhs {
						if l == cur {
							why = at + ": assigned"
						}
					}
				case *ast.IncDecStmt:
					why = at + ": incremented"
				case *ast.UnaryExpr:
					if pn.Op == token.AND {
						why = at + ": address taken"
					}
				case *ast.RangeStmt:
					if pn.X == cur {
						return true
					}
				case *ast.CallExpr:
					if fid, ok := pn.Fun.(*ast.Ident); ok && fid.Name == "len" {
						return true
					}
				}
				// (a use in the initialiser of another package-level variable is a read at start-up)
				if why == "" && whole && curFunc != nil && !og.reach[curFunc] {
					why = at + ": used as a whole outside the translated functions"
				}
				return true
			})
		}
	}
	return why
}

// errSentinel: a package-level variable of type error initialised by errors.New / fmt.Errorf and never assigned in the module
func (og *ogen) errSentinel(v *types.Var) bool {
	if v.Type().String() != "error" {
		return false
	}
	src, ok := og.g.varInits[v]
	if !ok {
		return false
	}
	call, ok := src.init.(*ast.CallExpr)
	if !ok {
		return false
	}
	callee := staticCallee(src.pkg.TypesInfo, call)
	if callee == nil || (callee.FullName() != "errors.New" && callee.FullName() != "fmt.Errorf") {
		return false
	}
	return og.varWritten(v) == "" || strings.Contains(og.varWritten(v), "used as a whole")
}

// constOf: the value of a constant expression of an integer / boolean type
func constOf(info *types.Info, e ast.Expr) (constant.Value, types.Type, bool) {
	if tv, ok := info.Types[e]; ok && tv.Value != nil {
		return tv.Value, tv.Type, true
	}
	return nil, nil, false
}

func sortedNeeds(m map[string]oparam) []oparam {
	var out []oparam
	for _, p := range m {
		out = append(out, p)
	}
	rank := func(n string) int {
		switch {
		case n == "fuel":
			return 0
		case strings.HasPrefix(n, "send_"):
			return 1
		case strings.HasPrefix(n, "call_"):
			return 2
		case n == "attempts":
			return 3
		}
		return 4
	}
	sort.Slice(out, func(i, j int) bool {
		if rank(out[i].name) != rank(out[j].name) {
			return rank(out[i].name) < rank(out[j].name)
		}
		return out[i].name < out[j].name
	})
	return out
}
