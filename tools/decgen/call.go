package main

import (
	"fmt"
	"go/ast"
	"go/constant"
	"go/types"
	"strings"
)

// calleeOf: the *types.Func a call expression invokes statically (nil for builtins, conversions, interface calls)
func (f *fn) calleeOf(c *ast.CallExpr) *types.Func {
	switch fun := c.Fun.(type) {
	case *ast.Ident:
		fnObj, _ := f.info.Uses[fun].(*types.Func)
		return fnObj
	case *ast.SelectorExpr:
		if sel := f.info.Selections[fun]; sel != nil {
			if sel.Kind() == types.MethodVal {
				if _, isIface := sel.Recv().Underlying().(*types.Interface); isIface {
					return nil
				}
				fnObj, _ := sel.Obj().(*types.Func)
				return fnObj
			}
			return nil
		}
		fnObj, _ := f.info.Uses[fun.Sel].(*types.Func) // pkg.Func
		return fnObj
	}
	return nil
}

func fullName(fnObj *types.Func) string {
	if fnObj == nil {
		return ""
	}
	return fnObj.FullName()
}

func (f *fn) call(c *ast.CallExpr) Val {
	// conversions
	if tv, ok := f.info.Types[c.Fun]; ok && tv.IsType() {
		return f.conversion(c, tv.Type)
	}
	if id, ok := c.Fun.(*ast.Ident); ok {
		if _, isBuiltin := f.info.Uses[id].(*types.Builtin); isBuiltin {
			switch id.Name {
			case "len":
				v := f.expr(c.Args[0])
				switch v.K {
				case KSlice:
					return Val{S: v.S + ".len", K: KNat, N: -1}
				case KList, KBytes:
					return Val{S: paren(v.S) + ".length", K: KNat, N: -1}
				}
				f.fail(c, "len of a value of unsupported kind")
			case "make":
				if ek, ok := listElem(f.info.TypeOf(c.Args[0])); ok && len(c.Args) == 2 {
					n, _ := f.natIndex(c.Args[1]) // a negative length is a panic
					return Val{S: fmt.Sprintf("(List.replicate %s (0 : %s))", paren(n), leanKindType(ek)), K: KList, E: ek, N: -1}
				}
				// make(T, 0, cap) with constant bounds 0 ≤ cap: no element (the capacity is not observable)
				if ek, ok := listElem(f.info.TypeOf(c.Args[0])); ok && len(c.Args) == 3 {
					l, ok1 := constInt(f.info, c.Args[1])
					cp, ok2 := constInt(f.info, c.Args[2])
					if ok1 && ok2 && l == 0 && cp >= 0 {
						return Val{S: fmt.Sprintf("([] : List %s)", leanKindType(ek)), K: KList, E: ek, N: -1}
					}
				}
				f.fail(c, "make of %s", f.info.TypeOf(c.Args[0]))
			case "append":
				if len(c.Args) == 2 && !c.Ellipsis.IsValid() {
					l := f.expr(c.Args[0])
					v := f.expr(c.Args[1])
					if l.K == KList && l.E == KStruct && v.K == KStruct && v.T == l.T {
						return Val{S: fmt.Sprintf("(%s ++ [%s])", paren(l.S), v.S), K: KList, E: KStruct, T: l.T, N: -1}
					}
					if l.K == KList && l.E != KStruct && (v.K == l.E || (l.E == KInt && v.K == KNat)) {
						return Val{S: fmt.Sprintf("(%s ++ [%s])", paren(l.S), f.coerce(c, v, l.E)), K: KList, E: l.E, N: -1}
					}
				}
				f.fail(c, "append form")
			}
			f.fail(c, "builtin %s in an expression", id.Name)
		}
	}
	callee := f.calleeOf(c)
	switch fullName(callee) {
	case "(encoding/binary.littleEndian).Uint16", "(encoding/binary.littleEndian).Uint32":
		need, k, name := 2, KU16, "le16"
		if strings.HasSuffix(callee.Name(), "32") {
			need, k, name = 4, KU32, "le32"
		}
		v := f.expr(c.Args[0])
		bytes := v.S
		switch v.K {
		case KSlice:
			bytes = v.S + ".vis"
		case KBytes:
		default:
			f.fail(c, "argument of binary.LittleEndian.%s", callee.Name())
		}
		if v.N >= need {
			return Val{S: fmt.Sprintf("(GoDec.%s %s)", name, bytes), K: k, N: -1}
		}
		// length not known statically: `_ = b[need-1]` may panic
		if v.K != KSlice {
			f.fail(c, "binary.LittleEndian.%s of a short array", callee.Name())
		}
		t := f.tmp()
		f.w("let %s ← %s", t, f.lift(fmt.Sprintf("GoDec.%sGo %s", name, v.S)))
		return Val{S: t, K: k, N: -1}
	}
	switch fullName(callee) {
	case "crypto/hmac.Equal":
		// subtle.ConstantTimeCompare: true exactly when the two byte strings have the same length and contents
		a, b := f.bytesOf(c, f.expr(c.Args[0])), f.bytesOf(c, f.expr(c.Args[1]))
		return Val{S: fmt.Sprintf("(%s == %s)", paren(a), paren(b)), K: KBool, N: -1}
	}
	if callee == nil {
		if v, ok := f.extCall(c); ok {
			return v
		}
		f.fail(c, "call of %s (not a statically known function)", types.ExprString(c.Fun))
	}
	if v, ok := f.extCall(c); ok {
		return v
	}
	// a pure helper: value receiver or package-level function, basic parameters, one basic result
	return f.pureCall(c, callee)
}

func (f *fn) conversion(c *ast.CallExpr, to types.Type) Val {
	arg := c.Args[0]
	if b, ok := to.Underlying().(*types.Basic); ok && b.Kind() == types.String {
		v := f.expr(arg)
		if v.K == KSlice {
			return Val{S: v.S + ".vis", K: KBytes, N: v.N}
		}
		if v.K == KList && v.E == KI32 {
			// string([]rune): the UTF-8 encoding of the runes
			return Val{S: fmt.Sprintf("(GoDec.stringOfRunes %s)", paren(v.S)), K: KBytes, N: -1}
		}
		f.fail(c, "conversion to string")
	}
	k, _, ok := f.kindOfType(to)
	if !ok {
		f.fail(c, "conversion to %s", to)
	}
	if k == KInt {
		if v, ok := f.floatIdiom(c, arg); ok {
			return v
		}
	}
	v := f.expr(arg)
	switch {
	case k == v.K:
		return v
	// signed fixed-width integers: Lean's IntN / UIntN conversions are Go's (same bits, truncation, sign extension)
	case swidth(k) > 0 && width(v.K) == swidth(k): // uintN -> intN: same bits
		return Val{S: fmt.Sprintf("(%s).to%s", v.S, leanKindType(k)), K: k, N: -1}
	case width(k) > 0 && swidth(v.K) == width(k): // intN -> uintN: same bits
		return Val{S: fmt.Sprintf("(%s).to%s", v.S, leanKindType(k)), K: k, N: -1}
	case swidth(k) > 0 && swidth(v.K) > 0: // truncation or sign extension
		return Val{S: fmt.Sprintf("(%s).to%s", v.S, leanKindType(k)), K: k, N: -1}
	case swidth(k) > 0 && width(v.K) > 0 && width(v.K) < swidth(k): // zero extension into a wider signed type: exact
		return Val{S: fmt.Sprintf("(%s.ofNat (%s).toNat)", leanKindType(k), v.S), K: k, N: -1}
	case k == KInt && swidth(v.K) > 0:
		return Val{S: fmt.Sprintf("(%s).toInt", v.S), K: KInt, N: -1}
	case width(k) > 0 && width(v.K) > 0:
		return Val{S: fmt.Sprintf("(%s).to%s", v.S, leanKindType(k)), K: k, N: -1}
	case width(k) > 0 && v.K == KNat:
		return Val{S: fmt.Sprintf("(%s.ofNat %s)", leanKindType(k), paren(v.S)), K: k, N: -1}
	case width(k) > 0 && v.K == KInt:
		// truncation of a two's-complement int: the residue modulo 2^width (Lean's `%` on ℤ with a positive modulus is non-negative)
		return Val{S: fmt.Sprintf("(%s.ofNat (Int.toNat (%s %% %d)))", leanKindType(k), paren(v.S), int64(1)<<uint(width(k))), K: k, N: -1}
	case k == KInt && width(v.K) > 0:
		return Val{S: fmt.Sprintf("(%s).toNat", v.S), K: KNat, N: -1}
	case k == KInt && (v.K == KNat || v.K == KInt):
		return v
	}
	f.fail(c, "conversion from kind %d to %s", v.K, to)
	return Val{}
}

// pureCall: translate (once) a loop-free helper without side effects into a Lean definition and apply it
func (f *fn) pureCall(c *ast.CallExpr, callee *types.Func) Val {
	src, ok := f.g.funcs[callee]
	if !ok {
		f.fail(c, "call of %s: no source", callee.FullName())
	}
	sig := callee.Type().(*types.Signature)
	if sig.Results().Len() != 1 {
		f.fail(c, "call of %s in an expression", callee.FullName())
	}
	if sig.Recv() != nil {
		if _, isPtr := sig.Recv().Type().(*types.Pointer); isPtr {
			f.fail(c, "call of pointer-receiver method %s in an expression", callee.FullName())
		}
	}
	rk, rn, ok := f.kindOfType(sig.Results().At(0).Type())
	if !ok || rk == KSlice {
		f.fail(c, "call of %s: result type %s", callee.FullName(), sig.Results().At(0).Type())
	}
	name := callee.Pkg().Name() + "_" + callee.Name()
	if sig.Recv() != nil {
		if n, ok := sig.Recv().Type().(*types.Named); ok {
			name = n.Obj().Name() + "_" + callee.Name()
		}
	}
	var args []string
	if sig.Recv() != nil {
		se := c.Fun.(*ast.SelectorExpr)
		v := f.expr(se.X)
		if v.K == KSlice || v.K == KStruct {
			f.fail(c, "receiver of %s", callee.FullName())
		}
		args = append(args, paren(argTerm(f, v, sig.Recv().Type())))
	}
	for i, a := range c.Args {
		v := f.expr(a)
		if v.K == KStruct {
			f.fail(c, "argument of %s", callee.FullName())
		}
		if v.K == KSlice {
			args = append(args, v.S+".vis")
			continue
		}
		args = append(args, paren(argTerm(f, v, sig.Params().At(i).Type())))
	}
	if _, done := f.g.defs[name]; !done {
		if f.g.inProgress[name] {
			f.fail(c, "recursive call of %s", callee.FullName())
		}
		f.g.inProgress[name] = true
		h := f.g.newFn(src, nil)
		h.pure = true
		var ps []string
		bind := func(id *ast.Ident) {
			obj := h.info.Defs[id]
			k, n, ok := h.kindOfType(obj.Type())
			if !ok {
				f.fail(c, "call of %s: parameter type %s", callee.FullName(), obj.Type())
			}
			if k == KSlice { // a helper that only ranges over a slice sees its len(…) bytes
				k = KBytes
			}
			h.vars[obj] = Val{S: h.nameOf(obj), K: k, N: n}
			ps = append(ps, fmt.Sprintf("(%s : %s)", h.nameOf(obj), leanKindType(k)))
		}
		if src.decl.Recv != nil {
			if len(src.decl.Recv.List[0].Names) != 1 {
				f.fail(c, "call of %s: unnamed receiver", callee.FullName())
			}
			bind(src.decl.Recv.List[0].Names[0])
		}
		for _, p := range src.decl.Type.Params.List {
			for _, id := range p.Names {
				bind(id)
			}
		}
		h.results = []Kind{rk}
		func() {
			defer func() {
				if r := recover(); r != nil {
					if gu, ok := r.(giveUp); ok {
						panic(giveUp{fmt.Sprintf("%s (in helper %s)", gu.msg, callee.FullName())})
					}
					panic(r)
				}
			}()
			h.pureBlock(src.decl.Body.List, 1, rk)
		}()
		pos := src.pkg.Fset.Position(src.decl.Pos())
		text := fmt.Sprintf("/-- translated from `%s` (%s) -/\ndef %s %s : %s :=\n%s\n", callee.FullName(), shortFile(pos.Filename), name,
			strings.Join(ps, " "), leanKindType(rk), strings.Join(h.lines, "\n"))
		f.g.defs[name] = text
		f.g.defOrder = append(f.g.defOrder, name)
		delete(f.g.inProgress, name)
	}
	return Val{S: fmt.Sprintf("(%s %s)", name, strings.Join(args, " ")), K: rk, N: rn}
}

// argTerm: v passed where Go type t is expected (KNat where int is expected becomes Int)
func argTerm(f *fn, v Val, t types.Type) string {
	k, _, _ := f.kindOfType(t)
	if k == KInt {
		return f.asInt(v)
	}
	return v.S
}

// pureBlock: `v := e`, `if c { return e }`, `return e` — no indexing, no receiver
func (f *fn) pureBlock(stmts []ast.Stmt, ind int, rk Kind) {
	f.ind = ind
	for i, s := range stmts {
		before := len(f.lines)
		switch s := s.(type) {
		case *ast.AssignStmt:
			if len(s.Lhs) != 1 || len(s.Rhs) != 1 {
				f.fail(s, "multiple assignment")
			}
			id, ok := s.Lhs[0].(*ast.Ident)
			if !ok {
				f.fail(s, "assignment to a non-variable")
			}
			f.localAssign(s, id, s.Tok.String(), s.Rhs[0])
		case *ast.IfStmt:
			if s.Init != nil || s.Else != nil || len(s.Body.List) != 1 {
				f.fail(s, "if statement form in a pure helper")
			}
			ret, ok := s.Body.List[0].(*ast.ReturnStmt)
			if !ok || len(ret.Results) != 1 {
				f.fail(s, "if statement form in a pure helper")
			}
			c := f.expr(s.Cond)
			v := f.expr(ret.Results[0])
			f.w("if %s then %s else", c.S, f.coerce(ret, v, rk))
		case *ast.RangeStmt:
			f.rangeFold(s)
		case *ast.SwitchStmt:
			// `switch tag { case c: return e … [default: return e] }`
			if s.Init != nil || s.Tag == nil {
				f.fail(s, "switch form in a pure helper")
			}
			tag := f.expr(s.Tag)
			if width(tag.K) == 0 {
				f.fail(s, "switch tag of unsupported kind")
			}
			for ci, cl := range s.Body.List {
				cc := cl.(*ast.CaseClause)
				if len(cc.Body) != 1 {
					f.fail(cc, "switch clause form in a pure helper")
				}
				ret, ok := cc.Body[0].(*ast.ReturnStmt)
				if !ok || len(ret.Results) != 1 {
					f.fail(cc, "switch clause form in a pure helper")
				}
				v := f.expr(ret.Results[0])
				if cc.List == nil {
					if ci != len(s.Body.List)-1 {
						f.fail(cc, "default clause that is not last")
					}
					f.w("%s", f.coerce(ret, v, rk))
					if i != len(stmts)-1 {
						f.fail(s, "statements after a switch with a default clause")
					}
					return
				}
				var alts []string
				for _, e := range cc.List {
					cv := f.expr(e)
					if cv.K != tag.K {
						f.fail(e, "case expression")
					}
					alts = append(alts, fmt.Sprintf("%s == %s", paren(tag.S), cv.S))
				}
				f.w("if (%s) then %s else", strings.Join(alts, " || "), f.coerce(ret, v, rk))
			}
		case *ast.ReturnStmt:
			if len(s.Results) != 1 || i != len(stmts)-1 {
				f.fail(s, "return form in a pure helper")
			}
			v := f.expr(s.Results[0])
			f.w("%s", f.coerce(s, v, rk))
			for _, l := range f.lines[before:] {
				if strings.Contains(l, "←") {
					f.fail(s, "indexing in a pure helper")
				}
			}
			return
		default:
			f.fail(s, "statement in a pure helper")
		}
		for _, l := range f.lines[before:] {
			if strings.Contains(l, "←") {
				f.fail(s, "indexing in a pure helper")
			}
		}
	}
	panic(giveUp{"pure helper without a final return"})
}

// coerce v to the kind want (KNat → KInt only)
func (f *fn) coerce(n ast.Node, v Val, want Kind) string {
	if v.K == want {
		if v.K == KBool {
			return boolTerm(v)
		}
		return v.S
	}
	if want == KInt && v.K == KNat {
		return f.asInt(v)
	}
	f.fail(n, "value of kind %d where kind %d is expected", v.K, want)
	return ""
}

func constInt(info *types.Info, e ast.Expr) (int64, bool) {
	if tv, ok := info.Types[e]; ok && tv.Value != nil && tv.Value.Kind() == constant.Int {
		return constant.Int64Val(tv.Value)
	}
	return 0, false
}

// rangeFold: `for _, b := range bytes { acc op= e }` as a left fold over the byte list
func (f *fn) rangeFold(s *ast.RangeStmt) {
	if s.Key != nil {
		if id, ok := s.Key.(*ast.Ident); !ok || id.Name != "_" {
			f.fail(s, "range loop with an index variable")
		}
	}
	vid, ok := s.Value.(*ast.Ident)
	if !ok || s.Tok.String() != ":=" {
		f.fail(s, "range loop form")
	}
	over := f.expr(s.X)
	if over.K != KBytes {
		f.fail(s, "range over a value of unsupported kind")
	}
	if len(s.Body.List) != 1 {
		f.fail(s, "range loop body with more than one statement")
	}
	as, ok := s.Body.List[0].(*ast.AssignStmt)
	if !ok || len(as.Lhs) != 1 || len(as.Rhs) != 1 {
		f.fail(s, "range loop body")
	}
	accId, ok := as.Lhs[0].(*ast.Ident)
	if !ok {
		f.fail(s, "range loop body")
	}
	accObj := f.info.Uses[accId]
	acc, known := f.vars[accObj]
	if !known || width(acc.K) == 0 {
		f.fail(s, "range loop accumulator")
	}
	vobj := f.info.Defs[vid]
	vname := f.nameOf(vobj)
	f.vars[vobj] = Val{S: vname, K: KU8, N: -1}
	// translate the body into a scratch buffer: it must be a single `let acc := …`
	saved := f.lines
	f.lines = nil
	f.localAssign(as, accId, as.Tok.String(), as.Rhs[0])
	body := f.lines
	f.lines = saved
	if len(body) != 1 || f.vars[accObj].K != acc.K {
		f.fail(s, "range loop body")
	}
	rhs := body[0][strings.Index(body[0], ":= ")+3:]
	f.w("let %s : %s := List.foldl (fun %s %s => %s) %s %s", acc.S, leanKindType(acc.K), acc.S, vname, rhs, acc.S, paren(over.S))
}
